"""C20 - maps are aliases of their source; layout conversions are exact inverses; constructors store row-major.
Coq theorems (Properties_C20.v) + correspondence: operation histories are driven at run time through a source
tensor and several maps of it (at every misalignment for raw buffers), layout conversions per generated shape."""
import os, sys, json
sys.path.insert(0, os.path.join(os.path.dirname(os.path.abspath(__file__)), '..', 'lib'))
from common import *

PID = 'C20'
TYPES = {'double': ('double', 8), 'float': ('float', 4), 'int32': ('int32_t', 4), 'int64': ('int64_t', 8)}
# vias of family 0 (24 elements): 0 source Tensor<T,2,3,4>, 1 flatten, 2 reshape<4,6>, 3 TensorMap<T,3,8>, 4 reshape<2,12>
# family 1 (24 elements, Tensor<T,1,6,1,4>): 0 source, 1 flatten, 2 squeeze (6,4)
# family 2: raw buffer at a byte misalignment, vias: 0 TensorMap<T,2,3,4>, 1 TensorMap<T,24>, 2 TensorMap<T,4,6>
NVIA = {0: 5, 1: 3, 2: 3}
NOPS = 8

def cpp_source(ty):
    T = TYPES[ty][0]
    L = ['#include <Fastor/Fastor.h>', '#include "vh.h"', '#include <sstream>', '#include <iostream>', '#include <vector>', '#include <array>', 'using namespace Fastor;', 'typedef %s T;' % T]
    L.append(r'''
template<typename M> static void do_op(M&& m, int op, long arg) {
    typedef typename std::remove_reference<M>::type MT;
    Tensor<T,24> oth; for (int i = 0; i < 24; ++i) oth.data()[i] = (T)(1 + (i * 5) % 7);
    typename MT::result_type other; for (int i = 0; i < 24; ++i) other.data()[i] = oth.data()[i];
    switch (op) {
      case 0: m.fill((T)arg); break;
      case 1: m += (T)arg; break;
      case 2: m *= (T)2; break;
      case 3: m -= other; break;
      case 4: m = m*(T)2 + (T)1; break;
      case 5: m += m; break;
      case 6: m = other + (T)arg; break;
      case 7: m *= other; break;
    }
}
static void print_buf(long id, int step, const T* p) { std::printf("B %ld %d", id, step); for (int i = 0; i < 24; ++i) vh_put(p[i]); std::printf("\n"); }
''')
    L.append('static void hist(long id, std::istringstream& in) { int fam, mis, n; in >> fam >> mis >> n;')
    L.append('  alignas(64) unsigned char raw[64 + 24*sizeof(T) + 128]; for (size_t i = 0; i < sizeof raw; ++i) raw[i] = 0x5a;')
    L.append('  Tensor<T,2,3,4> A0; Tensor<T,1,6,1,4> A1; T* rp = reinterpret_cast<T*>(raw + 64 + mis);')
    L.append('  for (int i = 0; i < 24; ++i) { A0.data()[i] = (T)(i + 1); A1.data()[i] = (T)(i + 1); T v = (T)(i + 1); std::memcpy(raw + 64 + mis + i*sizeof(T), &v, sizeof(T)); }')
    L.append('  for (int s = 0; s < n; ++s) { int via, op; long arg; in >> via >> op >> arg;')
    L.append('    if (fam == 0) { switch (via) { case 0: do_op(A0, op, arg); break; case 1: do_op(flatten(A0), op, arg); break; case 2: do_op(reshape<4,6>(A0), op, arg); break; case 3: do_op(TensorMap<T,3,8>(A0.data()), op, arg); break; default: do_op(reshape<2,12>(A0), op, arg); } print_buf(id, s, A0.data());')
    L.append('      T sm = sum(flatten(A0)); T sm2 = sum(A0); std::printf("S %ld %d", id, s); vh_put(sm); vh_put(sm2); std::printf("\\n"); }')
    L.append('    else if (fam == 1) { switch (via) { case 0: do_op(A1, op, arg); break; case 1: do_op(flatten(A1), op, arg); break; default: do_op(squeeze(A1), op, arg); } print_buf(id, s, A1.data()); }')
    L.append('    else { switch (via) { case 0: do_op(TensorMap<T,2,3,4>(rp), op, arg); break; case 1: do_op(TensorMap<T,24>(rp), op, arg); break; default: do_op(TensorMap<T,4,6>(rp), op, arg); }')
    L.append('      T tmp[24]; std::memcpy(tmp, raw + 64 + mis, sizeof tmp); print_buf(id, s, tmp); int dmg = 0; for (int i = 0; i < 64 + mis; ++i) if (raw[i] != 0x5a) ++dmg; for (size_t i = 64 + mis + 24*sizeof(T); i < sizeof raw; ++i) if (raw[i] != 0x5a) ++dmg; std::printf("F %ld %d %d\\n", id, s, dmg); }')
    L.append('  } }')
    return '\n'.join(L)

LSHAPES = [(5,), (2, 3), (3, 2), (4, 4), (1, 5), (2, 3, 4), (4, 3, 2), (2, 2, 3), (3, 3, 3), (2, 5, 2), (3, 1, 2), (2, 3, 2, 5), (3, 1, 2, 2), (2, 2, 2, 2), (5, 2, 1, 3), (2, 3, 3, 2)]

def cpp_layout(ty):
    T = TYPES[ty][0]
    L = []
    for si, sh in enumerate(LSHAPES):
        dd = ','.join(str(d) for d in sh); n = 1
        for d in sh: n *= d
        L.append('static void lay%d() { Tensor<T,%s> A; A.iota(0); const long id = %d;' % (si, dd, si))
        L.append('  { Tensor<T,%s> r = torowmajor(A); vh_line("TR", id, r.data(), %d); }' % (dd, n))
        L.append('  { Tensor<T,%s> r = tocolumnmajor(A); vh_line("TC", id, r.data(), %d); }' % (dd, n))
        L.append('  { Tensor<T,%s> r = tocolumnmajor(torowmajor(A)); vh_line("RT1", id, r.data(), %d); Tensor<T,%s> q = torowmajor(tocolumnmajor(A)); vh_line("RT2", id, q.data(), %d); }' % (dd, n, dd, n))
        L.append('  { T buf[%d]; for (int i = 0; i < %d; ++i) buf[i] = (T)i; Tensor<T,%s> r(buf, ColumnMajor); vh_line("PC", id, r.data(), %d); Tensor<T,%s> q(buf); vh_line("PR", id, q.data(), %d); Tensor<T,%s> q2(buf, RowMajor); vh_line("PR", id, q2.data(), %d); }' % (n, n, dd, n, dd, n, dd, n))
        L.append('  { std::array<T,%d> arr; std::vector<T> vec(%d); for (int i = 0; i < %d; ++i) { arr[i] = (T)i; vec[i] = (T)i; } Tensor<T,%s> r(arr, ColumnMajor); vh_line("PC", id, r.data(), %d); Tensor<T,%s> q(vec, ColumnMajor); vh_line("PC", id, q.data(), %d); Tensor<T,%s> r2(arr); vh_line("PR", id, r2.data(), %d); Tensor<T,%s> q2(vec); vh_line("PR", id, q2.data(), %d); }' % (n, n, n, dd, n, dd, n, dd, n, dd, n))
        L.append('}')
    # initializer lists
    L.append('static void inits() { Tensor<T,5> a = {0,1,2,3,4}; vh_line("PR", 100, a.data(), 5); Tensor<T,2,3> b = {{0,1,2},{3,4,5}}; vh_line("PR", 101, b.data(), 6);')
    L.append('  Tensor<T,2,2,3> c = {{{0,1,2},{3,4,5}},{{6,7,8},{9,10,11}}}; vh_line("PR", 102, c.data(), 12); Tensor<T,2,2,2,2> d = {{{{0,1},{2,3}},{{4,5},{6,7}}},{{{8,9},{10,11}},{{12,13},{14,15}}}}; vh_line("PR", 103, d.data(), 16);')
    L.append('  Tensor<T,2,3> e(b); e(1,2) = (T)50; vh_line("PS", 104, e.data(), 6); }')
    L.append('int main() { ' + ' '.join('lay%d();' % i for i in range(len(LSHAPES))) + ' inits();')
    L.append('  std::string line; while (std::getline(std::cin, line)) { if (line.empty()) continue; std::istringstream in(line); std::string cmd; long id; in >> cmd >> id; if (cmd == "H") hist(id, in); } return 0; }')
    return '\n'.join(L)

def gen_hist(sd, tr):
    g = LCG(sd * 23 + 9); quick = tr == 'quick'
    H = []
    for fam in (0, 1, 2):
        miss = [0] if fam != 2 else (list(range(0, 64, 1)) if not quick else list(range(0, 64, 4)) + [1, 3, 7, 63])
        for mis in miss:
            for rep in range((6 if quick else 40) if fam != 2 else 1 + (0 if quick else 3)):
                n = g.randint(2, 8 if quick else 12)
                steps = []
                for s in range(n):
                    # alternate between the source and the maps
                    via = 0 if (s % 2 == 0 and g.next() % 2) else g.randint(0, NVIA[fam] - 1)
                    steps.append((via, g.randint(0, NOPS - 1), g.randint(1, 3)))
                H.append({'fam': fam, 'mis': mis, 'steps': steps})
    # systematic: every (via, op) pair at least once per family
    for fam in (0, 1, 2):
        for via in range(NVIA[fam]):
            for op in range(NOPS):
                H.append({'fam': fam, 'mis': 0 if fam != 2 else 4 * (via + op) % 64, 'steps': [(via, op, 2), ((via + 1) % NVIA[fam], (op + 3) % NOPS, 1)]})
    for i, h in enumerate(H): h['id'] = i
    return H

def sim(h, ty):
    b = [i + 1 for i in range(24)]; out = []
    isint = ty.startswith('int'); bits = 32 if ty == 'int32' else 64
    oth = [1 + (i * 5) % 7 for i in range(24)]
    for (via, op, arg) in h['steps']:
        if op == 0: b = [arg] * 24
        elif op == 1: b = [x + arg for x in b]
        elif op == 2: b = [x * 2 for x in b]
        elif op == 3: b = [x - o for x, o in zip(b, oth)]
        elif op == 4: b = [x * 2 + 1 for x in b]
        elif op == 5: b = [x + x for x in b]
        elif op == 6: b = [o + arg for o in oth]
        else: b = [x * o for x, o in zip(b, oth)]
        if isint:
            m = 1 << bits; b = [((x + (m >> 1)) % m) - (m >> 1) for x in b]
        out.append(list(b))
    return out

def main():
    tr = tier(); sd = seed()
    rep = Report(PID, 'proof')
    proof = prove('Properties_C20.v')
    handle_proof(rep, proof, 'see correspondence results of this run')
    H = gen_hist(sd, tr); byid = {h['id']: h for h in H}
    cfgs = quick_grid() if tr == 'quick' else thorough_grid()
    types = list(TYPES)
    ocaml_ready()
    stdin = '\n'.join('H %d %d %d %d %s' % (h['id'], h['fam'], h['mis'], len(h['steps']), ' '.join('%d %d %d' % s for s in h['steps'])) for h in H) + '\n'
    def build_run(job):
        cfg, ty = job
        exe, log = compile_cpp(cpp_source(ty) + '\n' + cpp_layout(ty), cfg)
        if exe is None: return ('B', cfg, ty, None, log)
        return ('B', cfg, ty, run_exe(exe, stdin=stdin, timeout=900), log)
    def model_run(_):
        st = []
        for si, sh in enumerate(LSHAPES):
            dl = '[' + ';'.join(str(d) for d in sh) + ']'
            st.append('pn "TR" %d (run_torowmajor %s)' % (si, dl)); st.append('pn "TC" %d (run_tocolumnmajor %s)' % (si, dl))
        res = {}
        for ln in ocaml_eval(st):
            p = ln.split(); res[(p[0], int(p[1]))] = [int(x) for x in p[2:]]
        return ('M', 0, res)
    def coq_run(_):
        txt = 'From Coq Require Import List. Import ListNotations.\nFrom FastorV Require Import Model.Run.\nEval vm_compute in [%s].' % ';\n '.join('run_torowmajor %s' % natlist(sh) for sh in LSHAPES[:10])
        return ('V', 0, parse_coq_lists(coq_eval(txt))[0])
    allres = pmap(lambda j: j[0](j[1]), [(build_run, (cfg, ty)) for cfg in cfgs for ty in types] + [(model_run, 0), (coq_run, 0)])
    model = next(r[2] for r in allres if r[0] == 'M')
    for r in allres:
        if r[0] == 'V':
            for si, v in enumerate(r[2]):
                if model[('TR', si)] != v: rep.violation('extracted run_torowmajor differs from vm_compute', {'shape': LSHAPES[si]}, no_input=True, key='extraction')
    n_eval = 0; mism = []; dist = {}
    sims = {ty: {h['id']: sim(h, ty) for h in H} for ty in types}
    for r in allres:
        if r[0] != 'B': continue
        _, cfg, ty, res, log = r
        if res is None: rep.violation('harness does not compile under %s (%s)' % (cfg.name, ty), {'cfg': cfg.name, 'log': log[-3000:]}, no_input=True, key='compile:%s' % cfg.name); continue
        rc, out, err = res
        if rc != 0: rep.violation('harness crashed under %s (%s): exit %s' % (cfg.name, ty, rc), {'cfg': cfg.name, 'stderr': err[-300:]}, key='crash:%s:%s' % (cfg.name, ty))
        for ln in out.splitlines():
            p = ln.split()
            if not p: continue
            tag = p[0]
            if tag in ('TR', 'TC', 'RT1', 'RT2', 'PC', 'PR', 'PS'):
                sid = int(p[1]); vals = [int(parse_num(v)) for v in p[2:]]; n_eval += 1; dist['layout/' + tag] = dist.get('layout/' + tag, 0) + 1
                if tag == 'TR': exp = model[('TR', sid)]
                elif tag in ('TC', 'PC'): exp = model[('TC', sid)]
                elif tag == 'PS': exp = [0, 1, 2, 3, 4, 50]
                else: exp = list(range(len(vals)))
                if vals != exp: mism.append({'what': 'layout-' + tag, 'cfg': cfg.name, 'ty': ty, 'case': {'shape': LSHAPES[sid] if sid < 100 else 'initializer-list %d' % sid}, 'detail': 'got %s expected %s' % (vals[:24], exp[:24])})
            elif tag == 'B':
                cid, step = int(p[1]), int(p[2]); h = byid[cid]; vals = [parse_num(v) for v in p[3:]]
                n_eval += 1; dist['history/fam%d' % h['fam']] = dist.get('history/fam%d' % h['fam'], 0) + 1
                exp = sims[ty][cid][step]
                if not all(not isinstance(a, str) and Fraction(a) == b for a, b in zip(vals, exp)):
                    mism.append({'what': 'history', 'cfg': cfg.name, 'ty': ty, 'case': dict(h, failing_step=step), 'detail': 'after step %d (via %d op %d): buffer %s expected %s' % (step, h['steps'][step][0], h['steps'][step][1], [str(v) for v in vals[:8]], exp[:8])})
            elif tag == 'S':
                cid, step = int(p[1]), int(p[2]); exp = sum(sims[ty][cid][step])
                if ty.startswith('int'):
                    bits = 32 if ty == 'int32' else 64; m = 1 << bits; exp = ((exp + (m >> 1)) % m) - (m >> 1)
                for v in p[3:]:
                    if Fraction(parse_num(v)) != exp and not (ty == 'float' and abs(float(parse_num(v)) - exp) <= 1e-6 * abs(exp)):
                        mism.append({'what': 'sum-through-map', 'cfg': cfg.name, 'ty': ty, 'case': dict(byid[cid], failing_step=step), 'detail': 'sum %s expected %s' % (v, exp)})
            elif tag == 'F':
                if int(p[3]): mism.append({'what': 'map-fence', 'cfg': cfg.name, 'ty': ty, 'case': dict(byid[int(p[1])], failing_step=int(p[2])), 'detail': '%s bytes outside the wrapped extent changed' % p[3]})
    groups = {}
    for m in mism:
        key = (m['what'], m['cfg'], m['ty'])
        size = len(m['case'].get('steps', [])) if isinstance(m['case'], dict) else 0
        if key not in groups or size < groups[key][0]: groups[key] = (size, m)
    for key, (size, m) in sorted(groups.items(), key=lambda kv: str(kv[0])):
        cfgo = next(x for x in cfgs if x.name == m['cfg'])
        kkey = '%s:%s:%s:%s' % (m['what'], m['cfg'], m['ty'], json.dumps(m['case'], default=str).replace(' ', '')[:200])
        rep.violation('map / layout behaviour differs (%s): %s' % (m['what'], m['detail'][:300]), {'mismatch': m, 'compile_cmd': ' '.join(cfgo.cmd('t.cpp', 't.exe')), 'harness': 'props/c20.py cpp_source+cpp_layout(%r)' % m['ty']}, key=kkey)
    rep.cov.update({'evaluations': n_eval, 'distinct_nontrivial': len(H) + len(LSHAPES),
                    'rule': 'histories: random sequences (2..8 steps) of 8 operations (fill, scalar +=, *=, tensor -=, self-referencing expression, x += x, expression assignment, tensor *=) applied alternately through an owning tensor and its flatten / reshape / squeeze / TensorMap aliases, and through TensorMaps over a raw buffer at byte misalignments 0..63, the buffer compared after every step with one abstract array; every (alias kind, operation) pair systematically; layout: torowmajor / tocolumnmajor / both round trips / Tensor(ptr|std::array|std::vector, ColumnMajor|RowMajor) / initializer lists on %d shapes of rank 1-4 against the Coq model' % len(LSHAPES),
                    'samples': [H[0], H[len(H) // 2]], 'configurations': [c.name for c in cfgs], 'distribution': dist, 'traces_validated_against_impl': n_eval})
    rep.assumptions = ['maps are modelled as the identity on the buffer (shape and the unaligned flag do not enter the values); the theorem about histories is therefore immediate and the weight is on the correspondence']
    return rep.finish(proof=proof, trusted=['Coq 8.16.1 kernel (coqc), extraction cross-checked by vm_compute', 'lib/common.py, props/c20.py', 'harness/vh.h'])

if __name__ == '__main__':
    sys.exit(main())
