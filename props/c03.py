"""C03 - pairwise einsum equals the Einstein summation it denotes.
Coq theorems (Properties_C03.v) + correspondence: every way of identifying indices between and within two
index lists (ranks <= 3 exhaustively, rank 4 sampled), under every ISA, C++14/17, CONTRACT_OPT variants."""
import os, sys, json, itertools
sys.path.insert(0, os.path.join(os.path.dirname(os.path.abspath(__file__)), '..', 'lib'))
from common import *

PID = 'C03'
TYPES = {'double': 'double', 'float': 'float', 'int32': 'int32_t', 'int64': 'int64_t'}
EXTS = [2, 3, 4, 5, 8, 7, 6]

def matchings(n):
    """all ways of pairing up some of n positions (each label occurs at most twice), as label lists in first-appearance numbering"""
    res = []
    def rec(i, lab, nxt):
        if i == n: res.append(tuple(lab)); return
        if lab[i] is not None: rec(i + 1, lab, nxt); return
        lab[i] = nxt; rec(i + 1, lab, nxt + 1)             # occurs once (so far)
        for j in range(i + 1, n):
            if lab[j] is None:
                lab[j] = nxt; rec(i + 1, lab, nxt + 1); lab[j] = None
        lab[i] = None
    rec(0, [None] * n, 0)
    return res

def gen_cases(sd, tr):
    g = LCG(sd * 31 + 3); quick = tr == 'quick'
    cases = []; tys = list(TYPES)
    for ra in (1, 2, 3, 4):
        for rb in (1, 2, 3, 4):
            if ra == 4 and rb == 4: continue
            pats = matchings(ra + rb)
            if ra + rb >= 6: pats = g.sample(pats, 10 if quick else 60)
            elif ra + rb == 5: pats = g.sample(pats, 14 if quick else len(pats))
            elif quick and ra + rb == 4: pats = g.sample(pats, 8)
            for lab in pats:
                nlab = max(lab) + 1
                exts = g.shuffle(EXTS)[:nlab] if nlab <= len(EXTS) else [2] * nlab
                if g.next() % 4 == 0: exts = [g.choice([2, 3]) for _ in range(nlab)]       # equal extents on distinct labels too
                da = tuple(exts[l] for l in lab[:ra]); db = tuple(exts[l] for l in lab[ra:])
                na = 1
                for d in da: na *= d
                nb = 1
                for d in db: nb *= d
                if na * nb > 40000: continue
                cases.append({'k': 'E2', 'ty': tys[len(cases) % 4], 'I': lab[:ra], 'J': lab[ra:], 'da': da, 'db': db, 'sa': g.next() % 10000, 'sb': g.next() % 10000})
    # single-tensor einsum (traces)
    for r in (2, 3, 4):
        for lab in matchings(r):
            if len(set(lab)) == r: continue
            nlab = max(lab) + 1; exts = g.shuffle(EXTS)[:nlab]
            cases.append({'k': 'E1', 'ty': tys[len(cases) % 4], 'I': lab, 'da': tuple(exts[l] for l in lab), 'sa': g.next() % 10000})
    # explicit output order
    for (I, J) in [((0, 1), (1, 2)), ((0, 1, 2), (2, 3)), ((0, 1), (2, 3)), ((0, 1, 2), (1, 3))]:
        free = [l for l in dict.fromkeys(I + J) if (I + J).count(l) == 1]
        perms = list(itertools.permutations(free))
        for o in (perms if not quick else g.sample(perms, 2)):
            nlab = max(I + J) + 1; exts = g.shuffle(EXTS)[:nlab]
            cases.append({'k': 'EX', 'ty': tys[len(cases) % 4], 'I': I, 'J': J, 'O': o, 'da': tuple(exts[l] for l in I), 'db': tuple(exts[l] for l in J), 'sa': g.next() % 10000, 'sb': g.next() % 10000})
    # inner / outer
    for da in [(5,), (3, 4), (2, 3, 4)]:
        cases.append({'k': 'IN', 'ty': tys[len(cases) % 4], 'da': da, 'sa': g.next() % 10000, 'sb': g.next() % 10000})
        cases.append({'k': 'OU', 'ty': tys[len(cases) % 4], 'da': da, 'db': (2, 3), 'sa': g.next() % 10000, 'sb': g.next() % 10000})
    # the vectorised branch of the general loop nest and the gemm re-routings at extents that are multiples of every vector width
    # (the last index of the second operand is the contiguous, vectorised one), float and double
    for (I, J) in [((1, 0), (1, 2)), ((0, 1), (2, 1, 3)), ((0, 1), (1, 2)), ((0,), (0, 1)), ((0, 1, 2), (2, 3)), ((0, 1), (2, 0, 3))]:
        for last in (4, 6, 8, 10, 16):
            for ty in ('float', 'double'):
                labs = sorted(set(I + J)); ext = {l: g.choice([2, 3]) for l in labs}; ext[J[-1]] = last
                cases.append({'k': 'E2', 'ty': ty, 'I': I, 'J': J, 'da': tuple(ext[l] for l in I), 'db': tuple(ext[l] for l in J), 'sa': g.next() % 10000, 'sb': g.next() % 10000})
    # dyadic products of small vectors (hand-written kernels per size and ISA): outer() and the einsum form
    for m in (2, 3, 4, 5):
        for n in (2, 3, 4, 5):
            for ty in ('float', 'double'):
                if quick and (m + n + (ty == 'float')) % 2: continue
                cases.append({'k': 'OU', 'ty': ty, 'da': (m,), 'db': (n,), 'sa': g.next() % 10000, 'sb': g.next() % 10000})
                cases.append({'k': 'E2', 'ty': ty, 'I': (0,), 'J': (1,), 'da': (m,), 'db': (n,), 'sa': g.next() % 10000, 'sb': g.next() % 10000})
    for i, c in enumerate(cases): c['id'] = i
    return cases

def dd(d): return ','.join(str(x) for x in d)

def cpp_source(shard):
    L = ['#include <Fastor/Fastor.h>', '#include "vh.h"', 'using namespace Fastor;',
         'template<typename R> static void put_result(const char* tag, long id, const R& r) { std::printf("D %ld", id); for (size_t d = 0; d < R::dimension_t::value; ++d) std::printf(" %d", (int)r.dimension(d)); std::printf("\\n"); vh_line(tag, id, r.data(), r.size()); }']
    body = []
    for c in shard:
        T = TYPES[c['ty']]; fn = 'case_%d' % c['id']; body.append('  %s();' % fn)
        L.append('static void %s() { typedef %s T; const long id = %d;' % (fn, T, c['id']))
        na = 1
        for d in c['da']: na *= d
        L.append('  Tensor<T,%s> A; vh_fill(A.data(), %d, %d, -4, 4);' % (dd(c['da']), na, c['sa']))
        if 'db' in c:
            nb = 1
            for d in c['db']: nb *= d
            L.append('  Tensor<T,%s> B; vh_fill(B.data(), %d, %d, -4, 4);' % (dd(c['db']), nb, c['sb']))
        if c['k'] == 'E2':
            L.append('  { auto r = einsum<Index<%s>,Index<%s>>(A, B); put_result("E", id, r); }' % (dd(c['I']), dd(c['J'])))
            if c['id'] % 4 == 0 and len(set(c['I'])) == len(c['I']) and len(set(c['J'])) == len(c['J']):
                # expression operands (abstract_contraction.h) and the contraction<> spelling
                II, JJ = dd(c['I']), dd(c['J'])
                L.append('  { auto r = einsum<Index<%s>,Index<%s>>(A + (T)0 * A, B); put_result("E", id, r); }' % (II, JJ))
                L.append('  { auto r = einsum<Index<%s>,Index<%s>>(A, B + (T)0 * B); put_result("E", id, r); }' % (II, JJ))
                L.append('  { auto r = einsum<Index<%s>,Index<%s>>(A + (T)0 * A, B + (T)0 * B); put_result("E", id, r); }' % (II, JJ))
                L.append('  { auto r = contraction<Index<%s>,Index<%s>>(A, B); put_result("E", id, r); }' % (II, JJ))
                L.append('  { auto r = contraction<Index<%s>,Index<%s>>(A + (T)0 * A, B + (T)0 * B); put_result("E", id, r); }' % (II, JJ))
            L.append('  std::printf("K %%ld %%d %%d %%d\\n", id, (int)internal::is_generalised_matrix_vector<Index<%s>,Index<%s>>::value, (int)internal::is_generalised_vector_matrix<Index<%s>,Index<%s>>::value, (int)internal::is_generalised_matrix_matrix<Index<%s>,Index<%s>>::value);' % ((dd(c['I']), dd(c['J'])) * 3))
        elif c['k'] == 'E1':
            L.append('  { auto r = einsum<Index<%s>>(A); put_result("E", id, r); }' % dd(c['I']))
        elif c['k'] == 'EX':
            L.append('  { auto r = einsum<Index<%s>,Index<%s>,OIndex<%s>>(A, B); put_result("E", id, r); }' % (dd(c['I']), dd(c['J']), dd(c['O'])))
        elif c['k'] == 'IN':
            L.append('  Tensor<T,%s> B; vh_fill(B.data(), %d, %d, -4, 4); { T r = inner(A, B); vh_line("E", id, &r, 1); }' % (dd(c['da']), na, c['sb']))
        else:
            L.append('  { auto r = outer(A, B); put_result("E", id, r); }')
        L.append('}')
    return '\n'.join(L) + '\nint main() {\n' + '\n'.join(body) + '\n  return 0; }\n'

def brute(I, J, da, db, A, B, O=None):
    """Einstein sum oracle: free labels in order of first appearance (or O), sum over all labels"""
    labs = list(dict.fromkeys(list(I) + list(J))); ext = {}
    for l, d in zip(list(I) + list(J), list(da) + list(db)): ext.setdefault(l, d)
    free = [l for l in labs if (list(I) + list(J)).count(l) == 1] if O is None else list(O)
    od = [ext[l] for l in free]; n = 1
    for d in od: n *= d
    out = [0] * n
    for vals in itertools.product(*[range(ext[l]) for l in labs]):
        e = dict(zip(labs, vals))
        ia = 0
        for l, d in zip(I, da): ia = ia * d + e[l]
        ib = 0
        for l, d in zip(J, db): ib = ib * d + e[l]
        o = 0
        for l in free: o = o * ext[l] + e[l]
        out[o] += A[ia] * (B[ib] if B is not None else 1)
    return od, out

def nl(xs): return '[' + ';'.join(str(x) for x in xs) + ']'

def main():
    tr = tier(); sd = seed()
    rep = Report(PID, 'proof')
    proof = prove('Properties_C03.v')
    handle_proof(rep, proof, 'see correspondence results of this run')
    cases = gen_cases(sd, tr); byid = {c['id']: c for c in cases}
    base = quick_grid() if tr == 'quick' else thorough_grid()
    extra = [Config('avx2', 'c++17', '-O2', ['CONTRACT_OPT=-1']), Config('sse2', 'c++14', '-O2', ['CONTRACT_OPT=1']), Config('avx512', 'c++17', '-O2', ['CONTRACT_OPT=2']), Config('sse42', 'c++14', '-O2', ['CONTRACT_OPT=-1'])]
    cfgs = base + extra
    nshard = 6 if tr == 'quick' else 20
    # the explicit-output form needs C++17 (it does not compile under C++14; the upstream tests build it as C++17 too)
    def within(c): return c['k'] == 'E2' and any(list(c[k]).count(l) == 2 for k in ('I', 'J') for l in c[k])
    ex_cases = [c for c in cases if c['k'] == 'EX']
    wcases = [c for c in cases if within(c)]
    wcases = wcases[::max(1, len(wcases) // (14 if tr == 'quick' else 80))]      # each compiled on its own: many such patterns are rejected by the compiler
    rest = [c for c in cases if c['k'] != 'EX' and not within(c)]
    shards = [rest[i::nshard] for i in range(nshard)] + [ex_cases] + [[c] for c in wcases]
    wcfg_names = {'sse2-cxx14-O2', 'avx2-cxx17-O2'}
    ocaml_ready()
    def data(c):
        na = 1
        for d in c['da']: na *= d
        A = data_ints(c['sa'], na, -4, 4); B = None
        if 'db' in c or c['k'] == 'IN':
            db = c.get('db', c['da']); nb = 1
            for d in db: nb *= d
            B = data_ints(c['sb'], nb, -4, 4)
        return A, B
    def build_run(job):
        cfg, si = job
        exe, log = compile_cpp(cpp_source(shards[si]), cfg)
        if exe is None: return ('B', cfg, si, None, log)
        return ('B', cfg, si, run_exe(exe), log)
    e2 = [c for c in cases if c['k'] == 'E2']
    def model_run(_):
        st = []
        for c in e2:
            A, B = data(c)
            st.append('(let (d, v) = run_einsum %s %s %s %s (zl %s) (zl %s) in pn "D" %d d; pz "E" %d v)' % (nl(c['I']), nl(c['J']), nl(c['da']), nl(c['db']), ml_ints(A), ml_ints(B), c['id'], c['id']))
            st.append('pb "K" %d (run_classify %s %s)' % (c['id'], nl(c['I']), nl(c['J'])))
        res = {}
        for ln in ocaml_eval(st):
            p = ln.split(); res[(p[0], int(p[1]))] = [int(x) for x in p[2:]]
        return ('M', 0, res)
    sub = sorted(e2, key=lambda c: len(c['I']) + len(c['J']))[:30]
    def coq_run(_):
        items = []
        for c in sub:
            A, B = data(c)
            items.append('snd (run_einsum %s %s %s %s %s %s)' % (natlist(c['I']), natlist(c['J']), natlist(c['da']), natlist(c['db']), zlist(A), zlist(B)))
        txt = 'From Coq Require Import ZArith List. Import ListNotations.\nFrom FastorV Require Import Model.Run.\nEval vm_compute in [%s].' % ';\n '.join(items)
        return ('V', 0, dict(zip([c['id'] for c in sub], parse_coq_lists(coq_eval(txt))[0])))
    allres = pmap(lambda j: j[0](j[1]), [(build_run, (cfg, si)) for cfg in cfgs for si in range(len(shards)) if si < nshard or (si == nshard and cfg.std == 'c++17') or (si > nshard and cfg.name in wcfg_names)] + [(model_run, 0), (coq_run, 0)])
    model = next(r[2] for r in allres if r[0] == 'M')
    for r in allres:
        if r[0] == 'V':
            for cid, v in r[2].items():
                if model[('E', cid)] != v: rep.violation('extracted run_einsum differs from vm_compute (case %d)' % cid, {'case': byid[cid]}, no_input=True, key='extraction'); break
    # model vs oracle (the theorem, observed on the extracted code)
    oracle = {}
    for c in cases:
        A, B = data(c)
        if c['k'] == 'E2': oracle[c['id']] = brute(c['I'], c['J'], c['da'], c['db'], A, B)
        elif c['k'] == 'E1': oracle[c['id']] = brute(c['I'], (), c['da'], (), A, None)
        elif c['k'] == 'EX': oracle[c['id']] = brute(c['I'], c['J'], c['da'], c['db'], A, B, O=c['O'])
        elif c['k'] == 'IN': oracle[c['id']] = ([], [sum(x * y for x, y in zip(A, B))])
        else:
            I = tuple(range(len(c['da']))); J = tuple(range(len(c['da']), len(c['da']) + len(c['db'])))
            oracle[c['id']] = brute(I, J, c['da'], c['db'], A, B)
    for c in e2:
        if (model[('D', c['id'])], model[('E', c['id'])]) != (oracle[c['id']][0], oracle[c['id']][1]):
            rep.violation('Coq model disagrees with the Einstein-sum oracle', {'case': c}, no_input=True, key='model-vs-oracle:%s' % json.dumps(c)); break
    n_eval = 0; mism = []; dist = {}; rejected = []
    for r in allres:
        if r[0] != 'B': continue
        _, cfg, si, res, log = r
        if res is None and si > nshard:
            rejected.append((cfg.name, shards[si][0])); continue
        if res is None:
            rep.violation('harness does not compile under %s' % cfg.name, {'cfg': cfg.name, 'log': log[-3000:], 'shard_cases': [dict(c) for c in shards[si]][:3]}, no_input=True, key='compile:%s:%d' % (cfg.name, si)); continue
        rc, out, err = res
        got_ids = set()
        dims = {}
        for ln in out.splitlines():
            p = ln.split()
            if not p: continue
            tag, cid = p[0], int(p[1]); c = byid[cid]; got_ids.add(cid)
            if tag == 'D': dims[cid] = [int(x) for x in p[2:]]; continue
            if tag == 'K':
                n_eval += 1
                if [int(x) for x in p[2:]] != model[('K', cid)]:
                    mism.append({'what': 'classifier', 'cfg': cfg.name, 'case': c, 'detail': 'is_generalised_{matrix_vector,vector_matrix,matrix_matrix} = %s, model %s' % (p[2:], model[('K', cid)])})
                continue
            n_eval += 1; dist[c['k']] = dist.get(c['k'], 0) + 1
            vals = [parse_num(v) for v in p[2:]]; od, ex = oracle[cid]
            if cid in dims and dims[cid] != od: mism.append({'what': 'extents', 'cfg': cfg.name, 'case': c, 'detail': 'result extents %s, Einstein sum has %s' % (dims[cid], od)})
            if not (len(vals) == len(ex) and all(not isinstance(a, str) and Fraction(a) == b for a, b in zip(vals, ex))):
                bad = next((i for i in range(min(len(vals), len(ex))) if isinstance(vals[i], str) or Fraction(vals[i]) != ex[i]), -1)
                mism.append({'what': 'value', 'cfg': cfg.name, 'case': c, 'detail': 'element %d is %s, Einstein sum %s (%d of %d elements compared)' % (bad, vals[bad] if 0 <= bad < len(vals) else None, ex[bad] if 0 <= bad < len(ex) else None, len(vals), len(ex))})
        if rc != 0:
            missing = [c for c in shards[si] if c['id'] not in got_ids]
            first = missing[0] if missing else {}
            mism.append({'what': 'crash', 'cfg': cfg.name, 'case': first, 'detail': 'harness exit %s (%s); first case without output' % (rc, err[-200:])})
    groups = {}
    for m in mism:
        c = m['case']; key = (m['what'], m['cfg'], c.get('ty'), c.get('k'), str(c.get('I')) + str(c.get('J')) if m['what'] in ('value', 'crash', 'classifier', 'extents') else '')
        if key not in groups: groups[key] = m
    for key, m in sorted(groups.items(), key=lambda kv: str(kv[0])):
        c = m['case']; cfgo = next(x for x in cfgs if x.name == m['cfg'])
        pat = 'einsum<Index<%s>%s>' % (dd(c.get('I', ())), (',Index<%s>' % dd(c['J'])) if 'J' in c else '')
        within = any(list(c.get(k, ())).count(l) == 2 for k in ('I', 'J') for l in c.get(k, ()))
        kkey = '%s:%s:%s:%s:%s:%s' % (m['what'], 'repeated-within-operand' if within and c.get('k') == 'E2' else 'plain', m['cfg'], c.get('ty'), pat, dd(c.get('da', ())) + 'x' + dd(c.get('db', ())))
        A, B = data(c) if c else ([], [])
        rep.violation('%s %s: %s' % (pat, m['what'], m['detail'][:260]), {'mismatch': m, 'compile_cmd': ' '.join(cfgo.cmd('t.cpp', 't.exe')), 'A': A, 'B': B, 'program': cpp_source([c]) if c else None}, key=kkey)
    rep.cov.update({'evaluations': n_eval, 'distinct_nontrivial': len({(c['k'], str(c.get('I')), str(c.get('J')), c['da'], c.get('db')) for c in cases}),
                    'rule': 'index patterns = all ways of identifying positions (each label at most twice, between and within the operands) for operand ranks <= 3 (sampled when rank sum >= 5 in the quick tier) and sampled rank 4; extents from {2,3,4,5,8,7,6} distinct per label when possible (and equal extents on distinct labels for a quarter); single-tensor traces, explicit output order, inner, outer; four element types; six ISA configurations plus CONTRACT_OPT in {-1,1,2} under C++14/17; values and result extents compared with a brute-force Einstein sum; classifier meta-functions and the general-route values compared with the Coq model',
                    'samples': [cases[0], cases[len(cases) // 2], cases[-1]], 'patterns_with_repeats_inside_one_operand_rejected_by_the_compiler': ['%s einsum<Index<%s>,Index<%s>>' % (n, dd(c['I']), dd(c['J'])) for n, c in rejected][:40], 'configurations': [c.name for c in cfgs], 'distribution': dist, 'traces_validated_against_impl': n_eval})
    rep.assumptions = ['integer-valued operands (exact in every element type)', '_outer/_cyclic/Voigt intrinsics kernels are tied by I/O only']
    return rep.finish(proof=proof, trusted=['Coq 8.16.1 kernel (coqc), extraction cross-checked by vm_compute', 'lib/common.py, props/c03.py (incl. the brute-force oracle)', 'harness/vh.h'])

if __name__ == '__main__':
    sys.exit(main())
