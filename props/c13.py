"""C13 - QR factors are orthonormal and upper triangular and reproduce the matrix."""
import os, sys
sys.path.insert(0, os.path.join(os.path.dirname(os.path.abspath(__file__)), '..', 'lib'))
from common import *
import linlib
from linlib import CB, eps_of, replay_of, FAMN

PID = 'C13'
def main():
    tr = tier(); sd = seed(); rep = Report(PID, 'proof')
    proof = prove('Properties_C13.v'); handle_proof(rep, proof, 'see correspondence results of this run')
    rows, jobs, cfgs = linlib.run_plan(13, tr, sd, rep)
    n_eval = 0; worst = {}; dist = {}; seen = set()
    for n, ty, cfg, p in rows:
        if p[0] != 'Q': continue
        eps = eps_of(ty); strat, fam = p[1], int(p[2]); o, r, na = [float(x) for x in p[4:7]]; nz, pok = int(p[7]), int(p[8]); dd, prod, ninv = [float(x) for x in p[9:12]]
        n_eval += 1; dist[strat] = dist.get(strat, 0) + 1
        cond = max(na * ninv, 1.0); k = (strat, n, ty, cfg.name)
        bo = CB * n * eps * cond; br = CB * n * eps * max(na, 1e-300); bd = CB * n * eps * cond * max(prod, 1e-300)
        worst[strat] = max(worst.get(strat, 0.0), o / (n * eps * cond), r / (n * eps * max(na, 1e-300)))
        if nz or not pok:
            if ('s',) + k not in seen:
                seen.add(('s',) + k); rep.violation('qr<%s> of a %s %dx%d %s matrix (seed %s) under %s: %d nonzero entries below the diagonal of R, permutation %s' % (strat, FAMN[fam], n, n, ty, p[3], cfg.name, nz, 'ok' if pok else 'NOT a bijection'), replay_of(13, n, ty, cfg, p), key='structure:%s:%d:%s:%s' % (strat, n, ty, cfg.name))
            continue
        det_ok = (dd <= bd) or not (prod < (1e30 if ty == 'float' else 1e290))       # the product of the diagonal overflows the element type: not judged
        if not (o <= bo and r <= br and det_ok) and ('r',) + k not in seen:
            seen.add(('r',) + k)
            rep.violation('qr<%s> of a %s %dx%d %s matrix (seed %s) under %s: |QtQ-I| = %.3g (bound %.3g), |QR-PA| = %.3g (bound %.3g), | |det_QR| - |prod diag R| | = %.3g (bound %.3g)' % (strat, FAMN[fam], n, n, ty, p[3], cfg.name, o, bo, r, br, dd, bd),
                          replay_of(13, n, ty, cfg, p), key='qr:%s:%d:%s:%s' % (strat, n, ty, cfg.name))
    rep.cov.update({'evaluations': n_eval, 'distinct_nontrivial': len(jobs),
                    'rule': 'qr<MGSR> (tensor and expression argument), qr<MGSRPiv> with vector and matrix permutation, determinant<QR>; Q and R pre-filled with a sentinel; sizes %s; float and double; families as C10 (condition numbers up to 1000); |QtQ-I| <= 16*n*eps*cond(A), exact zeros below the diagonal of R, |Q*R - P*A| <= 16*n*eps*|A|, |det_QR| = |prod diag R| within 16*n*eps*cond' % (linlib.QUICK_SIZES if tr == 'quick' else linlib.THOROUGH_SIZES),
                    'configurations': sorted(set(c.name for _, _, c in jobs)), 'size_type_configuration_triples': ['%d/%s/%s' % (n, ty, c.name) for n, ty, c in jobs],
                    'distribution': dist, 'worst_residual_over_its_bound_unit': {k: round(v, 3) for k, v in sorted(worst.items())}, 'traces_validated_against_impl': n_eval})
    rep.assumptions = ['the pivoted variant permutes ROWS (pivot_inplace / apply_pivot): Q*R is compared with the row-permuted input', 'floating bounds measured against, not proved']
    return rep.finish(proof=proof, trusted=['Coq 8.16.1 kernel (coqc)', 'lib/common.py, props/linlib.py, props/c13.py', 'harness/linalg.cpp, harness/vh.h'])
if __name__ == '__main__': sys.exit(main())
