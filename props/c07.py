"""C07 - no operation touches memory outside its operands, for any shape or alignment; no dynamic allocation.
Coq (Properties_C07.v): frame theorems of the modelled operations (writes stay inside the destination, view offsets inside the
parent, masked stores/loads touch enabled lanes only).  Correspondence (the part only the runtime can show): operands flush
against inaccessible pages (harness/memguard.cpp), runtime checks, allocation counter, sanitiser build in the thorough tier."""
import os, sys, json
sys.path.insert(0, os.path.join(os.path.dirname(os.path.abspath(__file__)), '..', 'lib'))
from common import *

PID = 'C07'
HARNESS = os.path.join(VERIF, 'harness', 'memguard.cpp')
TYPES = ['float', 'double', 'int32_t', 'int64_t']

def source(sec, ty, part=0, mmax=5):
    return '#define SEC %d\n#define TY %s\n#define PART %d\n#define MMAX %d\n#line 1 "memguard.cpp"\n%s' % (sec, ty, part, mmax, open(HARNESS).read())

def main():
    tr = tier(); sd = seed()
    rep = Report(PID, 'proof')
    proof = prove('Properties_C07.v')
    handle_proof(rep, proof, 'see correspondence results of this run')
    cfgs = quick_grid() if tr == 'quick' else [c for c in thorough_grid() if c.opt != '-O0' or c.std == 'c++14']
    mmax = 6 if tr == 'quick' else 9
    jobs = []
    for ci, cfg in enumerate(cfgs):
        for ti, ty in enumerate(TYPES):
            jobs.append((cfg, 1, ty, 0))
            if ty in ('float', 'double'):
                for part in (0, 1, 2):
                    if tr == 'quick' and part == 0 and (ci + ti) % 2: continue      # the (M,K,N) cube is the slow translation unit: half of the (configuration, type) pairs
                    jobs.append((cfg, 2, ty, part))
            elif tr == 'thorough' or (ci + ti) % 2 == 0: jobs.append((cfg, 2, ty, 1))
        jobs.append((cfg, 3, 'double', 0))
        jobs.append((Config(cfg.isa, cfg.std, cfg.opt, cfg.macros, cfg.cxx, ('-UNDEBUG',)), 3, 'float', 0))
        jobs.append((Config(cfg.isa, cfg.std, cfg.opt, ('FASTOR_ENABLE_RUNTIME_CHECKS=1',), cfg.cxx), 3, 'int32_t', 0))
    if tr == 'thorough':       # address + undefined-behaviour sanitiser builds of the same harness (no guard pages needed, but they stay)
        for isa in ('sse2', 'avx2', 'avx512'):
            san = Config(isa, 'c++14', '-O1', (), 'g++', ('-fsanitize=address,undefined', '-fno-sanitize-recover=all', '-g'))
            for ty in ('float', 'double'): jobs += [(san, 1, ty, 0), (san, 2, ty, 1), (san, 2, ty, 2)]
    def job(j):
        cfg, sec, ty, part = j
        exe, log = compile_cpp(source(sec, ty, part, mmax), cfg)
        if exe is None: return (j, None, log)
        return (j, run_exe(exe, timeout=2400), log)
    n_ok = 0; per = {}; compiler_widened = []
    for j, r, log in pmap(job, jobs):
        cfg, sec, ty, part = j; tag = 'SEC=%d TY=%s PART=%d' % (sec, ty, part)
        cmdline = ' '.join(cfg.cmd('memguard.cpp', 't.exe')) + ' -DSEC=%d -DTY=%s -DPART=%d -DMMAX=%d' % (sec, ty, part, mmax)
        if r is None:
            rep.violation('memguard.cpp (%s) does not compile under %s' % (tag, cfg.name), {'cfg': cfg.name, 'log': log[-3000:], 'compile_cmd': cmdline}, no_input=True, key='compile:%s:%s' % (cfg.name, tag)); continue
        rc, out, err = r
        fails = [ln for ln in out.splitlines() if ln.startswith('F ')]
        for ln in out.splitlines():
            p = ln.split()
            if p and p[0] == 'S': n_ok += int(p[3]); per['%s/%s' % (cfg.name, tag)] = int(p[3])
        if rc != 0 and not fails:
            rep.violation('memguard (%s) under %s ends with exit code %s: %s' % (tag, cfg.name, rc, (err or out)[-300:].replace('\n', ' | ')), {'cfg': cfg.name, 'section': tag, 'stderr': err[-1500:], 'compile_cmd': cmdline}, key='exit:%s:%s' % (cfg.name, tag))
        # A guard-page fault is attributed to the library only if it does not depend on the optimiser: every access Fastor issues
        # is an explicit element access or an explicit intrinsic of fixed width, present at every optimisation level, whereas
        # g++ -O3 may itself widen an in-bounds scalar read (seen: `vpshufd $0, 12(%r12), %xmm1` - a 16-byte memory operand for
        # the broadcast of one int32 element of a in interior_block_matmul_impl under -mavx). A signal seen above -O1 is therefore
        # re-run on the same program built with -O1 and kept only if it faults there too; the others are counted in the evidence.
        sig_fails = [ln for ln in fails if ln.split()[3:4] == ['signal']]
        if sig_fails and cfg.opt in ('-O2', '-O3'):
            ref = Config(cfg.isa, cfg.std, '-O1', cfg.macros, cfg.cxx, cfg.extra)
            rexe, rlog = compile_cpp(source(sec, ty, part, mmax), ref)
            if rexe is not None:
                rrc, rout, rerr = run_exe(rexe, timeout=2400)
                ref_keys = set(tuple(l.split()[2:4] + l.split()[-3:-1]) for l in rout.splitlines() if l.startswith('F '))
                kept = []
                for ln in fails:
                    q = ln.split()
                    if q[3:4] == ['signal'] and tuple(q[2:4] + q[-3:-1]) not in ref_keys:
                        compiler_widened.append({'cfg': cfg.name, 'section': tag, 'line': ln, 'reference': ref.name}); continue
                    kept.append(ln)
                fails = kept
        seen = set()
        for ln in fails:
            p = ln.split(); what, detail = p[2], ' '.join(p[3:-3]); a, b, c = p[-3:]
            k = (what, detail.split()[0] if detail else '', cfg.name, ty)
            if k in seen: continue
            seen.add(k)
            if what in ('matmul', 'lazy_matmul_add', 'matmul_into_destination', 'map_matmul', 'map_to_matmul'): shape = 'M,K,N = %d,%d,%d' % (int(a) // 10000, int(a) // 100 % 100, int(a) % 100)
            elif what in ('transpose', 'lazy_trans_expr', 'reductions', 'outer_matvec_vecmat', 'views'): shape = 'M,N = %d,%d' % (int(a) // 100, int(a) % 100)
            else: shape = 'size/index %s' % a
            rep.violation('%s on %s %s, operands %s an inaccessible page, under %s: %s%s' % (what, ty, shape, 'starting right after' if b == '1' else 'ending at', cfg.name, detail, (' (signal %s)' % c) if c != '0' else ''),
                          {'cfg': cfg.name, 'section': tag, 'line': ln, 'compile_cmd': cmdline, 'source': 'harness/memguard.cpp'}, key='%s:%s:%s:%s' % (what, detail.split()[0] if detail else '', ty, cfg.name))
    rep.cov.update({'evaluations': n_ok, 'distinct_nontrivial': len(jobs),
                    'rule': 'SEC 1: external buffers of exactly n elements (n = 1..21, 23, 31, 32, 33, 47, 63, 65) wrapped in TensorMap, ending at / starting after an inaccessible page: expressions, in-place operators, conversion, reductions, matmul from maps; SEC 2: owning tensors placed so that their storage ends at a page end: matmul for every (M,K,N) in 1..%d plus larger shapes, transpose / lazy trans / reductions / outer / matrix-vector / views for every (M,N) in 2..9, determinant / inverse / cofactor / adjoint / solve / lu / qr for n = 2..9, 12, 17; SEC 3: allocation counter around expressions, linear algebra, einsum, views (must be 0), and with runtime checks on (-UNDEBUG or FASTOR_ENABLE_RUNTIME_CHECKS) out-of-range indices on a guarded tensor must throw; four element types; %d configurations%s' % (mmax, len(cfgs), '; address+undefined sanitiser builds' if tr == 'thorough' else ''),
                    'configurations': sorted(set(j[0].name for j in jobs)), 'operations_completed_without_fault_and_with_correct_values': n_ok, 'per_translation_unit': per, 'traces_validated_against_impl': n_ok,
                    'faults_attributed_to_the_compiler_not_the_library': {'count': len(compiler_widened), 'rule': 'a guard-page fault seen above -O1 that does not occur on the same program and case built with -O1 (g++ widening an in-bounds scalar read into a vector memory operand)', 'cases': compiler_widened[:20]}})
    for w in compiler_widened[:5]: print('NOTE: fault under %s not reproduced under %s (compiler-widened read, not a library access): %s' % (w['cfg'], w['reference'], w['line']))
    rep.assumptions = ['a guard-page fault above -O1 is attributed to the library only if the same case faults when the program is built with -O1', 'absence of faults, alignment of accesses and absence of allocation are observed on the explored shapes, not proved', 'reads that stay inside an owning tensor\'s padded storage (sizeof(Tensor) rounded up to the alignment) count as inside the operand']
    return rep.finish(proof=proof, trusted=['Coq 8.16.1 kernel (coqc)', 'lib/common.py, props/c07.py', 'harness/memguard.cpp, harness/vh.h (mmap/mprotect guard pages, signal handler, operator new replacement)', 'the Linux kernel delivering SIGSEGV on PROT_NONE pages'])

if __name__ == '__main__':
    sys.exit(main())
