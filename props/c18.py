"""C18 - overlapping slice assignment with noalias() acts on a snapshot of the source."""
import sys, os
sys.path.insert(0, os.path.dirname(os.path.abspath(__file__)))
import viewlib
def main(): return viewlib.view_main('C18', 'Properties_C18.v', ('O',), ('FO',), 'overlapping slice assignment differs from the snapshot semantics')
if __name__ == '__main__': sys.exit(main())
