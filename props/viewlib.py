"""Shared generator / runner for the view properties C04 (reads), C05 (writes), C18 (overlap + noalias).
Dynamic (seq) views are driven at run time (one binary per type covers every range on a fixed set of
parent shapes); compile-time (fseq/iseq/fix/all) views are generated per case."""
import os, sys, json, time
sys.path.insert(0, os.path.join(os.path.dirname(os.path.abspath(__file__)), '..', 'lib'))
from common import *

TYPES = {'double': ('double', 8), 'float': ('float', 4), 'int32': ('int32_t', 4), 'int64': ('int64_t', 8)}
PARENTS = {1: [(1,), (2,), (3,), (4,), (5,), (6,), (7,), (9,), (12,), (17,), (33,)],
           2: [(1, 1), (2, 3), (3, 2), (4, 4), (5, 7), (3, 9), (2, 17), (4, 33)],
           3: [(2, 3, 4), (3, 2, 5), (2, 2, 9), (2, 3, 17)],
           4: [(2, 3, 2, 5)]}
OPS = ['=', '+=', '-=', '*=', '/=']

def norm(oned, d, f, l):
    if oned:
        if l < 0: l += d + 1
        if f < 0: f += d + 1
    else:
        if l < 0 and f >= 0: l += d + 1
        elif l == 0 and f == -1: f, l = d - 1, d
        elif l < 0 and f < 0: f += d + 1; l += d + 1
    return f, l

def admissible(oned, d, f, l, s):
    f2, l2 = norm(oned, d, f, l)
    return s >= 1 and 0 <= f2 < l2 <= d

def rsize(oned, d, f, l, s):
    f2, l2 = norm(oned, d, f, l); r = l2 - f2
    return r // s if r % s == 0 else r // s + 1

def axis_ranges(oned, d, smax=4):
    out = []
    for f in range(-d - 1, d):
        for l in range(-d - 1, d + 1):
            for s in range(1, min(d, smax) + 1):
                if admissible(oned, d, f, l, s): out.append((f, l, s))
    return out

def ev_combos(rank, dims):
    """range combinations whose extents get a compile-time right-hand side that Fastor evaluates into a temporary first
    (requires_evaluation_v: trans(), %, inverse ...): whole parent, shifted by one, every second element, mixed"""
    oned = rank == 1
    cands = [tuple((0, -1, 1) for d in dims), tuple((1, d, 1) for d in dims), tuple((0, -1, 2) for d in dims),
             tuple(((0, -1, 2) if k % 2 == 0 else (1, d, 1)) for k, d in enumerate(dims))]
    out = []
    for c in cands:
        if all(admissible(oned, d, *r) for d, r in zip(dims, c)) and all(rsize(oned, d, *r) >= 1 for d, r in zip(dims, c)) and c not in out: out.append(c)
    return out

def ev_extents(rank, dims):
    out = []
    for c in ev_combos(rank, dims):
        e = tuple(rsize(rank == 1, d, *r) for d, r in zip(dims, c))
        if e not in out: out.append(e)
    return out

def gen_dynamic(sd, tr):
    g = LCG(sd * 3 + 4)
    R = []; W = []; O = []
    quick = tr == 'quick'
    for rank, plist in PARENTS.items():
        for pi, dims in enumerate(plist):
            oned = rank == 1
            per_axis = [axis_ranges(oned, d, 4 if d <= 9 else 3) for d in dims]
            if rank == 1:
                combos = [(r,) for r in per_axis[0]]
                if dims[0] > 9: combos = g.sample(combos, 60 if quick else 400)
                elif quick and dims[0] > 5: combos = g.sample(combos, 120)
            else:
                total = 1
                for a in per_axis: total *= len(a)
                cap = (150 if quick else 1500) if rank == 2 else (60 if quick else 600)
                if total <= cap:
                    combos = [()]
                    for a in per_axis: combos = [c + (r,) for c in combos for r in a]
                else:
                    combos = []
                    seen = set()
                    # every per-axis range at least once (exhaustive per axis), the other axes random
                    for ax, a in enumerate(per_axis):
                        for r in (a if len(a) <= cap // rank else g.sample(a, cap // rank)):
                            c = tuple(r if k == ax else g.choice(per_axis[k]) for k in range(rank))
                            if c not in seen: seen.add(c); combos.append(c)
            for c in combos:
                R.append({'rank': rank, 'p': pi, 'dims': dims, 'rs': c})
            # writes: a sample of the read combos x operators x right-hand-side kinds
            wc = g.sample(combos, min(len(combos), (14 if quick else 80)))
            # targeted: strided leading axes with a non-zero start, long contiguous / strided last axis (vector store routes)
            if rank >= 2:
                lead = [[r for r in [(1, -1, 2), (1, d, 2), (0, -1, 2), (1, -1, 1), (d - 1, d, 1)] if admissible(False, d, *r)] for d in dims[:-1]]
                dl = dims[-1]
                lastax = [r for r in [(0, -1, 1), (1, -1, 1), (2, dl, 1), (0, -1, 2), (1, dl, 2), (0, dl - 1, 3)] if admissible(False, dl, *r)]
                if all(lead) and lastax:
                    for la in lastax:
                        c = tuple(g.choice(a) for a in lead) + (la,)
                        if c not in wc: wc.append(c)
            for c in wc:
                for op in range(5):
                    for rhs in g.sample([0, 1, 2, 3, 4], 3 if quick else 5):
                        W.append({'rank': rank, 'p': pi, 'dims': dims, 'rs': c, 'op': op, 'rhs': rhs})
            # right-hand sides that are evaluated into a temporary first (their own operator overloads in every view class)
            for c in ev_combos(rank, dims):
                for op in range(5):
                    W.append({'rank': rank, 'p': pi, 'dims': dims, 'rs': c, 'op': op, 'rhs': 5})
            # overlap: pairs of equal-extent ranges on the same parent
            bysz = {}
            for c in combos:
                sz = tuple(rsize(oned, d, *r) for d, r in zip(dims, c))
                bysz.setdefault(sz, []).append(c)
            pairs = []
            for sz, cs in bysz.items():
                if len(cs) < 2 and sz: pairs.append((cs[0], cs[0]))
                for a in cs:
                    for b in (cs if (rank == 1 and dims[0] <= 7 and not quick) else g.sample(cs, min(len(cs), 3))):
                        pairs.append((a, b))
            pairs = g.sample(pairs, min(len(pairs), (40 if quick else 600)))
            for (dst, src) in pairs:
                for op in g.sample(range(5), 2 if quick else 5):
                    for na in ((1, 2) if dst != src else (0, 1)):
                        O.append({'rank': rank, 'p': pi, 'dims': dims, 'dst': dst, 'src': src, 'op': op, 'na': na, 'rhs': g.next() % 2})
            # systematic perfect overlap (same range on both sides, with and without noalias, tensor and expression right-hand side,
            # every operator): rank 1 - every contiguous and strided range length (vector body + every remainder); higher ranks - a sample
            if rank == 1:
                d = dims[0]; po = [((f, l, st),) for st in (1, 2) for f in (0, 1) for l in range(f + 1, d + 1) if admissible(True, d, f, l, st)]
            else:
                po = g.sample(combos, min(len(combos), 6 if quick else 40))
            for c in po:
                for op in range(5):
                    for na in (0, 1):
                        for rhs in (0, 1):
                            O.append({'rank': rank, 'p': pi, 'dims': dims, 'dst': c, 'src': c, 'op': op, 'na': na, 'rhs': rhs})
    for i, c in enumerate(R): c['id'] = i
    for i, c in enumerate(W): c['id'] = i
    for i, c in enumerate(O): c['id'] = i
    return R, W, O

# ----------------------------------------------------------------------------------------------
def cpp_dynamic(ty, want=('R', 'W', 'O')):
    T = TYPES[ty][0]
    L = ['#include <Fastor/Fastor.h>', '#include "vh.h"', '#include "views_dyn.h"', 'using namespace Fastor;', 'typedef %s T;' % T]
    # per rank helper: build the view expression text
    def seqargs(rank, names): return ', '.join('seq(%s[%d][0],%s[%d][1],%s[%d][2])' % (names, i, names, i, names, i) for i in range(rank))
    for rank, plist in PARENTS.items():
        for pi, dims in enumerate(plist):
            dd = ','.join(str(d) for d in dims); n = 1
            for d in dims: n *= d
            fn = 'p%d_%d' % (rank, pi)
            va = seqargs(rank, 'r'); vd = seqargs(rank, 'rd'); vs = seqargs(rank, 'rs_')
            L.append('static void %s(const std::string& cmd, long id, std::istringstream& in) {' % fn)
            L.append('  typedef Tensor<T,%s> PT;' % dd)
            if 'R' in want:
                L.append('  if (cmd == "R") { int r[%d][3]; for (int i = 0; i < %d; ++i) in >> r[i][0] >> r[i][1] >> r[i][2];' % (rank, rank))
                L.append('    PT A; A.iota(0); const PT& cA = A;')
                L.append('    { auto v = A(%s); int dv[8]; read_routes<T>(id, v, %d, dv); read_teval<T,%d>(id, v); }' % (va, rank, rank))
                L.append('    { auto v = cA(%s); std::printf("C"); int dv[8]; read_routes<T>(id, v, %d, dv); }' % (va, rank))
                L.append('    return; }')
            L.append('//BEGIN_W')
            L.append('  if (cmd == "W") { int op, rhs; in >> op >> rhs; int r[%d][3]; for (int i = 0; i < %d; ++i) in >> r[i][0] >> r[i][1] >> r[i][2];' % (rank, rank))
            L.append('    Fenced1<T,1> dummy; (void)dummy; struct { alignas(64) T pre[16]; PT A; alignas(64) T post[16]; } F;')
            L.append('    for (int i = 0; i < 16; ++i) { F.pre[i] = (T)77; F.post[i] = (T)77; } for (size_t i = 0; i < %d; ++i) F.A.data()[i] = (T)(10 + i);' % n)
            L.append('    PT B; for (size_t i = 0; i < %d; ++i) B.data()[i] = (T)(5 + (i * 3) %% 7);' % n)
            L.append('    const int n = (int)F.A(%s).size();' % va)
            L.append('    Tensor<T,256>& S = Src<T>::get(); (void)S; (void)n;')
            for op_i, op in enumerate(OPS):
                L.append('    if (op == %d) {' % op_i)
                L.append('      if (rhs == 0) F.A(%s) %s (T)3;' % (va, op))
                L.append('      else if (rhs == 1) F.A(%s) %s S(seq(0,n));' % (va, op))
                L.append('      else if (rhs == 2) F.A(%s) %s S(seq(0,n))*(T)2 + (T)1;' % (va, op))
                L.append('      else if (rhs == 3) F.A(%s) %s B(%s);' % (va, op, va))
                L.append('      else if (rhs == 4) F.A(%s) %s B(%s)*(T)2 + (T)1;' % (va, op, va))
                for e in ev_extents(rank, dims):
                    m = 1
                    for x in e: m *= x
                    el = e[-1]; er = m // el
                    cond = ' && '.join('F.A(%s).dimension(%d) == %d' % (va, k, x) for k, x in enumerate(e)) if rank > 1 else 'n == %d' % m
                    L.append('      else if (rhs == 5 && %s) { Tensor<T,%d,%d> Xt; for (int i = 0; i < %d; ++i) for (int j = 0; j < %d; ++j) Xt(j,i) = S.data()[i*%d+j]; F.A(%s) %s trans(Xt); }' % (cond, el, er, er, el, el, va, op))
                L.append('      else { std::printf("BADRHS %ld\\n", id); }')
                L.append('    }')
            L.append('    std::printf("F %ld", id); int dmg = 0; for (int i = 0; i < 16; ++i) { if (F.pre[i] != (T)77) ++dmg; if (F.post[i] != (T)77) ++dmg; } std::printf(" %d\\n", dmg);')
            L.append('    vh_line("A", id, F.A.data(), %d); return; }' % n)
            L.append('//END_W')
            L.append('//BEGIN_O')
            L.append('  if (cmd == "O") { int op, na, rhs; in >> op >> na >> rhs; int rd[%d][3], rs_[%d][3]; for (int i = 0; i < %d; ++i) in >> rd[i][0] >> rd[i][1] >> rd[i][2]; for (int i = 0; i < %d; ++i) in >> rs_[i][0] >> rs_[i][1] >> rs_[i][2];' % (rank, rank, rank, rank))
            L.append('    PT A; for (size_t i = 0; i < %d; ++i) A.data()[i] = (T)(10 + i);' % n)
            for op_i, op in enumerate(OPS):
                L.append('    if (op == %d) {' % op_i)
                L.append('      if (na == 0) { if (rhs == 0) A(%s) %s A(%s); else A(%s) %s A(%s)*(T)2 + (T)1; }' % (vd, op, vs, vd, op, vs))
                L.append('      else if (na == 1) { if (rhs == 0) A(%s).noalias() %s A(%s); else A(%s).noalias() %s A(%s)*(T)2 + (T)1; }' % (vd, op, vs, vd, op, vs))
                L.append('      else { auto v = A(%s); if (rhs == 0) v.noalias() %s A(%s); else v.noalias() %s A(%s)*(T)2 + (T)1; v += A(%s); }' % (vd, op, vs, op, vs, vd))
                L.append('    }')
            L.append('    vh_line("A", id, A.data(), %d); return; }' % n)
            L.append('//END_O')
            L.append('}')
    L.append('int main() { std::string line; while (std::getline(std::cin, line)) { if (line.empty()) continue; std::istringstream in(line); std::string cmd; long id; int rank, p; in >> cmd >> id >> rank >> p;')
    for rank, plist in PARENTS.items():
        for pi, dims in enumerate(plist):
            L.append('  if (rank == %d && p == %d) { p%d_%d(cmd, id, in); continue; }' % (rank, pi, rank, pi))
    L.append('  } return 0; }')
    out = []; skip = None
    for ln in L:
        if ln.startswith('//BEGIN_'):
            if ln[8:] not in want: skip = ln[8:]
            continue
        if ln.startswith('//END_'):
            skip = None; continue
        if skip is None: out.append(ln)
    return '\n'.join(out)

def flatten_rs(rs): return ' '.join('%d %d %d' % r for r in rs)

def dynamic_input(R, W, O, float_ty):
    L = []
    for c in R: L.append('R %d %d %d %s' % (c['id'], c['rank'], c['p'], flatten_rs(c['rs'])))
    for c in W:
        if float_ty and c['op'] == 4: continue
        L.append('W %d %d %d %d %d %s' % (c['id'], c['rank'], c['p'], c['op'], c['rhs'], flatten_rs(c['rs'])))
    for c in O:
        if float_ty and c['op'] == 4: continue
        L.append('O %d %d %d %d %d %d %s %s' % (c['id'], c['rank'], c['p'], c['op'], c['na'], c['rhs'], flatten_rs(c['dst']), flatten_rs(c['src'])))
    return '\n'.join(L) + '\n'

# ----------------------------------------------------------------------------------------------
# model: offsets of every distinct (rank, dims, ranges) view, from the extracted Coq model
def model_views(views):
    """views: list of (oned, dims, rs); returns dict key -> (extents, offsets)"""
    uniq = sorted(set(views))
    st = []
    for k, (oned, dims, rs) in enumerate(uniq):
        st.append('(let (e, o) = run_view %s [%s] [%s] in pn "X" %d e; pn "Y" %d o)' % (
            'true' if oned else 'false', ';'.join(str(d) for d in dims),
            ';'.join('((z (%d), z (%d)), z (%d))' % r for r in rs), k, k))
        st.append('pb "Z" %d [%s]' % (k, ';'.join('run_admissible %s %d ((z (%d), z (%d)), z (%d))' % ('true' if oned else 'false', d, r[0], r[1], r[2]) for d, r in zip(dims, rs))))
    out = {}
    ext = {}; off = {}; adm = {}
    for ln in ocaml_eval(st):
        p = ln.split()
        if p[0] == 'X': ext[int(p[1])] = [int(x) for x in p[2:]]
        elif p[0] == 'Y': off[int(p[1])] = [int(x) for x in p[2:]]
        else: adm[int(p[1])] = all(int(x) for x in p[2:])
    for k, key in enumerate(uniq): out[key] = (ext[k], off[k], adm[k])
    return out

def coq_views_text(views):
    items = ['run_view %s [%s] [%s]' % ('true' if oned else 'false', '; '.join(str(d) for d in dims), '; '.join('((%d)%%Z, (%d)%%Z, (%d)%%Z)' % r for r in rs)) for (oned, dims, rs) in views]
    return 'From Coq Require Import ZArith List. Import ListNotations.\nFrom FastorV Require Import Model.Run.\nEval vm_compute in [%s].' % ';\n '.join(items)

def cdiv(a, b):
    q = abs(a) // abs(b)
    return q if (a >= 0) == (b >= 0) else -q

def apply(op, old, rhs, ty):
    if op == 0: return rhs
    if op == 1: return old + rhs
    if op == 2: return old - rhs
    if op == 3: return old * rhs
    if ty.startswith('int'): return cdiv(old, rhs)
    return Fraction(old) / Fraction(rhs)

def expected_write(c, mv, ty):
    """whole parent after the W command, from the model's offsets"""
    dims = c['dims']; n = 1
    for d in dims: n *= d
    ext, off, _ = mv[(c['rank'] == 1, dims, c['rs'])]
    A = [10 + i for i in range(n)]
    for i, o in enumerate(off):
        if c['rhs'] == 0: r = 3
        elif c['rhs'] == 1: r = 2 + (i * 7) % 11
        elif c['rhs'] == 2: r = (2 + (i * 7) % 11) * 2 + 1
        elif c['rhs'] == 3: r = 5 + (o * 3) % 7
        elif c['rhs'] == 5: r = 2 + (i * 7) % 11
        else: r = (5 + (o * 3) % 7) * 2 + 1
        A[o] = apply(c['op'], A[o], r, ty)
    return A

def expected_overlap(c, mv, ty):
    dims = c['dims']; n = 1
    for d in dims: n *= d
    _, doff, _ = mv[(c['rank'] == 1, dims, c['dst'])]
    _, soff, _ = mv[(c['rank'] == 1, dims, c['src'])]
    A0 = [10 + i for i in range(n)]; A = list(A0)
    for i, o in enumerate(doff):
        r = A0[soff[i]] if c['rhs'] == 0 else A0[soff[i]] * 2 + 1
        A[o] = apply(c['op'], A0[o], r, ty)
    if c['na'] == 2:
        A1 = list(A)
        for o in doff: A[o] = A1[o] + A1[o]
    return A

def same_val(got, want):
    if isinstance(got, str): return False
    return Fraction(got) == Fraction(want) or (isinstance(want, Fraction) and want.denominator != 1 and abs(float(got) - float(want)) <= 1e-15 * abs(float(want)))

def run_dynamic(cfgs, R, W, O, want=('R', 'W', 'O'), types=None):
    """returns (records, stats): records = list of dict(kind, cfg, ty, case, detail)"""
    types = types or list(TYPES)
    views = set()
    for c in R:
        if 'R' in want: views.add((c['rank'] == 1, c['dims'], c['rs']))
    for c in W:
        if 'W' in want: views.add((c['rank'] == 1, c['dims'], c['rs']))
    for c in O:
        if 'O' in want: views.add((c['rank'] == 1, c['dims'], c['dst'])); views.add((c['rank'] == 1, c['dims'], c['src']))
    ocaml_ready()
    inputs = {ty: dynamic_input(R if 'R' in want else [], W if 'W' in want else [], O if 'O' in want else [], ty in ('float',)) for ty in types}
    def build_run(job):
        cfg, ty = job
        exe, log = compile_cpp(cpp_dynamic(ty, want), cfg)
        if exe is None: return ('B', cfg, ty, None, log)
        return ('B', cfg, ty, run_exe(exe, stdin=inputs[ty], timeout=900), log)
    vl = sorted(views)
    def model_run(_): return ('M', model_views(vl))
    sub = vl[::max(1, len(vl) // 60)][:60]
    def coq_run(_): return ('V', dict(zip(sub, parse_coq_lists(coq_eval(coq_views_text(sub)))[0])))
    allres = pmap(lambda j: j[0](j[1]), [(build_run, (cfg, ty)) for cfg in cfgs for ty in types] + [(model_run, 0), (coq_run, 0)])
    mv = next(r[1] for r in allres if r[0] == 'M')
    recs = []; stats = {'evals': 0, 'cross': 0, 'dist': {}}
    for r in allres:
        if r[0] == 'V':
            for key, v in r[1].items():
                stats['cross'] += 1
                if [v[0], v[1]] != [mv[key][0], mv[key][1]]:
                    recs.append({'kind': 'extraction', 'cfg': '-', 'ty': '-', 'case': {'view': key}, 'detail': 'extracted run_view differs from vm_compute'})
    for key, (e, o, adm) in mv.items():
        if not adm: recs.append({'kind': 'model-admissible', 'cfg': '-', 'ty': '-', 'case': {'view': key}, 'detail': 'generator produced a range the Coq model deems inadmissible'})
    Rb = {c['id']: c for c in R}; Wb = {c['id']: c for c in W}; Ob = {c['id']: c for c in O}
    for r in allres:
        if r[0] != 'B': continue
        _, cfg, ty, res, log = r
        if res is None:
            recs.append({'kind': 'compile', 'cfg': cfg.name, 'ty': ty, 'case': {}, 'detail': log[-2500:]}); continue
        rc, out, err = res
        if rc != 0: recs.append({'kind': 'crash', 'cfg': cfg.name, 'ty': ty, 'case': {}, 'detail': 'exit %s %s' % (rc, err[-300:])})
        W_lanes = cfg.lanes(TYPES[ty][1])
        seen = set()
        lines = out.splitlines()
        idx = 0
        last_fence = {}
        for ln in lines:
            p = ln.split()
            if not p: continue
            tag, cid = p[0], int(p[1])
            if tag in ('S', 'E', 'V', 'T', 'U', 'CS', 'CE', 'CV'):
                c = Rb[cid]; key = (c['rank'] == 1, c['dims'], c['rs']); ext, off, _ = mv[key]
                n = len(off)
                if tag in ('S', 'CS'):
                    stats['evals'] += 1; stats['dist'][('read', c['rank'])] = stats['dist'].get(('read', c['rank']), 0) + 1
                    got = [int(x) for x in p[2:]]
                    if got != [n] + ext: recs.append({'kind': 'read-extent', 'cfg': cfg.name, 'ty': ty, 'case': c, 'detail': 'size/extents %s, model %s' % (got, [n] + ext)})
                else:
                    vals = p[2:]
                    if tag in ('E', 'U', 'CE'): exp = off
                    else: exp = off[:(n // W_lanes) * W_lanes]
                    ok = len(vals) == len(exp) and all(v == 'x' or same_val(parse_num(v), e) for v, e in zip(vals, exp))
                    if not ok:
                        bad = next((i for i in range(min(len(vals), len(exp))) if vals[i] != 'x' and not same_val(parse_num(vals[i]), exp[i])), -1)
                        recs.append({'kind': 'read-' + tag, 'cfg': cfg.name, 'ty': ty, 'case': c, 'detail': 'route %s: element %d is %s, model offset %s' % (tag, bad, vals[bad] if 0 <= bad < len(vals) else None, exp[bad] if 0 <= bad < len(exp) else None)})
            elif tag == 'F':
                last_fence[cid] = int(p[2])
            elif tag == 'A':
                # W and O both print 'A'; O ids are offset in the id space by the command order: distinguish by the preceding F line
                vals = [parse_num(v) for v in p[2:]]
                if cid in last_fence and ('W', cid) not in seen:
                    seen.add(('W', cid)); c = Wb[cid]; exp = expected_write(c, mv, ty)
                    stats['evals'] += 1; stats['dist'][('write', c['rank'])] = stats['dist'].get(('write', c['rank']), 0) + 1
                    if last_fence[cid]: recs.append({'kind': 'write-fence', 'cfg': cfg.name, 'ty': ty, 'case': c, 'detail': '%d canary words changed' % last_fence[cid]})
                    if not (len(vals) == len(exp) and all(same_val(a, b) for a, b in zip(vals, exp))):
                        bad = next((i for i in range(min(len(vals), len(exp))) if not same_val(vals[i], exp[i])), -1)
                        recs.append({'kind': 'write-value', 'cfg': cfg.name, 'ty': ty, 'case': c, 'detail': 'parent offset %d is %s, expected %s' % (bad, vals[bad] if bad >= 0 else None, exp[bad] if bad >= 0 else None)})
                else:
                    c = Ob[cid]; exp = expected_overlap(c, mv, ty)
                    stats['evals'] += 1; stats['dist'][('overlap', c['rank'])] = stats['dist'].get(('overlap', c['rank']), 0) + 1
                    if not (len(vals) == len(exp) and all(same_val(a, b) for a, b in zip(vals, exp))):
                        bad = next((i for i in range(min(len(vals), len(exp))) if not same_val(vals[i], exp[i])), -1)
                        recs.append({'kind': 'overlap-value', 'cfg': cfg.name, 'ty': ty, 'case': c, 'detail': 'parent offset %d is %s, expected %s' % (bad, vals[bad] if bad >= 0 else None, exp[bad] if bad >= 0 else None)})
    return recs, stats, mv

# ==============================================================================================
# compile-time (fseq / fix / fall / iseq) views: one generated C++ block per case
FPARENTS = {1: [(5,), (8,), (12,), (17,), (33,)], 2: [(4, 4), (5, 7), (3, 9), (4, 17)], 3: [(2, 3, 4), (2, 3, 17)]}

def gen_fixed(sd, tr):
    g = LCG(sd * 11 + 7); quick = tr == 'quick'
    cases = []
    tys = list(TYPES)
    for rank, plist in FPARENTS.items():
        for dims in plist:
            per_axis = [axis_ranges(False, d, 3) for d in dims]
            nread = (14 if quick else 80) if rank > 1 else (18 if quick else 120)
            combos = []
            seen = set()
            tries = 0
            while len(combos) < nread and tries < 5000:
                tries += 1
                c = tuple(g.choice(a) for a in per_axis)
                ext = tuple(rsize(False, d, *r) for d, r in zip(dims, c))
                if c in seen or ext == tuple(dims): continue     # the full range returns the tensor itself
                seen.add(c); combos.append(c)
            for c in combos:
                ty = tys[len(cases) % 4]
                cases.append({'kind': 'FR', 'ty': ty, 'dims': dims, 'rs': c})
            for c in g.sample(combos, min(len(combos), 8 if quick else 40)):
                for op in g.sample(range(5), 3 if quick else 5):
                    ty = tys[len(cases) % 4]
                    if ty == 'float' and op == 4: ty = 'double'
                    cases.append({'kind': 'FW', 'ty': ty, 'dims': dims, 'rs': c, 'op': op, 'rhs': g.next() % (6 if rank == 2 else 5)})
            # overlap with noalias: pairs of equal extents
            bysz = {}
            for c in combos: bysz.setdefault(tuple(rsize(False, d, *r) for d, r in zip(dims, c)), []).append(c)
            pairs = [(a, b) for cs in bysz.values() for a in cs for b in cs]
            for (dst, src) in g.sample(pairs, min(len(pairs), 8 if quick else 60)):
                op = g.next() % 5; ty = tys[len(cases) % 4]
                if ty == 'float' and op == 4: ty = 'double'
                cases.append({'kind': 'FO', 'ty': ty, 'dims': dims, 'dst': dst, 'src': src, 'op': op, 'na': 1 if dst != src else g.next() % 2, 'rhs': g.next() % 2})
    # iseq immediate evaluation and scalar indexing with negative indices
    for dims in [(7,), (4, 5), (2, 3, 4)]:
        per_axis = [[r for r in axis_ranges(False, d, 3) if r[0] >= 0 and r[1] >= 0] for d in dims]
        for _ in range(4 if quick else 20):
            cases.append({'kind': 'FI', 'ty': tys[len(cases) % 4], 'dims': dims, 'rs': tuple(g.choice(a) for a in per_axis)})
    for dims in [(7,), (4, 5), (2, 3, 4), (2, 3, 2, 3), (2, 2, 3, 2, 3)]:
        cases.append({'kind': 'FS', 'ty': tys[len(cases) % 4], 'dims': dims})
    for i, c in enumerate(cases): c['id'] = i
    return cases

def fseq_txt(r): return 'fseq<%d,%d,%d>()' % r

def cpp_fixed(shard):
    L = ['#include <Fastor/Fastor.h>', '#include "vh.h"', 'using namespace Fastor;']
    body = []
    for c in shard:
        T = TYPES[c['ty']][0]; dims = c['dims']; dd = ','.join(str(d) for d in dims); n = 1
        for d in dims: n *= d
        fn = 'fcase_%d' % c['id']; body.append('  %s();' % fn)
        L.append('static void %s() { typedef %s T; const long id = %d;' % (fn, T, c['id']))
        if c['kind'] in ('FR', 'FI'):
            ext = [rsize(False, d, *r) for d, r in zip(dims, c['rs'])]; ee = ','.join(str(e) for e in ext); m = 1
            for e in ext: m *= e
            if c['kind'] == 'FI':
                args = ', '.join('iseq<%d,%d,%d>{}' % r for r in c['rs'])
                # (the rank-3/4 iseq overloads exist for const tensors only)
                L.append('  Tensor<T,%s> A0; A0.iota(0); %s Tensor<T,%s>& A = A0; Tensor<T,%s> r = A(%s); vh_line("E", id, r.data(), %d); }' % (dd, 'const' if len(dims) >= 3 else '', dd, ee, args, m))
                continue
            args = ', '.join(fseq_txt(r) for r in c['rs'])
            L.append('  Tensor<T,%s> A; A.iota(0); const Tensor<T,%s>& cA = A;' % (dd, dd))
            L.append('  { Tensor<T,%s> r = A(%s); vh_line("E", id, r.data(), %d); }' % (ee, args, m))
            L.append('  { Tensor<T,%s> r = cA(%s); vh_line("CE", id, r.data(), %d); }' % (ee, args, m))
            L.append('  { Tensor<T,%s> r = A(%s) + cA(%s)*(T)2; vh_line("X", id, r.data(), %d); }' % (ee, args, args, m))
            L.append('  { auto v = A(%s); std::printf("U %%ld", id); for (long i = 0; i < %d; ++i) vh_put(v.template eval_s<T>(i)); std::printf("\\n");' % (args, m))
            L.append('    typedef typename decltype(v)::simd_vector_type V; std::printf("V %%ld", id); for (long i = 0; i + (long)V::Size <= %d; i += V::Size) { V x = v.template eval<T>(i); T t[V::Size]; x.store(t, false); for (size_t l = 0; l < V::Size; ++l) vh_put(t[l]); } std::printf("\\n"); }' % m)
            L.append('}')
        elif c['kind'] == 'FW':
            ext = [rsize(False, d, *r) for d, r in zip(dims, c['rs'])]; ee = ','.join(str(e) for e in ext); m = 1
            for e in ext: m *= e
            args = ', '.join(fseq_txt(r) for r in c['rs']); op = OPS[c['op']]
            L.append('  struct { alignas(64) T pre[16]; Tensor<T,%s> A; alignas(64) T post[16]; } F; for (int i = 0; i < 16; ++i) { F.pre[i] = (T)77; F.post[i] = (T)77; }' % dd)
            L.append('  for (size_t i = 0; i < %d; ++i) F.A.data()[i] = (T)(10 + i); Tensor<T,%s> B; for (size_t i = 0; i < %d; ++i) B.data()[i] = (T)(5 + (i * 3) %% 7);' % (n, dd, n))
            L.append('  Tensor<T,%s> Rt; for (size_t i = 0; i < %d; ++i) Rt.data()[i] = (T)(2 + (i * 7) %% 11);' % (ee, m))
            rhs = ['(T)3', 'Rt', 'Rt*(T)2 + (T)1', 'B(%s)' % args, 'B(%s)*(T)2 + (T)1' % args, 'trans(RtT)'][c['rhs']]
            if c['rhs'] == 5:   # a right-hand side that requires evaluation (rank 2 only): trans of the transposed copy has Rt's values
                L.append('  Tensor<T,%d,%d> RtT; for (size_t i = 0; i < %d; ++i) for (size_t j = 0; j < %d; ++j) RtT(j,i) = Rt(i,j);' % (ext[1], ext[0], ext[0], ext[1]))
            L.append('  F.A(%s) %s %s;' % (args, op, rhs))
            L.append('  int dmg = 0; for (int i = 0; i < 16; ++i) { if (F.pre[i] != (T)77) ++dmg; if (F.post[i] != (T)77) ++dmg; } std::printf("F %%ld %%d\\n", id, dmg); vh_line("A", id, F.A.data(), %d); }' % n)
        elif c['kind'] == 'FO':
            da = ', '.join(fseq_txt(r) for r in c['dst']); sa = ', '.join(fseq_txt(r) for r in c['src']); op = OPS[c['op']]
            L.append('  Tensor<T,%s> A; for (size_t i = 0; i < %d; ++i) A.data()[i] = (T)(10 + i);' % (dd, n))
            rhs = 'A(%s)' % sa if c['rhs'] == 0 else 'A(%s)*(T)2 + (T)1' % sa
            L.append('  A(%s)%s %s %s;' % (da, '.noalias()' if c['na'] else '', op, rhs))
            L.append('  vh_line("A", id, A.data(), %d); }' % n)
        else:  # FS scalar indexing, negative indices count from the end
            L.append('  Tensor<T,%s> A; A.iota(0); std::printf("E %%ld", id);' % dd)
            idxs = scalar_index_cases(dims)
            for ix in idxs: L.append('  vh_put(A(%s));' % ','.join(str(i) for i in ix))
            L.append('  std::printf("\\n"); }')
    return '\n'.join(L) + '\nint main() {\n' + '\n'.join(body) + '\n  return 0; }\n'

def scalar_index_cases(dims):
    g = LCG(sum(dims) * 31 + len(dims)); out = []
    for _ in range(24):
        out.append(tuple(g.randint(-d, d - 1) for d in dims))
    out.append(tuple(-d for d in dims)); out.append(tuple(d - 1 for d in dims)); out.append(tuple(-1 for d in dims))
    return out

def run_fixed(cfgs, cases, nshard=4):
    ocaml_ready()
    views = set()
    for c in cases:
        if c['kind'] in ('FR', 'FW', 'FI'): views.add((False, c['dims'], c['rs']))
        elif c['kind'] == 'FO': views.add((False, c['dims'], c['dst'])); views.add((False, c['dims'], c['src']))
    vl = sorted(views)
    shards = [cases[i::nshard] for i in range(nshard)]
    def build_run(job):
        cfg, si = job
        exe, log = compile_cpp(cpp_fixed(shards[si]), cfg)
        if exe is None: return ('B', cfg, si, None, log)
        return ('B', cfg, si, run_exe(exe), log)
    allres = pmap(lambda j: j[0](j[1]), [(build_run, (cfg, si)) for cfg in cfgs for si in range(nshard)] + [(lambda _: ('M', model_views(vl)), 0)])
    mv = next(r[1] for r in allres if r[0] == 'M')
    recs = []; stats = {'evals': 0, 'dist': {}}
    byid = {c['id']: c for c in cases}
    for r in allres:
        if r[0] != 'B': continue
        _, cfg, si, res, log = r
        if res is None: recs.append({'kind': 'compile', 'cfg': cfg.name, 'ty': '-', 'case': {'shard': si}, 'detail': log[-2500:]}); continue
        rc, out, err = res
        if rc != 0: recs.append({'kind': 'crash', 'cfg': cfg.name, 'ty': '-', 'case': {'shard': si}, 'detail': 'exit %s %s' % (rc, err[-300:])})
        fence = {}
        got_ids = set()
        for ln in out.splitlines():
            p = ln.split()
            if not p: continue
            tag, cid = p[0], int(p[1]); c = byid[cid]; ty = c['ty']; got_ids.add(cid)
            Wl = cfg.lanes(TYPES[ty][1])
            if tag == 'F': fence[cid] = int(p[2]); continue
            vals = [parse_num(v) for v in p[2:]]
            if c['kind'] in ('FR', 'FI'):
                ext, off, adm = mv[(False, c['dims'], c['rs'])]
                if tag in ('E', 'CE', 'U'): exp = off
                elif tag == 'X': exp = [3 * o for o in off]
                else: exp = off[:(len(off) // Wl) * Wl]
                stats['evals'] += 1; stats['dist'][(c['kind'], len(c['dims']))] = stats['dist'].get((c['kind'], len(c['dims'])), 0) + 1
                if not (len(vals) == len(exp) and all(same_val(a, b) for a, b in zip(vals, exp))):
                    bad = next((i for i in range(min(len(vals), len(exp))) if not same_val(vals[i], exp[i])), -1)
                    recs.append({'kind': 'fixed-read-' + tag, 'cfg': cfg.name, 'ty': ty, 'case': c, 'detail': 'element %d is %s, model offset %s' % (bad, vals[bad] if bad >= 0 else len(vals), exp[bad] if bad >= 0 else len(exp))})
            elif c['kind'] == 'FW':
                exp = expected_write({'dims': c['dims'], 'rank': 0, 'rs': c['rs'], 'rhs': c['rhs'], 'op': c['op']}, {(False, c['dims'], c['rs']): mv[(False, c['dims'], c['rs'])]}, ty)
                stats['evals'] += 1; stats['dist'][('FW', len(c['dims']))] = stats['dist'].get(('FW', len(c['dims'])), 0) + 1
                if fence.get(cid): recs.append({'kind': 'fixed-write-fence', 'cfg': cfg.name, 'ty': ty, 'case': c, 'detail': '%d canary words changed' % fence[cid]})
                if not (len(vals) == len(exp) and all(same_val(a, b) for a, b in zip(vals, exp))):
                    bad = next((i for i in range(min(len(vals), len(exp))) if not same_val(vals[i], exp[i])), -1)
                    recs.append({'kind': 'fixed-write-value', 'cfg': cfg.name, 'ty': ty, 'case': c, 'detail': 'parent offset %d is %s, expected %s' % (bad, vals[bad] if bad >= 0 else None, exp[bad] if bad >= 0 else None)})
            elif c['kind'] == 'FO':
                cc = dict(c); cc['rank'] = 0
                sub = {(False, c['dims'], c['dst']): mv[(False, c['dims'], c['dst'])], (False, c['dims'], c['src']): mv[(False, c['dims'], c['src'])]}
                exp = expected_overlap(cc, sub, ty)
                stats['evals'] += 1; stats['dist'][('FO', len(c['dims']))] = stats['dist'].get(('FO', len(c['dims'])), 0) + 1
                if not (len(vals) == len(exp) and all(same_val(a, b) for a, b in zip(vals, exp))):
                    bad = next((i for i in range(min(len(vals), len(exp))) if not same_val(vals[i], exp[i])), -1)
                    recs.append({'kind': 'fixed-overlap-value', 'cfg': cfg.name, 'ty': ty, 'case': c, 'detail': 'parent offset %d is %s, expected %s' % (bad, vals[bad] if bad >= 0 else None, exp[bad] if bad >= 0 else None)})
            else:
                dims = c['dims']; exp = []
                for ix in scalar_index_cases(dims):
                    o = 0
                    for d, i in zip(dims, ix): o = o * d + (i + d if i < 0 else i)
                    exp.append(o)
                stats['evals'] += 1; stats['dist'][('FS', len(dims))] = stats['dist'].get(('FS', len(dims)), 0) + 1
                if [int(v) for v in vals] != exp:
                    recs.append({'kind': 'scalar-index', 'cfg': cfg.name, 'ty': ty, 'case': c, 'detail': 'got %s expected %s' % (vals[:12], exp[:12])})
        if rc == 0:
            for c in shards[si]:
                if c['id'] not in got_ids: recs.append({'kind': 'missing', 'cfg': cfg.name, 'ty': c['ty'], 'case': c, 'detail': 'no output'})
    return recs, stats, mv

# ==============================================================================================
def view_main(pid, prop_file, want_dyn, want_fixed, what, extra_cfgs=()):
    tr = tier(); sd = seed()
    rep = Report(pid, 'proof')
    proof = prove(prop_file)
    handle_proof(rep, proof, 'see correspondence results of this run')
    cfgs = (quick_grid() if tr == 'quick' else thorough_grid()) + list(extra_cfgs)
    R, W, O = gen_dynamic(sd, tr)
    fixed = [c for c in gen_fixed(sd, tr) if c['kind'] in want_fixed]
    recs1, st1, mv1 = run_dynamic(cfgs, R, W, O, want=want_dyn)
    recs2, st2, mv2 = run_fixed(cfgs, fixed, nshard=4 if tr == 'quick' else 12)
    recs = recs1 + recs2
    groups = {}
    for r in recs:
        c = r['case']; rank = len(c.get('dims', ())) if isinstance(c, dict) else 0
        key = (r['kind'], r['cfg'], r['ty'], rank)
        size = 1
        for d in (c.get('dims', ()) if isinstance(c, dict) else ()): size *= d
        if key not in groups or size < groups[key][0]: groups[key] = (size, r)
    for key, (size, r) in sorted(groups.items(), key=lambda kv: str(kv[0])):
        c = r['case']
        kkey = '%s:%s:%s:rank%d:%s' % (r['kind'], r['cfg'], r['ty'], key[3], json.dumps({k: v for k, v in c.items() if k not in ('id',)}, default=str).replace(' ', ''))
        cfgo = next((x for x in cfgs if x.name == r['cfg']), None)
        replay = {'record': r, 'compile_cmd': ' '.join(cfgo.cmd('t.cpp', 't.exe')) if cfgo else None}
        if isinstance(c, dict) and c.get('kind', '').startswith('F') and 'id' in c: replay['program'] = cpp_fixed([c])
        elif isinstance(c, dict) and 'rank' in c:
            replay['harness'] = 'props/viewlib.py cpp_dynamic(%r); stdin line: %s' % (r['ty'], dynamic_input([c] if 'rs' in c and 'op' not in c else [], [c] if 'rs' in c and 'op' in c else [], [c] if 'dst' in c else [], False).strip())
        if r['kind'] in ('compile', 'extraction', 'model-admissible', 'missing'):
            rep.violation('%s: %s' % (r['kind'], r['detail'][-300:]), replay, no_input=True, key=kkey)
        else:
            rep.violation('%s (%s): %s' % (what, r['kind'], r['detail'][:300]) + ' case=' + kkey[-300:], replay, key=kkey)
    dist = {}
    for k, v in list(st1['dist'].items()) + list(st2['dist'].items()): dist['%s/rank%s' % k] = dist.get('%s/rank%s' % k, 0) + v
    nviews = len(mv1) + len(mv2)
    samples = ([R[0], R[len(R) // 2]] if 'R' in want_dyn else []) + ([W[0], W[len(W) // 3]] if 'W' in want_dyn else []) + ([O[0], O[len(O) // 3]] if 'O' in want_dyn else []) + fixed[:2]
    rep.cov.update({'evaluations': st1['evals'] + st2['evals'], 'distinct_nontrivial': nviews,
                    'rule': 'dynamic seq views: every admissible (first,last,step) incl. the negative / last-relative encodings per axis for the compiled parent shapes (exhaustive for rank 1 up to extent 9 and per axis for rank 2, sampled beyond), driven at run time; compile-time fseq/fix/iseq views: a seeded family per rank; every case under every configuration and 4 element types; compared with the parent offsets computed by the Coq model (extracted, cross-checked by vm_compute); distinct_nontrivial = number of distinct (shape, ranges) views evaluated by the model',
                    'samples': samples, 'configurations': [c.name for c in cfgs], 'distribution': dist,
                    'extraction_crosschecked_cases': st1.get('cross', 0), 'traces_validated_against_impl': st1['evals'] + st2['evals']})
    rep.assumptions = ['non-positive steps and empty ranges are outside the admissible set of the property',
                       'parents hold pairwise distinct values so a wrong selection is visible; writes print the whole parent between canaries']
    return rep.finish(proof=proof, trusted=['Coq 8.16.1 kernel (coqc), extraction cross-checked by vm_compute', 'lib/common.py, props/viewlib.py', 'harness/vh.h, harness/views_dyn.h'])
