"""C16 - reductions, predicates and scalar-valued functions.
Coq theorems (Properties_C16.v) + correspondence with the C++ under every ISA."""
import os, sys, json, time, math
sys.path.insert(0, os.path.join(os.path.dirname(os.path.abspath(__file__)), '..', 'lib'))
from common import *

PID = 'C16'
TY = {'int32': ('int32_t', 32, False, 4), 'int64': ('int64_t', 64, False, 8), 'float': ('float', 24, True, 4), 'double': ('double', 53, True, 8)}
LIM = {'int32': (-2 ** 31, 2 ** 31 - 1), 'int64': (-2 ** 63, 2 ** 63 - 1)}

def wrapz(bits, x):
    m = 1 << bits; r = x % m
    return r if r < (m >> 1) else r - m

def gen_cases(sd, tr):
    g = LCG(sd * 5 + 16)
    cases = []
    sizes = list(range(1, 41)) + [48, 63, 64, 65, 127, 128, 129, 130, 137]
    reps = 1 if tr == 'quick' else 4
    pats = ['pos', 'neg', 'mixed', 'extreme']
    for rep in range(reps):
        for n in sizes:
            for ty in TY:
                if tr == 'quick' and (n + len(ty)) % 2 and 20 < n < 48: continue
                pat = pats[(n + rep + len(cases)) % 4]
                cases.append({'id': len(cases), 'kind': 'red', 'ty': ty, 'n': n, 'pat': pat, 'pos': g.next() % n, 'seed': g.next() % 100000})
    for n in list(range(1, 21)) + [33, 40]:
        for pat in ('allfalse', 'alltrue', 'onetrue', 'onefalse', 'mixed'):
            cases.append({'id': len(cases), 'kind': 'pred', 'ty': g.choice(['int32', 'double', 'float', 'int64']), 'n': n, 'pat': pat, 'pos': g.next() % n, 'seed': g.next() % 100000})
    for n in range(2, 9 if tr == 'quick' else 13):   # determinant(Tensor<T,1,1>) has no overload (does not compile in any configuration)
        for ty in ('double', 'float'):
            for fam in ('dom', 'rand'):
                cases.append({'id': len(cases), 'kind': 'mat', 'ty': ty, 'n': n, 'fam': fam, 'seed': g.next() % 100000})
    return cases

def red_data(c):
    """numerators (value = num/den); den = 1 for ints, 4 for floats"""
    n, pat = c['n'], c['pat']; g = LCG(c['seed'])
    isf = TY[c['ty']][2]
    vals = []
    for i in range(n):
        k = 1 + g.next() % 8
        if pat == 'pos': v = k
        elif pat == 'neg': v = -k
        else: v = k if g.next() % 2 else -k
        vals.append(v)
    if pat == 'extreme':
        vals[c['pos']] = 100 if g.next() % 2 else -100
    return vals

CPP_HEAD = r'''
#include <Fastor/Fastor.h>
#include "vh.h"
using namespace Fastor;
template<typename T, size_t N> static void red_case(long id, const long long* num, int den) {
    Tensor<T,N> t, z; for (size_t i = 0; i < N; ++i) { t.data()[i] = (T)num[i] / (T)den; z.data()[i] = T(0); }
    T r[16];
    Tensor<T,1,N> t2; for (size_t i = 0; i < N; ++i) t2.data()[i] = t.data()[i];
    r[12] = sum(trans(t2)); r[13] = product(trans(t2)); r[14] = min(trans(t2)); r[15] = max(trans(t2));   // arguments that require evaluation
    r[0] = sum(t); r[1] = product(t); r[2] = min(t); r[3] = max(t);
    r[4] = sum(t + z); r[5] = product(t + z); r[6] = min(t + z); r[7] = max(t + z);   // lazy expression arguments
    r[8] = t.sum(); r[9] = t.product(); r[10] = norm(t); r[11] = inner(t, t);
    vh_line("R", id, r, 16);
}
template<typename T, size_t N> static void pred_case(long id, const int* b) {
    Tensor<T,N> t; for (size_t i = 0; i < N; ++i) t.data()[i] = b[i] ? T(3) : T(-2);
    Tensor<bool,N> tb; for (size_t i = 0; i < N; ++i) tb.data()[i] = b[i] != 0;
    bool r[8];
    r[0] = all_of(t > 0); r[1] = any_of(t > 0); r[2] = none_of(t > 0);
    r[3] = all_of(tb); r[4] = any_of(tb); r[5] = none_of(tb);
    Tensor<T,N> u(t); r[6] = isequal(t, u); if (N > 0) u.data()[N-1] += T(1); r[7] = isequal(t, u);
    vh_line("R", id, r, 8);
}
template<typename T, size_t N> static void mat_case(long id, const long long* num) {
    Tensor<T,N,N> A; for (size_t i = 0; i < N*N; ++i) A.data()[i] = (T)num[i];
    T r[6];
    r[0] = determinant(A); r[1] = determinant<DetCompType::LU>(A); r[2] = determinant<DetCompType::QR>(A);
    r[3] = trace(A); r[4] = T(det(A + T(0))); r[5] = T(issymmetric(A)) + T(2) * T(issymmetric(A + transpose(A)));
    vh_line("R", id, r, 6);
}
'''

def mat_data(c):
    n = c['n']; g = LCG(c['seed'])
    a = [[g.next() % 7 - 3 for _ in range(n)] for _ in range(n)]
    if c['fam'] == 'dom':
        for i in range(n): a[i][i] = sum(abs(x) for x in a[i]) + 1 + g.next() % 3
    return [x for row in a for x in row]

def pred_data(c):
    n, pat = c['n'], c['pat']; g = LCG(c['seed'])
    if pat == 'allfalse': b = [0] * n
    elif pat == 'alltrue': b = [1] * n
    elif pat == 'onetrue': b = [0] * n; b[c['pos']] = 1
    elif pat == 'onefalse': b = [1] * n; b[c['pos']] = 0
    else: b = [g.next() % 2 for _ in range(n)]
    return b

def cpp_source(shard):
    L = [CPP_HEAD]
    body = []
    for c in shard:
        T = TY[c['ty']][0]
        if c['kind'] == 'red':
            d = red_data(c); den = 4 if TY[c['ty']][2] else 1
            L.append('static const long long D%d[] = {%s};' % (c['id'], ','.join('%dLL' % x for x in d)))
            body.append('  red_case<%s,%d>(%d, D%d, %d);' % (T, c['n'], c['id'], c['id'], den))
        elif c['kind'] == 'pred':
            L.append('static const int D%d[] = {%s};' % (c['id'], ','.join(str(x) for x in pred_data(c))))
            body.append('  pred_case<%s,%d>(%d, D%d);' % (T, c['n'], c['id'], c['id']))
        else:
            L.append('static const long long D%d[] = {%s};' % (c['id'], ','.join('%dLL' % x for x in mat_data(c))))
            body.append('  mat_case<%s,%d>(%d, D%d);' % (T, c['n'], c['id'], c['id']))
    return '\n'.join(L) + '\nint main() {\n' + '\n'.join(body) + '\n  return 0; }\n'

def exact_det(a, n):
    m = [[Fraction(a[i * n + j]) for j in range(n)] for i in range(n)]
    det = Fraction(1)
    for k in range(n):
        p = next((i for i in range(k, n) if m[i][k] != 0), None)
        if p is None: return Fraction(0)
        if p != k: m[k], m[p] = m[p], m[k]; det = -det
        det *= m[k][k]
        for i in range(k + 1, n):
            f = m[i][k] / m[k][k]
            for j in range(k, n): m[i][j] -= f * m[k][j]
    return det

def main():
    tr = tier(); sd = seed()
    rep = Report(PID, 'proof')
    proof = prove('Properties_C16.v')
    handle_proof(rep, proof, 'see correspondence results of this run')
    cases = gen_cases(sd, tr); byid = {c['id']: c for c in cases}
    # the horizontal-add variants of the horizontal sums / products (FASTOR_USE_HADD) are separate code
    cfgs = (quick_grid() if tr == 'quick' else thorough_grid()) + [Config('avx2', 'c++14', '-O2', ['FASTOR_USE_HADD']), Config('sse42', 'c++17', '-O2', ['FASTOR_USE_HADD']), Config('avx512', 'c++14', '-O2', ['FASTOR_USE_HADD'])]
    nshard = 4 if tr == 'quick' else 12
    shards = [cases[i::nshard] for i in range(nshard)]
    ocaml_ready()
    Ws = sorted({cfg.lanes(4) for cfg in cfgs} | {cfg.lanes(8) for cfg in cfgs})
    icases = [c for c in cases if c['kind'] == 'red' and not TY[c['ty']][2]]
    pcases = [c for c in cases if c['kind'] == 'pred']
    dcases = [c for c in cases if c['kind'] == 'mat' and c['n'] <= 5]
    def build_run(job):
        cfg, si = job
        exe, log = compile_cpp(cpp_source(shards[si]), cfg)
        if exe is None: return ('B', cfg, si, None, log)
        return ('B', cfg, si, run_exe(exe), log)
    def model_run(W):
        st = ['pz "M" %d (run_reduce_Z (z %d) %d %s (zs "%d") (zs "%d"))' % (c['id'], TY[c['ty']][1], W, ml_zlist(red_data(c)), LIM[c['ty']][0], LIM[c['ty']][1]) for c in icases]
        if W == Ws[0]:
            st += ['pb "P" %d (run_preds [%s])' % (c['id'], ';'.join('true' if b else 'false' for b in pred_data(c))) for c in pcases]
            st += ['pz "D" %d [run_det_Z %d %s]' % (c['id'], c['n'], ml_zlist(mat_data(c))) for c in dcases]
        res = {}
        for ln in ocaml_eval(st):
            p = ln.split(); res[(p[0], int(p[1]))] = [int(x) for x in p[2:]]
        return ('M', W, res)
    def coq_run(_):
        sub = icases[:30]
        txt = ('From Coq Require Import ZArith List. Import ListNotations.\nFrom FastorV Require Import Model.Run.\n'
               'Eval vm_compute in [%s].\nEval vm_compute in [%s].\nEval vm_compute in [%s].' % (
                   ';\n '.join('run_reduce_Z %d 4 %s (%d) (%d)' % (TY[c['ty']][1], zlist(red_data(c)), LIM[c['ty']][0], LIM[c['ty']][1]) for c in sub),
                   ';\n '.join('run_preds [%s]' % ';'.join('true' if b else 'false' for b in pred_data(c)) for c in pcases[:30]),
                   ';\n '.join('run_det_Z %d %s' % (c['n'], zlist(mat_data(c))) for c in dcases)))
        out = parse_coq_lists(coq_eval(txt))
        return ('V', 4, (dict(zip([c['id'] for c in sub], out[0])), dict(zip([c['id'] for c in pcases[:30]], out[1])), dict(zip([c['id'] for c in dcases], out[2]))))
    allres = pmap(lambda j: j[0](j[1]), [(build_run, (cfg, si)) for cfg in cfgs for si in range(nshard)] + [(model_run, W) for W in Ws] + [(coq_run, 0)])
    model = {r[1]: r[2] for r in allres if r[0] == 'M'}
    n_cross = 0
    for r in allres:
        if r[0] == 'V':
            ri, rp, rd = r[2]
            for cid, v in ri.items():
                n_cross += 1
                if model[4][('M', cid)] != v: rep.violation('extracted model differs from vm_compute (reduce, case %d)' % cid, {'case': byid[cid]}, no_input=True, key='extraction')
            for cid, v in rp.items():
                n_cross += 1
                if model[Ws[0]][('P', cid)] != v: rep.violation('extracted model differs from vm_compute (predicates, case %d)' % cid, {'case': byid[cid]}, no_input=True, key='extraction')
            for cid, v in rd.items():
                n_cross += 1
                if model[Ws[0]][('D', cid)] != [v]: rep.violation('extracted model differs from vm_compute (det, case %d)' % cid, {'case': byid[cid]}, no_input=True, key='extraction')
    n_eval = 0; mism = []; dist = {}; maxerr = {'sum': 0.0, 'det': 0.0}
    NAMES = ['sum(t)', 'product(t)', 'min(t)', 'max(t)', 'sum(expr)', 'product(expr)', 'min(expr)', 'max(expr)', 't.sum()', 't.product()', 'norm(t)', 'inner(t,t)', 'sum(trans(t))', 'product(trans(t))', 'min(trans(t))', 'max(trans(t))']
    for r in allres:
        if r[0] != 'B': continue
        _, cfg, si, res, log = r
        if res is None:
            rep.violation('harness does not compile under %s' % cfg.name, {'cfg': cfg.name, 'log': log[-3000:]}, no_input=True, key='compile:%s' % cfg.name); continue
        rc, out, err = res
        if rc != 0: rep.violation('harness crashed under %s (exit %s)' % (cfg.name, rc), {'cfg': cfg.name, 'stderr': err[-500:]}, key='crash:%s' % cfg.name)
        lines = {}
        for ln in out.splitlines():
            p = ln.split(); lines[int(p[1])] = p[2:]
        for c in shards[si]:
            R = lines.get(c['id'])
            if R is None:
                if rc == 0: mism.append({'what': 'missing', 'cfg': cfg.name, 'case': c})
                continue
            n_eval += 1; dist[(c['kind'], c['ty'])] = dist.get((c['kind'], c['ty']), 0) + 1
            got = [parse_num(t) for t in R]
            isf = TY[c['ty']][2]; prec = TY[c['ty']][1]
            if c['kind'] == 'red':
                d = red_data(c); n = c['n']; W = cfg.lanes(TY[c['ty']][3])
                if not isf:
                    bits = TY[c['ty']][1]; s = 0; p = 1
                    for x in d: s = wrapz(bits, s + x); p = wrapz(bits, p * x)
                    want = [s, p, min(d), max(d)]
                    mv = model[W][('M', c['id'])]
                    if mv != want: mism.append({'what': 'model-vs-spec', 'cfg': cfg.name, 'case': c, 'model': mv, 'spec': want})
                    exp = want + want + [s, p, None, wrapz(bits, sum(x * x for x in d))] + want
                    for k in range(16):
                        if exp[k] is None: continue
                        if got[k] != exp[k]: mism.append({'what': NAMES[k], 'cfg': cfg.name, 'case': c, 'impl': str(got[k]), 'expected': str(exp[k])})
                else:
                    xs = [Fraction(x, 4) for x in d]; u = Fraction(1, 2 ** prec)
                    s = sum(xs); sa = sum(abs(x) for x in xs); p = Fraction(1)
                    for x in xs: p *= x
                    ss = sum(x * x for x in xs)
                    bsum = ((1 + u) ** (n + W) - 1) * sa; bprod = ((1 + u) ** (n + W + 2) - 1) * abs(p)
                    exp = [(s, bsum), (p, bprod), (min(xs), 0), (max(xs), 0)] * 2 + [(s, bsum), (p, bprod), None, (ss, ((1 + u) ** (n + W + 1) - 1) * ss)] + [(s, bsum), (p, bprod), (min(xs), 0), (max(xs), 0)]
                    for k in range(16):
                        if exp[k] is None:
                            # norm = sqrt(sum of squares): relative bound
                            ex = math.sqrt(float(ss)); gv = float(got[k]) if not isinstance(got[k], str) else float('nan')
                            if not (abs(gv - ex) <= (n + W + 4) * float(u) * ex + 1e-300): mism.append({'what': NAMES[k], 'cfg': cfg.name, 'case': c, 'impl': str(gv), 'expected': str(ex)})
                            continue
                        ex, b = exp[k]
                        if isinstance(got[k], str) or abs(got[k] - ex) > b:
                            mism.append({'what': NAMES[k], 'cfg': cfg.name, 'case': c, 'impl': str(got[k]), 'expected': str(ex), 'bound': str(b)})
                        elif k == 0 and sa: maxerr['sum'] = max(maxerr['sum'], float(abs(got[k] - ex) / sa) / (n * float(u)))
            elif c['kind'] == 'pred':
                b = pred_data(c); a_all = int(all(b)); a_any = int(any(b))
                mv = model[Ws[0]][('P', c['id'])]
                # none_of: the property asks for not any_of
                exp = [a_all, a_any, 1 - a_any, a_all, a_any, 1 - a_any, 1, 0]
                PN = ['all_of(expr)', 'any_of(expr)', 'none_of(expr)', 'all_of(tensor)', 'any_of(tensor)', 'none_of(tensor)', 'isequal(t,t)', 'isequal(t,t+e)']
                if mv[:2] != [a_all, a_any]: mism.append({'what': 'model-vs-spec', 'cfg': cfg.name, 'case': c, 'model': mv})
                for k in range(8):
                    if int(got[k]) != exp[k]:
                        # the model tells whether the implementation at least follows the (faithful) model
                        follows = k in (2, 5) and int(got[k]) == mv[2]
                        mism.append({'what': PN[k] + ('=any_of' if follows else ''), 'cfg': cfg.name, 'case': c, 'impl': int(got[k]), 'expected': exp[k], 'follows_model': follows})
            else:
                a = mat_data(c); n = c['n']; ex = exact_det(a, n); u = float(Fraction(1, 2 ** prec))
                scale = 1.0
                for i in range(n): scale *= max(1.0, float(sum(abs(x) for x in a[i * n:(i + 1) * n])))
                tolv = 64 * (n + 1) * u * scale
                if c['n'] <= 5 and ('D', c['id']) in model[Ws[0]]:
                    if Fraction(model[Ws[0]][('D', c['id'])][0]) != ex: mism.append({'what': 'model-vs-spec(det)', 'cfg': cfg.name, 'case': c})
                for k, nm in ((0, 'determinant'), (1, 'determinant<LU>'), (2, 'determinant<QR>'), (4, 'det(expr)')):
                    if c['fam'] != 'dom' and k == 1: continue                   # unpivoted LU is only defined when the leading minors are non-singular
                    if c['fam'] != 'dom' and k in (0, 4) and n > 4: continue    # Simple dispatches to LU above 4x4
                    if k == 2:
                        # determinant<QR> is the product of R's diagonal (C13), i.e. |det A| for Gram-Schmidt with positive diagonal
                        if isinstance(got[k], str) or abs(abs(float(got[k])) - abs(float(ex))) > tolv * (4 if c['fam'] == 'dom' else 64):
                            mism.append({'what': nm, 'cfg': cfg.name, 'case': c, 'impl': str(got[k]), 'expected': '+-' + str(abs(ex)), 'tol': tolv})
                        continue
                    gv = got[k]
                    if isinstance(gv, str) or abs(float(gv) - float(ex)) > tolv:
                        mism.append({'what': nm, 'cfg': cfg.name, 'case': c, 'impl': str(gv), 'expected': str(ex), 'tol': tolv})
                    else: maxerr['det'] = max(maxerr['det'], abs(float(gv) - float(ex)) / (u * scale))
                tr_ex = sum(a[i * n + i] for i in range(n))
                if got[3] != tr_ex: mism.append({'what': 'trace', 'cfg': cfg.name, 'case': c, 'impl': str(got[3]), 'expected': tr_ex})
                sym = all(a[i * n + j] == a[j * n + i] for i in range(n) for j in range(n))
                if int(got[5]) != int(sym) + 2: mism.append({'what': 'issymmetric', 'cfg': cfg.name, 'case': c, 'impl': int(got[5]), 'expected': int(sym) + 2})
    groups = {}
    for m in mism:
        c = m['case']; key = (m['what'], m['cfg'], c['ty'], c.get('pat', c.get('fam')))
        if key not in groups or c['n'] < groups[key][0]: groups[key] = (c['n'], m)
    for key, (size, m) in sorted(groups.items(), key=lambda kv: str(kv[0])):
        c = m['case']; cfgo = next(x for x in cfgs if x.name == m['cfg'])
        kkey = '%s:%s:%s:%s:n%d' % (m['what'], m['cfg'], c['ty'], c.get('pat', c.get('fam')), c['n'])
        data = red_data(c) if c['kind'] == 'red' else (pred_data(c) if c['kind'] == 'pred' else mat_data(c))
        replay = {'mismatch': m, 'compile_cmd': ' '.join(cfgo.cmd('t.cpp', 't.exe')), 'data': data, 'program': cpp_source([c])}
        if m['what'].startswith('model-vs-spec'):
            rep.violation('Coq model disagrees with the specification oracle: %s' % kkey, replay, no_input=True, key=kkey)
        else:
            rep.violation('%s differs from its definition: %s (got %s, expected %s)' % (m['what'], kkey, m.get('impl'), m.get('expected')), replay, key=kkey)
    rep.cov.update({'evaluations': n_eval, 'distinct_nontrivial': len({(c['kind'], c['ty'], c['n'], c.get('pat', c.get('fam'))) for c in cases if c['n'] > 1}),
                    'rule': 'reduction cases = (type, size 1..40 and 48/63/64/65, sign pattern all+/all-/mixed/single extreme element at a random position) x {sum, product, min, max on tensors and on lazy expressions, .sum(), .product(), norm, inner}; predicate cases = (size, pattern) x {all_of, any_of, none_of on tensors and comparisons, isequal}; matrix cases = sizes 1..8 x {diagonally dominant, random integer} x {determinant Simple/LU/QR, lazy det, trace, issymmetric} against exact rational elimination; non-trivial = size > 1',
                    'samples': cases[:3] + [c for c in cases if c['kind'] == 'pred'][:2] + [c for c in cases if c['kind'] == 'mat'][:2], 'configurations': [c.name for c in cfgs],
                    'distribution_kind_type': {'/'.join(k): v for k, v in sorted(dist.items())}, 'extraction_crosschecked_cases': n_cross,
                    'max_sum_error_over_n_u_sumabs': maxerr['sum'], 'max_det_error_over_u_scale': maxerr['det'], 'traces_validated_against_impl': n_eval})
    rep.assumptions = ['floating-point sums/products/norms are judged against the exact rational value with the bound ((1+u)^(n+W)-1)*sum|x_i| (resp. relative for products)',
                       'determinants beyond the closed forms are judged with tolerance 64(n+1)u*prod(row sums) against exact elimination (measured, not proved)',
                       'unpivoted LU determinants are only judged on diagonally dominant matrices']
    return rep.finish(proof=proof, trusted=['Coq 8.16.1 kernel (coqc), extraction cross-checked by vm_compute', 'lib/common.py, props/c16.py', 'harness/vh.h'])

if __name__ == '__main__':
    sys.exit(main())
