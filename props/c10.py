"""C10 - inverse(A) times A is the identity for every size and every computation type.
Coq (Properties_C10.v): closed-form 2x2 inverse and the Schur-complement block inverse identity over any field (exact);
correspondence: every strategy on well-conditioned families, residuals judged against 16*n*eps*cond."""
import os, sys
sys.path.insert(0, os.path.join(os.path.dirname(os.path.abspath(__file__)), '..', 'lib'))
from common import *
import linlib
from linlib import CB, GROWTH_MAX, eps_of, replay_of, FAMN

PID = 'C10'
def main():
    tr = tier(); sd = seed(); rep = Report(PID, 'proof')
    proof = prove('Properties_C10.v'); handle_proof(rep, proof, 'see correspondence results of this run')
    rows, jobs, cfgs = linlib.run_plan(10, tr, sd, rep)
    n_eval = 0; skipped = 0; worst = {}; dist = {}; seen = set()
    for n, ty, cfg, p in rows:
        eps = eps_of(ty)
        if p[0] == 'I':
            strat, fam = p[1], int(p[2]); r1, r2, na, nx, gr, lc = [float(x) for x in p[4:10]]
            pivoted = strat.endswith('Piv')
            if gr > GROWTH_MAX or lc > GROWTH_MAX: skipped += 1; continue          # the strategy is not defined on this matrix (ill-conditioned leading blocks)
            n_eval += 1; dist[strat] = dist.get(strat, 0) + 1
            bound = CB * n * eps * max(na * nx, 1.0); ratio = max(r1, r2) / (n * eps * max(na * nx, 1.0))
            worst[strat] = max(worst.get(strat, 0.0), ratio)
            exact_fam = fam == 2 and ty == 'double' and n <= 33     # unimodular integer matrix: the inverse is an integer matrix
            if not (max(r1, r2) <= bound):
                k = ('I', strat, n, ty, cfg.name)
                if k in seen: continue
                seen.add(k)
                rep.violation('inverse<%s> of a %s %dx%d %s matrix (seed %s) under %s: |A*X-I| = %.3g, |X*A-I| = %.3g exceed 16*n*eps*cond = %.3g (cond %.3g)' % (strat, FAMN[fam], n, n, ty, p[3], cfg.name, r1, r2, bound, na * nx),
                              replay_of(10, n, ty, cfg, p), key='inverse:%s:%d:%s:%s' % (strat, n, ty, cfg.name))
        elif p[0] == 'T':
            r1, r2, na, nx = [float(x) for x in p[4:8]]; nz = int(p[8]); n_eval += 1; dist['tinverse/' + p[1]] = dist.get('tinverse/' + p[1], 0) + 1
            bound = CB * n * eps * max(na * nx, 1.0); worst['tinverse'] = max(worst.get('tinverse', 0.0), max(r1, r2) / (n * eps * max(na * nx, 1.0)))
            if not (max(r1, r2) <= bound) or nz:
                rep.violation('tinverse<%s> %dx%d %s under %s: residual %.3g / %.3g (bound %.3g), %d nonzero entries in the other triangle' % (p[1], n, n, ty, cfg.name, r1, r2, bound, nz), replay_of(10, n, ty, cfg, p), key='tinverse:%s:%d:%s:%s' % (p[1], n, ty, cfg.name))
        elif p[0] == 'B':
            r, na, nx = [float(x) for x in p[2:5]]; n_eval += 1; dist['batched'] = dist.get('batched', 0) + 1
            bound = CB * n * eps * max(na * nx, 1.0)
            if not (r <= bound): rep.violation('batched inverse of Tensor<%s,3,%d,%d> under %s: worst |A*X-I| = %.3g > %.3g' % (ty, n, n, cfg.name, r, bound), replay_of(10, n, ty, cfg, p), key='batched:%d:%s:%s' % (n, ty, cfg.name))
    n_model = linlib.model_compare(10, rows, rep)
    n_closed = linlib.closed_compare(rows, rep)
    rep.cov.update({'records_compared_exactly_with_the_coq_model': n_model, 'closed_form_records_compared_with_the_translated_kernels': n_closed, 'evaluations': n_eval, 'distinct_nontrivial': len(jobs),
                    'rule': 'six inversion strategies + lazy inv() + inverse of an expression + triangular (upper, unit lower) + batched inverse; sizes %s; float and double; matrix families: strictly diagonally dominant integers, their row permutations (pivoted strategies), unimodular integer matrices, Householder*diag*Householder with condition number 10 and 1000; residuals |A*X-I|, |X*A-I| (infinity norm, computed in long double) judged against 16*n*eps*cond(A); matrices outside the domain of the strategy are counted, not judged: unpivoted elimination growth of the (pre-pivoted) matrix > 64, or some leading block k x k (k = 1..n, so A itself too) with |inverse(A_k)|*|A| > 64' % (linlib.QUICK_SIZES if tr == 'quick' else linlib.THOROUGH_SIZES),
                    'configurations': sorted(set(c.name for _, _, c in jobs)), 'size_type_configuration_triples': ['%d/%s/%s' % (n, ty, c.name) for n, ty, c in jobs],
                    'distribution': dist, 'counted_not_judged_(growth)': skipped, 'worst_residual_over_n*eps*cond': {k: round(v, 3) for k, v in sorted(worst.items())}, 'traces_validated_against_impl': n_model})
    rep.assumptions = ['cond(A) is estimated as |A|*|X| with the computed inverse X', 'the bound 16*n*eps*cond is measured against, not proved (backward error analysis of the recursive block inversion is not formalised)']
    return rep.finish(proof=proof, trusted=['Coq 8.16.1 kernel (coqc)', 'lib/common.py, props/linlib.py, props/c10.py', 'harness/linalg.cpp (long double residuals, matrix generators), harness/vh.h'])
if __name__ == '__main__': sys.exit(main())
