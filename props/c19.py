"""C19 - index-tensor and boolean-mask views. Coq theorems (Properties_C19.v) + runtime-driven correspondence:
index vectors / masks are fed on stdin to one binary per element type, compared with the Coq model."""
import os, sys, json, itertools
sys.path.insert(0, os.path.join(os.path.dirname(os.path.abspath(__file__)), '..', 'lib'))
from common import *

PID = 'C19'
TYPES = {'double': ('double', 8), 'int32': ('int32_t', 4), 'float': ('float', 4)}
ITY = ['int', 'int64_t', 'size_t']
P1 = [(6, 1), (6, 2), (6, 3), (6, 4), (20, 8), (20, 9), (20, 17), (40, 33)]      # (parent size, index length)
P2 = [((3, 4), 1, 2), ((3, 4), 2, 2), ((3, 4), 2, 3), ((4, 9), 2, 8), ((4, 9), 3, 9), ((5, 17), 2, 16)]   # (shape, len it0, len it1)
PF = [1, 2, 3, 4, 5, 7, 8, 9, 12, 16, 17]                                 # mask view parents (1-D), plus (3,4)
OPC = {0: 100, 1: 0, 2: 1, 3: 2, 4: 3}                                     # harness op -> model op code
OPS = ['=', '+=', '-=', '*=', '/=']

def cpp_source(ty):
    T = TYPES[ty][0]
    L = ['#include <Fastor/Fastor.h>', '#include "vh.h"', '#include <sstream>', '#include <iostream>', 'using namespace Fastor;', 'typedef %s T;' % T,
         'template<size_t N> struct FA { alignas(64) T pre[16]; Tensor<T,N> A; alignas(64) T post[16]; FA() { for (int i = 0; i < 16; ++i) { pre[i] = (T)77; post[i] = (T)77; } for (size_t i = 0; i < N; ++i) A.data()[i] = (T)(10 + i); } int dmg() const { int d = 0; for (int i = 0; i < 16; ++i) { if (pre[i] != (T)77) ++d; if (post[i] != (T)77) ++d; } return d; } };',
         'template<size_t M, size_t N> struct FA2 { alignas(64) T pre[16]; Tensor<T,M,N> A; alignas(64) T post[16]; FA2() { for (int i = 0; i < 16; ++i) { pre[i] = (T)77; post[i] = (T)77; } for (size_t i = 0; i < M*N; ++i) A.data()[i] = (T)(10 + i); } int dmg() const { int d = 0; for (int i = 0; i < 16; ++i) { if (pre[i] != (T)77) ++d; if (post[i] != (T)77) ++d; } return d; } };']
    # ---- 1-D index tensor
    L.append('template<typename Int, size_t P, size_t n> static void rv1(const std::string& cmd, long id, std::istringstream& in) {')
    L.append('  Tensor<Int,n> it; Tensor<T,n> Rt; Tensor<T,P> B; for (size_t i = 0; i < P; ++i) B.data()[i] = (T)(5 + (i * 3) % 7); for (size_t i = 0; i < n; ++i) Rt.data()[i] = (T)(2 + (i * 7) % 11);')
    L.append('  if (cmd == "R1") { for (size_t k = 0; k < n; ++k) { long v; in >> v; it.data()[k] = (Int)v; } Tensor<T,P> A; A.iota(0); const Tensor<T,P>& cA = A;')
    L.append('    Tensor<T,n> r = A(it); vh_line("E", id, r.data(), n); Tensor<T,n> rc = cA(it); vh_line("CE", id, rc.data(), n); Tensor<T,n> rx = A(it)*(T)2 + cA(it); vh_line("X", id, rx.data(), n); return; }')
    L.append('  int op, rhs; in >> op >> rhs; for (size_t k = 0; k < n; ++k) { long v; in >> v; it.data()[k] = (Int)v; } FA<P> F;')
    for oi, op in enumerate(OPS):
        L.append('  if (op == %d) { if (rhs == 0) F.A(it) %s (T)3; else if (rhs == 1) F.A(it) %s Rt; else if (rhs == 2) F.A(it) %s Rt*(T)2 + (T)1; else F.A(it) %s B(it); }' % (oi, op, op, op, op))
    L.append('  std::printf("F %ld %d\\n", id, F.dmg()); vh_line("A", id, F.A.data(), P); }')
    # ---- 2-D: one index tensor per axis and the mixed forms
    L.append('template<typename Int, size_t M, size_t N, size_t m, size_t n> static void rv2(const std::string& cmd, long id, std::istringstream& in) {')
    L.append('  Tensor<Int,m> i0; Tensor<Int,n> i1; Tensor<T,m,n> Rt; for (size_t i = 0; i < m*n; ++i) Rt.data()[i] = (T)(2 + (i * 7) % 11);')
    L.append('  if (cmd == "R2") { for (size_t k = 0; k < m; ++k) { long v; in >> v; i0.data()[k] = (Int)v; } for (size_t k = 0; k < n; ++k) { long v; in >> v; i1.data()[k] = (Int)v; } long num; in >> num;')
    L.append('    Tensor<T,M,N> A; A.iota(0);')
    L.append('    { Tensor<T,m,n> r = A(i0, i1); vh_line("E", id, r.data(), m*n); }')
    L.append('    { Tensor<T,m,1> r = A(i0, (int)num %% (int)N); vh_line("EC", id, r.data(), m); }'.replace('%%', '%'))
    L.append('    { Tensor<T,n,1> r = A((int)num %% (int)M, i1); vh_line("ER", id, r.data(), n); }'.replace('%%', '%'))
    L.append('    { Tensor<T,m,2> r = A(i0, fseq<1,3>()); vh_line("EF", id, r.data(), m*2); }')
    L.append('    { Tensor<T,2,n> r = A(fseq<0,3,2>(), i1); vh_line("FE", id, r.data(), 2*n); }')
    # a compile-time range that does not start at 0, and the const overloads of every mixed form
    L.append('    { Tensor<T,2,n> r = A(fseq<1,3>(), i1); vh_line("FE1", id, r.data(), 2*n); }')
    L.append('    { const Tensor<T,M,N>& cA = A; { Tensor<T,m,n> r = cA(i0, i1); vh_line("CE2", id, r.data(), m*n); } { Tensor<T,m,2> r = cA(i0, fseq<1,3>()); vh_line("CEF", id, r.data(), m*2); }')
    L.append('      { Tensor<T,2,n> r = cA(fseq<1,3>(), i1); vh_line("CFE1", id, r.data(), 2*n); } { Tensor<T,m,1> r = cA(i0, (int)num %% (int)N); vh_line("CEC", id, r.data(), m); } { Tensor<T,n,1> r = cA((int)num %% (int)M, i1); vh_line("CER", id, r.data(), n); } }'.replace('%%', '%'))
    L.append('    return; }')
    L.append('  int op, rhs; in >> op >> rhs; for (size_t k = 0; k < m; ++k) { long v; in >> v; i0.data()[k] = (Int)v; } for (size_t k = 0; k < n; ++k) { long v; in >> v; i1.data()[k] = (Int)v; } FA2<M,N> F;')
    for oi, op in enumerate(OPS):
        L.append('  if (op == %d) { if (rhs == 0) F.A(i0,i1) %s (T)3; else if (rhs == 1) F.A(i0,i1) %s Rt; else F.A(i0,i1) %s Rt*(T)2 + (T)1; }' % (oi, op, op, op))
    L.append('  std::printf("F %ld %d\\n", id, F.dmg()); vh_line("A", id, F.A.data(), M*N); }')
    # ---- mask views
    L.append('template<size_t P> static void fv(long id, std::istringstream& in) { unsigned long mask; int op, rhs; in >> op >> rhs >> mask; FA<P> F; Tensor<bool,P> mk; Tensor<T,P> C;')
    L.append('  for (size_t i = 0; i < P; ++i) { mk.data()[i] = (mask >> i) & 1UL; C.data()[i] = (T)(2 + (i * 7) % 11); }')
    for oi, op in enumerate(OPS):
        L.append('  if (op == %d) { if (rhs == 0) F.A(mk) %s (T)3; else if (rhs == 1) F.A(mk) %s C; else F.A(mk) %s C*(T)2 + (T)1; }' % (oi, op, op, op))
    L.append('  std::printf("F %ld %d\\n", id, F.dmg()); vh_line("A", id, F.A.data(), P); }')
    L.append('static void fv2(long id, std::istringstream& in) { unsigned long mask; int op, rhs; in >> op >> rhs >> mask; FA2<3,4> F; Tensor<bool,3,4> mk; Tensor<T,3,4> C;')
    L.append('  for (size_t i = 0; i < 12; ++i) { mk.data()[i] = (mask >> i) & 1UL; C.data()[i] = (T)(2 + (i * 7) % 11); }')
    L.append('  Tensor<T,4,3> Ct; for (size_t i = 0; i < 3; ++i) for (size_t j = 0; j < 4; ++j) Ct(j,i) = C(i,j);')
    for oi, op in enumerate(OPS):
        L.append('  if (op == %d) { if (rhs == 0) F.A(mk) %s (T)3; else if (rhs == 1) F.A(mk) %s C; else if (rhs == 2) F.A(mk) %s C*(T)2 + (T)1; else F.A(mk) %s trans(Ct); }' % (oi, op, op, op, op))
    L.append('  std::printf("F %ld %d\\n", id, F.dmg()); vh_line("A", id, F.A.data(), 12); }')
    L.append('int main() { std::string line; while (std::getline(std::cin, line)) { if (line.empty()) continue; std::istringstream in(line); std::string cmd; long id; int a, b, c, d, e; in >> cmd >> id;')
    L.append('  if (cmd == "R1" || cmd == "W1") { in >> a >> b >> c;')
    for (P, n) in P1:
        for ii, I in enumerate(ITY):
            L.append('    if (a == %d && b == %d && c == %d) { rv1<%s,%d,%d>(cmd, id, in); continue; }' % (P, n, ii, I, P, n))
    L.append('  } else if (cmd == "R2" || cmd == "W2") { in >> a >> b >> c >> d >> e;')
    for (shape, m, n) in P2:
        for ii, I in enumerate(ITY[:2]):
            L.append('    if (a == %d && b == %d && c == %d && d == %d && e == %d) { rv2<%s,%d,%d,%d,%d>(cmd, id, in); continue; }' % (shape[0], shape[1], m, n, ii, I, shape[0], shape[1], m, n))
    L.append('  } else if (cmd == "FV") { in >> a;')
    for P in PF: L.append('    if (a == %d) { fv<%d>(id, in); continue; }' % (P, P))
    L.append('    if (a == 34) { fv2(id, in); continue; }')
    L.append('  } } return 0; }')
    return '\n'.join(L)

def gen_cases(sd, tr):
    g = LCG(sd * 19 + 3); quick = tr == 'quick'
    cases = []
    for (P, n) in P1:
        if P == 6:
            allv = list(itertools.product(range(P), repeat=n))      # exhaustive: every index vector of length <= 4 over a parent of size 6
            vs = allv if (not quick or len(allv) <= 216) else g.sample(allv, 216)
        else:
            vs = [tuple(g.randint(0, P - 1) for _ in range(n)) for _ in range(20 if quick else 200)]      # unsorted, with repeats
            vs += [tuple(g.shuffle(range(P))[:n]) for _ in range(10 if quick else 100)]                     # duplicate-free, unsorted
            vs += [tuple(range(s, s + n)) for s in (0, P - n)] + [tuple(reversed(range(n)))]
            base = list(range(3, 3 + n)); base[1], base[2] = base[2], base[1]; vs.append(tuple(base))     # contiguous span, not sorted
        for v in vs:
            cases.append({'k': 'R1', 'P': P, 'n': n, 'ity': len(cases) % 3, 'idx': v})
            if len(set(v)) == len(v) and (P > 6 or g.next() % (3 if quick else 1) == 0):
                cases.append({'k': 'W1', 'P': P, 'n': n, 'ity': len(cases) % 3, 'idx': v, 'op': g.next() % 5, 'rhs': g.next() % 4})
    for (shape, m, n) in P2:
        M, N = shape
        for _ in range(25 if quick else 250):
            i0 = tuple(g.randint(0, M - 1) for _ in range(m)); i1 = tuple(g.randint(0, N - 1) for _ in range(n))
            cases.append({'k': 'R2', 'shape': shape, 'm': m, 'n': n, 'ity': len(cases) % 2, 'i0': i0, 'i1': i1, 'num': g.next() % 7})
            if m <= M and n <= N:
                j0 = tuple(g.shuffle(range(M))[:m]); j1 = tuple(g.shuffle(range(N))[:n])
                cases.append({'k': 'W2', 'shape': shape, 'm': m, 'n': n, 'ity': len(cases) % 2, 'i0': j0, 'i1': j1, 'op': g.next() % 5, 'rhs': g.next() % 3})   # (index-tensor views have no overloads for right-hand sides that require evaluation)
    for P in PF + [34]:
        nb = 12 if P == 34 else P
        masks = range(1 << nb) if nb <= (8 if quick else 12) else [g.next() % (1 << nb) for _ in range(120 if quick else 1500)] + [0, (1 << nb) - 1]
        for mk in masks:
            if quick and nb > 5 and g.next() % 3: continue
            cases.append({'k': 'FV', 'P': P, 'mask': mk, 'op': g.next() % 5, 'rhs': g.next() % (4 if P == 34 else 3)})
    # systematic: every operator x right-hand-side kind on the 2-D mask view and a 1-D one
    for op in range(5):
        for rhs in range(4):
            for mk in (0b101010101010, 0xFFF, 0b000000100000):
                cases.append({'k': 'FV', 'P': 34, 'mask': mk, 'op': op, 'rhs': rhs})
        for rhs in range(3):
            cases.append({'k': 'FV', 'P': 9, 'mask': 0b101100101, 'op': op, 'rhs': rhs})
    for i, c in enumerate(cases): c['id'] = i
    return cases

def stdin_text(cases, ty):
    L = []
    for c in cases:
        if ty != 'int32' and c.get('op') == 4: op = 1
        else: op = c.get('op')
        if c['k'] == 'R1': L.append('R1 %d %d %d %d %s' % (c['id'], c['P'], c['n'], c['ity'], ' '.join(map(str, c['idx']))))
        elif c['k'] == 'W1': L.append('W1 %d %d %d %d %d %d %s' % (c['id'], c['P'], c['n'], c['ity'], op, c['rhs'], ' '.join(map(str, c['idx']))))
        elif c['k'] == 'R2': L.append('R2 %d %d %d %d %d %d %s %s %d' % (c['id'], c['shape'][0], c['shape'][1], c['m'], c['n'], c['ity'], ' '.join(map(str, c['i0'])), ' '.join(map(str, c['i1'])), c['num']))
        elif c['k'] == 'W2': L.append('W2 %d %d %d %d %d %d %d %d %s %s' % (c['id'], c['shape'][0], c['shape'][1], c['m'], c['n'], c['ity'], op, c['rhs'], ' '.join(map(str, c['i0'])), ' '.join(map(str, c['i1']))))
        else: L.append('FV %d %d %d %d %d' % (c['id'], c['P'], op, c['rhs'], c['mask']))
    return '\n'.join(L) + '\n'

def nl(xs): return '[' + ';'.join(str(x) for x in xs) + ']'

def rhs_vals(kind, n, idx_or_none):
    if kind == 0: return [3] * n
    if kind == 1: return [2 + (i * 7) % 11 for i in range(n)]
    if kind == 2: return [(2 + (i * 7) % 11) * 2 + 1 for i in range(n)]
    if idx_or_none is None or kind == 33: return [2 + (i * 7) % 11 for i in range(n)]      # trans(transposed copy) has the values of kind 1
    return [5 + (o * 3) % 7 for o in idx_or_none]

def model_stmts(cases, int_div):
    st = []
    for c in cases:
        op = c.get('op')
        if op == 4 and not int_div: op = 1
        if c['k'] == 'R1':
            st.append('pz "E" %d (run_rv_read %s (zl %s))' % (c['id'], nl(c['idx']), ml_ints(range(c['P']))))
        elif c['k'] == 'W1':
            st.append('pz "A" %d (run_rv_write %d %s (zl %s) (zl %s))' % (c['id'], OPC[op], nl(c['idx']), ml_ints(rhs_vals(c['rhs'], c['n'], c['idx'])), ml_ints([10 + i for i in range(c['P'])])))
        elif c['k'] == 'R2':
            M, N = c['shape']
            st.append('pn "E" %d (run_idx2 %d %s %s)' % (c['id'], N, nl(c['i0']), nl(c['i1'])))
            st.append('pn "EC" %d (run_idx_col %d %s %d)' % (c['id'], N, nl(c['i0']), c['num'] % N))
            st.append('pn "ER" %d (run_idx_row %d %d %s)' % (c['id'], N, c['num'] % M, nl(c['i1'])))
            st.append('pn "EF" %d (run_idx_it_range %d %s %d ((z 1, z 3), z 1))' % (c['id'], N, nl(c['i0']), N))
            st.append('pn "FE" %d (run_idx_range_it %d %d ((z 0, z 3), z 2) %s)' % (c['id'], N, M, nl(c['i1'])))
            st.append('pn "FE1" %d (run_idx_range_it %d %d ((z 1, z 3), z 1) %s)' % (c['id'], N, M, nl(c['i1'])))
        elif c['k'] == 'W2':
            M, N = c['shape']; idx = [a * N + b for a in c['i0'] for b in c['i1']]
            st.append('pz "A" %d (run_rv_write %d (run_idx2 %d %s %s) (zl %s) (zl %s))' % (c['id'], OPC[op], N, nl(c['i0']), nl(c['i1']), ml_ints(rhs_vals(33 if c['rhs'] == 3 else c['rhs'], c['m'] * c['n'], idx)), ml_ints([10 + i for i in range(M * N)])))
        else:
            nb = 12 if c['P'] == 34 else c['P']
            mask = [(c['mask'] >> i) & 1 for i in range(nb)]
            st.append('pz "A" %d (run_filter_write %d [%s] (zl %s) (zl %s))' % (c['id'], OPC[op], ';'.join('true' if b else 'false' for b in mask), ml_ints(rhs_vals(c['rhs'], nb, None)), ml_ints([10 + i for i in range(nb)])))
    return st

def main():
    tr = tier(); sd = seed()
    rep = Report(PID, 'proof')
    proof = prove('Properties_C19.v')
    handle_proof(rep, proof, 'see correspondence results of this run')
    cases = gen_cases(sd, tr); byid = {c['id']: c for c in cases}
    cfgs = quick_grid() if tr == 'quick' else thorough_grid()
    types = ['double', 'int32'] if tr == 'quick' else ['double', 'int32', 'float']
    ocaml_ready()
    def build_run(job):
        cfg, ty = job
        exe, log = compile_cpp(cpp_source(ty), cfg)
        if exe is None: return ('B', cfg, ty, None, log)
        return ('B', cfg, ty, run_exe(exe, stdin=stdin_text(cases, ty), timeout=900), log)
    def model_run(int_div):
        res = {}
        for ln in ocaml_eval(model_stmts(cases, int_div)):
            p = ln.split(); res[(p[0], int(p[1]))] = [int(x) for x in p[2:]]
        return ('M', int_div, res)
    sub = [c for c in cases if c['k'] in ('W1', 'FV')][:40]
    def coq_run(_):
        items = []
        for c in sub:
            if c['k'] == 'W1': items.append('run_rv_write %d %s %s %s' % (OPC[c['op']], natlist(c['idx']), zlist(rhs_vals(c['rhs'], c['n'], c['idx'])), zlist([10 + i for i in range(c['P'])])))
            else:
                nb = 12 if c['P'] == 34 else c['P']; mask = [(c['mask'] >> i) & 1 for i in range(nb)]
                items.append('run_filter_write %d [%s] %s %s' % (OPC[c['op']], '; '.join('true' if b else 'false' for b in mask), zlist(rhs_vals(c['rhs'], nb, None)), zlist([10 + i for i in range(nb)])))
        txt = 'From Coq Require Import ZArith List. Import ListNotations.\nFrom FastorV Require Import Model.Run.\nEval vm_compute in [%s].' % ';\n '.join(items)
        return ('V', 0, dict(zip([c['id'] for c in sub], parse_coq_lists(coq_eval(txt))[0])))
    allres = pmap(lambda j: j[0](j[1]), [(build_run, (cfg, ty)) for cfg in cfgs for ty in types] + [(model_run, True), (model_run, False), (coq_run, 0)])
    model = {r[1]: r[2] for r in allres if r[0] == 'M'}
    n_cross = 0
    for r in allres:
        if r[0] == 'V':
            for cid, v in r[2].items():
                n_cross += 1
                if model[True][('A', cid)] != v: rep.violation('extracted model differs from vm_compute (case %d)' % cid, {'case': byid[cid]}, no_input=True, key='extraction'); break
    n_eval = 0; mism = []; dist = {}
    for r in allres:
        if r[0] != 'B': continue
        _, cfg, ty, res, log = r
        if res is None: rep.violation('harness does not compile under %s (%s)' % (cfg.name, ty), {'cfg': cfg.name, 'log': log[-3000:]}, no_input=True, key='compile:%s' % cfg.name); continue
        rc, out, err = res
        if rc != 0: rep.violation('harness crashed under %s (%s): exit %s' % (cfg.name, ty, rc), {'cfg': cfg.name, 'stderr': err[-300:]}, key='crash:%s:%s' % (cfg.name, ty))
        mres = model[ty == 'int32']
        for ln in out.splitlines():
            p = ln.split()
            if not p: continue
            tag, cid = p[0], int(p[1]); c = byid[cid]
            if tag == 'F':
                if int(p[2]): mism.append({'what': 'fence', 'cfg': cfg.name, 'ty': ty, 'case': c, 'detail': '%s canary words changed' % p[2]})
                continue
            vals = [parse_num(v) for v in p[2:]]
            n_eval += 1; dist[c['k']] = dist.get(c['k'], 0) + 1
            if tag in ('E', 'EC', 'ER', 'EF', 'FE', 'CE', 'FE1', 'CE2', 'CEF', 'CFE1', 'CEC', 'CER'):
                exp = mres[({'CE': 'E', 'CE2': 'E', 'CEF': 'EF', 'CFE1': 'FE1', 'CEC': 'EC', 'CER': 'ER'}.get(tag, tag), cid)]
            elif tag == 'X':
                exp = [3 * v for v in mres[('E', cid)]]
            else:
                exp = mres[('A', cid)][:-1]
                if mres[('A', cid)][-1] != 77777: mism.append({'what': 'model-frame', 'cfg': cfg.name, 'ty': ty, 'case': c, 'detail': 'model wrote past the parent'})
            ok = len(vals) == len(exp) and all(not isinstance(a, str) and Fraction(a) == b for a, b in zip(vals, exp))
            if not ok:
                bad = next((i for i in range(min(len(vals), len(exp))) if isinstance(vals[i], str) or Fraction(vals[i]) != exp[i]), -1)
                mism.append({'what': {'A': 'write', 'X': 'read-in-expression'}.get(tag, 'read') + '-' + c['k'], 'cfg': cfg.name, 'ty': ty, 'case': c,
                             'detail': 'element %d is %s, model %s' % (bad, vals[bad] if 0 <= bad < len(vals) else None, exp[bad] if 0 <= bad < len(exp) else None)})
    groups = {}
    for m in mism:
        c = m['case']; key = (m['what'], m['cfg'], m['ty'])
        size = c.get('P', 0) or (c['shape'][0] * c['shape'][1])
        if key not in groups or size < groups[key][0]: groups[key] = (size, m)
    for key, (size, m) in sorted(groups.items(), key=lambda kv: str(kv[0])):
        c = m['case']; cfgo = next(x for x in cfgs if x.name == m['cfg'])
        kkey = '%s:%s:%s:%s' % (m['what'], m['cfg'], m['ty'], json.dumps({k: v for k, v in c.items() if k != 'id'}).replace(' ', ''))
        rep.violation('index-tensor / mask view %s differs from the indexed items: %s; %s' % (m['what'], m['detail'], kkey[-260:]),
                      {'mismatch': m, 'compile_cmd': ' '.join(cfgo.cmd('t.cpp', 't.exe')), 'stdin_line': stdin_text([c], m['ty']).strip(), 'harness': 'props/c19.py cpp_source(%r)' % m['ty']}, key=kkey)
    rep.cov.update({'evaluations': n_eval, 'distinct_nontrivial': len([c for c in cases if c['k'] != 'FV' or c['mask']]),
                    'rule': 'index vectors: every vector of length <= 4 over a parent of size 6 (exhaustive in the thorough tier, length <= 3 plus a sample of length 4 in quick), random longer ones with repeats and unsorted order, duplicate-free ones for writes; one index tensor per axis and the mixed integer / fseq forms on 2-D parents; masks: all 2^n masks for n <= 8 (12 thorough) and random larger ones; 5 operators x right-hand-side kinds; int / int64 / size_t index types; compared with the Coq model',
                    'samples': [cases[0], cases[len(cases) // 3], cases[-1]], 'configurations': [c.name for c in cfgs], 'distribution': dist,
                    'extraction_crosschecked_cases': n_cross, 'traces_validated_against_impl': n_eval})
    rep.assumptions = ['writes through index tensors are only judged for duplicate-free indices (as the property states)']
    return rep.finish(proof=proof, trusted=['Coq 8.16.1 kernel (coqc), extraction cross-checked by vm_compute', 'lib/common.py, props/c19.py', 'harness/vh.h'])

if __name__ == '__main__':
    sys.exit(main())
