"""C05 - writing through a slice changes exactly the selected elements and nothing else."""
import sys, os
sys.path.insert(0, os.path.dirname(os.path.abspath(__file__)))
import viewlib
from common import Config
def main():
    extra = [Config('avx2', 'c++14', '-O2', ['FASTOR_USE_VECTORISED_EXPR_ASSIGN']), Config('sse2', 'c++17', '-O2', ['FASTOR_USE_VECTORISED_EXPR_ASSIGN']),
             Config('avx512', 'c++17', '-O2', ['FASTOR_USE_VECTORISED_EXPR_ASSIGN'])]
    return viewlib.view_main('C05', 'Properties_C05.v', ('W',), ('FW',), 'slice write differs from "update exactly the selected elements"', extra)
if __name__ == '__main__': sys.exit(main())
