"""C02 - expression evaluation/assignment is the scalar operation applied element by element.
Coq theorem (Properties_C02.v) + correspondence: generated expression trees are run through the
library under every ISA and compared (a) bit for bit with the same C++ scalar operations applied per
element, (b) with the Coq model (wrap-around integer semantics)."""
import os, sys, json, time
sys.path.insert(0, os.path.join(os.path.dirname(os.path.abspath(__file__)), '..', 'lib'))
from common import *

PID = 'C02'
TY = {  # name -> (C++ type, bits for the model, is float, unsigned type)
    'int32': ('int32_t', 32, False, 'uint32_t'), 'int64': ('int64_t', 64, False, 'uint64_t'),
    'float': ('float', 64, True, None), 'double': ('double', 64, True, None)}
BIN = {0: '+', 1: '-', 2: '*', 3: '/', 6: '<', 7: '>', 8: '<=', 9: '>=', 10: '==', 11: '!=', 12: '&&', 13: '||'}
AOPS = {None: '=', 0: '+=', 1: '-=', 2: '*=', 3: '/='}

# ---- expression trees: ('leaf',k) ('const',c) ('un',op,e) ('bin',op,e1,e2); op codes as in Model/ExprInt.v
def gen_arith(g, depth, ty, stream, allow_dst):
    isf = TY[ty][2]
    if depth == 0 or g.next() % 5 == 0:
        r = g.next() % 10
        if r < 2 and depth < 3: return ('const', g.randint(-5, 5) or 2)
        if r < 4 and allow_dst: return ('leaf', 0)
        return ('leaf', g.randint(1, 2))
    r = g.next() % 12
    if r < 6:
        ops = [0, 1, 2]
        e1 = gen_arith(g, depth - 1, ty, stream, allow_dst); e2 = gen_arith(g, depth - 1, ty, stream, allow_dst)
        if e1[0] == 'const' and e2[0] == 'const': e2 = ('leaf', 1)
        return ('bin', g.choice(ops), e1, e2)
    if r < 7 and stream != 'boundary':
        # division: divisor is the strictly positive tensor 3 or a non-zero constant
        e1 = gen_arith(g, depth - 1, ty, stream, allow_dst)
        if e1[0] == 'const': e1 = ('leaf', 2)
        return ('bin', 3, e1, ('leaf', 3) if g.next() % 2 else ('const', g.choice([2, 3, -4, 7])))
    if r < 9:
        e1 = gen_arith(g, depth - 1, ty, stream, allow_dst); e2 = gen_arith(g, depth - 1, ty, stream, allow_dst)
        if e1[0] == 'const': e1 = ('leaf', 1)
        if e2[0] == 'const': e2 = ('leaf', 2)
        if isf and stream == 'special': return ('bin', 0, e1, e2)   # min/max with NaN are not required bit-exact
        return ('bin', g.choice([4, 5]), e1, e2)
    e1 = gen_arith(g, depth - 1, ty, stream, allow_dst)
    if e1[0] == 'const': e1 = ('leaf', 1)
    if r == 11 and (isf or stream != 'boundary'): return ('un', 4, ('un', 1, e1))       # sqrt(abs(.)), also on integer tensors (generic lane loop)
    if r == 10 and isf and stream in ('frac', 'special'): return ('un', g.choice([5, 6, 7, 8]), e1)   # floor ceil round trunc
    return ('un', g.choice([0, 1]), e1)

def gen_bool(g, depth, ty, stream):
    if depth == 0 or g.next() % 3 == 0:
        e1 = gen_arith(g, 1, ty, stream, False); e2 = gen_arith(g, 1, ty, stream, False)
        if e1[0] == 'const': e1 = ('leaf', 1)
        return ('bin', g.choice([6, 7, 8, 9, 10, 11]), e1, e2)
    r = g.next() % 3
    if r == 0: return ('un', 2, gen_bool(g, depth - 1, ty, stream))
    return ('bin', 12 if r == 1 else 13, gen_bool(g, depth - 1, ty, stream), gen_bool(g, depth - 1, ty, stream))

def uses(e, k):
    if e[0] == 'leaf': return e[1] == k
    if e[0] == 'const': return False
    return any(uses(x, k) for x in e[2:])
def has_mixed_literal(e):
    if e[0] == 'const': return len(e) > 2
    if e[0] == 'leaf': return False
    return any(has_mixed_literal(x) for x in e[2:])
def ops_of(e):
    if e[0] in ('leaf', 'const'): return set()
    s = {(e[0], e[1])}
    for x in e[2:]: s |= ops_of(x)
    return s

def fastor_expr(e, T):
    if e[0] == 'leaf': return 'r' if e[1] == 0 else 't%d' % e[1]
    if e[0] == 'const': return e[2] if len(e) > 2 else '(%s)(%d)' % (T, e[1])      # e[2]: a literal of another arithmetic type
    if e[0] == 'un':
        a = fastor_expr(e[2], T)
        if isinstance(e[1], str): return '%s(%s)' % (e[1], a)          # elementwise math function
        return {0: '(-%s)', 1: 'abs(%s)', 2: '(!%s)', 4: 'sqrt(%s)', 5: 'floor(%s)', 6: 'ceil(%s)', 7: 'round(%s)', 8: 'trunc(%s)'}[e[1]] % a
    a, b = fastor_expr(e[2], T), fastor_expr(e[3], T)
    if e[1] in (4, 5): return '%s(%s,%s)' % ('min' if e[1] == 4 else 'max', a, b)
    return '(%s %s %s)' % (a, BIN[e[1]], b)

def scalar_expr(e, ty):
    """the same C++ scalar operations per element; integer arithmetic through unsigned wrap helpers (no UB)"""
    T = TY[ty][0]; isf = TY[ty][2]
    if e[0] == 'leaf': return 'd0' if e[1] == 0 else 't%d.data()[i]' % e[1]
    if e[0] == 'const': return '((%s)(%s))' % (T, e[2]) if len(e) > 2 else '(%s)(%d)' % (T, e[1])   # the library converts the number to the element type first
    if e[0] == 'un':
        a = scalar_expr(e[2], ty)
        if isinstance(e[1], str): return '((%s)std::%s(%s))' % (T, e[1], a)
        if e[1] == 0: return '(-%s)' % a if isf else 'wneg<%s>(%s)' % (T, a)
        if e[1] == 1: return 'std::abs(%s)' % a if isf else 'wabs<%s>(%s)' % (T, a)
        if e[1] == 2: return '(!%s)' % a
        if e[1] >= 5: return 'std::%s(%s)' % ({5: 'floor', 6: 'ceil', 7: 'round', 8: 'trunc'}[e[1]], a)
        return 'std::sqrt(%s)' % a if isf else '((%s)std::sqrt((double)(%s)))' % (T, a)
    a, b = scalar_expr(e[2], ty), scalar_expr(e[3], ty)
    if e[1] in (4, 5): return 'std::%s<%s>(%s,%s)' % ('min' if e[1] == 4 else 'max', T, a, b)
    if not isf and e[1] in (0, 1, 2): return 'w%s<%s>(%s,%s)' % ({0: 'add', 1: 'sub', 2: 'mul'}[e[1]], T, a, b)
    if e[1] >= 6: return '(%s %s %s)' % (a, BIN[e[1]], b)
    return '((%s)(%s %s %s))' % (T, a, BIN[e[1]], b)

def coq_expr(e, ml):
    if e[0] == 'leaf': return '(ELeaf (S:=ZS) %d)' % e[1] if not ml else 'ELeaf %d' % e[1]
    if e[0] == 'const': return ('EConst (Obj.magic (z (%d)))' % e[1]) if ml else '(EConst (S:=ZS) (%d)%%Z)' % e[1]
    if e[0] == 'un':
        return ('EUn (%d, %s)' if ml else '(EUn %d %s)') % (e[1], coq_expr(e[2], ml))
    return ('EBin (%d, %s, %s)' if ml else '(EBin %d %s %s)') % (e[1], coq_expr(e[2], ml), coq_expr(e[3], ml))

BOUND = {'int32': [0, 1, -1, 2, -2, 2147483647, -2147483647, 2147483646, -2147483648, 65536, -65536, 46341, 1073741824],
         'int64': [0, 1, -1, 2, -2, 9223372036854775807, -9223372036854775807, 9223372036854775806, -9223372036854775808, 4294967296, -4294967296, 3037000500, 4611686018427387904]}

def gen_cases(sd, tr):
    g = LCG(sd * 13 + 2)
    ncase = 200 if tr == 'quick' else 1500
    cases = []
    sizes = list(range(1, 41))
    for i in range(ncase):
        ty = ['int32', 'int64', 'float', 'double'][i % 4]
        n = sizes[(i // 4 + g.next() % 3) % len(sizes)] if i % 9 else g.choice([48, 63, 64, 65, 100])
        kind = 'bool' if i % 5 == 4 else 'arith'
        stream = 'small'
        if i % 7 == 3: stream = 'boundary' if not TY[ty][2] else 'special'
        if i % 7 == 5 and TY[ty][2]: stream = 'frac'
        if kind == 'bool':
            tree = gen_bool(g, 2, ty, stream); aop = None
        else:
            aop = g.choice([None, None, 0, 1, 2, 3]) if stream in ('small', 'frac') else g.choice([None, 0, 1, 2])
            tree = gen_arith(g, g.randint(1, 3), ty, stream, True)
            if tree[0] == 'const': tree = ('bin', 0, ('leaf', 1), tree)
            if aop == 3:
                # r /= expr : make the right-hand side non-zero: (abs(expr) + t3), t3 > 0
                tree = ('bin', 0, ('un', 1, tree), ('leaf', 3))
        cases.append({'id': i, 'ty': ty, 'n': n, 'kind': kind, 'stream': stream, 'aop': aop, 'tree': tree, 'seed': g.next() % 100000})
    # systematic operator coverage: every operator x operand form (tensor-tensor, tensor-number, number-tensor)
    # x element type, once plain, on a size with a vector body and a scalar tail for every lane count
    for ty in ['int32', 'int64', 'float', 'double']:
        isf = TY[ty][2]
        for op in [0, 1, 2, 3, 4, 5, 6, 7, 8, 9, 10, 11]:
            for form in ('TT', 'TN', 'NT'):
                if op in (4, 5) and form != 'TT' and False: continue
                a = ('leaf', 1) if form[0] == 'T' else ('const', g.choice([-7, 5, 3]))
                b = (('leaf', 3) if op == 3 else ('leaf', 2)) if form[1] == 'T' else ('const', g.choice([-3, 2, 6]))
                kind = 'bool' if op >= 6 else 'arith'
                cases.append({'id': len(cases), 'ty': ty, 'n': g.choice([35, 37, 39]), 'kind': kind, 'stream': 'frac' if (isf and op != 3 and kind == 'arith' and g.next() % 2) else 'small',
                              'aop': None, 'tree': ('bin', op, a, b), 'seed': g.next() % 100000})
        # numbers of another arithmetic type than the element type (2.5 * Tensor<int>, 0.1 * Tensor<float>, 2.1f * Tensor<double>), on
        # either side: the library converts the number to the element type first, in the vector body and in the scalar tail alike
        for op in [0, 1, 2]:
            for form in ('TN', 'NT'):
                cv = g.choice([-3, 2, 6]); txt = ('%d.5' % cv) if not isf else (('%d.1' % cv) if ty == 'float' else ('%d.1f' % cv))
                k = ('const', cv, txt)
                cases.append({'id': len(cases), 'ty': ty, 'n': g.choice([35, 37, 39]), 'kind': 'arith', 'stream': 'small', 'aop': g.choice([None, 0]),
                              'tree': ('bin', op, ('leaf', 1), k) if form == 'TN' else ('bin', op, k, ('leaf', 2)), 'seed': g.next() % 100000})
        if isf:
            # every elementwise math function of the library against the same std:: function applied per element (bit for bit: the
            # library applies the scalar function lane by lane), on arguments inside the function's domain
            x = ('leaf', 1)
            pos = ('bin', 0, ('un', 1, x), ('const', 1, '0.5')); big = ('bin', 0, ('un', 1, x), ('const', 2, '1.5'))
            unit = ('bin', 3, x, ('bin', 0, ('un', 1, x), ('const', 2)))
            small = ('bin', 3, x, ('const', 1024))
            for fn, arg in [('sqrt', pos), ('cbrt', x), ('exp', small), ('exp2', small), ('expm1', small), ('log', pos), ('log10', pos), ('log2', pos), ('log1p', pos),
                            ('sin', x), ('cos', x), ('tan', unit), ('asin', unit), ('acos', unit), ('atan', x), ('sinh', small), ('cosh', small), ('tanh', x),
                            ('asinh', x), ('acosh', big), ('atanh', unit), ('erf', small), ('tgamma', pos), ('lgamma', pos)]:
                cases.append({'id': len(cases), 'ty': ty, 'n': g.choice([35, 37, 39]), 'kind': 'arith', 'stream': 'frac', 'aop': g.choice([None, None, 0]),
                              'tree': ('un', fn, arg), 'seed': g.next() % 100000})
        for uop in ([0, 1] if not isf else [0, 1, 4, 5, 6, 7, 8]):
            for stream in (['small'] if not isf else ['frac', 'special']):
                tree = ('un', uop, ('leaf', 1)) if uop != 4 else ('un', 4, ('un', 1, ('leaf', 1)))
                cases.append({'id': len(cases), 'ty': ty, 'n': g.choice([35, 37, 39]), 'kind': 'arith', 'stream': stream, 'aop': g.choice([None, 0]), 'tree': tree, 'seed': g.next() % 100000})
        for lop in (12, 13):
            tree = ('bin', lop, ('bin', 6, ('leaf', 1), ('leaf', 2)), ('bin', 9, ('leaf', 2), ('const', 1)))
            cases.append({'id': len(cases), 'ty': ty, 'n': 37, 'kind': 'bool', 'stream': 'small', 'aop': None, 'tree': tree, 'seed': g.next() % 100000})
        cases.append({'id': len(cases), 'ty': ty, 'n': 37, 'kind': 'bool', 'stream': 'small', 'aop': None, 'tree': ('un', 2, ('bin', 7, ('leaf', 1), ('leaf', 2))), 'seed': g.next() % 100000})
    # A /= number for floats (documented reciprocal multiply): judged within two roundings
    for j in range(12 if tr == 'quick' else 60):
        cases.append({'id': len(cases), 'ty': ['float', 'double'][j % 2], 'n': g.randint(1, 40), 'kind': 'divnum', 'stream': 'frac', 'aop': 3,
                      'tree': ('const', g.choice([3, 7, 10, -6, 49])), 'seed': g.next() % 100000})
    return cases

def leaf_data(c):
    """exact integer operand values for tensors 0..3 (None when the stream is not integer valued)"""
    n = c['n']; sd = c['seed']
    if c['stream'] == 'small':
        return [data_ints(sd + k, n, -9, 9) if k < 3 else data_ints(sd + k, n, 1, 9) for k in range(4)]
    if c['stream'] == 'boundary':
        tab = BOUND[c['ty']]
        out = []
        for k in range(4):
            gg = LCG(sd + k); out.append([tab[gg.next() % len(tab)] for _ in range(n)])
        return out
    return None

CPP_HEAD = r'''
#include <Fastor/Fastor.h>
#include "vh.h"
#include <cmath>
#include <limits>
using namespace Fastor;
template<typename T> using UT = typename std::make_unsigned<T>::type;
template<typename T> static inline T wadd(T a, T b) { return (T)((UT<T>)a + (UT<T>)b); }
template<typename T> static inline T wsub(T a, T b) { return (T)((UT<T>)a - (UT<T>)b); }
template<typename T> static inline T wmul(T a, T b) { return (T)((UT<T>)a * (UT<T>)b); }
template<typename T> static inline T wneg(T a) { return (T)((UT<T>)0 - (UT<T>)a); }
template<typename T> static inline T wabs(T a) { return a < 0 ? wneg<T>(a) : a; }
template<typename T> static bool same(T a, T b) { if (a != a && b != b) return true; return std::memcmp(&a, &b, sizeof(T)) == 0; }
static bool same(bool a, bool b) { return a == b; }
template<typename T> static void fill_tab(T* p, size_t n, uint64_t seed, const T* tab, size_t m) { vh_lcg g(seed); for (size_t i = 0; i < n; ++i) p[i] = tab[g.next() % m]; }
template<typename T> static void fill_special(T* p, size_t n, uint64_t seed) {
    const T tab[] = { T(0), -T(0), T(1), T(-1), T(2.5), T(-3.75), std::numeric_limits<T>::infinity(), -std::numeric_limits<T>::infinity(),
                      std::numeric_limits<T>::quiet_NaN(), std::numeric_limits<T>::denorm_min(), std::numeric_limits<T>::min(), std::numeric_limits<T>::max(),
                      -std::numeric_limits<T>::max(), std::numeric_limits<T>::epsilon(), T(1e-30), T(123456.789) };
    fill_tab(p, n, seed, tab, sizeof(tab)/sizeof(T));
}
static const int32_t B32[] = {0, 1, -1, 2, -2, 2147483647, -2147483647, 2147483646, (int32_t)(-2147483647-1), 65536, -65536, 46341, 1073741824};
static const int64_t B64[] = {0, 1, -1, 2, -2, 9223372036854775807LL, -9223372036854775807LL, 9223372036854775806LL, (int64_t)(-9223372036854775807LL-1), 4294967296LL, -4294967296LL, 3037000500LL, 4611686018427387904LL};
static void fill_bound(int32_t* p, size_t n, uint64_t s) { fill_tab(p, n, s, B32, 13); }
static void fill_bound(int64_t* p, size_t n, uint64_t s) { fill_tab(p, n, s, B64, 13); }
static void fill_bound(float*, size_t, uint64_t) {}
static void fill_bound(double*, size_t, uint64_t) {}
template<typename T> static void fill_special_i(T*, size_t, uint64_t) {}
static void fill_special_i(float* p, size_t n, uint64_t s) { fill_special(p, n, s); }
static void fill_special_i(double* p, size_t n, uint64_t s) { fill_special(p, n, s); }
template<typename T, size_t N> static void fill4(Tensor<T,N>& t0, Tensor<T,N>& t1, Tensor<T,N>& t2, Tensor<T,N>& t3, int stream, uint64_t seed) {
    Tensor<T,N>* ts[4] = {&t0, &t1, &t2, &t3};
    for (int k = 0; k < 4; ++k) {
        if (stream == 0) { if (k < 3) vh_fill(ts[k]->data(), N, seed + k, -9, 9); else vh_fill(ts[k]->data(), N, seed + k, 1, 9); }
        else if (stream == 1) fill_bound(ts[k]->data(), N, seed + k);
        else if (stream == 2) fill_special_i(ts[k]->data(), N, seed + k);
        else vh_fill_frac(ts[k]->data(), N, seed + k, 20, 7);
    }
}
// zeros_equal: min/max of (+0,-0) may return either zero (hardware min/max and std::min/std::max differ there by design)
template<typename R, size_t N> static void report(long id, const Tensor<R,N>& r, const R* ref, bool zeros_equal = false) {
    int nm = 0; long first = -1;
    for (size_t i = 0; i < N; ++i) if (!same(r.data()[i], ref[i]) && !(zeros_equal && r.data()[i] == (R)0 && ref[i] == (R)0)) { if (!nm) first = (long)i; ++nm; }
    std::printf("S %ld %d %ld\n", id, nm, first);
    vh_line("R", id, r.data(), N);
    if (nm) vh_line("X", id, ref, N);
}
'''

STREAMS = {'small': 0, 'boundary': 1, 'special': 2, 'frac': 3}

def cpp_case(c):
    T = TY[c['ty']][0]; n = c['n']; e = c['tree']
    L = ['static void case_%d() {' % c['id'], '  using T = %s; constexpr size_t N = %d;' % (T, n),
         '  Tensor<T,N> t0, t1, t2, t3; fill4(t0, t1, t2, t3, %d, %dULL);' % (STREAMS[c['stream']], c['seed'])]
    if c['kind'] == 'bool':
        L.append('  Tensor<bool,N> r = %s;' % fastor_expr(e, T))
        L.append('  bool ref[N]; for (size_t i = 0; i < N; ++i) { ref[i] = %s; }' % scalar_expr(e, c['ty']))
        L.append('  report<bool,N>(%d, r, ref);' % c['id'])
    elif c['kind'] == 'divnum':
        L.append('  Tensor<T,N> r(t0); r /= (T)(%d);' % e[1])
        L.append('  T ref[N]; for (size_t i = 0; i < N; ++i) { ref[i] = t0.data()[i] / (T)(%d); }' % e[1])
        L.append('  vh_line("R", %d, r.data(), N); vh_line("X", %d, ref, N); vh_line("I", %d, t0.data(), N);' % (c['id'], c['id'], c['id']))
    else:
        L.append('  Tensor<T,N> r(t0); r %s %s;' % (AOPS[c['aop']], fastor_expr(e, T)))
        se = scalar_expr(e, c['ty']); isf = TY[c['ty']][2]
        if c['aop'] is None: fin = se
        elif isf or c['aop'] == 3: fin = '(T)(d0 %s %s)' % (BIN[c['aop']], se)
        else: fin = 'w%s<T>(d0, %s)' % ({0: 'add', 1: 'sub', 2: 'mul'}[c['aop']], se)
        L.append('  T ref[N]; for (size_t i = 0; i < N; ++i) { const T d0 = t0.data()[i]; (void)d0; ref[i] = %s; }' % fin)
        zeq = isf and any(o in ops_of(e) for o in (('bin', 4), ('bin', 5)))
        L.append('  report<T,N>(%d, r, ref%s);' % (c['id'], ', true' if zeq else ''))
    L.append('}')
    return '\n'.join(L)

def cpp_source(shard):
    return CPP_HEAD + '\n'.join(cpp_case(c) for c in shard) + '\nint main() {\n' + '\n'.join('  case_%d();' % c['id'] for c in shard) + '\n  return 0; }\n'

def ub_positions(c):
    """flat positions at which the C++ scalar evaluation of the tree is undefined (signed overflow in +, -, *, unary -, abs, or the
    compound assignment; division by zero / INT_MIN / -1): the property compares with 'the same C++ scalar operations', which have no
    value there, and the library's own scalar paths (remainder loop, boolean expressions, the scalar configuration) are compiled
    under that licence - g++ folds (x * -1) == x to x == 0. Only integer boundary streams can overflow."""
    if TY[c['ty']][2] or c['stream'] != 'boundary' or c['kind'] == 'divnum': return set()
    bits = TY[c['ty']][1]; lo, hi = -(1 << (bits - 1)), (1 << (bits - 1)) - 1
    d = leaf_data(c); ub = set()
    class Skip(Exception): pass
    def wrap(v):
        v &= (1 << bits) - 1
        return v - (1 << bits) if v > hi else v
    def chk(v, p):
        if not lo <= v <= hi: ub.add(p)
        return wrap(v)
    def ev(e, p):
        if e[0] == 'leaf': return d[e[1]][p]
        if e[0] == 'const': return wrap(int(e[1]))
        if e[0] == 'un':
            a = ev(e[2], p); op = e[1]
            if op == 0: return chk(-a, p)
            if op == 1: return chk(abs(a), p)
            if op == 2: return 0 if a else 1
            raise Skip()
        a, b = ev(e[2], p), ev(e[3], p); op = e[1]
        if op == 0: return chk(a + b, p)
        if op == 1: return chk(a - b, p)
        if op == 2: return chk(a * b, p)
        if op == 3:
            if b == 0 or (a == lo and b == -1): ub.add(p); return 0
            return cdiv_(a, b)
        if op == 4: return min(a, b)
        if op == 5: return max(a, b)
        return int({6: a < b, 7: a > b, 8: a <= b, 9: a >= b, 10: a == b, 11: a != b, 12: bool(a) and bool(b), 13: bool(a) or bool(b)}[op])
    def cdiv_(a, b):
        q = abs(a) // abs(b)
        return q if (a >= 0) == (b >= 0) else -q
    try:
        for p in range(c['n']):
            v = ev(c['tree'], p)
            if c['kind'] != 'bool' and c['aop'] is not None:
                d0 = d[0][p]
                if c['aop'] == 0: chk(d0 + v, p)
                elif c['aop'] == 1: chk(d0 - v, p)
                elif c['aop'] == 2: chk(d0 * v, p)
                elif v == 0 or (d0 == lo and v == -1): ub.add(p)
    except Skip:
        return set()
    return ub

def modelled(c):
    """cases the Z-valued Coq model can decide exactly"""
    if c['kind'] == 'divnum' or c['stream'] in ('special', 'frac'): return False
    ops = ops_of(c['tree'])
    if any(isinstance(o[1], str) for o in ops): return False      # math functions: compared with the scalar C++ function only
    if ('un', 4) in ops: return False          # sqrt is not part of the Z model
    if TY[c['ty']][2] and has_mixed_literal(c['tree']): return False      # the converted literal is not an integer
    if TY[c['ty']][2]:
        # floats: integer-valued data, exact operators only (no division, no sqrt)
        if ('bin', 3) in ops or ('un', 4) in ops or c['aop'] == 3: return False
    return True

def ocaml_stmt(c, W):
    bits = TY[c['ty']][1]; d = leaf_data(c)
    aop = 'None' if c['aop'] is None else '(Some %d)' % c['aop']
    return 'pz "M" %d (run_assign_Z (z %d) %d %d %s %s (%s) [%s])' % (c['id'], bits, W, c['n'], 'true' if c['kind'] == 'bool' else 'false', aop,
            coq_expr(c['tree'], True), ';'.join(ml_zlist(x) for x in d))

def coq_stmt(c, W):
    bits = TY[c['ty']][1]; d = leaf_data(c)
    aop = 'None' if c['aop'] is None else '(Some %d)' % c['aop']
    return 'run_assign_Z %d %d %d %s %s %s [%s]' % (bits, W, c['n'], 'true' if c['kind'] == 'bool' else 'false', aop, coq_expr(c['tree'], False), '; '.join(zlist(x) for x in d))

def main():
    tr = tier(); sd = seed()
    rep = Report(PID, 'proof')
    proof = prove('Properties_C02.v')
    handle_proof(rep, proof, 'see correspondence results of this run')
    cases = gen_cases(sd, tr); byid = {c['id']: c for c in cases}
    cfgs = quick_grid() if tr == 'quick' else thorough_grid()
    nshard = 4 if tr == 'quick' else 16
    shards = [cases[i::nshard] for i in range(nshard)]
    ocaml_ready()
    mod_cases = [c for c in cases if modelled(c)]
    Ws = sorted({cfg.lanes(4) for cfg in cfgs} | {cfg.lanes(8) for cfg in cfgs})
    def build_run(job):
        cfg, si = job
        exe, log = compile_cpp(cpp_source(shards[si]), cfg)
        if exe is None: return ('B', cfg, si, None, log)
        return ('B', cfg, si, run_exe(exe), log)
    def model_run(W):
        res = {}
        for ln in ocaml_eval([ocaml_stmt(c, W) for c in mod_cases]):
            p = ln.split(); res[int(p[1])] = [int(x) for x in p[2:]]
        return ('M', W, res)
    sub = mod_cases[:40]
    def coq_run(W):
        txt = 'From Coq Require Import ZArith List. Import ListNotations.\nFrom FastorV Require Import Base.Scalar Model.Expr Model.ExprInt Model.Run.\nEval vm_compute in [%s].' % ';\n '.join(coq_stmt(c, W) for c in sub)
        return ('V', W, dict(zip([c['id'] for c in sub], parse_coq_lists(coq_eval(txt))[0])))
    allres = pmap(lambda j: j[0](j[1]), [(build_run, (cfg, si)) for cfg in cfgs for si in range(nshard)] + [(model_run, W) for W in Ws] + [(coq_run, W) for W in (1, 4)])
    model = {r[1]: r[2] for r in allres if r[0] == 'M'}
    n_cross = 0
    for r in allres:
        if r[0] == 'V':
            for cid, v in r[2].items():
                n_cross += 1
                if model[r[1]][cid] != v:
                    rep.violation('extracted model differs from the model evaluated inside Coq (case %d)' % cid, {'W': r[1], 'case': byid[cid]}, no_input=True, key='extraction'); break
    # model results must not depend on the lane count (theorem); cheap sanity on the extracted code
    for W in Ws:
        if model[W] != model[Ws[0]]:
            rep.violation('model result depends on the lane count', {'W': W}, no_input=True, key='model-lane-dependence')
    n_eval = 0; n_model = 0; mism = []; dist = {}; maxdiv = 0.0; n_ub_excused = 0
    for r in allres:
        if r[0] != 'B': continue
        _, cfg, si, res, log = r
        if res is None:
            rep.violation('harness does not compile under %s' % cfg.name, {'cfg': cfg.name, 'log': log[-3000:]}, no_input=True, key='compile:%s' % cfg.name); continue
        rc, out, err = res
        if rc != 0:
            rep.violation('harness crashed under %s (exit %s)' % (cfg.name, rc), {'cfg': cfg.name, 'exit': rc, 'stderr': err[-500:]}, key='crash:%s' % cfg.name)
        lines = {}
        for ln in out.splitlines():
            p = ln.split(); lines[(p[0], int(p[1]))] = p[2:]
        for c in shards[si]:
            R = lines.get(('R', c['id']))
            if R is None:
                if rc == 0: mism.append({'kind': 'missing', 'cfg': cfg.name, 'case': c})
                continue
            n_eval += 1; dist[(c['ty'], c['kind'], c['stream'])] = dist.get((c['ty'], c['kind'], c['stream']), 0) + 1
            if c['kind'] == 'divnum':
                prec = 24 if c['ty'] == 'float' else 53
                X = [parse_num(t) for t in lines[('I', c['id'])]]; got = [parse_num(t) for t in R]
                for i, (x, gv) in enumerate(zip(X, got)):
                    ex = x / c['tree'][1]
                    lim = ((1 + Fraction(1, 2 ** prec)) ** 2 - 1) * abs(ex)
                    if isinstance(gv, str) or abs(gv - ex) > lim:
                        mism.append({'kind': 'divnum-bound', 'cfg': cfg.name, 'case': c, 'index': i, 'impl': str(gv), 'exact': str(ex)}); break
                    if ex: maxdiv = max(maxdiv, float(abs(gv - ex) / abs(ex)) * 2 ** prec)
                continue
            S = lines.get(('S', c['id']))
            ubp = ub_positions(c)
            if S and int(S[0]) != 0 and int(S[1]) in ubp and int(S[0]) <= len(ubp):
                n_ub_excused += 1          # every differing position can be one where the scalar C++ operation is undefined
            elif S and int(S[0]) != 0:
                mism.append({'kind': 'scalar-ref', 'cfg': cfg.name, 'case': c, 'index': int(S[1]), 'n_wrong': int(S[0]), 'impl': ' '.join(R[:48]), 'scalar_cpp': ' '.join(lines.get(('X', c['id']), [])[:48])})
            if modelled(c):
                n_model += 1
                W = cfg.lanes(4 if c['ty'] in ('int32', 'float') else 8)
                want = model[W][c['id']][:c['n']]
                got = [parse_num(t) for t in R]
                got = [int(v) if not isinstance(v, str) and v.denominator == 1 else v for v in got]
                if got != want and ubp and all(i in ubp for i in range(len(want)) if i >= len(got) or got[i] != want[i]):
                    n_ub_excused += 1
                elif got != want:
                    idx = next((i for i in range(len(want)) if i >= len(got) or got[i] != want[i]), -1)
                    mism.append({'kind': 'model', 'cfg': cfg.name, 'case': c, 'index': idx, 'impl': str(got[:48]), 'model': str(want[:48]),
                                 'impl_matches_scalar_cpp': bool(S and int(S[0]) == 0)})
    groups = {}
    for m in mism:
        c = m['case']; opsig = ','.join(sorted('%s%d' % o for o in ops_of(c['tree'])))
        key = (m['kind'], m['cfg'], c['ty'], c['kind'], c['aop'], opsig if m['kind'] != 'missing' else '')
        if key not in groups or c['n'] < groups[key][0]: groups[key] = (c['n'], m)
    for key, (size, m) in sorted(groups.items(), key=lambda kv: str(kv[0])):
        c = m['case']; cfgo = next(x for x in cfgs if x.name == m['cfg'])
        expr = ('r %s %s' % (AOPS[c['aop']], fastor_expr(c['tree'], TY[c['ty']][0]))) if c['kind'] != 'bool' else fastor_expr(c['tree'], TY[c['ty']][0])
        kkey = '%s:%s:%s:%s:n%d:%s' % (m['kind'], m['cfg'], c['ty'], c['stream'], c['n'], expr.replace(' ', ''))
        replay = {'mismatch': m, 'compile_cmd': ' '.join(cfgo.cmd('t.cpp', 't.exe')), 'expression': expr, 'operands': leaf_data(c), 'program': cpp_source([c])}
        if m['kind'] == 'model' and m['impl_matches_scalar_cpp']:
            rep.violation('Coq model disagrees with the implementation although the implementation matches the C++ scalar operations: %s' % kkey, replay, no_input=True, key=kkey)
        else:
            rep.violation('assigned expression differs from the scalar operation applied element by element: %s (first wrong flat position %s)' % (kkey, m.get('index')), replay, key=kkey)
    rep.cov.update({'comparisons_differing_only_where_the_scalar_cpp_operation_is_undefined': n_ub_excused, 'evaluations': n_eval, 'distinct_nontrivial': len({(c['ty'], c['n'], str(c['tree']), c['aop']) for c in cases if c['tree'][0] != 'leaf'}),
                    'rule': 'one case = (element type, size n, expression tree of depth <= 3 over + - * / unary- abs sqrt min max comparisons && || !, assignment form, operand stream); non-trivial = the tree has at least one operator; streams: small integers, integer boundary values (wrap-around reference), IEEE specials, dyadic fractions; every case under every configuration; compared bit for bit with the same C++ scalar operations per element and (integer-valued cases) with the Coq model',
                    'samples': [dict(c, tree=str(c['tree'])) for c in cases[:6]], 'configurations': [c.name for c in cfgs],
                    'distribution_type_kind_stream': {'/'.join(k): v for k, v in sorted(dist.items())},
                    'compared_with_coq_model': n_model, 'extraction_crosschecked_cases': n_cross, 'traces_validated_against_impl': n_model,
                    'max_error_divide_by_number_in_ulps': maxdiv})
    rep.assumptions = ['vector operations are lane-wise equal to the scalar ones (hypothesis lanewise_ok; established per (type, ABI, op) under C08)',
                       'transcendental functions are not required bit-exact by the property and are not judged',
                       'signed overflow is undefined in scalar C++; the reference uses wrap-around (what the SIMD instructions compute); a (case, configuration) whose result differs from the reference only at positions where an intermediate overflows (computed exactly per position by props/c02.py ub_positions) is counted, not reported: the scalar paths of the library are compiled under that licence']
    return rep.finish(proof=proof, trusted=['Coq 8.16.1 kernel (coqc), extraction cross-checked by vm_compute', 'lib/common.py, props/c02.py', 'harness/vh.h'])

if __name__ == '__main__':
    sys.exit(main())
