"""C14 - permute / permutation / transpose. Coq theorems (Properties_C14.v) + correspondence under every ISA and both language levels."""
import os, sys, json, itertools
sys.path.insert(0, os.path.join(os.path.dirname(os.path.abspath(__file__)), '..', 'lib'))
from common import *

PID = 'C14'
TYPES = {'double': ('double', 8), 'float': ('float', 4), 'int32': ('int32_t', 4), 'int64': ('int64_t', 8)}
SHAPES = {2: [(2, 3), (4, 8), (5, 7)], 3: [(2, 3, 4), (3, 4, 5), (2, 8, 3)], 4: [(2, 3, 4, 5), (3, 2, 2, 4)], 5: [(2, 3, 2, 4, 3)], 6: [(2, 2, 3, 2, 2, 3)]}

def gen_cases(sd, tr):
    g = LCG(sd * 29 + 14); quick = tr == 'quick'
    cases = []; tys = list(TYPES)
    for rank, shapes in SHAPES.items():
        perms = list(itertools.permutations(range(rank)))
        if rank >= 5: perms = g.sample(perms, 8 if quick else (120 if rank == 5 else 60))
        elif rank == 4 and quick: perms = g.sample(perms, 12)
        for sh in shapes:
            for p in (perms if not quick or rank <= 3 else g.sample(perms, min(len(perms), 8))):
                cases.append({'k': 'P', 'ty': tys[len(cases) % 4], 'dims': sh, 'p': p, 'labels': g.next() % 2})
    # transpose shapes: all M,N up to a bound sampled + boundaries around lane multiples
    Ms = list(range(1, 11)) + [15, 16, 17, 31, 32, 33]
    pairs = [(m, n) for m in Ms for n in Ms]
    pairs = g.sample(pairs, 70 if quick else 256)
    for must in [(5, 8), (9, 16), (9, 17), (17, 33), (3, 3), (4, 4), (8, 8), (2, 2), (16, 16), (7, 5), (20, 20)]:
        if must not in pairs: pairs.append(must)
    for (m, n) in pairs:
        cases.append({'k': 'T', 'ty': tys[len(cases) % 4], 'M': m, 'N': n})
    for (m, n) in [(2, 3), (3, 3), (4, 5), (8, 8), (5, 9)]:
        cases.append({'k': 'C', 'ty': 'double' if len(cases) % 2 else 'float', 'M': m, 'N': n})
    for i, c in enumerate(cases): c['id'] = i
    return cases

def cpp_source(shard):
    L = ['#include <Fastor/Fastor.h>', '#include "vh.h"', 'using namespace Fastor;']
    body = []
    for c in shard:
        fn = 'case_%d' % c['id']; body.append('  %s();' % fn)
        if c['k'] == 'P':
            T = TYPES[c['ty']][0]; dims = c['dims']; p = c['p']; n = 1
            for d in dims: n *= d
            odims = [dims[m] for m in p]
            # labels: either 0..k-1 or arbitrary distinct labels with the same relative order (count_less normalisation)
            lab = [m if c['labels'] == 0 else 3 + 2 * m for m in p]
            idx = ','.join(str(x) for x in lab); inv = [p.index(i) for i in range(len(p))]
            ilab = ','.join(str(x) for x in inv)
            L.append('static void %s() { typedef %s T; const long id = %d; Tensor<T,%s> A; A.iota(0);' % (fn, T, c['id'], ','.join(map(str, dims))))
            L.append('  { auto r = permute<Index<%s>>(A); std::printf("D %%ld", id); for (size_t d = 0; d < %d; ++d) std::printf(" %%d", (int)r.dimension(d)); std::printf("\\n"); vh_line("E", id, r.data(), %d); }' % (idx, len(dims), n))
            L.append('  { auto r = permute<Index<%s>>(A + (T)0); vh_line("X", id, r.data(), %d); }' % (idx, n))
            L.append('  { Tensor<T,%s> r = permute<Index<%s>>(permute<Index<%s>>(A)); vh_line("RT", id, r.data(), %d); }' % (','.join(map(str, dims)), ilab, ','.join(str(m) for m in p), n))
            L.append('  { auto r = permutation<Index<%s>>(A); std::printf("LD %%ld", id); for (size_t d = 0; d < %d; ++d) std::printf(" %%d", (int)r.dimension(d)); std::printf("\\n"); vh_line("LE", id, r.data(), %d); }' % (','.join(str(m) for m in p), len(dims), n))
            L.append('  { auto r = permutation<Index<%s>>(A + (T)0); vh_line("LX", id, r.data(), %d); }' % (','.join(str(m) for m in p), n))
            L.append('}')
        elif c['k'] == 'T':
            T = TYPES[c['ty']][0]; M, N = c['M'], c['N']
            L.append('static void %s() { typedef %s T; const long id = %d; Tensor<T,%d,%d> A; A.iota(0);' % (fn, T, c['id'], M, N))
            L.append('  { vh_fenced<T,%d> out(77777); _transpose<T,%d,%d>(A.data(), out.data()); std::printf("F %%ld %%d\\n", id, out.fence_damage()); vh_line("E", id, out.data(), %d); }' % (M * N, M, N, M * N))
            L.append('  { Tensor<T,%d,%d> r = transpose(A); vh_line("X", id, r.data(), %d); Tensor<T,%d,%d> l = trans(A); vh_line("X", id, l.data(), %d); Tensor<T,%d,%d> e = trans(A + (T)0); vh_line("X", id, e.data(), %d); }' % (N, M, M * N, N, M, M * N, N, M, M * N))
            L.append('  { Tensor<T,%d,%d> r = transpose(transpose(A)); vh_line("RT", id, r.data(), %d); }' % (M, N, M * N))
            # trans() as the operand of every compound assignment and of elementwise arithmetic (the assign_* overloads of unary_trans_op.h);
            # every result below is again the transpose of A (exact on these integer data: a*(a+1)/(a+1))
            L.append('  { Tensor<T,%d,%d> A1 = A + (T)1; Tensor<T,%d,%d> C; C.fill((T)0); C += trans(A); vh_line("X", id, C.data(), %d); C = trans(A) + trans(A); C -= trans(A); vh_line("X", id, C.data(), %d);'
                     ' C.fill((T)1); C *= trans(A); vh_line("X", id, C.data(), %d); C = transpose(A) * (transpose(A) + (T)1); C /= trans(A1); vh_line("X", id, C.data(), %d);'
                     ' Tensor<T,%d,%d> P = transpose(A) * (transpose(A) + (T)1); Tensor<T,%d,%d> D = P / trans(A1); vh_line("X", id, D.data(), %d); D = P / trans(A + (T)1); vh_line("X", id, D.data(), %d);'
                     ' D = trans(A1) - (T)1; vh_line("X", id, D.data(), %d); }' % (M, N, N, M, M * N, M * N, M * N, M * N, N, M, N, M, M * N, M * N, M * N))
            L.append('}')
        else:
            T = TYPES[c['ty']][0]; M, N = c['M'], c['N']
            L.append('static void %s() { typedef std::complex<%s> T; const long id = %d; Tensor<T,%d,%d> A; for (int i = 0; i < %d; ++i) A.data()[i] = T(i, 100 + i);' % (fn, T, c['id'], M, N, M * N))
            L.append('  { Tensor<T,%d,%d> r = ctranspose(A); vh_line("E", id, r.data(), %d); Tensor<T,%d,%d> l = ctrans(A); vh_line("E", id, l.data(), %d); Tensor<T,%d,%d> e = ctranspose(A + T(0,0)); vh_line("E", id, e.data(), %d); Tensor<T,%d,%d> f = ctrans(A + T(0,0)); vh_line("E", id, f.data(), %d); }' % (N, M, M * N, N, M, M * N, N, M, M * N, N, M, M * N))
            L.append('}')
    return '\n'.join(L) + '\nint main() {\n' + '\n'.join(body) + '\n  return 0; }\n'

def nl(xs): return '[' + ';'.join(str(x) for x in xs) + ']'

def main():
    tr = tier(); sd = seed()
    rep = Report(PID, 'proof')
    proof = prove('Properties_C14.v')
    handle_proof(rep, proof, 'see correspondence results of this run')
    cases = gen_cases(sd, tr); byid = {c['id']: c for c in cases}
    cfgs = quick_grid() if tr == 'quick' else thorough_grid() + [Config('avx2', 'c++17', '-O2', ['CONTRACT_OPT=-1']), Config('sse2', 'c++14', '-O2', ['CONTRACT_OPT=-1']), Config('avx512', 'c++17', '-O2', ['CONTRACT_OPT=-1'])]
    if tr == 'quick': cfgs = cfgs + [Config('avx2', 'c++17', '-O2', ['CONTRACT_OPT=-1']), Config('sse2', 'c++14', '-O1', ['CONTRACT_OPT=-1'])]
    # the blocked AVX transpose with unequal block sizes (the default 1 x 1 hides row / column block mix-ups)
    cfgs = cfgs + [Config('avx2', 'c++14', '-O2', ['FASTOR_TRANS_OUTER_BLOCK_SIZE=2']), Config('avx512', 'c++17', '-O2', ['FASTOR_TRANS_INNER_BLOCK_SIZE=2'])]
    nshard = 6 if tr == 'quick' else 16
    shards = [cases[i::nshard] for i in range(nshard)]
    ocaml_ready()
    def build_run(job):
        cfg, si = job
        exe, log = compile_cpp(cpp_source(shards[si]), cfg)
        if exe is None: return ('B', cfg, si, None, log)
        return ('B', cfg, si, run_exe(exe), log)
    Vs = sorted({cfg.lanes(b) for cfg in cfgs for b in (4, 8)})
    def model_run(_):
        st = []
        for c in cases:
            if c['k'] == 'P':
                st.append('(let (e, o) = run_permute false %s %s in pn "D" %d e; pn "E14" %d o)' % (nl(c['p']), nl(c['dims']), c['id'], c['id']))
                st.append('(let (e, o) = run_permute true %s %s in pn "E17" %d o)' % (nl(c['p']), nl(c['dims']), c['id']))
            elif c['k'] == 'T':
                for V in Vs: st.append('pz "T%d" %d (run_transpose %d %d %d)' % (V, c['id'], V, c['M'], c['N']))
        res = {}
        for ln in ocaml_eval(st):
            p = ln.split(); res[(p[0], int(p[1]))] = [int(x) for x in p[2:]]
        return ('M', 0, res)
    sub = [c for c in cases if c['k'] == 'P'][:25]
    def coq_run(_):
        txt = 'From Coq Require Import List. Import ListNotations.\nFrom FastorV Require Import Model.Run.\nEval vm_compute in [%s].' % ';\n '.join('snd (run_permute true %s %s)' % (natlist(c['p']), natlist(c['dims'])) for c in sub)
        return ('V', 0, dict(zip([c['id'] for c in sub], parse_coq_lists(coq_eval(txt))[0])))
    allres = pmap(lambda j: j[0](j[1]), [(build_run, (cfg, si)) for cfg in cfgs for si in range(nshard)] + [(model_run, 0), (coq_run, 0)])
    model = next(r[2] for r in allres if r[0] == 'M')
    for r in allres:
        if r[0] == 'V':
            for cid, v in r[2].items():
                if model[('E17', cid)] != v: rep.violation('extracted run_permute differs from vm_compute (case %d)' % cid, {'case': byid[cid]}, no_input=True, key='extraction'); break
    # the two index-map branches must agree in the model (theorem) - sanity on the extracted code
    for c in cases:
        if c['k'] == 'P' and model[('E14', c['id'])] != model[('E17', c['id'])]:
            rep.violation('model: C++14 and C++17 index maps disagree', {'case': c}, no_input=True, key='model-branches'); break
    n_eval = 0; mism = []; dist = {}
    for r in allres:
        if r[0] != 'B': continue
        _, cfg, si, res, log = r
        if res is None: rep.violation('harness does not compile under %s' % cfg.name, {'cfg': cfg.name, 'log': log[-3000:]}, no_input=True, key='compile:%s' % cfg.name); continue
        rc, out, err = res
        if rc != 0: rep.violation('harness crashed under %s: exit %s' % (cfg.name, rc), {'cfg': cfg.name, 'stderr': err[-300:]}, key='crash:%s' % cfg.name)
        legacy_dims = {}
        for ln in out.splitlines():
            p = ln.split()
            if not p: continue
            tag, cid = p[0], int(p[1]); c = byid[cid]
            n_eval += 1; dist[c['k'] + '/' + tag] = dist.get(c['k'] + '/' + tag, 0) + 1
            if tag == 'F':
                if int(p[2]): mism.append({'what': 'transpose-fence', 'cfg': cfg.name, 'case': c, 'detail': '%s canary words changed' % p[2]})
                continue
            if c['k'] == 'C':
                vals = [parse_num(v) for v in p[2:]]; M, N = c['M'], c['N']
                exp = []
                for j in range(N):
                    for i in range(M): exp += [i * N + j, -(100 + i * N + j)]
                if [Fraction(v) for v in vals] != exp: mism.append({'what': 'ctranspose', 'cfg': cfg.name, 'case': c, 'detail': 'first differing element %s; got %s expected %s' % (next((i for i, (a, b) in enumerate(zip([Fraction(v) for v in vals], exp)) if a != b), min(len(vals), len(exp))), [str(v) for v in vals[:16]], [str(e) for e in exp[:16]])})
                continue
            vals = []
            for v in p[2:]:
                q = parse_num(v)
                vals.append(int(q) if (not isinstance(q, str) and q.denominator == 1) else str(q))       # nan / inf / fractions stay as text and mismatch
            if c['k'] == 'P':
                key17 = 'E17' if cfg.std == 'c++17' else 'E14'
                if tag == 'D': exp = model[('D', cid)]
                elif tag in ('E', 'X'): exp = model[(key17, cid)]
                elif tag == 'RT': exp = list(range(len(vals)))
                elif tag == 'LD':
                    legacy_dims[cid] = vals; continue
                else:
                    # legacy permutation<>: by p or by its inverse, but the same one for extents and elements
                    dims = list(c['dims']); pp = list(c['p']); inv = [pp.index(i) for i in range(len(pp))]
                    ld = legacy_dims.get(cid)
                    def layout(q):
                        od = [dims[m] for m in q]; ex = [None] * len(vals)
                        for a_idx in itertools.product(*[range(d) for d in dims]):
                            o = 0
                            for k, m in enumerate(q): o = o * od[k] + a_idx[m]
                            f = 0
                            for d, i in zip(dims, a_idx): f = f * d + i
                            ex[o] = f
                        return od, ex
                    odp, exp_p = layout(pp); odi, exp_i = layout(inv)
                    if (ld == odp and vals == exp_p) or (ld == odi and vals == exp_i): pass
                    elif ld == odp and vals == exp_i:
                        mism.append({'what': 'legacy-permutation-extents-by-p-elements-by-inverse', 'cfg': cfg.name, 'case': c, 'detail': 'permutation<Index<%s>> on %s: extents %s are shape[p] but the elements are laid out for shape[p^-1]' % (','.join(map(str, pp)), dims, ld)})
                    else:
                        mism.append({'what': 'legacy-permutation-' + tag, 'cfg': cfg.name, 'case': c, 'detail': 'extents %s, elements are neither the permutation by p nor by its inverse: %s' % (ld, vals[:16])})
                    continue
                if vals != exp: mism.append({'what': 'permute-' + tag, 'cfg': cfg.name, 'case': c, 'detail': 'first differing element %s; got %s expected %s' % (next((i for i, (a, b) in enumerate(zip(vals, exp)) if a != b), min(len(vals), len(exp))), vals[:16], exp[:16])})
            else:
                V = cfg.lanes(TYPES[c['ty']][1])
                if tag == 'RT': exp = list(range(len(vals)))
                else: exp = model[('T%d' % V, cid)][:len(vals)]
                if vals != exp: mism.append({'what': 'transpose-' + tag, 'cfg': cfg.name, 'case': c, 'detail': 'first differing element %s; got %s expected %s' % (next((i for i, (a, b) in enumerate(zip(vals, exp)) if a != b), min(len(vals), len(exp))), vals[:16], exp[:16])})
    groups = {}
    for m in mism:
        c = m['case']; key = (m['what'], m['cfg'], c['ty'])
        size = len(c.get('dims', ())) * 1000 + c.get('M', 0) * c.get('N', 0)
        if key not in groups or size < groups[key][0]: groups[key] = (size, m)
    for key, (size, m) in sorted(groups.items(), key=lambda kv: str(kv[0])):
        c = m['case']; cfgo = next(x for x in cfgs if x.name == m['cfg'])
        kkey = '%s:%s:%s:%s' % (m['what'], m['cfg'], c['ty'], json.dumps({k: v for k, v in c.items() if k != 'id'}).replace(' ', ''))
        rep.violation('%s: %s; %s' % (m['what'], m['detail'][:240], kkey[-200:]), {'mismatch': m, 'compile_cmd': ' '.join(cfgo.cmd('t.cpp', 't.exe')), 'program': cpp_source([c])}, key=kkey)
    rep.cov.update({'evaluations': n_eval, 'distinct_nontrivial': len([c for c in cases if c['k'] != 'P' or list(c['p']) != sorted(c['p'])]),
                    'rule': 'permute: all permutations of ranks 2-3 (and 4 in the thorough tier), sampled ranks 4-6, on shapes with distinct extents incl. a vector-width multiple, with consecutive and with arbitrary distinct labels, tensor and expression arguments, inverse round trip, legacy permutation<> consistency; transpose: seeded (M,N) pairs up to 33 with boundaries around lane multiples, raw kernel into a fenced buffer, transpose()/trans()/trans(expr), double transpose; ctranspose/ctrans on complex; C++14 and C++17 and CONTRACT_OPT=-1; compared with the Coq model (branch selected by the language level)',
                    'samples': [cases[0], cases[len(cases) // 2], cases[-1]], 'configurations': [c.name for c in cfgs], 'distribution': dist, 'traces_validated_against_impl': n_eval})
    rep.assumptions = ['the in-register V x V tile transposes (shuffle kernels) are modelled at formula level and tied by I/O only']
    return rep.finish(proof=proof, trusted=['Coq 8.16.1 kernel (coqc), extraction cross-checked by vm_compute', 'lib/common.py, props/c14.py', 'harness/vh.h'])

if __name__ == '__main__':
    sys.exit(main())
