"""C15 - multi-tensor einsum is independent of the contraction order the cost model picks.
Coq (Properties_C15.v, partial) + correspondence: 3- and 4-operand networks over index-sharing topologies and extents
chosen so that every evaluation order is the cheapest at least once; the cost model itself is compared with the Coq model."""
import os, sys, json, itertools
sys.path.insert(0, os.path.join(os.path.dirname(os.path.abspath(__file__)), '..', 'lib'))
from common import *
import c03

PID = 'C15'
TYPES = {'double': 'double', 'float': 'float', 'int32': 'int32_t', 'int64': 'int64_t'}

# index-sharing topologies: (index lists); labels occur at most twice overall
TOPO3 = [((0, 1), (1, 2), (2, 3)),            # chain
         ((0, 1), (2, 3), (1, 2)),            # chain, middle operand last (design witness ij,kl,jk)
         ((0, 1), (0, 2), (1, 3)),            # star on the first operand: ij,ip,jq
         ((0, 1), (1, 2), (2, 0)),            # cycle (scalar result)
         ((0, 1, 2), (2, 3), (3, 4)),
         ((0, 1), (1, 2, 3), (3, 4)),         # free index on the inner operand
         ((0,), (0, 1), (1, 2)),
         ((0, 1), (2, 3), (4, 5)),            # no shared index (outer products)
         ((0, 1), (1, 2), (3, 4)),
         ((0, 1, 2), (1, 3), (2, 4)),
         ((0, 1), (1, 2), (0, 2, 3))]
TOPO4 = [((0, 1), (1, 2), (2, 3), (3, 4)),     # chain
         ((0, 1, 2), (1, 3), (3, 4), (4, 2)), # i x y , x j, j k, k y (cycle through operand 1)
         ((0, 1), (0, 2), (1, 3), (2, 4)),
         ((0, 1), (1, 2), (2, 3), (3, 0)),    # cycle
         ((0, 1), (2, 3), (1, 2), (3, 4))]

def gen_cases(sd, tr):
    g = LCG(sd * 37 + 15); quick = tr == 'quick'
    cases = []; tys = list(TYPES)
    extsets = [[2, 6, 3, 5, 4, 2], [6, 2, 2, 5, 3, 4], [2, 2, 2, 2, 2, 2], [3, 3, 3, 3, 3, 3], [2, 7, 4, 4, 2, 3], [5, 2, 6, 2, 3, 2], [2, 3, 4, 5, 2, 3], [4, 4, 2, 2, 5, 5]]
    for topo in TOPO3:
        nlab = max(max(t) for t in topo) + 1
        for es in (extsets if not quick else g.sample(extsets, 4)) + [g.shuffle([2, 3, 4, 5, 6, 2])]:
            ext = es[:nlab]
            cases.append({'k': 'N3', 'ty': tys[len(cases) % 4], 'I': topo, 'd': tuple(tuple(ext[l] for l in t) for t in topo), 's': tuple(g.next() % 10000 for _ in topo)})
    for topo in TOPO4:
        nlab = max(max(t) for t in topo) + 1
        for es in (extsets if not quick else g.sample(extsets, 3)):
            ext = es[:nlab]
            cases.append({'k': 'N4', 'ty': tys[len(cases) % 4], 'I': topo, 'd': tuple(tuple(ext[l] for l in t) for t in topo), 's': tuple(g.next() % 10000 for _ in topo)})
    for i, c in enumerate(cases): c['id'] = i
    return cases

def dd(d): return ','.join(str(x) for x in d)

def cpp_source(shard):
    L = ['#include <Fastor/Fastor.h>', '#include "vh.h"', 'using namespace Fastor;',
         'template<typename R> static void put_result(const char* tag, long id, const R& r) { std::printf("D %ld", id); for (size_t d = 0; d < R::dimension_t::value; ++d) std::printf(" %d", (int)r.dimension(d)); std::printf("\\n"); vh_line(tag, id, r.data(), r.size()); }']
    body = []
    for c in shard:
        T = TYPES[c['ty']]; fn = 'case_%d' % c['id']; body.append('  %s();' % fn)
        L.append('static void %s() { typedef %s T; const long id = %d;' % (fn, T, c['id']))
        names = []
        for k, (d, s) in enumerate(zip(c['d'], c['s'])):
            n = 1
            for x in d: n *= x
            L.append('  Tensor<T,%s> t%d; vh_fill(t%d.data(), %d, %d, -3, 3);' % (dd(d), k, k, n, s)); names.append('t%d' % k)
        idx = ','.join('Index<%s>' % dd(t) for t in c['I'])
        L.append('  { auto r = einsum<%s>(%s); put_result("E", id, r); }' % (idx, ','.join(names)))
        if c['k'] == 'N3':
            tt = ','.join('Tensor<T,%s>' % dd(d) for d in c['d'])
            L.append('  std::printf("W %%ld %%d\\n", id, (int)triplet_flop_cost<%s,%s>::which_variant);' % (idx, tt))
        if c['k'] == 'N4':
            tt = ','.join('Tensor<T,%s>' % dd(d) for d in c['d'])
            L.append('  std::printf("W %%ld %%d\\n", id, (int)quartet_flop_cost<%s,%s>::which_variant);' % (idx, tt))
        L.append('}')
    return '\n'.join(L) + '\nint main() {\n' + '\n'.join(body) + '\n  return 0; }\n'

def brute_n(Is, ds, datas, order=None):
    alll = [l for t in Is for l in t]; labs = list(dict.fromkeys(alll)); ext = {}
    for t, d in zip(Is, ds):
        for l, x in zip(t, d): ext.setdefault(l, x)
    free = [l for l in labs if alll.count(l) == 1] if order is None else list(order)
    od = [ext[l] for l in free]; n = 1
    for x in od: n *= x
    out = [0] * n
    for vals in itertools.product(*[range(ext[l]) for l in labs]):
        e = dict(zip(labs, vals)); term = 1
        for t, d, A in zip(Is, ds, datas):
            f = 0
            for l, x in zip(t, d): f = f * x + e[l]
            term *= A[f]
        o = 0
        for l in free: o = o * ext[l] + e[l]
        out[o] += term
    return free, od, out

def nl(xs): return '[' + ';'.join(str(x) for x in xs) + ']'

def main():
    tr = tier(); sd = seed()
    rep = Report(PID, 'proof')
    proof = prove('Properties_C15.v')
    handle_proof(rep, proof, 'see correspondence results of this run')
    cases = gen_cases(sd, tr); byid = {c['id']: c for c in cases}
    cfgs = quick_grid() if tr == 'quick' else thorough_grid()
    nshard = 4 if tr == 'quick' else 12
    n3all = [c for c in cases if c['k'] == 'N3']
    # 4-operand cases: one translation unit each (some staged orders are rejected at compile time on the unchanged tree)
    shards = [n3all[i::nshard] for i in range(nshard)] + [[c] for c in cases if c['k'] == 'N4']
    nshard = len(shards)
    ocaml_ready()
    def data(c):
        out = []
        for d, s in zip(c['d'], c['s']):
            n = 1
            for x in d: n *= x
            out.append(data_ints(s, n, -3, 3))
        return out
    def build_run(job):
        cfg, si = job
        exe, log = compile_cpp(cpp_source(shards[si]), cfg)
        if exe is None: return ('B', cfg, si, None, log)
        return ('B', cfg, si, run_exe(exe), log)
    n3 = [c for c in cases if c['k'] == 'N3']
    def model_run(_):
        st = []
        for c in n3:
            A = data(c)
            st.append('(let (w, dv) = run_network3 %s %s %s %s %s %s (zl %s) (zl %s) (zl %s) in let (d, v) = dv in pn "W" %d w; pn "D" %d d; pz "E" %d v)' % (
                nl(c['I'][0]), nl(c['I'][1]), nl(c['I'][2]), nl(c['d'][0]), nl(c['d'][1]), nl(c['d'][2]), ml_ints(A[0]), ml_ints(A[1]), ml_ints(A[2]), c['id'], c['id'], c['id']))
        for c in cases:
            if c['k'] != 'N4': continue
            A = data(c)
            st.append('(let (w, av) = run_network4 %s %s (zl %s) (zl %s) (zl %s) (zl %s) in let (a, v) = av in pn "W" %d w; pb "A" %d a; pz "E" %d v)' % (
                ' '.join(nl(t) for t in c['I']), ' '.join(nl(d) for d in c['d']), ml_ints(A[0]), ml_ints(A[1]), ml_ints(A[2]), ml_ints(A[3]), c['id'], c['id'], c['id']))
        res = {}
        for ln in ocaml_eval(st):
            p = ln.split(); res[(p[0], int(p[1]))] = [int(x) for x in p[2:]]
        return ('M', 0, res)
    sub = n3[:12]
    def coq_run(_):
        items = []
        for c in sub:
            A = data(c)
            items.append('snd (snd (run_network3 %s %s %s %s %s %s %s %s %s))' % (natlist(c['I'][0]), natlist(c['I'][1]), natlist(c['I'][2]), natlist(c['d'][0]), natlist(c['d'][1]), natlist(c['d'][2]), zlist(A[0]), zlist(A[1]), zlist(A[2])))
        txt = 'From Coq Require Import ZArith List. Import ListNotations.\nFrom FastorV Require Import Model.Run.\nEval vm_compute in [%s].' % ';\n '.join(items)
        return ('V', 0, dict(zip([c['id'] for c in sub], parse_coq_lists(coq_eval(txt))[0])))
    allres = pmap(lambda j: j[0](j[1]), [(build_run, (cfg, si)) for cfg in cfgs for si in range(nshard)] + [(model_run, 0), (coq_run, 0)])
    model = next(r[2] for r in allres if r[0] == 'M')
    for r in allres:
        if r[0] == 'V':
            for cid, v in r[2].items():
                if model[('E', cid)] != v: rep.violation('extracted run_network3 differs from vm_compute (case %d)' % cid, {'case': byid[cid]}, no_input=True, key='extraction'); break
    oracle = {c['id']: brute_n(c['I'], c['d'], data(c)) for c in cases}
    variants = {}; variants4 = {}
    for c in cases:
        if c['k'] == 'N4': variants4[model[('W', c['id'])][0]] = variants4.get(model[('W', c['id'])][0], 0) + 1
    for c in n3: variants[model[('W', c['id'])][0]] = variants.get(model[('W', c['id'])][0], 0) + 1
    n_eval = 0; mism = []; dist = {}; rejected = {}
    def accepts(c, cfg): return model[('A', c['id'])][0 if cfg.std == 'c++17' else 1] == 1   # C++14: every branch is instantiated
    for r in allres:
        if r[0] != 'B': continue
        _, cfg, si, res, log = r
        if res is None:
            if len(shards[si]) == 1 and shards[si][0]['k'] == 'N4':
                c = shards[si][0]; rejected.setdefault((str(c['I']), str(c['d'])), []).append(cfg.name)
                mism.append({'what': 'rejected-as-modelled' if not accepts(c, cfg) else 'rejected', 'cfg': cfg.name, 'case': c, 'detail': 'does not compile: ' + ' | '.join(l for l in log.splitlines() if 'error' in l)[:300]}); continue
            rep.violation('harness does not compile under %s' % cfg.name, {'cfg': cfg.name, 'log': log[-3000:]}, no_input=True, key='compile:%s:%d' % (cfg.name, si)); continue
        rc, out, err = res
        if rc != 0: rep.violation('harness crashed under %s: exit %s' % (cfg.name, rc), {'cfg': cfg.name, 'stderr': err[-300:]}, key='crash:%s' % cfg.name)
        dims = {}
        for ln in out.splitlines():
            p = ln.split()
            if not p: continue
            tag, cid = p[0], int(p[1]); c = byid[cid]
            if tag == 'D': dims[cid] = [int(x) for x in p[2:]]; continue
            n_eval += 1
            if tag == 'W':
                if int(p[2]) != model[('W', cid)][0]: mism.append({'what': 'cost-model', 'cfg': cfg.name, 'case': c, 'detail': 'triplet_flop_cost::which_variant = %s, Coq model %s' % (p[2], model[('W', cid)][0])})
                continue
            dist[c['k']] = dist.get(c['k'], 0) + 1
            vals = [parse_num(v) for v in p[2:]]; free, od, ex = oracle[cid]
            okv = len(vals) == len(ex) and all(not isinstance(a, str) and Fraction(a) == b for a, b in zip(vals, ex))
            if c['k'] == 'N4' and not accepts(c, cfg):
                mism.append({'what': 'model', 'cfg': cfg.name, 'case': c, 'detail': 'the Coq model predicts a compile-time rejection (staged labels vs declared extents), the implementation compiled'})
            if c['k'] == 'N4' and model[('A', cid)][0] == 1:
                if [int(v) for v in vals if not isinstance(v, str)] != model[('E', cid)]:
                    mism.append({'what': 'model', 'cfg': cfg.name, 'case': c, 'detail': 'implementation differs from the Coq staging model (quartet variant %s)' % model[('W', cid)][0]})
            if c['k'] == 'N3' and [int(v) for v in vals if not isinstance(v, str)] != model[('E', cid)]:
                mism.append({'what': 'model', 'cfg': cfg.name, 'case': c, 'detail': 'implementation differs from the Coq staging model (variant %s)' % model[('W', cid)][0]})
            if okv and dims.get(cid, od) == od: continue
            # is it the Einstein sum with the free indices in another (pairing) order, reinterpreted under the declared type?
            cls = 'value'
            for perm in itertools.permutations(free):
                if list(perm) == free: continue
                _, od2, ex2 = brute_n(c['I'], c['d'], data(c), order=perm)
                if len(vals) == len(ex2) and all(not isinstance(a, str) and Fraction(a) == b for a, b in zip(vals, ex2)):
                    cls = 'free-index-order'; break
            bad = next((i for i in range(min(len(vals), len(ex))) if isinstance(vals[i], str) or Fraction(vals[i]) != ex[i]), -1)
            mism.append({'what': cls, 'cfg': cfg.name, 'case': c, 'detail': 'element %d is %s, Einstein sum %s; declared extents %s, returned %s' % (bad, vals[bad] if 0 <= bad < len(vals) else None, ex[bad] if 0 <= bad < len(ex) else None, od, dims.get(cid))})
    groups = {}
    for m in mism:
        c = m['case']; key = (m['what'], m['cfg'], c['ty'], str(c['I']), str(c['d']))
        if key not in groups: groups[key] = m
    for key, m in sorted(groups.items(), key=lambda kv: str(kv[0])):
        c = m['case']; cfgo = next(x for x in cfgs if x.name == m['cfg'])
        pat = 'einsum<%s>' % ','.join('Index<%s>' % dd(t) for t in c['I'])
        kkey = '%s:%s:%s:%s:%s' % (m['what'], m['cfg'], c['ty'], pat, 'x'.join(dd(d) for d in c['d']))
        rep.violation('%s on %s %s: %s' % (pat, 'x'.join('(' + dd(d) + ')' for d in c['d']), m['what'], m['detail'][:240]),
                      {'mismatch': m, 'compile_cmd': ' '.join(cfgo.cmd('t.cpp', 't.exe')), 'operands': data(c), 'program': cpp_source([c])}, key=kkey, no_input=m['what'] in ('model', 'cost-model', 'rejected'))
    rep.cov.update({'evaluations': n_eval, 'distinct_nontrivial': len(cases),
                    'rule': '3-operand networks: %d index-sharing topologies (chains, stars, cycles, outer products, free indices on inner operands) x extent assignments; 4-operand networks: %d topologies x extent assignments; four element types; six ISA configurations; values and extents compared with a brute-force full Einstein sum in declared (first-appearance) order; triplet_flop_cost::which_variant and the staged values compared with the Coq model' % (len(TOPO3), len(TOPO4)),
                    'samples': [cases[0], cases[len(cases) // 2], cases[-1]], 'configurations': [c.name for c in cfgs], 'distribution': dist,
                    'variants_chosen_by_the_cost_model_(3 operands)': {str(k): v for k, v in sorted(variants.items())}, 'variants_chosen_by_the_cost_model_(4 operands)': {str(k): v for k, v in sorted(variants4.items())}, 'traces_validated_against_impl': n_eval, 'four_operand_cases_rejected_at_compile_time': len(rejected)})
    rep.assumptions = ['FASTOR_DONT_PERFORM_OP_MIN does not compile on the unchanged tree (einsum_helper undeclared), so "op-min off" cannot be exercised; recorded under C06',
                       'the equality "pairwise staging = full Einstein sum" for the layout-correct variants is observed (correspondence), not proved']
    return rep.finish(proof=proof, trusted=['Coq 8.16.1 kernel (coqc), extraction cross-checked by vm_compute', 'lib/common.py, props/c15.py (incl. the brute-force oracle)', 'harness/vh.h'])

if __name__ == '__main__':
    sys.exit(main())
