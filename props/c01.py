"""C01 - matrix product: Coq theorem (Properties_C01.v) + correspondence of the Coq model with the C++."""
import os, sys, json, time
sys.path.insert(0, os.path.join(os.path.dirname(os.path.abspath(__file__)), '..', 'lib'))
from common import *

PID = 'C01'
TYPES = {  # name -> (C++ type, coq ety, scalar instance, complex?, tbytes, prec)
    'double': ('double', 'ty_double', 'ZS', False, 8, 53),
    'float': ('float', 'ty_float', 'ZS', False, 4, 24),
    'int32': ('int', 'ty_int32', 'ZS', False, 4, 0),
    'int64': ('int64_t', 'ty_int64', 'ZS', False, 8, 0),
    'cfloat': ('std::complex<float>', 'ty_cfloat', 'ZC', True, 4, 24),
    'cdouble': ('std::complex<double>', 'ty_cdouble', 'ZC', True, 8, 53),
}
SENT = 77777
SCALES = {'int64': 2 ** 33 + 1, 'int32': 4097, 'double': 2 ** 30 + 1, 'float': 1025}   # |A| <= 9*scale, K <= 17: exact in every type

def gen_cases(sd, tr):
    g = LCG(sd)
    box = 3 if tr == 'quick' else 9
    shapes = [(m, k, n) for m in range(1, box + 1) for k in range(1, box + 1) for n in range(1, box + 1)]
    Ms = [1, 2, 3, 4, 5, 7, 8, 9, 10, 11, 12, 13, 16, 17, 20, 24, 25]
    Ks = [1, 2, 3, 5, 8, 9, 17]
    Ns = [1, 2, 3, 5, 6, 7, 8, 9, 10, 11, 12, 15, 16, 17, 18, 19, 20, 23, 24, 25, 31, 32, 33, 36, 40, 41, 47, 48, 49, 64, 65, 72, 80, 81]
    nb = 75 if tr == 'quick' else 600
    seen = set(shapes)
    tries = 0; target = len(shapes) + nb
    while len(shapes) < target and tries < 100000:
        tries += 1
        s = (g.choice(Ms), g.choice(Ks), g.choice(Ns))
        if s[0] * s[1] * s[2] > 6000 or s in seen: continue
        seen.add(s); shapes.append(s)
    cases = []
    tys = list(TYPES)
    # shapes that select the three-column register block of _matmul_base (M and N multiples of 3*V::Size, N > 24) for every
    # vector width, and the widest small-N kernels; always present, whatever the seed
    SYS = [(6, 2, 30), (12, 3, 36), (12, 2, 72), (24, 2, 48), (24, 3, 72), (48, 2, 48), (10, 2, 3), (20, 3, 7), (10, 3, 15), (16, 5, 43), (12, 3, 46), (24, 2, 83)]
    for s3 in SYS:
        if s3 not in seen: seen.add(s3); shapes.append(s3)
    for (m, k, n) in shapes:
        # every shape in every real type; complex on a sample
        for ty in tys:
            if TYPES[ty][3] and g.next() % 4 != 0: continue
            modes = [0, 2]
            extra = [1, 3, 4, 5]
            modes += g.sample(extra, 1)
            if len(cases) % 5 == 0: modes.append(6)
            if n == 1: modes.append(7)
            if m == 1: modes.append(8)
            frac = (not TYPES[ty][3]) and TYPES[ty][5] > 0 and g.next() % 5 == 0   # non-integer data, judged by the bound
            # wide operands: A scaled by an odd constant beyond 32 bits (int64), resp. as large as keeps every product and sum exact in the type
            scale = SCALES[ty] if (ty in SCALES and not frac and g.next() % 2 == 0) else 1
            cases.append({'id': len(cases), 'ty': ty, 'M': m, 'K': k, 'N': n, 'modes': sorted(modes),
                          'sa': g.next() % 100000, 'sb': g.next() % 100000, 'sc': g.next() % 100000, 'frac': frac, 'scale': scale, 'sys': (m, k, n) in SYS})
    return cases

CPP_HEAD = r'''
#include <Fastor/Fastor.h>
#include "vh.h"
using namespace Fastor;
template<typename T> struct is_c { static constexpr bool v = false; };
template<typename T> struct is_c<std::complex<T>> { static constexpr bool v = true; };

template<typename T, size_t M, size_t K, size_t N>
void run_case(long id, unsigned modes, uint64_t sa, uint64_t sb, uint64_t sc, int frac, int bits, int sh, long long scale = 1) {
    Tensor<T,M,K> A; Tensor<T,K,N> B; Tensor<T,M,N> C0;
    if (frac) { vh_fill_frac(reinterpret_cast<typename std::conditional<is_c<T>::v,double,T>::type*>(A.data()), M*K, sa, bits, sh);
                vh_fill_frac(reinterpret_cast<typename std::conditional<is_c<T>::v,double,T>::type*>(B.data()), K*N, sb, bits, sh); }
    else { vh_fill(A.data(), M*K, sa); vh_fill(B.data(), K*N, sb); }
    if (scale != 1) for (size_t q = 0; q < M*K; ++q) A.data()[q] *= (T)scale;
    vh_fill(C0.data(), M*N, sc, 1, 9);
    if (modes & (1u<<0)) {
        vh_fenced<T, M*N> out(77777);
        Fastor::_matmul<T,M,K,N>(A.data(), B.data(), out.data());
        std::printf("F %ld %d\n", id, out.fence_damage());
        vh_line("R0", id, out.data(), M*N);
    }
    if (modes & (1u<<1)) { Tensor<T,M,N> C = matmul(A,B); vh_line("R1", id, C.data(), M*N); }
    if (modes & (1u<<2)) { Tensor<T,M,N> C; C.fill((T)77777); C = A % B; vh_line("R2", id, C.data(), M*N); }
    if (modes & (1u<<3)) { Tensor<T,M,N> C(C0); C += A % B; vh_line("R3", id, C.data(), M*N); }
    if (modes & (1u<<4)) { Tensor<T,M,N> C(C0); C -= A % B; vh_line("R4", id, C.data(), M*N); }
    if (modes & (1u<<5)) { Tensor<T,M,N> C(C0); C *= A % B; vh_line("R5", id, C.data(), M*N); }
    // expression operands: the (tensor, expression), (expression, tensor), (expression, expression) overloads of matmul() and %
    if (modes & (1u<<6)) {
        { Tensor<T,M,N> C = matmul(A, B + T(0) * B); vh_line("R61", id, C.data(), M*N); }
        { Tensor<T,M,N> C = matmul(A + T(0) * A, B); vh_line("R62", id, C.data(), M*N); }
        { Tensor<T,M,N> C = matmul(A + T(0) * A, B + T(0) * B); vh_line("R63", id, C.data(), M*N); }
        { Tensor<T,M,N> C = (A + T(0) * A) % (B + T(0) * B); vh_line("R64", id, C.data(), M*N); }
    }
}
template<typename T, size_t M, size_t K>
void run_mv(long id, uint64_t sa, uint64_t sb, long long scale = 1) {
    Tensor<T,M,K> A; Tensor<T,K> v; vh_fill(A.data(), M*K, sa); vh_fill(v.data(), K, sb);
    if (scale != 1) for (size_t q = 0; q < M*K; ++q) A.data()[q] *= (T)scale;
    Tensor<T,M> r = matmul(A, v); vh_line("R7", id, r.data(), M);
}
template<typename T, size_t K, size_t N>
void run_vm(long id, uint64_t sa, uint64_t sb, long long scale = 1) {
    Tensor<T,K> v; Tensor<T,K,N> B; vh_fill(v.data(), K, sa); vh_fill(B.data(), K*N, sb);
    if (scale != 1) for (size_t q = 0; q < K; ++q) v.data()[q] *= (T)scale;
    Tensor<T,N> r = matmul(v, B); vh_line("R8", id, r.data(), N);
}
template<typename T, size_t N> void vs_line(const char* ty) {
    std::printf("V %s %zu %zu\n", ty, N, (size_t)choose_best_simd_t<SIMDVector<T,DEFAULT_ABI>,N>::Size);
}
template<typename T, size_t... Ns> void vs_all(const char* ty, std::index_sequence<Ns...>) {
    int d[] = { (vs_line<T,Ns+1>(ty), 0)... }; (void)d;
}
'''

def frac_params(ty):
    # numerators up to 2^bits over 2^sh: products exceed the significand, so rounding really happens
    return (11, 6) if TYPES[ty][5] == 24 else (26, 20)

def cpp_source(shard, with_vs):
    L = [CPP_HEAD, 'int main() {']
    if with_vs:
        for ty in ('double', 'float', 'int32', 'int64'):
            L.append('  vs_all<%s>("%s", std::make_index_sequence<80>{});' % (TYPES[ty][0], ty))
    for c in shard:
        cty = TYPES[c['ty']][0]
        mask = sum(1 << m for m in c['modes'] if m <= 6)
        bits, sh = frac_params(c['ty']) if c['frac'] else (0, 0)
        L.append('  run_case<%s,%d,%d,%d>(%d,%du,%d,%d,%d,%d,%d,%d,%dLL);' % (cty, c['M'], c['K'], c['N'], c['id'], mask, c['sa'], c['sb'], c['sc'], 1 if c['frac'] else 0, bits, sh, c.get('scale', 1)))
        if 7 in c['modes']: L.append('  run_mv<%s,%d,%d>(%d,%d,%d,%dLL);' % (cty, c['M'], c['K'], c['id'], c['sa'], c['sb'], c.get('scale', 1)))
        if 8 in c['modes']: L.append('  run_vm<%s,%d,%d>(%d,%d,%d,%dLL);' % (cty, c['K'], c['N'], c['id'], c['sa'], c['sb'], c.get('scale', 1)))
    L.append('  return 0; }')
    return '\n'.join(L)

def case_data(c):
    """exact operand values as python ints (numerators when frac) or (re,im) pairs"""
    m, k, n = c['M'], c['K'], c['N']
    if TYPES[c['ty']][3]:
        ra = data_ints(c['sa'], 2 * m * k); rb = data_ints(c['sb'], 2 * k * n)
        a = [(ra[2 * i], ra[2 * i + 1]) for i in range(m * k)]; b = [(rb[2 * i], rb[2 * i + 1]) for i in range(k * n)]
    elif c['frac']:
        bits, sh = frac_params(c['ty']); mm = 1 << bits
        ga, gb = LCG(c['sa']), LCG(c['sb'])
        a = [ga.next() % (2 * mm + 1) - mm for _ in range(m * k)]; b = [gb.next() % (2 * mm + 1) - mm for _ in range(k * n)]
    else:
        a = [x * c.get('scale', 1) for x in data_ints(c['sa'], m * k)]; b = data_ints(c['sb'], k * n)
    c0 = data_ints(c['sc'], (2 if TYPES[c['ty']][3] else 1) * m * n, 1, 9)
    if TYPES[c['ty']][3]: c0 = [(c0[2 * i], c0[2 * i + 1]) for i in range(m * n)]
    return a, b, c0

def coq_val(ty, x):
    return '(%d,%d)%%Z' % x if TYPES[ty][3] else '(%d)%%Z' % x

def ml_cfg(cfg):
    return '{abi=%d; masks=%s; outer_block=%d; inner_block=%d}' % (cfg.abi, 'true' if cfg.masks else 'false',
            cfg.macro('FASTOR_MATMUL_OUTER_BLOCK_SIZE'), cfg.macro('FASTOR_MATMUL_INNER_BLOCK_SIZE'))

def ocaml_stmts(cases, cfg):
    L = []
    for c in cases:
        a, b, _ = case_data(c)
        if TYPES[c['ty']][3]:
            L.append('pzc "M" %d (run_matmul_C %s %s %d %d %d (zcl %s) (zcl %s))' % (c['id'], ml_cfg(cfg), TYPES[c['ty']][1], c['M'], c['K'], c['N'], ml_pairs(a), ml_pairs(b)))
        else:
            L.append('pz "M" %d (run_matmul_Z %s %s %d %d %d (zl %s) (zl %s))' % (c['id'], ml_cfg(cfg), TYPES[c['ty']][1], c['M'], c['K'], c['N'], ml_ints(a), ml_ints(b)))
    L.append('List.iteri (fun i l -> pn "V" i l) (run_best_vsize %s)' % ml_cfg(cfg))
    return L

def coq_cases_text(cases, cfg):
    """the same model entry points evaluated inside Coq (vm_compute): cross-check of the extraction"""
    L = ['From Coq Require Import ZArith List. Import ListNotations.',
         'From FastorV Require Import Base.Scalar Model.Cfg Model.Matmul Model.Run.',
         'Definition CFG := %s.' % cfg.coq_cfg()]
    zc = [c for c in cases if not TYPES[c['ty']][3]]; cc = [c for c in cases if TYPES[c['ty']][3]]
    for cs, fn, nil in ((zc, 'run_matmul_Z', '(@nil (list Z))'), (cc, 'run_matmul_C', '(@nil (list (Z*Z)))')):
        items = []
        for c in cs:
            a, b, _ = case_data(c)
            items.append('%s CFG %s %d %d %d [%s] [%s]' % (fn, TYPES[c['ty']][1], c['M'], c['K'], c['N'],
                         '; '.join(coq_val(c['ty'], x) for x in a), '; '.join(coq_val(c['ty'], x) for x in b)))
        L.append('Eval vm_compute in [%s].' % ';\n '.join(items) if items else 'Eval vm_compute in %s.' % nil)
    L.append('Eval vm_compute in run_best_vsize CFG.')
    return '\n'.join(L), zc, cc

def spec_mm(c, a, b):
    m, k, n = c['M'], c['K'], c['N']
    if TYPES[c['ty']][3]:
        out = []
        for i in range(m):
            for j in range(n):
                re = im = 0
                for kk in range(k):
                    x, y = a[i * k + kk], b[kk * n + j]
                    re += x[0] * y[0] - x[1] * y[1]; im += x[0] * y[1] + x[1] * y[0]
                out.append((re, im))
        return out
    return [sum(a[i * k + kk] * b[kk * n + j] for kk in range(k)) for i in range(m) for j in range(n)]

def combine(mode, c0, p, cplx):
    if mode in (0, 1, 2, 7, 8, 61, 62, 63, 64): return p
    def add(x, y): return (x[0] + y[0], x[1] + y[1]) if cplx else x + y
    def sub(x, y): return (x[0] - y[0], x[1] - y[1]) if cplx else x - y
    def mul(x, y): return (x[0] * y[0] - x[1] * y[1], x[0] * y[1] + x[1] * y[0]) if cplx else x * y
    f = {3: add, 4: sub, 5: mul}[mode]
    return [f(x, y) for x, y in zip(c0, p)]

def main():
    tr = tier(); sd = seed()
    rep = Report(PID, 'proof')
    proof = prove('Properties_C01.v')
    handle_proof(rep, proof, 'see correspondence results of this run')
    cases = gen_cases(sd, tr)
    # quick: the 4- and 5-column micro-kernels are reachable only through FASTOR_MATMUL_INNER_BLOCK_SIZE (the default picks 2 or 3)
    cfgs = quick_grid() + [Config('avx2', 'c++14', '-O2', ['FASTOR_MATMUL_INNER_BLOCK_SIZE=4']), Config('sse2', 'c++17', '-O2', ['FASTOR_MATMUL_INNER_BLOCK_SIZE=5', 'FASTOR_MATMUL_OUTER_BLOCK_SIZE=1'])] if tr == 'quick' else thorough_grid() + [Config('avx2', 'c++14', '-O2', ['FASTOR_MATMUL_INNER_BLOCK_SIZE=%d' % i]) for i in (1, 3, 4, 5)] + [Config('avx512', 'c++17', '-O2', ['FASTOR_MATMUL_OUTER_BLOCK_SIZE=%d' % i]) for i in (1, 2, 3)]
    nshard = 12 if tr == "quick" else 48
    shards = [cases[i::nshard] for i in range(nshard)]
    jobs = [(cfg, si) for cfg in cfgs for si in range(nshard)]
    t0 = time.time()
    def build_run(job):
        cfg, si = job
        exe, log = compile_cpp(cpp_source(shards[si], si == 0), cfg)
        if exe is None: return (cfg, si, None, log)
        rc, out, err = run_exe(exe)
        return (cfg, si, (rc, out, err), log)
    # model evaluation per distinct model configuration, sharded, in parallel with the C++ builds
    mcfgs = {}
    for cfg in cfgs: mcfgs.setdefault(cfg.coq_cfg(), cfg)
    msh = 3
    mjobs = [(k, i) for k in mcfgs for i in range(msh)]
    def parse_model_lines(lines):
        res = {}; vs = {}
        for ln in lines:
            p = ln.split()
            if p[0] == 'M':
                c = byid[int(p[1])]; v = [int(x) for x in p[2:]]
                res[c['id']] = [(v[2 * i], v[2 * i + 1]) for i in range(len(v) // 2)] if TYPES[c['ty']][3] else v
            elif p[0] == 'V': vs[int(p[1])] = [int(x) for x in p[2:]]
        return res, vs
    def model_run(job):
        k, i = job
        res, vs = parse_model_lines(ocaml_eval(ocaml_stmts(cases[i::msh], mcfgs[k])))
        return k, res, vs
    # the in-Coq evaluation of a subset (smallest cases): must agree with the extracted code
    sub_ids = [c['id'] for c in sorted(cases, key=lambda c: (c['M'] * c['K'] * c['N'], c['id']))[:60]] + [c['id'] for c in cases if 40 <= c['M'] * c['N'] <= 120][:20]
    def vs_run(k):
        sub = [byid[i] for i in sub_ids]
        txt, zc, cc = coq_cases_text(sub, mcfgs[k])
        out = parse_coq_lists(coq_eval(txt))
        res = {}
        for c, r in zip(zc, out[0]): res[c['id']] = r
        for c, r in zip(cc, out[1]): res[c['id']] = [tuple(x) for x in r]
        return k, res, out[2]
    byid = {c['id']: c for c in cases}
    ocaml_ready()
    allres = pmap(lambda j: ('B',) + build_run(j[1]) if j[0] == 'B' else (('M',) + model_run(j[1]) if j[0] == 'M' else ('V',) + vs_run(j[1])),
                  [('B', j) for j in jobs] + [('M', j) for j in mjobs] + [('V', k) for k in mcfgs])
    coqsub = {}
    model = {k: {} for k in mcfgs}; vstab = {}
    impl = {}
    compile_fail = []
    for r in allres:
        if r[0] == 'M':
            model[r[1]].update(r[2])
            if r[3]: vstab[r[1]] = [r[3][i] for i in range(4)]
        elif r[0] == 'V': coqsub[r[1]] = (r[2], r[3])
        else:
            _, cfg, si, res, log = r
            if res is None:
                compile_fail.append((cfg.name, si, log[-2000:])); continue
            rc, out, err = res
            d = impl.setdefault(cfg.name, {'lines': {}, 'fence': {}, 'vs': {}, 'crash': []})
            if rc != 0: d['crash'].append((si, rc, err[-500:]))
            for ln in out.splitlines():
                p = ln.split()
                if not p: continue
                if p[0] == 'F': d['fence'][int(p[1])] = int(p[2])
                elif p[0] == 'V': d['vs'][(p[1], int(p[2]))] = int(p[3])
                elif p[0][0] == 'R': d['lines'][(int(p[1]), int(p[0][1:]))] = p[2:]
    # extraction cross-check: extracted OCaml model == Coq vm_compute on the subset
    n_cross = 0
    for k, (res, vst) in coqsub.items():
        if vst != vstab[k]:
            rep.violation('extracted best_vsize table differs from vm_compute', {'cfg': k}, no_input=True, key='extraction')
        for cid, r in res.items():
            n_cross += 1
            if model[k].get(cid) != r:
                rep.violation('extracted model differs from the model evaluated inside Coq (case %d)' % cid, {'cfg': k, 'case': byid[cid], 'coq': str(r)[:500], 'ocaml': str(model[k].get(cid))[:500]}, no_input=True, key='extraction')
                break
    rep.cov['extraction_crosschecked_cases'] = n_cross
    n_eval = 0; n_frac = 0; mism = []; maxrel = 0.0
    dist = {}
    for cfg in cfgs:
        d = impl.get(cfg.name)
        if d is None: continue
        mk = cfg.coq_cfg()
        for (si, rc, err) in d['crash']:
            rep.violation('harness crashed under %s (exit %s): %s' % (cfg.name, rc, err[:200]), {'cfg': cfg.name, 'shard': si, 'exit': rc, 'stderr': err, 'cmd': ' '.join(cfg.cmd('t.cpp', 't.exe'))}, key='crash:%s' % cfg.name)
        # vector-size table correspondence
        tys = ['double', 'float', 'int32', 'int64']
        for ti, ty in enumerate(tys):
            for n in range(1, 81):
                iv = d['vs'].get((ty, n)); mv = vstab[mk][ti][n - 1]
                if iv is not None and iv != mv:
                    mism.append({'kind': 'vsize', 'cfg': cfg.name, 'ty': ty, 'N': n, 'impl': iv, 'model': mv})
        for c in cases:
            a, b, c0 = case_data(c); cplx = TYPES[c['ty']][3]
            mres = model[mk].get(c['id'])
            exact = None
            for mode in sum([[61, 62, 63, 64] if m == 6 else [m] for m in c['modes']], []):
                toks = d['lines'].get((c['id'], mode))
                if toks is None:
                    if not d['crash']:
                        mism.append({'kind': 'missing', 'cfg': cfg.name, 'case': c, 'mode': mode})
                    continue
                n_eval += 1
                dist[(c['ty'], mode)] = dist.get((c['ty'], mode), 0) + 1
                vals = [parse_num(t) for t in toks]
                if cplx: vals = [(vals[2 * i], vals[2 * i + 1]) for i in range(len(vals) // 2)]
                mn = c['M'] * c['N']
                if mres is None: raise RuntimeError('model result missing for case %s' % c['id'])
                # frame in the model (two extra positions keep the sentinel)
                if mres[mn:] != ([(SENT, 0)] * 2 if cplx else [SENT] * 2):
                    mism.append({'kind': 'model-frame', 'cfg': cfg.name, 'case': c})
                prod = mres[:mn]
                if c['frac']:
                    n_frac += 1
                    bits, sh = frac_params(c['ty']); sc = Fraction(1, 1 << (2 * sh))
                    prec = TYPES[c['ty']][5]
                    absum = [sum(abs(a[i * c['K'] + kk] * b[kk * c['N'] + j]) for kk in range(c['K'])) for i in range(c['M']) for j in range(c['N'])]
                    bnd = ulp_bound(c['K'], prec)
                    if mode in (0, 1, 2, 61, 62, 63, 64):
                        for idx in range(mn):
                            ex = prod[idx] * sc; err = abs(vals[idx] - ex) if not isinstance(vals[idx], str) else None
                            lim = bnd * absum[idx] * sc
                            if err is None or err > lim:
                                mism.append({'kind': 'bound', 'cfg': cfg.name, 'case': c, 'mode': mode, 'index': idx, 'impl': str(vals[idx]), 'exact': str(ex), 'bound': str(lim)}); break
                            if absum[idx]: maxrel = max(maxrel, float(err / (absum[idx] * sc)) * 2 ** prec / max(1, c['K']))
                    continue
                want = combine(mode, c0, prod, cplx)
                got = [tuple(int(x) if not isinstance(x, str) else x for x in v) for v in vals] if cplx else [int(v) if (not isinstance(v, str) and v.denominator == 1) else v for v in vals]
                if mode in (7, 8) or True:
                    if got != want:
                        if exact is None: exact = spec_mm(c, a, b)
                        sw = combine(mode, c0, exact, cplx)
                        idx = next((i for i in range(min(len(got), len(want))) if got[i] != want[i]), -1)
                        mism.append({'kind': 'value', 'cfg': cfg.name, 'case': c, 'mode': mode, 'index': idx, 'impl': str(got[:40]), 'model': str(want[:40]),
                                     'impl_matches_spec': got == sw, 'model_matches_spec': want == sw})
            fd = d['fence'].get(c['id'])
            if 0 in c['modes'] and fd not in (None, 0):
                mism.append({'kind': 'fence', 'cfg': cfg.name, 'case': c, 'damage': fd})
    # --- search: report the smallest failing input per (kind, cfg, type) class
    groups = {}
    for m in mism:
        c = m.get('case', {})
        key = (m['kind'], m['cfg'], c.get('ty'), m.get('mode'))
        size = c.get('M', 0) * c.get('K', 0) * c.get('N', 0)
        if key not in groups or size < groups[key][0]: groups[key] = (size, m)
    for key, (size, m) in sorted(groups.items(), key=lambda kv: str(kv[0])):
        c = m.get('case', {})
        cfgo = next(x for x in cfgs if x.name == m['cfg'])
        kkey = '%s:%s:%s:M%sK%sN%s:mode%s' % (m['kind'], m['cfg'], c.get('ty'), c.get('M'), c.get('K'), c.get('N'), m.get('mode'))
        a, b, c0 = case_data(c) if c else ([], [], [])
        replay = {'mismatch': m, 'compile_cmd': ' '.join(cfgo.cmd('t.cpp', 't.exe')), 'A': a, 'B': b, 'C0': c0,
                  'program': cpp_source([dict(c, modes=[m['mode']] if m.get('mode') is not None else c['modes'])], False) if c else None}
        if m['kind'] == 'value' and m['impl_matches_spec'] and not m['model_matches_spec']:
            rep.violation('model disagrees with implementation although implementation matches the specification: %s' % kkey, replay, no_input=True, key=kkey)
        elif m['kind'] == 'vsize':
            rep.violation('vector-type selection differs from Model.Cfg.best_vsize: %s %s N=%s impl=%s model=%s' % (m['cfg'], m['ty'], m['N'], m['impl'], m['model']), replay, no_input=True, key='vsize:%s:%s' % (m['cfg'], m['ty']))
        else:
            rep.violation('matmul result differs from sum_k A(i,k)B(k,j): %s (first wrong flat index %s)' % (kkey, m.get('index')), replay, key=kkey)
    for (name, si, log) in compile_fail:
        rep.violation('harness does not compile under %s' % name, {'cfg': name, 'log': log}, no_input=True, key='compile:%s' % name)
    nontriv = len({(c['ty'], c['M'], c['K'], c['N']) for c in cases if c['M'] * c['K'] * c['N'] > 1})
    rep.cov['evaluations'] = n_eval
    rep.cov['distinct_nontrivial'] = nontriv
    rep.cov['rule'] = 'one case = (type, M, K, N, call forms); shapes = full box [1..%d]^3 plus seeded boundary triples around multiples of every lane count and unroll factor; non-trivial = M*K*N > 1; each case runs under every configuration of the tier grid and is compared element by element with the Coq model evaluated (vm_compute) under the same configuration record' % (3 if tr == "quick" else 9)
    rep.cov['samples'] = [cases[i] for i in range(0, len(cases), max(1, len(cases) // 6))][:8]
    rep.cov['configurations'] = [c.name for c in cfgs]
    rep.cov['model_configurations'] = list(mcfgs)
    rep.cov['distribution_type_mode'] = {'%s/mode%d' % k: v for k, v in sorted(dist.items())}
    rep.cov['fraction_cases_bound_checked'] = n_frac
    rep.cov['max_observed_error_over_K_u_sumabs'] = maxrel
    rep.cov['traces_validated_against_impl'] = n_eval
    rep.assumptions = ['x86 intrinsic semantics, the C++ compiler and IEEE hardware arithmetic are modelled, not verified',
                       'shuffle kernels (2x2,3x3,4x4,8x8), _matvecmul, complex path are modelled at formula level and tied by I/O only',
                       'correspondence explores a finite box of shapes per tier; the Coq theorems are unbounded']
    return rep.finish(proof=proof, trusted=['Coq 8.16.1 kernel (coqc), vm_compute for case evaluation', 'lib/common.py, props/c01.py (generator, comparison)', 'harness/vh.h'])

if __name__ == '__main__':
    sys.exit(main())
