"""Shared driver of the C10-C13 checks: compiles harness/linalg.cpp per (size, type, configuration) and judges the printed residuals."""
import os, sys, json
sys.path.insert(0, os.path.join(os.path.dirname(os.path.abspath(__file__)), '..', 'lib'))
from common import *

HARNESS = os.path.join(VERIF, 'harness', 'linalg.cpp')
CB = 16.0          # the constant of every bound (fixed in DESIGN.md before measuring, not tuned)
GROWTH_MAX = 64.0  # cases whose unpivoted elimination growth exceeds this are counted, not judged
QUICK_SIZES = [1, 2, 3, 4, 5, 7, 8, 9, 12, 16, 17, 33]
THOROUGH_SIZES = list(range(1, 13)) + [15, 16, 17, 24, 31, 32, 33, 63, 64, 65]
FAMN = {6: 'diagonally dominant with first and last rows exchanged (singular leading blocks)', 5: 'Householder*diag*Householder cond 1e5', 0: 'diagonally dominant', 1: 'row-permuted diagonally dominant', 2: 'unimodular integer', 3: 'Householder*diag*Householder cond 10', 4: 'Householder*diag*Householder cond 1000'}

def source(which, n, ty, nseeds, quick=False):
    return '#define WHICH %d\n#define NN %d\n#define TY %s\n#define NSEEDS %d\n%s#line 1 "linalg.cpp"\n%s' % (which, n, ty, nseeds, '#define QUICKTIER 1\n' if quick else '', open(HARNESS).read())

def plan(which, tr, sd):
    """(size, type, cfg) triples: quick rotates the six configurations over the sizes so that every size meets two
    configurations and every configuration several sizes; thorough is the full product (large sizes: three configurations)"""
    cfgs = quick_grid() if tr == 'quick' else thorough_grid()
    jobs = []
    if tr == 'quick':
        sizes = QUICK_SIZES + ([65] if which == 11 else [])       # block LU switches composition above 64
        for k, n in enumerate(sizes):
            for r in range(2):
                cfg = cfgs[(k * 2 + r + sd + which) % len(cfgs)]
                if n >= 33 and cfg.opt == '-O0': cfg = cfgs[(k * 2 + r + sd + which + 1) % len(cfgs)]
                if n > 33 and r == 1: continue
                jobs.append((n, 'double' if (k + r) % 2 == 0 else 'float', cfg))
        if which in (10, 11):
            # block strategies split 40 = 20 + 20: the off-diagonal blocks go through tmatmul / tinverse with a column count that
            # is neither a multiple of the vector width nor one more (masked-remainder kernels under AVX2 / AVX-512)
            jobs.append((40, 'double', next(c for c in cfgs if c.isa == 'avx512')))
            jobs.append((42, 'float', next(c for c in cfgs if c.isa == 'avx2')))
    else:
        for n in THOROUGH_SIZES:
            for ci, cfg in enumerate(cfgs):
                if n > 33 and (ci % 4 or cfg.opt == '-O0'): continue
                if n > 17 and cfg.opt == '-O0': continue
                jobs.append((n, 'double', cfg)); jobs.append((n, 'float', cfg))
    return jobs, cfgs

def run_plan(which, tr, sd, rep):
    jobs, cfgs = plan(which, tr, sd)
    nseeds = 3 if tr == 'quick' else 6
    def job(j):
        n, ty, cfg = j
        exe, log = compile_cpp(source(which, n, ty, nseeds, tr == 'quick'), cfg)
        if exe is None: return (j, None, log)
        return (j, run_exe(exe, timeout=3000), log)
    out = []
    for j, res, log in pmap(job, jobs):
        n, ty, cfg = j
        if res is None:
            rep.violation('linalg.cpp (C%d, size %d, %s) does not compile under %s' % (which, n, ty, cfg.name), {'cfg': cfg.name, 'n': n, 'ty': ty, 'log': log[-3000:]}, no_input=True, key='compile:%s:%d:%s' % (cfg.name, n, ty)); continue
        rc, so, se = res
        if rc != 0: rep.violation('linalg harness (C%d, size %d, %s) crashed under %s: exit %s' % (which, n, ty, cfg.name, rc), {'cfg': cfg.name, 'n': n, 'ty': ty, 'stderr': se[-400:], 'compile_cmd': ' '.join(cfg.cmd('linalg.cpp', 't.exe')) + ' -DWHICH=%d -DNN=%d -DTY=%s' % (which, n, ty)}, key='crash:%s:%d:%s' % (cfg.name, n, ty))
        for ln in so.splitlines():
            p = ln.split()
            if p and p[0] != 'N': out.append((n, ty, cfg, p))
    return out, jobs, cfgs

def eps_of(ty): return 2.0 ** -52 if ty == 'double' else 2.0 ** -23
def replay_of(which, n, ty, cfg, p, extra=None):
    d = {'cfg': cfg.name, 'size': n, 'type': ty, 'line': ' '.join(p), 'compile_cmd': ' '.join(cfg.cmd('linalg.cpp', 't.exe')) + ' -DWHICH=%d -DNN=%d -DTY=%s' % (which, n, ty), 'source': 'harness/linalg.cpp (the matrix is regenerated from (family, seed) by gen())'}
    if extra: d.update(extra)
    return d


def model_compare(which, rows, rep):
    """raw records of the unimodular integer family against the extracted Coq model run over Z (exact):
    lu<SimpleLU|BlockLU> factors, inverse<...LU...> and solve<...> must be the integer matrices the Doolittle model computes"""
    recs = []
    for n, ty, cfg, p in rows:
        if p[0] != 'R': continue
        parts = ' '.join(p).split(':'); head = parts[0].split(); mats = [[parse_num(x) for x in q.split()] for q in parts[1:]]
        if any(isinstance(v, str) for m in mats for v in m): continue
        recs.append((n, cfg, head, [[int(v) if float(v) == int(float(v)) else None for v in m] for m in mats], mats))
    if not recs: return 0
    ocaml_ready(); st = []
    for i, (n, cfg, head, im, mats) in enumerate(recs):
        A = im[0]
        if head[1] == 'lu': st.append('(let (l, u) = run_lu %d (zl %s) in pz "L" %d l; pz "U" %d u)' % (n, ml_ints(A), i, i))
        elif head[1] == 'inv': st.append('pz "X" %d (run_lu_inverse %d (zl %s))' % (i, n, ml_ints(A)))
        else: st.append('pz "X" %d (run_lu_solve %d %d (zl %s) (zl %s))' % (i, n, int(head[3]), ml_ints(A), ml_ints(im[1])))
    res = {}
    for ln in ocaml_eval(st):
        q = ln.split(); res[(q[0], int(q[1]))] = [int(x) for x in q[2:]]
    seen = set()
    for i, (n, cfg, head, im, mats) in enumerate(recs):
        if head[1] == 'lu': pairs = [('L', im[1], res[('L', i)]), ('U', im[2], res[('U', i)])]
        elif head[1] == 'inv': pairs = [('inverse', im[1], res[('X', i)])]
        else: pairs = [('solution', im[2], res[('X', i)])]
        for nm, got, want in pairs:
            if got != want and (head[1], head[2], n, cfg.name) not in seen:
                seen.add((head[1], head[2], n, cfg.name))
                rep.violation('%s<%s> on a unimodular integer %dx%d matrix under %s: the %s differs from the Coq model (Doolittle over Z, exact): got %s, model %s' % (head[1], head[2], n, n, cfg.name, nm, got[:12], want[:12]),
                              {'cfg': cfg.name, 'size': n, 'record': head, 'A': im[0], 'implementation': got, 'model': want}, key='model:%s:%s:%d:%s' % (head[1], head[2], n, cfg.name))
    return len(recs)


def _split_rec(p):
    parts = ' '.join(p).split(':'); head = parts[0].split()
    return head, [[parse_num(x) for x in q.split()] for q in parts[1:]]

def pivot_compare(rows, rep):
    """'P' records (unary_piv_op.h helpers on small-integer matrices, ties included) against the extracted Coq model
    Model/Pivot.v: the permutation vector, its matrix encoding, the permutation computed from an expression, apply_pivot
    (vector / matrix / in place), reconstruct and reconstruct_colwise must be exactly the model's"""
    recs = []
    for n, ty, cfg, p in rows:
        if p[0] != 'P': continue
        head, mats = _split_rec(p)
        if len(mats) != 10 or any(isinstance(v, str) for m in mats for v in m):
            rep.violation('pivot record malformed under %s (n=%d): %s' % (cfg.name, n, ' '.join(p)[:200]), {'cfg': cfg.name, 'line': ' '.join(p)}, key='pivot-malformed:%s:%d' % (cfg.name, n)); continue
        recs.append((n, ty, cfg, head, [[int(v) for v in m] for m in mats]))
    if not recs: return 0
    ocaml_ready(); st = []
    for i, (n, ty, cfg, head, m) in enumerate(recs):
        A = m[0]
        st.append('(let p = run_pivot %d (zl %s) in pn "perm" %d p; pz "apply" %d (run_apply_pivot %d (zl %s) p); pz "recon" %d (run_reconstruct %d (zl %s) p); pz "colw" %d (run_reconstruct_colwise %d (zl %s) p))'
                  % (n, ml_ints(A), i, i, n, ml_ints(A), i, n, ml_ints(A), i, n, ml_ints(A)))
    res = {}
    for ln in ocaml_eval(st):
        q = ln.split(); res[(q[0], int(q[1]))] = [int(x) for x in q[2:]]
    seen = set()
    for i, (n, ty, cfg, head, m) in enumerate(recs):
        want = {'perm': res[('perm', i)], 'apply': res[('apply', i)], 'recon': res[('recon', i)], 'colw': res[('colw', i)]}
        pairs = [('permutation vector of pivot_inplace', m[1], want['perm']), ('apply_pivot(A,P)', m[2], want['apply']), ('reconstruct(A,P)', m[3], want['recon']),
                 ('reconstruct_colwise(A,P)', m[4], want['colw']), ('permutation read off the matrix pivot', m[5], want['perm']), ('apply_pivot(A,Pmatrix)', m[6], want['apply']),
                 ('apply_pivot_inplace(A,P)', m[7], want['apply']), ('apply_pivot_inplace(A,Pmatrix)', m[8], want['apply']), ('pivot(expression)', m[9], want['perm'])]
        for nm, got, w in pairs:
            if got != w and (nm, n, cfg.name) not in seen:
                seen.add((nm, n, cfg.name))
                rep.violation('%s on a %dx%d %s integer matrix (seed %s) under %s differs from the Coq model (Model/Pivot.v): got %s, model %s' % (nm, n, n, ty, head[1], cfg.name, got[:16], w[:16]),
                              {'cfg': cfg.name, 'size': n, 'type': ty, 'A': m[0], 'what': nm, 'implementation': got, 'model': w,
                               'compile_cmd': ' '.join(cfg.cmd('linalg.cpp', 't.exe')) + ' -DWHICH=11 -DNN=%d -DTY=%s' % (n, ty)}, key='pivot:%s:%d:%s' % (nm, n, cfg.name))
    return len(recs)

def closed_compare(rows, rep):
    """'C' records (adj, cof, determinant, inverse of 2x2..4x4 integer matrices) against the kernels TRANSLATED from the
    source on this run (coq/Gen/GeneratedLinalg.v), evaluated over Z inside coqc (vm_compute): checks the translator against
    the compiled code, and the float/double SIMD specialisations against the generic kernels"""
    recs = []
    for n, ty, cfg, p in rows:
        if p[0] != 'C': continue
        head, mats = _split_rec(p)
        if any(isinstance(v, str) for m in mats for v in m) or any(float(v) != int(float(v)) for m in mats for v in m): continue
        recs.append((n, ty, cfg, head, [[int(v) for v in m] for m in mats]))
    if not recs: return 0
    uniq = {}
    for n, ty, cfg, head, m in recs: uniq.setdefault((n, tuple(m[0])), len(uniq))
    v = ['From Coq Require Import ZArith List. Import ListNotations.', 'From FastorV Require Import Base.Scalar Gen.GeneratedLinalg.', 'Local Open Scope Z_scope.']
    for (n, A), k in sorted(uniq.items(), key=lambda kv: kv[1]):
        src = '(fun p => nth p %s 0%%Z)' % zlist(list(A))
        v.append('Eval vm_compute in [map (gen_adjoint%d ZS %s) (seq 0 %d); map (gen_cofactor%d ZS %s) (seq 0 %d); [gen_det%d ZS %s]; map (gen_inverse%d ZS %s) (seq 0 %d)].'
                 % (n, src, n * n, n, src, n * n, n, src, n, src, n * n))
    try:
        out = parse_coq_lists(coq_eval('\n'.join(v)))
    except RuntimeError as ex:
        rep.violation('the kernels translated from backend/{adjoint,cofactor,determinant,inverse}.h could not be evaluated: %s' % str(ex)[-300:],
                      {'kind': 'translated-kernels'}, no_input=True, key='closed-eval'); return 0
    seen = set()
    for n, ty, cfg, head, m in recs:
        w = out[uniq[(n, tuple(m[0]))]]
        pairs = [('adj(A)', m[1], w[0]), ('cof(A)', m[2], w[1]), ('determinant(A)', m[3], w[2])]
        if head[2] == '1' and len(m) > 4 and w[2][0] in (1, -1): pairs.append(('inverse(A) (unimodular A)', m[4], w[3]))
        for nm, got, want in pairs:
            if got != want and (nm, n, ty, cfg.name) not in seen:
                seen.add((nm, n, ty, cfg.name))
                rep.violation('%s of a %dx%d %s integer matrix under %s differs from the kernel translated from the source: got %s, translated kernel %s' % (nm, n, n, ty, cfg.name, got, want),
                              {'cfg': cfg.name, 'size': n, 'type': ty, 'A': m[0], 'implementation': got, 'translated': want,
                               'compile_cmd': ' '.join(cfg.cmd('linalg.cpp', 't.exe')) + ' -DWHICH=10 -DNN=%d -DTY=%s' % (n, ty)}, key='closed:%s:%d:%s:%s' % (nm, n, ty, cfg.name))
    return len(recs)
