"""C12 - solve(A,b) satisfies A*x = b for every size, strategy and right-hand-side shape."""
import os, sys
sys.path.insert(0, os.path.join(os.path.dirname(os.path.abspath(__file__)), '..', 'lib'))
from common import *
import linlib
from linlib import CB, GROWTH_MAX, eps_of, replay_of, FAMN

PID = 'C12'
def main():
    tr = tier(); sd = seed(); rep = Report(PID, 'proof')
    proof = prove('Properties_C12.v'); handle_proof(rep, proof, 'see correspondence results of this run')
    rows, jobs, cfgs = linlib.run_plan(12, tr, sd, rep)
    n_eval = 0; skipped = 0; worst = {}; dist = {}; seen = set()
    for n, ty, cfg, p in rows:
        if p[0] != 'S': continue
        eps = eps_of(ty); strat, ncol, fam = p[1], int(p[2]), int(p[3]); r, na, nx, nb, ninv, gr, lc = [float(x) for x in p[5:12]]
        if gr > GROWTH_MAX or lc > GROWTH_MAX: skipped += 1; continue
        n_eval += 1; dist['%s/%d' % (strat, ncol)] = dist.get('%s/%d' % (strat, ncol), 0) + 1
        cond = max(na * ninv, 1.0); bound = CB * n * eps * cond * max(nb, 1e-300)
        worst[strat] = max(worst.get(strat, 0.0), r / (n * eps * cond * max(nb, 1e-300)))
        k = (strat, ncol, n, ty, cfg.name)
        if not (r <= bound) and k not in seen:
            seen.add(k)
            rep.violation('solve<%s> with %d right-hand-side column(s), %s %dx%d %s matrix (seed %s) under %s: |A*x-b| = %.3g exceeds 16*n*eps*cond*|b| = %.3g (cond %.3g)' % (strat, ncol, FAMN[fam], n, n, ty, p[4], cfg.name, r, bound, cond),
                          replay_of(12, n, ty, cfg, p), key='solve:%s:%d:%d:%s:%s' % (strat, ncol, n, ty, cfg.name))
    n_model = linlib.model_compare(12, rows, rep)
    rep.cov.update({'records_compared_exactly_with_the_coq_model': n_model, 'evaluations': n_eval, 'distinct_nontrivial': len(jobs),
                    'rule': 'six solve strategies x (vector right-hand side, 2, 3 columns; thorough also 1 and 5) x (tensor operands, expression left operand, expression right operand, both) + lazy solve in an expression + forward/backward substitution helpers; sizes %s; float and double; families as C10; |A*x-b| (infinity norm, long double) <= 16*n*eps*cond(A)*|b|' % (linlib.QUICK_SIZES if tr == 'quick' else linlib.THOROUGH_SIZES),
                    'configurations': sorted(set(c.name for _, _, c in jobs)), 'size_type_configuration_triples': ['%d/%s/%s' % (n, ty, c.name) for n, ty, c in jobs],
                    'distribution': dist, 'counted_not_judged_(growth)': skipped, 'worst_residual_over_n*eps*cond*|b|': {k: round(v, 3) for k, v in sorted(worst.items())}, 'traces_validated_against_impl': n_model})
    rep.assumptions = ['cond(A) = |A| * |inverse<SimpleInvPiv>(A)| (the library inverse, itself checked by C10)', 'the constant 16 is measured against, not proved']
    return rep.finish(proof=proof, trusted=['Coq 8.16.1 kernel (coqc)', 'lib/common.py, props/linlib.py, props/c12.py', 'harness/linalg.cpp, harness/vh.h'])
if __name__ == '__main__': sys.exit(main())
