"""C06 - results do not depend on the SIMD instruction set, C++ level or tuning macros.
Coq (Properties_C06.v): configuration independence of the modelled operations as corollaries of their specification theorems.
Correspondence: one corpus of check programs (taken from the other properties' generators) compiled under the baseline and under
every configuration of a covering set (ISA x standard x optimisation, then one-at-a-time macro variation); per-case outputs are
compared with the baseline's, and the compiler's verdict per (program, configuration) is recorded."""
import os, sys, json
sys.path.insert(0, os.path.join(os.path.dirname(os.path.abspath(__file__)), '..', 'lib'))
from common import *
import c01, c02, c09, c14, c15, c16, c17
import viewlib

PID = 'C06'
BASE = Config('sse2', 'c++14', '-O2')         # the configuration of the pinned test suite

def corpus(sd, tr):
    q = tr == 'quick'; progs = []
    def take(cases, n):
        # a seeded sample (a fixed stride aliases with the generators' type rotation: every 4th case has the same element type)
        # plus the generators' systematic families (always present)
        sysc = []; seen_shapes = set()
        for c in cases:
            key = (c.get('M'), c.get('K'), c.get('N'), c.get('tl'), c.get('tr'))
            if c.get('sys') and c.get('ty') in ('double', 'float') and key not in seen_shapes: seen_shapes.add(key); sysc.append(c)
        rest = [c for c in cases if not c.get('sys')]
        return sorted(LCG(sd * 31 + len(cases)).sample(rest, n) + sysc, key=lambda c: c['id'])
    cs = take(c01.gen_cases(sd, 'quick'), 60 if q else 200); progs.append(('matmul', c01.cpp_source(cs, False), 'c++14'))
    cs = take(c17.gen_cases(sd, 'quick'), 40 if q else 120); progs.append(('tmatmul', c17.cpp_source(cs), 'c++14'))
    cs = take(c02.gen_cases(sd, 'quick'), 60 if q else 200); progs.append(('expressions', c02.cpp_source(cs), 'c++14'))
    cs = take(c16.gen_cases(sd, 'quick'), 60 if q else 200); progs.append(('reductions', c16.cpp_source(cs), 'c++14'))
    cs = take(c14.gen_cases(sd, 'quick'), 50 if q else 150); progs.append(('permute_transpose', c14.cpp_source(cs), 'c++14'))
    cs = take([c for c in c15.gen_cases(sd, 'quick') if c['k'] == 'N3'], 24 if q else 50); progs.append(('network_einsum', c15.cpp_source(cs), 'c++14'))
    cs = [c for c in take(c09.gen_cases(sd, 'quick'), 400) if 'ctrans' not in c.get('lazy', '')]
    cs = take(cs, 50 if q else 150); progs.append(('lazy_linalg', c09.cpp_source(cs), 'c++14'))
    return progs

def variants(tr):
    """(configuration, which programs it is meaningful for) - ISA/std/opt covering set, then one macro at a time"""
    v = [(c, None) for c in (quick_grid() if tr == 'quick' else thorough_grid())]
    M = lambda isa, std, opt, macros, extra=(): Config(isa, std, opt, macros, 'g++', extra)
    v += [(M('avx2', 'c++14', '-O2', ['FASTOR_DONT_VECTORISE']), None),
          (M('sse42', 'c++14', '-O2', ['FASTOR_USE_HADD']), ('reductions', 'matmul', 'expressions')), (M('avx2', 'c++17', '-O2', ['FASTOR_USE_HADD']), ('reductions', 'matmul', 'expressions')),
          (M('avx2', 'c++14', '-O2', ['FASTOR_MATMUL_OUTER_BLOCK_SIZE=1']), ('matmul', 'tmatmul', 'lazy_linalg')), (M('avx512', 'c++14', '-O2', ['FASTOR_MATMUL_OUTER_BLOCK_SIZE=3']), ('matmul', 'tmatmul', 'lazy_linalg')),
          (M('avx2', 'c++14', '-O2', ['FASTOR_MATMUL_INNER_BLOCK_SIZE=1']), ('matmul', 'tmatmul')), (M('avx512', 'c++17', '-O2', ['FASTOR_MATMUL_INNER_BLOCK_SIZE=5']), ('matmul', 'tmatmul')),
          (M('sse2', 'c++14', '-O2', ['FASTOR_MATMUL_INNER_BLOCK_SIZE=3']), ('matmul', 'tmatmul')),
          (M('avx2', 'c++14', '-O2', ['FASTOR_TRANS_OUTER_BLOCK_SIZE=2']), ('permute_transpose',)), (M('sse2', 'c++14', '-O2', ['FASTOR_TRANS_INNER_BLOCK_SIZE=2']), ('permute_transpose',)),
          (M('sse2', 'c++14', '-O2', ['FASTOR_DONT_PERFORM_OP_MIN']), ('network_einsum', 'lazy_linalg')),
          (M('avx2', 'c++14', '-O2', ['FASTOR_USE_VECTORISED_EXPR_ASSIGN']), ('expressions', 'lazy_linalg')),
          (M('sse2', 'c++14', '-O2', [], ('-UNDEBUG',)), None), (M('avx512', 'c++17', '-O2', ['FASTOR_ENABLE_RUNTIME_CHECKS=1'], ('-UNDEBUG',)), None)]
    if tr == 'thorough':
        v += [(M('avx512', 'c++14', '-O2', ['FASTOR_USE_HADD']), ('reductions',)), (M('avx2', 'c++14', '-O3', ['FASTOR_MATMUL_OUTER_BLOCK_SIZE=2', 'FASTOR_MATMUL_INNER_BLOCK_SIZE=4']), ('matmul', 'tmatmul')),
              (Config('avx2', 'c++17', '-O2', (), 'clang++'), None), (Config('sse2', 'c++14', '-O2', (), 'clang++'), None)]
    return v

def same(a, b, tol):
    if a == b: return True
    try: fa, fb = float(a), float(b)
    except (TypeError, ValueError): return str(a) == str(b)
    if fa != fa and fb != fb: return True
    if float(int(fa)) == fa and float(int(fb)) == fb and abs(fa) < 2 ** 24: return False     # integer-valued results must be identical
    return abs(fa - fb) <= tol * max(abs(fa), abs(fb), 1.0)

def main():
    tr = tier(); sd = seed()
    rep = Report(PID, 'proof')
    proof = prove('Properties_C06.v')
    handle_proof(rep, proof, 'see correspondence results of this run')
    progs = corpus(sd, tr); vs = variants(tr)
    jobs = [(BASE, name, src) for name, src, _ in progs]
    for cfg, only in vs:
        for name, src, _ in progs:
            if only is None or name in only: jobs.append((cfg, name, src))
    def job(j):
        cfg, name, src = j
        exe, log = compile_cpp(src, cfg)
        if exe is None: return (cfg, name, None, log)
        return (cfg, name, run_exe(exe, timeout=1200), log)
    res = pmap(job, jobs)
    base = {}
    for cfg, name, r, log in res:
        if cfg is BASE:
            if r is None: rep.violation('corpus program %s does not compile under the baseline %s' % (name, BASE.name), {'log': log[-2000:]}, no_input=True, key='base-compile:' + name); continue
            base[name] = {}
            for ln in r[1].splitlines():
                p = ln.split()
                if len(p) >= 2: base[name][(p[0], p[1])] = p[2:]
    n_cmp = 0; per = {}; accept = {}
    for cfg, name, r, log in res:
        if cfg is BASE or name not in base: continue
        accept.setdefault(cfg.name, {})[name] = r is not None
        if r is None:
            err = ' | '.join(l.strip() for l in log.splitlines() if 'error' in l)[:300]
            rep.violation('program "%s" is accepted under %s but rejected under %s: %s' % (name, BASE.name, cfg.name, err), {'program': name, 'cfg': cfg.name, 'compile_cmd': ' '.join(cfg.cmd('t.cpp', 't.exe')), 'log': log[-2500:]},
                          no_input=True, key='rejected:%s:%s' % (name, '+'.join(cfg.macros) or cfg.name)); continue
        rc, out, err = r
        if rc != 0:
            rep.violation('program "%s" exits with %s under %s (0 under the baseline)' % (name, rc, cfg.name), {'program': name, 'cfg': cfg.name, 'stderr': err[-500:], 'compile_cmd': ' '.join(cfg.cmd('t.cpp', 't.exe'))}, key='exit:%s:%s' % (name, '+'.join(cfg.macros) or cfg.name))
        got = {}
        for ln in out.splitlines():
            p = ln.split()
            if len(p) >= 2: got[(p[0], p[1])] = p[2:]
        bad = None; tol = 2e-5
        for k, bv in base[name].items():
            if k[0] in ('W', 'B'): continue            # cost-model / bookkeeping lines of the source harnesses
            gv = got.get(k)
            n_cmp += 1
            if gv is None:
                if rc == 0: bad = bad or (k, 'line missing', bv[:6], None)
                continue
            if len(gv) != len(bv) or not all(same(parse_num(a), parse_num(b), tol) for a, b in zip(gv, bv)):
                idx = next((i for i, (a, b) in enumerate(zip(gv, bv)) if not same(parse_num(a), parse_num(b), tol)), -1)
                bad = bad or (k, 'value %d' % idx, bv[max(0, idx - 1):idx + 3], gv[max(0, idx - 1):idx + 3])
        per[cfg.name] = per.get(cfg.name, 0) + len(base[name])
        if bad:
            rep.violation('program "%s", output line %s %s: %s differs between %s (%s) and %s (%s)' % (name, bad[0][0], bad[0][1], bad[1], BASE.name, bad[2], cfg.name, bad[3]),
                          {'program': name, 'line': list(bad[0]), 'baseline_cfg': BASE.name, 'cfg': cfg.name, 'baseline_values': bad[2], 'values': bad[3], 'compile_cmd': ' '.join(cfg.cmd('t.cpp', 't.exe')),
                           'source_generator': 'props/c06.py corpus(seed=%d) -> "%s"' % (sd, name)}, key='differs:%s:%s' % (name, '+'.join(cfg.macros) or cfg.name))
    # ---- views (runtime-driven harness of C04/C05/C18) under the vectorised-view-assignment macro and with vectorisation off:
    #      compared with the Coq view model, which the default configurations meet (C05)
    R, W, O = viewlib.gen_dynamic(sd, 'quick')
    vcfgs = [Config('avx2', 'c++14', '-O2', ['FASTOR_USE_VECTORISED_EXPR_ASSIGN']), Config('sse2', 'c++17', '-O2', ['FASTOR_USE_VECTORISED_EXPR_ASSIGN']),
             Config('avx512', 'c++14', '-O2', ['FASTOR_USE_VECTORISED_EXPR_ASSIGN']), Config('scalar', 'c++14', '-O3', ['FASTOR_USE_VECTORISED_EXPR_ASSIGN'])]
    vrecs, vst, _ = viewlib.run_dynamic(vcfgs, R[::3], W[::2] if tr == 'quick' else W, O[::2], want=('R', 'W', 'O'), types=['double', 'float', 'int32'] if tr == 'quick' else None)
    vseen = set()
    for r in vrecs:
        c = r['case']; k = (r['kind'], r['cfg'], r['ty'], c.get('rank') if isinstance(c, dict) else 0)
        if k in vseen: continue
        vseen.add(k); cfgo = next(x for x in vcfgs if x.name == r['cfg'])
        rep.violation('view %s under %s (%s, rank %s) differs from the configuration-independent view semantics: %s; case %s' % (r['kind'], r['cfg'], r['ty'], k[3], str(r['detail'])[:200], json.dumps({kk: vv for kk, vv in c.items() if kk != 'id'}, default=str)[:200] if isinstance(c, dict) else c),
                      {'record': r, 'compile_cmd': ' '.join(cfgo.cmd('t.cpp', 't.exe')), 'harness': 'props/viewlib.py cpp_dynamic(%r)' % r['ty']}, key='views:%s:%s:%s:rank%s' % (r['kind'], '+'.join(cfgo.macros), r['ty'], k[3]))
    n_cmp += vst.get('evals', 0)
    rep.cov.update({'view_evaluations_under_macro_configurations': vst.get('evals', 0), 'evaluations': n_cmp, 'distinct_nontrivial': len(jobs),
                    'rule': 'corpus = sampled check programs of C01 (matmul), C17 (tmatmul), C02 (expressions), C16 (reductions), C14 (permute/transpose), C15 (3-operand einsum), C09 (lazy linear algebra); each compiled under the baseline %s and under %d other configurations: the six-ISA covering array (C++14/17, -O0/-O2/-O3), FASTOR_DONT_VECTORISE, FASTOR_USE_HADD, FASTOR_MATMUL_OUTER/INNER_BLOCK_SIZE, FASTOR_TRANS_OUTER/INNER_BLOCK_SIZE, FASTOR_DONT_PERFORM_OP_MIN, FASTOR_USE_VECTORISED_EXPR_ASSIGN, assertions on (-UNDEBUG), FASTOR_ENABLE_RUNTIME_CHECKS; plus the dynamic-view harness of C04/C05/C18 (reads, writes with all operators, overlapping assignments) under FASTOR_USE_VECTORISED_EXPR_ASSIGN on four ISAs (scalar included), compared with the view model; every output line compared with the baseline (integer-valued results identical, others within 2e-5 relative); the compiler verdict per (program, configuration)' % (BASE.name, len(vs)),
                    'configurations': [c.name for c, _ in vs], 'programs': len(progs), 'program_names': [n for n, _, _ in progs], 'compiler_acceptance': accept, 'output_lines_compared_per_configuration': per, 'traces_validated_against_impl': n_cmp})
    rep.assumptions = ['floating-point results are compared with a relative tolerance of 2e-5 (the corpus data is integer-valued, so most results are exact)', 'compiler acceptance is observed, not proved']
    return rep.finish(proof=proof, trusted=['Coq 8.16.1 kernel (coqc)', 'lib/common.py, props/c06.py and the generators of c01, c02, c09, c14, c15, c16, c17', 'g++ 12 (and clang++ 14 in the thorough tier)'])

if __name__ == '__main__':
    sys.exit(main())
