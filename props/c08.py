"""C08 - every SIMD vector type behaves as independent scalar lanes.
Coq (Properties_C08.v, integers over all lane values) + lane-by-lane correspondence of every (type, ABI) specialisation
available in each ISA build against scalar code (harness/simd_lanes.cpp) and against the extracted lane model."""
import os, sys, json
sys.path.insert(0, os.path.join(os.path.dirname(os.path.abspath(__file__)), '..', 'lib'))
from common import *

PID = 'C08'
VTS = {0: 'float', 1: 'double', 2: 'int32', 3: 'int64', 5: 'complex<float>', 6: 'complex<double>', 4: 'generic base template'}
OPS = {'add': 0, 'sub': 1, 'mul': 2, 'div': 3, 'neg': 4, 'abs': 5, 'min': 6, 'max': 7, 'fmadd': 8, 'fmsub': 9, 'fnmadd': 10, 'reverse': 11, 'set': 12,
       'set_sequential': 13, 'sum': 14, 'product': 15, 'dot': 16, 'minimum': 17, 'maximum': 18}
SSE2_OPS = {'mul': 2, 'neg': 4, 'abs': 5, 'reverse': 11, 'sum': 14, 'product': 15, 'dot': 16}
WIDTH = {'int16': 16, 'int32': 32, 'int64': 64}
HARNESS = os.path.join(VERIF, 'harness', 'simd_lanes.cpp')

def source(vt, sd, exhaustive=False):
    return '#define VT %d\n#define VH_SEED %d\n%s#line 1 "simd_lanes.cpp"\n%s' % (vt, 1000 + sd, '#define EXHAUSTIVE 1\n' if exhaustive else '', open(HARNESS).read())

def main():
    tr = tier(); sd = seed()
    rep = Report(PID, 'proof')
    proof = prove('Properties_C08.v')
    handle_proof(rep, proof, 'see correspondence results of this run')
    # the horizontal-add variants of the horizontal sums / products (FASTOR_USE_HADD) are separate code
    cfgs = (quick_grid() if tr == 'quick' else thorough_grid()) + [Config('avx2', 'c++14', '-O2', ['FASTOR_USE_HADD']), Config('sse42', 'c++17', '-O2', ['FASTOR_USE_HADD'])]
    ocaml_ready()
    def job(j):
        cfg, vt, ex = j
        exe, log = compile_cpp(source(vt, sd, ex), cfg)
        if exe is None: return (cfg, vt, ex, None, log)
        return (cfg, vt, ex, run_exe(exe, timeout=3000), log)
    jobs = [(cfg, vt, False) for cfg in cfgs for vt in VTS]
    if tr == 'thorough':
        seen = set()
        for cfg in cfgs:      # the whole 2^32 lane domain through the unary operations, once per ISA
            if cfg.isa in seen or cfg.opt == '-O0': continue
            seen.add(cfg.isa); jobs += [(cfg, 0, True), (cfg, 2, True)]
    res = pmap(job, jobs)
    n_lane = 0; per = {}; raws = []; specs = set()
    for cfg, vt, ex, r, log in res:
        if r is None:
            rep.violation('simd_lanes.cpp (VT=%d, %s) does not compile under %s' % (vt, VTS[vt], cfg.name), {'cfg': cfg.name, 'vt': vt, 'log': log[-3000:], 'compile_cmd': ' '.join(cfg.cmd('simd_lanes.cpp', 't.exe')) + ' -DVT=%d' % vt}, no_input=True, key='compile:%s:%d' % (cfg.name, vt)); continue
        rc, out, err = r
        if rc != 0: rep.violation('simd_lanes (VT=%d) crashed under %s: exit %s' % (vt, cfg.name, rc), {'cfg': cfg.name, 'vt': vt, 'stderr': err[-500:], 'stdout_tail': out[-500:]}, key='crash:%s:%d' % (cfg.name, vt))
        ms = {}
        for ln in out.splitlines():
            p = ln.split()
            if not p: continue
            if p[0] == 'S': n_lane += int(p[4]); per[(p[1], p[2], p[3])] = per.get((p[1], p[2], p[3]), 0) + int(p[4]); specs.add((p[1], p[2]))
            elif p[0] == 'M': ms.setdefault((p[1], p[2], p[3]), []).append(ln)
            elif p[0] == 'F':
                k = (p[1], p[2], p[3])
                rep.violation('SIMDVector<%s,%s> %s: %s lane results differ from the scalar operation under %s; first: %s' % (p[1], p[2], p[3], p[4], cfg.name, ' | '.join(ms.get(k, []))[:400]),
                              {'cfg': cfg.name, 'type': p[1], 'abi': p[2], 'op': p[3], 'mismatching_lanes': int(p[4]), 'first': ms.get(k, []), 'compile_cmd': ' '.join(cfg.cmd('simd_lanes.cpp', 't.exe')) + ' -DVT=%d -DVH_SEED=%d%s' % (vt, 1000 + sd, ' -DEXHAUSTIVE' if ex else ''), 'source': 'harness/simd_lanes.cpp'},
                              key='lanes:%s:%s:%s:%s' % (p[1], p[2], p[3], cfg.name))
            elif p[0] == 'R': raws.append((cfg.name, ln))
    # ---- the raw integer records against the extracted lane model
    recs = []
    for cname, ln in raws:
        parts = [x.strip() for x in ln.split(':')]
        if len(parts) != 5: continue
        head, a, b, c, r = parts
        _, ty, abi, op = head.split()
        if op not in OPS or ty not in WIDTH: continue
        f = lambda s: [int(x) for x in s.split()]
        recs.append((cname, ty, abi, op, f(a), f(b), f(c), f(r)))
    uniq = {}
    for rec in recs: uniq.setdefault((rec[1], rec[3], tuple(rec[4]), tuple(rec[5]), tuple(rec[6])), []).append(rec)
    keys = list(uniq)
    st = []
    for i, (ty, op, a, b, c) in enumerate(keys):
        st.append('pz "E" %d (run_simd_int (%s) %d %s %s %s)' % (i, 'z %d' % WIDTH[ty], OPS[op], ml_zlist(list(a)), ml_zlist(list(b)), ml_zlist(list(c))))
        if ty == 'int32' and len(a) == 4 and op in SSE2_OPS:
            st.append('pz "W" %d (run_simd_sse2 %d %s %s)' % (i, SSE2_OPS[op], ml_zlist(list(a)), ml_zlist(list(b) if b else [0, 0, 0, 0])))
    mres = {}
    CH = 4000
    chunks = [st[i:i + CH] for i in range(0, len(st), CH)]
    for lines in pmap(lambda ch: ocaml_eval(ch), chunks):
        for ln in lines:
            p = ln.split(); mres[(p[0], int(p[1]))] = [int(x) for x in p[2:]]
    n_model = 0
    for i, k in enumerate(keys):
        ty, op, a, b, c = k; want = mres.get(('E', i)); w = WIDTH[ty]; mn = -(1 << (w - 1))
        for rec in uniq[k]:
            got = rec[7]; n_model += 1
            bad = [l for l in range(len(want)) if l >= len(got) or (got[l] != want[l] and not (op == 'abs' and a[l] == mn))]
            if bad or len(got) != len(want):
                rep.violation('SIMDVector<%s,%s> %s differs from the Coq lane model under %s at lane %s: a=%s b=%s c=%s got %s, model %s' % (ty, rec[2], op, rec[0], bad[:3], list(a), list(b), list(c), got, want),
                              {'cfg': rec[0], 'type': ty, 'abi': rec[2], 'op': op, 'a': list(a), 'b': list(b), 'c': list(c), 'got': got, 'model': want}, key='model:%s:%s:%s:%s' % (ty, rec[2], op, rec[0]))
        if ('W', i) in mres and mres[('W', i)] != want and not (op == 'abs' and mn in a):
            rep.violation('the as-written SSE2 helper model differs from the lane specification (theorem C08_sse2_int32_helpers should exclude this)', {'op': op, 'a': list(a), 'b': list(b), 'as_written': mres[('W', i)], 'spec': want}, no_input=True, key='sse2model:%s' % op)
    # ---- masks: the extracted fallback model against the closed form (cross-check of the extraction; the theorem covers all masks)
    stm = []
    for n in (2, 4, 8):
        for m in range(1 << n):
            if n == 8 and m % 7: continue
            stm.append('pz "S" %d (run_mask_store %d (z %d) (zl %s) (zl %s))' % (len(stm), n, m, ml_ints(list(range(10, 10 + n))), ml_ints([-1] * (n + 2))))
    for ln in ocaml_eval(stm):
        p = ln.split(); i = int(p[1]); src = stm[i].split('run_mask_store')[1].split(); n = int(src[0]); m = int(src[2].rstrip(')'))
        want = [(10 + q) if (q < n and (m >> q) & 1) else -1 for q in range(n + 2)]
        if [int(x) for x in p[2:]] != want: rep.violation('extracted run_mask_store differs from the closed form (n=%d mask=%d)' % (n, m), {'n': n, 'mask': m, 'got': p[2:], 'want': want}, no_input=True, key='maskmodel')
    spec_list = sorted('%s/%s' % s for s in specs)
    rep.cov.update({'evaluations': n_lane, 'distinct_nontrivial': len(per),
                    'rule': 'every SIMDVector<T,ABI> available in each build (T in float,double,int32,int64,complex<float>,complex<double>; ABI scalar,sse,avx,avx512; generic base template for int16 and fixed_size<N>): construction, broadcast, set, set_sequential, load/store at every element offset, aligned forms, unary -,+,abs, +,-,*,/ (vector-vector, vector-scalar, scalar-vector, in-place), min/max, six comparisons, fmadd/fmsub/fnmadd, sqrt, rcp, rsqrt, sum, product, dot, minimum, maximum, reverse, real/imag/conj/norm (complex), mask_load/mask_store with all masks (every 37th for 16 lanes) incl. buffers flush against an inaccessible page; inputs: boundary values (0, +-1, MIN, MAX, MIN+1, powers of two +-1, sqrt(MAX) neighbours; +-0, denormals, +-inf, NaN, epsilon neighbours) rotated so that every boundary pair meets in some lane, plus random draws; integer results also compared with the extracted Coq lane model' + ('; thorough: all 2^32 lane values through the unary operations for float and int32, per ISA' if tr == 'thorough' else ''),
                    'specialisations': spec_list, 'configurations': [c.name for c in cfgs], 'lane_results_checked': n_lane, 'records_compared_with_the_coq_model': n_model,
                    'traces_validated_against_impl': n_model, 'per_operation_lanes': {'%s/%s/%s' % k: v for k, v in sorted(per.items())[:60]}})
    rep.assumptions = ['float min/max lanes with NaN or (+0,-0) operands are not judged (hardware min/max and std::min differ there by design)',
                       'abs(MIN) of signed integers is not judged (undefined for the scalar operation)', 'integer division lanes with divisor 0 or MIN/-1 are replaced by divisor 1',
                       'fmadd/fmsub/fnmadd on floats accept either the fused or the unfused scalar result', 'rcp/rsqrt judged against relative error 1.5*2^-12 on normal inputs in [1e-30,1e30]',
                       'float horizontal sum/product/dot judged against the exact value within N*eps*sum|x| (the reduction order is not prescribed)',
                       'mask_load: disabled lanes of the register may be zero or keep their previous value (the two hardware conventions); only memory access is judged']
    return rep.finish(proof=proof, trusted=['Coq 8.16.1 kernel (coqc), extraction', 'lib/common.py, props/c08.py', 'harness/simd_lanes.cpp (its scalar reference operations), harness/vh.h', 'g++ 12 and the CPU executing the intrinsics'])

if __name__ == '__main__':
    sys.exit(main())
