"""C04 - reading through an index or a slice returns exactly the selected elements."""
import sys, os
sys.path.insert(0, os.path.dirname(os.path.abspath(__file__)))
import viewlib
def main(): return viewlib.view_main('C04', 'Properties_C04.v', ('R',), ('FR', 'FI', 'FS'), 'slice / index read differs from the selected elements')
if __name__ == '__main__': sys.exit(main())
