"""C09 - lazy linear-algebra operators give the same result as their eager counterparts.
Coq (Properties_C09.v): the staged assignment of binary_arithmetic_assignment.h / unary_math_ops.h as an interpreter over an
expression AST, proved equal to the eager semantics for every tree, every assignment operator and every store (destination
occurring elementwise included); product chains: every association equals the left-to-right product.
Correspondence: generated expression trees compiled against /repo, lazy form vs eager form in the same binary."""
import os, sys, json, itertools
sys.path.insert(0, os.path.join(os.path.dirname(os.path.abspath(__file__)), '..', 'lib'))
from common import *

PID = 'C09'
ASSIGN = ['=', '+=', '-=', '*=', '/=']

# ---- expression nodes: (lazy string, eager string, exact?)  -- D is the destination, D0 its original contents
class E:
    def __init__(s, lazy, eager, exact=True, lazy_ops=0, has_d=False): s.lazy, s.eager, s.exact, s.lazy_ops, s.has_d = lazy, eager, exact, lazy_ops, has_d
def leaf(n): return E(n, n)
def dst(): return E('D', 'D0', has_d=True)
def ew(fmt, *xs, exact=True): return E(fmt.format(*[x.lazy for x in xs]), fmt.format(*[x.eager for x in xs]), exact and all(x.exact for x in xs), sum(x.lazy_ops for x in xs), any(x.has_d for x in xs))
def lz(lname, ename, *xs, exact=True):
    return E('%s(%s)' % (lname, ', '.join(x.lazy for x in xs)), '%s(%s)' % (ename, ', '.join('EV(%s)' % x.eager for x in xs)), exact and all(x.exact for x in xs), 1 + sum(x.lazy_ops for x in xs), any(x.has_d for x in xs))
def red(name, x, exact=True): return E('%s(%s)' % (name, x.lazy), '%s(EV(%s))' % (name, x.eager), exact and x.exact, 1 + x.lazy_ops, x.has_d)
def mm(a, b): return E('(%s %% %s)' % (a.lazy, b.lazy), 'matmul(EV(%s), EV(%s))' % (a.eager, b.eager), a.exact and b.exact, 1 + a.lazy_ops + b.lazy_ops, a.has_d or b.has_d)

A, B, C, X, Y = [leaf(n) for n in 'ABCXY']

def lazies():
    """evaluation-requiring pieces; X, Y are diagonally dominant (inverse / solve operands)"""
    return [mm(A, B), lz('inv', 'inverse', X, exact=False), lz('trans', 'transpose', A), lz('cof', 'cofactor', A), lz('adj', 'adjoint', B),
            mm(mm(A, B), C), mm(lz('inv', 'inverse', X, exact=False), A), mm(lz('trans', 'transpose', A), B), mm(ew('({0} + {1})', A, B), C),
            lz('inv', 'inverse', ew('({0} + {1})', X, Y), exact=False), lz('trans', 'transpose', ew('({0} - {1})', A, B)), lz('solve', 'solve', X, A, exact=False),
            mm(A, lz('inv', 'inverse', Y, exact=False)), lz('trans', 'transpose', mm(A, B)), lz('inv', 'inverse', lz('trans', 'transpose', X), exact=False),
            lz('ctrans', 'ctranspose', C), mm(A, ew('({0} - {1})', B, C)), ew('({0} * {1})', E('det(X)', 'determinant(X)', False, 1), A),
            ew('({0} * {1})', E('trace(A % B)', 'trace(matmul(A, B))', True, 1), C), ew('({0} * {1})', E('norm(A % B)', 'norm(matmul(A, B))', False, 1), C)]

def dpieces():
    """elementwise pieces in which the destination occurs"""
    D = dst()
    return [D, ew('({0} * {0})', D), ew('({0} + {0})', D), ew('sqrt(abs({0}))', D, exact=False), ew('({0} * {1})', D, A), ew('(-{0})', D), ew('(2.0 * {0})', D),
            ew('({0} - {1})', D, A), ew('abs({0})', D), ew('({0} * {1} + {2})', D, B, C), ew('({1} - {0})', D, C)]

TEMPLATES = [
    ('L', lambda L, L2, Ed: L), ('L+E', lambda L, L2, Ed: ew('{0} + {1}', L, Ed)), ('E+L', lambda L, L2, Ed: ew('{1} + {0}', L, Ed)),
    ('L-E', lambda L, L2, Ed: ew('{0} - {1}', L, Ed)), ('E-L', lambda L, L2, Ed: ew('{1} - {0}', L, Ed)),
    ('L*E', lambda L, L2, Ed: ew('{0} * {1}', L, Ed)), ('E*L', lambda L, L2, Ed: ew('{1} * {0}', L, Ed)),
    ('L/E', lambda L, L2, Ed: ew('{0} / (abs({1}) + 1.0)', L, Ed, exact=False)),
    ('(L+E)+A', lambda L, L2, Ed: ew('({0} + {1}) + A', L, Ed)), ('A+(L+E)', lambda L, L2, Ed: ew('A + ({0} + {1})', L, Ed)),
    ('A-(L-E)', lambda L, L2, Ed: ew('A - ({0} - {1})', L, Ed)), ('(E-L)-A', lambda L, L2, Ed: ew('({1} - {0}) - A', L, Ed)),
    ('L+L2', lambda L, L2, Ed: ew('{0} + {1}', L, L2)), ('L+L2+E', lambda L, L2, Ed: ew('{0} + {1} + {2}', L, L2, Ed)), ('E+L+L2', lambda L, L2, Ed: ew('{2} + {0} + {1}', L, L2, Ed)),
    ('L-L2-E', lambda L, L2, Ed: ew('{0} - {1} - {2}', L, L2, Ed)), ('L+(E-L2)', lambda L, L2, Ed: ew('{0} + ({2} - {1})', L, L2, Ed)),
    ('abs(L+E)', lambda L, L2, Ed: ew('abs({0} + {1})', L, Ed)), ('-(L+E)', lambda L, L2, Ed: ew('-({0} + {1})', L, Ed)), ('sqrt(abs(L-E))', lambda L, L2, Ed: ew('sqrt(abs({0} - {1}))', L, Ed, exact=False)),
    ('(L+E)*(L2-E)', lambda L, L2, Ed: ew('({0} + {2}) * ({1} - {2})', L, L2, Ed)), ('A+B*E+L', lambda L, L2, Ed: ew('A + B * {1} + {0}', L, Ed)),
    ('L+2*E', lambda L, L2, Ed: ew('{0} + 2.0 * {1}', L, Ed)), ('E*E+L*L2', lambda L, L2, Ed: ew('{2} * {2} + {0} * {1}', L, L2, Ed)),
    ('L%(E)', lambda L, L2, Ed: ew('{0} + A', mm(L, ew('({0} + B)', C)))),
    ('s+(E*L)', lambda L, L2, Ed: ew('2.0 + ({1} * {0})', L, Ed)), ('(L*E)-s', lambda L, L2, Ed: ew('({0} * {1}) - 3.0', L, Ed)), ('s-(E+L)', lambda L, L2, Ed: ew('1.5 - ({1} + {0})', L, Ed)),
    ('norm(ew)*C', lambda L, L2, Ed: ew('{0} * C', red('norm', ew('(A + {0})', Ed), exact=False))), ('E*norm(ew)', lambda L, L2, Ed: ew('{0} * {1}', Ed, red('norm', ew('(A - 2.0 * B)', A), exact=False))),
    ('trace(ew)*C+E', lambda L, L2, Ed: ew('{0} * C + {1}', red('trace', ew('(B + {0})', Ed)), Ed)), ('norm(ew)+L', lambda L, L2, Ed: ew('{0} * A + {1}', red('norm', ew('(B * C - A)', A), exact=False), mm(A, B))),
    ('s*(L+E)', lambda L, L2, Ed: ew('2.0 * ({0} + {1})', L, Ed)), ('(E-L)/s', lambda L, L2, Ed: ew('({1} - {0}) / 2.0', L, Ed)), ('s+L', lambda L, L2, Ed: ew('4.0 + {0}', L)),
]

def gen_cases(sd, tr):
    g = LCG(sd * 131 + 9); Ls = lazies(); Ds = dpieces(); cases = []
    sizes = [2, 3, 4, 5] if tr == 'quick' else [2, 3, 4, 5, 8]
    k = 0
    for ti, (tname, tf) in enumerate(TEMPLATES):
        reps = 2 if tr == 'quick' else 5
        for op in ASSIGN:
            for r in range(reps):
                L = Ls[(k * 7 + ti + r * 3) % len(Ls)]; L2 = Ls[(k * 5 + 3 + r) % len(Ls)]; Ed = Ds[(k * 3 + r + ti) % len(Ds)]; k += 1
                e = tf(L, L2, Ed); n = sizes[k % len(sizes)]
                if op == '/=': e = ew('abs({0}) + 1.0', e)      # a divisor without zeros
                if tname.startswith(('norm(ew)', 'E*norm', 'trace(ew)')): n = [3, 8, 9, 12][k % 4]     # >= 8 SIMD vectors: the unrolled reduction loops
                if 'cof(' in e.lazy or 'adj(' in e.lazy or 'det(' in e.lazy: n = min(n, 4)
                cases.append({'k': 'T', 'tmpl': tname, 'op': op, 'n': n, 'ty': 'double' if k % 3 else 'float', 'lazy': e.lazy, 'eager': e.eager, 'exact': e.exact and op != '/=', 's': g.next() % 10000})
    # product chains: every association choice of the cost model (rectangular extents)
    exts = [1, 2, 3, 5, 8]
    nch = 30 if tr == 'quick' else 120
    for c in range(nch):
        ln = 2 + c % 4; dims = [exts[g.next() % 5] for _ in range(ln + 1)]
        cases.append({'k': 'C', 'op': ASSIGN[c % 3], 'dims': dims, 'ty': 'double' if c % 2 else 'float', 's': g.next() % 10000, 'exact': True, 'tmpl': 'chain%d' % ln})
    # rectangular operands of trans(): every assignment operator with the transpose of a non-square tensor / expression
    for (p_, q_) in [(2, 3), (3, 5), (5, 2), (4, 7), (9, 4)]:
        for oi, op in enumerate(ASSIGN):
            for form in (0, 1):
                cases.append({'k': 'RT', 'op': op, 'P': p_, 'Q': q_, 'form': form, 'ty': 'double' if (p_ + oi + form) % 2 else 'float', 's': g.next() % 10000, 'exact': op != '/=', 'tmpl': 'rect-trans%d' % form})
    for i, c in enumerate(cases): c['id'] = i
    return cases

PRE = r'''#include <Fastor/Fastor.h>
#include "vh.h"
using namespace Fastor;
#define EV(x) (typename std::decay<decltype(x)>::type::result_type(x))
template<typename T, size_t N> static void fill_int(Tensor<T,N,N>& t, long s, int lo, int hi) { vh_fill(t.data(), N * N, s, lo, hi); }
template<typename T, size_t N> static void fill_dd(Tensor<T,N,N>& t, long s) { vh_fill(t.data(), N * N, s, -2, 2); for (size_t i = 0; i < N; ++i) t(i, i) = (T)(3 * N + 2 + (i % 3)); }
'''

def case_body(c):
    T = c['ty']; cid = c['id']
    if c['k'] == 'C':
        d = c['dims']; n = len(d) - 1; L = ['  typedef %s T; const long id = %d;' % (T, cid)]
        for i in range(n): L.append('  Tensor<T,%d,%d> M%d; vh_fill(M%d.data(), %d, %d, -3, 3);' % (d[i], d[i + 1], i, i, d[i] * d[i + 1], c['s'] + i))
        L.append('  Tensor<T,%d,%d> D0; vh_fill(D0.data(), %d, %d, -3, 3); Tensor<T,%d,%d> D = D0;' % (d[0], d[-1], d[0] * d[-1], c['s'] + 77, d[0], d[-1]))
        L.append('  D %s %s;' % (c['op'], ' % '.join('M%d' % i for i in range(n))))
        ref = 'M0'
        for i in range(1, n): ref = 'matmul(%s, M%d)' % (ref, i)
        L.append('  Tensor<T,%d,%d> R = %s; Tensor<T,%d,%d> De = D0; De %s R;' % (d[0], d[-1], ref, d[0], d[-1], c['op']))
        L.append('  vh_line("L", id, D.data(), D.size()); vh_line("E", id, De.data(), De.size()); vh_line("R", id, R.data(), R.size()); vh_line("O", id, D0.data(), D0.size());')
        return '\n'.join(L)
    if c['k'] == 'RT':
        P, Q = c['P'], c['Q']; arg = 'A' if c['form'] == 0 else '(A + B)'
        if c['op'] == '/=': arg = '(abs(%s) + (T)1)' % arg
        return '''  typedef %s T; const long id = %d;
  Tensor<T,%d,%d> A, B; vh_fill(A.data(), %d, %d, -3, 3); vh_fill(B.data(), %d, %d, -2, 4);
  Tensor<T,%d,%d> D0; vh_fill(D0.data(), %d, %d, 1, 5); Tensor<T,%d,%d> D = D0; D %s trans(%s);
  Tensor<T,%d,%d> R = transpose(EV(%s)); Tensor<T,%d,%d> De = D0; De %s R;
  vh_line("L", id, D.data(), D.size()); vh_line("E", id, De.data(), De.size()); vh_line("R", id, R.data(), R.size()); vh_line("O", id, D0.data(), D0.size());''' % (
            c['ty'], c['id'], P, Q, P * Q, c['s'], P * Q, c['s'] + 1, Q, P, P * Q, c['s'] + 2, Q, P, c['op'], arg, Q, P, arg, Q, P, c['op'])
    n = c['n']
    return '''  typedef %s T; const long id = %d; constexpr size_t n = %d;
  Tensor<T,n,n> A, B, C, X, Y, D0; fill_int(A, %d, -3, 3); fill_int(B, %d, -3, 3); fill_int(C, %d, -2, 4); fill_dd(X, %d); fill_dd(Y, %d); fill_int(D0, %d, 1, 5);
  Tensor<T,n,n> D = D0; D %s %s;
  Tensor<T,n,n> R = %s; Tensor<T,n,n> De = D0; De %s R;
  vh_line("L", id, D.data(), D.size()); vh_line("E", id, De.data(), De.size()); vh_line("R", id, R.data(), R.size()); vh_line("O", id, D0.data(), D0.size());''' % (
        c['ty'], c['id'], n, c['s'], c['s'] + 1, c['s'] + 2, c['s'] + 3, c['s'] + 4, c['s'] + 5, c['op'], c['lazy'], c['eager'], c['op'])

def cpp_source(shard):
    L = [PRE]
    for c in shard: L.append('static void case_%d() {\n%s\n}' % (c['id'], case_body(c)))
    L.append('int main() {\n' + '\n'.join('  case_%d();' % c['id'] for c in shard) + '\n  return 0; }\n')
    return '\n'.join(L)

def main():
    tr = tier(); sd = seed()
    rep = Report(PID, 'proof')
    proof = prove('Properties_C09.v')
    handle_proof(rep, proof, 'see correspondence results of this run')
    cases = gen_cases(sd, tr); byid = {c['id']: c for c in cases}
    cfgs = quick_grid() if tr == 'quick' else thorough_grid()
    # ---- which programs does the compiler accept?  (one translation unit each, scalar -O0; acceptance does not depend on the ISA)
    probe = Config('scalar', 'c++14', '-O0', macros=('FASTOR_DONT_VECTORISE',)) if 'FASTOR_DONT_VECTORISE' not in str(quick_grid()[0].macros) else quick_grid()[0]
    probe = next(c for c in quick_grid() + thorough_grid() if c.isa == 'scalar'); probe = Config(probe.isa, 'c++14', '-O0', probe.macros, probe.cxx, probe.extra)
    acc = pmap(lambda c: (c['id'], compile_cpp(cpp_source([c]), probe)), cases)
    accepted = [byid[i] for i, (exe, log) in acc if exe is not None]
    rejected = {i: log for i, (exe, log) in acc if exe is None}
    nshard = 8 if tr == 'quick' else 16
    shards = [accepted[i::nshard] for i in range(nshard)]
    def build_run(job):
        cfg, si = job
        exe, log = compile_cpp(cpp_source(shards[si]), cfg)
        if exe is None: return (cfg, si, None, log)
        return (cfg, si, run_exe(exe), log)
    allres = pmap(build_run, [(cfg, si) for cfg in cfgs for si in range(nshard)])
    n_eval = 0; groups = {}; worst = {}; dist = {}
    for cfg, si, res, log in allres:
        if res is None: rep.violation('programs accepted under %s are rejected under %s' % (probe.name, cfg.name), {'cfg': cfg.name, 'log': log[-3000:], 'cases': [c['id'] for c in shards[si]]}, no_input=True, key='compile:%s:%d' % (cfg.name, si)); continue
        rc, out, err = res
        if rc != 0: rep.violation('harness crashed under %s: exit %s' % (cfg.name, rc), {'cfg': cfg.name, 'stderr': err[-300:]}, key='crash:%s' % cfg.name)
        rows = {}
        for ln in out.splitlines():
            p = ln.split()
            if p: rows[(p[0], int(p[1]))] = [parse_num(v) for v in p[2:]]
        for c in shards[si]:
            cid = c['id']
            if ('L', cid) not in rows or ('E', cid) not in rows: continue
            Lz, Eg, R, O = rows[('L', cid)], rows[('E', cid)], rows[('R', cid)], rows[('O', cid)]
            n_eval += 1; dist[c['tmpl']] = dist.get(c['tmpl'], 0) + 1
            eps = 2.0 ** -52 if c['ty'] == 'double' else 2.0 ** -23
            bad = None; wr = 0.0
            if len(Lz) != len(Eg): bad = (0, 'length')
            elif any(isinstance(v, str) for v in Lz + Eg):
                bad = next(((i, 'non-finite: %s vs %s' % (a, b)) for i, (a, b) in enumerate(zip(Lz, Eg)) if str(a) != str(b)), None)
            else:
                finite = all(abs(float(v)) < 1e300 for v in Eg)
                scale = max([1.0] + [abs(float(v)) for v in Eg if abs(float(v)) < 1e300] + [abs(float(v)) for v in R if not isinstance(v, str) and abs(float(v)) < 1e300] + [abs(float(v)) for v in O])
                if c['op'] in ('*=', '/=') and not isinstance(R[0], str): scale = max(scale, max(abs(float(o)) * max(abs(float(r)), 1.0) for o, r in zip(O, R)))
                for i, (a, b) in enumerate(zip(Lz, Eg)):
                    fa, fb = float(a), float(b)
                    if fa != fa and fb != fb: continue
                    d = abs(fa - fb)
                    if c['exact']:
                        if fa != fb: bad = (i, 'exact data (all intermediate values are small integers): %r vs %r' % (fa, fb)); break
                    else:
                        wr = max(wr, d / (eps * scale))
                        if not (d <= 1024 * eps * scale): bad = (i, '%r vs %r, |diff| = %.3g > 1024*eps*scale (scale %.3g)' % (fa, fb, d, scale)); break
            worst[c['tmpl']] = max(worst.get(c['tmpl'], 0.0), wr)
            if bad:
                key = (c['tmpl'], c['op'], c.get('lazy', str(c.get('dims'))), cfg.name)
                if key not in groups: groups[key] = (c, cfg, bad, Lz, Eg)
    for key, (c, cfg, bad, Lz, Eg) in sorted(groups.items(), key=lambda kv: str(kv[0])):
        what = (('D %s %s' % (c['op'], c['lazy'])) if c['k'] == 'T' else ('D(%dx%d) %s trans(%s %dx%d)' % (c['Q'], c['P'], c['op'], 'A' if c['form'] == 0 else 'A + B', c['P'], c['Q'])) if c['k'] == 'RT'
                else ('D %s chain of %d products, extents %s' % (c['op'], len(c['dims']) - 1, c['dims'])))
        rep.violation('%s (%s, n=%s) under %s: lazy differs from eager at element %d: %s' % (what, c['ty'], c.get('n', '-'), cfg.name, bad[0], bad[1]),
                      {'case': c, 'cfg': cfg.name, 'lazy_result': [str(v) for v in Lz], 'eager_result': [str(v) for v in Eg], 'compile_cmd': ' '.join(cfg.cmd('t.cpp', 't.exe')), 'program': cpp_source([c])},
                      key='%s:%s:%s:%s' % (c['tmpl'], c['op'], c['ty'], cfg.name))
    rej_kinds = {}
    for i, log in rejected.items():
        e = next((l for l in log.splitlines() if 'error' in l), '?'); k = e.split('error:')[-1].strip()[:90]; rej_kinds[k] = rej_kinds.get(k, 0) + 1
    rep.cov.update({'evaluations': n_eval, 'distinct_nontrivial': len(accepted),
                    'rule': '%d expression templates (one and two evaluation-requiring operands among %%, inv, trans, ctrans, cof, adj, solve, det, trace, norm and nested combinations; the destination occurring elementwise as D, D*D, D+D, sqrt(abs(D)), D*A, -D, 2*D, D-A, abs(D), ...) x five assignment operators x sizes 2..5(8) x float/double; product chains of 2..5 factors with extents from {1,2,3,5,8}; the lazy form and the eager form (every lazy operator replaced by the evaluating function on evaluated operands) run in the same binary; integer-valued operands: exact comparison when every intermediate value is an integer, 1024*eps*scale otherwise' % len(TEMPLATES),
                    'samples': [cases[0], cases[len(cases) // 2], cases[-1]], 'configurations': [c.name for c in cfgs], 'distribution': dist,
                    'programs_generated': len(cases), 'programs_rejected_by_the_compiler_(not_judged)': len(rejected), 'rejection_kinds': rej_kinds,
                    'rejected_examples': [('D %s %s' % (byid[i]['op'], byid[i].get('lazy', 'chain'))) for i in list(rejected)[:12] if byid[i]['k'] != 'RT'],
                    'worst_observed_difference_in_units_of_eps*scale': {k: round(v, 2) for k, v in sorted(worst.items())}, 'traces_validated_against_impl': n_eval})
    rep.assumptions = ['programs the compiler rejects (missing overloads for some operand kinds) are recorded and not judged', 'the destination occurs only elementwise on the right-hand side (as the property states); D inside an operand of %/inv/... is out of scope']
    return rep.finish(proof=proof, trusted=['Coq 8.16.1 kernel (coqc)', 'lib/common.py, props/c09.py', 'harness/vh.h', 'the eager functions of the library (matmul, inverse, ...) as the reference for their lazy forms'])

if __name__ == '__main__':
    sys.exit(main())
