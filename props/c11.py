"""C11 - LU factors are triangular and reproduce the (row-permuted) matrix."""
import os, sys
sys.path.insert(0, os.path.join(os.path.dirname(os.path.abspath(__file__)), '..', 'lib'))
from common import *
import linlib
from linlib import CB, GROWTH_MAX, eps_of, replay_of, FAMN

PID = 'C11'
def main():
    tr = tier(); sd = seed(); rep = Report(PID, 'proof')
    proof = prove('Properties_C11.v'); handle_proof(rep, proof, 'see correspondence results of this run')
    rows, jobs, cfgs = linlib.run_plan(11, tr, sd, rep)
    n_eval = 0; skipped = 0; worst = {}; dist = {}; seen = set()
    for n, ty, cfg, p in rows:
        if p[0] != 'L': continue
        eps = eps_of(ty); strat, enc, fam = p[1], p[2], int(p[3]); r, g, na = [float(x) for x in p[5:8]]; st, pok = int(p[8]), int(p[9]); rr = float(p[10]); refg = float(p[11])
        n_eval += 1; dist[strat + '/' + enc] = dist.get(strat + '/' + enc, 0) + 1
        k = (strat, enc, n, ty, cfg.name)
        # the domain of the strategy is judged on an independent long-double elimination of the (pre-pivoted) matrix, not on the library's own factors
        if not (refg == refg) or refg > GROWTH_MAX: skipped += 1; continue        # zero pivot / growth too large: the strategy is not defined on this matrix; counted, not judged
        if not (g == g and g < 1e290): g = 1e300
        if st or not pok:
            if ('s',) + k not in seen:
                seen.add(('s',) + k)
                rep.violation('lu<%s> (%s permutation) of a %s %dx%d %s matrix (seed %s) under %s: %d structural errors (L not unit lower with exact zeros above / U not upper with exact zeros below), permutation %s' % (strat, enc, FAMN[fam], n, n, ty, p[4], cfg.name, st, 'ok' if pok else 'NOT a bijection'),
                              replay_of(11, n, ty, cfg, p), key='structure:%s:%s:%d:%s:%s' % (strat, enc, n, ty, cfg.name))
            continue
        bound = CB * n * eps * max(min(g, refg * max(na, 1e-300) * 4), 1e-300); worst[strat] = max(worst.get(strat, 0.0), max(r, rr) / (n * eps * max(g, 1e-300)))
        if not (r <= bound and rr <= bound) and ('r',) + k not in seen:
            seen.add(('r',) + k)
            rep.violation('lu<%s> (%s permutation) of a %s %dx%d %s matrix (seed %s) under %s: |L*U-P*A| = %.3g, |reconstruct-A| = %.3g exceed 16*n*eps*||L||U|| = %.3g' % (strat, enc, FAMN[fam], n, n, ty, p[4], cfg.name, r, rr, bound),
                          replay_of(11, n, ty, cfg, p), key='residual:%s:%s:%d:%s:%s' % (strat, enc, n, ty, cfg.name))
    n_model = linlib.model_compare(11, rows, rep)
    n_piv = linlib.pivot_compare(rows, rep)
    rep.cov.update({'records_compared_exactly_with_the_coq_model': n_model, 'pivot_records_compared_exactly_with_the_coq_model': n_piv, 'evaluations': n_eval, 'distinct_nontrivial': len(jobs),
                    'rule': 'four LU strategies, pivoted ones with the permutation returned as a vector and as a matrix; L and U pre-filled with a sentinel so that entries the code never writes show; sizes %s; float and double; families as C10; exact structure (unit lower / upper, exact zeros), bijective permutation, |L*U-P*A| and |reconstruct(L,U,P)-A| <= 16*n*eps*||L||U||; growth ||L||U||/|A| > 64 counted, not judged' % (linlib.QUICK_SIZES if tr == 'quick' else linlib.THOROUGH_SIZES),
                    'configurations': sorted(set(c.name for _, _, c in jobs)), 'size_type_configuration_triples': ['%d/%s/%s' % (n, ty, c.name) for n, ty, c in jobs],
                    'distribution': dist, 'counted_not_judged_(growth)': skipped, 'worst_residual_over_n*eps*growth': {k: round(v, 3) for k, v in sorted(worst.items())}, 'traces_validated_against_impl': n_model})
    rep.assumptions = ['the backward-error constant 16 is measured against, not proved']
    return rep.finish(proof=proof, trusted=['Coq 8.16.1 kernel (coqc)', 'lib/common.py, props/linlib.py, props/c11.py', 'harness/linalg.cpp, harness/vh.h'])
if __name__ == '__main__': sys.exit(main())
