"""C17 - triangular matrix product: Coq theorem (Properties_C17.v) + correspondence of the Coq model with the C++."""
import os, sys, json, time
sys.path.insert(0, os.path.join(os.path.dirname(os.path.abspath(__file__)), '..', 'lib'))
from common import *
import c01
from c01 import TYPES, ml_cfg, SENT

PID = 'C17'
TAGS = ['General', 'Lower', 'Upper']   # model codes 0,1,2

def gen_cases(sd, tr):
    g = LCG(sd * 7 + 17)
    box = 4 if tr == 'quick' else 13
    shapes = [(m, k, n) for m in range(1, box + 1) for k in range(1, box + 1) for n in range(1, box + 1)]
    if tr == 'quick': shapes = g.sample(shapes, 40)
    Ms = [1, 3, 4, 5, 7, 8, 9, 11, 12, 13, 16, 17, 24, 25]; Ks = [1, 2, 3, 5, 8, 9, 13]; Ns = [1, 2, 3, 5, 7, 8, 9, 10, 11, 12, 13, 15, 16, 17, 19, 23, 24, 25, 31, 32, 33, 47, 48]
    nb = 50 if tr == 'quick' else 300
    seen = set(shapes); target = len(shapes) + nb; tries = 0
    while len(shapes) < target and tries < 100000:
        tries += 1
        s = (g.choice(Ms), g.choice(Ks), g.choice(Ns))
        if s in seen or s[0] * s[1] * s[2] > 5000: continue
        seen.add(s); shapes.append(s)
    allpairs = [(l, r) for l in range(3) for r in range(3)]
    cases = []
    # systematic family: every row section (blocks of numSIMDRows*4 rows, blocks of 4 rows, leftover rows) meets every column
    # section (blocked, single vector, masked / scalar remainder of at least two columns) with K beyond the clipped k-range,
    # for every tag pair with a triangular right operand
    for m in (14, 21, 37):
        for n in (11, 19):
            for (tl, trr) in [(0, 2), (2, 2), (1, 2), (0, 1), (2, 1)]:
                for ty in ('double', 'float'):
                    cases.append({'id': len(cases), 'ty': ty, 'M': m, 'K': n + 2, 'N': n, 'tl': tl, 'tr': trr, 'sa': g.next() % 100000, 'sb': g.next() % 100000, 'sys': True})
    for (m, k, n) in shapes:
        pairs = allpairs if tr != 'quick' else g.sample(allpairs, 3)
        tys = ['double', 'float', 'int32', 'int64'] if tr != 'quick' else g.sample(['double', 'float', 'int32', 'int64'], 2)
        if g.next() % 5 == 0: tys = tys + [g.choice(['cfloat', 'cdouble'])]
        for ty in tys:
            for (tl, trr) in pairs:
                cases.append({'id': len(cases), 'ty': ty, 'M': m, 'K': k, 'N': n, 'tl': tl, 'tr': trr,
                              'sa': g.next() % 100000, 'sb': g.next() % 100000})
    return cases

CPP_HEAD = r'''
#include <Fastor/Fastor.h>
#include "vh.h"
using namespace Fastor;
template<typename Tag> struct tagc;
template<> struct tagc<UpLoType::General> { static constexpr int v = 0; };
template<> struct tagc<UpLoType::Lower> { static constexpr int v = 1; };
template<> struct tagc<UpLoType::Upper> { static constexpr int v = 2; };
// zero everything outside the tagged triangle of an R x C matrix
template<typename T> void tri(T* p, size_t R, size_t C, int tag) {
    for (size_t r = 0; r < R; ++r) for (size_t c = 0; c < C; ++c) {
        if (tag == 1 && c > r) p[r*C+c] = T(0);
        if (tag == 2 && c < r) p[r*C+c] = T(0);
    }
}
template<typename T, size_t M, size_t K, size_t N, typename L, typename R>
void run_case(long id, uint64_t sa, uint64_t sb) {
    Tensor<T,M,K> A; Tensor<T,K,N> B;
    vh_fill(A.data(), M*K, sa, 1, 9); vh_fill(B.data(), K*N, sb, 1, 9);
    tri(A.data(), M, K, tagc<L>::v); tri(B.data(), K, N, tagc<R>::v);
    {
        vh_fenced<T, M*N> out(77777);
        Fastor::_tmatmul<T,M,K,N,L,R>(A.data(), B.data(), out.data());
        std::printf("F %ld %d\n", id, out.fence_damage());
        vh_line("R0", id, out.data(), M*N);
    }
    { Tensor<T,M,N> C = tmatmul<L,R>(A,B); vh_line("R1", id, C.data(), M*N); }
    // expression operands (the overloads of binary_matmul_op.h): the zero pattern of the operands is preserved
    if (id % 3 == 0) {
        { Tensor<T,M,N> C = tmatmul<L,R>(A, B + T(0) * B); vh_line("R2", id, C.data(), M*N); }
        { Tensor<T,M,N> C = tmatmul<L,R>(A + T(0) * A, B); vh_line("R3", id, C.data(), M*N); }
        { Tensor<T,M,N> C = tmatmul<L,R>(A + T(0) * A, B + T(0) * B); vh_line("R4", id, C.data(), M*N); }
    }
}
'''

def cpp_source(shard):
    L = [CPP_HEAD, 'int main() {']
    for c in shard:
        L.append('  run_case<%s,%d,%d,%d,UpLoType::%s,UpLoType::%s>(%d,%d,%d);' % (TYPES[c['ty']][0], c['M'], c['K'], c['N'], TAGS[c['tl']], TAGS[c['tr']], c['id'], c['sa'], c['sb']))
    L.append('  return 0; }')
    return '\n'.join(L)

def tri(p, R, C, tag, zero):
    p = list(p)
    for r in range(R):
        for c in range(C):
            if (tag == 1 and c > r) or (tag == 2 and c < r): p[r * C + c] = zero
    return p

def case_data(c):
    m, k, n = c['M'], c['K'], c['N']
    if TYPES[c['ty']][3]:
        ra = data_ints(c['sa'], 2 * m * k, 1, 9); rb = data_ints(c['sb'], 2 * k * n, 1, 9)
        a = [(ra[2 * i], ra[2 * i + 1]) for i in range(m * k)]; b = [(rb[2 * i], rb[2 * i + 1]) for i in range(k * n)]
        z = (0, 0)
    else:
        a = data_ints(c['sa'], m * k, 1, 9); b = data_ints(c['sb'], k * n, 1, 9); z = 0
    return tri(a, m, k, c['tl'], z), tri(b, k, n, c['tr'], z)

def ocaml_stmts(cases, cfg):
    L = []
    for c in cases:
        a, b = case_data(c)
        if TYPES[c['ty']][3]:
            L.append('pzc "M" %d (run_tmatmul_C %s %s %d %d %d %d %d (zcl %s) (zcl %s))' % (c['id'], ml_cfg(cfg), TYPES[c['ty']][1], c['tl'], c['tr'], c['M'], c['K'], c['N'], ml_pairs(a), ml_pairs(b)))
        else:
            L.append('pz "M" %d (run_tmatmul_Z %s %s %d %d %d %d %d (zl %s) (zl %s))' % (c['id'], ml_cfg(cfg), TYPES[c['ty']][1], c['tl'], c['tr'], c['M'], c['K'], c['N'], ml_ints(a), ml_ints(b)))
    return L

def coq_text(cases, cfg):
    L = ['From Coq Require Import ZArith List. Import ListNotations.',
         'From FastorV Require Import Base.Scalar Model.Cfg Model.Matmul Model.TMatmul Model.Run.',
         'Definition CFG := %s.' % cfg.coq_cfg()]
    items = []
    for c in cases:
        a, b = case_data(c)
        items.append('run_tmatmul_Z CFG %s %d %d %d %d %d %s %s' % (TYPES[c['ty']][1], c['tl'], c['tr'], c['M'], c['K'], c['N'], zlist(a), zlist(b)))
    L.append('Eval vm_compute in [%s].' % ';\n '.join(items))
    return '\n'.join(L)

def main():
    tr = tier(); sd = seed()
    rep = Report(PID, 'proof')
    proof = prove('Properties_C17.v')
    handle_proof(rep, proof, 'see correspondence results of this run')
    cases = gen_cases(sd, tr); byid = {c['id']: c for c in cases}
    cfgs = quick_grid() + [Config('avx2', 'c++14', '-O2', ['FASTOR_MATMUL_INNER_BLOCK_SIZE=4']), Config('avx512', 'c++17', '-O2', ['FASTOR_MATMUL_INNER_BLOCK_SIZE=5', 'FASTOR_MATMUL_OUTER_BLOCK_SIZE=1'])] if tr == 'quick' else thorough_grid() + [Config('avx2', 'c++14', '-O2', ['FASTOR_MATMUL_INNER_BLOCK_SIZE=%d' % i]) for i in (1, 3, 4, 5)]
    nshard = 8 if tr == 'quick' else 40
    shards = [cases[i::nshard] for i in range(nshard)]
    mcfgs = {}
    for cfg in cfgs: mcfgs.setdefault(cfg.coq_cfg(), cfg)
    ocaml_ready()
    def build_run(job):
        cfg, si = job
        exe, log = compile_cpp(cpp_source(shards[si]), cfg)
        if exe is None: return ('B', cfg, si, None, log)
        return ('B', cfg, si, run_exe(exe), log)
    def model_run(k):
        res = {}
        for ln in ocaml_eval(ocaml_stmts(cases, mcfgs[k])):
            p = ln.split(); c = byid[int(p[1])]; v = [int(x) for x in p[2:]]
            res[c['id']] = [(v[2 * i], v[2 * i + 1]) for i in range(len(v) // 2)] if TYPES[c['ty']][3] else v
        return ('M', k, res)
    sub = [c for c in sorted(cases, key=lambda c: c['M'] * c['K'] * c['N']) if not TYPES[c['ty']][3]][:50]
    def coq_run(k):
        out = parse_coq_lists(coq_eval(coq_text(sub, mcfgs[k])))[0]
        return ('V', k, {c['id']: r for c, r in zip(sub, out)})
    allres = pmap(lambda j: j[0](j[1]), [(build_run, (cfg, si)) for cfg in cfgs for si in range(nshard)] + [(model_run, k) for k in mcfgs] + [(coq_run, k) for k in mcfgs])
    model = {}; impl = {}; compile_fail = []; n_cross = 0
    for r in allres:
        if r[0] == 'M': model[r[1]] = r[2]
    for r in allres:
        if r[0] == 'V':
            for cid, v in r[2].items():
                n_cross += 1
                if model[r[1]][cid] != v:
                    rep.violation('extracted model differs from the model evaluated inside Coq (case %d)' % cid, {'cfg': r[1], 'case': byid[cid]}, no_input=True, key='extraction'); break
        elif r[0] == 'B':
            _, cfg, si, res, log = r
            if res is None: compile_fail.append((cfg.name, log[-2000:])); continue
            rc, out, err = res
            d = impl.setdefault(cfg.name, {'lines': {}, 'fence': {}, 'crash': []})
            if rc != 0: d['crash'].append((si, rc, err[-300:]))
            for ln in out.splitlines():
                p = ln.split()
                if p[0] == 'F': d['fence'][int(p[1])] = int(p[2])
                elif p[0][0] == 'R': d['lines'][(int(p[1]), int(p[0][1:]))] = p[2:]
    n_eval = 0; mism = []; dist = {}
    for cfg in cfgs:
        d = impl.get(cfg.name)
        if d is None: continue
        for (si, rc, err) in d['crash']:
            rep.violation('harness crashed under %s (exit %s)' % (cfg.name, rc), {'cfg': cfg.name, 'exit': rc, 'stderr': err}, key='crash:%s' % cfg.name)
        for c in cases:
            cplx = TYPES[c['ty']][3]; mn = c['M'] * c['N']
            mres = model[cfg.coq_cfg()][c['id']]
            for mode in ((0, 1, 2, 3, 4) if c['id'] % 3 == 0 else (0, 1)):
                toks = d['lines'].get((c['id'], mode))
                if toks is None:
                    if not d['crash']: mism.append({'kind': 'missing', 'cfg': cfg.name, 'case': c, 'mode': mode})
                    continue
                n_eval += 1; dist[(c['ty'], c['tl'], c['tr'])] = dist.get((c['ty'], c['tl'], c['tr']), 0) + 1
                vals = [parse_num(t) for t in toks]
                if cplx: got = [(int(vals[2 * i]), int(vals[2 * i + 1])) for i in range(len(vals) // 2)]
                else: got = [int(v) if not isinstance(v, str) and v.denominator == 1 else v for v in vals]
                if got != mres[:mn]:
                    a, b = case_data(c); ex = c01.spec_mm(c, a, b)
                    idx = next((i for i in range(min(len(got), mn)) if got[i] != mres[i]), -1)
                    mism.append({'kind': 'value', 'cfg': cfg.name, 'case': c, 'mode': mode, 'index': idx, 'impl': str(got[:40]), 'model': str(mres[:40]),
                                 'impl_matches_spec': got == ex, 'model_matches_spec': mres[:mn] == ex})
            if d['fence'].get(c['id']) not in (None, 0):
                mism.append({'kind': 'fence', 'cfg': cfg.name, 'case': c, 'mode': 0, 'damage': d['fence'][c['id']]})
    groups = {}
    for m in mism:
        c = m['case']; key = (m['kind'], m['cfg'], c['ty'], c['tl'], c['tr'])
        size = c['M'] * c['K'] * c['N']
        if key not in groups or size < groups[key][0]: groups[key] = (size, m)
    for key, (size, m) in sorted(groups.items(), key=lambda kv: str(kv[0])):
        c = m['case']; cfgo = next(x for x in cfgs if x.name == m['cfg'])
        kkey = '%s:%s:%s:%s%s:M%dK%dN%d' % (m['kind'], m['cfg'], c['ty'], TAGS[c['tl']][0], TAGS[c['tr']][0], c['M'], c['K'], c['N'])
        a, b = case_data(c)
        replay = {'mismatch': m, 'compile_cmd': ' '.join(cfgo.cmd('t.cpp', 't.exe')), 'A': a, 'B': b, 'program': cpp_source([c])}
        if m['kind'] == 'value' and m['impl_matches_spec'] and not m['model_matches_spec']:
            rep.violation('model disagrees with implementation although implementation matches the specification: %s' % kkey, replay, no_input=True, key=kkey)
        else:
            rep.violation('tmatmul<%s,%s> differs from the ordinary product of the triangular operands: %s' % (TAGS[c['tl']], TAGS[c['tr']], kkey), replay, key=kkey)
    for (name, log) in compile_fail[:3]:
        rep.violation('harness does not compile under %s' % name, {'cfg': name, 'log': log}, no_input=True, key='compile:%s' % name)
    rep.cov.update({'evaluations': n_eval, 'distinct_nontrivial': len({(c['ty'], c['M'], c['K'], c['N'], c['tl'], c['tr']) for c in cases if c['M'] * c['K'] * c['N'] > 1}),
                    'rule': 'one case = (type, M, K, N, lhs tag, rhs tag); operands are integer matrices in [1,9] that are exactly zero outside the tagged triangle; raw _tmatmul into a fenced sentinel-filled buffer, the tmatmul<L,R>() API on tensors and (every third case) on (tensor, expression), (expression, tensor), (expression, expression) operands; every case under every configuration of the tier grid; compared element by element with the Coq model under the same configuration',
                    'samples': [cases[i] for i in range(0, len(cases), max(1, len(cases) // 6))][:8], 'configurations': [c.name for c in cfgs],
                    'distribution_type_tags': {'%s/%s%s' % (k[0], TAGS[k[1]][0], TAGS[k[2]][0]): v for k, v in sorted(dist.items())},
                    'extraction_crosschecked_cases': n_cross, 'traces_validated_against_impl': n_eval})
    rep.assumptions = ['x86 intrinsic semantics, the C++ compiler and hardware arithmetic are modelled, not verified',
                       'correspondence explores a finite box of shapes per tier; the Coq theorems are unbounded',
                       'behaviour on operands that are NOT zero outside the tagged triangle is outside the property and not judged']
    return rep.finish(proof=proof, trusted=['Coq 8.16.1 kernel (coqc), extraction cross-checked by vm_compute', 'lib/common.py, props/c17.py', 'harness/vh.h'])

if __name__ == '__main__':
    sys.exit(main())
