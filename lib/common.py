"""Shared machinery for the Fastor verification checks.

Pipeline of one check run (see DESIGN.md section 2.4):
  prove   -> make the property's Coq theorems (kernel-checked), collect Print Assumptions
  gen     -> case list from VERIF_SEED
  build   -> C++ harness compiled against /repo's current tree, per configuration
  run     -> implementation outputs
  model   -> the same cases evaluated by the Coq model inside coqc (vm_compute)
  compare -> exact / bound; search + shrink on mismatch; known findings; evidence
"""
import hashlib, json, os, re, shutil, subprocess, sys, tempfile, time
from concurrent.futures import ThreadPoolExecutor
from fractions import Fraction

VERIF = os.path.dirname(os.path.dirname(os.path.abspath(__file__)))
REPO = os.environ.get('FASTOR_REPO', '/repo')
COQDIR = os.path.join(VERIF, 'coq')
CACHE = os.path.join(VERIF, '.cache')
NCPU = int(os.environ.get('VERIF_JOBS', os.cpu_count() or 8))
GUARD = 'FASTOR_VERIF'

# ----------------------------------------------------------------------------------------------
# configurations: name -> (compiler flags, model cfg (abi, masks))
# abi: 0 scalar 1 sse 2 avx 3 avx512 ; masks = FASTOR_AVX2_IMPL || FASTOR_HAS_AVX512_MASKS
ISAS = {
    'scalar': (['-DFASTOR_DONT_VECTORISE'], 0, False, False),
    'sse2':   (['-msse2'], 1, False, False),
    'sse42':  (['-msse4.2'], 1, False, False),
    'avx':    (['-mavx'], 2, False, False),
    'avx2':   (['-mavx2', '-mfma'], 2, True, True),
    'avx512': (['-mavx512f', '-mavx512vl', '-mavx512dq', '-mavx512bw', '-mavx2', '-mfma'], 3, True, True),
}
# (name -> flags, abi, masks, fma)

class Config:
    def __init__(self, isa, std='c++14', opt='-O2', macros=(), cxx='g++', extra=()):
        self.isa, self.std, self.opt, self.macros, self.cxx, self.extra = isa, std, opt, tuple(macros), cxx, tuple(extra)
        self.flags, self.abi, self.masks, self.fma = ISAS[isa]
    @property
    def name(self):
        n = '%s-%s%s' % (self.isa, self.std.replace('c++', 'cxx'), self.opt)
        if self.cxx != 'g++': n += '-' + self.cxx
        for m in self.macros: n += '-' + m.replace('=', '_').replace('FASTOR_', '')
        for m in self.extra: n += m.replace('=', '_')
        return n
    def cmd(self, src, exe):
        return ([self.cxx, '-std=' + self.std, self.opt, '-DNDEBUG', '-I' + REPO, '-I' + os.path.join(VERIF, 'harness'),
                 '-D' + GUARD, '-ffp-contract=off', '-w'] + list(self.flags) + ['-D' + m for m in self.macros] + list(self.extra)
                + [src, '-o', exe])
    def macro(self, key, default=0):
        for m in self.macros:
            if m.split('=')[0] == key:
                return int(m.split('=')[1]) if '=' in m else 1
        return default
    def coq_cfg(self):
        return '(mkCfg %d %s %d %d)' % (self.abi, 'true' if self.masks else 'false',
                                         self.macro('FASTOR_MATMUL_OUTER_BLOCK_SIZE'), self.macro('FASTOR_MATMUL_INNER_BLOCK_SIZE'))
    def lanes(self, tbytes):
        bits = {0: tbytes * 8, 1: 128, 2: 256, 3: 512}[self.abi]
        return max(1, bits // tbytes // 8)

def quick_grid():
    """covering array: every ISA once at -O2, both language levels at least twice, -O0 and -O3 once"""
    return [Config('scalar', 'c++17', '-O2'), Config('sse2', 'c++14', '-O2'), Config('sse42', 'c++17', '-O0'),
            Config('avx', 'c++14', '-O3'), Config('avx2', 'c++17', '-O2'), Config('avx512', 'c++14', '-O2')]

def thorough_grid():
    """every ISA under three (standard, optimisation) combinations: C++14 -O2, C++17 -O3, and -O0 with the standard alternating"""
    g = []
    for k, isa in enumerate(ISAS):
        g += [Config(isa, 'c++14', '-O2'), Config(isa, 'c++17', '-O3'), Config(isa, 'c++17' if k % 2 == 0 else 'c++14', '-O0')]
    return g

def tier():
    return os.environ.get('VERIF_TIER', 'quick')

def seed():
    try: return int(os.environ.get('VERIF_SEED', '1'))
    except ValueError: return 1

# ----------------------------------------------------------------------------------------------
# deterministic PRNG shared with the C++ harness (harness/vh.h: vh_lcg)
class LCG:
    def __init__(self, s): self.x = (s * 2654435761 + 12345) % (1 << 31)
    def next(self):
        self.x = (self.x * 1103515245 + 12345) % (1 << 31)
        return self.x >> 8
    def randint(self, lo, hi):  # inclusive
        return lo + self.next() % (hi - lo + 1)
    def choice(self, xs): return xs[self.next() % len(xs)]
    def sample(self, xs, k):
        xs = list(xs); out = []
        while xs and len(out) < k:
            out.append(xs.pop(self.next() % len(xs)))
        return out
    def shuffle(self, xs):
        xs = list(xs)
        for i in range(len(xs) - 1, 0, -1):
            j = self.next() % (i + 1); xs[i], xs[j] = xs[j], xs[i]
        return xs

def data_ints(sd, n, lo=-9, hi=9):
    """the integer data stream the C++ harness regenerates from the same seed (vh_fill)"""
    g = LCG(sd); return [lo + g.next() % (hi - lo + 1) for _ in range(n)]

# ----------------------------------------------------------------------------------------------
def repo_hash():
    h = hashlib.sha256()
    base = os.path.join(REPO, 'Fastor')
    for root, dirs, files in sorted(os.walk(base)):
        dirs.sort()
        for f in sorted(files):
            p = os.path.join(root, f)
            h.update(p.encode()); h.update(open(p, 'rb').read())
    for f in sorted(os.listdir(os.path.join(VERIF, 'harness'))):
        if f.endswith('.h'):
            h.update(open(os.path.join(VERIF, 'harness', f), 'rb').read())
    return h.hexdigest()

_rh = None
def compile_cpp(src_text, cfg, timeout=1500):
    """compile src_text against /repo's current tree under cfg; returns (exe or None, log)"""
    global _rh
    if _rh is None: _rh = repo_hash()
    os.makedirs(CACHE, exist_ok=True)
    key = hashlib.sha256((_rh + src_text + ' '.join(cfg.cmd('S', 'E'))).encode()).hexdigest()[:32]
    exe = os.path.join(CACHE, key + '.exe'); log = os.path.join(CACHE, key + '.log')
    if os.path.exists(exe): return exe, ''
    if os.path.exists(log) and not os.path.exists(exe) and os.path.getsize(log) > 0 and os.path.exists(log + '.failed'):
        return None, open(log).read()
    tmpd = tempfile.mkdtemp(prefix='fastor-verif.')
    try:
        src = os.path.join(tmpd, 't.cpp'); open(src, 'w').write(src_text)
        tmpexe = os.path.join(tmpd, 't.exe')
        try:
            r = subprocess.run(cfg.cmd(src, tmpexe), capture_output=True, text=True, timeout=timeout)
            out = r.stdout + r.stderr; ok = r.returncode == 0
        except subprocess.TimeoutExpired:
            out = 'compile timeout'; ok = False
        if ok:
            shutil.move(tmpexe, exe); return exe, out
        open(log, 'w').write(out or 'failed'); open(log + '.failed', 'w').write('1')
        return None, out
    finally:
        shutil.rmtree(tmpd, ignore_errors=True)

def prune_cache(limit=3 << 30):
    if not os.path.isdir(CACHE): return
    fs = [(os.path.getmtime(os.path.join(CACHE, f)), os.path.getsize(os.path.join(CACHE, f)), os.path.join(CACHE, f)) for f in os.listdir(CACHE)]
    tot = sum(s for _, s, _ in fs)
    for _, s, p in sorted(fs):
        if tot <= limit: break
        try: os.remove(p); tot -= s
        except OSError: pass

def run_exe(exe, args=(), timeout=600, stdin=None):
    try:
        r = subprocess.run([exe] + list(args), capture_output=True, text=True, timeout=timeout, input=stdin)
        return r.returncode, r.stdout, r.stderr
    except subprocess.TimeoutExpired:
        return -999, '', 'timeout'

def pmap(f, xs, n=None):
    with ThreadPoolExecutor(max_workers=n or NCPU) as ex:
        return list(ex.map(f, xs))

# ----------------------------------------------------------------------------------------------
# Coq side
TRANSLATOR = {'failed': [], 'translated': 0, 'ran': False}
def run_translator():
    """regenerate coq/Gen/Generated.v from /repo's current source (lib/cxx2v.py); once per process"""
    if TRANSLATOR['ran']: return
    import cxx2v
    try:
        failed, n = cxx2v.write_generated(REPO, COQDIR)
    except Exception as ex:            # an unreadable source file etc.: every translated definition is missing
        failed, n = [('*', 'translator', str(ex))], 0
    failed = [list(f) for f in failed]
    # the configurations the models are run with (ISAS: abi, masks, fma per compiler flags) must be the ones the source selects
    # under those flags: gen_isa_table is config.h / macros.h / simd_vector_abi.h evaluated from the compiler's predefined macros
    try:
        txt = open(os.path.join(COQDIR, 'Gen', 'Generated.v')).read()
        m = re.search(r'Definition gen_isa_table\s*:[^=]*:=\s*\[(.*?)\]\.', txt, flags=re.S)
        if m:
            rows = [tuple(x.strip() for x in r.split(',')) for r in re.findall(r'\(([^()]*)\)', m.group(1))]
            want = [(str(ISAS[k][1]), 'true' if ISAS[k][2] else 'false', 'true' if ISAS[k][3] else 'false') for k in ('scalar', 'sse2', 'sse42', 'avx', 'avx2', 'avx512')]
            if [r[:3] for r in rows] != want:
                failed.append(['gen_isa_table', 'lib/common.py ISAS', 'the configurations assumed by the harness %s differ from what the source selects under the same flags %s' % (want, [r[:3] for r in rows])])
    except OSError: pass
    TRANSLATOR.update(failed=failed, translated=n, ran=True)

def coq_make(targets, timeout=1800):
    """(re)build the given .vo targets with a full (non -vos) build; returns (ok, log)"""
    run_translator()
    if not os.path.exists(os.path.join(COQDIR, 'Makefile')):
        subprocess.run(['coq_makefile', '-f', '_CoqProject', '-o', 'Makefile'], cwd=COQDIR, capture_output=True)
    r = subprocess.run(['timeout', str(timeout), 'make', '-k', '-j%d' % NCPU] + targets, cwd=COQDIR, capture_output=True, text=True)
    return r.returncode == 0, r.stdout + r.stderr

def coq_eval(vtext, timeout=900):
    """evaluate a generated .v file (the model run on concrete cases, vm_compute); returns stdout"""
    tmpd = tempfile.mkdtemp(prefix='fastor-verif.')
    try:
        p = os.path.join(tmpd, 'Cases.v'); open(p, 'w').write(vtext)
        r = subprocess.run(['timeout', str(timeout), 'coqc', '-Q', COQDIR, 'FastorV', '-w', '-all', p], capture_output=True, text=True)
        if r.returncode != 0:
            raise RuntimeError('coq evaluation failed:\n' + (r.stdout + r.stderr)[-3000:])
        return r.stdout
    finally:
        shutil.rmtree(tmpd, ignore_errors=True)

EXTR = os.path.join(COQDIR, 'extracted')
def ocaml_ready():
    """(re)build the Coq development incl. Extract.v and compile the extracted module + prelude"""
    ok, log = coq_make(['Extract.vo'])
    if not ok: raise RuntimeError('coq build / extraction failed:\n' + log[-3000:])
    ml = os.path.join(EXTR, 'fastor_model.ml'); cmx = os.path.join(EXTR, 'fastor_model.cmx')
    pre = os.path.join(VERIF, 'ocaml', 'prelude.ml'); pcmx = os.path.join(EXTR, 'prelude.cmx')
    if (not os.path.exists(cmx)) or os.path.getmtime(cmx) < os.path.getmtime(ml) or (not os.path.exists(pcmx)) or os.path.getmtime(pcmx) < max(os.path.getmtime(pre), os.path.getmtime(cmx)):
        shutil.copy(pre, os.path.join(EXTR, 'prelude.ml'))
        r = subprocess.run(['ocamlfind', 'ocamlopt', '-w', '-a', '-c', 'fastor_model.mli', 'fastor_model.ml', 'prelude.ml'], cwd=EXTR, capture_output=True, text=True)
        if r.returncode != 0: raise RuntimeError('ocaml build of the extracted model failed:\n' + r.stdout + r.stderr)

def ocaml_eval(stmts, timeout=900):
    """run OCaml statements (one printed line each) against the extracted model; returns stdout lines"""
    tmpd = tempfile.mkdtemp(prefix='fastor-verif.')
    try:
        src = os.path.join(tmpd, 'driver.ml')
        with open(src, 'w') as f:
            f.write('open Fastor_model\nopen Prelude\n')
            for s in stmts: f.write('let () = ' + s + '\n')
        exe = os.path.join(tmpd, 'driver.exe')
        # large generated drivers overflow the compiler's default stack: raise the limit for this command only
        cmdline = ' '.join(['ocamlfind', 'ocamlopt', '-w', '-a', '-I', EXTR, os.path.join(EXTR, 'fastor_model.cmx'), os.path.join(EXTR, 'prelude.cmx'), src, '-o', exe])
        r = subprocess.run(['bash', '-c', 'ulimit -s 4000000 2>/dev/null || ulimit -s unlimited 2>/dev/null; ' + cmdline],
                           capture_output=True, text=True, timeout=timeout)
        if r.returncode != 0: raise RuntimeError('ocaml driver build failed:\n' + (r.stdout + r.stderr)[-3000:])
        r = subprocess.run([exe], capture_output=True, text=True, timeout=timeout)
        if r.returncode != 0: raise RuntimeError('ocaml driver failed: ' + r.stderr[-2000:])
        return r.stdout.splitlines()
    finally:
        shutil.rmtree(tmpd, ignore_errors=True)

def ml_ints(xs): return '[' + ';'.join('(%d)' % x for x in xs) + ']'
def ml_zlist(xs):
    """OCaml expression of type z list (big values go through decimal strings)"""
    if all(abs(x) < (1 << 61) for x in xs): return '(zl ' + ml_ints(xs) + ')'
    return '(zsl [' + ';'.join('"%d"' % x for x in xs) + '])'
def ml_pairs(xs): return '[' + ';'.join('((%d),(%d))' % tuple(x) for x in xs) + ']'

def parse_coq_lists(out):
    """parse the '= [[..];..] : type' blocks printed by Eval vm_compute into python lists of ints"""
    res = []
    for blk in re.split(r'\n\s*=\s', '\n' + out):
        blk = blk.strip()
        if not blk: continue
        body = re.sub(r'\s+', ' ', blk)
        body = re.sub(r':\s*[A-Za-z(][^\]]*$', '', body)  # strip trailing ': type'
        body = re.sub(r'\((-\d+)\)%Z', r'\1', body)
        body = body.replace('%Z', '').replace('%nat', '').replace('%N', '')
        body = body.replace(';', ',').replace('(', '[').replace(')', ']')
        body = body.replace('true', '1').replace('false', '0').replace('Some', '').replace('None', '[]')
        body = body.strip()
        try:
            res.append(json.loads(body))
        except Exception as e:
            raise RuntimeError('cannot parse coq output block: %r (%s)' % (body[:300], e))
    return res

def zlist(xs): return '[' + '; '.join('(%d)' % x for x in xs) + ']%Z'
def natlist(xs): return '[' + '; '.join('%d' % x for x in xs) + ']'

AXIOM_OK = ('ClassicalDedekindReals.sig_not_dec', 'ClassicalDedekindReals.sig_forall_dec',
            'FunctionalExtensionality.functional_extensionality_dep', 'Classical_Prop.classic',
            'Eqdep.Eq_rect_eq.eq_rect_eq', 'ProofIrrelevance.proof_irrelevance', 'JMeq.JMeq_eq',
            'ClassicalEpsilon.constructive_indefinite_description')

FORBIDDEN = re.compile(r'\b(Admitted|admit|Axiom|Parameter|Conjecture|Admit Obligations|Unset Guard Checking|bypass_check|Unset Positivity Checking|Unset Universe Checking)\b')

def scan_forbidden():
    bad = []
    for root, _, files in os.walk(COQDIR):
        if root.endswith('/gen'): continue
        for f in files:
            if f.endswith('.v'):
                txt = open(os.path.join(root, f)).read()
                txt = re.sub(r'\(\*.*?\*\)', '', txt, flags=re.S)
                for m in FORBIDDEN.finditer(txt):
                    bad.append('%s: %s' % (os.path.relpath(os.path.join(root, f), COQDIR), m.group(0)))
    return bad

def prove(prop_file):
    """build Properties_<id>.vo; returns dict(ok, theorems, closed, axioms, log)"""
    t0 = time.time()
    vo = prop_file.replace('.v', '.vo')
    # force re-check of the property file itself so Print Assumptions output is produced on this run
    try: os.remove(os.path.join(COQDIR, vo))
    except OSError: pass
    ok, log = coq_make([vo])
    src = open(os.path.join(COQDIR, prop_file)).read()
    src_nc = re.sub(r'\(\*.*?\*\)', '', src, flags=re.S)
    thms = re.findall(r'^\s*(?:Theorem|Corollary|Example|Lemma)\s+([A-Za-z0-9_\']+)', src_nc, flags=re.M)
    axioms = set(); closed_ctx = 0
    for m in re.finditer(r'Closed under the global context', log): closed_ctx += 1
    for m in re.finditer(r'^([A-Za-z_][A-Za-z0-9_.\']*)\s*:', log, flags=re.M):
        nm = m.group(1)
        if nm.split('.')[0] in ('ClassicalDedekindReals', 'FunctionalExtensionality', 'Classical_Prop', 'Eqdep', 'ProofIrrelevance', 'JMeq', 'ClassicalEpsilon') or nm in AXIOM_OK:
            axioms.add(nm)
    broken = []
    if not ok:
        for m in re.finditer(r'File "\./([^"]+)", line (\d+)[^\n]*\n(Error:[^\n]*(?:\n[^\n]+){0,6})', log):
            broken.append({'file': m.group(1), 'line': int(m.group(2)), 'error': m.group(3)[:600]})
        if not broken: broken.append({'file': prop_file, 'line': 0, 'error': log[-1500:]})
    bad = scan_forbidden()
    if TRANSLATOR['failed'] and 'Gen.Generated' in src:
        for f in TRANSLATOR['failed']:
            broken.append({'file': 'Gen/Generated.v', 'line': 0, 'error': 'cxx2v could not translate %s (%s): %s' % tuple(f)})
    return {'ok': ok and not bad, 'translator': dict(TRANSLATOR), 'theorems': thms, 'n_closed_ctx': closed_ctx, 'axioms': sorted(axioms),
            'broken': broken, 'forbidden': bad, 'wall_s': time.time() - t0, 'log': log}

# ----------------------------------------------------------------------------------------------
# known findings
def load_known():
    p = os.path.join(VERIF, 'known_findings.json')
    if os.path.exists(p):
        return json.load(open(p))
    return {'findings': [], 'fixed': []}

# ----------------------------------------------------------------------------------------------
class Report:
    """collects what a check run covered; prints VIOLATION / KNOWN-FINDING lines; writes evidence"""
    def __init__(self, pid, level='proof'):
        self.pid, self.level = pid, level
        self.t0 = time.time(); self.violations = []; self.known_hits = []
        self.cov = {'evaluations': 0, 'distinct_nontrivial': 0, 'samples': []}
        self.assumptions = []; self.known = [f for f in load_known().get('findings', []) if f.get('property') == pid]
        self.replay_n = 0
    def violation(self, what, replay_obj, no_input=False, key=None):
        """key: a string identifying the failing input class; matched against known_findings"""
        for kf in self.known:
            if key is not None and re.fullmatch(kf['match'], key):
                if kf['id'] not in [k['id'] for k in self.known_hits]:
                    self.known_hits.append(kf)
                return False
        self.replay_n += 1
        os.makedirs(os.path.join(VERIF, 'replay'), exist_ok=True)
        path = os.path.join(VERIF, 'replay', '%s-%d.json' % (self.pid, self.replay_n))
        replay_obj = dict(replay_obj); replay_obj['property'] = self.pid; replay_obj['what'] = what
        replay_obj['key'] = key
        json.dump(replay_obj, open(path, 'w'), indent=1, default=str)
        self.violations.append((what, path, no_input))
        return True
    def finish(self, extra_cov=None, proof=None, trusted=None):
        wall = time.time() - self.t0
        cov = self.cov
        if extra_cov: cov.update(extra_cov)
        if proof is not None:
            cov['obligations'] = len(proof['theorems']) + 0
            cov['discharged'] = len(proof['theorems']) if proof['ok'] else max(0, len(proof['theorems']) - max(1, len(proof['broken'])))
            cov['checker_cmd'] = 'make -C coq -k Properties_%s.vo (coqc 8.16.1, full .vo build) ; Print Assumptions under every theorem' % self.pid
            cov['trusted_base'] = (trusted or []) + ['axioms reported by Print Assumptions on this run: ' + (', '.join(proof['axioms']) or 'none (closed under the global context)')]
            cov['theorems'] = proof['theorems']
            if 'Gen.Generated' in open(os.path.join(COQDIR, 'Properties_%s.v' % self.pid)).read():
                tr = proof.get('translator', {})
                cov['source_translation'] = {'translator': 'lib/cxx2v.py (re-run on this check against /repo\'s working tree)',
                                             'definitions_translated': tr.get('translated'), 'failed': tr.get('failed')}
            cov['proof_wall_s'] = round(proof['wall_s'], 1)
        ev = {'property_id': self.pid, 'tier': tier() if tier() in ('quick', 'thorough') else 'quick', 'seed': seed(), 'level': self.level,
              'coverage': cov, 'assumptions': self.assumptions, 'wall_s': round(wall, 2), 'violations': len(self.violations),
              'known_findings_hit': [k['id'] for k in self.known_hits]}
        os.makedirs(os.path.join(VERIF, 'evidence'), exist_ok=True)
        json.dump(ev, open(os.path.join(VERIF, 'evidence', self.pid + '.json'), 'w'), indent=1, default=str)
        for k in self.known_hits:
            print('KNOWN-FINDING: property=%s %s' % (self.pid, k['what']))
        for what, path, no_input in self.violations[:20]:
            print('VIOLATION property=%s replay=%s%s' % (self.pid, path, ' no-failing-input-found' if no_input else ''))
            print('  ' + what)
        print('%s: %s in %.1fs (%d evaluations, %d violations, %d known findings)' % (
            self.pid, 'FAIL' if self.violations else 'ok', wall, cov.get('evaluations', 0), len(self.violations), len(self.known_hits)))
        prune_cache()
        return 1 if self.violations else 0

def handle_proof(rep, proof, search_note):
    """a broken proof obligation is a violation (no-failing-input-found unless the correspondence finds one)"""
    if proof['ok']: return
    for b in proof['broken'][:3]:
        rep.violation('proof obligation no longer checks: %s line %s: %s' % (b['file'], b['line'], b['error'][:300]),
                      {'kind': 'broken-proof', 'detail': b, 'note': search_note}, no_input=True, key='broken-proof')
    for b in proof['forbidden'][:3]:
        rep.violation('forbidden construct in the development: ' + b, {'kind': 'forbidden', 'detail': b}, no_input=True, key='forbidden')

def ulp_bound(K, prec):
    """((1+u)^K - 1) as an exact Fraction, u = 2^-prec"""
    u = Fraction(1, 2 ** prec)
    return (1 + u) ** K - 1

def parse_num(s):
    """exact value of a number printed by the harness (%a hex float or decimal integer)"""
    if s in ('nan', '-nan', 'inf', '-inf'): return s.lstrip('-') if 'nan' in s else s
    try:
        if 'x' in s or 'p' in s:
            return Fraction(float.fromhex(s))
        if '.' in s or 'e' in s: return Fraction(float(s))
        return Fraction(int(s))
    except (ValueError, OverflowError):
        return 'unparsable:' + s      # e.g. a line cut short by a crash
