"""cxx2v: translate the decision arithmetic of /repo's C++ source into Gallina, on every run.

What is translated (see TARGETS at the bottom): single-return constexpr functions, `constexpr T x = e;`
declarations of a function body or of a struct (with their #ifdef alternatives), `if constexpr` dispatch
ladders, and the headers (start, bound, step) of counted loops together with the template arguments of
the kernels called in their bodies.  The C++ expression subset is: integer literals, identifiers,
?:, ||, &&, !, ==, !=, <, <=, >, >=, +, -, *, /, %, parentheses, calls of min_/max_; every other token
sequence (template-ids, member accesses) must be listed in the target's atom table, otherwise the
translation of that definition fails and the definition is left out of coq/Gen/Generated.v -- the lemma
of coq/Proofs/GenEq.v that mentions it then no longer checks, which the checks report.

size_t expressions are translated to nat (+, *, /, mod; subtraction only where the source guards it), int
expressions to Z with C++ truncating division (Z.quot, Z.rem).  The translator is part of the trusted base.
"""
import os, re, sys

class XErr(Exception): pass
NL = '\n    '

# ----------------------------------------------------------------------------------------------------
# source handling
def strip_comments(t):
    t = re.sub(r'/\*.*?\*/', ' ', t, flags=re.S)
    t = re.sub(r'//[^\n]*', '', t)
    return t

def match_close(t, i, op='{', cl='}'):
    """t[i] == op ; returns index of the matching close"""
    assert t[i] == op, (t[i:i+20], op)
    d = 0
    for k in range(i, len(t)):
        if t[k] == op: d += 1
        elif t[k] == cl:
            d -= 1
            if d == 0: return k
    raise XErr('unbalanced %s' % op)

def find_scope(text, header_re, nth=0):
    """body (between braces) of the nth definition whose header matches header_re; also the header text"""
    ms = list(re.finditer(header_re, text, flags=re.S))
    if len(ms) <= nth: raise XErr('scope not found: %s (#%d)' % (header_re, nth))
    m = ms[nth]
    i = text.index('{', m.end() - 1) if text[m.end() - 1] != '{' else m.end() - 1
    j = match_close(text, i)
    # template header preceding the match (for enable_if conditions)
    return text[i + 1:j], text[max(0, m.start() - 1200):m.start()] + m.group(0)

def nospace(t): return re.sub(r'\s+', '', t)
def B(x): return 'true' if x else 'false'

def pp_defines(text, predefined):
    """run the conditional-compilation directives of `text`, tracking #define / #undef of active regions; returns the set of defined names"""
    D = set(predefined); stack = []
    def ev(e):
        e = re.sub(r'defined\s*\(\s*(\w+)\s*\)', lambda k: ' 1 ' if k.group(1) in D else ' 0 ', e)
        e = re.sub(r'defined\s+(\w+)', lambda k: ' 1 ' if k.group(1) in D else ' 0 ', e)
        e = re.sub(r'\b[A-Za-z_]\w*\b', lambda k: '1' if k.group(0) in D else '0', e)
        e = e.replace('&&', ' and ').replace('||', ' or ').replace('!=', ' <> ').replace('!', ' not ').replace('<>', '!=')
        if not re.fullmatch(r'[\s\d()=!<>a-z]*', e): raise XErr('unsupported preprocessor condition: ' + e)
        return bool(eval(e))
    for line in text.split('\n'):
        t = line.strip()
        if not t.startswith('#'): continue
        m = re.match(r'#\s*(ifdef|ifndef|if|elif|else|endif|define|undef)\b(.*)', t)
        if not m: continue
        d, rest = m.group(1), m.group(2).strip()
        active = all(x[0] for x in stack)
        if d == 'ifdef': stack.append([active and rest.split()[0] in D, False])
        elif d == 'ifndef': stack.append([active and rest.split()[0] not in D, False])
        elif d == 'if': stack.append([active and ev(rest), False])
        elif d == 'elif':
            prev = stack[-1][0] or stack[-1][1]; outer = all(x[0] for x in stack[:-1]); stack[-1] = [outer and (not prev) and ev(rest), prev]
        elif d == 'else':
            prev = stack[-1][0] or stack[-1][1]; outer = all(x[0] for x in stack[:-1]); stack[-1] = [outer and not prev, True]
        elif d == 'endif': stack.pop()
        elif d == 'define' and active: D.add(re.match(r'\w+', rest).group(0))
        elif d == 'undef' and active: D.discard(rest.split()[0])
    return D

def preprocess(body, defined):
    """minimal conditional compilation: #if defined(A) || defined(B) / #ifdef / #ifndef / #else / #endif"""
    out = []; stack = []
    for line in body.split('\n'):
        s = line.strip()
        if s.startswith('#'):
            m = re.match(r'#\s*(ifdef|ifndef|if|elif|else|endif)\b(.*)', s)
            if not m: continue
            d, rest = m.group(1), m.group(2).strip()
            def ev(e):
                e = re.sub(r'defined\s*\(\s*(\w+)\s*\)', lambda k: ' 1 ' if k.group(1) in defined else ' 0 ', e)
                e = re.sub(r'defined\s+(\w+)', lambda k: ' 1 ' if k.group(1) in defined else ' 0 ', e)
                # a bare macro name evaluates to 1 when it is in `defined`, to 0 otherwise (as an undefined identifier does in #if)
                e = re.sub(r'\b[A-Za-z_]\w*\b', lambda k: '1' if k.group(0) in defined else '0', e)
                e = e.replace('&&', ' and ').replace('||', ' or ').replace('!=', ' <> ').replace('!', ' not ').replace('<>', '!=')
                if not re.fullmatch(r'[\s\d()=!<>a-z]*', e): raise XErr('unsupported preprocessor condition: ' + rest)
                try: return bool(eval(e))
                except Exception: raise XErr('unsupported preprocessor condition: ' + rest)
            if d == 'ifdef': stack.append([rest in defined, False])
            elif d == 'ifndef': stack.append([rest not in defined, False])
            elif d == 'if': stack.append([ev(rest), False])
            elif d == 'elif':
                prev = stack[-1][0] or stack[-1][1]; stack[-1] = [(not prev) and ev(rest), prev]
            elif d == 'else':
                prev = stack[-1][0] or stack[-1][1]; stack[-1] = [not prev, True]
            elif d == 'endif': stack.pop()
            continue
        if all(s_[0] for s_ in stack): out.append(line)
    return '\n'.join(out)

# ----------------------------------------------------------------------------------------------------
# expression parser (precedence climbing) -> AST tuples
TOK = re.compile(r'\s*(?:(\d+)(?:[uU]?[lL]{0,2})|([A-Za-z_][A-Za-z_0-9]*(?:::[A-Za-z_][A-Za-z_0-9]*)*)|(\|\||&&|==|!=|<=|>=|[-+*/%<>!?:(),]))')

def tokenize(s):
    toks = []; i = 0; s = s.strip()
    while i < len(s):
        m = TOK.match(s, i)
        if not m or m.end() == i: raise XErr('cannot tokenise: %r' % s[i:i + 40])
        if m.group(1) is not None: toks.append(('num', int(m.group(1))))
        elif m.group(2) is not None: toks.append(('id', m.group(2)))
        else: toks.append(('op', m.group(3)))
        i = m.end()
        while i < len(s) and s[i].isspace(): i += 1
    return toks

BINPREC = {'||': 1, '&&': 2, '==': 3, '!=': 3, '<': 4, '<=': 4, '>': 4, '>=': 4, '+': 5, '-': 5, '*': 6, '/': 6, '%': 6}

class Parser:
    def __init__(self, toks): self.t = toks; self.i = 0
    def peek(self): return self.t[self.i] if self.i < len(self.t) else ('eof', None)
    def eat(self, kind=None, val=None):
        k, v = self.peek()
        if (kind and k != kind) or (val is not None and v != val): raise XErr('expected %s %s, got %s %s' % (kind, val, k, v))
        self.i += 1; return v
    def parse(self):
        e = self.ternary()
        if self.peek()[0] != 'eof': raise XErr('trailing tokens: %s' % (self.t[self.i:self.i + 5],))
        return e
    def ternary(self):
        c = self.binary(1)
        if self.peek() == ('op', '?'):
            self.eat(); a = self.ternary(); self.eat('op', ':'); b = self.ternary()
            return ('ite', c, a, b)
        return c
    def binary(self, p):
        l = self.unary()
        while True:
            k, v = self.peek()
            if k == 'op' and v in BINPREC and BINPREC[v] >= p:
                self.eat(); r = self.binary(BINPREC[v] + 1); l = ('bin', v, l, r)
            else: return l
    def unary(self):
        k, v = self.peek()
        if k == 'op' and v == '!': self.eat(); return ('not', self.unary())
        if k == 'op' and v == '-': self.eat(); return ('neg', self.unary())
        if k == 'op' and v == '(':
            self.eat(); e = self.ternary(); self.eat('op', ')'); return e
        if k == 'num': self.eat(); return ('num', v)
        if k == 'id':
            self.eat()
            if self.peek() == ('op', '('):
                self.eat(); args = []
                if self.peek() != ('op', ')'):
                    args.append(self.ternary())
                    while self.peek() == ('op', ','): self.eat(); args.append(self.ternary())
                self.eat('op', ')'); return ('call', v, args)
            return ('id', v)
        raise XErr('unexpected token %s %s' % (k, v))

# ----------------------------------------------------------------------------------------------------
# emission.  env: identifier -> (gallina term, sort) with sort in {'n','b'}; arith in 'nat' or 'Z'
class Emit:
    def __init__(self, arith, env):
        self.arith, self.env = arith, env
    def num(self, v): return str(v) if self.arith == 'nat' else ('%d' % v if v >= 0 else '(%d)' % v)
    def go(self, e):
        """returns (term, sort)"""
        k = e[0]
        if k == 'num': return self.num(e[1]), 'n'
        if k == 'id':
            if e[1] in ('true', 'false'): return e[1], 'b'
            if e[1] not in self.env: raise XErr('unknown identifier: ' + e[1])
            return self.env[e[1]]
        if k == 'not': return 'negb %s' % self.b(e[1]), 'b'
        if k == 'neg':
            if self.arith != 'Z': raise XErr('unary minus in a size_t expression')
            return '(- %s)' % self.n(e[1]), 'n'
        if k == 'ite':
            a, sa = self.go(e[2]); b, sb = self.go(e[3])
            if sa != sb: raise XErr('branches of ?: have different sorts')
            return '(if %s then %s else %s)' % (self.b(e[1]), a, b), sa
        if k == 'call':
            f = e[1].split('::')[-1]
            if f in ('min_', 'max_', 'min', 'max') and len(e[2]) == 2:
                fn = {'nat': {'min': 'Nat.min', 'max': 'Nat.max'}, 'Z': {'min': 'Z.min', 'max': 'Z.max'}}[self.arith][f.strip('_')]
                return '(%s %s %s)' % (fn, self.n(e[2][0]), self.n(e[2][1])), 'n'
            raise XErr('unknown function: ' + e[1])
        if k == 'bin':
            op = e[1]
            if op in ('||', '&&'):
                return '(%s %s %s)' % (self.b(e[2]), op, self.b(e[3])), 'b'
            if op in ('==', '!='):
                a, sa = self.go(e[2]); b, sb = self.go(e[3])
                if sa != sb: raise XErr('comparison of different sorts')
                t = '(%s =? %s)' % (a, b) if sa == 'n' else '(Bool.eqb %s %s)' % (a, b)
                return (t if op == '==' else '(negb %s)' % t), 'b'
            if op in ('<', '<=', '>', '>='):
                a, b = self.n(e[2]), self.n(e[3])
                if op == '<': return '(%s <? %s)' % (a, b), 'b'
                if op == '<=': return '(%s <=? %s)' % (a, b), 'b'
                if op == '>': return '(%s <? %s)' % (b, a), 'b'
                return '(%s <=? %s)' % (b, a), 'b'
            a, b = self.n(e[2]), self.n(e[3])
            if op in ('+', '*', '-'): return '(%s %s %s)' % (a, op, b), 'n'
            if op == '/': return ('(%s / %s)' % (a, b) if self.arith == 'nat' else '(Z.quot %s %s)' % (a, b)), 'n'
            if op == '%': return ('(%s mod %s)' % (a, b) if self.arith == 'nat' else '(Z.rem %s %s)' % (a, b)), 'n'
        raise XErr('cannot emit %r' % (e,))
    def n(self, e):
        t, s = self.go(e)
        if s != 'n': raise XErr('number expected: %s' % t)
        return t
    def b(self, e):
        t, s = self.go(e)
        if s == 'n': return '(negb (%s =? 0))' % t
        return t

def apply_atoms(expr, atoms):
    """replace every listed atom (regex -> (gallina, sort)) by a fresh identifier; returns (expr, env additions)"""
    env = {}
    for n, (pat, term, sort) in enumerate(atoms):
        def rep(m, n=n, term=term, sort=sort):
            name = 'ATOM%d_%d' % (n, len(env)); env[name] = (m.expand(term), sort); return ' ' + name + ' '
        expr = re.sub(pat, rep, expr)
    return expr, env

def translate(expr, arith, env, atoms=()):
    expr = ' '.join(expr.split())
    expr, aenv = apply_atoms(expr, atoms)
    e = Parser(tokenize(expr)).parse()
    full = dict(env); full.update(aenv)
    return Emit(arith, full).go(e)

# ----------------------------------------------------------------------------------------------------
# target kinds
def decls_of(body, only_constexpr=False):
    """ordered (name, expr) of `[static] constexpr T name = expr;` (and, unless only_constexpr, `const T name = expr;` /
    `int name = expr;`) in a body"""
    out = []
    q = r'(?:constexpr)' if only_constexpr else r'(?:constexpr|const)?'
    for m in re.finditer(r'(?:static\s+)?' + q + r'\s*(?:size_t|int|bool|T)\s+(\w+)\s*=\s*([^;{}]+);', body):
        out.append((m.group(1), m.group(2)))
    return out

def loops_of(body):
    """counted loops in source order with nesting depth: (depth, var, init or None, bound, step)"""
    out = []
    for m in re.finditer(r'\bfor\s*\(', body):
        j = match_close(body, m.end() - 1, '(', ')')
        hdr = body[m.end():j]; parts = hdr.split(';')
        if len(parts) != 3: raise XErr('loop header: ' + hdr)
        init, cond, inc = [p.strip() for p in parts]
        mc = re.fullmatch(r'(\w+)\s*<\s*(.+)', cond)
        if not mc: raise XErr('loop condition: ' + cond)
        var = mc.group(1)
        mi = re.fullmatch(r'(?:size_t|int)\s+%s\s*=\s*(.+)' % var, init) if init else None
        if init and not mi: raise XErr('loop init: ' + init)
        if re.fullmatch(r'\+\+\s*%s|%s\s*\+\+' % (var, var), inc): step = '1'
        else:
            ms = re.fullmatch(r'%s\s*\+=\s*(.+)' % var, inc)
            if not ms: raise XErr('loop increment: ' + inc)
            step = ms.group(1)
        depth = body[:m.start()].count('{') - body[:m.start()].count('}')
        out.append((depth, var, mi.group(1) if mi else None, mc.group(2), step, m.start()))
    return out

def calls_of(body, callee_re):
    """call sites `callee<targs>(` in source order: (name, [template args], position)"""
    out = []
    for m in re.finditer(r'\b(%s)\s*<' % callee_re, body):
        j = match_close(body, m.end() - 1, '<', '>')
        targs = [a.strip() for a in split_top(body[m.end():j])]
        out.append((m.group(1), targs, m.start()))
    return out

def split_top(s):
    out = []; d = 0; cur = ''
    for ch in s:
        if ch in '<(': d += 1
        elif ch in '>)': d -= 1
        if ch == ',' and d == 0: out.append(cur); cur = ''
        else: cur += ch
    if cur.strip(): out.append(cur)
    return out

def ladder_of(body):
    """`[else] FASTOR_IF_CONSTEXPR (cond) { ... }` chain at the top level of a function body, then the trailing
    else-block: [(cond text or None, block text)]"""
    out = []; pos = 0
    for m in re.finditer(r'(else\s+)?FASTOR_IF_CONSTEXPR\s*\(', body):
        depth = body[:m.start()].count('{') - body[:m.start()].count('}')
        if depth != 0: continue
        j = match_close(body, m.end() - 1, '(', ')')
        cond = body[m.end():j]
        k = body.index('{', j); k2 = match_close(body, k)
        out.append((cond, body[k + 1:k2])); pos = k2 + 1
    m = re.match(r'\s*else\s*\{', body[pos:])
    if m:
        k = pos + m.end() - 1; k2 = match_close(body, k)
        out.append((None, body[k + 1:k2]))
    return out

# ----------------------------------------------------------------------------------------------------
class Gen:
    def __init__(self, repo):
        self.repo = repo; self.defs = []; self.failed = []; self.srcs = {}
    def src(self, rel):
        if rel not in self.srcs:
            self.srcs[rel] = strip_comments(open(os.path.join(self.repo, 'Fastor', rel)).read())
        return self.srcs[rel]
    def define(self, name, binders, rtype, fn, origin):
        """fn() returns the Gallina body; failures are recorded and the definition left out"""
        try:
            body = fn()
            if rtype.replace('(', '').startswith('Z'): body = '(' + body + ')%Z'
            self.defs.append('(* %s *)\nDefinition %s %s : %s :=\n  %s.\n' % (origin.replace('*)', '* )').replace('(*', '( *'), name, binders, rtype, body))
        except (XErr, ValueError, AssertionError, IndexError) as ex:
            self.failed.append((name, origin, str(ex)))
            self.defs.append('(* %s : NOT TRANSLATED: %s *)\n' % (name, str(ex).replace('*)', '* )')))
    def text(self):
        hdr = ('(** GENERATED by lib/cxx2v.py from the C++ source of /repo on every run -- do not edit.\n'
               '    Each definition is the translation of the named declaration; Proofs/GenEq.v proves it equal to\n'
               '    the hand-written model. *)\n'
               'From Coq Require Import Arith ZArith List Bool.\n'
               'From FastorV Require Import Base.Tiling Model.Cfg Model.Matmul.\n'
               'Import ListNotations.\n\n')
        return hdr + '\n'.join(self.defs)

def let_chain(decls, arith, env, atoms, wanted):
    """translate ordered declarations into nested lets; returns the body whose value is `wanted` (a gallina term over names)"""
    env = dict(env); lets = []
    for name, expr in decls:
        t, s = translate(expr, arith, env, atoms)
        g = 'v_' + name
        lets.append('let %s := %s in' % (g, t)); env[name] = (g, s)
    return lets, env

# ----------------------------------------------------------------------------------------------------
def gen_all(repo):
    G = Gen(repo)
    NAT = 'nat'
    # ---- tmatmul.h: find_kfirst / find_klast ------------------------------------------------------
    tag_atoms = [(r'is_same_v_\s*<\s*LhsType\s*,\s*UpLoType::(\w+)\s*>', r'(tl =? t\1)', 'b'),
                 (r'is_same_v_\s*<\s*RhsType\s*,\s*UpLoType::(\w+)\s*>', r'(tr =? t\1)', 'b')]
    def fix_tags(t): return t.replace('tLower', '1').replace('tUpper', '2').replace('tGeneral', '0')
    def single_return(rel, header, env, arith, atoms, post=lambda t: t, nth=0):
        def fn():
            body, _ = find_scope(G.src(rel), header, nth)
            stmts = [s.strip() for s in body.split(';') if s.strip()]
            lets = []; e = dict(env)
            for s in stmts[:-1]:
                m = re.fullmatch(r'(?:const\s+)?(?:int|size_t|T)\s+(\w+)\s*=\s*(.+)', s, flags=re.S)
                if not m: raise XErr('unsupported statement: ' + s[:60])
                t, so = translate(m.group(2), arith, e, atoms)
                lets.append('let v_%s := %s in' % (m.group(1), t)); e[m.group(1)] = ('v_' + m.group(1), so)
            m = re.fullmatch(r'return\s+(.+)', stmts[-1], flags=re.S)
            if not m: raise XErr('no single return: ' + stmts[-1][:60])
            t, _ = translate(m.group(1), arith, e, atoms)
            return post(NL.join(lets + [t]))
        return fn
    envk = {'i': ('i', 'n'), 'j': ('j', 'n'), 'K': ('K', 'n'), 'unrollOuterloop': ('R', 'n'), 'unrollInnerloop': ('C', 'n')}
    G.define('gen_find_kfirst', '(tl tr i j : nat)', 'nat',
             single_return('backend/matmul/tmatmul.h', r'constexpr\s+FASTOR_INLINE\s+T\s+find_kfirst\s*\([^)]*\)\s*\{', envk, NAT, tag_atoms, fix_tags),
             'backend/matmul/tmatmul.h: find_kfirst')
    G.define('gen_find_klast', '(tl tr K R C i j : nat)', 'nat',
             single_return('backend/matmul/tmatmul.h', r'constexpr\s+FASTOR_INLINE\s+T\s+find_klast\s*\([^)]*\)\s*\{', envk, NAT, tag_atoms, fix_tags),
             'backend/matmul/tmatmul.h: find_klast')

    # ---- matmul.h: the enable_if of the generic overload and the dispatch ladder -------------------
    ty_atoms = [(r'is_same_v_\s*<\s*T\s*,\s*float\s*>', r'(is_fp t && negb (cplx t) && (tbytes t =? 4))', 'b'),
                (r'is_same_v_\s*<\s*T\s*,\s*double\s*>', r'(is_fp t && negb (cplx t) && (tbytes t =? 8))', 'b'),
                (r'is_primitive_v_\s*<\s*T\s*>', r'(negb (cplx t))', 'b'),
                (r'V::Size', r'W', 'n')]
    envm = {'M': ('M', 'n'), 'K': ('K', 'n'), 'N': ('N', 'n')}
    KMAP = {'_matmul_base_non_primitive': 'KNaive', '_matvecmul': 'KMatVec', '_matmul_mk_smalln': 'KSmallN',
            '_matmul_base': 'KBase', '_matmul_base_masked': 'KBaseMasked'}
    mm_hdr = r'void\s+_matmul\s*\(const\s+T\s*\*\s*FASTOR_RESTRICT\s+a[^)]*\)\s*\{'
    def gen_generic_guard():
        _, hdr = find_scope(G.src('backend/matmul/matmul.h'), mm_hdr, 0)
        hdr = preprocess(hdr[hdr.rindex('#if !defined(FASTOR_USE_LIBXSMM)'):], set())
        m = re.search(r'enable_if_t_\s*<', hdr)
        j = match_close(hdr, m.end() - 1, '<', '>')
        cond = split_top(hdr[m.end():j])[0]
        t, _ = translate(cond, NAT, envm, ty_atoms)
        return t
    G.define('gen_matmul_generic', '(t : ety) (M K N : nat)', 'bool', gen_generic_guard,
             'backend/matmul/matmul.h: enable_if condition of the generic _matmul overload')
    def gen_ladder(masks):
        def fn():
            body, _ = find_scope(G.src('backend/matmul/matmul.h'), mm_hdr, 0)
            body = preprocess(body, {'FASTOR_AVX2_IMPL'} if masks else set())
            lad = ladder_of(body)
            if not lad or lad[-1][0] is not None: raise XErr('ladder without a final else')
            out = ''
            for cond, blk in lad:
                cs = calls_of(blk, r'internal::_\w+')
                if cond is None:
                    if cs: raise XErr('final block calls a kernel')
                    out += 'KTiny'; break
                if len(cs) != 1 or cs[0][0].split('::')[-1] not in KMAP or 'return' not in blk:
                    raise XErr('ladder block is not `kernel; return;`')
                name, targs, _ = cs[0]
                want = {'_matvecmul': ['T', 'M', 'K']}.get(name.split('::')[-1], ['T', 'M', 'K', 'N'])
                if targs != want: raise XErr('kernel called with other template arguments: %s<%s>' % (name, ','.join(targs)))
                t, _ = translate(cond, NAT, envm, ty_atoms)
                out += 'if %s then %s\n  else ' % (t, KMAP[name.split('::')[-1]])
            return out
        return fn
    G.define('gen_ladder_masks', '(t : ety) (W M K N : nat)', 'kernel', gen_ladder(True),
             'backend/matmul/matmul.h: _matmul ladder with FASTOR_AVX2_IMPL || FASTOR_HAS_AVX512_MASKS')
    G.define('gen_ladder_nomasks', '(t : ety) (W M K N : nat)', 'kernel', gen_ladder(False),
             'backend/matmul/matmul.h: _matmul ladder without mask support')

    # ---- matmul_kernels.h / tmatmul.h: block constants, loop skeleton, kernel template arguments -----
    envb = {'M': ('M', 'n'), 'K': ('K', 'n'), 'N': ('N', 'n'),
            'FASTOR_MATMUL_OUTER_BLOCK_SIZE': ('ob', 'n'), 'FASTOR_MATMUL_INNER_BLOCK_SIZE': ('ib', 'n')}
    vatoms = [(r'V::Size', r'W', 'n')]
    def block_fn(rel, header, what, callee_re):
        """what: 'consts' -> tuple of the block constants; 'loops' -> list of (depth, start?, bound, step); 'calls' -> template args"""
        def variant(defined):
            body, _ = find_scope(G.src(rel), header, 0)
            body = preprocess(body, defined)
            lets, env = let_chain(decls_of(body, True), NAT, envb, vatoms, None)
            if what == 'consts':
                names = ['unrollOuterloop', 'numSIMDRows', 'numSIMDCols', 'unrollOuterBlock', 'M0', 'unrollInnerBlock', 'N0', 'N1', 'M1']
                return NL.join(lets) + NL + '[' + '; '.join(env[n][0] for n in names) + ']'
            if what == 'loops':
                # loops over i and j only (block origins); inner k / n / ii loops belong to the kernels
                items = []
                for depth, var, init, bound, step, _ in loops_of(body):
                    if var not in ('i', 'j'): continue
                    b, _ = translate(bound, NAT, env, vatoms); s, _ = translate(step, NAT, env, vatoms)
                    items.append('(%d, %s, %s)' % (0 if var == 'i' else 1, b, s))
                return NL.join(lets) + NL + '[' + '; '.join(items) + ']'
            if what == 'calls':
                items = []
                for name, targs, _ in calls_of(body, callee_re + r'|find_kfirst|find_klast'):
                    if name in ('find_kfirst', 'find_klast'):
                        # k-range computed inline in the driver: <size_t,K,rows,cols[,LhsType,RhsType]>
                        if targs[:2] != ['size_t', 'K'] or targs[4:] not in ([], ['LhsType', 'RhsType']): raise XErr('inline k-range call: %s' % targs)
                        ts = [translate(x, NAT, env, vatoms)[0] for x in targs[2:4]]
                        items.append('(%d, %s, %s, 0, %s)' % (3 if name == 'find_kfirst' else 4, ts[0], ts[1], 'true' if targs[4:] else 'false'))
                        continue
                    if targs[0] != 'T': raise XErr('kernel call without T: ' + name)
                    rest = targs[1:]
                    if rest and rest[0].startswith('decltype'): rest = rest[1:]      # MaskT of the AVX-512 masked kernel
                    if rest[:4] != ['V', 'M', 'K', 'N']: raise XErr('kernel call with other leading arguments: %s' % targs)
                    nums = rest[4:7]; tags = rest[7:]
                    if tags not in ([], ['LhsType', 'RhsType']): raise XErr('unexpected tag arguments: %s' % tags)
                    kind = {'interior_block_matmul_impl': 0, 'interior_block_matmul_scalar_impl': 1, 'interior_block_matmul_mask_impl': 2,
                            'interior_block_tmatmul_impl': 0, 'interior_block_tmatmul_scalar_impl': 1, 'interior_block_tmatmul_mask_impl': 2}[name]
                    ts = [translate(x, NAT, env, vatoms)[0] for x in nums]
                    if tags and 'tmatmul' not in name: raise XErr('tags passed to a kernel that takes none')
                    items.append('(%d, %s, %s, %s, %s)' % (kind, ts[0], ts[1], ts[2], 'true' if tags else 'false'))
                return NL.join(lets) + NL + '[' + '; '.join(items) + ']'
        def fn():
            a = variant(set()); b = variant({'FASTOR_MATMUL_OUTER_BLOCK_SIZE'}); c = variant({'FASTOR_MATMUL_INNER_BLOCK_SIZE'})
            d = variant({'FASTOR_MATMUL_OUTER_BLOCK_SIZE', 'FASTOR_MATMUL_INNER_BLOCK_SIZE'})
            return ('if (ob =? 0) && (ib =? 0) then\n    %s\n  else if (ib =? 0) then\n    %s\n  else if (ob =? 0) then\n    %s\n  else\n    %s' % (a, b, c, d))
        return fn
    for short, rel, hdr, cre in [
        ('mmbase', 'backend/matmul/matmul_kernels.h', r'void\s+_matmul_base\s*\(const[^)]*\)\s*\{', r'interior_block_matmul\w*_impl'),
        ('mmbase_masked', 'backend/matmul/matmul_kernels.h', r'void\s+_matmul_base_masked\s*\(const[^)]*\)\s*\{', r'interior_block_matmul\w*_impl'),
        ('tmbase', 'backend/matmul/tmatmul.h', r'void\s+_tmatmul_base\s*\(const[^)]*\)\s*\{', r'interior_block_t?matmul\w*_impl'),
        ('tmbase_masked', 'backend/matmul/tmatmul.h', r'void\s+_tmatmul_base_masked\s*\(const[^)]*\)\s*\{', r'interior_block_t?matmul\w*_impl')]:
        G.define('gen_%s_consts' % short, '(ob ib W M K N : nat)', 'list nat', block_fn(rel, hdr, 'consts', cre),
                 '%s: %s, constexpr block constants [unrollOuterloop; numSIMDRows; numSIMDCols; unrollOuterBlock; M0; unrollInnerBlock; N0; N1; M1]' % (rel, short))
        G.define('gen_%s_loops' % short, '(ob ib W M K N : nat)', 'list (nat * nat * nat)', block_fn(rel, hdr, 'loops', cre),
                 '%s: %s, counted loops over block origins in source order (0 = i / 1 = j, bound, step)' % (rel, short))
        G.define('gen_%s_calls' % short, '(ob ib W M K N : nat)', 'list (nat * nat * nat * nat * bool)', block_fn(rel, hdr, 'calls', cre),
                 '%s: %s, kernel call sites in source order (0 vector / 1 scalar / 2 masked, unrollOuterloop, numSIMDRows, numSIMDCols, tags passed)' % (rel, short))

    # ---- matmul_mk_smalln.h: which overload serves which N, and its row unrolling
    def smalln():
        txt = G.src('backend/matmul/matmul_mk_smalln.h')
        items = []
        for m in re.finditer(r'void\s+_matmul_mk_smalln\s*\(', txt):
            head = txt[max(0, m.start() - 700):m.start()]
            head = head[head.rfind('template'):]
            mc = re.search(r'enable_if(?:_t_)?\s*<(.*),\s*bool\s*>', head, flags=re.S)
            if not mc: raise XErr('no enable_if before _matmul_mk_smalln')
            cond = ' '.join(mc.group(1).split())
            cond = re.sub(r'(?:internal::)?choose_best_simd_type\s*<\s*SIMDVector<T,DEFAULT_ABI>\s*,\s*N\s*>::type::Size', 'W', cond)
            cond = re.sub(r'is_less\s*<\s*N\s*,\s*([^>]+)>::value', r'(N < (\1))', cond)
            cond = re.sub(r'is_greater\s*<\s*N\s*,\s*([^>]+)>::value', r'(N > (\1))', cond)
            ct, so = translate(cond, NAT, {'N': ('N', 'n'), 'W': ('W', 'n')}, ())
            i = txt.index('{', m.end()); j = match_close(txt, i); body = txt[i + 1:j]
            ds = dict(decls_of(body, True))
            if 'unrollOuterloop' not in ds:
                items.append('(%s, (0, 0))' % ct); continue         # the overload for N > 5*V::Size forwards to the base kernel
            lets, env = let_chain([(n_, ds[n_]) for n_ in ('unrollOuterloop', 'M0')], NAT, {'M': ('M', 'n')}, (), None)
            items.append('(%s, (%s (v_unrollOuterloop, v_M0)))' % (ct, ' '.join(lets)))
        return '[' + (';' + NL).join(items) + ']'
    G.define('gen_smalln_overloads', '(W M N : nat)', 'list (bool * (nat * nat))', smalln,
             'backend/matmul/matmul_mk_smalln.h: the overloads of _matmul_mk_smalln in source order: (enable_if condition on N and the vector width, (rows unrolled, M0))')
    # ---- Ranges.h ----------------------------------------------------------------------------------
    envr = {'first': ('f', 'n'), 'last': ('l', 'n'), 'step': ('s', 'n'), '_first': ('f', 'n'), '_last': ('l', 'n'), '_step': ('s', 'n'),
            'F': ('f', 'n'), 'L': ('l', 'n'), 'S': ('s', 'n'), 'N': ('n', 'n')}
    def struct_consts(rel, header, names, env, arith, atoms=(), nth=0):
        def fn():
            body, _ = find_scope(G.src(rel), header, nth)
            ds = [d for d in decls_of(body)]
            lets, e = let_chain(ds, arith, env, atoms, None)
            missing = [n for n in names if n not in e]
            if missing: raise XErr('declaration not found: %s' % missing)
            val = e[names[0]][0] if len(names) == 1 else '(' + ', '.join(e[n][0] for n in names) + ')'
            return NL.join(lets) + NL + val
        return fn
    G.define('gen_range_detector', '(f l s : Z)', 'Z',
             struct_consts('tensor/Ranges.h', r'struct\s+range_detector\s*\{', ['value'], envr, 'Z'), 'tensor/Ranges.h: range_detector<first,last,step>::value')
    G.define('gen_fseq_range_detector', '(f l s : Z)', 'Z',
             struct_consts('tensor/Ranges.h', r'struct\s+fseq_range_detector\s*<\s*Seq<first,last,step>\s*>\s*\{', ['value'], envr, 'Z'),
             'tensor/Ranges.h: internal::fseq_range_detector<Seq<first,last,step>>::value')
    G.define('gen_seq_size', '(f l s : Z)', 'Z',
             single_return('tensor/Ranges.h', r'FASTOR_INLINE\s+int\s+size\s*\(\s*\)\s*const\s*\{(?=\s*int\s+range)', envr, 'Z', ()), 'tensor/Ranges.h: seq::size()')
    G.define('gen_to_positive_fseq', '(f l s n : Z)', '(Z * Z)',
             struct_consts('tensor/Ranges.h', r'struct\s+to_positive\s*<\s*fseq<F,L,S>\s*,\s*N\s*>\s*\{', ['_first', '_last'], envr, 'Z'),
             'tensor/Ranges.h: to_positive<fseq<F,L,S>,N>::{_first,_last}')
    G.define('gen_to_positive_iseq', '(f l s n : Z)', '(Z * Z)',
             struct_consts('tensor/Ranges.h', r'struct\s+to_positive\s*<\s*iseq<F,L,S>\s*,\s*N\s*>\s*\{', ['_first', '_last'], envr, 'Z'),
             'tensor/Ranges.h: to_positive<iseq<F,L,S>,N>::{_first,_last}')

    # ---- meta/einsum_meta.h: is_vectorisable / is_reducibly_vectorisable (which vector type and stride a contraction loop uses)
    EM = 'meta/einsum_meta.h'
    iv_atoms = [(r'get_value\s*<\s*sizeof\.\.\.\(Rest\)\s*,\s*Rest\.\.\.\s*>::value', 'F', 'n'),
                (r'\(int\)\s*no_of_unique\s*<\s*Idx0\.\.\.\s*,\s*Idx1\.\.\.\s*>::value', 'nu', 'n'),
                (r'\(int\)\s*sizeof\.\.\.\(Idx0\)', 'n0', 'n'), (r'\(int\)\s*sizeof\.\.\.\(Idx1\)', 'n1', 'n'),
                (r'contains\s*\(\s*idx\s*,\s*get_value\s*<\s*sizeof\.\.\.\(Idx1\)\s*,\s*Idx1\.\.\.\s*>::value\s*\)', 'lc', 'b'),
                (r'_vec_size\s*<\s*simd_abi::sse\s*>::value', 'ws', 'n'), (r'_vec_size\s*<\s*simd_abi::avx\s*>::value', 'wa', 'n')]
    def isvec(header, ty):
        def fn():
            body, _ = find_scope(G.src(EM), header, 0)
            ds = [d for d in decls_of(body)]
            lets, e = let_chain(ds, 'Z', {}, iv_atoms, None)
            for n in ('value', 'stride', 'avx_vectorisability', 'sse_vectorisability'):
                if n not in e: raise XErr('declaration not found: ' + n)
            t = nospace(body)
            want = (r'usingtype=typenamestd::conditional<avx_vectorisability,SIMDVector<%s,simd_abi::avx>,typenamestd::conditional<sse_vectorisability,SIMDVector<%s,simd_abi::sse>,'
                    r'SIMDVector<%s,simd_abi::scalar>>::type>::type;' % (ty, ty, ty))
            if not re.search(want, t): raise XErr('`type` is not conditional<avx_vectorisability, avx vector, conditional<sse_vectorisability, sse vector, scalar vector>> of ' + ty)
            return '(' + NL.join(lets) + NL + '(%s, %s, (if %s then wa else if %s then ws else 1)))%%Z' % (e['value'][0], e['stride'][0], e['avx_vectorisability'][0], e['sse_vectorisability'][0])
        return fn
    isv = '(value, stride, lanes of the vector type `type`)'
    G.define('gen_is_vectorisable', '(F nu n0 n1 : Z) (lc : bool) (ws wa : Z)', '(bool * Z * Z)',
             isvec(r'struct\s+is_vectorisable\s*<\s*Index<Idx0\.\.\.>\s*,\s*Index<Idx1\.\.\.>\s*,\s*Tensor<T,Rest\.\.\.>\s*>\s*\{', 'T'),
             EM + ': is_vectorisable<Index<Idx0...>,Index<Idx1...>,Tensor<T,Rest...>>: ' + isv + ' from F = last extent, lc = last index of the second tensor is contracted, ws / wa = lanes of the sse / avx vector of T')
    G.define('gen_is_vectorisable_float', '(F nu n0 n1 : Z) (lc : bool) (ws wa : Z)', '(bool * Z * Z)',
             isvec(r'struct\s+is_vectorisable\s*<\s*Index<Idx0\.\.\.>\s*,\s*Index<Idx1\.\.\.>\s*,\s*Tensor<float,Rest\.\.\.>\s*>\s*\{', 'float'), EM + ': the specialisation for float (literal widths)')
    G.define('gen_is_vectorisable_double', '(F nu n0 n1 : Z) (lc : bool) (ws wa : Z)', '(bool * Z * Z)',
             isvec(r'struct\s+is_vectorisable\s*<\s*Index<Idx0\.\.\.>\s*,\s*Index<Idx1\.\.\.>\s*,\s*Tensor<double,Rest\.\.\.>\s*>\s*\{', 'double'), EM + ': the specialisation for double (literal widths)')
    G.define('gen_is_reducibly_vectorisable', '(F nu n0 n1 : Z) (lc : bool) (ws wa : Z)', '(bool * Z * Z)',
             isvec(r'struct\s+is_reducibly_vectorisable\s*<\s*Index<Idx\.\.\.>\s*,\s*Tensor<T,Rest\.\.\.>\s*>\s*\{', 'T'), EM + ': is_reducibly_vectorisable<Index<Idx...>,Tensor<T,Rest...>>: ' + isv)

    # ---- config/config.h, config/macros.h, simd_vector_abi.h: what each compiler configuration of the harness grid selects
    ISA_FLAGS = [('scalar', ['-DFASTOR_DONT_VECTORISE']), ('sse2', ['-msse2']), ('sse42', ['-msse4.2']), ('avx', ['-mavx']), ('avx2', ['-mavx2', '-mfma']),
                 ('avx512', ['-mavx512f', '-mavx512vl', '-mavx512dq', '-mavx512bw', '-mavx2', '-mfma'])]
    def isa_table():
        import subprocess
        cfg = strip_comments(G.src('config/config.h'))
        a = cfg.find('#if defined(__MIC__)'); b = cfg.find('#define FASTOR_SCALAR_IMPL 1')
        m2 = re.search(r'#if\s+defined\(FASTOR_AVX512F_IMPL\)\s*&&\s*defined\(FASTOR_AVX512VL_IMPL\)\s*\n\s*#define\s+FASTOR_HAS_AVX512_MASKS\s+1\s*\n\s*#endif', cfg)
        if a < 0 or b < a or not m2: raise XErr('config.h: the instruction-set section / FASTOR_HAS_AVX512_MASKS not found')
        isa_sec = cfg[a:cfg.index('#endif', b) + 6] + '\n' + m2.group(0)
        mac = strip_comments(G.src('config/macros.h'))
        m3 = re.search(r'#ifndef FASTOR_MEMORY_ALIGNMENT_VALUE\n(.*?)\n#endif\n#endif', mac, flags=re.S)
        if not m3: raise XErr('macros.h: FASTOR_MEMORY_ALIGNMENT_VALUE ladder not found')
        abi = strip_comments(G.src('simd_vector/simd_vector_abi.h'))
        m4 = re.search(r'#ifndef FASTOR_DONT_VECTORISE\n.*?#endif\n#else\n.*?#endif', abi, flags=re.S)
        if not m4: raise XErr('simd_vector_abi.h: the ladder defining simd_abi::native not found')
        rows = []
        for name, flags in ISA_FLAGS:
            r = subprocess.run(['g++', '-dM', '-E', '-x', 'c++', '/dev/null'] + flags, capture_output=True, text=True)
            if r.returncode != 0: raise XErr('g++ -dM -E failed for ' + name)
            pre = set(re.findall(r'^#define (\w+)', r.stdout, flags=re.M))
            D = pp_defines(isa_sec, pre)
            al = re.findall(r'@ALIGN (\d+)', preprocess(re.sub(r'#define FASTOR_MEMORY_ALIGNMENT_VALUE (\d+)', r'@ALIGN \1', m3.group(0)), D))
            nat = re.findall(r'using native = simd_abi::(\w+);', preprocess(m4.group(0), D))
            if len(al) != 1 or len(nat) != 1: raise XErr('%s: alignment %s, native %s' % (name, al, nat))
            rows.append('(%d, %s, %s, %s)' % ({'scalar': 0, 'sse': 1, 'avx': 2, 'avx512': 3}[nat[0]], B('FASTOR_AVX2_IMPL' in D or 'FASTOR_HAS_AVX512_MASKS' in D), B('FASTOR_FMA_IMPL' in D), al[0]))
        return '[' + '; '.join(rows) + ']'
    G.define('gen_isa_table', '', 'list (nat * bool * bool * nat)', isa_table,
             'config/config.h, config/macros.h, simd_vector/simd_vector_abi.h evaluated (own preprocessor, #define tracked) from the macros g++ predefines under the flags of each '
             'configuration of the harness grid [scalar; sse2; sse42; avx; avx2; avx512]: (simd_abi::native 0 scalar 1 sse 2 avx 3 avx512, FASTOR_AVX2_IMPL || FASTOR_HAS_AVX512_MASKS, FASTOR_FMA_IMPL, FASTOR_MEMORY_ALIGNMENT_VALUE)')

    # ---- simd_vector_abi.h ---------------------------------------------------------------------------
    abi_atoms = [(r'std::is_same\s*<\s*ABI\s*,\s*simd_abi::avx512\s*>::value', r'(a =? 3)', 'b'),
                 (r'std::is_same\s*<\s*ABI\s*,\s*simd_abi::avx\s*>::value', r'(a =? 2)', 'b'),
                 (r'std::is_same\s*<\s*ABI\s*,\s*simd_abi::sse\s*>::value', r'(a =? 1)', 'b'),
                 (r'sizeof\s*\(\s*T\s*\)', r'tb', 'n'),
                 (r'FASTOR_AVX512_BITSIZE', '512', 'n'), (r'FASTOR_AVX_BITSIZE', '256', 'n'), (r'FASTOR_SSE_BITSIZE', '128', 'n'),
                 (r'get_simd_vector_size\s*<\s*__svec<T,ABI>\s*>::value', r'(simd_size a tb)', 'n')]
    G.define('gen_simd_vector_size', '(a tb : nat)', 'nat',
             struct_consts('simd_vector/simd_vector_abi.h', r'struct\s+get_simd_vector_size\s*<\s*__svec<T,ABI>\s*>\s*\{', ['value'], {}, NAT, abi_atoms),
             'simd_vector/simd_vector_abi.h: get_simd_vector_size<SIMDVector<T,ABI>>::value')
    G.define('gen_exact_multiple', '(a tb N : nat)', '(nat * bool * bool * bool * bool)',
             struct_consts('simd_vector/simd_vector_abi.h', r'struct\s+is_exact_multiple_of_smaller_simd\s*<\s*__svec<T,ABI>\s*,\s*N\s*>\s*\{',
                           ['which', 'value', 'is_half_of_avx512', 'is_half_of_avx', 'is_4th_of_avx512'], {'N': ('N', 'n')}, NAT, abi_atoms),
             'simd_vector/simd_vector_abi.h: is_exact_multiple_of_smaller_simd<SIMDVector<T,ABI>,N>::{which,value,is_half_of_avx512,is_half_of_avx,is_4th_of_avx512}')
    return G

# ----------------------------------------------------------------------------------------------------
# straight-line scalar code (closed-form inverse / adjoint / cofactor / determinant kernels) -> Gallina over a Scalar
SL_TOK = re.compile(r'\s*(?:(\d+\.\d*|\d+)|([A-Za-z_][A-Za-z_0-9]*)|(\+=|-=|\*=|/=|[-+*/()\[\]=]))')
def sl_tokens(s):
    out = []; i = 0; s = s.strip()
    while i < len(s):
        m = SL_TOK.match(s, i)
        if not m or m.end() == i: raise XErr('straight-line code: cannot tokenise %r' % s[i:i + 30])
        out.append(('num', m.group(1)) if m.group(1) is not None else ('id', m.group(2)) if m.group(2) is not None else ('op', m.group(3)))
        i = m.end()
        while i < len(s) and s[i].isspace(): i += 1
    return out

class SLParser:
    """scalar expressions over variables, src[k] / dst[k] reads, T(1) literals; emits (sadd S ..) terms"""
    def __init__(self, toks, scal, arrays, ienv):
        self.t, self.i, self.scal, self.arrays, self.ienv = toks, 0, scal, arrays, ienv
    def peek(self): return self.t[self.i] if self.i < len(self.t) else ('eof', None)
    def eat(self, k=None, v=None):
        a, b = self.peek()
        if (k and a != k) or (v is not None and b != v): raise XErr('straight-line code: expected %s %s got %s %s' % (k, v, a, b))
        self.i += 1; return b
    def index(self):
        """constant integer expression up to the closing bracket"""
        txt = ''
        while self.peek() != ('op', ']'):
            k, v = self.peek()
            if k == 'eof': raise XErr('unterminated index')
            if k == 'id':
                if v not in self.ienv: raise XErr('non-constant index: ' + v)
                v = str(self.ienv[v])
            txt += v; self.i += 1
        if not re.fullmatch(r'[\d+*() -]+', txt): raise XErr('non-constant index: ' + txt)
        return int(eval(txt))
    def expr(self):
        l = self.term()
        while self.peek() in (('op', '+'), ('op', '-')):
            op = self.eat(); r = self.term()
            l = '(%s S %s %s)' % ('sadd' if op == '+' else 'ssub', l, r)
        return l
    def term(self):
        l = self.unary()
        while self.peek() in (('op', '*'), ('op', '/')):
            op = self.eat(); r = self.unary()
            l = '(%s S %s %s)' % ('smul' if op == '*' else 'sdiv', l, r)
        return l
    def unary(self):
        if self.peek() == ('op', '+'): self.eat(); return self.unary()
        if self.peek() == ('op', '-'): self.eat(); return '(sneg S %s)' % self.unary()
        return self.primary()
    def primary(self):
        k, v = self.peek()
        if k == 'op' and v == '(':
            self.eat(); e = self.expr(); self.eat('op', ')'); return e
        if k == 'id' and v == 'T':
            self.eat(); self.eat('op', '('); n = self.eat('num'); self.eat('op', ')')
            if float(n) == 1.0: return '(s1 S)'
            if float(n) == 0.0: return '(s0 S)'
            raise XErr('literal other than 0/1: ' + n)
        if k == 'id':
            self.eat()
            if self.peek() == ('op', '['):
                self.eat(); ix = self.index(); self.eat('op', ']')
                if v not in self.arrays: raise XErr('unknown array: ' + v)
                return self.arrays[v](ix)
            if v not in self.scal: raise XErr('unknown variable: ' + v)
            return self.scal[v]
        raise XErr('straight-line code: unexpected %s %s' % (k, v))

def straightline(body, src_name, dst_name, n_out):
    """translate a function body made of scalar declarations / assignments / dst[k] (op)= e / constant-bound loops /
    return e.  Returns (lets, dst terms or None, return term or None)."""
    lets = []; scal = {}; dst = {}; cnt = [0]
    def fresh(base):
        cnt[0] += 1; return 'x%d_%s' % (cnt[0], base)
    arrays = {src_name: (lambda k: '(src %d)' % k)}
    if dst_name:
        def rd(k):
            if k not in dst: raise XErr('read of %s[%d] before it is written' % (dst_name, k))
            return dst[k]
        arrays[dst_name] = rd
    def E(txt, ienv): return SLParser(sl_tokens(txt), scal, arrays, ienv).expr()
    def bind(base, term):
        g = fresh(base); lets.append('let %s := %s in' % (g, term)); return g
    OPS = {'+=': 'sadd', '-=': 'ssub', '*=': 'smul', '/=': 'sdiv'}
    def stmt(s, ienv):
        s = s.strip()
        if not s: return None
        m = re.fullmatch(r'(?:const\s+)?T\s+(\w+)', s)
        if m: return None                                  # declaration without initialiser
        m = re.fullmatch(r'(?:const\s+)?T\s+(\w+)\s*=\s*(.+)', s, flags=re.S)
        if m: scal[m.group(1)] = bind(m.group(1), E(m.group(2), ienv)); return None
        m = re.fullmatch(r'return\s+(.+)', s, flags=re.S)
        if m: return E(m.group(1), ienv)
        m = re.fullmatch(r'(\w+)\s*\[([^\]]+)\]\s*(=|\+=|-=|\*=|/=)\s*(.+)', s, flags=re.S)
        if m and m.group(1) == dst_name:
            k = SLParser(sl_tokens(m.group(2) + ']'), scal, arrays, ienv).index()
            rhs = E(m.group(4), ienv)
            if m.group(3) != '=':
                if k not in dst: raise XErr('compound assignment to unwritten %s[%d]' % (dst_name, k))
                rhs = '(%s S %s %s)' % (OPS[m.group(3)], dst[k], rhs)
            dst[k] = bind('%s%d' % (dst_name, k), rhs); return None
        m = re.fullmatch(r'(\w+)\s*(=|\+=|-=|\*=|/=)\s*(.+)', s, flags=re.S)
        if m and (m.group(1) in scal or m.group(2) == '='):
            rhs = E(m.group(3), ienv)
            if m.group(2) != '=': rhs = '(%s S %s %s)' % (OPS[m.group(2)], scal[m.group(1)], rhs)
            scal[m.group(1)] = bind(m.group(1), rhs); return None
        raise XErr('unsupported statement: ' + s[:70])
    # unroll `for (int i=a; i<b; ++i) stmt;` with constant bounds
    ret = None; pos = 0; body = body.strip()
    while pos < len(body):
        m = re.compile(r'\s*for\s*\(\s*(?:int|size_t)\s+(\w+)\s*=\s*(\d+)\s*;\s*\1\s*<\s*(\d+)\s*;\s*(?:\+\+\1|\1\+\+)\s*\)').match(body, pos)
        if m:
            p = m.end()
            while body[p].isspace(): p += 1
            if body[p] == '{':
                q = match_close(body, p); inner = body[p + 1:q]; pos = q + 1
            else:
                q = body.index(';', p); inner = body[p:q]; pos = q + 1
            for it in range(int(m.group(2)), int(m.group(3))):
                for s1 in inner.split(';'):
                    stmt(s1, {m.group(1): it})
            continue
        q = body.find(';', pos)
        if q < 0:
            if body[pos:].strip(): raise XErr('trailing text: ' + body[pos:pos + 40])
            break
        r = stmt(body[pos:q], {}); pos = q + 1
        if r is not None: ret = r
    out = None
    if dst_name:
        missing = [k for k in range(n_out) if k not in dst]
        if missing: raise XErr('%s[%s] never written' % (dst_name, missing))
        if any(k >= n_out for k in dst): raise XErr('%s written beyond %d' % (dst_name, n_out))
        out = [dst[k] for k in range(n_out)]
    return lets, out, ret

def gen_linalg(repo):
    """closed-form kernels of backend/{inverse,adjoint,cofactor,determinant}.h (generic element type versions)"""
    G = Gen(repo)
    def kernel(rel, fname, n, kind):
        def fn():
            txt = preprocess(G.src(rel), set())       # generic versions: no FASTOR_*_IMPL macro defined
            if kind == 'det':
                hdr = r'enable_if<\s*M==%d\s*&&\s*N==%d\s*,\s*bool>::type=0>\s*FASTOR_INLINE\s+T\s+%s\s*\(const\s+T\s*\*\s*FASTOR_RESTRICT\s+(\w+)\)\s*\{' % (n, n, fname)
            else:
                hdr = r'is_equal_v_<N,%d>\s*,\s*bool>\s*=\s*false>\s*FASTOR_INLINE\s+void\s+%s\s*\(const\s+T\s*\*\s*FASTOR_RESTRICT\s+(src)\s*,\s*T\s*\*\s*FASTOR_RESTRICT\s+dst\)\s*\{' % (n, fname)
            ms = list(re.finditer(hdr, txt, flags=re.S))
            if len(ms) != 1: raise XErr('%d definitions match %s<%d>' % (len(ms), fname, n))
            m = ms[0]; i = m.end() - 1; j = match_close(txt, i); body = txt[i + 1:j]
            lets, out, ret = straightline(body, m.group(1), None if kind == 'det' else 'dst', n * n)
            if kind == 'det':
                if ret is None: raise XErr('no return')
                return NL.join(lets + [ret])
            return NL.join(lets + ['fun p => ' + ' '.join('match p with' if k == 0 else '' for k in [0])
                                   + ' ' + ' | '.join('%d => %s' % (k, t) for k, t in enumerate(out)) + ' | _ => s0 S end'])
        return fn
    for n in (2, 3, 4):
        G.define('gen_det%d' % n, '(S : Scalar) (src : nat -> S)', 'S', kernel('backend/determinant.h', '_det', n, 'det'),
                 'backend/determinant.h: _det<T,%d,%d> (generic element type)' % (n, n))
        G.define('gen_adjoint%d' % n, '(S : Scalar) (src : nat -> S)', 'nat -> S', kernel('backend/adjoint.h', '_adjoint', n, 'arr'),
                 'backend/adjoint.h: _adjoint<T,%d>' % n)
        G.define('gen_cofactor%d' % n, '(S : Scalar) (src : nat -> S)', 'nat -> S', kernel('backend/cofactor.h', '_cofactor', n, 'arr'),
                 'backend/cofactor.h: _cofactor<T,%d>' % n)
        G.define('gen_inverse%d' % n, '(S : Scalar) (src : nat -> S)', 'nat -> S', kernel('backend/inverse.h', '_inverse', n, 'arr'),
                 'backend/inverse.h: _inverse<T,%d> (generic element type)' % n)
    # ---- size classes and split points of the recursive block inversions (unary_inv_op.h)
    def splits():
        txt = G.src('expressions/linalg_ops/unary_inv_op.h')
        items = []
        for m in re.finditer(r'enable_if_t_<\s*is_greater_v_<M,(\d+)>\s*&&\s*is_less_equal_v_<M,(\d+)>\s*,\s*bool>\s*=\s*false>\s*FASTOR_INLINE\s+void\s+(\w*inverse_dispatcher)\s*\(', txt):
            i = txt.index('{', m.end()); j = match_close(txt, i); body = txt[i + 1:j]
            mn = re.search(r'constexpr\s+size_t\s+N\s*=\s*([^;]+);', body)
            if not mn:
                if int(m.group(1)) != 0: raise XErr('%s<%s..%s>: no split point' % (m.group(3), m.group(1), m.group(2)))
                continue                                    # the closed-form base class (0,4]
            t, _ = translate(mn.group(1), 'nat', {'M': ('M', 'n')}, ())
            items.append('(%d, %s, %s, %s)' % ({'inverse_dispatcher': 0, 'ut_inverse_dispatcher': 1, 'lut_inverse_dispatcher': 2}[m.group(3)], m.group(1), m.group(2), t))
        if len(items) != 18: raise XErr('%d recursive size classes (18 expected: 3 dispatchers x 6)' % len(items))
        return '[' + (';' + NL).join(items) + ']'
    G.define('gen_inverse_splits', '(M : nat)', 'list (nat * nat * nat * nat)', splits,
             'expressions/linalg_ops/unary_inv_op.h: recursive size classes of inverse_dispatcher (0), ut_inverse_dispatcher (1), lut_inverse_dispatcher (2): (dispatcher, lower bound exclusive, upper bound inclusive, split point N)')
    hdr = ('(** GENERATED by lib/cxx2v.py from the C++ source of /repo on every run -- do not edit.\n'
           '    Straight-line closed-form kernels over an arbitrary Scalar; Proofs/ClosedForms.v proves the\n'
           '    adjugate / determinant / inverse identities about these very terms. *)\n'
           'From Coq Require Import Arith List.\nFrom FastorV Require Import Base.Scalar.\nImport ListNotations.\n\n')
    return G, hdr + '\n'.join(G.defs)

# ----------------------------------------------------------------------------------------------------
# small imperative fragments (view constructors and accessors): symbolic execution into Gallina over Z
def split_stmts(body):
    """top-level statements of a block: ('if', [(cond, block)...], else_block) | ('for', header, block) | ('s', text)"""
    out = []; i = 0; n = len(body)
    def skip_ws(k):
        while k < n and body[k].isspace(): k += 1
        return k
    def one_stmt(k):
        """returns (stmt, next index) for the statement starting at k (k already at a non-space)"""
        m = re.compile(r'(if|for)\s*\(').match(body, k)
        if m:
            j = match_close(body, m.end() - 1, '(', ')'); hdr = body[m.end():j]; k2 = skip_ws(j + 1)
            if body[k2] == '{':
                e = match_close(body, k2); blk = body[k2 + 1:e]; k3 = e + 1
            else:
                e = body.index(';', k2); blk = body[k2:e + 1]; k3 = e + 1
            if m.group(1) == 'for': return ('for', hdr, blk), k3
            arms = [(hdr, blk)]; els = None
            k4 = skip_ws(k3)
            if body.startswith('else', k4) and not (body[k4 + 4:k4 + 5].isalnum() or body[k4 + 4:k4 + 5] == '_'):
                k5 = skip_ws(k4 + 4)
                if re.compile(r'if\s*\(').match(body, k5):
                    st, k6 = one_stmt(k5)
                    arms += st[1]; els = st[2]; k3 = k6
                elif body[k5] == '{':
                    e = match_close(body, k5); els = body[k5 + 1:e]; k3 = e + 1
                else:
                    e = body.index(';', k5); els = body[k5:e + 1]; k3 = e + 1
            return ('if', arms, els), k3
        e = body.find(';', k)
        if e < 0: raise XErr('statement without terminator: ' + body[k:k + 40])
        return ('s', body[k:e].strip()), e + 1
    while True:
        i = skip_ws(i)
        if i >= n: break
        st, i = one_stmt(i); out.append(st)
    return out

class Imp:
    def __init__(self, subs, env, atoms=()):
        self.subs, self.env0, self.atoms = subs, env, atoms
    def expr(self, txt, state):
        for pat, rep in self.subs: txt = re.sub(pat, rep, txt)
        env = dict(self.env0)
        for k, v in state.items():
            if not k.startswith('@'): env[k] = (v, 'n')
        return translate(txt, 'Z', env, self.atoms)
    def run(self, body, state):
        state = dict(state)
        for st in split_stmts(body):
            if st[0] == 's':
                t = st[1]
                if not t or t.startswith('SIMDVector') or t.startswith('std::array') or t.startswith('FASTOR_ASSERT'): continue
                for pat, rep in self.subs: t = re.sub(pat, rep, t)
                m = re.fullmatch(r'(?:auto|int|size_t|FASTOR_INDEX)\s+(.+)', t, flags=re.S)
                if m:
                    for d in split_top(m.group(1)):
                        mm = re.fullmatch(r'\s*(\w+)\s*=\s*(.+)', d, flags=re.S)
                        if not mm: raise XErr('declaration: ' + d)
                        state[mm.group(1)] = self.expr(mm.group(2), state)[0]
                    continue
                m = re.fullmatch(r'return\s+_expr\.data\(\)\s*\[(.+)\]', t, flags=re.S)
                if m: state['@ret'] = self.expr(m.group(1), state)[0]; continue
                m = re.fullmatch(r'return\s+_expr\s*\((.+)\)', t, flags=re.S)
                if m:
                    a = split_top(m.group(1)); state['@ret'] = '(' + ', '.join(self.expr(x, state)[0] for x in a) + ')'; continue
                m = re.fullmatch(r'inds\s*\[\s*j\s*\]\s*=\s*(.+)', t, flags=re.S)
                if m: state['@lane'] = self.expr(m.group(1), state)[0]; continue
                m = re.fullmatch(r'_vec\.load\s*\(\s*_expr\.data\(\)\s*\+(.+),\s*is_aligned\(\)\s*\)', t, flags=re.S)
                if m: state['@vec'] = '(%s, 1)' % self.expr(m.group(1), state)[0]; continue
                m = re.fullmatch(r'vector_setter\s*\(\s*_vec\s*,\s*_expr\.data\(\)\s*,(.+)\)', t, flags=re.S)
                if m:
                    a = split_top(m.group(1))
                    if len(a) == 2: state['@vec'] = '(%s, %s)' % (self.expr(a[0], state)[0], self.expr(a[1], state)[0])
                    elif len(a) == 1 and a[0].strip() == 'inds': pass
                    else: raise XErr('vector_setter arguments: ' + m.group(1))
                    continue
                if re.fullmatch(r'return\s+_vec', t): continue
                m = re.fullmatch(r'(\w+)\s*(\+=|-=|=)\s*(.+)', t, flags=re.S)
                if m and m.group(1) in state:
                    e = self.expr(m.group(3), state)[0]
                    state[m.group(1)] = e if m.group(2) == '=' else '(%s %s %s)' % (state[m.group(1)], m.group(2)[0], e)
                    continue
                raise XErr('unsupported statement: ' + t[:70])
            elif st[0] == 'for':
                if not re.match(r'\s*auto\s+j\s*=\s*0\s*;', st[1]): raise XErr('unsupported loop: ' + st[1][:50])
                inner = dict(state); inner['j'] = 'j'
                r = self.run(st[2], inner)
                if '@lane' in r: state['@lane'] = r['@lane']
            else:
                def arm(k, st_):
                    arms, els = st_
                    if k == len(arms): return self.run(els, state) if els is not None else dict(state)
                    return None
                arms, els = st[1], st[2]
                results = [self.run(b, state) for _, b in arms] + [self.run(els, state) if els is not None else dict(state)]
                conds = [self.expr(c, state) for c, _ in arms]
                conds = [t if so == 'b' else '(negb (%s =? 0))' % t for t, so in conds]
                keys = set().union(*[set(r) for r in results])
                merged = dict(state)
                for k in keys:
                    vals = [r.get(k, state.get(k)) for r in results]
                    if any(v is None for v in vals): raise XErr('%s is not set on every path' % k)
                    if all(v == vals[0] for v in vals): merged[k] = vals[0]; continue
                    t = vals[-1]
                    for c, v in zip(reversed(conds), reversed(vals[:-1])): t = '(if %s then %s else %s)' % (c, v, t)
                    merged[k] = t
                state = merged
        return state

def gen_views(repo):
    """dynamic 1-D and 2-D views (const and non-const classes): constructor normalisation and the index computations of
    eval_s(idx), eval(idx) (per lane), eval_s(i,j), eval(i,j)"""
    G = Gen(repo)
    subs1 = [(r'_seq\._first', 'f'), (r'_seq\._last', 'l'), (r'_seq\._step', 's'), (r'_seq\.size\(\)', 'sz'), (r'as\s*\[\s*0\s*\]', 'i')]
    subs2 = [(r'_seq0\._first', 'f0'), (r'_seq0\._last', 'l0'), (r'_seq0\._step', 's0'), (r'_seq0\.size\(\)', 'sz0'),
             (r'_seq1\._first', 'f1'), (r'_seq1\._last', 'l1'), (r'_seq1\._step', 's1'), (r'_seq1\.size\(\)', 'sz1'),
             (r'as\s*\[\s*0\s*\]', 'i'), (r'as\s*\[\s*1\s*\]', 'j')]
    def ids(names): return {n: (n, 'n') for n in names}
    def method(rel, cls_re, nth_cls, meth_re, subs, env, init, want):
        def fn():
            txt = preprocess(G.src(rel), {'NDEBUG'})
            cls, _ = find_scope(txt, cls_re, nth_cls)
            ms = list(re.finditer(meth_re, cls, flags=re.S))
            if not ms: raise XErr('method not found: ' + meth_re)
            m = ms[0]; i = cls.index('{', m.end() - 1); j = match_close(cls, i)
            st = Imp(subs, env).run(cls[i + 1:j], init)
            if isinstance(want, str):
                if want not in st: raise XErr('no %s computed' % want)
                return st[want]
            return '(' + ', '.join(st[w] for w in want) + ')'
        return fn
    V1 = 'expressions/views/tensor_views_1d.h'; V2 = 'expressions/views/tensor_views_2d.h'
    for tag, nth, cre1, cre2 in [('const', 0, r'struct\s+TensorConstViewExpr\s*<\s*Tensor<T,N>\s*,\s*1\s*>[^{]*\{', r'struct\s+TensorConstViewExpr\s*<\s*Tensor<T,M,N>\s*,\s*2\s*>[^{]*\{'),
                                 ('nonconst', 0, r'struct\s+TensorViewExpr\s*<\s*Tensor<T,N>\s*,\s*1\s*>[^{]*\{', r'struct\s+TensorViewExpr\s*<\s*Tensor<T,M,N>\s*,\s*2\s*>[^{]*\{')]:
        ctor1 = r'FASTOR_INLINE\s+Tensor(?:Const)?ViewExpr\s*\((?:const\s+)?Tensor<T,N>\s*&\s*_ex\s*,\s*(?:const\s+)?seq\s*&?\s*_s\)\s*:[^{]*\{'
        ctor2 = r'FASTOR_INLINE\s+Tensor(?:Const)?ViewExpr\s*\((?:const\s+)?Tensor<T,M,N>\s*&\s*_ex\s*,\s*seq\s+_s0\s*,\s*seq\s+_s1\)\s*:[^{]*\{'
        G.define('gen_view1d_norm_%s' % tag, '(f l N : Z)', '(Z * Z)', method(V1, cre1, nth, ctor1, subs1, ids(['N']), {'f': 'f', 'l': 'l'}, ['f', 'l']),
                 '%s: %s 1-D view, constructor normalisation of (_first,_last)' % (V1, tag))
        G.define('gen_view1d_evals_%s' % tag, '(f s i : Z)', 'Z', method(V1, cre1, nth, r'FASTOR_INLINE\s+U\s+eval_s\s*\(\s*FASTOR_INDEX\s+i\s*\)\s*const\s*\{', subs1, ids(['f', 's', 'i']), {}, '@ret'),
                 '%s: %s 1-D view, eval_s(i): offset into the parent' % (V1, tag))
        G.define('gen_view1d_eval_%s' % tag, '(f s i : Z)', '(Z * Z)', method(V1, cre1, nth, r'FASTOR_INLINE\s+SIMDVector<U,simd_abi_type>\s+eval\s*\(\s*FASTOR_INDEX\s+i\s*\)\s*const\s*\{', subs1, ids(['f', 's', 'i']), {}, '@vec'),
                 '%s: %s 1-D view, eval(i): (first offset, stride) of the gathered vector' % (V1, tag))
        G.define('gen_view2d_norm_%s' % tag, '(f0 l0 f1 l1 M N : Z)', '(Z * Z * Z * Z)', method(V2, cre2, nth, ctor2, subs2, ids(['M', 'N']), {'f0': 'f0', 'l0': 'l0', 'f1': 'f1', 'l1': 'l1'}, ['f0', 'l0', 'f1', 'l1']),
                 '%s: %s 2-D view, constructor normalisation of both ranges' % (V2, tag))
        e2 = ids(['f0', 's0', 'f1', 's1', 'sz0', 'sz1', 'N', 'idx', 'i', 'j'])
        G.define('gen_view2d_evals_%s' % tag, '(f0 s0 f1 s1 sz1 N idx : Z)', 'Z', method(V2, cre2, nth, r'FASTOR_INLINE\s+U\s+eval_s\s*\(\s*FASTOR_INDEX\s+idx\s*\)\s*const\s*\{', subs2, e2, {}, '@ret'),
                 '%s: %s 2-D view, eval_s(idx): offset into the parent' % (V2, tag))
        G.define('gen_view2d_evallane_%s' % tag, '(f0 s0 f1 s1 sz1 N idx j : Z)', 'Z', method(V2, cre2, nth, r'FASTOR_INLINE\s+SIMDVector<U,simd_abi_type>\s+eval\s*\(\s*FASTOR_INDEX\s+idx\s*\)\s*const\s*\{', subs2, e2, {}, '@lane'),
                 '%s: %s 2-D view, eval(idx): offset gathered into lane j' % (V2, tag))
        G.define('gen_view2d_evals2_%s' % tag, '(f0 s0 f1 s1 i j : Z)', '(Z * Z)', method(V2, cre2, nth, r'FASTOR_INLINE\s+U\s+eval_s\s*\(\s*FASTOR_INDEX\s+i\s*,\s*FASTOR_INDEX\s+j\s*\)\s*const\s*\{', subs2, e2, {}, '@ret'),
                 '%s: %s 2-D view, eval_s(i,j): (row, column) of the parent' % (V2, tag))
        G.define('gen_view2d_eval2_%s' % tag, '(f0 s0 f1 s1 N i j : Z)', '(Z * Z)', method(V2, cre2, nth, r'FASTOR_INLINE\s+SIMDVector<U,simd_abi_type>\s+eval\s*\(\s*FASTOR_INDEX\s+i\s*,\s*FASTOR_INDEX\s+j\s*\)\s*const\s*\{', subs2, e2, {}, '@vec'),
                 '%s: %s 2-D view, eval(i,j): (first offset, stride) of the loaded / gathered vector' % (V2, tag))
    # ---- every store / scalar access site of the non-const 2-D view class (all assignment operators and right-hand-side kinds)
    def enclosing_step1(cls, pos):
        """is position pos inside the true-branch block of `if (_seq1._step == 1)` ?"""
        depth = 0; k = pos
        while k > 0:
            k -= 1
            if cls[k] == '}': depth += 1
            elif cls[k] == '{':
                if depth == 0:
                    if re.search(r'if\s*\(\s*_seq1\._step\s*==\s*1\s*\)\s*$', cls[:k]): return True
                else: depth -= 1
        return False
    def write_sites():
        txt = preprocess(G.src(V2), {'NDEBUG', 'FASTOR_USE_VECTORISED_EXPR_ASSIGN'})
        cls, _ = find_scope(txt, r'struct\s+TensorViewExpr\s*<\s*Tensor<T,M,N>\s*,\s*2\s*>[^{]*\{', 0)
        env = ids(['f0', 's0', 'f1', 's1', 'N', 'i', 'j'])
        def tr(e):
            for pat, rep in subs2: e = re.sub(pat, rep, e)
            return '(' + translate(e, 'Z', env, ())[0] + ')%Z'
        sites = []
        for m in re.finditer(r'&_data\s*\[', cls):
            j = match_close(cls, m.end() - 1, '[', ']')
            sites.append((m.start(), '(0%%nat, %s, %s, 0%%Z)' % ('true' if enclosing_step1(cls, m.start()) else 'false', tr(cls[m.end():j]))))
        for m in re.finditer(r'data_setter\s*\(', cls):
            j = match_close(cls, m.end() - 1, '(', ')'); a = split_top(cls[m.end():j])
            if len(a) != 4 or a[0].strip() != '_data': raise XErr('data_setter arguments: ' + cls[m.end():j][:60])
            sites.append((m.start(), '(1%%nat, %s, %s, %s)' % ('true' if enclosing_step1(cls, m.start()) else 'false', tr(a[2]), tr(a[3]))))
        for m in re.finditer(r'(?<![\w.])_expr\s*\(', cls):
            j = match_close(cls, m.end() - 1, '(', ')'); a = split_top(cls[m.end():j])
            if len(a) != 2: continue                       # the member initialiser _expr(_ex)
            sites.append((m.start(), '(2%%nat, %s, %s, %s)' % ('true' if enclosing_step1(cls, m.start()) else 'false', tr(a[0]), tr(a[1]))))
        # every vector store of the class goes through one of the translated addresses
        for m in re.finditer(r'\.store\s*\(', cls):
            if not re.match(r'\s*&_data\s*\[', cls[m.end():]): raise XErr('a vector store through something else than &_data[..]: ' + cls[m.end():m.end() + 40].strip())
        for m in re.finditer(r'(?<![\w.&])(\w+)\s*\[[^\]]*\]\s*(?:[-+*/]?=)(?!=)', cls):
            if m.group(1) not in ('inds',): raise XErr('an indexed store through %s[..]' % m.group(1))
        if len(sites) < 40: raise XErr('only %d access sites found in the non-const 2-D view class' % len(sites))
        return '[' + (';' + NL).join(t for _, t in sorted(sites)) + ']'
    G.define('gen_view2d_write_sites', '(f0 s0 f1 s1 N i j : Z)', 'list (nat * bool * Z * Z)', write_sites,
             V2 + ': non-const 2-D view class, every access site of the parent in all assignment operators (with FASTOR_USE_VECTORISED_EXPR_ASSIGN): '
                  '(0 contiguous vector address &_data[e] / 1 data_setter(_data,_vec,e,stride) / 2 _expr(row,col); inside the `_seq1._step == 1` branch?; e or row; stride or col)')
    # ---- the compile-time 2-D view class and the dynamic 1-D view class: same census of access sites
    def enclosing_re(cls, pos, cond_re):
        depth = 0; k = pos
        while k > 0:
            k -= 1
            if cls[k] == '}': depth += 1
            elif cls[k] == '{':
                if depth == 0:
                    if re.search(cond_re + r'\s*$', cls[:k]): return True
                else: depth -= 1
        return False
    VF2 = 'expressions/views/tensor_fixed_views_2d.h'
    def fixed_write_sites():
        txt = preprocess(G.src(VF2), {'NDEBUG', 'FASTOR_USE_VECTORISED_EXPR_ASSIGN'})
        cls, _ = find_scope(txt, r'struct\s+TensorFixedViewExpr2D\s*<\s*Tensor<T,M,N>\s*,\s*fseq<F0,L0,S0>\s*,\s*fseq<F1,L1,S1>\s*,\s*2\s*>[^{]*\{', 0)
        mp = re.search(r'static\s+constexpr\s+FASTOR_INDEX\s+Padding\s*=\s*([^;]+);', cls)
        if not mp: raise XErr('Padding not found')
        env = ids(['F0', 'S0', 'F1', 'S1', 'N', 'i', 'j'])
        pad = translate(mp.group(1), 'Z', env, ())[0]; env['Padding'] = (pad, 'n')
        def tr(e): return '(' + translate(e, 'Z', env, ())[0] + ')%Z'
        unit = r'FASTOR_IF_CONSTEXPR\s*\(\s*S1\s*==\s*1\s*\)'
        sites = []
        for m in re.finditer(r'&_data\s*\[', cls):
            j = match_close(cls, m.end() - 1, '[', ']')
            sites.append((m.start(), '(0%%nat, %s, %s, 0%%Z)' % ('true' if enclosing_re(cls, m.start(), unit) else 'false', tr(cls[m.end():j]))))
        for m in re.finditer(r'data_setter\s*\(', cls):
            j = match_close(cls, m.end() - 1, '(', ')'); a = split_top(cls[m.end():j])
            if len(a) != 4 or a[0].strip() != '_data': raise XErr('data_setter arguments: ' + cls[m.end():j][:60])
            sites.append((m.start(), '(1%%nat, %s, %s, %s)' % ('true' if enclosing_re(cls, m.start(), unit) else 'false', tr(a[2]), tr(a[3]))))
        for m in re.finditer(r'(?<![\w.])_expr\s*\(', cls):
            j = match_close(cls, m.end() - 1, '(', ')'); a = split_top(cls[m.end():j])
            if len(a) != 2: continue
            sites.append((m.start(), '(2%%nat, %s, %s, %s)' % ('true' if enclosing_re(cls, m.start(), unit) else 'false', tr(a[0]), tr(a[1]))))
        for m in re.finditer(r'\.store\s*\(', cls):
            if not re.match(r'\s*&_data\s*\[', cls[m.end():]): raise XErr('a vector store through something else than &_data[..]: ' + cls[m.end():m.end() + 40].strip())
        if len(sites) < 40: raise XErr('only %d access sites found' % len(sites))
        return '[' + (';' + NL).join(t for _, t in sorted(sites)) + ']'
    G.define('gen_fixedview2d_write_sites', '(F0 S0 F1 S1 N i j : Z)', 'list (nat * bool * Z * Z)', fixed_write_sites,
             VF2 + ': non-const compile-time 2-D view class, every access site of the parent (kinds as for the dynamic class; unit = inside FASTOR_IF_CONSTEXPR (S1==1))')
    def view1d_write_sites():
        txt = preprocess(G.src(V1), {'NDEBUG', 'FASTOR_USE_VECTORISED_EXPR_ASSIGN'})
        cls, _ = find_scope(txt, r'struct\s+TensorViewExpr\s*<\s*Tensor<T,N>\s*,\s*1\s*>[^{]*\{', 0)
        env = ids(['f', 's', 'i', 'j'])
        def tr(e, extra=None):
            for pat, rep in subs1: e = re.sub(pat, rep, e)
            en = dict(env)
            if extra: en.update(extra)
            return '(' + translate(e, 'Z', en, ())[0] + ')%Z'
        unit = r'if\s*\(\s*_seq\._step\s*==\s*1\s*\)'
        sites = []
        for m in re.finditer(r'(&?)_data\s*\[', cls):
            j = match_close(cls, m.end() - 1, '[', ']'); e = cls[m.end():j].strip()
            if e == 'idx':
                # the nearest preceding declaration `auto idx = ...;`
                ds = list(re.finditer(r'auto\s+idx\s*=\s*([^;]+);', cls[:m.start()]))
                if not ds: raise XErr('_data[idx] without a declaration of idx')
                e = ds[-1].group(1)
            sites.append((m.start(), '(%d%%nat, %s, %s, 0%%Z)' % (0 if m.group(1) else 3, 'true' if enclosing_re(cls, m.start(), unit) else 'false', tr(e))))
        for m in re.finditer(r'data_setter\s*\(', cls):
            j = match_close(cls, m.end() - 1, '(', ')'); a = split_top(cls[m.end():j])
            if len(a) != 4 or a[0].strip() != '_data': raise XErr('data_setter arguments: ' + cls[m.end():j][:60])
            sites.append((m.start(), '(1%%nat, %s, %s, %s)' % ('true' if enclosing_re(cls, m.start(), unit) else 'false', tr(a[2]), tr(a[3]))))
        for m in re.finditer(r'\.store\s*\(', cls):
            if not re.match(r'\s*&_data\s*\[', cls[m.end():]): raise XErr('a vector store through something else than &_data[..]: ' + cls[m.end():m.end() + 40].strip())
        if len(sites) < 30: raise XErr('only %d access sites found' % len(sites))
        return '[' + (';' + NL).join(t for _, t in sorted(sites)) + ']'
    G.define('gen_view1d_write_sites', '(f s i j : Z)', 'list (nat * bool * Z * Z)', view1d_write_sites,
             V1 + ': non-const 1-D view class, every access site of the parent (0 vector address &_data[e], 1 data_setter, 3 scalar _data[e]; unit = inside `_seq._step == 1`)')
    # ---- noalias(): the aliasing branch of every assignment operator of every view class
    def noalias_census():
        import glob
        OPC = {'=': 0, '+=': 1, '-=': 2, '*=': 3, '/=': 4}
        items = []
        for fi, f in enumerate(sorted(glob.glob(os.path.join(repo, 'Fastor', 'expressions', 'views', '*.h')))):
            txt = strip_comments(open(f).read())
            for m in re.finditer(r'void\s+operator\s*(=|\+=|-=|\*=|/=)\s*\(([^)]*)\)\s*\{', txt):
                i = m.end() - 1; j = match_close(txt, i); body = txt[i + 1:j]
                if '_does_alias' not in body: continue
                k = body.find('if (_does_alias)')
                if k < 0: raise XErr('%s: operator%s mentions _does_alias outside an `if (_does_alias)`' % (os.path.basename(f), m.group(1)))
                b0 = body.index('{', k); b1 = match_close(body, b0); blk = ' '.join(body[b0 + 1:b1].split())
                pre = [l.strip() for l in body[:k].split('\n') if l.strip()]
                guard = bool(pre) and pre[-1] == '#if !(FASTOR_NO_ALIAS)'
                arg = re.findall(r'(\w+)\s*$', m.group(2).strip())
                mA = re.fullmatch(r'_does_alias = false; auto tmp_this_tensor = get_tensor\(\); auto tmp = [\w:]+<.*>\(tmp_this_tensor.*?\); tmp = (\w+); this->operator(=|\+=|-=|\*=|/=)\(tmp\); return;', blk)
                mB = re.fullmatch(r'(?:_does_alias = false; )?const result_type tmp\((\w+)\); this->operator(=|\+=|-=|\*=|/=)\(tmp\); return;', blk)
                mm = mA or mB
                if not mm: raise XErr('%s: aliasing branch of operator%s has another shape: %s' % (os.path.basename(f), m.group(1), blk[:120]))
                if not arg or mm.group(1) != arg[0]: raise XErr('%s: aliasing branch of operator%s stages %s, not its argument' % (os.path.basename(f), m.group(1), mm.group(1)))
                items.append('(%d, %d, %d, %s)' % (fi, OPC[m.group(1)], OPC[mm.group(2)], 'true' if guard else 'false'))
        if len(items) < 60: raise XErr('only %d aliasing branches found' % len(items))
        return '[' + '; '.join(items) + ']%nat'
    G.define('gen_noalias_branches', '', 'list (nat * nat * nat * bool)', noalias_census,
             'expressions/views/*.h: the `if (_does_alias)` branch of every assignment operator: (file, operator of the overload, operator applied to the staged temporary, '
             'guarded by `#if !(FASTOR_NO_ALIAS)`); the branch stages its own argument into a copy (evaluated on the untouched original) and applies the operator to it')
    # ---- right-hand sides that are evaluated first: the forwarding overload of every assignment operator of every view class
    def evalrhs_census():
        import glob
        OPC = {'=': 0, '+=': 1, '-=': 2, '*=': 3, '/=': 4}
        items = []
        for fi, f in enumerate(sorted(glob.glob(os.path.join(repo, 'Fastor', 'expressions', 'views', '*.h')))):
            txt = strip_comments(open(f).read())
            for m in re.finditer(r'template\s*<([^;{}]*?requires_evaluation_v\s*<\s*Derived\s*>[^;{}]*?)>\s*(?:FASTOR_\w+\s+)*void\s+operator\s*(=|\+=|-=|\*=|/=)\s*\(([^)]*)\)\s*\{', txt):
                if re.search(r'!\s*requires_evaluation_v', m.group(1)): continue
                i = m.end() - 1; j = match_close(txt, i); body = ' '.join(txt[i + 1:j].split())
                arg = re.findall(r'(\w+)\s*$', m.group(3).strip())
                mm = re.fullmatch(r'const typename Derived::result_type& tmp = evaluate\((\w+)\.self\(\)\); this->operator(=|\+=|-=|\*=|/=)\(tmp\);', body)
                if not mm: raise XErr('%s: the evaluate-first overload of operator%s has another shape: %s' % (os.path.basename(f), m.group(2), body[:120]))
                if not arg or mm.group(1) != arg[0]: raise XErr('%s: the evaluate-first overload of operator%s evaluates %s, not its argument' % (os.path.basename(f), m.group(2), mm.group(1)))
                items.append('(%d, %d, %d)' % (fi, OPC[m.group(2)], OPC[mm.group(2)]))
        if len(items) < 60: raise XErr('only %d evaluate-first overloads found' % len(items))
        return '[' + '; '.join(items) + ']%nat'
    G.define('gen_evalrhs_forwards', '', 'list (nat * nat * nat)', evalrhs_census,
             'expressions/views/*.h: every assignment-operator overload selected for a right-hand side that must be evaluated first (requires_evaluation_v<Derived>): '
             '(file, operator of the overload, operator applied to the evaluated temporary); the body evaluates its own argument and forwards')
    # ---- tensor/BlockIndexing.h: flat indices precomputed by the index-tensor overloads of operator()
    BI = 'tensor/BlockIndexing.h'
    batoms = [(r'_it0\s*\(\s*i\s*\)', 'a', 'n'), (r'_it1\s*\(\s*j\s*\)', 'b', 'n'), (r'_it0\s*\(\s*j\s*\)', 'b', 'n'),
              (r'_seq::_step', 's', 'n'), (r'_seq::_first', 'f', 'n')]
    names = ['it_it', 'it_num', 'num_it', 'it_fseq', 'fseq_it']
    def bidx(k):
        def fn():
            txt = G.src(BI)
            ms = list(re.finditer(r'tmp_it\s*\(\s*i\s*,\s*(?:j|0)\s*\)\s*=\s*([^;]+);', txt))
            if len(ms) != 10: raise XErr('%d tmp_it assignments (10 expected: five overloads, non-const and const)' % len(ms))
            t, _ = translate(ms[k].group(1), 'Z', {'NCols': ('ncols', 'n'), 'num': ('num', 'n'), 'i': ('i', 'n'), 'j': ('j', 'n')}, batoms)
            return t
        return fn
    def bidx_axis(k):
        def fn():
            txt = G.src(BI)
            ms = list(re.finditer(r'using\s+_seq\s*=\s*typename\s+to_positive\s*<\s*fseq<F,L,S>\s*,\s*(\w+)\s*>::type\s*;', txt))
            if len(ms) != 4: raise XErr('%d normalised compile-time ranges (4 expected)' % len(ms))
            ext = ms[k].group(1)
            # the extent the range is normalised against: constexpr int <ext> = get_value<AXIS,Rest...>::value; in the same function
            pre = txt[:ms[k].start()]
            md = list(re.finditer(r'constexpr\s+int\s+%s\s*=\s*get_value\s*<\s*(\d)\s*,\s*Rest\.\.\.\s*>::value\s*;' % ext, pre))
            if not md: raise XErr('extent %s not defined' % ext)
            return md[-1].group(1)
        return fn
    for c, tag in enumerate(['nonconst', 'const']):
        for k, nm in enumerate(names):
            G.define('gen_bidx_%s_%s' % (nm, tag), '(a b num f s ncols i j : Z)', 'Z', bidx(5 * c + k), '%s: %s operator()(%s): flat index stored in tmp_it' % (BI, tag, nm))
        G.define('gen_bidx_it_fseq_axis_%s' % tag, '', 'nat', bidx_axis(2 * c), '%s: %s operator()(it, fseq): axis (1-based) whose extent normalises the range' % (BI, tag))
        G.define('gen_bidx_fseq_it_axis_%s' % tag, '', 'nat', bidx_axis(2 * c + 1), '%s: %s operator()(fseq, it): axis (1-based) whose extent normalises the range' % (BI, tag))
    hdr = ('(** GENERATED by lib/cxx2v.py from the C++ source of /repo on every run -- do not edit.\n'
           '    Constructor normalisation and index computations of the dynamic 1-D / 2-D view classes;\n'
           '    flat indices precomputed by the index-tensor overloads of operator() (BlockIndexing.h). *)\n'
           'From Coq Require Import ZArith Bool List.\nImport ListNotations.\n\n')
    return G, hdr + '\n'.join(G.defs)

# ----------------------------------------------------------------------------------------------------
# memory access skeletons: every a[..] / b[..] / c[..] / out[..] index expression of a kernel, in source order
def accesses_of(body, arrays, arith, env, atoms):
    out = []
    for m in re.finditer(r'(?<![\w.])(%s)\s*\[' % '|'.join(arrays), body):
        j = match_close(body, m.end() - 1, '[', ']')
        pre = body[max(0, m.start() - 40):m.start()]
        if re.search(r'(?:^|[;{}(,\s])(?:FASTOR_ARCH_ALIGN\s+)?(?:const\s+)?(?:T|V|int|size_t)\s+$', pre): continue      # a declaration T name[size]
        t, so = translate(body[m.end():j], arith, env, atoms)
        out.append((arrays.index(m.group(1)), t))
    return out

def gen_access(repo):
    G = Gen(repo)
    NAT = 'nat'
    vat = [(r'V::Size', 'W', 'n')]
    def ids(names): return {n: (n, 'n') for n in names}
    def acc(rel, header, nth, arrays, env, defined=frozenset(), pre_defined=None, consts=False, skip_from=None):
        def fn():
            txt = G.src(rel)
            if pre_defined is not None: txt = preprocess(txt, pre_defined)
            body, _ = find_scope(txt, header, nth)
            body = preprocess(body, set(defined))
            e = dict(env); lets = []
            if consts:
                lets, e = let_chain(decls_of(body, True), NAT, e, vat, None)
            items = accesses_of(body, arrays, NAT, e, vat)
            return NL.join(lets + ['[' + '; '.join('(%d, %s)' % it for it in items) + ']'])
        return fn
    TR = 'backend/transpose/transpose.h'; MK = 'backend/matmul/matmul_kernels.h'; TM = 'backend/matmul/tmatmul.h'
    thdr = r'FASTOR_INLINE\s+void\s+_transpose\s*\(const\s+T\s*\*\s*FASTOR_RESTRICT\s+a\s*,\s*T\s*\*\s*FASTOR_RESTRICT\s+out\)\s*\{'
    G.define('gen_transpose_avx_accesses', '(W M N i ii j jj v : nat)', 'list (nat * nat)',
             acc(TR, thdr, 0, ['a', 'out', 'pack_a', 'pack_out'], ids(['M', 'N', 'i', 'ii', 'j', 'jj', 'v']), pre_defined={'FASTOR_AVX_IMPL'}, consts=True),
             TR + ': blocked _transpose (FASTOR_AVX_IMPL, default block sizes): index of every a / out / pack_a / pack_out access, source order (0 a, 1 out, 2 pack_a, 3 pack_out)')
    G.define('gen_transpose_plain_accesses', '(M N i j : nat)', 'list (nat * nat)',
             acc(TR, thdr, 0, ['a', 'out'], ids(['M', 'N', 'i', 'j']), pre_defined=set()),
             TR + ': plain _transpose (no AVX): out[..] = a[..]')
    envk = ids(['M', 'K', 'N', 'i', 'j', 'ii', 'k', 'n', 'unrollOuterloop', 'numSIMDRows', 'numSIMDCols'])
    envk['unrollOuterloop'] = ('R', 'n')
    khdr = r'void\s+interior_block_matmul_impl\s*\([^)]*\)\s*\{'
    for c in range(5):
        G.define('gen_mmkernel%d_accesses' % (c + 1), '(W M K N R i j ii k n : nat)', 'list (nat * nat)', acc(MK, khdr, c, ['a', 'b', 'c'], envk),
                 MK + ': interior_block_matmul_impl<numSIMDCols=%d>: index of every a / b / c access, source order (0 a, 1 b, 2 c)' % (c + 1))
    G.define('gen_mmkernel_scalar_accesses', '(W M K N R i j ii k n : nat)', 'list (nat * nat)', acc(MK, r'void\s+interior_block_matmul_scalar_impl\s*\([^)]*\)\s*\{', 0, ['a', 'b', 'c'], envk),
             MK + ': interior_block_matmul_scalar_impl: a / b / c accesses')
    for c in range(2):
        G.define('gen_mmkernel_mask%d_accesses' % c, '(W M K N R i j ii k n : nat)', 'list (nat * nat)', acc(MK, r'void\s+interior_block_matmul_mask_impl\s*\(', c, ['a', 'b', 'c'], envk),
                 MK + ': interior_block_matmul_mask_impl (%s): a / b / c accesses' % ('int mask array' if c == 0 else 'AVX-512 mask register'))
    tkhdr = r'void\s+interior_block_tmatmul_impl\s*\('
    for c in range(5):
        G.define('gen_tmkernel%d_accesses' % (c + 1), '(W M K N R i j ii k n : nat)', 'list (nat * nat)', acc(TM, tkhdr, c, ['a', 'b', 'c'], envk),
                 TM + ': interior_block_tmatmul_impl<numSIMDCols=%d>: index of every a / b / c access' % (c + 1))
    G.define('gen_tmkernel_scalar_accesses', '(W M K N R i j ii k n : nat)', 'list (nat * nat)', acc(TM, r'void\s+interior_block_tmatmul_scalar_impl\s*\(', 0, ['a', 'b', 'c'], envk),
             TM + ': interior_block_tmatmul_scalar_impl: a / b / c accesses')
    for c in range(2):
        G.define('gen_tmkernel_mask%d_accesses' % c, '(W M K N R i j ii k n : nat)', 'list (nat * nat)', acc(TM, r'void\s+interior_block_tmatmul_mask_impl\s*\(', c, ['a', 'b', 'c'], envk),
                 TM + ': interior_block_tmatmul_mask_impl (%s): a / b / c accesses' % ('int mask array' if c == 0 else 'AVX-512 mask register'))
    def krange(header, nth):
        def fn():
            body, _ = find_scope(G.src(TM), header, nth)
            out = []
            for nm in ('find_kfirst', 'find_klast'):
                cs = calls_of(body, nm)
                if len(cs) != 1: raise XErr('%d calls of %s' % (len(cs), nm))
                targs = cs[0][1]
                if targs[:2] != ['size_t', 'K'] or targs[4:] != ['LhsType', 'RhsType']: raise XErr('k-range call: %s' % targs)
                m = re.match(r'\s*<[^>]*>\s*\(\s*i\s*,\s*j\s*\)', body[cs[0][2] + len(nm):])
                if not m: raise XErr('k-range not computed at the block origin (i,j)')
                out += [translate(x, NAT, {'unrollOuterloop': ('R', 'n'), 'numSIMDRows': ('nr', 'n'), 'numSIMDCols': ('nc', 'n')}, vat)[0] for x in targs[2:4]]
            return '[' + '; '.join(out) + ']'
        return fn
    for c in range(5):
        G.define('gen_tmkernel%d_krange' % (c + 1), '(W R nr nc : nat)', 'list nat', krange(tkhdr, c),
                 TM + ': interior_block_tmatmul_impl<numSIMDCols=%d>: block extents given to find_kfirst / find_klast at the origin (i,j)' % (c + 1))
    G.define('gen_tmkernel_scalar_krange', '(W R nr nc : nat)', 'list nat', krange(r'void\s+interior_block_tmatmul_scalar_impl\s*\(', 0), TM + ': scalar kernel: block extents of the k-range')
    for c in range(2):
        G.define('gen_tmkernel_mask%d_krange' % c, '(W R nr nc : nat)', 'list nat', krange(r'void\s+interior_block_tmatmul_mask_impl\s*\(', c), TM + ': masked kernel %d: block extents of the k-range' % c)
    envd = ids(['M', 'K', 'N', 'i', 'j', 'k', 'n'])
    envd.update({'FASTOR_MATMUL_OUTER_BLOCK_SIZE': ('ob', 'n'), 'FASTOR_MATMUL_INNER_BLOCK_SIZE': ('ib', 'n')})
    G.define('gen_mmbase_inline_accesses', '(W M K N i j k n : nat)', 'list (nat * nat)',
             acc(MK, r'void\s+_matmul_base\s*\(const[^)]*\)\s*\{', 0, ['a', 'b', 'c'], envd, consts=True),
             MK + ': _matmul_base: a / b / c accesses of the code written inline in the driver (single-vector, scalar and leftover-row parts)')
    G.define('gen_mmbase_masked_inline_accesses', '(W M K N i j k n : nat)', 'list (nat * nat)',
             acc(MK, r'void\s+_matmul_base_masked\s*\(const[^)]*\)\s*\{', 0, ['a', 'b', 'c'], envd, consts=True),
             MK + ': _matmul_base_masked: a / b / c accesses of the inline code')
    # ---- is_aligned() of every view class: whether loads / stores through the view may be alignment-requiring
    def aligned_fn():
        import glob
        items = []
        files = sorted(glob.glob(os.path.join(repo, 'Fastor', 'expressions', 'views', '*.h')))
        for f in files:
            txt = strip_comments(open(f).read())
            for m in re.finditer(r'static\s+constexpr\s+FASTOR_INLINE\s+bool\s+is_aligned\s*\(\s*\)\s*\{\s*return\s+([^;]+);', txt):
                t, so = translate(m.group(1), 'nat', {}, ())
                if so != 'b': raise XErr('is_aligned of %s is not boolean' % os.path.basename(f))
                items.append(t)
        if len(items) != 16: raise XErr('%d is_aligned() definitions in expressions/views (16 expected)' % len(items))
        return '[' + '; '.join(items) + ']'
    G.define('gen_views_is_aligned', '', 'list bool', aligned_fn, 'expressions/views/*.h: the value of is_aligned() of every view class, in file / source order')
    # ---- tensor/AbstractTensorFunctions.h: reductions and predicates (the overloads that do not evaluate their argument first)
    AF = 'tensor/AbstractTensorFunctions.h'
    def red(name):
        def fn():
            txt = G.src(AF)
            hdr_re = r'enable_if_t_<\s*!requires_evaluation_v<Derived>\s*,\s*bool>\s*=\s*false>\s*FASTOR_INLINE\s+typename\s+Derived::scalar_type\s+%s\s*\(const\s+AbstractTensor<Derived,DIMS>\s*&\s*_src\)\s*\{' % name
            body, _ = find_scope(txt, hdr_re, 0)
            b = ' '.join(body.split())
            m = re.search(r'T _scal\s*=\s*(.+?); V _vec\(_scal\);', b)
            if not m: raise XErr('seed declaration')
            seed = {'0': 0, '1': 1, 'std::numeric_limits<T>::max()': 2, 'std::numeric_limits<T>::lowest()': 3}.get(m.group(1).strip())
            if seed is None: raise XErr('seed: ' + m.group(1))
            m = re.search(r'for \(i = 0; i < ROUND_DOWN\(src\.size\(\),V::Size\); i\+=V::Size\) \{ (.+?); \} for \(; i < src\.size\(\); \+\+i\) \{ (.+?); \} return (.+?);$', b)
            if not m: raise XErr('loop structure (vector body over ROUND_DOWN(size,V::Size), scalar tail, return)')
            ev, es = r'src\.template eval<T>\(i\)', r'src\.template eval_s<T>\(i\)'
            def cls(t, table):
                for k, (pat, code) in enumerate(table):
                    if re.fullmatch(pat, t.strip()): return code
                raise XErr('statement not recognised: ' + t)
            vop = cls(m.group(1), [(r'_vec \+= ' + ev, 0), (r'_vec \*= ' + ev, 1), (r'_vec = min\(' + ev + r',_vec\)', 2), (r'_vec = max\(' + ev + r',_vec\)', 3)])
            sop = cls(m.group(2), [(r'_scal \+= ' + es, 0), (r'_scal \*= ' + es, 1), (r'_scal = std::min\(' + es + r',_scal\)', 2), (r'_scal = std::max\(' + es + r',_scal\)', 3)])
            fin = cls(m.group(3), [(r'_vec\.sum\(\) \+ _scal', 0), (r'_vec\.product\(\) \* _scal', 1), (r'std::min\(_vec\.minimum\(\), _scal\)', 2), (r'std::max\(_vec\.maximum\(\), _scal\)', 3)])
            return '[%d; %d; %d; %d]' % (seed, vop, sop, fin)
        return fn
    for nm in ('sum', 'product', 'min', 'max'):
        G.define('gen_reduce_%s' % nm, '', 'list nat', red(nm), AF + ': %s(expr), non-evaluating overload: [seed (0 zero, 1 one, 2 numeric max, 3 numeric lowest); vector update; scalar update; horizontal fold and final combination] with 0 +, 1 *, 2 min, 3 max' % nm)
    def pred(name):
        def fn():
            txt = G.src(AF)
            hdr_re = r'is_boolean_expression_v<Derived>\s*&&\s*!requires_evaluation_v<Derived>\s*,\s*bool>\s*=\s*false>\s*FASTOR_INLINE\s+bool\s+%s\s*\(const\s+AbstractTensor<Derived,DIMS>\s*&\s*_src\)\s*\{' % name
            body, _ = find_scope(txt, hdr_re, 0)
            b = ' '.join(body.split())
            m = re.fullmatch(r'const Derived &src = _src\.self\(\); bool val = (true|false); for \(FASTOR_INDEX i = 0; i < src\.size\(\); \+\+i\) \{ if \(src\.template eval_s<bool>\(i\) == (true|false)\) \{ val = (true|false); break; \} \} return val;', b)
            if not m: raise XErr('early-exit loop structure')
            return '[%s; %s; %s]' % m.groups()
        return fn
    for nm in ('all_of', 'any_of', 'none_of'):
        G.define('gen_pred_%s' % nm, '', 'list bool', pred(nm), AF + ': %s(expr): [initial value; element value that triggers the exit; value returned on exit]' % nm)
    # ---- tensor/TensorAssignment.h + TensorInplaceOperators.h: the loops every elementwise assignment to a tensor runs
    TA = 'tensor/TensorAssignment.h'; TI = 'tensor/TensorInplaceOperators.h'
    OPN = {'': 0, '_add': 1, '_sub': 2, '_mul': 3, '_div': 4}; OPS = {'=': 0, '+': 1, '-': 2, '*': 3, '/': 4}
    def nospace(t): return re.sub(r'\s+', '', t)
    def ta_expr():
        txt = strip_comments(G.src(TA)); items = []
        for m in re.finditer(r'FASTOR_INLINE\s+void\s+trivial_assign(_add|_sub|_mul|_div|)\s*\(AbstractTensor<Derived,DIM>\s*&dst,\s*const\s+AbstractTensor<OtherDerived,OtherDIM>\s*&src_\)\s*\{', txt):
            i = m.end() - 1; j = match_close(txt, i); b = nospace(txt[i + 1:j])
            al = r'dst\.self\(\)\.is_aligned\(\)'
            vplain = r'src\.templateeval<T>\(i\)\.store\(&_data\[i\],' + al + r'\);'
            vcomp = r'V_vec=V\(&_data\[i\],' + al + r'\)([-+*/])src\.templateeval<T>\(i\);_vec\.store\(&_data\[i\],' + al + r'\);'
            sst = r'_data\[i\]([-+*/]?)=src\.templateeval_s<T>\(i\);'
            pat = (r'usingT=typenameDerived::scalar_type;usingV=typenameDerived::simd_vector_type;constOtherDerived&src=src_\.self\(\);'
                   r'FASTOR_ASSERT\(src\.size\(\)==dst\.self\(\)\.size\(\),"[^"]*"\);T\*_data=dst\.self\(\)\.data\(\);'
                   r'FASTOR_IF_CONSTEXPR\(!is_boolean_expression_v<OtherDerived>\)\{FASTOR_INDEXi=0;'
                   r'for\(;i<ROUND_DOWN\(src\.size\(\),V::Size\);i\+=V::Size\)\{(?:' + vplain + '|' + vcomp + r')\}'
                   r'for\(;i<src\.size\(\);\+\+i\)\{' + sst + r'\}\}'
                   r'else\{for\(FASTOR_INDEXi=0;i<src\.size\(\);\+\+i\)\{' + sst + r'\}\}')
            mm = re.fullmatch(pat, b)
            if not mm: raise XErr('trivial_assign%s(dst, expression): loop structure not recognised' % m.group(1))
            vop, sop, bop = mm.groups()
            items.append('(%d, %d, %d, %d)' % (OPN[m.group(1)], OPS[vop] if vop else 0, OPS[sop] if sop else 0, OPS[bop] if bop else 0))
        if len(items) != 5: raise XErr('%d trivial_assign*(dst, expression) functions (5 expected)' % len(items))
        return '[' + '; '.join(items) + ']'
    G.define('gen_trivial_assign_expr', '', 'list (nat * nat * nat * nat)', ta_expr,
             TA + ': trivial_assign[_add|_sub|_mul|_div](dst, expression): (operator named by the function, operator of the vector loop, of the scalar remainder loop, of the '
             'scalar-only loop of boolean expressions) with 0 =, 1 +, 2 -, 3 *, 4 /; the translator accepts only: vector loop i = 0 .. ROUND_DOWN(size, V::Size) step V::Size '
             'loading / storing at &_data[i], then scalar loop from there to size at _data[i]; boolean expressions: one scalar loop 0 .. size')
    def ta_scalar():
        txt = strip_comments(G.src(TA)); items = []
        for m in re.finditer(r'FASTOR_INLINE\s+void\s+trivial_assign(_add|_sub|_mul|_div|)\s*\(AbstractTensor<Derived,DIM>\s*&dst,\s*U\s+num\)\s*\{', txt):
            i = m.end() - 1; j = match_close(txt, i); b = nospace(txt[i + 1:j])
            al = r'dst\.self\(\)\.is_aligned\(\)'
            vplain = r'_vec\.store\(&_data\[i\],' + al + r'\);'
            vcomp = r'V_vec_out\(&_data\[i\],' + al + r'\);_vec_out([-+*/])=_vec;_vec_out\.store\(&_data\[i\],' + al + r'\);'
            pat = (r'usingT=typenameDerived::scalar_type;usingV=typenameDerived::simd_vector_type;T\*_data=dst\.self\(\)\.data\(\);'
                   r'Tcnum=(\(T\)num|T\(1\)/\(T\)num);V_vec\(cnum\);FASTOR_INDEXi=0;'
                   r'for\(;i<ROUND_DOWN\(dst\.self\(\)\.size\(\),V::Size\);i\+=V::Size\)\{(?:' + vplain + '|' + vcomp + r')\}'
                   r'for\(;i<dst\.self\(\)\.size\(\);\+\+i\)\{_data\[i\]([-+*/]?)=cnum;\}')
            mm = re.fullmatch(pat, b)
            if not mm: raise XErr('trivial_assign%s(dst, number): loop structure not recognised' % m.group(1))
            cn, vop, sop = mm.groups()
            # which numbers the overload accepts (the reciprocal form must exclude integral numbers)
            hd = nospace(txt[max(0, m.start() - 200):m.start()])
            integral = 2 if '!is_integral_v_<U>' in hd else (1 if 'is_integral_v_<U>' in hd else 0)
            items.append('(%d, %d, %d, %s, %d)' % (OPN[m.group(1)], OPS[vop] if vop else 0, OPS[sop] if sop else 0, 'true' if cn.startswith('T(1)') else 'false', integral))
        if len(items) != 6: raise XErr('%d trivial_assign*(dst, number) functions (6 expected)' % len(items))
        return '[' + '; '.join(items) + ']'
    G.define('gen_trivial_assign_scalar', '', 'list (nat * nat * nat * bool * nat)', ta_scalar,
             TA + ': trivial_assign[_add|..](dst, number): (operator named by the function, operator of the vector loop, of the scalar remainder loop, the broadcast number is '
             'the reciprocal T(1)/(T)num, overload restricted to 0 any / 1 integral / 2 non-integral numbers); same loop structure as above')
    def ta_dispatch():
        items = []
        t1 = strip_comments(G.src(TI))
        for m in re.finditer(r'FASTOR_INLINE\s+auto&\s+operator\s*([-+*/])=\s*\(([^)]*)\)\s*\{', t1):
            i = m.end() - 1; j = match_close(t1, i); b = nospace(t1[i + 1:j])
            mm = re.fullmatch(r'(trivial_)?assign(_add|_sub|_mul|_div)\(\*this,(src_\.self\(\)|num)\);return\*this;', b)
            if not mm: raise XErr('Tensor::operator%s=: body not recognised: %s' % (m.group(1), b[:80]))
            if (mm.group(3) == 'num') != ('num' in m.group(2)): raise XErr('Tensor::operator%s=: forwards something else than its argument' % m.group(1))
            items.append('(0, %d, %d)' % (OPS[m.group(1)], OPN[mm.group(2)]))
        n1 = len(items)
        t2 = strip_comments(G.src(TA))
        for m in re.finditer(r'constexpr\s+FASTOR_INLINE\s+void\s+assign(_add|_sub|_mul|_div|)\s*\(AbstractTensor<Derived,DIM>\s*&dst,\s*(?:const\s+Tensor<T,Rest\.\.\.>\s*&src|U\s+num)\)\s*\{', t2):
            i = m.end() - 1; j = match_close(t2, i); b = nospace(t2[i + 1:j])
            mm = re.fullmatch(r'(?:if\(dst\.self\(\)\.data\(\)==src\.data\(\)\)return;)?trivial_assign(_add|_sub|_mul|_div|)\(dst\.self\(\),(src|num)\);', b)
            if not mm: raise XErr('assign%s(dst, tensor/number): body not recognised: %s' % (m.group(1), b[:80]))
            if 'if(' in b and m.group(1) != '': raise XErr('assign%s: a self-assignment shortcut on a compound operator' % m.group(1))
            items.append('(1, %d, %d)' % (OPN[m.group(1)], OPN[mm.group(1)]))
        if n1 != 8 or len(items) != 18: raise XErr('%d in-place operators of Tensor (8 expected), %d assign wrappers (10 expected)' % (n1, len(items) - n1))
        return '[' + '; '.join(items) + ']'
    G.define('gen_tensor_assign_dispatch', '', 'list (nat * nat * nat)', ta_dispatch,
             TI + ' / ' + TA + ': (0, operator of Tensor::operator op=, operator of the assign_* it calls) and (1, operator of assign_*(dst, tensor | number), operator of the trivial_assign_* it calls); '
             'each forwards its own argument; only plain assign() may return early (same storage)')
    # ---- the four arithmetic expression nodes as compiled: what each evaluates to
    def B(x): return 'true' if x else 'false'
    def node_evaluators(txt, nm, op_re):
        """txt: space-free text of one binary node definition; returns one tuple per helper / helper_s / thelper / thelper_s overload"""
        KIND = {'helper': 0, 'helper_s': 1, 'thelper': 2, 'thelper_s': 3}; EV = {'eval': 0, 'eval_s': 1, 'teval': 2, 'teval_s': 3}
        ARGS = {'FASTOR_INDEXi': (1, 'i'), 'FASTOR_INDEXi,FASTOR_INDEXj': (2, 'i,j'), 'conststd::array<int,DIM0>&as': (3, 'as')}
        arith = r'(?:std::is_arithmetic<%s>::value|is_primitive_v_<%s>)'
        pat = (r'template<typenameLExpr,typenameRExpr,typenameU,typenamestd::enable_if<(!?)' + arith % ('LExpr', 'LExpr') + r'&&(!?)' + arith % ('RExpr', 'RExpr') +
               r',bool>::type=0>FASTOR_INLINE(?:SIMDVector<\w+,\w+>|\w+?)(t?helper(?:_s)?)\((FASTOR_INDEXi|FASTOR_INDEXi,FASTOR_INDEXj|conststd::array<int,DIM0>&as)\)const\{return([^;{}]*);\}')
        out = []
        for m in re.finditer(pat, txt):
            gl = m.group(1) == ''; gr = m.group(2) == ''; kind = KIND[m.group(3)]; ac, an = ARGS[m.group(4)]
            side = lambda w: r'(?:_%s\.template(t?eval(?:_s)?)<(\w+)>\(([\w,]+)\)|\((\w+)\)_%s)' % (w, w)
            mm = re.fullmatch(side('lhs') + '(' + op_re + ')' + side('rhs'), m.group(5))
            if not mm: raise XErr('binary node %s: %s: return expression not recognised: %s' % (nm, m.group(3), m.group(5)[:80]))
            lk, lty, la, lcast, op, rk, rty, ra, rcast = mm.groups()
            lnum = lcast is not None; rnum = rcast is not None
            tys = set(t for t in (lty, lcast, rty, rcast) if t)
            # the element type named by the evaluators / conversions is U or the node's own scalar_type (EVAL_TYPE); the two coincide wherever the
            # code compiles (one overload of the arithmetic macro, number OP teval_s<U>, names U where its siblings name EVAL_TYPE)
            if not tys <= {'U', 'scalar_type', 'FASTOR_BD_OP_EVAL_TYPE', 'EVAL_TYPE'}: raise XErr('binary node %s: %s evaluates in element type(s) %s' % (nm, m.group(3), sorted(tys)))
            ok = ((lnum or (EV[lk] == kind and la == an)) and (rnum or (EV[rk] == kind and ra == an)))
            out.append((kind, ac, B(gl), B(gr), op, B(lnum), B(rnum), B(ok)))
        # every helper must have been recognised: count the helper definitions independently
        nh = len(re.findall(r't?helper(?:_s)?\((?:FASTOR_INDEX|conststd::array)', txt))
        if nh != len(out): raise XErr('binary node %s: %d helper definitions, %d recognised' % (nm, nh, len(out)))
        return out
    def node_operator_functions(txt, struct_re, nm):
        """the free functions `operator OP(lhs, rhs)` that build the node: (left parameter is a number, right parameter is a number, node built from (left, right) in that order)"""
        out = []
        par = r'(?:constAbstractTensor<T(?:Lhs|Rhs),DIM[01]>&(_lhs|_rhs)|T(?:Lhs|Rhs)(bb))'
        for m in re.finditer(r'operator(?:OP|[-+*/])\(' + par + ',' + par + r'\)\{return' + struct_re + r'<TLhs,TRhs,[^()]*>\(([\w.()]+),([\w.()]+)\);\}', txt):
            pl = m.group(1) or m.group(2); pr = m.group(3) or m.group(4)
            want_l = pl + '.self()' if m.group(1) else pl; want_r = pr + '.self()' if m.group(3) else pr
            out.append('(%s, %s, %s)' % (B(m.group(2)), B(m.group(4)), B(m.group(5) == want_l and m.group(6) == want_r and pl != pr and (m.group(1) in (None, '_lhs')) and (m.group(3) in (None, '_rhs')))))
        n = len(re.findall(r'operator(?:OP|[-+*/])\(', txt))
        if n != len(out) or n < 4: raise XErr('binary node %s: %d operator functions, %d recognised' % (nm, n, len(out)))
        return out
    def binop_nodes():
        items = []
        KIND = {'helper': 0, 'helper_s': 1, 'thelper': 2, 'thelper_s': 3}; EV = {'eval': 0, 'eval_s': 1, 'teval': 2, 'teval_s': 3}
        ARGS = {'FASTOR_INDEXi': (1, 'i'), 'FASTOR_INDEXi,FASTOR_INDEXj': (2, 'i,j'), 'conststd::array<int,DIM0>&as': (3, 'as')}
        # which definitions are compiled: expressions.h includes the macro file (+ - *) and binary_div_op.h (/)
        inc = re.findall(r'#include\s+"Fastor/expressions/binary_ops/(\w+)\.h"', strip_comments(G.src('expressions/expressions.h')))
        node_inc = sorted(x for x in inc if x in ('binary_arithmetic_ops', 'binary_add_op', 'binary_sub_op', 'binary_mul_op', 'binary_div_op'))
        if node_inc != ['binary_arithmetic_ops', 'binary_div_op']: raise XErr('expressions.h includes another set of arithmetic node definitions: %s' % node_inc)
        mac_src = strip_comments(G.src('expressions/binary_ops/binary_arithmetic_ops.h'))
        mm0 = re.search(r'#define\s+FASTOR_MAKE_BINARY_ARITHMETIC_OPS\s*\(\s*OP\s*,\s*NAME\s*,\s*EVAL_TYPE\s*\)((?:[^\n]*\\\n)*[^\n]*)', mac_src)
        if not mm0: raise XErr('FASTOR_MAKE_BINARY_ARITHMETIC_OPS not found')
        mac_body = mm0.group(1).replace('\\\n', '\n')
        insts = re.findall(r'^\s*FASTOR_MAKE_BINARY_ARITHMETIC_OPS\s*\(\s*([-+*/])\s*,\s*(\w+)\s*,\s*(\w+)\s*\)', mac_src[mm0.end():], flags=re.M)
        if [(o, n) for o, n, _ in insts] != [('+', 'Add'), ('-', 'Sub'), ('*', 'Mul')]: raise XErr('instantiations of FASTOR_MAKE_BINARY_ARITHMETIC_OPS: %s' % insts)
        texts = []
        for o, n, ty in insts:
            t = re.sub(r'\bEVAL_TYPE\b', ty, re.sub(r'\bOP\b', o, mac_body))
            t = re.sub(r'\s*##\s*NAME\s*##\s*', n, t)
            texts.append((n.lower(), o, t))
        texts.append(('div', '/', preprocess(strip_comments(G.src('expressions/binary_ops/binary_div_op.h')), set())))
        for fop, (nm, ch, raw) in enumerate(texts, 1):
            if not re.search(r'struct\s+Binary%sOp\s*:' % nm.capitalize(), raw): raise XErr('struct Binary%sOp not found in the compiled definition' % nm.capitalize())
            for t in node_evaluators(nospace(raw), nm, r'[-+*/]'):
                items.append('(%d, %d, %d, %s, %s, %d, %s, %s, %s)' % ((fop,) + t[:4] + (OPS[t[4]],) + t[5:]))
        return '[' + (';' + NL).join(items) + ']'
    G.define('gen_binop_nodes', '', 'list (nat * nat * nat * bool * bool * nat * bool * bool * bool)', binop_nodes,
             'expressions/binary_ops/binary_arithmetic_ops.h (the macro FASTOR_MAKE_BINARY_ARITHMETIC_OPS expanded for its three instantiations Add, Sub, Mul) and binary_div_op.h (Div, with FASTOR_UNSAFE_MATH not defined) - the definitions expressions.h includes: every helper / helper_s / thelper / thelper_s of the four arithmetic nodes: '
             '(node 1 + 2 - 3 * 4 /, function 0 eval 1 eval_s 2 teval 3 teval_s, arguments 1 (i) 2 (i,j) 3 (as), overload selected when lhs is a number, when rhs is a number, '
             'operator in the return expression, left operand is the number (T)_lhs, right operand is the number (T)_rhs, '
             'both operands are evaluated with the function\'s own evaluator on the function\'s own arguments); left operand comes from _lhs, right from _rhs')
    def binop_functions():
        src = strip_comments(G.src('expressions/binary_ops/binary_arithmetic_ops.h'))
        body, _ = macro_def(src, 'FASTOR_MAKE_BINARY_ARITHMETIC_OPS', ['OP', 'NAME', 'EVAL_TYPE'])
        a = node_operator_functions(nospace(body), r'Binary##NAME##Op', 'arithmetic macro')
        d = node_operator_functions(nospace(preprocess(strip_comments(G.src('expressions/binary_ops/binary_div_op.h')), set()).split('struct BinaryDivOp')[1]), r'BinaryDivOp', 'div')
        return '[' + '; '.join(a + d) + ']'
    BC = 'expressions/binary_ops/binary_cmp_ops.h'
    def cmp_evaluators():
        body, _ = macro_def(strip_comments(G.src(BC)), 'FASTOR_MAKE_BINARY_CMP_TENSOR_OPS_', ['OP', 'NAME', 'EVAL_TYPE'])
        ev = node_evaluators(nospace(body), 'comparison macro', 'OP')
        return '[' + (';' + NL).join('(%d, %d, %s, %s, %s, %s, %s)' % (t[:4] + t[5:]) for t in ev) + ']'
    def cmp_functions():
        body, _ = macro_def(strip_comments(G.src(BC)), 'FASTOR_MAKE_BINARY_CMP_TENSOR_OPS_', ['OP', 'NAME', 'EVAL_TYPE'])
        return '[' + '; '.join(node_operator_functions(nospace(body), r'BinaryCmpOp##NAME', 'comparison macro')) + ']'
    def cmp_rows():
        rows = macro_rows(strip_comments(G.src(BC)), 'FASTOR_MAKE_BINARY_CMP_TENSOR_OPS_', 3)
        for r in rows:
            if r[2] != 'scalar_type': raise XErr('comparison node %s evaluates in %s' % (r[1], r[2]))
        return '[' + '; '.join('(%s, %s)' % (cstr(r[0]), cstr(r[1])) for r in rows) + ']%string'
    # ---- expressions/unary_ops/unary_math_ops.h: the elementwise math nodes (one macro, one row per function)
    UM = 'expressions/unary_ops/unary_math_ops.h'
    def macro_def(src, name, params):
        m = re.search(r'#define\s+' + name + r'\s*\(\s*' + r'\s*,\s*'.join(params) + r'\s*\)((?:[^\n]*\\\n)*[^\n]*)', src)
        if not m: raise XErr('macro %s(%s) not found' % (name, ', '.join(params)))
        return m.group(1).replace('\\\n', '\n'), m.end()
    def macro_rows(src, name, n):
        rows = []
        for m in re.finditer(r'^[ \t]*' + name + r'[ \t]*\(([^()\n]*)\)', src, flags=re.M):
            a = [x.strip() for x in m.group(1).split(',')]
            if len(a) != n: raise XErr('%s(%s): %d arguments' % (name, m.group(1), len(a)))
            rows.append(a)
        return rows
    def cstr(x): return '"%s"' % x
    def unary_body():
        src = strip_comments(G.src(UM)); body, _ = macro_def(src, 'FASTOR_MAKE_UNARY_MATH_OPS', ['OP_NAME', 'SIMD_OP', 'SCALAR_OP', 'STRUCT_NAME', 'EVAL_TYPE'])
        b = nospace(body); items = []
        EV = {'eval': 0, 'eval_s': 1, 'teval': 2, 'teval_s': 3}
        pat = (r'FASTOR_INLINE(?:SIMDVector<EVAL_TYPE,simd_abi_type>|EVAL_TYPE)(t?eval(?:_s)?)\((FASTOR_INDEXi|FASTOR_INDEXi,FASTOR_INDEXj|conststd::array<int,DIM0>&as)\)const\{'
               r'return(SIMD_OP|SCALAR_OP)\(_expr\.template(t?eval(?:_s)?)<EVAL_TYPE>\(([\w,]+)\)\);\}')
        ARG = {'FASTOR_INDEXi': 'i', 'FASTOR_INDEXi,FASTOR_INDEXj': 'i,j', 'conststd::array<int,DIM0>&as': 'as'}
        for m in re.finditer(pat, b):
            items.append('(%d, %d, %d, %s)' % (EV[m.group(1)], 0 if m.group(3) == 'SIMD_OP' else 1, EV[m.group(4)], 'true' if ARG[m.group(2)] == m.group(5) else 'false'))
        n = len(re.findall(r'FASTOR_INLINE(?:SIMDVector<EVAL_TYPE,simd_abi_type>|EVAL_TYPE)t?eval(?:_s)?\(', b))
        if n != 6 or len(items) != 6: raise XErr('%d evaluators in the macro, %d recognised (6 expected)' % (n, len(items)))
        if not re.search(r'FASTOR_INLINEUnary##STRUCT_NAME##Op<Expr,DIM0>OP_NAME\(constAbstractTensor<Expr,DIM0>&_expr\)\{returnUnary##STRUCT_NAME##Op<Expr,DIM0>\(_expr\.self\(\)\);\}', b):
            raise XErr('the function OP_NAME(expr) does not construct Unary<STRUCT_NAME>Op of its own argument')
        return '[' + '; '.join(items) + ']'
    G.define('gen_unary_node_evaluators', '', 'list (nat * nat * nat * bool)', unary_body,
             UM + ': macro FASTOR_MAKE_UNARY_MATH_OPS: its six evaluators (0 eval 1 eval_s 2 teval 3 teval_s; applies 0 SIMD_OP 1 SCALAR_OP; evaluator called on the operand; at the function\'s own arguments); '
             'the function OP_NAME builds the node Unary<STRUCT_NAME>Op of its argument')
    def unary_rows():
        src = strip_comments(G.src(UM)); rows = macro_rows(src, 'FASTOR_MAKE_UNARY_MATH_OPS', 5)
        if len(rows) < 30: raise XErr('only %d instantiations of FASTOR_MAKE_UNARY_MATH_OPS' % len(rows))
        for r in rows:
            if r[4] != 'scalar_type': raise XErr('unary node %s evaluates in %s' % (r[3], r[4]))
        return '[' + (';' + NL).join('(%s, %s, %s, %s)' % tuple(cstr(x) for x in r[:4]) for r in rows) + ']%string'
    G.define('gen_unary_nodes', '', 'list (string * string * string * string)', unary_rows,
             UM + ': every instantiation of FASTOR_MAKE_UNARY_MATH_OPS: (function, operation applied to SIMD vectors, operation applied to scalars, node name)')
    def unary_assign_rows():
        src = strip_comments(G.src(UM)); rows = macro_rows(src, 'FASTOR_MAKE_UNARY_MATH_OP_ASSIGNMENT', 3)
        body, _ = macro_def(src, 'FASTOR_MAKE_UNARY_MATH_OP_ASSIGNMENT', ['OP', 'NAME', 'ASSIGN_TYPE'])
        b = nospace(body)
        want = (r'template<typenameDerived,size_tDIM,typenameOtherDerived,size_tOtherDIM,typenamestd::enable_if<requires_evaluation_v<OtherDerived>,bool>::type=false>'
                r'FASTOR_INLINEvoidassign##ASSIGN_TYPE\(AbstractTensor<Derived,DIM>&dst,constUnary##NAME##Op<OtherDerived,OtherDIM>&src\)\{'
                r'assign##ASSIGN_TYPE\(dst\.self\(\),src\.expr\(\)\.self\(\)\);trivial_assign\(dst\.self\(\),OP\(dst\.self\(\)\)\);\}'
                r'template<typenameDerived,size_tDIM,typenameOtherDerived,size_tOtherDIM,typenamestd::enable_if<!requires_evaluation_v<OtherDerived>,bool>::type=false>'
                r'FASTOR_INLINEvoidassign##ASSIGN_TYPE\(AbstractTensor<Derived,DIM>&dst,constUnary##NAME##Op<OtherDerived,OtherDIM>&src\)\{'
                r'trivial_assign##ASSIGN_TYPE\(dst\.self\(\),src\.self\(\)\);\}')
        if not re.fullmatch(want, b): raise XErr('FASTOR_MAKE_UNARY_MATH_OP_ASSIGNMENT: body not recognised')
        if len(rows) < 30: raise XErr('only %d instantiations of FASTOR_MAKE_UNARY_MATH_OP_ASSIGNMENT' % len(rows))
        return '[' + (';' + NL).join('(%s, %s, %s)' % tuple(cstr(x) for x in r) for r in rows) + ']%string'
    G.define('gen_unary_node_assignments', '', 'list (string * string * string)', unary_assign_rows,
             UM + ': every instantiation of FASTOR_MAKE_UNARY_MATH_OP_ASSIGNMENT: (operation re-applied to the evaluated operand, node name, assignment kind "" _add _sub _mul _div); '
             'the macro: operand needs evaluation -> assign<kind>(dst, operand); dst = OP(dst); otherwise trivial_assign<kind>(dst, node)')
    G.define('gen_binop_functions', '', 'list (bool * bool * bool)', binop_functions,
             'binary_arithmetic_ops.h (macro) then binary_div_op.h: the free functions operator OP(lhs, rhs) that build the node: (left parameter is a number, right parameter is a number, '
             'the node is built from (left, right) in that order, tensors through .self())')
    G.define('gen_cmp_node_evaluators', '', 'list (nat * nat * bool * bool * bool * bool * bool)', cmp_evaluators,
             BC + ': macro FASTOR_MAKE_BINARY_CMP_TENSOR_OPS_: every helper overload returns [left OP right] with the macro\'s own OP: (function, arguments, selected when lhs is a number, when rhs is a number, '
             'left operand is the number, right operand is the number, both sides evaluated by the function\'s own evaluator at its own arguments)')
    G.define('gen_cmp_functions', '', 'list (bool * bool * bool)', cmp_functions, BC + ': the free functions operator OP(lhs, rhs) of the macro (as for the arithmetic nodes)')
    G.define('gen_cmp_nodes', '', 'list (string * string)', cmp_rows, BC + ': every instantiation of the macro: (operator, node name)')
    # ---- expressions/linalg_ops: how a lazy linear-algebra node is assigned (the code behind C09)
    LO = 'expressions/linalg_ops/'
    def lazy_unary_assign():
        items = []
        for fi, (fn, node, kern) in enumerate([('unary_trans_op.h', 'UnaryTransOp', r'_transpose<T,M,N>'), ('unary_ctrans_op.h', 'UnaryCTransOp', r'_ctranspose<T,M,N>'),
                                               ('unary_adj_op.h', 'UnaryAdjOp', r'internal::adjoint_dispatcher'), ('unary_cof_op.h', 'UnaryCofOp', r'internal::cofactor_dispatcher'),
                                               ('unary_inv_op.h', 'UnaryInvOp', r'internal::inverse_dispatcher')]):
            txt = strip_comments(G.src(LO + fn)); n0 = len(items)
            for m in re.finditer(r'FASTOR_INLINE\s+void\s+assign(_add|_sub|_mul|_div|)\s*\(\s*AbstractTensor<Derived,\s*DIM>\s*&\s*dst\s*,\s*const\s+' + node + r'<Expr,\s*OtherDIM>\s*&\s*src\s*\)\s*\{', txt):
                i = m.end() - 1; j = match_close(txt, i); b = nospace(txt[i + 1:j])
                use = r'(?:using\w+=typename[\w:<>,]+;|staticconstexprsize_tM=' + node + r'<Expr,OtherDIM>::M;|staticconstexprsize_tN=' + node + r'<Expr,OtherDIM>::N;)*'
                head = r'usingresult_type=typenameExpr::result_type;constresult_type&tmp=evaluate\(src\.expr\(\)\.self\(\)\);'
                arg = r'tmp\.data\(\),%s\.data\(\)' if kern.startswith('_') else r'tmp,%s'
                if m.group(1) == '':
                    mm = re.fullmatch(head + use + kern + r'\(' + (arg % r'dst\.self\(\)') + r'\);', b)
                    if not mm: raise XErr('%s: assign(dst, %s): body not recognised: %s' % (fn, node, b[:100]))
                    items.append('(%d, 0, 0)' % fi)
                else:
                    mm = re.fullmatch(head + use + r"(?:result_type|result_t)(\w+);" + use + kern + r'\(' + (arg % r'(\w+)') + r'\);trivial_assign(_add|_sub|_mul|_div)\(dst\.self\(\),(\w+)\);', b)
                    if not mm: raise XErr('%s: assign%s(dst, %s): body not recognised: %s' % (fn, m.group(1), node, b[:100]))
                    if not (mm.group(1) == mm.group(2) == mm.group(4)): raise XErr('%s: assign%s: the staged result is not the tensor that is applied' % (fn, m.group(1)))
                    items.append('(%d, %d, %d)' % (fi, OPN[m.group(1)], OPN[mm.group(3)]))
            if len(items) - n0 != 5: raise XErr('%s: %d assign*(dst, %s) functions (5 expected)' % (fn, len(items) - n0, node))
        return '[' + '; '.join(items) + ']'
    G.define('gen_lazy_unary_assign', '', 'list (nat * nat * nat)', lazy_unary_assign,
             LO + 'unary_{trans,ctrans,adj,cof,inv}_op.h: assign[_add|..](dst, node): (node, operator of the function, operator of the trivial_assign applied to the staged result; 0 0 = computed straight into dst). '
             'The translator accepts only: operand evaluated once into tmp; plain assign: kernel(tmp -> dst); compound: kernel(tmp -> fresh local), then trivial_assign_op(dst, that local); kernel template arguments <T,M,N> with M, N the node\'s own')
    def lazy_matmul_assign():
        txt = strip_comments(G.src(LO + 'binary_matmul_op.h')); items = []
        tv = r'is_tensor_v<remove_all_t<typenameBinaryMatMulOp<TLhs,TRhs,OtherDIM>::%s_expr_type>>'
        for m in re.finditer(r'template<typename Derived, size_t DIM, typename TLhs, typename TRhs, size_t OtherDIM,\s*typename std::enable_if<([^;{}]*?),\s*bool\s*>::type\s*=\s*false>\s*'
                             r'FASTOR_INLINE\s+void\s+assign(_add|_sub|_mul|_div|)\s*\(\s*AbstractTensor<Derived,\s*DIM>\s*&\s*dst\s*,\s*const\s+BinaryMatMulOp<TLhs,\s*TRhs,\s*OtherDIM>\s*&\s*src\s*\)\s*\{', txt):
            g = re.fullmatch(r'(!?)' + tv % 'lhs' + r'&&(!?)' + tv % 'rhs', nospace(m.group(1)))
            if not g: raise XErr('assign%s(dst, A %% B): guard not recognised: %s' % (m.group(2), nospace(m.group(1))[:100]))
            lt = g.group(1) == ''; rt = g.group(2) == ''
            i = m.end() - 1; j = match_close(txt, i); b = nospace(txt[i + 1:j])
            mm = re.fullmatch(r'(?:using\w+=typenameBinaryMatMulOp<TLhs,TRhs,OtherDIM>::\w+;)*(lhs_ta\(src\.lhs\(\)\.self\(\)\);)?(rhs_tb\(src\.rhs\(\)\.self\(\)\);)?'
                              r'internal::matmul_dispatcher(_mul|_div|)\((?:\(T\)(-?1),)?(a|src\.lhs\(\)\.self\(\)),(b|src\.rhs\(\)\.self\(\)),(?:\(T\)(-?1),)?dst\.self\(\)\);', b)
            if not mm: raise XErr('assign%s(dst, A %% B): body not recognised: %s' % (m.group(2), b[:120]))
            sa, sb, disp, alpha, la, ra, beta = mm.groups()
            if (la == 'a') != bool(sa) or (ra == 'b') != bool(sb): raise XErr('assign%s(dst, A %% B): staged copies and arguments do not match' % m.group(2))
            if (alpha is None) != (beta is None): raise XErr('assign%s(dst, A %% B): alpha without beta' % m.group(2))
            items.append('(%d, %s, %s, %s, %s, %d, (%s)%%Z, (%s)%%Z)' % (OPN[m.group(2)], B(lt), B(rt), B(bool(sa)), B(bool(sb)), {'': 0 if alpha is None else 1, '_mul': 2, '_div': 3}[disp], alpha or '0', beta or '0'))
        if len(items) != 20: raise XErr('%d assign*(dst, A %% B) functions (20 expected)' % len(items))
        return '[' + (';' + NL).join(items) + ']'
    G.define('gen_lazy_matmul_assign', '', 'list (nat * bool * bool * bool * bool * nat * Z * Z)', lazy_matmul_assign,
             LO + 'binary_matmul_op.h: assign[_add|..](dst, A % B) for one product: (operator, selected when A is a tensor, when B is a tensor, A is first copied into a tensor, B is first copied, '
             'dispatcher 0 out = A*B, 1 out = alpha*A*B + beta*out, 2 out *= A*B, 3 out /= A*B, alpha, beta); the translator accepts only the operands in the order (A, B) and dst as the output')
    # ---- expressions/linalg_ops/unary_qr_op.h: row-wise modified Gram-Schmidt, statement by statement
    def qr_parse():
        txt = strip_comments(G.src(LO + 'unary_qr_op.h'))
        body, _ = find_scope(txt, r'void\s+qr_mgsr_dispatcher\s*\(const\s+Tensor<T,M,N>\s*&A0,\s*Tensor<T,M,N>&\s*Q,\s*Tensor<T,M,N>&\s*R\)\s*\{', 0)
        ix = r'\(([^()]*)\)'
        pat = (r'Tensor<T,M,N>A\(A0\);R\.fill\(0\);for\(size_ti=0;i<N;\+\+i\)\{'
               r'TR_ii=0;for\(size_tk=0;k<M;\+\+k\)\{R_ii\+=A' + ix + r'\*A' + ix + r';\}R_ii=sqrts\(R_ii\);R' + ix + r'=R_ii;'
               r'for\(size_tk=0;k<M;\+\+k\)\{Q' + ix + r'=A' + ix + r'/R_ii;\}'
               r'for\(size_tk=0;k<M;\+\+k\)\{for\(size_tj=([^;]*);j<N;\+\+j\)\{R' + ix + r'\+=Q' + ix + r'\*A' + ix + r';\}\}'
               r'for\(size_tk=0;k<M;\+\+k\)\{for\(size_tj=([^;]*);j<N;\+\+j\)\{A' + ix + r'-=Q' + ix + r'\*R' + ix + r';\}\}\}')
        m = re.fullmatch(pat, nospace(body))
        if not m: raise XErr('qr_mgsr_dispatcher: statement structure not recognised (copy, R.fill(0), outer loop over columns with steps 1-4)')
        return m.groups()
    def qr_indices():
        g = qr_parse(); env = ids(['i', 'j', 'k']); out = []
        for t in g[:5] + g[6:9] + g[10:]:
            a = split_top(t)
            if len(a) != 2: raise XErr('index list: ' + t)
            out.append('(%s, %s)' % (translate(a[0], 'nat', env, ())[0], translate(a[1], 'nat', env, ())[0]))
        return '[' + '; '.join(out) + ']'
    G.define('gen_qr_mgs_indices', '(i j k : nat)', 'list (nat * nat)', qr_indices,
             LO + 'unary_qr_op.h qr_mgsr_dispatcher: the (row, column) of every matrix access, source order: step 1 R_ii += A(.)*A(.) over k < M, R(.) = sqrts(R_ii); step 2 Q(.) = A(.)/R_ii over k < M; '
             'step 3 R(.) += Q(.)*A(.) over k < M, j0 <= j < N; step 4 A(.) -= Q(.)*R(.) over the same range; the translator accepts only this statement structure inside for (i = 0; i < N; ++i), after A = copy of A0 and R.fill(0)')
    def qr_starts():
        g = qr_parse(); env = ids(['i'])
        return '[%s; %s]' % (translate(g[5], 'nat', env, ())[0], translate(g[9], 'nat', env, ())[0])
    G.define('gen_qr_mgs_inner_start', '(i : nat)', 'list nat', qr_starts, LO + 'unary_qr_op.h qr_mgsr_dispatcher: first column j0 of the inner loops of steps 3 and 4')
    # ---- tensor/TensorFunctions.h: tocolumnmajor / torowmajor (C20)
    TF = 'tensor/TensorFunctions.h'
    def layout_parse(name):
        txt = strip_comments(G.src(TF))
        body, _ = find_scope(txt, r'FASTOR_INLINE\s+Tensor<T,Rest\.\.\.>\s+' + name + r'\s*\(const\s+TensorType<T,Rest\.\.\.>\s*&a\)\s*\{', 0)
        pat = (r'constexprintDimension=sizeof\.\.\.\(Rest\);if\(Dimension<2\)\{returna;\}else\{Tensor<T,Rest\.\.\.>out;T\*arr_out=out\.data\(\);constT\*a_data=a\.data\(\);'
               r'if\(Dimension==2\)\{constexprFASTOR_INDEXM=get_value<1,Rest\.\.\.>::value;constexprFASTOR_INDEXN=get_value<2,Rest\.\.\.>::value;'
               r'for\(FASTOR_INDEXi=0;i<M;\+\+i\)\{for\(FASTOR_INDEXj=0;j<N;\+\+j\)\{arr_out\[([^\]]*)\]=a_data\[([^\]]*)\];\}\}\}'
               r'else\{constexprintSize=pack_prod<Rest\.\.\.>::value;std::array<size_t,Dimension>products_=nprods_views<Index<Rest\.\.\.>,typenamestd_ext::make_index_sequence<Dimension>::type>::values;'
               r'FASTOR_INDEXDimensionHolder\[Dimension\]=\{Rest\.\.\.\};std::reverse\(DimensionHolder,DimensionHolder\+Dimension\);std::reverse\(products_\.begin\(\),products_\.end\(\)\);'
               r'std::array<int,Dimension>as=\{\};intjt;FASTOR_INDEXcounter=0;while\(counter<Size\)\{FASTOR_INDEXindex=0;for\(intii=0;ii<Dimension;\+\+ii\)\{index\+=products_\[ii\]\*as\[ii\];\}'
               r'arr_out\[(index|counter)\]=a_data\[(index|counter)\];counter\+\+;for\(jt=Dimension-1;jt>=0;jt--\)\{as\[jt\]\+=1;if\(as\[jt\]<DimensionHolder\[jt\]\)break;elseas\[jt\]=0;\}if\(jt<0\)break;\}\}returnout;\}')
        m = re.fullmatch(pat, nospace(body))
        if not m: raise XErr(name + ': body not recognised (rank < 2: copy; rank 2: double loop; otherwise the odometer over the reversed extents with index = sum products_[ii]*as[ii])')
        return m.groups()
    def layout2d(name):
        def fn():
            g = layout_parse(name); env = ids(['M', 'N', 'i', 'j'])
            return '(%s, %s)' % (translate(g[0], 'nat', env, ())[0], translate(g[1], 'nat', env, ())[0])
        return fn
    G.define('gen_tocolumnmajor_2d', '(M N i j : nat)', '(nat * nat)', layout2d('tocolumnmajor'), TF + ': tocolumnmajor, rank 2: arr_out[fst] = a_data[snd] for i < M, j < N')
    G.define('gen_torowmajor_2d', '(M N i j : nat)', '(nat * nat)', layout2d('torowmajor'), TF + ': torowmajor, rank 2: arr_out[fst] = a_data[snd] for i < M, j < N')
    def layout_general():
        c = layout_parse('tocolumnmajor'); r = layout_parse('torowmajor')
        return '[(%s, %s); (%s, %s)]' % (B(c[2] == 'index'), B(c[3] == 'index'), B(r[2] == 'index'), B(r[3] == 'index'))
    G.define('gen_layout_general', '', 'list (bool * bool)', layout_general,
             TF + ': rank > 2, [tocolumnmajor; torowmajor]: (the destination is addressed by `index`, the source is addressed by `index`) - the other side by the running counter; '
             'both functions run the same odometer over the reversed extents with index = sum of products_[ii]*as[ii] (the translator accepts nothing else)')
    def map_functions():
        txt = strip_comments(G.src(TF)); out = []
        for name, ret in [('squeeze', r'index_to_tensor_map_t<T,filter_t<1,Rest\.\.\.>>'), ('reshape', r'TensorMap<T,shapes\.\.\.>'), ('flatten', r'TensorMap<T,pack_prod<Rest\.\.\.>::value>')]:
            ms = list(re.finditer(r'\b' + name + r'\s*\(const\s+(?:TensorType|Tensor)<T,Rest\.\.\.>\s*&a\)\s*\{', txt))
            if len(ms) != 1: raise XErr('%d definitions of %s(const Tensor&)' % (len(ms), name))
            i = ms[0].end() - 1; j = match_close(txt, i); b = nospace(txt[i + 1:j])
            head = nospace(txt[max(0, ms[0].start() - 160):ms[0].start()])
            ok = bool(re.fullmatch(r'(?:static_assert\(pack_prod<shapes\.\.\.>::value==pack_prod<Rest\.\.\.>::value,"[^"]*"\);)?return' + ret + r'\(a\.data\(\)\);', b)) and bool(re.search(ret + r'$', head))
            out.append(B(ok))
        tm = strip_comments(G.src('tensor/TensorMap.h'))
        m = re.search(r'static\s+constexpr\s+FASTOR_INLINE\s+bool\s+is_aligned\s*\(\s*\)\s*\{\s*return\s+(\w+)\s*;', tm)
        if not m: raise XErr('TensorMap::is_aligned() not found')
        out.append(B(m.group(1) == 'false'))
        return '[' + '; '.join(out) + ']'
    G.define('gen_map_functions', '', 'list bool', map_functions,
             TF + ' / tensor/TensorMap.h: [squeeze; reshape; flatten] return their declared map type constructed from a.data() (the same storage, no copy); last entry: TensorMap::is_aligned() is the constant false')
    # ---- simd_vector/simd_vector_{double,float}.h: which intrinsic every arithmetic operator of the floating SIMD types issues (C08)
    def simd_fp_operators():
        items = []
        WC = {'sse': 1, 'avx': 2, 'avx512': 3, '128': 1, '256': 2, '512': 3, '_mm': 1, '_mm256': 2, '_mm512': 3}
        STEM = {'add': 1, 'sub': 2, 'mul': 3, 'div': 4, 'neg': 5}
        for ti, (fn, ty, suf) in enumerate([('simd_vector_double.h', 'double', 'pd'), ('simd_vector_float.h', 'float', 'ps')]):
            txt = strip_comments(G.src('simd_vector/' + fn))
            scopes = []
            for m in re.finditer(r'struct\s+SIMDVector\s*<\s*' + ty + r'\s*,\s*simd_abi::(\w+)\s*>\s*\{', txt):
                scopes.append((m.end() - 1, match_close(txt, m.end() - 1), m.group(1)))
            n0 = len(items)
            for m in re.finditer(r'operator\s*([-+*/])(=?)\s*\(([^)]*)\)\s*(?:const\s*)?\{', txt):
                i = m.end() - 1; j = match_close(txt, i); body = txt[i + 1:j]
                w = set(WC[x] for x in re.findall(r'simd_abi::(\w+)', m.group(3)) if x in WC) | set(WC[x] for x in re.findall(r'__m(128|256|512)', m.group(3)))
                w |= set(WC[a] for (lo, hi, a) in scopes if lo < m.start() < hi and a in WC)
                if len(w) != 1: raise XErr('%s: operator%s%s(%s): vector width of the overload not determined (%s)' % (fn, m.group(1), m.group(2), m.group(3).strip()[:40], sorted(w)))
                ins = re.findall(r'\b(_mm(?:256|512)?)_(\w+?)_(\w+)\s*\(', body)
                other = [x for x in re.findall(r'\b(_mm\w*)\s*\(', body) if not re.fullmatch(r'_mm(?:256|512)?_\w+?_\w+', x)]
                if other: raise XErr('%s: operator%s%s: intrinsic %s' % (fn, m.group(1), m.group(2), other[0]))
                main = [x for x in ins if x[1] != 'set1']
                if len(main) > 1: raise XErr('%s: operator%s%s issues several arithmetic intrinsics: %s' % (fn, m.group(1), m.group(2), main))
                if main and main[0][1] not in STEM: raise XErr('%s: operator%s%s issues %s' % (fn, m.group(1), m.group(2), '_'.join(main[0])))
                iw = set(WC[x[0]] for x in ins)
                if len(iw) > 1: raise XErr('%s: operator%s%s mixes vector widths' % (fn, m.group(1), m.group(2)))
                items.append('(%d, %d, %s, %d, %d, %d, %s)' % (ti, OPS[m.group(1)], B(m.group(2) == '='), w.pop(), iw.pop() if iw else 0, STEM[main[0][1]] if main else 0, B(all(x[2] == suf for x in ins))))
            if len(items) - n0 < 60: raise XErr('%s: only %d arithmetic operators found' % (fn, len(items) - n0))
        return '[' + (';' + NL).join(items) + ']'
    G.define('gen_simd_fp_operators', '', 'list (nat * nat * bool * nat * nat * nat * bool)', simd_fp_operators,
             'simd_vector/simd_vector_{double,float}.h: every operator + - * / (member compound forms and free functions) of the sse / avx / avx512 vector types: '
             '(0 double 1 float, operator 1 + 2 - 3 * 4 /, compound, vector width of the overload 1 sse 2 avx 3 avx512 (enclosing type or parameter types), width of the intrinsics it issues (0: none), '
             'the one arithmetic intrinsic besides set1: 1 add 2 sub 3 mul 4 div 5 neg 0 none, every intrinsic carries the suffix of the element type pd / ps)')
    # ---- tensor_algebra/network_contraction.h + meta/opmin_meta.h: the three pairwise orders of a three-tensor network (C15)
    def network3():
        om = nospace(strip_comments(G.src('meta/opmin_meta.h')))
        i0 = om.find('structtriplet_flop_cost<Index<Idx0...>,Index<Idx1...>,Index<Idx2...>,')
        if i0 < 0: raise XErr('triplet_flop_cost specialisation not found')
        sec = om[i0:om.find('};', i0)]
        ri = {}
        for m in re.finditer(r'usingresulting_(index|tensor)_(\d)=typenameget_resuling_(index|tensor)<Index<Idx(\d)\.\.\.>,Index<Idx(\d)\.\.\.>,Tensor<T,Rest(\d)\.\.\.>,Tensor<T,Rest(\d)\.\.\.>>::type;', sec):
            kind, k, kind2, a, b, ra, rb = m.groups()
            if kind != kind2 or (a, b) != (ra, rb): raise XErr('resulting_%s_%s: index lists and tensors do not correspond' % (kind, k))
            ri.setdefault(int(k), {})[kind] = (int(a), int(b))
        if sorted(ri) != [0, 1, 2] or any(v.get('index') != v.get('tensor') for v in ri.values()): raise XErr('resulting_index_k / resulting_tensor_k: %s' % ri)
        mv = re.search(r'staticconstexprintwhich_variant=meta_argmin<flop_count_01,flop_count_02,flop_count_12,flop_count_012>::value;', sec)
        if not mv: raise XErr('which_variant is not the argmin of (flop_count_01, flop_count_02, flop_count_12, flop_count_012)')
        nc = strip_comments(G.src('tensor_algebra/network_contraction.h'))
        body, _ = find_scope(nc, r'contract_impl\s*\(const\s+Tensor<T,Rest0\.\.\.>\s*&a,\s*const\s+Tensor<T,Rest1\.\.\.>\s*&b,\s*const\s+Tensor<T,Rest2\.\.\.>\s*&c\)\s*\{', 0)
        b = nospace(preprocess(body, set()))
        for k in range(3):
            if 'usingresulting_index_%d=typenamecost_model::resulting_index_%d;' % (k, k) not in b: raise XErr('resulting_index_%d is not cost_model::resulting_index_%d' % (k, k))
        if 'constexprintwhich_variant=cost_model::which_variant;' not in b: raise XErr('which_variant is not cost_model::which_variant')
        idx = r'(?:Index<Idx(\d)\.\.\.>|resulting_index_(\d))'
        br = (r'autotmp=einsum<Index<Idx(\d)\.\.\.>,Index<Idx(\d)\.\.\.>>\(([abc]),([abc])\);returneinsum<' + idx + ',' + idx + r'>\((tmp|[abc]),(tmp|[abc])\);')
        m = re.search(r'FASTOR_IF_CONSTEXPR\(which_variant==0\)\{' + br + r'\}elseFASTOR_IF_CONSTEXPR\(which_variant==1\)\{' + br + r'\}else\{' + br + r'\}', b)
        if not m: raise XErr('the three branches on which_variant (tmp = einsum of a pair; return einsum of tmp with the third) not recognised')
        g = m.groups(); rows = []; L = {'a': 0, 'b': 1, 'c': 2}
        for v in range(3):
            A, Bi, oa, ob, l_idx, l_res, r_idx, r_res, p, q = g[v * 10:(v + 1) * 10]
            tmp_first = p == 'tmp'
            if (p == 'tmp') == (q == 'tmp'): raise XErr('variant %d: tmp must be exactly one operand of the second einsum' % v)
            res = l_res if tmp_first else r_res; other_idx = r_idx if tmp_first else l_idx; other = q if tmp_first else p
            if res is None or other_idx is None: raise XErr('variant %d: the index list at the position of tmp is not a resulting_index / the other is not an Index<Idx...>' % v)
            rows.append('(%d, (%d, %d), (%d, %d), %d, (%d, %d), %d, %d, %s)' % (v, int(A), int(Bi), L[oa], L[ob], int(res), ri[int(res)]['index'][0], ri[int(res)]['index'][1], int(other_idx), L[other], B(tmp_first)))
        return '[' + (';' + NL).join(rows) + ']'
    G.define('gen_network3', '', 'list (nat * (nat * nat) * (nat * nat) * nat * (nat * nat) * nat * nat * bool)', network3,
             'tensor_algebra/network_contraction.h extractor_contract_3::contract_impl with meta/opmin_meta.h triplet_flop_cost: per branch of which_variant (= argmin of the three pairwise costs and the single-evaluation cost): '
             '(variant, index lists of the first einsum, its operands (0 a 1 b 2 c), k of the resulting_index_k given to tmp, the pair resulting_index_k is defined from in the cost model, '
             'index list and operand of the third tensor, tmp is the first operand of the second einsum); tensors and index lists of resulting_*_k correspond (checked by the translator)')
    # ---- simd_vector/simd_vector_*.h: every alignment-requiring load / store intrinsic of the SIMD vector classes is guarded (C07)
    def simd_aligned_sites():
        AL = r'\b_mm(?:256|512)?_(?:mask_|maskz_)?(?:load|store|stream)_(?:pd|ps|si128|si256|si512|epi32|epi64)\b'
        def headers(txt, pos):
            out = []; depth = 0; k = pos
            while k > 0:
                k -= 1
                if txt[k] == '}': depth += 1
                elif txt[k] == '{':
                    if depth == 0: out.append(' '.join(txt[max(0, k - 160):k].split()))
                    else: depth -= 1
            return out
        def classify(txt, m):
            pre = txt[:m.start()]
            k = max(pre.rfind(';'), pre.rfind('{'), pre.rfind('}'))
            lead = re.sub(r'^#\w+ \w+ ', '', ' '.join(pre[k + 1:].split()))
            if re.match(r'if \(Aligned\)', lead): return 1
            if re.match(r'else\b', lead) and re.search(r'if\s*\(\s*!\s*Aligned\s*\)[^;{}]*;\s*$', pre[:k + 1]): return 2
            for h in headers(txt, m.start()):
                if re.search(r'if \(Aligned\)$', h): return 3
                if re.search(r'aligned_(load|store) ?\([^()]*\)( const)?$', h): return 5
                if re.search(r'\)( const)?$', h) and not re.search(r'\b(if|for|while|switch) ?\([^()]*\)$', h): return 0
            return 0
        items = []
        for fi, fn in enumerate(['simd_vector_double.h', 'simd_vector_float.h', 'simd_vector_int32.h', 'simd_vector_int64.h', 'simd_vector_complex_double.h', 'simd_vector_complex_float.h']):
            txt = strip_comments(G.src('simd_vector/' + fn)); n0 = len(items)
            for m in re.finditer(AL, txt): items.append('(%d, %d)' % (fi, classify(txt, m)))
            if len(items) - n0 < 15: raise XErr('%s: only %d alignment-requiring intrinsics found' % (fn, len(items) - n0))
        return '[' + '; '.join(items) + ']'
    G.define('gen_simd_aligned_sites', '', 'list (nat * nat)', simd_aligned_sites,
             'simd_vector/simd_vector_{double,float,int32,int64,complex_double,complex_float}.h: every alignment-requiring load / store / stream intrinsic (plain and masked): (file, how it is guarded: '
             '1 the statement under `if (Aligned)`, 2 the else of `if (!Aligned)`, 3 inside a block under `if (Aligned)`, 5 inside aligned_load / aligned_store, 0 not guarded)')
    def simd_aligned_defaults():
        items = []
        for fi, fn in enumerate(['simd_vector_double.h', 'simd_vector_float.h', 'simd_vector_int32.h', 'simd_vector_int64.h', 'simd_vector_complex_double.h', 'simd_vector_complex_float.h']):
            txt = strip_comments(G.src('simd_vector/' + fn)); n0 = len(items)
            for m in re.finditer(r'\b(mask_load|mask_store|load|store|SIMDVector)\s*\(([^()]*)\bbool\s+Aligned\s*=\s*(true|false)\s*\)', txt):
                items.append('(%d, %s, %s)' % (fi, B(m.group(1).startswith('mask_')), m.group(3)))
            if len(items) - n0 < 9: raise XErr('%s: only %d defaulted Aligned parameters found' % (fn, len(items) - n0))
        return '[' + '; '.join(items) + ']'
    G.define('gen_simd_aligned_defaults', '', 'list (nat * bool * bool)', simd_aligned_defaults,
             'simd_vector/simd_vector_*.h: the default of every `bool Aligned` parameter: (file, the function is mask_load / mask_store, default value)')
    hdr = ('(** GENERATED by lib/cxx2v.py from the C++ source of /repo on every run -- do not edit.\n'
           '    Index expression of every operand / result access of the transpose and matmul kernels;\n'
           '    structure of the reductions and predicates of AbstractTensorFunctions.h. *)\n'
           'From Coq Require Import Arith List Bool String ZArith.\nImport ListNotations.\n\n')
    return G, hdr + '\n'.join(G.defs)

def write_generated(repo, coqdir):
    """regenerate coq/Gen/Generated.v from the source (written only when its text changes, so that make
    re-checks the proofs exactly when the translation changed); returns the list of failed translations"""
    G = gen_all(repo)
    os.makedirs(os.path.join(coqdir, 'Gen'), exist_ok=True)
    p = os.path.join(coqdir, 'Gen', 'Generated.v'); txt = G.text()
    if not os.path.exists(p) or open(p).read() != txt:
        open(p, 'w').write(txt)
    G2, txt2 = gen_linalg(repo)
    p2 = os.path.join(coqdir, 'Gen', 'GeneratedLinalg.v')
    if not os.path.exists(p2) or open(p2).read() != txt2:
        open(p2, 'w').write(txt2)
    G3, txt3 = gen_views(repo)
    p3 = os.path.join(coqdir, 'Gen', 'GeneratedViews.v')
    if not os.path.exists(p3) or open(p3).read() != txt3:
        open(p3, 'w').write(txt3)
    G4, txt4 = gen_access(repo)
    p4 = os.path.join(coqdir, 'Gen', 'GeneratedAccess.v')
    if not os.path.exists(p4) or open(p4).read() != txt4:
        open(p4, 'w').write(txt4)
    return (G.failed + G2.failed + G3.failed + G4.failed,
            sum(len(g.defs) - len(g.failed) for g in (G, G2, G3, G4)))

if __name__ == '__main__':
    repo = sys.argv[1] if len(sys.argv) > 1 else os.environ.get('FASTOR_REPO', '/repo')
    here = os.path.dirname(os.path.dirname(os.path.abspath(__file__)))
    failed, n = write_generated(repo, os.path.join(here, 'coq'))
    print('cxx2v: %d definitions translated, %d failed' % (n, len(failed)))
    for f in failed: print('  FAILED %s (%s): %s' % f)
    sys.exit(1 if failed else 0)
