// C10-C13 harness: inverse / LU / solve / QR for one size NN and one element type TY (-DNN=.. -DTY=..).
// Every residual is computed in long double from the library's float/double output; Python judges the bounds.
//   I <strategy> <fam> <seed> <|AX-I|> <|XA-I|> <|A|> <|X|>                         (C10, infinity norms)
//   T <upper|unilower> <fam> <seed> <|AX-I|> <|XA-I|> <|A|> <|X|> <nonzeros in the other triangle of X>
//   B <seed> <max over the batch of |AX-I|> <|A|> <|X|>                                (batched inverse)
//   L <strategy> <pivot encoding> <fam> <seed> <|LU-PA|> <| |L||U| |> <|A|> <structure errors> <perm ok> <|reconstruct-A|> <reference growth>
//   S <strategy> <ncols> <fam> <seed> <|AX-B|> <|A|> <|X|> <|B|> <|A^-1| estimate>
//   Q <strategy> <fam> <seed> <|QtQ-I|> <|QR-PA|> <|A|> <nonzeros below diag of R> <perm ok> <|det_qr| - |prod diag R|> <prod>
#include <Fastor/Fastor.h>
#include "vh.h"
#include <cmath>
#include <vector>
using namespace Fastor;
#ifndef NN
#define NN 5
#endif
#ifndef TY
#define TY double
#endif
#ifndef NSEEDS
#define NSEEDS 3
#endif
typedef TY T; typedef long double LD; static constexpr size_t N = NN;

template<size_t R_, size_t C_> static void praw(const Tensor<T,R_,C_>& M) { std::printf(" :"); for (size_t i = 0; i < R_; ++i) for (size_t j = 0; j < C_; ++j) vh_put(M(i, j)); }
static const bool RAW = (NN <= 9) && (sizeof(T) == 8);
// a maximum that does not lose a NaN (std::max(x, NaN) returns x)
static inline LD nmax(LD a, LD b) { if (!(b == b) || !(a == a)) return 1e300L; return a < b ? b : a; }
static void pl(LD v) { std::printf(" %.6Le", v); }

// ---- matrix families (entries are built in long double, then rounded to T)
static Tensor<T,N,N> gen(int fam, long seed) {
    vh_lcg g(seed * 7919 + fam * 131 + N); Tensor<T,N,N> A;
    auto rnd = [&](int lo, int hi) { return (LD)(lo + (long)(g.next() % (unsigned long)(hi - lo + 1))); };
    if (fam == 6) {                        // diagonally dominant, last row purely diagonal, then first and last rows exchanged: the leading blocks are
        Tensor<T,N,N> D = gen(0, seed);    // singular (zero first row) unless the rows are pivoted back - only pivoted strategies are defined on it
        for (size_t j = 0; j + 1 < N; ++j) D(N - 1, j) = 0;
        for (size_t j = 0; j < N; ++j) { A(0, j) = D(N - 1, j); A(N - 1, j) = D(0, j); }
        for (size_t i = 1; i + 1 < N; ++i) for (size_t j = 0; j < N; ++j) A(i, j) = D(i, j);
        if (N == 1) A(0, 0) = D(0, 0);
        return A;
    }
    if (fam == 0 || fam == 1) {            // strictly diagonally dominant, small integer entries; fam 1: rows permuted
        std::vector<LD> M(N * N);
        for (size_t i = 0; i < N; ++i) { LD s = 0; for (size_t j = 0; j < N; ++j) if (i != j) { M[i * N + j] = rnd(-3, 3); s += std::fabs(M[i * N + j]); } M[i * N + i] = (s + 1 + (i % 3)) * ((i % 2) ? -1 : 1); }
        std::vector<size_t> p(N); for (size_t i = 0; i < N; ++i) p[i] = i;
        if (fam == 1) for (size_t i = N - 1; i > 0; --i) { size_t j = g.next() % (i + 1); std::swap(p[i], p[j]); }
        for (size_t i = 0; i < N; ++i) for (size_t j = 0; j < N; ++j) A(i, j) = (T)M[p[i] * N + j];
    } else if (fam == 2) {                 // unimodular integer matrix: unit lower times unit upper, small entries (integer inverse)
        std::vector<LD> Lo(N * N, 0), Up(N * N, 0);
        for (size_t i = 0; i < N; ++i) for (size_t j = 0; j < N; ++j) { if (i == j) Lo[i * N + j] = Up[i * N + j] = 1; else if (j < i && i - j <= 2) Lo[i * N + j] = rnd(-1, 1); else if (j > i && j - i <= 2) Up[i * N + j] = rnd(-1, 1); }
        for (size_t i = 0; i < N; ++i) for (size_t j = 0; j < N; ++j) { LD s = 0; for (size_t k = 0; k < N; ++k) s += Lo[i * N + k] * Up[k * N + j]; A(i, j) = (T)s; }
    } else {                               // H1 * diag * H2 with Householder reflections: condition number 10 (fam 3), 1000 (fam 4), 1e5 (fam 5)
        const LD cond = fam == 3 ? 10.0L : fam == 4 ? 1000.0L : 100000.0L; std::vector<LD> u(N), v(N), D(N);
        LD nu = 0, nv = 0; for (size_t i = 0; i < N; ++i) { u[i] = rnd(-5, 5) + 0.5L; v[i] = rnd(-5, 5) - 0.25L; nu += u[i] * u[i]; nv += v[i] * v[i]; }
        for (size_t i = 0; i < N; ++i) D[i] = N == 1 ? 1.0L : std::pow(cond, -(LD)i / (LD)(N - 1));
        for (size_t i = 0; i < N; ++i) for (size_t j = 0; j < N; ++j) { LD s = 0; for (size_t k = 0; k < N; ++k) { const LD h1 = (i == k ? 1.0L : 0.0L) - 2 * u[i] * u[k] / nu; const LD h2 = (k == j ? 1.0L : 0.0L) - 2 * v[k] * v[j] / nv; s += h1 * D[k] * h2; } A(i, j) = (T)(4 * s); }
    }
    return A;
}
template<size_t R, size_t C> static LD inf_norm(const Tensor<T,R,C>& A) { LD m = 0; for (size_t i = 0; i < R; ++i) { LD s = 0; for (size_t j = 0; j < C; ++j) s += std::fabs((LD)A(i, j)); m = nmax(m, s); } return m; }
// |A*X - I|_inf
static LD res_id(const Tensor<T,N,N>& A, const Tensor<T,N,N>& X) { LD m = 0; for (size_t i = 0; i < N; ++i) { LD s = 0; for (size_t j = 0; j < N; ++j) { LD e = (i == j) ? -1.0L : 0.0L; for (size_t k = 0; k < N; ++k) e += (LD)A(i, k) * (LD)X(k, j); s += std::fabs(e); } m = nmax(m, s); } if (!(m == m)) m = 1e300L; return m; }
static bool finite_all(const T* p, size_t n) { for (size_t i = 0; i < n; ++i) if (!(std::fabs((double)p[i]) < 1e300)) return false; return true; }

// growth of unpivoted Gaussian elimination on M, in long double: | |L||U| |_inf / |M|_inf  (1e300 on a zero pivot)
static LD growth(const Tensor<T,N,N>& M) {
    std::vector<LD> L(N * N, 0), U(N * N, 0);
    for (size_t j = 0; j < N; ++j) { L[j * N + j] = 1;
        for (size_t i = 0; i <= j; ++i) { LD v = (LD)M(i, j); for (size_t k = 0; k < i; ++k) v -= L[i * N + k] * U[k * N + j]; U[i * N + j] = v; }
        if (U[j * N + j] == 0) return 1e300L;
        for (size_t i = j + 1; i < N; ++i) { LD v = (LD)M(i, j); for (size_t k = 0; k < j; ++k) v -= L[i * N + k] * U[k * N + j]; L[i * N + j] = v / U[j * N + j]; } }
    LD g = 0; for (size_t i = 0; i < N; ++i) { LD sr = 0; for (size_t j = 0; j < N; ++j) { LD a = 0; for (size_t k = 0; k < N; ++k) a += std::fabs(L[i * N + k] * U[k * N + j]); sr += a; } g = nmax(g, sr); }
    const LD na = inf_norm(M); return na > 0 ? g / na : 1e300L;
}
// max over k of |inverse(leading k x k block)|_inf * |M|_inf, in long double (Gauss-Jordan with partial pivoting); 1e300 if a block is singular
static LD lead_cond(const Tensor<T,N,N>& M) {
    LD worst = 0;
    for (size_t k = 1; k <= N; ++k) {
        std::vector<LD> a(k * 2 * k, 0);
        for (size_t i = 0; i < k; ++i) { for (size_t j = 0; j < k; ++j) a[i * 2 * k + j] = (LD)M(i, j); a[i * 2 * k + k + i] = 1; }
        for (size_t c = 0; c < k; ++c) {
            size_t p = c; for (size_t r = c + 1; r < k; ++r) if (std::fabs(a[r * 2 * k + c]) > std::fabs(a[p * 2 * k + c])) p = r;
            if (a[p * 2 * k + c] == 0) return 1e300L;
            if (p != c) for (size_t j = 0; j < 2 * k; ++j) std::swap(a[p * 2 * k + j], a[c * 2 * k + j]);
            const LD d = a[c * 2 * k + c]; for (size_t j = 0; j < 2 * k; ++j) a[c * 2 * k + j] /= d;
            for (size_t r = 0; r < k; ++r) if (r != c) { const LD f = a[r * 2 * k + c]; if (f != 0) for (size_t j = 0; j < 2 * k; ++j) a[r * 2 * k + j] -= f * a[c * 2 * k + j]; }
        }
        LD m = 0; for (size_t i = 0; i < k; ++i) { LD srow = 0; for (size_t j = 0; j < k; ++j) srow += std::fabs(a[i * 2 * k + k + j]); m = nmax(m, srow); }
        worst = nmax(worst, m);
    }
    return worst * inf_norm(M);
}
static LD lead_cond_piv(const Tensor<T,N,N>& A) { Tensor<size_t,N> P; pivot_inplace(A, P); Tensor<T,N,N> B = apply_pivot(A, P); return lead_cond(B); }
static LD growth_piv(const Tensor<T,N,N>& A) { Tensor<size_t,N> P; pivot_inplace(A, P); Tensor<T,N,N> B = apply_pivot(A, P); return growth(B); }
static const int FAMS[] = { 0, 2, 3, 4 }; static const int PFAMS[] = { 0, 1, 2, 3, 4, 6 }; static const int NPF = 6;

#if WHICH == 10
template<InvCompType S> static void inv_one(const char* name, bool piv) {
    for (int fi = 0; fi < (piv ? NPF : 4); ++fi) for (long sd = 0; sd < NSEEDS; ++sd) {
        const int fam = piv ? PFAMS[fi] : FAMS[fi]; const Tensor<T,N,N> A = gen(fam, sd); const Tensor<T,N,N> X = inverse<S>(A);
        std::printf("I %s %d %ld", name, fam, sd); pl(res_id(A, X)); pl(res_id(X, A)); pl(inf_norm(A)); pl(inf_norm(X)); pl(piv ? growth_piv(A) : growth(A)); pl(piv ? lead_cond_piv(A) : lead_cond(A)); std::printf("\n");
        if (RAW && fam == 2 && !piv) { std::printf("R inv %s %ld", name, sd); praw(A); praw(X); std::printf("\n"); }
    }
}
static void c10() {
    inv_one<InvCompType::SimpleInv>("SimpleInv", false); inv_one<InvCompType::SimpleInvPiv>("SimpleInvPiv", true);
    inv_one<InvCompType::BlockLU>("BlockLU", false); inv_one<InvCompType::BlockLUPiv>("BlockLUPiv", true);
    inv_one<InvCompType::SimpleLU>("SimpleLU", false); inv_one<InvCompType::SimpleLUPiv>("SimpleLUPiv", true);
    for (int fi = 0; fi < 4; ++fi) for (long sd = 0; sd < NSEEDS; ++sd) {      // lazy inv() in an expression, and inverse of an expression
        const int fam = FAMS[fi]; const Tensor<T,N,N> A = gen(fam, sd); Tensor<T,N,N> X = inv(A); Tensor<T,N,N> Y = inverse(A + A);
        std::printf("I lazy_inv %d %ld", fam, sd); pl(res_id(A, X)); pl(res_id(X, A)); pl(inf_norm(A)); pl(inf_norm(X)); pl(growth(A)); pl(lead_cond(A)); std::printf("\n");
        Tensor<T,N,N> A2 = A + A; std::printf("I inverse_of_expression %d %ld", fam, sd); pl(res_id(A2, Y)); pl(res_id(Y, A2)); pl(inf_norm(A2)); pl(inf_norm(Y)); pl(growth(A2)); pl(lead_cond(A2)); std::printf("\n");
    }
    for (int up = 0; up < 2; ++up) for (long sd = 0; sd < NSEEDS; ++sd) {     // triangular inverses
        Tensor<T,N,N> A = gen(0, sd);
        for (size_t i = 0; i < N; ++i) for (size_t j = 0; j < N; ++j) { if (up ? (j < i) : (j > i)) A(i, j) = 0; if (!up && i == j) A(i, j) = 1; }
        Tensor<T,N,N> X = up ? tinverse<InvCompType::SimpleInv, UpLoType::Upper>(A) : tinverse<InvCompType::SimpleInv, UpLoType::UniLower>(A);
        long nz = 0; for (size_t i = 0; i < N; ++i) for (size_t j = 0; j < N; ++j) if ((up ? (j < i) : (j > i)) && X(i, j) != 0) ++nz;
        std::printf("T %s 0 %ld", up ? "upper" : "unilower", sd); pl(res_id(A, X)); pl(res_id(X, A)); pl(inf_norm(A)); pl(inf_norm(X)); std::printf(" %ld\n", nz);
    }

#if NN <= 4 && NN >= 2
    // closed forms on integer matrices, compared exactly with the kernels translated from the source (Gen/GeneratedLinalg.v):
    //   C <seed> <unimodular?> : A : adj(A) : cof(A) : det(A) : inverse(A) (printed only for the unimodular family, where it is integral)
    for (int fam = 0; fam <= 2; fam += 2) for (long sd = 0; sd < 2 * NSEEDS; ++sd) {
        Tensor<T,N,N> A = gen(fam, sd);
        if (fam == 0) { vh_lcg g(sd * 7 + 3); for (size_t i = 0; i < N; ++i) for (size_t j = 0; j < N; ++j) A(i, j) = (T)((long)(g.next() % 19UL) - 9); }
        Tensor<T,N,N> Ad = adj(A); Tensor<T,N,N> Co = cof(A); const T d = determinant(A);
        std::printf("C %ld %d", sd, fam == 2 ? 1 : 0); praw(A); praw(Ad); praw(Co); std::printf(" :"); vh_put(d);
        if (fam == 2) { Tensor<T,N,N> X = inverse(A); praw(X); }
        std::printf("\n");
    }
#endif
#if NN <= 9
    for (long sd = 0; sd < NSEEDS; ++sd) {                                     // batched inverse over the trailing two axes
        Tensor<T,3,N,N> Bt; Tensor<T,N,N> As[3];
        for (size_t b = 0; b < 3; ++b) { As[b] = gen(b == 1 ? 2 : 0, sd * 3 + b); for (size_t i = 0; i < N; ++i) for (size_t j = 0; j < N; ++j) Bt(b, i, j) = As[b](i, j); }
        Tensor<T,3,N,N> Xt = inverse(Bt); LD worst = 0, na = 0, nx = 0;
        for (size_t b = 0; b < 3; ++b) { Tensor<T,N,N> X; for (size_t i = 0; i < N; ++i) for (size_t j = 0; j < N; ++j) X(i, j) = Xt(b, i, j); worst = nmax(worst, res_id(As[b], X)); na = nmax(na, inf_norm(As[b])); nx = nmax(nx, inf_norm(X)); }
        std::printf("B %ld", sd); pl(worst); pl(na); pl(nx); std::printf("\n");
    }
#endif
}
#endif

#if WHICH == 11
static void report_lu(const char* name, const char* enc, int fam, long sd, const Tensor<T,N,N>& A, const Tensor<T,N,N>& L, const Tensor<T,N,N>& U, const std::vector<size_t>& perm, bool permok, const Tensor<T,N,N>& Rc, LD refgrowth) {
    long st = 0; for (size_t i = 0; i < N; ++i) for (size_t j = 0; j < N; ++j) { if (j > i && L(i, j) != 0) ++st; if (j < i && U(i, j) != 0) ++st; if (i == j && L(i, j) != 1) ++st; }
    LD r = 0, g = 0, rr = 0;
    for (size_t i = 0; i < N; ++i) { LD s = 0, sg = 0, sr = 0; for (size_t j = 0; j < N; ++j) { LD e = -(LD)A(perm[i], j), a = 0; for (size_t k = 0; k < N; ++k) { e += (LD)L(i, k) * (LD)U(k, j); a += std::fabs((LD)L(i, k) * (LD)U(k, j)); } s += std::fabs(e); sg += a; sr += std::fabs((LD)Rc(i, j) - (LD)A(i, j)); } r = nmax(r, s); g = nmax(g, sg); rr = nmax(rr, sr); }
    if (!(r == r)) r = 1e300L; if (!(rr == rr)) rr = 1e300L;
    if (!finite_all(L.data(), N * N) || !finite_all(U.data(), N * N)) g = 1e300L;      // a zero pivot: the strategy is not defined on this matrix
    std::printf("L %s %s %d %ld", name, enc, fam, sd); pl(r); pl(g); pl(inf_norm(A)); std::printf(" %ld %d", st, permok ? 1 : 0); pl(rr); pl(refgrowth); std::printf("\n");
}
template<LUCompType S> static void lu_nopiv(const char* name) {
    for (int fi = 0; fi < 4; ++fi) for (long sd = 0; sd < NSEEDS; ++sd) {
        const int fam = FAMS[fi]; const Tensor<T,N,N> A = gen(fam, sd); Tensor<T,N,N> L, U; L.fill((T)7); U.fill((T)7);      // sentinel: entries the code never writes show up
        lu<S>(A, L, U); std::vector<size_t> id(N); for (size_t i = 0; i < N; ++i) id[i] = i;
        Tensor<T,N,N> Uc = U; Tensor<T,N,N> Rc = reconstruct(L, Uc);
        report_lu(name, "none", fam, sd, A, L, U, id, true, Rc, growth(A));
        if (RAW && fam == 2) { std::printf("R lu %s %ld", name, sd); praw(A); praw(L); praw(U); std::printf("\n"); }
    }
}
template<LUCompType S> static void lu_piv(const char* name) {
    for (int fi = 0; fi < NPF; ++fi) for (long sd = 0; sd < NSEEDS; ++sd) {
        const int fam = PFAMS[fi]; const Tensor<T,N,N> A = gen(fam, sd);
        { Tensor<T,N,N> L, U; L.fill((T)7); U.fill((T)7); Tensor<size_t,N> P; lu<S>(A, L, U, P); std::vector<size_t> perm(N); std::vector<int> seen(N, 0); bool ok = true;
          for (size_t i = 0; i < N; ++i) { perm[i] = P(i) < N ? P(i) : 0; if (P(i) >= N || seen[P(i)]++) ok = false; }
          Tensor<T,N,N> Uc = U; Tensor<T,N,N> Rc = reconstruct(L, Uc, P); report_lu(name, "vector", fam, sd, A, L, U, perm, ok, Rc, growth_piv(A)); }
        { Tensor<T,N,N> L, U, P; L.fill((T)7); U.fill((T)7); lu<S>(A, L, U, P); std::vector<size_t> perm(N, 0); std::vector<int> seen(N, 0); bool ok = true;
          for (size_t i = 0; i < N; ++i) { int ones = 0; for (size_t j = 0; j < N; ++j) { if (P(i, j) == 1) { ++ones; perm[i] = j; } else if (P(i, j) != 0) ok = false; } if (ones != 1 || seen[perm[i]]++) ok = false; }
          Tensor<T,N,N> Uc = U; Tensor<T,N,N> Rc = reconstruct(L, Uc, P); report_lu(name, "matrix", fam, sd, A, L, U, perm, ok, Rc, growth_piv(A)); }
    }
}

// raw records of the permutation helpers on small-integer matrices (ties included), compared exactly with the Coq model (Model/Pivot.v):
//   P <seed> : A : perm (vector pivot) : apply_pivot(A,perm) : reconstruct(A,perm) : reconstruct_colwise(A,perm) : perm read off the matrix pivot
//     : apply_pivot(A,Pmatrix) : apply_pivot_inplace(A,perm) : apply_pivot_inplace(A,Pmatrix) : perm of pivot(expression)
static void piv_records() {
#if NN <= 17
    for (long sd = 0; sd < 2 * NSEEDS; ++sd) {
        vh_lcg g(sd * 104729 + N * 31 + 7); Tensor<T,N,N> A;
        const int span = (sd % 2) ? 3 : 40;                                   // narrow span: many ties in a column
        for (size_t i = 0; i < N; ++i) for (size_t j = 0; j < N; ++j) A(i, j) = (T)((long)(g.next() % (unsigned long)(2 * span + 1)) - span);
        Tensor<size_t,N> P; pivot_inplace(A, P); Tensor<T,N,N> Pm; pivot_inplace(A, Pm);
        auto pperm = [](const Tensor<size_t,N>& Q) { std::printf(" :"); for (size_t i = 0; i < N; ++i) std::printf(" %zu", Q(i)); };
        std::printf("P %ld", sd); praw(A); pperm(P);
        { Tensor<T,N,N> B = apply_pivot(A, P); praw(B); } { Tensor<T,N,N> B = reconstruct(A, P); praw(B); } { Tensor<T,N,N> B = reconstruct_colwise(A, P); praw(B); }
        std::printf(" :"); for (size_t i = 0; i < N; ++i) { long col = -1; int ones = 0; for (size_t j = 0; j < N; ++j) { if (Pm(i, j) == (T)1) { col = (long)j; ++ones; } else if (Pm(i, j) != (T)0) ones = 99; } std::printf(" %ld", ones == 1 ? col : -1L); }
        { Tensor<T,N,N> B = apply_pivot(A, Pm); praw(B); }
        { Tensor<T,N,N> B = A; apply_pivot_inplace(B, P); praw(B); } { Tensor<T,N,N> B = A; apply_pivot_inplace(B, Pm); praw(B); }
        { Tensor<size_t,N> Q = pivot<PivType::V>(A + (T)0 * A); pperm(Q); }
        std::printf("\n");
    }
#endif
}
static void c11() { piv_records(); lu_nopiv<LUCompType::BlockLU>("BlockLU"); lu_nopiv<LUCompType::SimpleLU>("SimpleLU"); lu_piv<LUCompType::BlockLUPiv>("BlockLUPiv"); lu_piv<LUCompType::SimpleLUPiv>("SimpleLUPiv"); }
#endif

#if WHICH == 12
template<size_t C> static void rep_solve(const char* name, int fam, long sd, const Tensor<T,N,N>& A, const Tensor<T,N,C>& B, const Tensor<T,N,C>& X, LD ninv, LD gr = 1, LD lc = 1) {
    LD r = 0; for (size_t i = 0; i < N; ++i) { LD s = 0; for (size_t j = 0; j < C; ++j) { LD e = -(LD)B(i, j); for (size_t k = 0; k < N; ++k) e += (LD)A(i, k) * (LD)X(k, j); s += std::fabs(e); } r = nmax(r, s); }
    if (!(r == r)) r = 1e300L;
    std::printf("S %s %zu %d %ld", name, C, fam, sd); pl(r); pl(inf_norm(A)); pl(inf_norm(X)); pl(inf_norm(B)); pl(ninv); pl(gr); pl(lc); std::printf("\n");
}
template<SolveCompType S, size_t C> static void solve_cols(const char* name, bool piv) {
    for (int fi = 0; fi < (piv ? NPF : 4); ++fi) for (long sd = 0; sd < NSEEDS; ++sd) {
        const int fam = piv ? PFAMS[fi] : FAMS[fi]; const Tensor<T,N,N> A = gen(fam, sd); Tensor<T,N,C> B; vh_fill(B.data(), N * C, sd + 50, -4, 4);
        const LD ninv = inf_norm(Tensor<T,N,N>(inverse<InvCompType::SimpleInvPiv>(A)));
        const Tensor<T,N,C> X = solve<S>(A, B); rep_solve<C>(name, fam, sd, A, B, X, ninv, piv ? growth_piv(A) : growth(A), piv ? lead_cond_piv(A) : lead_cond(A));
        if (RAW && fam == 2 && !piv) { std::printf("R solve %s %zu %ld", name, C, sd); praw(A); praw(B); praw(X); std::printf("\n"); }
    }
}
template<SolveCompType S> static void solve_all(const char* name, bool piv) {
    for (int fi = 0; fi < (piv ? NPF : 4); ++fi) for (long sd = 0; sd < NSEEDS; ++sd) {       // vector right-hand side
        const int fam = piv ? PFAMS[fi] : FAMS[fi]; const Tensor<T,N,N> A = gen(fam, sd); Tensor<T,N> b; vh_fill(b.data(), N, sd + 60, -4, 4);
        const LD ninv = inf_norm(Tensor<T,N,N>(inverse<InvCompType::SimpleInvPiv>(A)));
        const Tensor<T,N> x = solve<S>(A, b); Tensor<T,N,1> B1, X1; for (size_t i = 0; i < N; ++i) { B1(i, 0) = b(i); X1(i, 0) = x(i); }
        std::string nm = std::string(name) + "/vector"; rep_solve<1>(nm.c_str(), fam, sd, A, B1, X1, ninv, piv ? growth_piv(A) : growth(A), piv ? lead_cond_piv(A) : lead_cond(A));
    }
#ifdef QUICKTIER
    solve_cols<S, 2>(name, piv); solve_cols<S, 3>(name, piv);
#else
    solve_cols<S, 1>(name, piv); solve_cols<S, 2>(name, piv); solve_cols<S, 3>(name, piv); solve_cols<S, 5>(name, piv);
#endif
    // the strategy must survive when an operand is an expression (the overloads for expression lhs / rhs / both)
    for (int fi = 0; fi < (piv ? NPF : 4); ++fi) for (long sd = 0; sd < NSEEDS; ++sd) {
        const int fam = piv ? PFAMS[fi] : FAMS[fi]; const Tensor<T,N,N> A = gen(fam, sd); Tensor<T,N> b; vh_fill(b.data(), N, sd + 61, -4, 4); Tensor<T,N,2> B; vh_fill(B.data(), N * 2, sd + 62, -4, 4);
        const LD ninv = inf_norm(Tensor<T,N,N>(inverse<InvCompType::SimpleInvPiv>(A))); const LD gr = piv ? growth_piv(A) : growth(A), lc = piv ? lead_cond_piv(A) : lead_cond(A);
        Tensor<T,N,1> B1; for (size_t i = 0; i < N; ++i) B1(i, 0) = b(i);
        { const Tensor<T,N> x = solve<S>(A + (T)0 * A, b); Tensor<T,N,1> X1; for (size_t i = 0; i < N; ++i) X1(i, 0) = x(i); std::string nm = std::string(name) + "/expr_lhs/vector"; rep_solve<1>(nm.c_str(), fam, sd, A, B1, X1, ninv, gr, lc); }
        { const Tensor<T,N> x = solve<S>(A, b + (T)0 * b); Tensor<T,N,1> X1; for (size_t i = 0; i < N; ++i) X1(i, 0) = x(i); std::string nm = std::string(name) + "/expr_rhs/vector"; rep_solve<1>(nm.c_str(), fam, sd, A, B1, X1, ninv, gr, lc); }
        { const Tensor<T,N,2> X = solve<S>(A + (T)0 * A, B); std::string nm = std::string(name) + "/expr_lhs"; rep_solve<2>(nm.c_str(), fam, sd, A, B, X, ninv, gr, lc); }
        { const Tensor<T,N,2> X = solve<S>(A + (T)0 * A, B + (T)0 * B); std::string nm = std::string(name) + "/expr_both"; rep_solve<2>(nm.c_str(), fam, sd, A, B, X, ninv, gr, lc); }
    }
}
static void c12() {
    solve_all<SolveCompType::SimpleInv>("SimpleInv", false); solve_all<SolveCompType::SimpleInvPiv>("SimpleInvPiv", true);
    solve_all<SolveCompType::BlockLU>("BlockLU", false); solve_all<SolveCompType::BlockLUPiv>("BlockLUPiv", true);
    solve_all<SolveCompType::SimpleLU>("SimpleLU", false); solve_all<SolveCompType::SimpleLUPiv>("SimpleLUPiv", true);
    for (long sd = 0; sd < NSEEDS; ++sd) {      // lazy solve in an expression; triangular substitution helpers
        const Tensor<T,N,N> A = gen(0, sd); Tensor<T,N,2> B; vh_fill(B.data(), N * 2, sd + 70, -4, 4); const LD ninv = inf_norm(Tensor<T,N,N>(inverse(A)));
        Tensor<T,N,2> X = solve(A, B) + 0 * B; rep_solve<2>("lazy_solve", 0, sd, A, B, X, ninv);
        Tensor<T,N,N> Lo = A, Up = A; for (size_t i = 0; i < N; ++i) for (size_t j = 0; j < N; ++j) { if (j > i) Lo(i, j) = 0; if (j < i) Up(i, j) = 0; if (i == j) Lo(i, j) = 1; }
        Tensor<T,N,2> Y = internal::forward_subs(Lo, B); rep_solve<2>("forward_subs", 0, sd, Lo, B, Y, inf_norm(Tensor<T,N,N>(inverse(Lo))));
        Tensor<T,N,2> Z = internal::backward_subs(Up, B); rep_solve<2>("backward_subs", 0, sd, Up, B, Z, inf_norm(Tensor<T,N,N>(inverse(Up))));
        Tensor<T,N> b; vh_fill(b.data(), N, sd + 80, -4, 4); Tensor<T,N> y = internal::forward_subs(Lo, b), z = internal::backward_subs(Up, b); Tensor<T,N,1> B1, Y1, Z1; for (size_t i = 0; i < N; ++i) { B1(i, 0) = b(i); Y1(i, 0) = y(i); Z1(i, 0) = z(i); }
        rep_solve<1>("forward_subs/vector", 0, sd, Lo, B1, Y1, inf_norm(Tensor<T,N,N>(inverse(Lo)))); rep_solve<1>("backward_subs/vector", 0, sd, Up, B1, Z1, inf_norm(Tensor<T,N,N>(inverse(Up))));
    }
}
#endif

#if WHICH == 13
static void rep_qr(const char* name, int fam, long sd, const Tensor<T,N,N>& A, const Tensor<T,N,N>& Q, const Tensor<T,N,N>& R, const std::vector<size_t>& perm, bool permok) {
    long nz = 0; for (size_t i = 0; i < N; ++i) for (size_t j = 0; j < i; ++j) if (R(i, j) != 0) ++nz;
    LD o = 0, r = 0; LD prod = 1;
    for (size_t i = 0; i < N; ++i) { LD so = 0, sr = 0; prod *= (LD)R(i, i); for (size_t j = 0; j < N; ++j) { LD e = (i == j) ? -1.0L : 0.0L, f = -(LD)A(perm[i], j); for (size_t k = 0; k < N; ++k) { e += (LD)Q(k, i) * (LD)Q(k, j); f += (LD)Q(i, k) * (LD)R(k, j); } so += std::fabs(e); sr += std::fabs(f); } o = nmax(o, so); r = nmax(r, sr); }
    if (!(o == o)) o = 1e300L; if (!(r == r)) r = 1e300L;
    const LD dq = (LD)determinant<DetCompType::QR>(A); const LD ninv = inf_norm(Tensor<T,N,N>(inverse<InvCompType::SimpleInvPiv>(A)));
    std::printf("Q %s %d %ld", name, fam, sd); pl(o); pl(r); pl(inf_norm(A)); std::printf(" %ld %d", nz, permok ? 1 : 0); pl(std::fabs(std::fabs(dq) - std::fabs(prod))); pl(std::fabs(prod)); pl(ninv); std::printf("\n");
}
static void c13() {
    for (int fi = 0; fi < 4; ++fi) for (long sd = 0; sd < NSEEDS; ++sd) {
        const int fam = FAMS[fi]; const Tensor<T,N,N> A = gen(fam, sd); std::vector<size_t> id(N); for (size_t i = 0; i < N; ++i) id[i] = i;
        { Tensor<T,N,N> Q, R; Q.fill((T)7); R.fill((T)7); qr<QRCompType::MGSR>(A, Q, R); rep_qr("MGSR", fam, sd, A, Q, R, id, true); }
        { Tensor<T,N,N> Q, R; Q.fill((T)7); R.fill((T)7); qr<QRCompType::MGSR>(A + 0 * A, Q, R); rep_qr("MGSR/expression", fam, sd, A, Q, R, id, true); }
    }
    for (int fi = 0; fi < NPF; ++fi) for (long sd = 0; sd < NSEEDS; ++sd) {
        const int fam = PFAMS[fi]; const Tensor<T,N,N> A = gen(fam, sd);
        { Tensor<T,N,N> Q, R; Q.fill((T)7); R.fill((T)7); Tensor<size_t,N> P; qr<QRCompType::MGSRPiv>(A, Q, R, P); std::vector<size_t> perm(N, 0); std::vector<int> seen(N, 0); bool ok = true;
          for (size_t i = 0; i < N; ++i) { perm[i] = P(i) < N ? P(i) : 0; if (P(i) >= N || seen[P(i)]++) ok = false; } rep_qr("MGSRPiv/vector", fam, sd, A, Q, R, perm, ok); }
        { Tensor<T,N,N> Q, R, P; Q.fill((T)7); R.fill((T)7); qr<QRCompType::MGSRPiv>(A, Q, R, P); std::vector<size_t> perm(N, 0); std::vector<int> seen(N, 0); bool ok = true;
          for (size_t i = 0; i < N; ++i) { int ones = 0; for (size_t j = 0; j < N; ++j) { if (P(i, j) == 1) { ++ones; perm[i] = j; } else if (P(i, j) != 0) ok = false; } if (ones != 1 || seen[perm[i]]++) ok = false; } rep_qr("MGSRPiv/matrix", fam, sd, A, Q, R, perm, ok); }
        { Tensor<T,N,N> Q, R; Q.fill((T)7); R.fill((T)7); Tensor<size_t,N> P; qr<QRCompType::MGSRPiv>(A + (T)0 * A, Q, R, P); std::vector<size_t> perm(N, 0); std::vector<int> seen(N, 0); bool ok = true;
          for (size_t i = 0; i < N; ++i) { perm[i] = P(i) < N ? P(i) : 0; if (P(i) >= N || seen[P(i)]++) ok = false; } rep_qr("MGSRPiv/vector/expression", fam, sd, A, Q, R, perm, ok); }
        { Tensor<T,N,N> Q, R, P; Q.fill((T)7); R.fill((T)7); qr<QRCompType::MGSRPiv>(A + (T)0 * A, Q, R, P); std::vector<size_t> perm(N, 0); std::vector<int> seen(N, 0); bool ok = true;
          for (size_t i = 0; i < N; ++i) { int ones = 0; for (size_t j = 0; j < N; ++j) { if (P(i, j) == 1) { ++ones; perm[i] = j; } else if (P(i, j) != 0) ok = false; } if (ones != 1 || seen[perm[i]]++) ok = false; } rep_qr("MGSRPiv/matrix/expression", fam, sd, A, Q, R, perm, ok); }
    }
    if (sizeof(T) == 8) for (long sd = 0; sd < NSEEDS; ++sd) {          // condition number 1e5 (double only): modified Gram-Schmidt loses orthogonality like eps*cond, not eps*cond^2
        const Tensor<T,N,N> A = gen(5, sd); std::vector<size_t> id(N); for (size_t i = 0; i < N; ++i) id[i] = i;
        Tensor<T,N,N> Q, R; Q.fill((T)7); R.fill((T)7); qr<QRCompType::MGSR>(A, Q, R); rep_qr("MGSR", 5, sd, A, Q, R, id, true);
    }
}
#endif

int main() {
    vh_install_handlers();
    std::printf("N %zu %s\n", N, sizeof(T) == 4 ? "float" : "double");
#if WHICH == 10
    c10();
#elif WHICH == 11
    c11();
#elif WHICH == 12
    c12();
#elif WHICH == 13
    c13();
#endif
    return 0;
}
