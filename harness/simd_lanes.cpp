// C08 harness: every SIMDVector<T,ABI> available in this build, operation by operation, lane by lane
// against plain scalar code.  Select the element type with -DVT=0..6
//   0 float  1 double  2 int32_t  3 int64_t  5 complex<float>  6 complex<double>  4 generic base template (short, unsigned, fixed_size<N>)
// Output:  S <type> <abi> <op> <lanes checked>          one per (type, abi, op)
//          M <type> <abi> <op> lane=<i> <detail>         first mismatches of an op
//          F <type> <abi> <op> <number of mismatching lanes>
//          R <type> <abi> <op> : a.. : b.. : c.. : result..   raw records (integers only) for the Coq model
#include <Fastor/Fastor.h>
#include "vh.h"
#include <cstring>
#include <cstdint>
#include <cmath>
#include <limits>
#include <vector>
#include <string>
#include <type_traits>
using namespace Fastor;

#ifndef VT
#define VT 0
#endif
#ifndef RAW_PER_OP
#define RAW_PER_OP 40
#endif

template<typename T> struct TN;
template<> struct TN<float> { static const char* n() { return "float"; } };
template<> struct TN<double> { static const char* n() { return "double"; } };
template<> struct TN<int32_t> { static const char* n() { return "int32"; } };
template<> struct TN<int64_t> { static const char* n() { return "int64"; } };
template<> struct TN<short> { static const char* n() { return "int16"; } };
template<> struct TN<unsigned> { static const char* n() { return "uint32"; } };
template<typename A> struct AN;
template<> struct AN<simd_abi::scalar> { static std::string n() { return "scalar"; } };
template<> struct AN<simd_abi::sse> { static std::string n() { return "sse"; } };
template<> struct AN<simd_abi::avx> { static std::string n() { return "avx"; } };
template<> struct AN<simd_abi::avx512> { static std::string n() { return "avx512"; } };
template<size_t N> struct AN<simd_abi::fixed_size<N>> { static std::string n() { return "fixed" + std::to_string(N); } };

// ---------------------------------------------------------------- scalar reference
template<typename T, bool I = std::is_integral<T>::value> struct Ref;
template<typename T> struct Ref<T, true> {
    typedef typename std::make_unsigned<T>::type U;
    static T add(T a, T b) { return (T)(U)((U)a + (U)b); }
    static T sub(T a, T b) { return (T)(U)((U)a - (U)b); }
    static T mul(T a, T b) { return (T)(U)((U)a * (U)b); }
    static bool divok(T a, T b) { return b != 0 && !(std::is_signed<T>::value && a == std::numeric_limits<T>::min() && b == (T)-1); }
    static T div(T a, T b) { return (T)(a / b); }
    static T neg(T a) { return (T)(U)((U)0 - (U)a); }
    static bool absok(T a) { return !(std::is_signed<T>::value && a == std::numeric_limits<T>::min()); }
    static T abs(T a) { return a < 0 ? neg(a) : a; }
    static T mn(T a, T b) { return b < a ? b : a; }
    static T mx(T a, T b) { return a < b ? b : a; }
    static bool same(T a, T b) { return a == b; }
    static bool mmok(T, T) { return true; }
};
template<typename T> struct Ref<T, false> {
    static T add(T a, T b) { volatile T r = a + b; return r; }
    static T sub(T a, T b) { volatile T r = a - b; return r; }
    static T mul(T a, T b) { volatile T r = a * b; return r; }
    static bool divok(T, T) { return true; }
    static T div(T a, T b) { volatile T r = a / b; return r; }
    static T neg(T a) { return -a; }
    static bool absok(T) { return true; }
    static T abs(T a) { return std::fabs(a); }
    static T mn(T a, T b) { return b < a ? b : a; }
    static T mx(T a, T b) { return a < b ? b : a; }
    static bool same(T a, T b) { if (a != a && b != b) return true; return std::memcmp(&a, &b, sizeof(T)) == 0; }
    // min/max of the hardware differ from std::min on NaN and on (+0,-0): those lanes are not judged
    static bool mmok(T a, T b) { return a == a && b == b && !(a == 0 && b == 0); }
};

template<typename T> static void put1(T v) { vh_put(v); }

// ---------------------------------------------------------------- inputs
template<typename T, bool I = std::is_integral<T>::value> struct Bv;
template<typename T> struct Bv<T, true> {
    static std::vector<T> get() {
        typedef std::numeric_limits<T> L; std::vector<T> v;
        const T mx = L::max(), mn = L::min(); const int bits = (int)(sizeof(T) * 8);
        T base[] = { (T)0, (T)1, (T)2, (T)3, (T)7, (T)-1, (T)-2, (T)-3, mx, (T)(mx - 1), mn, (T)(mn + 1), (T)(mx / 2), (T)(mx / 2 + 1), (T)(mn / 2), (T)(mn / 2 - 1),
                     (T)((T)1 << (bits / 2)), (T)(((T)1 << (bits / 2)) - 1), (T)(((T)1 << (bits / 2)) + 1), (T)((T)1 << (bits - 2)), (T)(-((T)1 << (bits - 2))), (T)46341, (T)-46341, (T)65535, (T)65536, (T)100 };
        for (T x : base) v.push_back(x);
        return v;
    }
};
template<typename T> struct Bv<T, false> {
    static std::vector<T> get() {
        typedef std::numeric_limits<T> L;
        T base[] = { (T)0, -(T)0, (T)1, (T)-1, (T)2, (T)-2, (T)0.5, (T)-0.5, (T)3, (T)1.5, (T)-2.5, (T)0.1, L::max(), -L::max(), L::min(), -L::min(), L::denorm_min(), -L::denorm_min(),
                     L::infinity(), -L::infinity(), L::quiet_NaN(), L::epsilon(), (T)1 + L::epsilon(), (T)1 - L::epsilon() / 2, (T)1e10, (T)-1e-10, (T)16777216, (T)16777217, (T)123456.789, (T)-0.3333333 };
        return std::vector<T>(base, base + sizeof(base) / sizeof(base[0]));
    }
};
template<typename T, bool I = std::is_integral<T>::value> struct Rnd;
template<typename T> struct Rnd<T, true> { static T get(vh_lcg& g) { unsigned long long x = 0; for (int k = 0; k < 4; ++k) x = (x << 16) ^ (unsigned long long)g.next(); int mode = (int)(g.next() % 3); if (mode == 0) return (T)x; if (mode == 1) return (T)((long long)(x % 2001) - 1000); return (T)((long long)(x % 200001) - 100000); } };
template<typename T> struct Rnd<T, false> { static T get(vh_lcg& g) { int mode = (int)(g.next() % 3); double m = ((double)(g.next() % 2000001) - 1000000.0) / 1000000.0; if (mode == 0) return (T)m; if (mode == 1) return (T)(m * 1000.0); return (T)std::ldexp(m, (int)(g.next() % 60) - 30); } };

template<typename V> struct Ctx {
    typedef typename V::scalar_value_type T;
    static constexpr size_t N = V::Size;
    std::string tn, an; long checked = 0, bad = 0, shown = 0, raw = 0; std::string op;
    void begin(const char* o) { op = o; checked = bad = shown = raw = 0; }
    void end() { std::printf("S %s %s %s %ld\n", tn.c_str(), an.c_str(), op.c_str(), checked); if (bad) std::printf("F %s %s %s %ld\n", tn.c_str(), an.c_str(), op.c_str(), bad); }
    template<typename X> void cmp(size_t lane, X got, X want, const T* a, const T* b, const T* c) {
        ++checked;
        if (Ref<X>::same(got, want)) return;
        ++bad;
        if (shown < 3) { ++shown; std::printf("M %s %s %s lane=%zu a=", tn.c_str(), an.c_str(), op.c_str(), lane); if (a) put1(a[lane]); std::printf(" b="); if (b) put1(b[lane]); std::printf(" c="); if (c) put1(c[lane]); std::printf(" got="); put1(got); std::printf(" want="); put1(want); std::printf("\n"); }
    }
    void rawrec(const T* a, const T* b, const T* c, const T* r, size_t nr) {
        if (!std::is_integral<T>::value || raw >= RAW_PER_OP) return; ++raw;
        std::printf("R %s %s %s :", tn.c_str(), an.c_str(), op.c_str());
        if (a) for (size_t l = 0; l < N; ++l) put1(a[l]); std::printf(" :"); if (b) for (size_t l = 0; l < N; ++l) put1(b[l]); std::printf(" :"); if (c) for (size_t l = 0; l < N; ++l) put1(c[l]);
        std::printf(" :"); for (size_t l = 0; l < nr; ++l) put1(r[l]); std::printf("\n");
    }
};
template<> inline void put1<bool>(bool v) { std::printf(" %d", v ? 1 : 0); }
template<> struct Ref<bool, true> { static bool same(bool a, bool b) { return a == b; } };

template<typename V> static V ld(const typename V::scalar_value_type* p) { return V(p, false); }
template<typename V> static void st(const V& v, typename V::scalar_value_type* p) { v.store(p, false); }

template<typename V, size_t... I> static void call_set(V& v, const typename V::scalar_value_type* a, std_ext::index_sequence<I...>) { v.set(a[I]...); }

// the relative error bounds of the approximate operations (documented: 1.5*2^-12 for rcp/rsqrt_ps, 2^-14 for the AVX-512 14-bit forms)
static const double APPROX_REL = 1.5 / 4096.0;

template<typename V, bool FL = std::is_floating_point<typename V::scalar_value_type>::value> struct FloatOnly { template<typename C> static void run(C&, const std::vector<std::vector<typename V::scalar_value_type>>&) {} };
template<typename V> struct FloatOnly<V, true> {
    typedef typename V::scalar_value_type T; static constexpr size_t N = V::Size;
    template<typename C> static void run(C& cx, const std::vector<std::vector<T>>& vecs) {
        T r[N];
        cx.begin("sqrt"); for (auto& a : vecs) { st(sqrt(ld<V>(a.data())), r); for (size_t l = 0; l < N; ++l) { volatile T w = std::sqrt(a[l]); cx.cmp(l, r[l], (T)w, a.data(), nullptr, nullptr); } } cx.end();
        const char* nm[2] = { "rcp", "rsqrt" };
        for (int which = 0; which < 2; ++which) {
            cx.begin(nm[which]);
            for (auto& a : vecs) {
                st(which == 0 ? rcp(ld<V>(a.data())) : rsqrt(ld<V>(a.data())), r);
                for (size_t l = 0; l < N; ++l) {
                    const T x = a[l];
                    // judged on normal positive/negative inputs whose result is a normal float (the approximations go through single precision)
                    if (!(x == x) || std::fabs((double)x) < 1e-30 || std::fabs((double)x) > 1e30 || (which == 1 && x <= 0)) continue;
                    const double want = which == 0 ? 1.0 / (double)x : 1.0 / std::sqrt((double)x);
                    const double err = std::fabs((double)r[l] - want) / std::fabs(want);
                    ++cx.checked;
                    if (!(err <= APPROX_REL)) { ++cx.bad; if (cx.shown < 3) { ++cx.shown; std::printf("M %s %s %s lane=%zu a=", cx.tn.c_str(), cx.an.c_str(), cx.op.c_str(), l); put1(x); std::printf(" got="); put1(r[l]); std::printf(" relerr=%g bound=%g\n", err, APPROX_REL); } }
                }
            }
            cx.end();
        }
    }
};

// masks: lane j enabled iff bit j of the mask
template<typename V, bool OK = (V::Size <= 8) || std::is_same<typename V::abi_type, simd_abi::avx512>::value> struct Masks { template<typename C> static void run(C&, const std::vector<std::vector<typename V::scalar_value_type>>&) {} };
template<typename V> struct Masks<V, true> {
    typedef typename V::scalar_value_type T; static constexpr size_t N = V::Size;
    typedef typename std::conditional<(N > 8), uint16_t, uint8_t>::type mask_t;
    template<typename C> static void run(C& cx, const std::vector<std::vector<T>>& vecs) {
        const unsigned long nmask = 1UL << N; const unsigned long stepm = N > 8 ? 37 : 1;
        cx.begin("mask_load");
        for (unsigned long m = 0; m < nmask; m += stepm) {
            const auto& a = vecs[m % vecs.size()]; const auto& o = vecs[(m + 7) % vecs.size()];
            { alignas(64) T buf[2 * N]; std::memcpy(buf + 1, a.data(), N * sizeof(T)); V v = ld<V>(o.data()); v.mask_load(buf + 1, (mask_t)m, false); T r[N]; st(v, r);
              for (size_t l = 0; l < N; ++l) if ((m >> l) & 1) cx.cmp(l, r[l], a[l], a.data(), nullptr, nullptr); }
            { alignas(64) T buf[2 * N]; std::memcpy(buf, a.data(), N * sizeof(T)); V v = ld<V>(o.data()); v.mask_load(buf, (mask_t)m, true); T r[N]; st(v, r);
              for (size_t l = 0; l < N; ++l) if ((m >> l) & 1) cx.cmp(l, r[l], a[l], a.data(), nullptr, nullptr); }
        }
        cx.end();
        cx.begin("mask_load_disabled_lanes_are_zero_or_kept");
        for (unsigned long m = 0; m < nmask; m += stepm) {
            const auto& a = vecs[m % vecs.size()]; const auto& o = vecs[(m + 7) % vecs.size()];
            V v = ld<V>(o.data()); v.mask_load(a.data(), (mask_t)m, false); T r[N]; st(v, r);
            for (size_t l = 0; l < N; ++l) if (!((m >> l) & 1)) { ++cx.checked; if (!(Ref<T>::same(r[l], (T)0) || Ref<T>::same(r[l], o[l]))) { ++cx.bad; if (cx.shown < 3) { ++cx.shown; std::printf("M %s %s %s lane=%zu mask=%lu got=", cx.tn.c_str(), cx.an.c_str(), cx.op.c_str(), l, m); put1(r[l]); std::printf("\n"); } } }
        }
        cx.end();
        cx.begin("mask_store");
        for (unsigned long m = 0; m < nmask; m += stepm) {
            const auto& a = vecs[m % vecs.size()]; const auto& o = vecs[(m + 11) % vecs.size()];
            for (int al = 0; al < 2; ++al) {
                alignas(64) T buf[3 * N]; const size_t off = al ? N : N + 1;
                for (size_t k = 0; k < 3 * N; ++k) buf[k] = o[k % N];
                const V v = ld<V>(a.data()); if (al) v.mask_store(buf + N, (mask_t)m, true); else v.mask_store(buf + N + 1, (mask_t)m, false);
                for (size_t k = 0; k < 3 * N; ++k) {
                    const bool inside = k >= off && k < off + N; const size_t l = inside ? k - off : 0;
                    const T want = (inside && ((m >> l) & 1)) ? a[l] : o[k % N];
                    ++cx.checked;
                    if (!Ref<T>::same(buf[k], want)) { ++cx.bad; if (cx.shown < 3) { ++cx.shown; std::printf("M %s %s %s mask=%lu element=%ld (lane %s) got=", cx.tn.c_str(), cx.an.c_str(), cx.op.c_str(), m, (long)k - (long)off, inside ? (((m >> l) & 1) ? "enabled" : "disabled") : "outside"); put1(buf[k]); std::printf(" want="); put1(want); std::printf("\n"); } }
                }
            }
        }
        cx.end();
        // enabled low lanes only, buffer flush against an inaccessible page: a disabled lane must not be touched at all
        cx.begin("mask_store_guard_page");
        for (size_t k = 1; k < N; ++k) {
            vh_guarded g(k * sizeof(T)); T* p = g.as<T>(); const auto& a = vecs[k % vecs.size()];
            const V v = ld<V>(a.data()); int sig = 0;
            VH_GUARDED_CALL(v.mask_store(p, (mask_t)((1UL << k) - 1), false), sig);
            ++cx.checked;
            if (sig) { ++cx.bad; if (cx.shown < 3) { ++cx.shown; std::printf("M %s %s %s enabled_lanes=%zu signal=%d (store touched a disabled lane beyond the buffer)\n", cx.tn.c_str(), cx.an.c_str(), cx.op.c_str(), k, sig); } }
            else for (size_t l = 0; l < k; ++l) cx.cmp(l, p[l], a[l], a.data(), nullptr, nullptr);
        }
        cx.end();
        cx.begin("mask_load_guard_page");
        for (size_t k = 1; k < N; ++k) {
            vh_guarded g(k * sizeof(T)); T* p = g.as<T>(); const auto& a = vecs[k % vecs.size()]; std::memcpy(p, a.data(), k * sizeof(T));
            V v((T)0); int sig = 0; T r[N];
            VH_GUARDED_CALL(v.mask_load(p, (mask_t)((1UL << k) - 1), false), sig);
            ++cx.checked;
            if (sig) { ++cx.bad; if (cx.shown < 3) { ++cx.shown; std::printf("M %s %s %s enabled_lanes=%zu signal=%d (load touched a disabled lane beyond the buffer)\n", cx.tn.c_str(), cx.an.c_str(), cx.op.c_str(), k, sig); } }
            else { st(v, r); for (size_t l = 0; l < k; ++l) cx.cmp(l, r[l], a[l], a.data(), nullptr, nullptr); }
        }
        cx.end();
    }
};

template<typename V> static void battery() {
    typedef typename V::scalar_value_type T; constexpr size_t N = V::Size; typedef Ref<T> R;
    Ctx<V> cx; cx.tn = TN<T>::n(); cx.an = AN<typename V::abi_type>::n();
    std::printf("B %s %s %zu\n", cx.tn.c_str(), cx.an.c_str(), N);
    const std::vector<T> bv = Bv<T>::get(); const size_t B = bv.size();
    std::vector<std::vector<T>> vecs;
    for (size_t s = 1; s <= 3; s += 2) for (size_t i = 0; i < B; ++i) { std::vector<T> v(N); for (size_t l = 0; l < N; ++l) v[l] = bv[(i + l * s) % B]; vecs.push_back(v); }
    vh_lcg g(1234 + 17 * N + sizeof(T));
#ifdef VH_SEED
    g = vh_lcg(VH_SEED + 17 * N + sizeof(T));
#endif
    for (int k = 0; k < 28; ++k) { std::vector<T> v(N); for (size_t l = 0; l < N; ++l) v[l] = Rnd<T>::get(g); vecs.push_back(v); }
    const size_t NV = vecs.size();
    T r[N], w[N];

    // ---- construction / load / store
    cx.begin("broadcast_ctor"); for (size_t i = 0; i < B; ++i) { V v(bv[i]); st(v, r); for (size_t l = 0; l < N; ++l) cx.cmp(l, r[l], bv[i], nullptr, nullptr, nullptr); V u; u = bv[i]; st(u, r); for (size_t l = 0; l < N; ++l) cx.cmp(l, r[l], bv[i], nullptr, nullptr, nullptr); V s; s.set(bv[i]); st(s, r); for (size_t l = 0; l < N; ++l) cx.cmp(l, r[l], bv[i], nullptr, nullptr, nullptr); } cx.end();
    cx.begin("load_store");
    for (size_t i = 0; i < NV; ++i) {
        alignas(64) T in[3 * N]; alignas(64) T out[3 * N];
        for (size_t off = 0; off <= N; ++off) {
            for (size_t k = 0; k < 3 * N; ++k) { in[k] = vecs[(i + k) % NV][k % N]; out[k] = (T)5; }
            V v(in + off, false); V u; u.load(in + off, false);
            v.store(out + off, false); for (size_t l = 0; l < N; ++l) cx.cmp(l, out[off + l], in[off + l], nullptr, nullptr, nullptr);
            for (size_t k = 0; k < 3 * N; ++k) if (k < off || k >= off + N) { ++cx.checked; if (!R::same(out[k], (T)5)) { ++cx.bad; if (cx.shown < 3) { ++cx.shown; std::printf("M %s %s %s store at offset %zu wrote element %zu\n", cx.tn.c_str(), cx.an.c_str(), cx.op.c_str(), off, k); } } }
            st(u, r); for (size_t l = 0; l < N; ++l) cx.cmp(l, r[l], in[off + l], nullptr, nullptr, nullptr);
            for (size_t l = 0; l < N; ++l) cx.cmp(l, (T)v[l], in[off + l], nullptr, nullptr, nullptr);
        }
        // aligned forms: in/out are 64-byte aligned and one vector is N elements, so element offsets 0 and N are vector-aligned
        for (size_t k = 0; k < 3 * N; ++k) { in[k] = vecs[(i + k) % NV][k % N]; out[k] = (T)5; }
        { V a0(in, true); V a1; a1.load(in + N, true); V a2; a2.aligned_load(in);
          a0.store(out + N, true); a1.aligned_store(out); st(a2, r);
          for (size_t l = 0; l < N; ++l) { cx.cmp(l, out[N + l], in[l], nullptr, nullptr, nullptr); cx.cmp(l, out[l], in[N + l], nullptr, nullptr, nullptr); cx.cmp(l, r[l], in[l], nullptr, nullptr, nullptr); cx.cmp(l, out[2 * N + l], (T)5, nullptr, nullptr, nullptr); } }
    }
    cx.end();
    cx.begin("set"); for (size_t i = 0; i < NV; ++i) { V v; call_set(v, vecs[i].data(), typename std_ext::make_index_sequence<N>::type()); st(v, r); for (size_t l = 0; l < N; ++l) cx.cmp(l, r[l], vecs[i][N - 1 - l], nullptr, nullptr, nullptr); cx.rawrec(vecs[i].data(), nullptr, nullptr, r, N); } cx.end();
    cx.begin("set_sequential"); for (size_t i = 0; i < B; ++i) { if (std::is_integral<T>::value ? false : !(std::fabs((double)bv[i]) < 1e6)) continue; V v; v.set_sequential(bv[i]); st(v, r); for (size_t l = 0; l < N; ++l) { if (l == 0 && R::same(r[0], bv[i])) { ++cx.checked; continue; } cx.cmp(l, r[l], R::add(bv[i], (T)l), nullptr, nullptr, nullptr); } T a0[N]; for (size_t l = 0; l < N; ++l) a0[l] = bv[i]; cx.rawrec(a0, nullptr, nullptr, r, N); } cx.end();
    cx.begin("reverse"); for (size_t i = 0; i < NV; ++i) { V v = ld<V>(vecs[i].data()); st(v.reverse(), r); for (size_t l = 0; l < N; ++l) cx.cmp(l, r[l], vecs[i][N - 1 - l], vecs[i].data(), nullptr, nullptr); cx.rawrec(vecs[i].data(), nullptr, nullptr, r, N); } cx.end();

    // ---- unary
    cx.begin("neg"); for (size_t i = 0; i < NV; ++i) { st(-ld<V>(vecs[i].data()), r); for (size_t l = 0; l < N; ++l) cx.cmp(l, r[l], R::neg(vecs[i][l]), vecs[i].data(), nullptr, nullptr); cx.rawrec(vecs[i].data(), nullptr, nullptr, r, N); } cx.end();
    cx.begin("unary_plus"); for (size_t i = 0; i < NV; ++i) { st(+ld<V>(vecs[i].data()), r); for (size_t l = 0; l < N; ++l) cx.cmp(l, r[l], vecs[i][l], vecs[i].data(), nullptr, nullptr); } cx.end();
    cx.begin("abs"); for (size_t i = 0; i < NV; ++i) { st(abs(ld<V>(vecs[i].data())), r); for (size_t l = 0; l < N; ++l) if (R::absok(vecs[i][l])) cx.cmp(l, r[l], R::abs(vecs[i][l]), vecs[i].data(), nullptr, nullptr); cx.rawrec(vecs[i].data(), nullptr, nullptr, r, N); } cx.end();

    // ---- binary, vector (op) vector / vector (op) scalar / scalar (op) vector and the in-place forms
    const char* bn[4] = { "add", "sub", "mul", "div" };
    for (int o = 0; o < 4; ++o) {
        cx.begin(bn[o]);
        for (size_t i = 0; i < NV; ++i) for (size_t j = 0; j < NV; ++j) {
            const T* a = vecs[i].data(); T b[N]; for (size_t l = 0; l < N; ++l) { b[l] = vecs[j][l]; if (o == 3 && !R::divok(a[l], b[l])) b[l] = (T)1; }
            const V va = ld<V>(a), vb = ld<V>(b);
            for (size_t l = 0; l < N; ++l) w[l] = o == 0 ? R::add(a[l], b[l]) : o == 1 ? R::sub(a[l], b[l]) : o == 2 ? R::mul(a[l], b[l]) : R::div(a[l], b[l]);
            st(o == 0 ? va + vb : o == 1 ? va - vb : o == 2 ? va * vb : va / vb, r);
            for (size_t l = 0; l < N; ++l) cx.cmp(l, r[l], w[l], a, b, nullptr);
            cx.rawrec(a, b, nullptr, r, N);
            V vc = va; if (o == 0) vc += vb; else if (o == 1) vc -= vb; else if (o == 2) vc *= vb; else vc /= vb;
            st(vc, r); for (size_t l = 0; l < N; ++l) cx.cmp(l, r[l], w[l], a, b, nullptr);
        }
        cx.end();
        std::string nm = std::string(bn[o]) + "_scalar"; cx.begin(nm.c_str());
        for (size_t i = 0; i < NV; ++i) for (size_t j = 0; j < B; ++j) {
            const T* a = vecs[i].data(); const T s = bv[j]; const V va = ld<V>(a);
            bool ok = true, okr = true; for (size_t l = 0; l < N; ++l) { if (o == 3 && !R::divok(a[l], s)) ok = false; if (o == 3 && !R::divok(s, a[l])) okr = false; }
            T sb[N]; for (size_t l = 0; l < N; ++l) sb[l] = s;
            if (ok) {
                for (size_t l = 0; l < N; ++l) w[l] = o == 0 ? R::add(a[l], s) : o == 1 ? R::sub(a[l], s) : o == 2 ? R::mul(a[l], s) : R::div(a[l], s);
                st(o == 0 ? va + s : o == 1 ? va - s : o == 2 ? va * s : va / s, r); for (size_t l = 0; l < N; ++l) cx.cmp(l, r[l], w[l], a, sb, nullptr);
                V vc = va; if (o == 0) vc += s; else if (o == 1) vc -= s; else if (o == 2) vc *= s; else vc /= s;
                st(vc, r); for (size_t l = 0; l < N; ++l) cx.cmp(l, r[l], w[l], a, sb, nullptr);
            }
            if (okr) {
                for (size_t l = 0; l < N; ++l) w[l] = o == 0 ? R::add(s, a[l]) : o == 1 ? R::sub(s, a[l]) : o == 2 ? R::mul(s, a[l]) : R::div(s, a[l]);
                st(o == 0 ? s + va : o == 1 ? s - va : o == 2 ? s * va : s / va, r); for (size_t l = 0; l < N; ++l) cx.cmp(l, r[l], w[l], sb, a, nullptr);
            }
        }
        cx.end();
    }
    // ---- min / max
    for (int o = 0; o < 2; ++o) {
        cx.begin(o == 0 ? "min" : "max");
        for (size_t i = 0; i < NV; ++i) for (size_t j = 0; j < NV; ++j) {
            const T* a = vecs[i].data(); const T* b = vecs[j].data(); const V va = ld<V>(a), vb = ld<V>(b);
            st(o == 0 ? min(va, vb) : max(va, vb), r);
            for (size_t l = 0; l < N; ++l) if (R::mmok(a[l], b[l])) cx.cmp(l, r[l], o == 0 ? R::mn(a[l], b[l]) : R::mx(a[l], b[l]), a, b, nullptr);
            cx.rawrec(a, b, nullptr, r, N);
            if (j < B) { const T s = bv[j]; st(o == 0 ? min(va, s) : max(va, s), r); T sb[N]; for (size_t l = 0; l < N; ++l) sb[l] = s; for (size_t l = 0; l < N; ++l) if (R::mmok(a[l], s)) cx.cmp(l, r[l], o == 0 ? R::mn(a[l], s) : R::mx(a[l], s), a, sb, nullptr);
                st(o == 0 ? min(s, va) : max(s, va), r); for (size_t l = 0; l < N; ++l) if (R::mmok(a[l], s)) cx.cmp(l, r[l], o == 0 ? R::mn(s, a[l]) : R::mx(s, a[l]), sb, a, nullptr); }
        }
        cx.end();
    }
    // ---- comparisons
    const char* cn[6] = { "eq", "ne", "lt", "gt", "le", "ge" };
    for (int o = 0; o < 6; ++o) {
        cx.begin(cn[o]);
        for (size_t i = 0; i < NV; ++i) for (size_t j = 0; j < NV; ++j) {
            const T* a = vecs[i].data(); const T* b = vecs[j].data(); const V va = ld<V>(a), vb = ld<V>(b);
            auto m = o == 0 ? (va == vb) : o == 1 ? (va != vb) : o == 2 ? (va < vb) : o == 3 ? (va > vb) : o == 4 ? (va <= vb) : (va >= vb);
            for (size_t l = 0; l < N; ++l) { const bool want = o == 0 ? (a[l] == b[l]) : o == 1 ? (a[l] != b[l]) : o == 2 ? (a[l] < b[l]) : o == 3 ? (a[l] > b[l]) : o == 4 ? (a[l] <= b[l]) : (a[l] >= b[l]); cx.cmp(l, (bool)m[l], want, a, b, nullptr); }
        }
        cx.end();
    }
    // ---- fused multiply-add family: the fused and the unfused scalar result are both accepted for floats
    const char* fn[3] = { "fmadd", "fmsub", "fnmadd" };
    for (int o = 0; o < 3; ++o) {
        cx.begin(fn[o]);
        for (size_t i = 0; i < NV; ++i) for (size_t j = 0; j < NV; j += 3) {
            const T* a = vecs[i].data(); const T* b = vecs[j].data(); const T* c = vecs[(i + 2 * j + 5) % NV].data();
            const V va = ld<V>(a), vb = ld<V>(b), vc = ld<V>(c);
            st(o == 0 ? fmadd(va, vb, vc) : o == 1 ? fmsub(va, vb, vc) : fnmadd(va, vb, vc), r);
            for (size_t l = 0; l < N; ++l) {
                const T p = R::mul(a[l], b[l]); const T un = o == 0 ? R::add(p, c[l]) : o == 1 ? R::sub(p, c[l]) : R::sub(c[l], p);
                T fu = un;
                if (!std::is_integral<T>::value) { const long double x = (long double)a[l], y = (long double)b[l], z = (long double)c[l]; fu = (T)(o == 0 ? std::fma(x, y, z) : o == 1 ? std::fma(x, y, -z) : std::fma(-x, y, z));
                    const double dd = o == 0 ? std::fma((double)a[l], (double)b[l], (double)c[l]) : o == 1 ? std::fma((double)a[l], (double)b[l], -(double)c[l]) : std::fma(-(double)a[l], (double)b[l], (double)c[l]);
                    if (sizeof(T) == 8) fu = (T)dd; else { const float ff = o == 0 ? std::fma((float)a[l], (float)b[l], (float)c[l]) : o == 1 ? std::fma((float)a[l], (float)b[l], -(float)c[l]) : std::fma(-(float)a[l], (float)b[l], (float)c[l]); fu = (T)ff; } }
                if (R::same(r[l], fu)) { ++cx.checked; continue; }
                cx.cmp(l, r[l], un, a, b, c);
            }
            cx.rawrec(a, b, c, r, N);
        }
        cx.end();
    }
    // ---- horizontal: integers exactly (wrapping fold), floats against the exact sum within N*eps*sum|x|
    cx.begin("sum");
    for (size_t i = 0; i < NV; ++i) {
        const T* a = vecs[i].data(); V va = ld<V>(a); const T got = va.sum();
        if (std::is_integral<T>::value) { T f = 0; for (size_t l = 0; l < N; ++l) f = R::add(f, a[l]); cx.cmp(0, got, f, a, nullptr, nullptr); r[0] = got; cx.rawrec(a, nullptr, nullptr, r, 1); }
        else { long double e = 0, m = 0; bool fin = true; for (size_t l = 0; l < N; ++l) { e += (long double)a[l]; m += std::fabs((long double)a[l]); if (!(std::fabs((double)a[l]) < 1e30)) fin = false; } if (!fin) continue; ++cx.checked;
            if (!(std::fabs((long double)got - e) <= (long double)N * std::numeric_limits<T>::epsilon() * m + std::numeric_limits<T>::denorm_min())) { ++cx.bad; if (cx.shown < 3) { ++cx.shown; std::printf("M %s %s sum got=", cx.tn.c_str(), cx.an.c_str()); put1(got); std::printf(" exact=%.17Lg\n", e); } } }
    }
    cx.end();
    cx.begin("product");
    for (size_t i = 0; i < NV; ++i) {
        const T* a = vecs[i].data(); V va = ld<V>(a); const T got = va.product();
        if (std::is_integral<T>::value) { T f = 1; for (size_t l = 0; l < N; ++l) f = R::mul(f, a[l]); cx.cmp(0, got, f, a, nullptr, nullptr); r[0] = got; cx.rawrec(a, nullptr, nullptr, r, 1); }
        else { long double e = 1; bool fin = true; for (size_t l = 0; l < N; ++l) { e *= (long double)a[l]; if (!(std::fabs((double)a[l]) < 1e3 && std::fabs((double)a[l]) > 1e-3)) fin = false; } if (!fin) continue; ++cx.checked;
            if (!(std::fabs((long double)got - e) <= (long double)N * std::numeric_limits<T>::epsilon() * std::fabs(e))) { ++cx.bad; if (cx.shown < 3) { ++cx.shown; std::printf("M %s %s product got=", cx.tn.c_str(), cx.an.c_str()); put1(got); std::printf(" exact=%.17Lg\n", e); } } }
    }
    cx.end();
    cx.begin("dot");
    for (size_t i = 0; i < NV; ++i) for (size_t j = 0; j < NV; j += 2) {
        const T* a = vecs[i].data(); const T* b = vecs[j].data(); V va = ld<V>(a); const V vb = ld<V>(b); const T got = va.dot(vb);
        if (std::is_integral<T>::value) { T f = 0; for (size_t l = 0; l < N; ++l) f = R::add(f, R::mul(a[l], b[l])); cx.cmp(0, got, f, a, b, nullptr); r[0] = got; cx.rawrec(a, b, nullptr, r, 1); }
        else { long double e = 0, m = 0; bool fin = true; for (size_t l = 0; l < N; ++l) { e += (long double)a[l] * (long double)b[l]; m += std::fabs((long double)a[l] * (long double)b[l]); if (!(std::fabs((double)a[l]) < 1e15 && std::fabs((double)b[l]) < 1e15)) fin = false; if ((a[l] != 0 && std::fabs((double)a[l]) < 1e-15) || (b[l] != 0 && std::fabs((double)b[l]) < 1e-15)) fin = false; } if (!fin) continue; ++cx.checked;
            if (!(std::fabs((long double)got - e) <= (long double)(N + 1) * std::numeric_limits<T>::epsilon() * m + std::numeric_limits<T>::denorm_min())) { ++cx.bad; if (cx.shown < 3) { ++cx.shown; std::printf("M %s %s dot got=", cx.tn.c_str(), cx.an.c_str()); put1(got); std::printf(" exact=%.17Lg\n", e); } } }
    }
    cx.end();
    for (int o = 0; o < 2; ++o) {
        cx.begin(o == 0 ? "minimum" : "maximum");
        for (size_t i = 0; i < NV; ++i) {
            const T* a = vecs[i].data(); bool ok = true; for (size_t l = 0; l < N; ++l) if (!(a[l] == a[l])) ok = false; if (!ok) continue;
            V va = ld<V>(a); const T got = o == 0 ? va.minimum() : va.maximum(); T f = a[0]; for (size_t l = 1; l < N; ++l) f = o == 0 ? R::mn(f, a[l]) : R::mx(f, a[l]);
            ++cx.checked; if (!(got == f)) { ++cx.bad; if (cx.shown < 3) { ++cx.shown; std::printf("M %s %s %s got=", cx.tn.c_str(), cx.an.c_str(), cx.op.c_str()); put1(got); std::printf(" want="); put1(f); std::printf("\n"); } }
            r[0] = got; cx.rawrec(a, nullptr, nullptr, r, 1);
        }
        cx.end();
    }
    FloatOnly<V>::run(cx, vecs);
    Masks<V>::run(cx, vecs);
}


template<typename V, bool FL = std::is_floating_point<typename V::scalar_value_type>::value> struct FloatOnlyOp {
    static V apply(int, const V& v) { return v; } template<typename T> static bool judge(int, T, T) { return true; } };
template<typename V> struct FloatOnlyOp<V, true> {
    typedef typename V::scalar_value_type T;
    static V apply(int o, const V& v) { return o == 2 ? sqrt(v) : o == 3 ? rcp(v) : rsqrt(v); }
    static bool judge(int o, T x, T got) {
        if (o == 2) { volatile T w = std::sqrt(x); return Ref<T>::same(got, (T)w); }
        if (!(x == x) || std::fabs((double)x) < 1e-30 || std::fabs((double)x) > 1e30 || (o == 4 && x <= 0)) return true;
        const double want = o == 3 ? 1.0 / (double)x : 1.0 / std::sqrt((double)x);
        return std::fabs((double)got - want) / std::fabs(want) <= APPROX_REL; }
};

#ifdef EXHAUSTIVE
// all 2^32 lane values of a 32-bit type through the unary operations (thorough tier)
template<typename V> static void exhaustive_unary() {
    typedef typename V::scalar_value_type T; constexpr size_t N = V::Size; typedef Ref<T> R;
    static_assert(sizeof(T) == 4, "32-bit lanes only");
    const std::string tn = TN<T>::n(), an = AN<typename V::abi_type>::n();
    const int nops = std::is_integral<T>::value ? 2 : 5; const char* names[5] = { "neg", "abs", "sqrt", "rcp", "rsqrt" };
    for (int o = 0; o < nops; ++o) {
        unsigned long long checked = 0, bad = 0; int shown = 0;
        for (unsigned long long base = 0; base < (1ULL << 32); base += N) {
            T a[N], r[N]; for (size_t l = 0; l < N; ++l) { const uint32_t bits = (uint32_t)(base + l); std::memcpy(&a[l], &bits, 4); }
            const V va(a, false); V vr;
            switch (o) { case 0: vr = -va; break; case 1: vr = abs(va); break; default: vr = FloatOnlyOp<V>::apply(o, va); }
            vr.store(r, false);
            for (size_t l = 0; l < N; ++l) {
                bool ok = true;
                if (o == 0) ok = R::same(r[l], R::neg(a[l]));
                else if (o == 1) ok = !R::absok(a[l]) || R::same(r[l], R::abs(a[l]));
                else ok = FloatOnlyOp<V>::judge(o, a[l], r[l]);
                ++checked; if (!ok) { ++bad; if (shown < 3) { ++shown; std::printf("M %s %s exhaustive_%s a=", tn.c_str(), an.c_str(), names[o]); put1(a[l]); std::printf(" got="); put1(r[l]); std::printf("\n"); } }
            }
        }
        std::printf("S %s %s exhaustive_%s %llu\n", tn.c_str(), an.c_str(), names[o], checked);
        if (bad) std::printf("F %s %s exhaustive_%s %llu\n", tn.c_str(), an.c_str(), names[o], bad);
    }
}
#endif

template<typename T> static void all_abis() {
#ifdef EXHAUSTIVE
#ifdef FASTOR_SSE2_IMPL
    exhaustive_unary<SIMDVector<T, simd_abi::sse>>();
#endif
#ifdef FASTOR_AVX_IMPL
    exhaustive_unary<SIMDVector<T, simd_abi::avx>>();
#endif
#ifdef FASTOR_AVX512F_IMPL
    exhaustive_unary<SIMDVector<T, simd_abi::avx512>>();
#endif
    exhaustive_unary<SIMDVector<T, simd_abi::fixed_size<4>>>();
    return;
#endif
    battery<SIMDVector<T, simd_abi::scalar>>();
#ifdef FASTOR_SSE2_IMPL
    battery<SIMDVector<T, simd_abi::sse>>();
#endif
#ifdef FASTOR_AVX_IMPL
    battery<SIMDVector<T, simd_abi::avx>>();
#endif
#ifdef FASTOR_AVX512F_IMPL
    battery<SIMDVector<T, simd_abi::avx512>>();
#endif
}


// ---------------------------------------------------------------- complex vectors (split real/imaginary registers)
template<typename T> struct TN<std::complex<T>> { static const char* n() { return sizeof(T) == 4 ? "cfloat" : "cdouble"; } };
template<typename V> static void cbattery() {
    typedef typename V::scalar_value_type C; typedef typename C::value_type T; constexpr size_t N = V::Size; typedef typename std::conditional<(N > 8), uint16_t, uint8_t>::type cmask_t;
    const std::string tn = TN<C>::n(), an = AN<typename V::abi_type>::n();
    std::printf("B %s %s %zu\n", tn.c_str(), an.c_str(), N);
    vh_lcg g(4321 + N);
#ifdef VH_SEED
    g = vh_lcg(VH_SEED + N);
#endif
    std::vector<std::vector<C>> vecs;
    const T sp[] = { (T)0, (T)1, (T)-1, (T)2, (T)0.5, (T)-3, (T)7, (T)-0.25 };
    for (int k = 0; k < 40; ++k) { std::vector<C> v(N); for (size_t l = 0; l < N; ++l) { if (k < 16) v[l] = C(sp[(k + l) % 8], sp[(k * 3 + l * 5 + 1) % 8]); else v[l] = C((T)(((long)(g.next() % 2001) - 1000) / (T)64), (T)(((long)(g.next() % 2001) - 1000) / (T)64)); } vecs.push_back(v); }
    const size_t NV = vecs.size(); const T eps = std::numeric_limits<T>::epsilon();
    long checked = 0, bad = 0, shown = 0; std::string op;
    auto begin = [&](const char* o) { op = o; checked = bad = shown = 0; };
    auto end = [&]() { std::printf("S %s %s %s %ld\n", tn.c_str(), an.c_str(), op.c_str(), checked); if (bad) std::printf("F %s %s %s %ld\n", tn.c_str(), an.c_str(), op.c_str(), bad); };
    // tol = k * eps * scale ; k = 0 means exact
    auto cmp = [&](size_t lane, C got, C want, double scale, double k) {
        ++checked; const double d = std::hypot((double)got.real() - (double)want.real(), (double)got.imag() - (double)want.imag());
        if (d <= k * (double)eps * scale && got.real() == got.real() && got.imag() == got.imag()) return; ++bad;
        if (shown < 3) { ++shown; std::printf("M %s %s %s lane=%zu got=", tn.c_str(), an.c_str(), op.c_str(), lane); vh_put(got); std::printf(" want="); vh_put(want); std::printf("\n"); } };
    auto cmpr = [&](size_t lane, T got, T want, double scale, double k) { ++checked; if (std::fabs((double)got - (double)want) <= k * (double)eps * scale && got == got) return; ++bad; if (shown < 3) { ++shown; std::printf("M %s %s %s lane=%zu got=", tn.c_str(), an.c_str(), op.c_str(), lane); vh_put(got); std::printf(" want="); vh_put(want); std::printf("\n"); } };
    C r[N];
    begin("load_store");
    for (size_t i = 0; i < NV; ++i) { alignas(64) C in[3 * N]; alignas(64) C out[3 * N];
        for (size_t off = 0; off <= N; ++off) { for (size_t k = 0; k < 3 * N; ++k) { in[k] = vecs[(i + k) % NV][k % N]; out[k] = C(5, 5); }
            V v(in + off, false); v.store(out + off, false); for (size_t k = 0; k < 3 * N; ++k) cmp(k, out[k], (k >= off && k < off + N) ? in[k] : C(5, 5), 1, 0);
            V u; u.load(in + off, false); for (size_t l = 0; l < N; ++l) cmp(l, (C)u[l], in[off + l], 1, 0);
            if (off == 0 || off == N) { V z(in + off, (off * sizeof(C)) % 64 == 0); z.store(out + off, (off * sizeof(C)) % 64 == 0); for (size_t l = 0; l < N; ++l) cmp(l, out[off + l], in[off + l], 1, 0); } } }
    end();
    begin("broadcast_ctor"); for (size_t i = 0; i < NV; ++i) { V v(vecs[i][0]); v.store(r, false); for (size_t l = 0; l < N; ++l) cmp(l, r[l], vecs[i][0], 1, 0); V u; u = vecs[i][0]; u.store(r, false); for (size_t l = 0; l < N; ++l) cmp(l, r[l], vecs[i][0], 1, 0); V w; w.set(vecs[i][0]); w.store(r, false); for (size_t l = 0; l < N; ++l) cmp(l, r[l], vecs[i][0], 1, 0); } end();
    begin("real_imag"); for (size_t i = 0; i < NV; ++i) { V v(vecs[i].data(), false); T re[N], im[N]; v.real().store(re, false); v.imag().store(im, false); for (size_t l = 0; l < N; ++l) { cmpr(l, re[l], vecs[i][l].real(), 1, 0); cmpr(l, im[l], vecs[i][l].imag(), 1, 0); } } end();
    begin("reverse"); for (size_t i = 0; i < NV; ++i) { V v(vecs[i].data(), false); v.reverse().store(r, false); for (size_t l = 0; l < N; ++l) cmp(l, r[l], vecs[i][N - 1 - l], 1, 0); } end();
    begin("neg_conj"); for (size_t i = 0; i < NV; ++i) { V v(vecs[i].data(), false); (-v).store(r, false); for (size_t l = 0; l < N; ++l) cmp(l, r[l], -vecs[i][l], 1, 0); conj(v).store(r, false); for (size_t l = 0; l < N; ++l) cmp(l, r[l], std::conj(vecs[i][l]), 1, 0); (+v).store(r, false); for (size_t l = 0; l < N; ++l) cmp(l, r[l], vecs[i][l], 1, 0); } end();
    begin("abs_norm"); for (size_t i = 0; i < NV; ++i) { V v(vecs[i].data(), false); T m[N]; v.magnitude().store(m, false); for (size_t l = 0; l < N; ++l) cmpr(l, m[l], std::abs(vecs[i][l]), std::abs(vecs[i][l]), 4); v.norm().store(m, false); for (size_t l = 0; l < N; ++l) cmpr(l, m[l], std::norm(vecs[i][l]), std::norm(vecs[i][l]), 4); abs(v).store(r, false); for (size_t l = 0; l < N; ++l) cmpr(l, r[l].real(), std::abs(vecs[i][l]), std::abs(vecs[i][l]), 4); } end();
    const char* bn[4] = { "add", "sub", "mul", "div" };
    for (int o = 0; o < 4; ++o) {
        begin(bn[o]);
        for (size_t i = 0; i < NV; ++i) for (size_t j = 0; j < NV; ++j) {
            const C* a = vecs[i].data(); C b[N]; for (size_t l = 0; l < N; ++l) { b[l] = vecs[j][l]; if (o == 3 && std::abs(b[l]) < 0.1) b[l] = C(1, -2); }
            const V va(a, false), vb(b, false);
            (o == 0 ? va + vb : o == 1 ? va - vb : o == 2 ? va * vb : va / vb).store(r, false);
            V vc = va; if (o == 0) vc += vb; else if (o == 1) vc -= vb; else if (o == 2) vc *= vb; else vc /= vb; C r2[N]; vc.store(r2, false);
            for (size_t l = 0; l < N; ++l) { const std::complex<long double> x(a[l].real(), a[l].imag()), y(b[l].real(), b[l].imag()); const std::complex<long double> w = o == 0 ? x + y : o == 1 ? x - y : o == 2 ? x * y : x / y;
                const double sc = o < 2 ? (double)(std::abs(x) + std::abs(y)) : o == 2 ? (double)(std::abs(x) * std::abs(y)) : (double)(std::abs(x) / std::abs(y));
                const double k = o < 2 ? 1 : o == 2 ? 4 : 8; cmp(l, r[l], C((T)w.real(), (T)w.imag()), sc, k); cmp(l, r2[l], C((T)w.real(), (T)w.imag()), sc, k); }
        }
        end();
        std::string nm = std::string(bn[o]) + "_scalar"; begin(nm.c_str());
        for (size_t i = 0; i < NV; ++i) for (size_t j = 0; j < 12; ++j) {
            const C* a = vecs[i].data(); C s = vecs[j][0]; if (o == 3 && std::abs(s) < 0.1) s = C(1, -2); const T rs = s.real() == 0 ? (T)2 : s.real(); const V va(a, false);
            bool okr = true; for (size_t l = 0; l < N; ++l) if (std::abs(a[l]) < 0.1) okr = false;
            C r1[N], r2[N], r3[N], r4[N], r5[N];
            (o == 0 ? va + s : o == 1 ? va - s : o == 2 ? va * s : va / s).store(r1, false);
            (o == 0 ? va + rs : o == 1 ? va - rs : o == 2 ? va * rs : va / rs).store(r2, false);
            if (o != 3 || okr) { (o == 0 ? s + va : o == 1 ? s - va : o == 2 ? s * va : s / va).store(r3, false); (o == 0 ? rs + va : o == 1 ? rs - va : o == 2 ? rs * va : rs / va).store(r4, false); }
            V vc = va; if (o == 0) vc += s; else if (o == 1) vc -= s; else if (o == 2) vc *= s; else vc /= s; vc.store(r5, false);
            for (size_t l = 0; l < N; ++l) { const std::complex<long double> x(a[l].real(), a[l].imag()), y(s.real(), s.imag()), z((long double)rs, 0);
                auto f = [&](std::complex<long double> p, std::complex<long double> q) { return o == 0 ? p + q : o == 1 ? p - q : o == 2 ? p * q : p / q; };
                auto sc = [&](std::complex<long double> p, std::complex<long double> q) { return o < 2 ? (double)(std::abs(p) + std::abs(q)) : o == 2 ? (double)(std::abs(p) * std::abs(q)) : (double)(std::abs(p) / std::abs(q)); };
                const double k = o < 2 ? 1 : o == 2 ? 4 : 8;
                auto C_ = [](std::complex<long double> w) { return C((T)w.real(), (T)w.imag()); };
                cmp(l, r1[l], C_(f(x, y)), sc(x, y), k); cmp(l, r2[l], C_(f(x, z)), sc(x, z), k); cmp(l, r5[l], C_(f(x, y)), sc(x, y), k);
                if (o != 3 || okr) { cmp(l, r3[l], C_(f(y, x)), sc(y, x), k); cmp(l, r4[l], C_(f(z, x)), sc(z, x), k); } }
        }
        end();
    }
    const char* fnn[3] = { "fmadd", "fmsub", "fnmadd" };
    for (int o = 0; o < 3; ++o) { begin(fnn[o]);
        for (size_t i = 0; i < NV; ++i) for (size_t j = 0; j < NV; j += 3) { const C* a = vecs[i].data(); const C* b = vecs[j].data(); const C* c = vecs[(i + 2 * j + 5) % NV].data(); const V va(a, false), vb(b, false), vc(c, false);
            (o == 0 ? fmadd(va, vb, vc) : o == 1 ? fmsub(va, vb, vc) : fnmadd(va, vb, vc)).store(r, false);
            for (size_t l = 0; l < N; ++l) { const std::complex<long double> x(a[l].real(), a[l].imag()), y(b[l].real(), b[l].imag()), z(c[l].real(), c[l].imag()); const std::complex<long double> w = o == 0 ? x * y + z : o == 1 ? x * y - z : z - x * y; cmp(l, r[l], C((T)w.real(), (T)w.imag()), (double)(std::abs(x) * std::abs(y) + std::abs(z)), 6); } }
        end(); }
    begin("sum"); for (size_t i = 0; i < NV; ++i) { V v(vecs[i].data(), false); std::complex<long double> e(0, 0); long double m = 0; for (size_t l = 0; l < N; ++l) { e += std::complex<long double>(vecs[i][l].real(), vecs[i][l].imag()); m += std::abs(vecs[i][l]); } cmp(0, v.sum(), C((T)e.real(), (T)e.imag()), (double)m, N); } end();
    begin("product"); for (size_t i = 0; i < NV; ++i) { V v(vecs[i].data(), false); std::complex<long double> e(1, 0); long double m = 1; for (size_t l = 0; l < N; ++l) { e *= std::complex<long double>(vecs[i][l].real(), vecs[i][l].imag()); m *= std::abs(vecs[i][l]); } cmp(0, v.product(), C((T)e.real(), (T)e.imag()), (double)m, 6 * N); } end();
    begin("dot"); for (size_t i = 0; i < NV; ++i) for (size_t j = 0; j < NV; j += 2) { V v(vecs[i].data(), false); const V u(vecs[j].data(), false); std::complex<long double> e(0, 0); long double m = 0; for (size_t l = 0; l < N; ++l) { const std::complex<long double> x(vecs[i][l].real(), vecs[i][l].imag()), y(vecs[j][l].real(), vecs[j][l].imag()); e += x * y; m += std::abs(x) * std::abs(y); } cmp(0, v.dot(u), C((T)e.real(), (T)e.imag()), (double)m, 4 * (N + 1)); } end();
    // masks: lane j enabled iff bit j
    begin("mask_load"); for (unsigned long m = 0; m < (1UL << N); m += (N > 8 ? 37 : 1)) { const auto& a = vecs[m % NV]; V v(vecs[(m + 3) % NV].data(), false); v.mask_load(a.data(), (cmask_t)m, false); v.store(r, false); for (size_t l = 0; l < N; ++l) if ((m >> l) & 1) cmp(l, r[l], a[l], 1, 0); else { ++checked; if (!(r[l] == C(0, 0) || r[l] == vecs[(m + 3) % NV][l])) { ++bad; if (shown < 3) { ++shown; std::printf("M %s %s mask_load disabled lane %zu mask=%lu got=", tn.c_str(), an.c_str(), l, m); vh_put(r[l]); std::printf("\n"); } } } } end();
    begin("mask_store"); for (unsigned long m = 0; m < (1UL << N); m += (N > 8 ? 37 : 1)) { const auto& a = vecs[m % NV]; const auto& o = vecs[(m + 11) % NV]; C buf[3 * N]; for (size_t k = 0; k < 3 * N; ++k) buf[k] = o[k % N]; const V v(a.data(), false); v.mask_store(buf + N, (cmask_t)m, false);
        for (size_t k = 0; k < 3 * N; ++k) { const bool in = k >= N && k < 2 * N; const C want = (in && ((m >> (k - N)) & 1)) ? a[k - N] : o[k % N]; ++checked; if (!(buf[k] == want)) { ++bad; if (shown < 3) { ++shown; std::printf("M %s %s mask_store mask=%lu element=%ld got=", tn.c_str(), an.c_str(), m, (long)k - (long)N); vh_put(buf[k]); std::printf(" want="); vh_put(want); std::printf("\n"); } } } } end();
    begin("mask_store_guard_page"); for (size_t k = 1; k < N; ++k) { vh_guarded gp(k * sizeof(C)); C* p = gp.as<C>(); const auto& a = vecs[k % NV]; const V v(a.data(), false); int sig = 0; VH_GUARDED_CALL(v.mask_store(p, (cmask_t)((1UL << k) - 1), false), sig); ++checked; if (sig) { ++bad; std::printf("M %s %s mask_store_guard_page enabled_lanes=%zu signal=%d\n", tn.c_str(), an.c_str(), k, sig); } else for (size_t l = 0; l < k; ++l) cmp(l, p[l], a[l], 1, 0); } end();
    begin("mask_load_guard_page"); for (size_t k = 1; k < N; ++k) { vh_guarded gp(k * sizeof(C)); C* p = gp.as<C>(); const auto& a = vecs[k % NV]; std::memcpy((void*)p, (const void*)a.data(), k * sizeof(C)); V v; int sig = 0; VH_GUARDED_CALL(v.mask_load(p, (cmask_t)((1UL << k) - 1), false), sig); ++checked; if (sig) { ++bad; std::printf("M %s %s mask_load_guard_page enabled_lanes=%zu signal=%d\n", tn.c_str(), an.c_str(), k, sig); } else { v.store(r, false); for (size_t l = 0; l < k; ++l) cmp(l, r[l], a[l], 1, 0); } } end();
}
template<typename T> static void all_cabis() {
    cbattery<SIMDVector<std::complex<T>, simd_abi::scalar>>();
#ifdef FASTOR_SSE2_IMPL
    cbattery<SIMDVector<std::complex<T>, simd_abi::sse>>();
#endif
#ifdef FASTOR_AVX_IMPL
    cbattery<SIMDVector<std::complex<T>, simd_abi::avx>>();
#endif
#ifdef FASTOR_AVX512F_IMPL
    cbattery<SIMDVector<std::complex<T>, simd_abi::avx512>>();
#endif
}

int main() {
    vh_install_handlers();
#if VT == 0
    all_abis<float>();
#elif VT == 1
    all_abis<double>();
#elif VT == 2
    all_abis<int32_t>();
#elif VT == 3
    all_abis<int64_t>();
#elif VT == 5
    all_cabis<float>();
#elif VT == 6
    all_cabis<double>();
#else
    battery<SIMDVector<short, simd_abi::sse>>();
    battery<SIMDVector<short, simd_abi::avx>>();
    battery<SIMDVector<float, simd_abi::fixed_size<4>>>();
    battery<SIMDVector<double, simd_abi::fixed_size<8>>>();
    battery<SIMDVector<int32_t, simd_abi::fixed_size<2>>>();
    battery<SIMDVector<int64_t, simd_abi::fixed_size<16>>>();
#endif
    return 0;
}
