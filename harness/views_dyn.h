// Runtime-driven harness for the dynamic (seq) views: one binary covers every (first,last,step)
// combination on a fixed set of compile-time parent shapes. Commands are read from stdin.
//   R id p  f l s [f l s ...]             read through every route of the view of parent p
//   W id p op rhs  f l s [...]            A(view) op= rhs ; prints the whole parent with its fences
//   O id p op na  df dl ds  sf sl ss [...]  overlap: A(dst) op= A(src) [+ expression], na=1 uses noalias()
// op: 0 '=' 1 '+=' 2 '-=' 3 '*=' 4 '/='      rhs: 0 scalar 1 view of another tensor 2 expression of such a view
//                                             3 the same-type view (copy-assignment overload) 4 evaluated tensor expression
#ifndef VIEWS_DYN_H
#define VIEWS_DYN_H
#include <vector>
#include <array>
#include <string>
#include <sstream>
#include <iostream>

template<typename T> struct Src { static Fastor::Tensor<T,256>& get() { static Fastor::Tensor<T,256> s; static bool init = false; if (!init) { for (int i = 0; i < 256; ++i) s.data()[i] = (T)(2 + (i * 7) % 11); init = true; } return s; } };

template<typename T, size_t N> struct Fenced1 {           // parent tensor between canaries, like vh_fenced
    alignas(64) T pre[16]; Fastor::Tensor<T,N> A; alignas(64) T post[16];
};

template<typename T> static inline void put_all(const char* tag, long id, const T* p, size_t n) { vh_line(tag, id, p, n); }

template<typename T, typename View>
static void read_routes(long id, const View& v, int rank, const int* dims_view) {
    using V = typename View::simd_vector_type;
    const long n = (long)v.size();
    std::printf("S %ld %ld", id, n); for (int d = 0; d < rank; ++d) std::printf(" %d", (int)v.dimension(d)); std::printf("\n");
    std::printf("E %ld", id); for (long i = 0; i < n; ++i) vh_put(v.template eval_s<T>(i)); std::printf("\n");
    std::printf("V %ld", id);
    for (long i = 0; i + (long)V::Size <= n; i += V::Size) { V x = v.template eval<T>(i); T tmp[V::Size]; x.store(tmp, false); for (size_t l = 0; l < V::Size; ++l) vh_put(tmp[l]); }
    std::printf("\n");
}

// teval with a multi-index, rank known at compile time
template<typename T, size_t R, typename View>
static void read_teval(long id, const View& v) {
    using V = typename View::simd_vector_type;
    const long n = (long)v.size();
    std::array<int,R> ext; for (size_t d = 0; d < R; ++d) ext[d] = (int)v.dimension(d);
    std::printf("T %ld", id);
    for (long i = 0; i + (long)V::Size <= n; i += V::Size) {
        std::array<int,R> as; long rem = i; for (int d = (int)R - 1; d >= 0; --d) { as[d] = ext[d] ? (int)(rem % ext[d]) : 0; rem = ext[d] ? rem / ext[d] : 0; }
        // the vector routes of teval are only used by the library when a whole vector stays inside the last axis
        if (as[R-1] + (int)V::Size > ext[R-1] && R > 1) { for (size_t l = 0; l < V::Size; ++l) std::printf(" x"); continue; }
        V x = v.template teval<T>(as); T tmp[V::Size]; x.store(tmp, false); for (size_t l = 0; l < V::Size; ++l) vh_put(tmp[l]);
    }
    std::printf("\n");
    std::printf("U %ld", id);
    for (long i = 0; i < n; ++i) {
        std::array<int,R> as; long rem = i; for (int d = (int)R - 1; d >= 0; --d) { as[d] = ext[d] ? (int)(rem % ext[d]) : 0; rem = ext[d] ? rem / ext[d] : 0; }
        vh_put(v.template teval_s<T>(as));
    }
    std::printf("\n");
}

template<typename T, typename DstView, typename RhsFn>
static void apply_op(DstView dst, int op, RhsFn rhs) {
    switch (op) { case 0: dst = rhs(); break; case 1: dst += rhs(); break; case 2: dst -= rhs(); break; case 3: dst *= rhs(); break; default: dst /= rhs(); break; }
}

#endif
