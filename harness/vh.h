// Common helpers of the generated C++ correspondence harnesses.
// Included AFTER <Fastor/Fastor.h>. No dependency on anything outside /repo and libc.
#ifndef VH_H
#define VH_H
#include <cstdio>
#include <cstdlib>
#include <cstring>
#include <cstdint>
#include <complex>
#include <csignal>
#include <csetjmp>
#include <sys/mman.h>
#include <unistd.h>

// ---- deterministic data stream shared with lib/common.py (class LCG) ----
struct vh_lcg {
    uint64_t x;
    explicit vh_lcg(uint64_t s) : x((s * 2654435761ULL + 12345ULL) % (1ULL << 31)) {}
    uint64_t next() { x = (x * 1103515245ULL + 12345ULL) % (1ULL << 31); return x >> 8; }
};

template<typename T> struct vh_is_cplx { static constexpr bool value = false; };
template<typename T> struct vh_is_cplx<std::complex<T>> { static constexpr bool value = true; };

// integer-valued data in [lo,hi]
template<typename T>
inline void vh_fill(T* p, size_t n, uint64_t seed, int lo = -9, int hi = 9) {
    vh_lcg g(seed);
    for (size_t i = 0; i < n; ++i) p[i] = (T)(long long)(lo + (long long)(g.next() % (uint64_t)(hi - lo + 1)));
}
template<typename T>
inline void vh_fill(std::complex<T>* p, size_t n, uint64_t seed, int lo = -9, int hi = 9) {
    vh_lcg g(seed);
    for (size_t i = 0; i < n; ++i) {
        long long re = lo + (long long)(g.next() % (uint64_t)(hi - lo + 1));
        long long im = lo + (long long)(g.next() % (uint64_t)(hi - lo + 1));
        p[i] = std::complex<T>((T)re, (T)im);
    }
}
// dyadic rationals num/2^sh, num in [-2^bits, 2^bits]: exact in T, products are not
template<typename T>
inline void vh_fill_frac(T* p, size_t n, uint64_t seed, int bits, int sh) {
    vh_lcg g(seed);
    const long long m = (1LL << bits);
    for (size_t i = 0; i < n; ++i) {
        long long num = (long long)(g.next() % (uint64_t)(2 * m + 1)) - m;
        p[i] = (T)((double)num / (double)(1LL << sh));
    }
}

// ---- printing: one result line per case ----
inline void vh_put(float v)  { std::printf(" %a", (double)v); }
inline void vh_put(double v) { std::printf(" %a", v); }
inline void vh_put(int v) { std::printf(" %d", v); }
inline void vh_put(long v) { std::printf(" %ld", v); }
inline void vh_put(long long v) { std::printf(" %lld", v); }
inline void vh_put(unsigned long v) { std::printf(" %lu", v); }
inline void vh_put(unsigned long long v) { std::printf(" %llu", v); }
inline void vh_put(unsigned int v) { std::printf(" %u", v); }
inline void vh_put(bool v) { std::printf(" %d", v ? 1 : 0); }
inline void vh_put(char v) { std::printf(" %d", (int)v); }
inline void vh_put(signed char v) { std::printf(" %d", (int)v); }
inline void vh_put(unsigned char v) { std::printf(" %d", (int)v); }
inline void vh_put(short v) { std::printf(" %d", (int)v); }
inline void vh_put(unsigned short v) { std::printf(" %d", (int)v); }
template<typename T> inline void vh_put(std::complex<T> v) { vh_put(v.real()); vh_put(v.imag()); }

template<typename T>
inline void vh_line(const char* tag, long id, const T* p, size_t n) {
    std::printf("%s %ld", tag, id);
    for (size_t i = 0; i < n; ++i) vh_put(p[i]);
    std::printf("\n");
}

// ---- canary-fenced, sentinel-prefilled output area (aligned like a Fastor tensor) ----
template<typename T, size_t N, size_t PAD = 64>
struct vh_fenced {
    alignas(64) T buf[PAD + N + PAD];
    T sentinel;
    explicit vh_fenced(long long s) {
        sentinel = (T)s;
        for (size_t i = 0; i < PAD + N + PAD; ++i) buf[i] = sentinel;
    }
    T* data() { return buf + PAD; }
    // number of fence words changed
    int fence_damage() const {
        int d = 0;
        for (size_t i = 0; i < PAD; ++i) { if (std::memcmp(&buf[i], &sentinel, sizeof(T))) ++d; if (std::memcmp(&buf[PAD + N + i], &sentinel, sizeof(T))) ++d; }
        return d;
    }
    // number of payload words still equal to the sentinel (unwritten, unless the value coincides)
    int unwritten() const {
        int d = 0;
        for (size_t i = 0; i < N; ++i) if (!std::memcmp(&buf[PAD + i], &sentinel, sizeof(T))) ++d;
        return d;
    }
};

// ---- guard pages: a buffer of nbytes ending flush against a PROT_NONE page (or starting after one) ----
struct vh_guarded {
    char* base; size_t total; char* ptr;
    // misalign: the buffer *end* is at page_end - 0 (flush) and the start therefore has whatever alignment results;
    // front=true places the start flush after a PROT_NONE page instead.
    vh_guarded(size_t nbytes, bool front = false, size_t shift = 0) {
        const size_t pg = (size_t)sysconf(_SC_PAGESIZE);
        size_t body = ((nbytes + shift + pg - 1) / pg + 1) * pg;
        total = body + 2 * pg;
        base = (char*)mmap(nullptr, total, PROT_READ | PROT_WRITE, MAP_PRIVATE | MAP_ANONYMOUS, -1, 0);
        if (base == (char*)MAP_FAILED) { std::perror("mmap"); std::exit(3); }
        std::memset(base, 0x5a, total);
        mprotect(base, pg, PROT_NONE);
        mprotect(base + pg + body, pg, PROT_NONE);
        ptr = front ? base + pg + shift : base + pg + body - nbytes - shift;
    }
    ~vh_guarded() { munmap(base, total); }
    template<typename T> T* as() { return reinterpret_cast<T*>(ptr); }
};

static sigjmp_buf vh_jmp;
static volatile sig_atomic_t vh_sig_armed = 0;
inline void vh_on_sig(int sig) { if (vh_sig_armed) siglongjmp(vh_jmp, sig); std::_Exit(100 + sig); }
inline void vh_install_handlers() {
    struct sigaction sa; std::memset(&sa, 0, sizeof sa); sa.sa_handler = vh_on_sig; sa.sa_flags = SA_NODEFER;
    sigaction(SIGSEGV, &sa, nullptr); sigaction(SIGBUS, &sa, nullptr); sigaction(SIGFPE, &sa, nullptr); sigaction(SIGILL, &sa, nullptr);
}
// run f(); returns 0 or the signal number
#define VH_GUARDED_CALL(stmt, sigvar) do { vh_sig_armed = 1; sigvar = sigsetjmp(vh_jmp, 1); if (!sigvar) { stmt; } vh_sig_armed = 0; } while (0)

// ---- allocation counting (C07): operator new/delete replaced, malloc family counted through hooks ----
#ifdef VH_COUNT_ALLOC
#include <new>
static volatile long vh_allocs = 0;
void* operator new(std::size_t n) { ++vh_allocs; void* p = std::malloc(n ? n : 1); if (!p) throw std::bad_alloc(); return p; }
void* operator new[](std::size_t n) { ++vh_allocs; void* p = std::malloc(n ? n : 1); if (!p) throw std::bad_alloc(); return p; }
void operator delete(void* p) noexcept { std::free(p); }
void operator delete[](void* p) noexcept { std::free(p); }
void operator delete(void* p, std::size_t) noexcept { std::free(p); }
void operator delete[](void* p, std::size_t) noexcept { std::free(p); }
#endif

#endif
