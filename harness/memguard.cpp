// C07 harness: operands flush against inaccessible pages.  -DSEC=1|2|3, -DTY=<element type>
//   SEC 1  external buffers wrapped in TensorMap (unaligned, exact extent) as inputs and outputs of expressions / reductions / matmul
//   SEC 2  owning tensors placed so that their storage ends at a page end: matmul for every small shape, transpose, determinant,
//          inverse, outer, norm, trace ... (the kernels with 3-as-4-wide loads, masked tails, shuffles)
//   SEC 3  runtime checks (out-of-range index must throw, not access) and dynamic allocation counting
// Output:  S <section> <what> <count>      operations completed without touching a guard page, results equal to scalar code
//          F <section> <what> <detail>     a fault (signal) or a wrong value / a touched canary
#include <Fastor/Fastor.h>
#define VH_COUNT_ALLOC 1
#include "vh.h"
#include <cmath>
#include <new>
#include <stdexcept>
using namespace Fastor;
#ifndef SEC
#define SEC 1
#endif
#ifndef TY
#define TY float
#endif
typedef TY T;

static long n_ok = 0, n_bad = 0;
static void fail(const char* what, const char* detail, long a = 0, long b = 0, long c = 0) { ++n_bad; std::printf("F %d %s %s %ld %ld %ld\n", SEC, what, detail, a, b, c); }
template<typename X> static bool close_enough(X got, X want) { if (std::is_integral<X>::value) return got == want; const double d = std::fabs((double)got - (double)want); return d <= 1e-4 * std::max(1.0, std::fabs((double)want)); }

// a buffer of n elements of T, ending flush at an inaccessible page (front = false) or starting right after one (front = true)
template<size_t n> struct Ext {
    vh_guarded g; T* p;
    Ext(bool front, long seed) : g(n * sizeof(T), front, 0), p(g.as<T>()) { vh_fill(p, n, seed, -3, 3); }
};

#if SEC == 1
template<size_t n> static void ext_size() {
    for (int front = 0; front < 2; ++front) {
        Ext<n> a(front, 11 + n), b(front, 23 + n), c(front, 37 + n); int sig = 0; T ref[n], a0[n], b0[n];
        for (size_t i = 0; i < n; ++i) { a0[i] = a.p[i]; b0[i] = b.p[i]; }
        // elementwise expression from maps into a map
        VH_GUARDED_CALL(({ TensorMap<T,n> A(a.p), B(b.p), C(c.p); C = A + B * (T)2 - A * B; }), sig);
        if (sig) fail("map_expression", "signal", n, front, sig); else { bool ok = true; for (size_t i = 0; i < n; ++i) if (!close_enough(c.p[i], (T)(a0[i] + b0[i] * (T)2 - a0[i] * b0[i]))) ok = false; if (!ok) fail("map_expression", "value", n, front); else ++n_ok; }
        // in-place operators on a map
        VH_GUARDED_CALL(({ TensorMap<T,n> A(a.p), C(c.p); C += A; C -= (T)1; C *= (T)2; }), sig);
        if (sig) fail("map_inplace", "signal", n, front, sig); else ++n_ok;
        // map -> owning tensor and back
        VH_GUARDED_CALL(({ TensorMap<T,n> A(a.p), C(c.p); Tensor<T,n> t = A; t += (T)1; C = t; }), sig);
        if (sig) fail("map_to_tensor", "signal", n, front, sig); else { bool ok = true; for (size_t i = 0; i < n; ++i) if (!close_enough(c.p[i], (T)(a0[i] + 1))) ok = false; if (!ok) fail("map_to_tensor", "value", n, front); else ++n_ok; }
        // reductions over a map and over an expression of maps
        T s1 = 0, s2 = 0, mn = 0, mx = 0; volatile T sink = 0;
        VH_GUARDED_CALL(({ TensorMap<T,n> A(a.p), B(b.p); s1 = sum(A); s2 = sum(A + B); mn = min(A); mx = max(A); sink = inner(A, B); }), sig);
        if (sig) fail("map_reductions", "signal", n, front, sig);
        else { T e1 = 0, e2 = 0, emn = a0[0], emx = a0[0]; for (size_t i = 0; i < n; ++i) { e1 += a0[i]; e2 += a0[i] + b0[i]; emn = std::min(emn, a0[i]); emx = std::max(emx, a0[i]); }
               if (!close_enough(s1, e1) || !close_enough(s2, e2) || mn != emn || mx != emx) fail("map_reductions", "value", n, front); else ++n_ok; }
        (void)sink; (void)ref;
    }
}
template<size_t m, size_t k, size_t n> static void ext_matmul() {
    for (int front = 0; front < 2; ++front) {
        Ext<m * k> a(front, 5 + m); Ext<k * n> b(front, 7 + n); Ext<m * n> c(front, 9 + k); int sig = 0;
        VH_GUARDED_CALL(({ TensorMap<T,m,k> A(a.p); TensorMap<T,k,n> B(b.p); TensorMap<T,m,n> C(c.p); Tensor<T,m,n> t = A % B; C = t; }), sig);
        if (sig) { fail("map_matmul", "signal", m * 10000 + k * 100 + n, front, sig); continue; }
        bool ok = true; for (size_t i = 0; i < m; ++i) for (size_t j = 0; j < n; ++j) { T e = 0; for (size_t p = 0; p < k; ++p) e += a.p[i * k + p] * b.p[p * n + j]; if (!close_enough(c.p[i * n + j], e)) ok = false; }
        if (!ok) fail("map_matmul", "value", m * 10000 + k * 100 + n, front); else ++n_ok;
        VH_GUARDED_CALL(({ TensorMap<T,m,k> A(a.p); TensorMap<T,k,n> B(b.p); Tensor<T,m,n> t = matmul(Tensor<T,m,k>(A), Tensor<T,k,n>(B)); TensorMap<T,m,n> C(c.p); C = t; }), sig);
        if (sig) fail("map_to_matmul", "signal", m * 10000 + k * 100 + n, front, sig); else ++n_ok;
    }
}
template<size_t... ns> static void ext_all(std_ext::index_sequence<ns...>) { int d[] = { (ext_size<ns + 1>(), 0)... }; (void)d; }
static void run() {
    ext_all(std_ext::make_index_sequence<21>::type());       // sizes 1..21
    ext_size<23>(); ext_size<31>(); ext_size<32>(); ext_size<33>(); ext_size<47>(); ext_size<63>(); ext_size<65>();
    ext_matmul<1,1,1>(); ext_matmul<2,2,2>(); ext_matmul<3,3,3>(); ext_matmul<2,3,1>(); ext_matmul<3,1,3>(); ext_matmul<1,3,3>(); ext_matmul<3,3,1>(); ext_matmul<4,4,4>(); ext_matmul<3,4,5>(); ext_matmul<5,3,2>(); ext_matmul<5,5,5>(); ext_matmul<7,3,7>(); ext_matmul<2,9,3>(); ext_matmul<9,9,9>(); ext_matmul<8,7,5>(); ext_matmul<1,17,1>(); ext_matmul<17,1,17>(); ext_matmul<4,2,22>(); ext_matmul<4,3,23>(); ext_matmul<5,2,26>(); ext_matmul<4,2,27>(); ext_matmul<4,2,43>(); ext_matmul<5,3,47>(); ext_matmul<22,2,4>(); ext_matmul<4,23,4>();
}
#endif

#if SEC == 2
// an owning object whose storage ends at a page end (or starts right after an inaccessible page)
template<typename X> struct Own {
    vh_guarded g; X* t;
    Own(bool front, long seed) : g(sizeof(X), front, 0), t(new (g.ptr) X()) { vh_fill(t->data(), X::size(), seed, -3, 3); }
};
template<size_t m, size_t k, size_t n> static void own_matmul() {
    for (int front = 0; front < 2; ++front) {
        Own<Tensor<T,m,k>> a(front, 3 + m + k); Own<Tensor<T,k,n>> b(front, 5 + k + n); Own<Tensor<T,m,n>> c(front, 1); int sig = 0;
        VH_GUARDED_CALL(({ *c.t = matmul(*a.t, *b.t); }), sig);
        if (sig) { fail("matmul", "signal", m * 10000 + k * 100 + n, front, sig); continue; }
        bool ok = true; for (size_t i = 0; i < m; ++i) for (size_t j = 0; j < n; ++j) { T e = 0; for (size_t p = 0; p < k; ++p) e += (*a.t)(i, p) * (*b.t)(p, j); if (!close_enough((*c.t)(i, j), e)) ok = false; }
        if (!ok) fail("matmul", "value", m * 10000 + k * 100 + n, front); else ++n_ok;
        VH_GUARDED_CALL(({ *c.t += (*a.t) % (*b.t); }), sig);
        if (sig) fail("lazy_matmul_add", "signal", m * 10000 + k * 100 + n, front, sig); else ++n_ok;
        // the product evaluated straight into the destination object (construction from the expression: no temporary in between)
        { Own<Tensor<T,m,n>> c2(front, 2); Tensor<T,m,n>* r = nullptr;
          VH_GUARDED_CALL(({ r = new (c2.g.ptr) Tensor<T,m,n>((*a.t) % (*b.t)); }), sig);
          if (sig) { fail("matmul_into_destination", "signal", m * 10000 + k * 100 + n, front, sig); continue; }
          bool ok2 = true; for (size_t i = 0; i < m; ++i) for (size_t j = 0; j < n; ++j) { T e = 0; for (size_t p = 0; p < k; ++p) e += (*a.t)(i, p) * (*b.t)(p, j); if (!close_enough((*r)(i, j), e)) ok2 = false; }
          if (!ok2) fail("matmul_into_destination", "value", m * 10000 + k * 100 + n, front); else ++n_ok; }
    }
}
template<size_t m, size_t n> static void own_2d() {
    for (int front = 0; front < 2; ++front) {
        Own<Tensor<T,m,n>> a(front, 13 + m * n); Own<Tensor<T,n,m>> c(front, 2); Own<Tensor<T,m,n>> d(front, 3); int sig = 0;
        VH_GUARDED_CALL(({ *c.t = transpose(*a.t); }), sig);
        if (sig) fail("transpose", "signal", m * 100 + n, front, sig); else { bool ok = true; for (size_t i = 0; i < m; ++i) for (size_t j = 0; j < n; ++j) if ((*c.t)(j, i) != (*a.t)(i, j)) ok = false; if (!ok) fail("transpose", "value", m * 100 + n, front); else ++n_ok; }
        VH_GUARDED_CALL(({ *c.t = trans(*a.t) + trans(*a.t); *d.t = (*a.t) * (T)2 + sqrt(abs(*a.t)); }), sig);
        if (sig) fail("lazy_trans_expr", "signal", m * 100 + n, front, sig); else ++n_ok;
        { Own<Tensor<T,n,m>> c2(front, 4); Tensor<T,n,m>* r = nullptr;
          VH_GUARDED_CALL(({ r = new (c2.g.ptr) Tensor<T,n,m>(trans(*a.t)); }), sig);
          if (sig) fail("trans_into_destination", "signal", m * 100 + n, front, sig); else { bool ok2 = true; for (size_t i = 0; i < m; ++i) for (size_t j = 0; j < n; ++j) if ((*r)(j, i) != (*a.t)(i, j)) ok2 = false; if (!ok2) fail("trans_into_destination", "value", m * 100 + n, front); else ++n_ok; } }
        volatile T sink = 0;
        VH_GUARDED_CALL(({ sink = norm(*a.t); sink = sum(*a.t); sink = product(*a.t); sink = min(*a.t); sink = max(*a.t); sink = inner(*a.t, *a.t); }), sig);
        if (sig) fail("reductions", "signal", m * 100 + n, front, sig); else ++n_ok;
        Own<Tensor<T,m>> u(front, 7); Own<Tensor<T,n>> v(front, 8);
        VH_GUARDED_CALL(({ *d.t = outer(*u.t, *v.t); *u.t = matmul(*a.t, *v.t); *v.t = matmul(*u.t, *a.t); }), sig);
        if (sig) fail("outer_matvec_vecmat", "signal", m * 100 + n, front, sig); else ++n_ok;
        VH_GUARDED_CALL(({ *d.t = (*a.t)(all, all); (*d.t)(fseq<0,m>(), fseq<0,n>()) += (*a.t)(fseq<0,m>(), fseq<0,n>()); (*d.t)(seq(0, (int)m), seq(0, (int)n)) = *a.t; (*d.t)(all, fix<n - 1>) = (*a.t)(all, fix<0>); }), sig);
        if (sig) fail("views", "signal", m * 100 + n, front, sig); else ++n_ok;
        // compile-time views between tensors whose rows are not vector aligned: plain copies (const and non-const source), blocks that
        // start at row / column 1, a view inside an expression - no alignment-requiring access may be issued on such rows
        VH_GUARDED_CALL(({ const Tensor<T,m,n>& ca = *a.t;
            (*d.t)(fseq<0,m>(), fseq<0,n>()) = ca(fseq<0,m>(), fseq<0,n>());
            (*d.t)(fseq<1,m>(), fseq<0,n>()) = ca(fseq<1,m>(), fseq<0,n>());
            (*d.t)(fseq<0,m-1>(), fseq<1,n>()) = (*a.t)(fseq<1,m>(), fseq<0,n-1>());
            (*d.t)(fseq<0,m>(), fseq<0,n>()) = (*a.t)(fseq<0,m>(), fseq<0,n>()) + ca(fseq<0,m>(), fseq<0,n>());
            Tensor<T,m,n> e = ca(fseq<0,m>(), fseq<0,n>()) * (T)2; (*d.t) = e; }), sig);
        if (sig) fail("fixed_views", "signal", m * 100 + n, front, sig); else ++n_ok;
        (void)sink;
    }
}
template<size_t n, bool SMALL = (n <= 4)> struct CofAdj { static void run(const Tensor<T,n,n>&, Tensor<T,n,n>&) {} };       // cofactor / adjoint exist for n <= 4 only
template<size_t n> struct CofAdj<n, true> { static void run(const Tensor<T,n,n>& a, Tensor<T,n,n>& c) { c = cofactor(a); c = adjoint(a); } };
template<size_t n> static void own_square() {
    for (int front = 0; front < 2; ++front) {
        Own<Tensor<T,n,n>> a(front, 17 + n); Own<Tensor<T,n,n>> c(front, 4); int sig = 0; volatile T sink = 0;
        for (size_t i = 0; i < n; ++i) (*a.t)(i, i) = (T)(3 * n + 2);
        VH_GUARDED_CALL(({ sink = determinant(*a.t); sink = trace(*a.t); *c.t = inverse(*a.t); CofAdj<n>::run(*a.t, *c.t); }), sig);
        if (sig) fail("det_inverse_cof_adj", "signal", n, front, sig); else ++n_ok;
        Own<Tensor<T,n>> v(front, 6);
        VH_GUARDED_CALL(({ *v.t = solve(*a.t, *v.t); Tensor<T,n,n> L, U; lu(*a.t, L, U); *c.t = matmul(L, U); Tensor<T,n,n> Q, R; qr(*a.t, Q, R); *c.t = matmul(Q, R); }), sig);
        if (sig) fail("solve_lu_qr", "signal", n, front, sig); else ++n_ok;
        (void)sink;
    }
}
template<size_t m, size_t k, size_t... ns> static void mm_n(std_ext::index_sequence<ns...>) { int d[] = { (own_matmul<m, k, ns + 1>(), 0)... }; (void)d; }
template<size_t m, size_t... ks> static void mm_k(std_ext::index_sequence<ks...>) { int d[] = { (mm_n<m, ks + 1>(std_ext::make_index_sequence<MMAX>::type()), 0)... }; (void)d; }
template<size_t... ms> static void mm_m(std_ext::index_sequence<ms...>) { int d[] = { (mm_k<ms + 1>(std_ext::make_index_sequence<MMAX>::type()), 0)... }; (void)d; }
template<size_t m, size_t... ns> static void d2_n(std_ext::index_sequence<ns...>) { int d[] = { (own_2d<m, ns + 2>(), 0)... }; (void)d; }
template<size_t... ms> static void d2_m(std_ext::index_sequence<ms...>) { int d[] = { (d2_n<ms + 2>(std_ext::make_index_sequence<8>::type()), 0)... }; (void)d; }
template<size_t... ns> static void sq_n(std_ext::index_sequence<ns...>) { int d[] = { (own_square<ns + 2>(), 0)... }; (void)d; }
static void run() {
#if PART == 0
    mm_m(std_ext::make_index_sequence<MMAX>::type());                 // every (M,K,N) in 1..MMAX
#elif PART == 1
    d2_m(std_ext::make_index_sequence<8>::type());                    // every (M,N) in 2..9
    own_matmul<9,9,9>(); own_matmul<8,16,8>(); own_matmul<16,3,16>(); own_matmul<3,17,5>(); own_matmul<17,17,17>(); own_matmul<5,33,2>(); own_matmul<12,7,13>();
    // wide outputs: more than five vectors per row with every remainder (the masked interior kernels), tall and deep ones
    own_matmul<4,2,22>(); own_matmul<4,2,23>(); own_matmul<5,3,26>(); own_matmul<4,2,27>(); own_matmul<4,4,21>(); own_matmul<6,2,25>(); own_matmul<4,2,42>(); own_matmul<4,2,43>(); own_matmul<5,2,45>(); own_matmul<4,3,47>(); own_matmul<4,2,83>();
    // row counts that are multiples of every small-N row unrolling (10, 5, 4, 3, 2) with fewer columns than a vector: the last row block ends the output
    own_matmul<10,2,3>(); own_matmul<20,3,3>(); own_matmul<10,3,5>(); own_matmul<20,2,7>(); own_matmul<40,2,6>(); own_matmul<30,2,2>(); own_matmul<20,2,9>(); own_matmul<12,2,13>();
    own_matmul<22,3,4>(); own_matmul<23,2,5>(); own_matmul<4,22,4>(); own_matmul<5,23,3>(); own_matmul<3,2,22>(); own_matmul<2,2,23>(); own_matmul<1,4,27>();
#else
    sq_n(std_ext::make_index_sequence<8>::type());                    // square 2..9
    own_square<12>(); own_square<17>();
#endif
}
#endif

#if SEC == 3
static long allocs_in(void (*f)()) { const long before = vh_allocs; f(); return vh_allocs - before; }

// every axis of ranks 1..5 with pairwise different extents: exactly the indices in [-extent, extent-1] are accepted
static const int CAND[] = { -9, -8, -7, -6, -5, -4, -3, -2, -1, 0, 1, 2, 3, 4, 5, 6, 7, 8 };
template<typename F> static void sweep_axis(const char* what, int axis, int extent, F access) {
    for (int v : CAND) {
        bool threw = false; int sig = 0;
        VH_GUARDED_CALL(({ try { access(v); } catch (const std::exception&) { threw = true; } }), sig);
        const bool valid = v >= -extent && v < extent;
        if (sig) fail(what, "signal instead of an exception", axis, v, sig);
        else if (valid && threw) fail(what, "exception for a valid index", axis, v);
        else if (!valid && !threw) fail(what, "no exception for an out-of-range index", axis, v);
        else ++n_ok;
    }
}
static void bounds_sweep() {
    volatile T sink = 0;
    { Tensor<T,5> t; t.iota(0); sweep_axis("bounds_rank1", 0, 5, [&](int v) { sink = t(v); }); }
    { Tensor<T,3,5> t; t.iota(0); sweep_axis("bounds_rank2", 0, 3, [&](int v) { sink = t(v, 1); }); sweep_axis("bounds_rank2", 1, 5, [&](int v) { sink = t(1, v); }); }
    { Tensor<T,2,3,5> t; t.iota(0); sweep_axis("bounds_rank3", 0, 2, [&](int v) { sink = t(v, 1, 1); }); sweep_axis("bounds_rank3", 1, 3, [&](int v) { sink = t(1, v, 1); }); sweep_axis("bounds_rank3", 2, 5, [&](int v) { sink = t(1, 1, v); }); }
    { Tensor<T,5,3,2> t; t.iota(0); sweep_axis("bounds_rank3b", 0, 5, [&](int v) { sink = t(v, 1, 1); }); sweep_axis("bounds_rank3b", 1, 3, [&](int v) { sink = t(1, v, 1); }); sweep_axis("bounds_rank3b", 2, 2, [&](int v) { sink = t(1, 1, v); }); }
    { Tensor<T,2,3,4,5> t; t.iota(0); sweep_axis("bounds_rank4", 0, 2, [&](int v) { sink = t(v, 1, 1, 1); }); sweep_axis("bounds_rank4", 1, 3, [&](int v) { sink = t(1, v, 1, 1); }); sweep_axis("bounds_rank4", 2, 4, [&](int v) { sink = t(1, 1, v, 1); }); sweep_axis("bounds_rank4", 3, 5, [&](int v) { sink = t(1, 1, 1, v); }); }
    { Tensor<T,2,3,4,5,6> t; t.iota(0); sweep_axis("bounds_rank5", 0, 2, [&](int v) { sink = t(v, 1, 1, 1, 1); }); sweep_axis("bounds_rank5", 1, 3, [&](int v) { sink = t(1, v, 1, 1, 1); }); sweep_axis("bounds_rank5", 2, 4, [&](int v) { sink = t(1, 1, v, 1, 1); }); sweep_axis("bounds_rank5", 3, 5, [&](int v) { sink = t(1, 1, 1, v, 1); }); sweep_axis("bounds_rank5", 4, 6, [&](int v) { sink = t(1, 1, 1, 1, v); }); }
    { T buf[30]; for (int i = 0; i < 30; ++i) buf[i] = (T)i; TensorMap<T,2,3,5> m(buf); sweep_axis("bounds_map_rank3", 0, 2, [&](int v) { sink = m(v, 1, 1); }); sweep_axis("bounds_map_rank3", 1, 3, [&](int v) { sink = m(1, v, 1); }); sweep_axis("bounds_map_rank3", 2, 5, [&](int v) { sink = m(1, 1, v); }); }
    { Tensor<T,3,5> t; t.iota(0); sweep_axis("bounds_write_rank2", 1, 5, [&](int v) { t(2, v) = (T)1; }); }
    (void)sink;
}
static void work_expr() { Tensor<T,7,5> A, B; A.iota(1); B.iota(2); Tensor<T,7,5> C = A + B * (T)2 - sqrt(abs(A)); C += A; volatile T s = sum(C) + norm(C) + min(C) + max(C); (void)s; }
static void work_linalg() { Tensor<T,6,6> A; A.iota(1); for (size_t i = 0; i < 6; ++i) A(i, i) += 40; Tensor<T,6,6> X = inverse(A); Tensor<T,6,6> L, U; lu(A, L, U); Tensor<T,6,6> Q, R; qr(A, Q, R); Tensor<T,6> b; b.iota(0); Tensor<T,6> x = solve(A, b); volatile T s = determinant(A) + X(0, 0) + x(1) + Q(0, 0); (void)s; Tensor<T,6,6> Y = A % X + trans(A); (void)Y; }
static void work_einsum() { Tensor<T,3,4> A; Tensor<T,4,5> B; Tensor<T,5,2> C; A.iota(1); B.iota(2); C.iota(3); auto D = einsum<Index<0,1>,Index<1,2>,Index<2,3>>(A, B, C); auto E = permute<Index<1,0>>(A); auto F = einsum<Index<0,1>,Index<1,2>>(A, B); volatile T s = D(0, 0) + E(0, 0) + F(0, 0); (void)s; }
static void work_views() { Tensor<T,9,8> A; A.iota(0); Tensor<T,4,3> S = A(seq(0, 8, 2), seq(1, 7, 2)); A(fseq<0,4>(), fseq<0,3>()) = S; Tensor<int,3> idx = {1, 2, 0}; Tensor<T,9> v; v.iota(0); Tensor<T,3> w = v(idx); volatile T s = S(0, 0) + w(0); (void)s; }
static void run() {
    // ---- no dynamic allocation in tensor operations
    struct { const char* n; void (*f)(); } W[] = { { "expressions_reductions", work_expr }, { "inverse_lu_qr_solve_det", work_linalg }, { "einsum_permute", work_einsum }, { "views", work_views } };
    for (auto& w : W) { const long a = allocs_in(w.f); if (a) fail("allocation", w.n, a); else ++n_ok; }
    // ---- runtime checks: an out-of-range index throws std::runtime_error instead of touching memory
#if !defined(NDEBUG) || FASTOR_ENABLE_RUNTIME_CHECKS
    {
        struct OwnT { vh_guarded g; Tensor<T,4,5>* t; OwnT() : g(sizeof(Tensor<T,4,5>), false, 0), t(new (g.ptr) Tensor<T,4,5>()) { t->iota(1); } } a;
        const int bad[][2] = { { 4, 0 }, { 0, 5 }, { 3, 7 }, { 100, 100 }, { -5, 0 }, { 0, -6 }, { 1 << 20, 0 } };
        for (auto& ij : bad) {
            int sig = 0; bool threw = false; volatile T sink = 0;
            VH_GUARDED_CALL(({ try { sink = (*a.t)(ij[0], ij[1]); } catch (const std::exception&) { threw = true; } }), sig);
            if (sig) fail("bounds_check", "signal instead of an exception", ij[0], ij[1], sig); else if (!threw) fail("bounds_check", "no exception for an out-of-range index", ij[0], ij[1]); else ++n_ok;
            (void)sink;
        }
        for (int ij = 0; ij < 2; ++ij) { bool threw = false; try { volatile T s = (*a.t)(ij ? 3 : -4, ij ? 4 : -5); (void)s; } catch (const std::exception&) { threw = true; } if (threw) fail("bounds_check", "exception for a valid index", ij); else ++n_ok; }
        bounds_sweep();
        Tensor<T,6> v; v.iota(0); const int badv[] = { 6, -7, 1000 };
        for (int i : badv) { bool threw = false; int sig = 0; volatile T sink = 0; VH_GUARDED_CALL(({ try { sink = v(i); } catch (const std::exception&) { threw = true; } }), sig); if (sig || !threw) fail("bounds_check_1d", sig ? "signal" : "no exception", i, 0, sig); else ++n_ok; (void)sink; }
    }
#endif
}
#endif

int main() {
    vh_install_handlers();
    run();
    std::printf("S %d total %ld\n", SEC, n_ok);
    if (n_bad) std::printf("B %d failures %ld\n", SEC, n_bad);
    return 0;
}
