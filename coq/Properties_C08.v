(** C08 - Every SIMD vector type behaves as independent scalar lanes.
    Proved here for the INTEGER vector types over all lane values (two's complement, width w): the lane-wise
    specification, the horizontal folds, the SSE2 helper functions of extintrin.h as written, and the
    fallback masked load/store as written.  Floating-point lanes, the AVX/AVX-512 wrappers (one intrinsic
    each) and the complex types are tied by the lane-by-lane correspondence only (PARTIAL). *)
From Coq Require Import ZArith List Lia Bool Permutation.
From FastorV Require Import Model.Simd Proofs.SimdProofs.
Import ListNotations.
Local Open Scope Z_scope.

(** every binary operation acts on lane k alone: lane k of the result is the scalar operation on lane k *)
Theorem C08_lanewise :
  forall w a b k, (k < length a)%nat -> length a = length b ->
    nth k (v_add w a b) 0 = wrap w (nth k a 0 + nth k b 0) /\
    nth k (v_sub w a b) 0 = wrap w (nth k a 0 - nth k b 0) /\
    nth k (v_mul w a b) 0 = wrap w (nth k a 0 * nth k b 0) /\
    nth k (v_min a b) 0 = Z.min (nth k a 0) (nth k b 0) /\
    nth k (v_max a b) 0 = Z.max (nth k a 0) (nth k b 0).
Proof.
  intros w a b k Hk Hl.
  split; [apply v_add_lane; assumption|]. split; [apply v_sub_lane; assumption|]. split; [apply v_mul_lane; assumption|].
  split; [apply v_min_lane; assumption | apply v_max_lane; assumption].
Qed.
Print Assumptions C08_lanewise.

Theorem C08_structure :
  forall w a k, (k < length a)%nat ->
    nth k (v_reverse a) 0 = nth (length a - 1 - k) a 0 /\
    nth k (v_set a) 0 = nth (length a - 1 - k) a 0 /\
    forall x, nth k (v_set_sequential w (length a) x) 0 = wrap w (x + Z.of_nat k).
Proof.
  intros w a k Hk. split; [apply v_reverse_lane; auto | split; [apply v_set_lane; auto | intros; apply v_set_sequential_lane; auto]].
Qed.
Print Assumptions C08_structure.

(** horizontal sum / product: the wrapped exact sum / product of the lanes, hence the same for every
    reduction order (pairwise trees, half-register ladders, hadd) *)
Theorem C08_horizontal_sum :
  forall w l l', 0 < w -> Permutation l l' ->
    h_sum w l = wrap w (zsum l) /\ h_sum w l = h_sum w l' /\
    forall l1 l2, h_sum w (l1 ++ l2) = wrap w (h_sum w l1 + h_sum w l2).
Proof. intros w l l' Hw Hp. split; [apply h_sum_total; auto | split; [apply h_sum_perm; auto | intros; apply h_sum_app; auto]]. Qed.
Print Assumptions C08_horizontal_sum.

Theorem C08_horizontal_product : forall w l, 1 < w -> h_prod w l = wrap w (zprod l).
Proof. exact h_prod_total. Qed.
Print Assumptions C08_horizontal_product.

Theorem C08_minimum_maximum :
  forall x l, (In (h_min (x :: l)) (x :: l) /\ forall y, In y (x :: l) -> h_min (x :: l) <= y) /\
              (In (h_max (x :: l)) (x :: l) /\ forall y, In y (x :: l) -> y <= h_max (x :: l)).
Proof. intros; split; [apply h_min_spec | apply h_max_spec]. Qed.
Print Assumptions C08_minimum_maximum.

(** the SSE2 int32 helpers of extintrin.h, as written over the intrinsics they call, meet the lane specification
    for ALL lane values (not a sample): shuffle/add ladder, epu32-based products, sign-mask abs *)
Theorem C08_sse2_int32_helpers :
  forall a0 a1 a2 a3 b0 b1 b2 b3,
    sum_epi32 [a0; a1; a2; a3] = h_sum 32 [a0; a1; a2; a3] /\
    prod_epi32 [a0; a1; a2; a3] = h_prod 32 [a0; a1; a2; a3] /\
    mul_epi32x_sse2 [a0; a1; a2; a3] [b0; b1; b2; b3] = v_mul 32 [a0; a1; a2; a3] [b0; b1; b2; b3] /\
    dot_epi32_sse2 [a0; a1; a2; a3] [b0; b1; b2; b3] = h_dot 32 [a0; a1; a2; a3] [b0; b1; b2; b3] /\
    reverse_epi32 [a0; a1; a2; a3] = v_reverse [a0; a1; a2; a3] /\
    neg_epi32 [a0; a1; a2; a3] = v_neg 32 [a0; a1; a2; a3] /\
    (in_lane 32 a0 -> in_lane 32 a1 -> in_lane 32 a2 -> in_lane 32 a3 ->
     abs_epi32_sse2 [a0; a1; a2; a3] = v_abs 32 [a0; a1; a2; a3]).
Proof.
  intros.
  split; [apply sum_epi32_spec|]. split; [apply prod_epi32_spec|]. split; [apply mul_epi32x_sse2_spec|].
  split; [apply dot_epi32_sse2_spec|]. split; [apply reverse_epi32_spec|]. split; [apply neg_epi32_spec|].
  apply abs_epi32_sse2_spec.
Qed.
Print Assumptions C08_sse2_int32_helpers.

(** the sign-bit-flip "negation" the snapshot shipped (repaired by a fix: commit) agrees with negation
    on exactly two of the 2^32 lane values *)
Theorem C08_signflip_negation_refuted :
  forall x, in_lane 32 x -> neg_by_signflip x = l_neg 32 x -> x = 2 ^ 30 \/ x = - 2 ^ 30.
Proof. exact neg_by_signflip_refuted. Qed.
Print Assumptions C08_signflip_negation_refuted.

(** masked store / load (fallback code as written): lane j is touched iff bit j of the mask is set;
    every other memory element keeps its value; disabled lanes of a masked load read nothing *)
Theorem C08_masks :
  forall n mask v mem,
    (forall q, mask_store_fb n mask v mem q = if (q <? n)%nat && Z.testbit mask (Z.of_nat q) then nth q v 0 else mem q) /\
    mask_load_fb n mask mem = map (fun q => if Z.testbit mask (Z.of_nat q) then mem q else 0) (seq 0 n).
Proof. intros; split; [intros; apply mask_store_fb_spec | apply mask_load_fb_spec]. Qed.
Print Assumptions C08_masks.

(** non-vacuity: concrete lanes incl. the extreme values *)
Example C08_runs :
  (sum_epi32 [2147483647; 1; -2147483648; 5], prod_epi32 [65536; 65536; 3; 1], abs_epi32_sse2 [-2147483648; -1; 0; 7],
   mul_epi32x_sse2 [46341; -46341; 2147483647; -2147483648] [46341; 46341; 2; -1],
   map (mask_store_fb 4 5 [10; 11; 12; 13] (fun _ => -1)) [0; 1; 2; 3; 4]%nat)
  = (5, 0, [-2147483648; 1; 0; 7], [-2147479015; 2147479015; -2; -2147483648], [10; -1; 12; -1; -1]).
Proof. vm_compute. reflexivity. Qed.

(** * Tie to the source (translator): the arithmetic operators of the floating SIMD types
    (simd_vector_double.h, simd_vector_float.h; sse, avx and avx512), as translated on every run: each of the ~150
    overloads issues exactly one arithmetic intrinsic, of the operator's own kind (add / sub / mul / div; neg for
    unary minus), of the width of the type it belongs to and of the element type's suffix; every (type, operator,
    width) has its three compound forms and three binary functions.  The lane-wise meaning of the intrinsics is
    Intel's specification: trusted, and observed by the lane correspondence of this property. *)
From Coq Require Import Arith.
From FastorV Require Import Gen.GeneratedAccess Proofs.GenAccessEq.
Local Open Scope nat_scope.
Theorem C08_source_floating_operators :
  forallb simd_fp_operator_ok gen_simd_fp_operators = true /\
  forallb (fun k : nat * nat * nat => let '(ty, op, w) := k in
     (3 <=? List.length (filter (fun e : nat * nat * bool * nat * nat * nat * bool => let '(t, o, c, w', _, s, _) := e in (t =? ty) && (o =? op) && c && (w' =? w) && (s =? op)) gen_simd_fp_operators)) &&
     (3 <=? List.length (filter (fun e : nat * nat * bool * nat * nat * nat * bool => let '(t, o, c, w', _, s, _) := e in (t =? ty) && (o =? op) && negb c && (w' =? w) && (s =? op)) gen_simd_fp_operators)))
    (flat_map (fun ty => flat_map (fun op => map (fun w => (ty, op, w)) [1; 2; 3]) [1; 2; 3; 4]) [0; 1]) = true.
Proof. exact gen_simd_fp_operators_ok. Qed.
Print Assumptions C08_source_floating_operators.
