(** Buffers, lane vectors, (masked) loads and stores, and the "store list"
    lemma that carries all the kernel proofs. *)
From Coq Require Import Arith List Lia Bool.
From FastorV Require Import Base.Scalar.
Import ListNotations.

Section Mem.
  Variable S : Scalar.

  Definition buf := nat -> S.           (* flat offset -> value *)
  Definition vec := nat -> S.           (* lane -> value; the lane count W is carried separately *)

  Definition vbcast (x : S) : vec := fun _ => x.
  Definition vzero : vec := fun _ => s0 S.
  Definition vload (b : buf) (off : nat) : vec := fun l => b (off + l).
  Definition vfma (a b c : vec) : vec := fun l => sfma S (a l) (b l) (c l).
  Definition vmul (a b : vec) : vec := fun l => smul S (a l) (b l).
  Definition vadd (a b : vec) : vec := fun l => sadd S (a l) (b l).

  (** Fastor's mask arrays are *reversed*: [maska[i]] governs lane [W-1-i]
      (simd_vector_common.h maskload/maskstore, extintrin.h array_to_mask). *)
  Definition maska_t := nat -> bool.
  Definition make_maska (W rem : nat) : maska_t := fun jj => negb (jj <? W - rem).
  Definition lane_on (W : nat) (m : maska_t) (l : nat) : bool := (l <? W) && m (W - 1 - l).

  Definition vmaskload (W : nat) (m : maska_t) (b : buf) (off : nat) : vec :=
    fun l => if lane_on W m l then b (off + l) else s0 S.


  Lemma lane_on_make (W rem l : nat) : rem <= W ->
    lane_on W (make_maska W rem) l = (l <? rem).
  Proof.
    intros H. unfold lane_on, make_maska.
    destruct (Nat.ltb_spec l W), (Nat.ltb_spec (W-1-l) (W-rem)), (Nat.ltb_spec l rem); simpl; try reflexivity; lia.
  Qed.

  (** A [wr] is one store of the model: positions [woff .. woff+wlen) with an
      enable predicate (all-true for plain stores) and lane values. *)
  Record wr := mkWr { woff : nat; wlen : nat; won : nat -> bool; wval : nat -> S }.

  Definition apply_wr (c : buf) (w : wr) : buf :=
    fun p => if (woff w <=? p) && (p <? woff w + wlen w) && won w (p - woff w)
             then wval w (p - woff w) else c p.

  Definition covers (w : wr) (p : nat) : bool :=
    (woff w <=? p) && (p <? woff w + wlen w) && won w (p - woff w).

  Definition run_wrs (c0 : buf) (ws : list wr) : buf := fold_left apply_wr ws c0.

  (** the three store forms of the library, as writes *)
  Definition wr_store (off W : nat) (v : vec) : wr := mkWr off W (fun _ => true) v.
  Definition wr_maskstore (W : nat) (m : maska_t) (off : nat) (v : vec) : wr := mkWr off W (lane_on W m) v.
  Definition wr_store1 (off : nat) (x : S) : wr := mkWr off 1 (fun _ => true) (fun _ => x).
  Definition store (c : buf) (off W : nat) (v : vec) : buf := apply_wr c (wr_store off W v).
  Definition maskstore (W : nat) (m : maska_t) (c : buf) (off : nat) (v : vec) : buf :=
    apply_wr c (wr_maskstore W m off v).
  Definition store1 (c : buf) (off : nat) (x : S) : buf := apply_wr c (wr_store1 off x).

  (** Main lemma: if every enabled position of every write carries the
      value [spec] prescribes for that position, then after the whole list each
      covered position holds [spec] and each uncovered one its old value. *)
  Lemma run_wrs_spec (spec : nat -> S) (ws : list wr) :
    (forall w, In w ws -> forall p, covers w p = true -> wval w (p - woff w) = spec p) ->
    forall c0 p,
      run_wrs c0 ws p = if existsb (fun w => covers w p) ws then spec p else c0 p.
  Proof.
    unfold run_wrs. induction ws as [|w ws IH]; intros Hv c0 p; simpl; [reflexivity|].
    rewrite IH by (intros w' Hin; apply Hv; right; exact Hin).
    destruct (existsb (fun w0 => covers w0 p) ws) eqn:E.
    - rewrite orb_true_r. reflexivity.
    - rewrite orb_false_r. unfold apply_wr. fold (covers w p).
      destruct (covers w p) eqn:C; [|reflexivity].
      apply Hv; [left; reflexivity | exact C].
  Qed.

  Lemma run_wrs_uncovered ws c0 p :
    existsb (fun w => covers w p) ws = false -> run_wrs c0 ws p = c0 p.
  Proof.
    unfold run_wrs. revert c0. induction ws as [|w ws IH]; intros c0 E; simpl; [reflexivity|].
    simpl in E. apply orb_false_elim in E. destruct E as [E1 E2].
    rewrite IH by exact E2. unfold apply_wr. fold (covers w p). rewrite E1. reflexivity.
  Qed.

  (** predicate form (used for the law-free statements) *)
  Lemma run_wrs_pred (P : nat -> S -> Prop) (ws : list wr) :
    (forall w, In w ws -> forall p, covers w p = true -> P p (wval w (p - woff w))) ->
    forall c0 p, existsb (fun w => covers w p) ws = true -> P p (run_wrs c0 ws p).
  Proof.
    induction ws as [|w ws IH]; intros Hv c0 p; simpl; [discriminate|].
    destruct (existsb (fun w0 => covers w0 p) ws) eqn:E.
    - intros _. apply (IH (fun w' Hin => Hv w' (or_intror Hin)) (apply_wr c0 w) p E).
    - rewrite orb_false_r. intros C.
      change (P p (run_wrs (apply_wr c0 w) ws p)).
      rewrite run_wrs_uncovered by exact E. unfold apply_wr. fold (covers w p). rewrite C.
      apply Hv; [left; reflexivity | exact C].
  Qed.

  Lemma run_wrs_app c0 ws1 ws2 : run_wrs c0 (ws1 ++ ws2) = run_wrs (run_wrs c0 ws1) ws2.
  Proof. unfold run_wrs. apply fold_left_app. Qed.

  (** Write footprint of a list of writes. *)
  Definition in_bounds (n : nat) (ws : list wr) : Prop :=
    forall w, In w ws -> forall p, covers w p = true -> p < n.

  Lemma run_wrs_frame n ws c0 p : in_bounds n ws -> n <= p -> run_wrs c0 ws p = c0 p.
  Proof.
    unfold run_wrs. revert c0. induction ws as [|w ws IH]; intros c0 Hb Hp; simpl; [reflexivity|].
    rewrite IH; [| intros w' Hin; apply Hb; right; exact Hin | exact Hp].
    unfold apply_wr. fold (covers w p). destruct (covers w p) eqn:C; [|reflexivity].
    exfalso. assert (p < n) by (eapply Hb; [left; reflexivity| exact C]). lia.
  Qed.
End Mem.

Arguments mkWr {S}.
Arguments woff {S}. Arguments wlen {S}. Arguments won {S}. Arguments wval {S}.
Arguments apply_wr {S}. Arguments covers {S}. Arguments run_wrs {S}.
Arguments store {S}. Arguments maskstore {S}. Arguments store1 {S}.
Arguments vload {S}. Arguments vmaskload {S}. Arguments vfma {S}. Arguments vmul {S}. Arguments vadd {S}.
Arguments wr_store {S}. Arguments wr_maskstore {S}. Arguments wr_store1 {S}.
Arguments vbcast {S}. Arguments vzero {S}. Arguments in_bounds {S}.
