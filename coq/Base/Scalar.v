(** Abstract scalar structures over which every model is written.
    Models use only the operations; theorems add law hypotheses. *)
From Coq Require Import ZArith List Lia Bool.
Import ListNotations.

Record Scalar := mkScalar {
  T :> Type;
  s0 : T; s1 : T;
  sadd : T -> T -> T; smul : T -> T -> T; ssub : T -> T -> T;
  sneg : T -> T;
  sfma : T -> T -> T -> T;      (* a*b+c, fused or not: only [fma_def] is assumed *)
  sdiv : T -> T -> T;
  seqb : T -> T -> bool;
  sltb : T -> T -> bool
}.

Record RingLaws (S : Scalar) : Prop := {
  add_comm : forall a b : S, sadd S a b = sadd S b a;
  add_assoc : forall a b c : S, sadd S a (sadd S b c) = sadd S (sadd S a b) c;
  add_0_l : forall a : S, sadd S (s0 S) a = a;
  mul_comm : forall a b : S, smul S a b = smul S b a;
  mul_assoc : forall a b c : S, smul S a (smul S b c) = smul S (smul S a b) c;
  mul_1_l : forall a : S, smul S (s1 S) a = a;
  mul_0_l : forall a : S, smul S (s0 S) a = s0 S;
  distr_l : forall a b c : S, smul S (sadd S a b) c = sadd S (smul S a c) (smul S b c);
  sub_def : forall a b : S, ssub S a b = sadd S a (sneg S b);
  neg_def : forall a : S, sadd S a (sneg S a) = s0 S;
  fma_def : forall a b c : S, sfma S a b c = sadd S (smul S a b) c
}.

Section Derived.
  Variable S : Scalar.
  Hypothesis L : RingLaws S.
  Lemma add_0_r (a : S) : sadd S a (s0 S) = a.
  Proof. rewrite (add_comm S L). apply (add_0_l S L). Qed.
  Lemma mul_0_r (a : S) : smul S a (s0 S) = s0 S.
  Proof. rewrite (mul_comm S L). apply (mul_0_l S L). Qed.
  Lemma mul_1_r (a : S) : smul S a (s1 S) = a.
  Proof. rewrite (mul_comm S L). apply (mul_1_l S L). Qed.
  Lemma distr_r (a b c : S) : smul S a (sadd S b c) = sadd S (smul S a b) (smul S a c).
  Proof. rewrite (mul_comm S L), (distr_l S L), (mul_comm S L b a), (mul_comm S L c a). reflexivity. Qed.
End Derived.

(** Instance used to run the models ([vm_compute]) and to show the law
    hypotheses are satisfiable: unbounded integers. *)
Definition ZS : Scalar :=
  mkScalar Z 0%Z 1%Z Z.add Z.mul Z.sub Z.opp (fun a b c => (a*b+c)%Z) Z.quot Z.eqb Z.ltb.

Lemma ZS_laws : RingLaws ZS.
Proof. constructor; unfold ZS; cbn [T s0 s1 sadd smul ssub sneg sfma]; intros; change (T (mkScalar Z 0%Z 1%Z Z.add Z.mul Z.sub Z.opp (fun a b c => (a*b+c)%Z) Z.quot Z.eqb Z.ltb)) with Z in *; ring. Qed.

(** Wrap-around machine integers: Z modulo 2^n, canonical representatives
    in the signed range (as int32_t / int64_t store them). *)
Definition wrap (n : Z) (x : Z) : Z :=
  let m := (2 ^ n)%Z in
  let r := (x mod m)%Z in
  if (r <? 2 ^ (n-1))%Z then r else (r - m)%Z.

Definition ZW (n : Z) : Scalar :=
  mkScalar Z 0%Z 1%Z
    (fun a b => wrap n (a+b)) (fun a b => wrap n (a*b)) (fun a b => wrap n (a-b))
    (fun a => wrap n (-a)) (fun a b c => wrap n (wrap n (a*b)+c))
    (fun a b => wrap n (Z.quot a b)) Z.eqb Z.ltb.

(** Gaussian integers: exact stand-in for std::complex<T> on integer-valued data. *)
Definition ZC : Scalar :=
  mkScalar (Z * Z) (0,0)%Z (1,0)%Z
    (fun a b => (fst a + fst b, snd a + snd b)%Z)
    (fun a b => (fst a * fst b - snd a * snd b, fst a * snd b + snd a * fst b)%Z)
    (fun a b => (fst a - fst b, snd a - snd b)%Z)
    (fun a => (- fst a, - snd a)%Z)
    (fun a b c => (fst a * fst b - snd a * snd b + fst c, fst a * snd b + snd a * fst b + snd c)%Z)
    (fun a b => a)
    (fun a b => Z.eqb (fst a) (fst b) && Z.eqb (snd a) (snd b))
    (fun a b => Z.ltb (fst a) (fst b)).

Lemma ZC_laws : RingLaws ZC.
Proof.
  constructor; unfold ZC; cbn [T s0 s1 sadd smul ssub sneg sfma]; intros;
    repeat match goal with x : (Z * Z)%type |- _ => destruct x end; cbn [fst snd]; apply f_equal2; ring.
Qed.
