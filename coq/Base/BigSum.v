(** Finite sums and the accumulation recurrences the kernels use. *)
From Coq Require Import Arith List Lia Bool.
From FastorV Require Import Base.Scalar Base.Mem.
Import ListNotations.

Section BigSum.
  Variable S : Scalar.
  Notation "a +s b" := (sadd S a b) (at level 50, left associativity).
  Notation "a *s b" := (smul S a b) (at level 40, left associativity).

  (** left-to-right sum of f 0 .. f (n-1), starting from zero *)
  Definition sum_from (lo n : nat) (f : nat -> S) (init : S) : S :=
    fold_left (fun acc k => acc +s f k) (seq lo n) init.
  Definition sum_n (f : nat -> S) (n : nat) : S := sum_from 0 n f (s0 S).

  (** accumulator recurrences *)
  Definition dot_fma (lo n : nat) (a b : nat -> S) (init : S) : S :=
    fold_left (fun acc k => sfma S (a k) (b k) acc) (seq lo n) init.
  Definition dot_rec (K : nat) (a b : nat -> S) : S := dot_fma 0 K a b (s0 S).
  (* first term by multiplication, the rest fused (matmul_mk_smalln kernels) *)
  Definition dot_mf (K : nat) (a b : nat -> S) : S := dot_fma 1 (K - 1) a b (a 0 *s b 0).
  (* scalar remainder loops: c += a*b *)
  Definition dot_plain (K : nat) (a b : nat -> S) : S :=
    sum_from 0 K (fun k => a k *s b k) (s0 S).

  Definition is_dot (K : nat) (a b : nat -> S) (x : S) : Prop :=
    x = dot_rec K a b \/ x = dot_mf K a b \/ x = dot_plain K a b.

  (** vector accumulation = lane-wise scalar recurrence (no law needed) *)
  Definition vacc_from (lo n : nat) (av : nat -> S) (bv : nat -> nat -> S) (init : nat -> S) : nat -> S :=
    fold_left (fun acc k => vfma (vbcast (av k)) (bv k) acc) (seq lo n) init.

  Lemma vacc_from_lane lo n av bv init l :
    vacc_from lo n av bv init l = dot_fma lo n av (fun k => bv k l) (init l).
  Proof.
    unfold vacc_from, dot_fma. revert lo init. induction n as [|n IH]; intros lo init; simpl; [reflexivity|].
    rewrite IH. reflexivity.
  Qed.

  Lemma sum_from_ext lo n f g init : (forall k, lo <= k < lo + n -> f k = g k) ->
    sum_from lo n f init = sum_from lo n g init.
  Proof.
    unfold sum_from. revert lo init. induction n as [|n IH]; intros lo init H; simpl; [reflexivity|].
    rewrite H by lia. apply IH. intros k Hk. apply H. lia.
  Qed.

  Lemma dot_fma_ext lo n a a' b b' init :
    (forall k, lo <= k < lo + n -> a k = a' k /\ b k = b' k) ->
    dot_fma lo n a b init = dot_fma lo n a' b' init.
  Proof.
    unfold dot_fma. revert lo init. induction n as [|n IH]; intros lo init H; simpl; [reflexivity|].
    destruct (H lo) as [-> ->]; [lia|]. apply IH. intros k Hk. apply H. lia.
  Qed.

  Lemma sum_from_S lo n f init : sum_from lo (Datatypes.S n) f init = sum_from lo n f init +s f (lo + n).
  Proof.
    unfold sum_from. rewrite seq_S, fold_left_app. reflexivity.
  Qed.

  Section Laws.
    Hypothesis L : RingLaws S.

    Lemma sum_from_init lo n f init : sum_from lo n f init = init +s sum_from lo n f (s0 S).
    Proof.
      induction n as [|n IH].
      - unfold sum_from; simpl. rewrite (add_0_r S L). reflexivity.
      - rewrite !sum_from_S, IH. rewrite (add_assoc S L). reflexivity.
    Qed.

    Lemma dot_fma_sum lo n a b init :
      dot_fma lo n a b init = sum_from lo n (fun k => a k *s b k) init.
    Proof.
      unfold dot_fma, sum_from. revert lo init. induction n as [|n IH]; intros lo init; simpl; [reflexivity|].
      rewrite (fma_def S L), (add_comm S L). apply IH.
    Qed.

    Lemma dot_rec_sum K a b : dot_rec K a b = sum_n (fun k => a k *s b k) K.
    Proof. unfold dot_rec, sum_n. apply dot_fma_sum. Qed.

    Lemma dot_plain_sum K a b : dot_plain K a b = sum_n (fun k => a k *s b k) K.
    Proof. reflexivity. Qed.

    Lemma dot_mf_sum K a b : 0 < K -> dot_mf K a b = sum_n (fun k => a k *s b k) K.
    Proof.
      intros HK. unfold dot_mf, sum_n. rewrite dot_fma_sum.
      destruct K as [|K]; [lia|]. replace (Datatypes.S K - 1) with K by lia.
      unfold sum_from at 2. simpl seq. simpl fold_left.
      rewrite (add_0_l S L). reflexivity.
    Qed.

    Lemma is_dot_sum K a b x : 0 < K -> is_dot K a b x -> x = sum_n (fun k => a k *s b k) K.
    Proof.
      intros HK [-> | [-> | ->]]; [apply dot_rec_sum | apply dot_mf_sum; exact HK | apply dot_plain_sum].
    Qed.

    Lemma sum_n_S f n : sum_n f (Datatypes.S n) = sum_n f n +s f n.
    Proof. unfold sum_n. rewrite sum_from_S. reflexivity. Qed.

    Lemma sum_n_zero n : sum_n (fun _ => s0 S) n = s0 S.
    Proof. induction n as [|n IH]; [reflexivity|]. rewrite sum_n_S, IH. apply (add_0_l S L). Qed.

    Lemma sum_n_ext f g n : (forall k, k < n -> f k = g k) -> sum_n f n = sum_n g n.
    Proof. intros H. unfold sum_n. apply sum_from_ext. intros k Hk. apply H. lia. Qed.

    Lemma sum_n_add f g n : sum_n (fun k => f k +s g k) n = sum_n f n +s sum_n g n.
    Proof.
      induction n as [|n IH]; [unfold sum_n, sum_from; simpl; rewrite (add_0_l S L); reflexivity|].
      rewrite !sum_n_S, IH.
      rewrite <- !(add_assoc S L). f_equal.
      rewrite !(add_assoc S L). rewrite (add_comm S L (sum_n g n) (f n)). reflexivity.
    Qed.

    Lemma sum_n_mul_l c f n : sum_n (fun k => c *s f k) n = c *s sum_n f n.
    Proof.
      induction n as [|n IH]; [unfold sum_n, sum_from; simpl; rewrite (mul_0_r S L); reflexivity|].
      rewrite !sum_n_S, IH, (distr_r S L). reflexivity.
    Qed.

    Lemma sum_n_mul_r c f n : sum_n (fun k => f k *s c) n = sum_n f n *s c.
    Proof.
      rewrite (mul_comm S L). rewrite <- sum_n_mul_l. apply sum_n_ext. intros. apply (mul_comm S L).
    Qed.

    (** split a sum at m *)
    Lemma sum_n_split f m n : sum_n f (m + n) = sum_n f m +s sum_n (fun k => f (m + k)) n.
    Proof.
      induction n as [|n IH].
      - rewrite Nat.add_0_r. unfold sum_n at 3, sum_from; simpl. rewrite (add_0_r S L). reflexivity.
      - replace (m + Datatypes.S n) with (Datatypes.S (m + n)) by lia.
        rewrite !sum_n_S, IH, (add_assoc S L). reflexivity.
    Qed.

    (** exchange of two finite sums *)
    Lemma sum_n_swap (f : nat -> nat -> S) m n :
      sum_n (fun i => sum_n (fun j => f i j) n) m = sum_n (fun j => sum_n (fun i => f i j) m) n.
    Proof.
      induction m as [|m IH].
      - unfold sum_n at 1, sum_from; simpl. symmetry. apply sum_n_zero.
      - rewrite sum_n_S, IH, <- sum_n_add. apply sum_n_ext. intros j _. rewrite sum_n_S. reflexivity.
    Qed.

    (** a sum whose only nonzero term is at m *)
    Lemma sum_n_single f n m : m < n -> (forall k, k < n -> k <> m -> f k = s0 S) -> sum_n f n = f m.
    Proof.
      revert m. induction n as [|n IH]; intros m Hm Hz; [lia|].
      rewrite sum_n_S. destruct (Nat.eq_dec m n) as [->|Hne].
      - rewrite (sum_n_ext f (fun _ => s0 S)) by (intros k Hk; apply Hz; lia).
        rewrite sum_n_zero. apply (add_0_l S L).
      - rewrite (IH m) by (try lia; intros k Hk Hkm; apply Hz; lia).
        rewrite (Hz n) by lia. apply (add_0_r S L).
    Qed.
  End Laws.
End BigSum.

Arguments sum_n {S}. Arguments sum_from {S}. Arguments dot_fma {S}. Arguments dot_rec {S}.
Arguments dot_mf {S}. Arguments dot_plain {S}. Arguments is_dot {S}. Arguments vacc_from {S}.
