(** Field laws on top of the ring laws: what the exact theorems about substitution, LU and inversion need. *)
From Coq Require Import ZArith List.
From FastorV Require Import Base.Scalar.

Record FieldLaws (S : Scalar) : Prop := {
  f_ring : RingLaws S;
  div_mul : forall a b : S, b <> s0 S -> smul S (sdiv S a b) b = a;
  mul_div : forall a b : S, b <> s0 S -> sdiv S (smul S a b) b = a
}.

Section FieldFacts.
  Variable S : Scalar.
  Hypothesis F : FieldLaws S.
  Let L := f_ring S F.
  Lemma sub_add_cancel (a b : S) : sadd S (ssub S a b) b = a.
  Proof.
    rewrite (sub_def S L). rewrite <- (add_assoc S L). rewrite (add_comm S L (sneg S b) b), (neg_def S L). apply (add_0_r S L).
  Qed.
  Lemma sub_eq_add (a b c : S) : a = ssub S b c -> sadd S a c = b.
  Proof. intros ->. apply sub_add_cancel. Qed.
End FieldFacts.

(** the laws are satisfiable: the rationals (canonical representation, Leibniz equality) *)
From Coq Require Import QArith Qcanon.
Definition QcS : Scalar :=
  mkScalar Qc 0%Qc 1%Qc Qcplus Qcmult Qcminus Qcopp (fun a b c => (a * b + c)%Qc) Qcdiv
           (fun a b => if Qc_eq_dec a b then true else false) (fun a b => if Qclt_le_dec a b then true else false).
Lemma QcS_ring : RingLaws QcS.
Proof. constructor; unfold QcS; cbn; intros; ring. Qed.
Lemma QcS_field : FieldLaws QcS.
Proof.
  constructor; [exact QcS_ring | |]; unfold QcS; cbn; intros a b Hb; field; exact Hb.
Qed.
