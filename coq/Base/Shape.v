(** Row-major shapes: flat index, unflattening by repeated / and %, the odometer. *)
From Coq Require Import Arith List Lia Bool.
Import ListNotations.

Fixpoint prod (dims : list nat) : nat := match dims with [] => 1 | d :: ds => d * prod ds end.

(* row-major offset of a multi-index *)
Fixpoint flat (dims idx : list nat) : nat :=
  match dims, idx with
  | d :: ds, i :: is => i * prod ds + flat ds is
  | _, _ => 0
  end.

(* as[n] = (p / remaining) % dims[n], remaining = product of the later extents *)
Fixpoint unflat (dims : list nat) (p : nat) : list nat :=
  match dims with
  | [] => []
  | d :: ds => (p / prod ds) mod d :: unflat ds p
  end.

Fixpoint in_range (dims idx : list nat) : Prop :=
  match dims, idx with
  | [], [] => True
  | d :: ds, i :: is => i < d /\ in_range ds is
  | _, _ => False
  end.

Lemma prod_pos dims : (forall d, In d dims -> 0 < d) -> 0 < prod dims.
Proof. induction dims as [|d ds IH]; intros H; simpl; [lia|]. assert (0 < d) by (apply H; left; reflexivity). assert (0 < prod ds) by (apply IH; intros; apply H; right; assumption). nia. Qed.

Lemma flat_lt dims idx : in_range dims idx -> flat dims idx < prod dims.
Proof.
  revert idx. induction dims as [|d ds IH]; intros [|i is] H; simpl in *; try contradiction; try lia.
  destruct H as [Hi H]. specialize (IH is H). nia.
Qed.

Lemma in_range_length dims idx : in_range dims idx -> length idx = length dims.
Proof. revert idx. induction dims as [|d ds IH]; intros [|i is] H; simpl in *; try contradiction; try reflexivity. f_equal. apply IH. apply H. Qed.

Lemma unflat_mod dims p q : unflat dims (q * prod dims + p) = unflat dims p.
Proof.
  revert p q. induction dims as [|d ds IH]; intros p q; simpl; [reflexivity|].
  destruct (Nat.eq_dec (prod ds) 0) as [E|E].
  - replace (q * (d * prod ds) + p) with p by (rewrite E; lia). reflexivity.
  - f_equal.
    + replace (q * (d * prod ds) + p) with (p + (q * d) * prod ds) by lia.
      rewrite Nat.div_add by exact E.
      destruct (Nat.eq_dec d 0) as [->|Ed]; [rewrite Nat.mul_0_r, Nat.add_0_r; reflexivity|].
      rewrite Nat.add_mod by exact Ed. rewrite Nat.mod_mul by exact Ed. rewrite Nat.add_0_r, Nat.mod_mod by exact Ed. reflexivity.
    + replace (q * (d * prod ds) + p) with ((q * d) * prod ds + p) by lia. apply IH.
Qed.

Lemma unflat_flat dims idx : in_range dims idx -> unflat dims (flat dims idx) = idx.
Proof.
  revert idx. induction dims as [|d ds IH]; intros [|i is] H; simpl in *; try contradiction; try reflexivity.
  destruct H as [Hi H]. pose proof (flat_lt ds is H) as Hlt.
  f_equal.
  - rewrite Nat.div_add_l by lia. rewrite (Nat.div_small (flat ds is)) by exact Hlt. rewrite Nat.add_0_r. apply Nat.mod_small. exact Hi.
  - rewrite unflat_mod. apply IH. exact H.
Qed.

Lemma unflat_in_range dims p : (forall d, In d dims -> 0 < d) -> in_range dims (unflat dims p).
Proof.
  induction dims as [|d ds IH]; intros H; simpl; [exact I|]. split.
  - apply Nat.mod_upper_bound. assert (0 < d) by (apply H; left; reflexivity). lia.
  - apply IH. intros; apply H; right; assumption.
Qed.

Lemma flat_unflat dims p : (forall d, In d dims -> 0 < d) -> p < prod dims -> flat dims (unflat dims p) = p.
Proof.
  revert p. induction dims as [|d ds IH]; intros p H Hp; simpl in *; [lia|].
  assert (Hd : 0 < d) by (apply H; left; reflexivity).
  assert (Hds : 0 < prod ds) by (apply prod_pos; intros; apply H; right; assumption).
  assert (Hq : p / prod ds < d) by (apply Nat.div_lt_upper_bound; nia).
  rewrite (Nat.mod_small _ _ Hq).
  assert (Hm : unflat ds p = unflat ds (p mod prod ds)).
  { rewrite (Nat.div_mod p (prod ds)) at 1 by lia. rewrite (Nat.mul_comm (prod ds)). apply unflat_mod. }
  rewrite Hm, IH; [| intros; apply H; right; assumption | apply Nat.mod_upper_bound; lia].
  pose proof (Nat.div_mod p (prod ds) ltac:(lia)). nia.
Qed.

Lemma flat_inj dims i1 i2 : in_range dims i1 -> in_range dims i2 -> flat dims i1 = flat dims i2 -> i1 = i2.
Proof. intros H1 H2 E. rewrite <- (unflat_flat dims i1 H1), <- (unflat_flat dims i2 H2), E. reflexivity. Qed.

(** the odometer: increment the last axis, carrying leftwards (views, permute, layout loops) *)
Fixpoint odo_step (dims idx : list nat) : list nat * bool :=   (* new index, carry out *)
  match dims, idx with
  | d :: ds, i :: is =>
      let '(is', c) := odo_step ds is in
      if c then (if S i <? d then (S i :: is', false) else (0 :: is', true)) else (i :: is', false)
  | _, _ => ([], true)
  end.

Lemma odo_step_flat dims idx : in_range dims idx ->
  let '(idx', c) := odo_step dims idx in
  in_range dims idx' /\ (if c then flat dims idx' = 0 /\ S (flat dims idx) = prod dims else flat dims idx' = S (flat dims idx)).
Proof.
  revert idx. induction dims as [|d ds IH]; intros [|i is] H; simpl in *; try contradiction; [split; [exact I|split; reflexivity]|].
  destruct H as [Hi H]. specialize (IH is H). destruct (odo_step ds is) as [is' c].
  destruct IH as [Hr IH]. destruct c.
  - destruct IH as [E0 E1]. destruct (Nat.ltb_spec (S i) d) as [Hlt|Hge]; simpl.
    + split; [split; assumption|]. rewrite E0. nia.
    + split; [split; [lia|assumption]|]. rewrite E0. split; [lia|]. assert (S i = d) by lia. nia.
  - simpl. split; [split; assumption|]. lia.
Qed.
