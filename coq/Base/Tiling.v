(** Counted loops [for (x = lo; x < hi; x += step)] and the three-level tiling
    (blocks of nb*W, then single vectors of W, then scalar or one masked
    remainder) shared by matmul, tmatmul, transpose, assignment and reductions. *)
From Coq Require Import Arith List Lia Bool ZArith.
Import ListNotations.
Ltac Zify.zify_post_hook ::= Z.div_mod_to_equations.

Definition loop_starts (lo hi step : nat) : list nat :=
  map (fun t => lo + t * step) (seq 0 ((hi - lo + step - 1) / step)).

Lemma in_loop_starts lo hi step s : 0 < step ->
  In s (loop_starts lo hi step) <-> (exists t, s = lo + t * step) /\ s < hi.
Proof.
  intros Hs. unfold loop_starts. rewrite in_map_iff.
  set (n := (hi - lo + step - 1) / step).
  assert (Hn : n * step <= hi - lo + step - 1 < n * step + step).
  { unfold n. pose proof (Nat.div_mod (hi - lo + step - 1) step ltac:(lia)).
    pose proof (Nat.mod_upper_bound (hi - lo + step - 1) step ltac:(lia)). nia. }
  split.
  - intros [t [<- Ht]]. apply in_seq in Ht. split; [exists t; reflexivity|].
    assert ((t + 1) * step <= n * step) by (apply Nat.mul_le_mono_r; lia). nia.
  - intros [[t ->] Hlt]. exists t. split; [reflexivity|]. apply in_seq.
    split; [lia|]. simpl.
    destruct (Nat.lt_ge_cases t n) as [?|Hge]; [assumption|]. exfalso.
    assert (n * step <= t * step) by (apply Nat.mul_le_mono_r; lia). nia.
Qed.

Lemma loop_starts_step0 lo hi : loop_starts lo hi 0 = [].
Proof. unfold loop_starts. rewrite Nat.add_0_r. simpl. destruct (hi - lo - 1); reflexivity. Qed.

(** kinds of column tile *)
Inductive ckind := CVec | CScal | CMask (rem : nat).
Definition cwidth (W : nat) (k : ckind) : nat :=
  match k with CVec => W | CScal => 1 | CMask rem => rem end.

(** the column tiling of _matmul_base / _matmul_base_masked (and the other
    kernels with nb := 1): N0 = N/(nb*W)*(nb*W), N1 = N/W*W *)
Definition col_tiles (W nb N : nat) (masked : bool) : list (nat * ckind) :=
  let N0 := N / (nb * W) * (nb * W) in
  let N1 := N / W * W in
  flat_map (fun j => map (fun v => (j + v * W, CVec)) (seq 0 nb)) (loop_starts 0 N0 (nb * W))
  ++ map (fun j => (j, CVec)) (loop_starts N0 N1 W)
  ++ (if masked then map (fun j => (j, CMask (N - N1))) (loop_starts N1 N (N - N1))
      else map (fun j => (j, CScal)) (loop_starts N1 N 1)).

(** the row tiling: blocks of RB rows, then blocks of R4 rows, then the rest *)
Definition row_tiles (RB R4 M : nat) : list nat :=
  let M0 := M / RB * RB in
  let M1 := M / R4 * R4 in
  flat_map (fun i => seq i RB) (loop_starts 0 M0 RB)
  ++ flat_map (fun i => seq i R4) (loop_starts M0 M1 R4)
  ++ seq M1 (M - M1).

Lemma col_tiles_in_range W nb N masked j k : 0 < W -> 0 < nb ->
  In (j, k) (col_tiles W nb N masked) -> j + cwidth W k <= N /\ 0 < cwidth W k
    /\ (forall rem, k = CMask rem -> rem <= W).
Proof.
  intros HW Hnb. unfold col_tiles. rewrite !in_app_iff, in_flat_map.
  intros [[j0 [Hj0 Hin]] | [Hin | Hin]].
  - apply in_loop_starts in Hj0; [|nia]. destruct Hj0 as [[t ->] Hlt].
    apply in_map_iff in Hin. destruct Hin as [v [Heq Hv]]. inversion Heq; subst; clear Heq.
    apply in_seq in Hv. simpl.
    assert (N / (nb*W) * (nb*W) <= N) by (rewrite Nat.mul_comm; apply Nat.mul_div_le; nia).
    set (q := N / (nb*W)) in *. clearbody q. set (B := nb * W) in *.
    assert (HB : B = nb * W) by reflexivity. clearbody B.
    assert (t < q) by nia.
    assert ((t + 1) * B <= q * B) by (apply Nat.mul_le_mono_r; lia).
    assert ((v + 1) * W <= nb * W) by (apply Nat.mul_le_mono_r; lia).
    split; [nia|]. split; [lia|]. intros; discriminate.
  - apply in_map_iff in Hin. destruct Hin as [j0 [Heq Hj0]]. inversion Heq; subst; clear Heq.
    apply in_loop_starts in Hj0; [|lia]. destruct Hj0 as [[t ->] Hlt]. simpl.
    assert (N / W * W <= N) by (rewrite Nat.mul_comm; apply Nat.mul_div_le; lia).
    assert (exists q, N / (nb*W) * (nb*W) = q * W) as [q Hq] by (exists (N/(nb*W)*nb); nia).
    rewrite Hq in *. set (q1 := N / W) in *. clearbody q1.
    assert (q + t < q1) by nia.
    assert ((q + t + 1) * W <= q1 * W) by (apply Nat.mul_le_mono_r; lia).
    split; [nia|]. split; [lia|]. intros; discriminate.
  - destruct masked.
    + apply in_map_iff in Hin. destruct Hin as [j0 [Heq Hj0]]. inversion Heq; subst; clear Heq.
      destruct (Nat.eq_dec (N - N / W * W) 0) as [E|E].
      { rewrite E, loop_starts_step0 in Hj0. destruct Hj0. }
      apply in_loop_starts in Hj0; [|lia]. destruct Hj0 as [[t ->] Hlt]. simpl.
      assert (N / W * W <= N) by (rewrite Nat.mul_comm; apply Nat.mul_div_le; lia).
      assert (t = 0) by nia. subst t.
      assert (N < N / W * W + W).
      { pose proof (Nat.div_mod N W ltac:(lia)). pose proof (Nat.mod_upper_bound N W ltac:(lia)). lia. }
      split; [lia|]. split; [lia|]. intros rem Hr. inversion Hr; subst. lia.
    + apply in_map_iff in Hin. destruct Hin as [j0 [Heq Hj0]]. inversion Heq; subst; clear Heq.
      apply in_loop_starts in Hj0; [|lia]. destruct Hj0 as [[t ->] Hlt]. simpl.
      split; [lia|]. split; [lia|]. intros; discriminate.
Qed.

Lemma col_tiles_cover W nb N masked x : 0 < W -> 0 < nb -> x < N ->
  exists j k, In (j, k) (col_tiles W nb N masked) /\ j <= x < j + cwidth W k.
Proof.
  intros HW Hnb Hx. unfold col_tiles.
  set (B := nb * W). assert (HB : 0 < B) by (unfold B; nia).
  set (N0 := N / B * B). set (N1 := N / W * W).
  assert (HN0 : N0 <= N) by (unfold N0; rewrite Nat.mul_comm; apply Nat.mul_div_le; lia).
  assert (HN1 : N1 <= N) by (unfold N1; rewrite Nat.mul_comm; apply Nat.mul_div_le; lia).
  assert (HN1' : N < N1 + W).
  { unfold N1. pose proof (Nat.div_mod N W ltac:(lia)). pose proof (Nat.mod_upper_bound N W ltac:(lia)). lia. }
  assert (HN01 : N0 <= N1).
  { unfold N0, N1, B. assert (N / (nb*W) * nb <= N / W).
    { apply Nat.div_le_lower_bound; [lia|]. 
      assert (N / (nb*W) * (nb*W) <= N) by (rewrite Nat.mul_comm; apply Nat.mul_div_le; nia). nia. }
    nia. }
  destruct (Nat.lt_ge_cases x N0) as [H0|H0].
  - (* inside the blocked part *)
    set (t := x / B). set (v := (x - t * B) / W).
    assert (Ht : t * B <= x < t * B + B).
    { unfold t. pose proof (Nat.div_mod x B ltac:(lia)). pose proof (Nat.mod_upper_bound x B ltac:(lia)). nia. }
    assert (Hv : v * W <= x - t * B < v * W + W).
    { unfold v. pose proof (Nat.div_mod (x - t*B) W ltac:(lia)). pose proof (Nat.mod_upper_bound (x - t*B) W ltac:(lia)). nia. }
    assert (Hvn : v < nb) by (unfold B in *; nia).
    exists (t * B + v * W), CVec. split; [|simpl; lia].
    rewrite !in_app_iff. left. apply in_flat_map. exists (t * B). split.
    + apply in_loop_starts; [lia|]. split; [exists t; lia|]. lia.
    + apply in_map_iff. exists v. split; [reflexivity|]. apply in_seq. lia.
  - destruct (Nat.lt_ge_cases x N1) as [H1|H1].
    + (* single-vector part *)
      set (t := (x - N0) / W).
      assert (Ht : t * W <= x - N0 < t * W + W).
      { unfold t. pose proof (Nat.div_mod (x - N0) W ltac:(lia)). pose proof (Nat.mod_upper_bound (x - N0) W ltac:(lia)). nia. }
      exists (N0 + t * W), CVec. split; [|simpl; lia].
      rewrite !in_app_iff. right; left. apply in_map_iff. exists (N0 + t * W). split; [reflexivity|].
      apply in_loop_starts; [lia|]. split; [exists t; reflexivity|].
      (* N0 + t*W < N1: both are multiples of W *)
      assert (exists q, N0 = q * W) as [q Hq] by (exists (N / B * nb); unfold N0, B; nia).
      unfold N1 in *. rewrite Hq in *. nia.
    + (* remainder *)
      destruct masked.
      * exists N1, (CMask (N - N1)). split; [|simpl; lia].
        rewrite !in_app_iff. right; right. apply in_map_iff. exists N1. split; [reflexivity|].
        apply in_loop_starts; [lia|]. split; [exists 0; lia|lia].
      * exists x, CScal. split; [|simpl; lia].
        rewrite !in_app_iff. right; right. apply in_map_iff. exists x. split; [reflexivity|].
        apply in_loop_starts; [lia|]. split; [exists (x - N1); lia|lia].
Qed.

Lemma row_tiles_range RB R4 M r : 0 < RB -> 0 < R4 -> (exists q, RB = q * R4) ->
  In r (row_tiles RB R4 M) -> r < M.
Proof.
  intros HRB HR4 [q Hq]. unfold row_tiles. rewrite !in_app_iff, !in_flat_map.
  assert (M / RB * RB <= M) by (rewrite Nat.mul_comm; apply Nat.mul_div_le; lia).
  assert (M / R4 * R4 <= M) by (rewrite Nat.mul_comm; apply Nat.mul_div_le; lia).
  intros [[i [Hi Hin]] | [[i [Hi Hin]] | Hin]].
  - apply in_loop_starts in Hi; [|lia]. destruct Hi as [[t ->] Hlt]. apply in_seq in Hin.
    assert (t < M / RB) by nia. nia.
  - apply in_loop_starts in Hi; [|lia]. destruct Hi as [[t ->] Hlt]. apply in_seq in Hin.
    subst RB. set (a := M / (q * R4)) in *. set (b := M / R4) in *.
    assert (a * q + t < b) by nia. nia.
  - apply in_seq in Hin. lia.
Qed.

Lemma row_tiles_cover RB R4 M r : 0 < RB -> 0 < R4 -> (exists q, RB = q * R4) ->
  r < M -> In r (row_tiles RB R4 M).
Proof.
  intros HRB HR4 [q Hq] Hr. unfold row_tiles. rewrite !in_app_iff, !in_flat_map.
  set (M0 := M / RB * RB). set (M1 := M / R4 * R4).
  assert (HM0 : M0 <= M) by (unfold M0; rewrite Nat.mul_comm; apply Nat.mul_div_le; lia).
  assert (HM1 : M1 <= M) by (unfold M1; rewrite Nat.mul_comm; apply Nat.mul_div_le; lia).
  assert (HM01 : M0 <= M1).
  { unfold M0, M1. subst RB. assert (M / (q*R4) * q <= M / R4).
    { apply Nat.div_le_lower_bound; [lia|].
      assert (M / (q*R4) * (q*R4) <= M) by (rewrite Nat.mul_comm; apply Nat.mul_div_le; nia). nia. }
    nia. }
  destruct (Nat.lt_ge_cases r M0) as [H0|H0].
  - left. set (t := r / RB).
    assert (Ht : t * RB <= r < t * RB + RB).
    { unfold t. pose proof (Nat.div_mod r RB ltac:(lia)). pose proof (Nat.mod_upper_bound r RB ltac:(lia)). nia. }
    exists (t * RB). split; [|apply in_seq; lia].
    apply in_loop_starts; [lia|]. split; [exists t; lia|lia].
  - destruct (Nat.lt_ge_cases r M1) as [H1|H1].
    + right; left. set (t := (r - M0) / R4).
      assert (Ht : t * R4 <= r - M0 < t * R4 + R4).
      { unfold t. pose proof (Nat.div_mod (r - M0) R4 ltac:(lia)). pose proof (Nat.mod_upper_bound (r - M0) R4 ltac:(lia)). nia. }
      exists (M0 + t * R4). split; [|apply in_seq; lia].
      apply in_loop_starts; [lia|]. split; [exists t; reflexivity|].
      assert (exists q0, M0 = q0 * R4) as [q0 Hq0] by (exists (M / RB * q); unfold M0; subst RB; nia).
      unfold M1 in *. rewrite Hq0 in *. nia.
    + right; right. apply in_seq. lia.
Qed.
