(** Floating-point arithmetic as a [Scalar]: real numbers with every operation followed
    by a rounding [rnd] that satisfies the standard model |rnd x - x| <= u |x| (no
    underflow / overflow; Flocq's FLX formats with round-to-nearest are instances, see
    the end of the file).  The law-free theorems of the development (elements of a matrix
    product are accumulation recurrences; reductions are lane folds) hold over this scalar
    verbatim; this file adds the forward error bounds of those recurrences:

      |dot - sum_k a_k b_k| <= ((1+u)^K - 1) * sum_k |a_k b_k|      for every is_dot form
      |acc - sum_i x_i|     <= ((1+u)^d - 1) * sum_i |x_i|          for every summation
                                                                    tree of depth d     *)
From Coq Require Import Reals Lra Lia List Arith Psatz.
From Flocq Require Import Core Relative.
From FastorV Require Import Base.Scalar Base.Mem Base.BigSum.
Import ListNotations.
Local Open Scope R_scope.

Section StdModel.
  Variable rnd : R -> R.
  Variable u : R.
  Hypothesis u_nonneg : 0 <= u.
  Hypothesis rnd_err : forall x, Rabs (rnd x - x) <= u * Rabs x.
  Hypothesis rnd_idem : forall x, rnd (rnd x) = rnd x.

  (** the floating scalar; [fused] says whether fmadd is one rounding (FMA hardware)
      or two (mul then add) *)
  Definition FS (fused : bool) : Scalar :=
    mkScalar R 0 1 (fun a b => rnd (a + b)) (fun a b => rnd (a * b)) (fun a b => rnd (a - b)) Ropp
             (fun a b c => if fused then rnd (a * b + c) else rnd (rnd (a * b) + c))
             (fun a b => rnd (a / b)) Req_bool Rlt_bool.

  Lemma rnd_0 : rnd 0 = 0.
  Proof.
    pose proof (rnd_err 0) as H. rewrite Rabs_R0, Rmult_0_r, Rminus_0_r in H.
    pose proof (Rabs_pos (rnd 0)). apply Rabs_eq_R0. lra.
  Qed.

  Definition E (m : nat) : R := (1 + u) ^ m - 1.
  Lemma E_0 : E 0 = 0. Proof. unfold E. simpl. lra. Qed.
  Lemma E_S m : E (S m) = E m + u * (1 + E m).
  Proof. unfold E. simpl. ring. Qed.
  Lemma E_nonneg m : 0 <= E m.
  Proof. induction m as [|m IH]; [rewrite E_0; lra|]. rewrite E_S. nra. Qed.
  Lemma E_mono m n : (m <= n)%nat -> E m <= E n.
  Proof.
    induction 1 as [|n Hle IH]; [lra|]. rewrite E_S. pose proof (E_nonneg n). nra.
  Qed.
  Lemma E_ge_u m : (1 <= m)%nat -> u <= E m.
  Proof. intros H. apply Rle_trans with (E 1); [unfold E; simpl; lra | apply E_mono; exact H]. Qed.

  Lemma rnd_abs x : Rabs (rnd x) <= (1 + u) * Rabs x.
  Proof.
    pose proof (rnd_err x) as H. pose proof (Rabs_triang (rnd x - x) x) as T.
    replace (rnd x - x + x) with (rnd x) in T by ring. lra.
  Qed.

  Lemma first_round x : Rabs (rnd x - (0 + x)) <= E 1 * (0 + Rabs x).
  Proof.
    rewrite !Rplus_0_l. unfold E; simpl. rewrite Rmult_1_r.
    replace (1 + u - 1) with u by ring. apply rnd_err.
  Qed.

  (** one accumulation step, fused: acc' = rnd (p + acc) with p exact *)
  Lemma step_fused acc s t p m :
    Rabs (acc - s) <= E m * t -> Rabs s <= t ->
    Rabs (rnd (p + acc) - (s + p)) <= E (S m) * (t + Rabs p).
  Proof.
    intros Hacc Hs. pose proof (E_nonneg m) as HE. pose proof (Rabs_pos p) as Hp.
    pose proof (Rabs_pos s) as Hs0.
    pose proof (rnd_err (p + acc)) as Hr.
    assert (Hy : Rabs (p + acc) <= Rabs p + t + E m * t).
    { replace (p + acc) with (p + s + (acc - s)) by ring.
      eapply Rle_trans; [apply Rabs_triang|]. eapply Rle_trans; [apply Rplus_le_compat_r, Rabs_triang|]. lra. }
    replace (rnd (p + acc) - (s + p)) with ((rnd (p + acc) - (p + acc)) + (acc - s)) by ring.
    eapply Rle_trans; [apply Rabs_triang|]. rewrite E_S.
    assert (u * Rabs (p + acc) <= u * (Rabs p + t + E m * t)) by (apply Rmult_le_compat_l; lra).
    assert (0 <= E m * Rabs p) by (apply Rmult_le_pos; lra).
    assert (0 <= u * (E m * Rabs p)) by (apply Rmult_le_pos; lra).
    set (X := Rabs (rnd (p + acc) - (p + acc))) in *. set (Y := Rabs (acc - s)) in *.
    set (P := Rabs p) in *. set (Q := Rabs (p + acc)) in *. set (Em := E m) in *.
    clearbody X Y P Q Em. nra.
  Qed.

  (** one accumulation step, unfused: acc' = rnd (rnd p + acc), after at least one rounding *)
  Lemma step_unfused acc s t p m :
    (1 <= m)%nat ->
    Rabs (acc - s) <= E m * t -> Rabs s <= t ->
    Rabs (rnd (rnd p + acc) - (s + p)) <= E (S m) * (t + Rabs p).
  Proof.
    intros Hm Hacc Hs. pose proof (E_nonneg m) as HE. pose proof (Rabs_pos p) as Hp.
    pose proof (Rabs_pos s) as Hs0. pose proof (E_ge_u m Hm) as Hu.
    pose proof (rnd_err p) as Hrp. pose proof (rnd_err (rnd p + acc)) as Hr.
    assert (Hy : Rabs (rnd p + acc) <= (1 + u) * Rabs p + t + E m * t).
    { replace (rnd p + acc) with (rnd p + s + (acc - s)) by ring.
      eapply Rle_trans; [apply Rabs_triang|]. eapply Rle_trans; [apply Rplus_le_compat_r, Rabs_triang|].
      pose proof (rnd_abs p). lra. }
    replace (rnd (rnd p + acc) - (s + p)) with ((rnd (rnd p + acc) - (rnd p + acc)) + (rnd p - p) + (acc - s)) by ring.
    eapply Rle_trans; [apply Rabs_triang|]. eapply Rle_trans; [apply Rplus_le_compat_r, Rabs_triang|].
    rewrite E_S.
    assert (u * Rabs (rnd p + acc) <= u * ((1 + u) * Rabs p + t + E m * t)) by (apply Rmult_le_compat_l; lra).
    assert (0 <= E m * Rabs p) by (apply Rmult_le_pos; lra).
    assert (0 <= u * (E m * Rabs p)) by (apply Rmult_le_pos; lra).
    assert (u * Rabs p <= E m * Rabs p) by (apply Rmult_le_compat_r; lra).
    assert (u * (u * Rabs p) <= u * (E m * Rabs p)) by (apply Rmult_le_compat_l; lra).
    set (X := Rabs (rnd (rnd p + acc) - (rnd p + acc))) in *. set (Y := Rabs (acc - s)) in *.
    set (Z := Rabs (rnd p - p)) in *.
    set (P := Rabs p) in *. set (Q := Rabs (rnd p + acc)) in *. set (Em := E m) in *.
    clearbody X Y Z P Q Em. nra.
  Qed.

  (** exact sums in R *)
  Definition Rsum_from (lo n : nat) (f : nat -> R) (init : R) : R :=
    fold_left (fun acc k => acc + f k) (seq lo n) init.
  Definition Rsum (f : nat -> R) (n : nat) : R := Rsum_from 0 n f 0.

  Lemma Rsum_from_S lo n f init : Rsum_from lo (S n) f init = Rsum_from lo n f init + f (lo + n)%nat.
  Proof. unfold Rsum_from. rewrite seq_S, fold_left_app. reflexivity. Qed.
  Lemma Rsum_from_shift lo n f init : Rsum_from lo (S n) f init = Rsum_from (S lo) n f (init + f lo).
  Proof. reflexivity. Qed.

  Section Dot.
    Variables a b : nat -> R.
    Let p k := a k * b k.

    (** generic accumulation loop with a step that meets the one-step bound *)
    Lemma loop_bound (step : R -> nat -> R) (mmin : nat) :
      (forall acc s t k m, (mmin <= m)%nat -> Rabs (acc - s) <= E m * t -> Rabs s <= t ->
                           Rabs (step acc k - (s + p k)) <= E (S m) * (t + Rabs (p k))) ->
      forall n lo acc s t m, (mmin <= m)%nat ->
        Rabs (acc - s) <= E m * t -> Rabs s <= t ->
        Rabs (fold_left step (seq lo n) acc - Rsum_from lo n p s)
        <= E (m + n) * Rsum_from lo n (fun k => Rabs (p k)) t.
    Proof.
      intros Hstep. induction n as [|n IH]; intros lo acc s t m Hm Hacc Hs.
      - simpl. unfold Rsum_from; simpl. rewrite Nat.add_0_r. exact Hacc.
      - rewrite !Rsum_from_shift. cbn [fold_left seq].
        replace (m + S n)%nat with (S m + n)%nat by lia.
        apply IH; [lia | apply Hstep; assumption |].
        eapply Rle_trans; [apply Rabs_triang|]. lra.
    Qed.

    Lemma dot_rec_bound fused K :
      Rabs (@dot_rec (FS fused) K a b - Rsum p K) <= E K * Rsum (fun k => Rabs (p k)) K.
    Proof.
      unfold dot_rec, dot_fma, Rsum. destruct K as [|K].
      - simpl. unfold Rsum_from; simpl. rewrite Rminus_0_r, Rabs_R0, E_0. lra.
      - (* the first step starts from an exact zero: one rounding *)
        rewrite !Rsum_from_shift. cbn [fold_left seq].
        assert (H1 : sfma (FS fused) (a 0%nat) (b 0%nat) 0 = rnd (p 0%nat)).
        { simpl. destruct fused; [f_equal; unfold p; ring|]. rewrite Rplus_0_r. apply rnd_idem. }
        change (s0 (FS fused)) with 0. rewrite H1.
        replace (S K) with (1 + K)%nat by lia.
        destruct fused.
        + apply (loop_bound (fun acc k => sfma (FS true) (a k) (b k) acc) 0).
          * intros acc s t k m _ Ha Hs. simpl. fold (p k). apply step_fused; assumption.
          * lia.
          * apply first_round.
          * rewrite !Rplus_0_l. lra.
        + apply (loop_bound (fun acc k => sfma (FS false) (a k) (b k) acc) 1).
          * intros acc s t k m Hm Ha Hs. simpl. fold (p k). apply step_unfused; assumption.
          * lia.
          * apply first_round.
          * rewrite !Rplus_0_l. lra.
    Qed.

    Lemma dot_mf_bound fused K : (0 < K)%nat ->
      Rabs (@dot_mf (FS fused) K a b - Rsum p K) <= E K * Rsum (fun k => Rabs (p k)) K.
    Proof.
      intros HK. unfold dot_mf, dot_fma, Rsum. destruct K as [|K]; [lia|].
      rewrite !Rsum_from_shift. replace (S K - 1)%nat with K by lia.
      change (smul (FS fused) (a 0%nat) (b 0%nat)) with (rnd (p 0%nat)).
      replace (S K) with (1 + K)%nat by lia.
      destruct fused.
      + apply (loop_bound (fun acc k => sfma (FS true) (a k) (b k) acc) 0).
        * intros acc s t k m _ Ha Hs. simpl. fold (p k). apply step_fused; assumption.
        * lia.
        * apply first_round.
        * rewrite !Rplus_0_l. lra.
      + apply (loop_bound (fun acc k => sfma (FS false) (a k) (b k) acc) 1).
        * intros acc s t k m Hm Ha Hs. simpl. fold (p k). apply step_unfused; assumption.
        * lia.
        * apply first_round.
        * rewrite !Rplus_0_l. lra.
    Qed.

    Lemma dot_plain_bound fused K :
      Rabs (@dot_plain (FS fused) K a b - Rsum p K) <= E K * Rsum (fun k => Rabs (p k)) K.
    Proof.
      unfold dot_plain, sum_from, Rsum. destruct K as [|K].
      - simpl. unfold Rsum_from; simpl. rewrite Rminus_0_r, Rabs_R0, E_0. lra.
      - rewrite !Rsum_from_shift. cbn [fold_left seq].
        assert (H1 : sadd (FS fused) (s0 (FS fused)) (smul (FS fused) (a 0%nat) (b 0%nat)) = rnd (p 0%nat)).
        { simpl. rewrite Rplus_0_l. apply rnd_idem. }
        rewrite H1. replace (S K) with (1 + K)%nat by lia.
        apply (loop_bound (fun acc k => sadd (FS fused) acc (smul (FS fused) (a k) (b k))) 1).
        * intros acc s t k m Hm Ha Hs. simpl. fold (p k). rewrite (Rplus_comm acc). apply step_unfused; assumption.
        * lia.
        * apply first_round.
        * rewrite !Rplus_0_l. lra.
    Qed.

    (** every accumulation form the matmul / tmatmul / einsum kernels use *)
    Theorem is_dot_bound fused K x : (0 < K)%nat ->
      is_dot (S:=FS fused) K a b x ->
      Rabs (x - Rsum p K) <= E K * Rsum (fun k => Rabs (p k)) K.
    Proof.
      intros HK [-> | [-> | ->]];
        [apply dot_rec_bound | apply dot_mf_bound; exact HK | apply dot_plain_bound].
    Qed.
  End Dot.
End StdModel.

(** The standard model has instances: Flocq's radix-2 FLX format of any precision
    [prec > 0] with round-to-nearest-even (binary32: prec = 24, binary64: prec = 53,
    without the exponent range). *)
Section FLX.
  Variable prec : Z.
  Context { prec_gt_0_ : Prec_gt_0 prec }.
  Definition flx_rnd : R -> R := round radix2 (FLX_exp prec) ZnearestE.
  Definition flx_u : R := / 2 * bpow radix2 (- prec + 1).     (* unit roundoff 2^-prec *)

  Lemma flx_u_nonneg : 0 <= flx_u.
  Proof. unfold flx_u. pose proof (bpow_ge_0 radix2 (- prec + 1)). lra. Qed.
  Lemma flx_rnd_err x : Rabs (flx_rnd x - x) <= flx_u * Rabs x.
  Proof. exact (relative_error_N_FLX radix2 prec prec_gt_0_ (fun n => negb (Z.even n)) x). Qed.
  Lemma flx_rnd_idem x : flx_rnd (flx_rnd x) = flx_rnd x.
  Proof.
    unfold flx_rnd. apply round_generic; [typeclasses eauto|].
    apply generic_format_round; typeclasses eauto.
  Qed.
End FLX.

Global Instance prec_24 : Prec_gt_0 24. Proof. reflexivity. Qed.
Global Instance prec_53 : Prec_gt_0 53. Proof. reflexivity. Qed.
Lemma flx_instances :
  ((0 <= flx_u 24) /\ (forall x, Rabs (flx_rnd 24 x - x) <= flx_u 24 * Rabs x) /\ (forall x, flx_rnd 24 (flx_rnd 24 x) = flx_rnd 24 x)) /\
  ((0 <= flx_u 53) /\ (forall x, Rabs (flx_rnd 53 x - x) <= flx_u 53 * Rabs x) /\ (forall x, flx_rnd 53 (flx_rnd 53 x) = flx_rnd 53 x)).
Proof.
  split; (split; [apply flx_u_nonneg | split; [apply flx_rnd_err; typeclasses eauto | apply flx_rnd_idem; typeclasses eauto]]).
Qed.
