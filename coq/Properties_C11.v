(** C11 - LU factors are triangular and reproduce the matrix.  The Doolittle loops of lu_simple_dispatcher
    (SimpleLU, M > 8) as written, over any field and every size: exact zeros outside the triangles, unit
    diagonal of L, L*U = A whenever no pivot vanishes.  The unrolled kernels (M <= 8), the block/recursive
    variants and the row pre-pivot are tied by correspondence only; rounding bounds are measured (PARTIAL). *)
From Coq Require Import Arith ZArith List Lia.
Import ListNotations.
From FastorV Require Import Base.Scalar Base.Field Model.Linalg Proofs.LinalgProofs.

Theorem C11_triangular_structure :
  forall (S : Scalar) n (A : mat S),
    (forall i j, i < j -> lu_L n A i j = s0 S) /\ (forall i j, j < i -> lu_U n A i j = s0 S).
Proof. exact lu_structure. Qed.
Print Assumptions C11_triangular_structure.

Theorem C11_unit_diagonal :
  forall (S : Scalar), FieldLaws S -> forall n (A : mat S) j, j < n -> lu_U n A j j <> s0 S -> lu_L n A j j = s1 S.
Proof. exact lu_unit_diagonal. Qed.
Print Assumptions C11_unit_diagonal.

Theorem C11_factors_reproduce_the_matrix :
  forall (S : Scalar), FieldLaws S -> forall n (A : mat S),
    (forall j, j < n -> lu_U n A j j <> s0 S) ->
    forall i j, i < n -> j < n -> mmul n (lu_L n A) (lu_U n A) i j = A i j.
Proof. exact lu_product. Qed.
Print Assumptions C11_factors_reproduce_the_matrix.

Example C11_runs :
  let A : mat ZS := fun i j => nth j (nth i [[1; 2; 0]; [1; 3; 1]; [0; 1; 2]]%Z nil) 0%Z in
  (map (fun i => map (lu_L 3 A i) [0; 1; 2]) [0; 1; 2], map (fun i => map (lu_U 3 A i) [0; 1; 2]) [0; 1; 2])
  = ([[1; 0; 0]; [1; 1; 0]; [0; 1; 1]]%Z, [[1; 2; 0]; [0; 1; 1]; [0; 0; 1]]%Z).
Proof. vm_compute. reflexivity. Qed.

(** the hypotheses are satisfiable over a field: a 3x3 rational matrix with non-unit pivots (2, 1, 2) *)
From Coq Require Import QArith Qcanon.
Example C11_runs_over_the_rationals :
  let z (x : Z) : QcS := Q2Qc (inject_Z x) in
  let A : mat QcS := fun i j => z (nth j (nth i [[2; 1; 1]; [4; 3; 3]; [8; 7; 9]]%Z nil) 0%Z) in
  (forallb (fun j => negb (seqb QcS (lu_U 3%nat A j j) (s0 QcS))) [0; 1; 2]%nat &&
   forallb (fun i => forallb (fun j => seqb QcS (mmul 3%nat (lu_L 3%nat A) (lu_U 3%nat A) i j) (A i j)) [0; 1; 2]%nat) [0; 1; 2]%nat &&
   seqb QcS (lu_L 3%nat A 2%nat 1%nat) (z 3%Z))%bool = true.
Proof. vm_compute. reflexivity. Qed.

(** * Pivoting (Model/Pivot.v = unary_piv_op.h as written; compared exactly with the implementation on every run)
    For every size, matrix and magnitude comparison: the permutation returned by the static
    pre-pivot is a bijection of {0..n-1}; reconstruct undoes apply_pivot; and reconstruct(L,U,P)
    returns A whenever L*U = P*A (rows gathered by P). *)
From FastorV Require Import Model.Pivot Proofs.PivotProofs.
Theorem C11_permutation_is_bijection :
  forall (T : Type) (gt : T -> T -> bool) (A : nat -> nat -> T) n, bij n (pivot_perm gt A n).
Proof. exact pivot_perm_bij. Qed.
Print Assumptions C11_permutation_is_bijection.

Theorem C11_reconstruct_undoes_pivot :
  forall (T : Type) n (A : nat -> nat -> T) P r c, bij n P -> (r < n)%nat ->
    reconstruct n (apply_pivot n A P) P r c = A r c.
Proof. exact reconstruct_apply_pivot. Qed.

Theorem C11_reconstruct_LUP :
  forall (T : Type) n (A LU : nat -> nat -> T) P, bij n P ->
    (forall i c, (i < n)%nat -> LU i c = A (P i) c) -> forall r c, (r < n)%nat -> reconstruct n LU P r c = A r c.
Proof. exact plu_reconstruct. Qed.
Print Assumptions C11_reconstruct_LUP.

(** the matrix encoding of the permutation denotes the same permutation *)
Theorem C11_matrix_encoding :
  forall (T : Type) (one zero : T) (eqb1 : T -> bool) n P i,
    eqb1 one = true -> eqb1 zero = false -> (P i < n)%nat -> find_one eqb1 n (perm_matrix one zero P i) = P i.
Proof. exact find_one_perm_matrix. Qed.

Example C11_pivot_runs :
  let A := fun i j => nth (i * 3 + j)%nat [1; 5; 2;  -7; 0; 3;  4; -6; 1]%Z 0%Z in
  map (pivot_perm (fun a b => (Z.abs b <? Z.abs a)%Z) A 3%nat) [0; 1; 2]%nat = [1; 2; 0]%nat.
Proof. vm_compute. reflexivity. Qed.

(** * Dependency on the triangular kernels.  The block / recursive strategies compute their off-diagonal blocks
    with tmatmul and tinverse (unary_lu_op.h, unary_inv_op.h); what is proved about those kernels is C17.  The tie of
    the C17 model to the source - k-range clipping and the drivers' blocking, call sites and tag passing, as translated
    by lib/cxx2v.py on this run - is therefore re-checked here as well. *)
From FastorV Require Import Model.Cfg Model.TMatmul Gen.Generated Proofs.GenEq.
Theorem C11_depends_on_tmatmul_source_tie :
  (forall tl tr K R C i j, gen_find_kfirst tl tr i j = find_kfirst tl tr i j /\ gen_find_klast tl tr K R C i j = find_klast tl tr K R C i j) /\
  (forall c W M K N,
     gen_tmbase_calls (outer_block c) (inner_block c) W M K N = model_tm_calls c W M N false /\
     gen_tmbase_masked_calls (outer_block c) (inner_block c) W M K N = model_tm_calls c W M N true /\
     gen_tmbase_loops (outer_block c) (inner_block c) W M K N = model_loops c W M N false /\
     gen_tmbase_masked_loops (outer_block c) (inner_block c) W M K N = model_loops c W M N true).
Proof.
  split.
  - intros. exact (conj (gen_find_kfirst_eq tl tr i j) (gen_find_klast_eq tl tr K R C i j)).
  - intros. exact (conj (gen_tmbase_calls_eq c W M K N) (conj (gen_tmbase_masked_calls_eq c W M K N)
      (conj (gen_tmbase_loops_eq c W M K N) (gen_tmbase_masked_loops_eq c W M K N)))).
Qed.
