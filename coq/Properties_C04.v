(** C04 - Reading through an index or a slice returns exactly the selected elements. *)
From Coq Require Import Arith ZArith List.
From FastorV Require Import Base.Shape Model.Views Proofs.ViewsProofs.
Import ListNotations.

(** an admissible (normalised) range selects rsize = ceil((last-first)/step) positions
    first + j*step, all inside [first,last) and inside the extent *)
Theorem C04_range_denotes :
  forall N r, admissible N r ->
  forall j, (0 <= j < rsize r)%Z -> (uf r <= uf r + j * us r < ul r)%Z /\ (uf r + j * us r < N)%Z.
Proof. exact range_denotes. Qed.
Print Assumptions C04_range_denotes.

Theorem C04_size_is_ceiling :
  forall N r, admissible N r ->
    (0 <= rsize r /\ (rsize r - 1) * us r < ul r - uf r <= rsize r * us r)%Z \/ (rsize r = 0 /\ ul r = uf r)%Z.
Proof. exact rsize_ceil. Qed.

(** the negative / last-relative encodings *)
Theorem C04_last_encoding : forall N f s, (0 <= f)%Z -> normnd N (mkU f (-1) s) = mkU f N s.
Proof. exact normnd_last. Qed.
Theorem C04_last_element : forall N s, normnd N (mkU (-1) 0 s) = mkU (N - 1) N s.
Proof. exact normnd_lastelem. Qed.

(** every rank, every view with positive steps that fits its parent: element
    (j0,...,jk) of the evaluated view - at row-major position flat(extents, j) - is the
    parent element (first0 + j0*step0, ...), which lies inside the parent *)
Theorem C04_view_read_exact :
  forall (T : Type) (A : nat -> T) pdims v j,
    view_ok pdims v -> in_range (vdims v) j ->
    view_read A pdims v (flat (vdims v) j) = A (flat pdims (vmap v j)) /\ in_range pdims (vmap v j).
Proof. exact view_read_exact. Qed.
Print Assumptions C04_view_read_exact.

(** row-major flattening and the /,% unflattening used by every eval(idx) are inverse *)
Theorem C04_unflat_flat : forall dims idx, in_range dims idx -> unflat dims (flat dims idx) = idx.
Proof. exact unflat_flat. Qed.
Theorem C04_flat_unflat : forall dims p, (forall d, In d dims -> 0 < d) -> p < prod dims -> flat dims (unflat dims p) = p.
Proof. exact flat_unflat. Qed.

Example C04_runs :
  let v := [to_nrange (normnd 5 (mkU 1 (-1) 2)); to_nrange (normnd 7 (mkU (-4) (-1) 1))] in
  (vdims v, map (view_off [5;7] v) (seq 0 (prod (vdims v)))) = ([2;3], [11;12;13;25;26;27]).
Proof. vm_compute. reflexivity. Qed.

(** * Tie to the source by translation (lib/cxx2v.py, re-run on every check):
    the size formula of range_detector / fseq_range_detector / seq::size() and the
    normalisation of to_positive<fseq|iseq,N> in tensor/Ranges.h, as translated on this
    run, are [rsize] and [normnd] *)
From FastorV Require Import Gen.Generated Proofs.GenEq.
Theorem C04_source_range_size :
  forall f l s, gen_range_detector f l s = rsize (mkU f l s) /\
                gen_fseq_range_detector f l s = rsize (mkU f l s) /\
                gen_seq_size f l s = rsize (mkU f l s).
Proof. intros. exact (conj (gen_range_detector_eq f l s) (conj (gen_fseq_range_detector_eq f l s) (gen_seq_size_eq f l s))). Qed.
Print Assumptions C04_source_range_size.
Theorem C04_source_to_positive :
  forall f l s n,
    gen_to_positive_fseq f l s n = (uf (normnd n (mkU f l s)), ul (normnd n (mkU f l s))) /\
    gen_to_positive_iseq f l s n = (uf (normnd n (mkU f l s)), ul (normnd n (mkU f l s))).
Proof. intros. exact (conj (gen_to_positive_fseq_eq f l s n) (gen_to_positive_iseq_eq f l s n)). Qed.
Print Assumptions C04_source_to_positive.

(** the dynamic 1-D and 2-D view classes, const and non-const copies, as translated on this run
    (Gen/GeneratedViews.v): constructor normalisation = norm1d / normnd; the scalar read eval_s(idx)
    returns the parent offset of the model ([view_off]); the vector read eval(idx) gathers into
    lane j the element of idx + j; eval_s(i,j) addresses parent element (first0 + i*step0,
    first1 + j*step1); eval(i,j) reads lane k at (first0 + i*step0)*N + first1 + (j+k)*step1
    whether it takes the contiguous-load or the strided-gather branch *)
From FastorV Require Import Gen.GeneratedViews Proofs.GenViewsEq.
Theorem C04_source_view_normalisation :
  forall f l s f0 l0 s0 f1 l1 s1 M N,
    gen_view1d_norm_const f l N = (uf (norm1d N (mkU f l s)), ul (norm1d N (mkU f l s))) /\
    gen_view1d_norm_nonconst f l N = (uf (norm1d N (mkU f l s)), ul (norm1d N (mkU f l s))) /\
    gen_view2d_norm_const f0 l0 f1 l1 M N = normnd4 f0 l0 s0 f1 l1 s1 M N /\
    gen_view2d_norm_nonconst f0 l0 f1 l1 M N = normnd4 f0 l0 s0 f1 l1 s1 M N.
Proof.
  intros. exact (conj (gen_view1d_norm_const_eq f l s N) (conj (gen_view1d_norm_nonconst_eq f l s N)
    (conj (gen_view2d_norm_const_eq f0 l0 s0 f1 l1 s1 M N) (gen_view2d_norm_nonconst_eq f0 l0 s0 f1 l1 s1 M N)))).
Qed.
Print Assumptions C04_source_view_normalisation.

Theorem C04_source_view_reads :
  forall M N r0 r1 r p,
    (p < nsize r0 * nsize r1 ->
       gen_view2d_evals_const (Z.of_nat (nfirst r0)) (Z.of_nat (nstep r0)) (Z.of_nat (nfirst r1)) (Z.of_nat (nstep r1))
                              (Z.of_nat (nsize r1)) (Z.of_nat N) (Z.of_nat p) = Z.of_nat (view_off [M; N] [r0; r1] p) /\
       gen_view2d_evals_nonconst (Z.of_nat (nfirst r0)) (Z.of_nat (nstep r0)) (Z.of_nat (nfirst r1)) (Z.of_nat (nstep r1))
                              (Z.of_nat (nsize r1)) (Z.of_nat N) (Z.of_nat p) = Z.of_nat (view_off [M; N] [r0; r1] p)) /\
    (p < nsize r ->
       gen_view1d_evals_const (Z.of_nat (nfirst r)) (Z.of_nat (nstep r)) (Z.of_nat p) = Z.of_nat (view_off [N] [r] p) /\
       gen_view1d_evals_nonconst (Z.of_nat (nfirst r)) (Z.of_nat (nstep r)) (Z.of_nat p) = Z.of_nat (view_off [N] [r] p)).
Proof.
  intros. split; intros Hp; [exact (gen_view2d_reads_model_offset M N r0 r1 p Hp) | exact (gen_view1d_reads_model_offset N r p Hp)].
Qed.
Print Assumptions C04_source_view_reads.

Theorem C04_source_view_vector_reads :
  forall f0 s0 f1 s1 sz1 N idx i j k,
    gen_view2d_evallane_const f0 s0 f1 s1 sz1 N idx j = gen_view2d_evals_const f0 s0 f1 s1 sz1 N (idx + j)%Z /\
    gen_view2d_evallane_nonconst f0 s0 f1 s1 sz1 N idx j = gen_view2d_evals_nonconst f0 s0 f1 s1 sz1 N (idx + j)%Z /\
    gen_view2d_evals2_const f0 s0 f1 s1 i j = (f0 + i * s0, f1 + j * s1)%Z /\
    gen_view2d_evals2_nonconst f0 s0 f1 s1 i j = (f0 + i * s0, f1 + j * s1)%Z /\
    (let '(o, st) := gen_view2d_eval2_const f0 s0 f1 s1 N i j in o + k * st = (f0 + i * s0) * N + (f1 + (j + k) * s1))%Z /\
    (let '(o, st) := gen_view2d_eval2_nonconst f0 s0 f1 s1 N i j in o + k * st = (f0 + i * s0) * N + (f1 + (j + k) * s1))%Z.
Proof.
  intros. exact (conj (gen_view2d_evallane_const_eq f0 s0 f1 s1 sz1 N idx j) (conj (gen_view2d_evallane_nonconst_eq f0 s0 f1 s1 sz1 N idx j)
    (conj (gen_view2d_evals2_const_eq f0 s0 f1 s1 i j) (conj (gen_view2d_evals2_nonconst_eq f0 s0 f1 s1 i j)
    (conj (gen_view2d_eval2_const_eq f0 s0 f1 s1 N i j k) (gen_view2d_eval2_nonconst_eq f0 s0 f1 s1 N i j k)))))).
Qed.
