(** C18 - Overlapping slice assignment with noalias() acts on a snapshot of the source. *)
From Coq Require Import Arith ZArith List.
From FastorV Require Import Base.Shape Model.Views Proofs.ViewsProofs.
Import ListNotations.

(** with noalias(): for every destination view, operator and right-hand side - which may
    read the destination tensor through any other view or expression - the result is the
    right-hand side evaluated on the ORIGINAL contents combined into the destination *)
Theorem C18_noalias_snapshot :
  forall (T : Type) op pdims v (rhs : nat -> (nat -> T) -> T) (A : nat -> T),
    view_ok pdims v ->
    let A' := view_write_noalias op pdims v rhs A in
    (forall i, i < prod (vdims v) -> A' (view_off pdims v i) = op (A (view_off pdims v i)) (rhs i A)) /\
    (forall p, (forall i, i < prod (vdims v) -> view_off pdims v i <> p) -> A' p = A p).
Proof. exact noalias_snapshot. Qed.
Print Assumptions C18_noalias_snapshot.

(** without noalias(): when source and destination coincide exactly, the in-place
    traversal gives the same (snapshot) result *)
Theorem C18_perfect_overlap :
  forall (T : Type) op pdims v (g : nat -> T -> T) (A : nat -> T),
    view_ok pdims v ->
    let rhs := fun i (B : nat -> T) => g i (B (view_off pdims v i)) in
    let A' := view_write op pdims v rhs A in
    (forall i, i < prod (vdims v) -> A' (view_off pdims v i) = op (A (view_off pdims v i)) (rhs i A)) /\
    (forall p, (forall i, i < prod (vdims v) -> view_off pdims v i <> p) -> A' p = A p).
Proof. exact perfect_overlap_inplace. Qed.

(** non-vacuity, and why noalias is needed: shifting [0,4) to [1,5) in place smears the
    first element, with noalias it is the snapshot *)
Example C18_runs :
  let dst := [to_nrange (mkU 1 5 1)] in let src := [to_nrange (mkU 0 4 1)] in
  let rhs := fun i (B : nat -> nat) => view_read B [6] src i in
  (map (view_write (fun _ x => x) [6] dst rhs (fun p => 10 + p)) (seq 0 6),
   map (view_write_noalias (fun _ x => x) [6] dst rhs (fun p => 10 + p)) (seq 0 6))
  = ([10;10;10;10;10;15], [10;10;11;12;13;15]).
Proof. vm_compute. reflexivity. Qed.

(** * Tie to the source by translation (lib/cxx2v.py, re-run on every check): the `if (_does_alias)` branch of every
    assignment operator of every view class (dynamic, compile-time, index-tensor and diagonal views; 74 overloads)
    stages the operator's own argument into a temporary evaluated on the untouched original and then applies the SAME
    assignment operator to the staged copy, and is guarded by `#if !(FASTOR_NO_ALIAS)` - i.e. [view_write_noalias] *)
From Coq Require Import Bool Arith.
From FastorV Require Import Gen.GeneratedViews Proofs.GenViewsEq.
Theorem C18_source_noalias_branches :
  forallb (fun b => let '(f, op, called, guard) := b in (op =? called) && guard) gen_noalias_branches = true /\
  60 <= length gen_noalias_branches.
Proof. exact gen_noalias_branches_ok. Qed.
Print Assumptions C18_source_noalias_branches.
