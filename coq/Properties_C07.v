(** C07 - No operation touches memory outside its operands.
    What the models can carry: every WRITE of a modelled operation lands inside its destination (frame
    theorems: everything outside keeps its value) and every offset a view computes lies inside its parent.
    Reads of the kernels are not traced by the models, and faults, alignment and dynamic allocation are runtime
    facts: those are observed by the guard-page / allocation-counter correspondence (PARTIAL). *)
From Coq Require Import Arith ZArith List Lia Bool.
From FastorV Require Import Base.Scalar Base.BigSum Base.Shape Model.Cfg Model.Matmul Model.TMatmul Model.Views Model.RandomViews Model.Simd
     Proofs.MatmulProofs Proofs.TMatmulProofs Proofs.ViewsProofs Proofs.RandomViewsProofs Proofs.SimdProofs.
Import ListNotations.

(** matmul / tmatmul: for every configuration, shape and kernel choice nothing beyond the M*N output elements changes *)
Theorem C07_matmul_writes_only_its_output :
  forall (S : Scalar) (c : cfg) (t : ety) (M K N : nat) (a b c0 : nat -> S), 0 < K -> 0 < N ->
    forall p, M * N <= p -> matmul c t M K N a b c0 p = c0 p.
Proof. intros S c t M K N a b c0 HK HN p Hp. apply (matmul_elements S c t M K N a b c0 HK HN p); exact Hp. Qed.
Print Assumptions C07_matmul_writes_only_its_output.

Theorem C07_tmatmul_writes_only_its_output :
  forall (S : Scalar), RingLaws S -> forall (c : cfg) (t : ety) (tl tr M K N : nat) (a b c0 : nat -> S),
    0 < N -> lhs_tri tl M K a -> rhs_tri tr K N b -> forall p, M * N <= p -> tmatmul c t tl tr M K N a b c0 p = c0 p.
Proof.
  intros S L c t tl tr M K N a b c0 HN Ha Hb p Hp. rewrite (tmatmul_exact S L c t tl tr M K N a b c0 HN Ha Hb p).
  destruct (Nat.ltb_spec p (M * N)); [lia | reflexivity].
Qed.
Print Assumptions C07_tmatmul_writes_only_its_output.

(** views: every offset lies inside the parent; a write through a view changes nothing at or beyond the parent's size *)
Theorem C07_view_offsets_in_bounds : forall pdims v i, view_ok pdims v -> view_off pdims v i < prod pdims.
Proof. exact view_off_bound. Qed.
Theorem C07_view_write_stays_inside :
  forall (T : Type) op pdims v (rhs : nat -> T) (A : nat -> T), view_ok pdims v ->
    forall p, prod pdims <= p -> view_write op pdims v (fun i _ => rhs i) A p = A p.
Proof. intros T op pdims v rhs A Hv. apply (view_write_exact T op pdims v rhs A Hv). Qed.
Print Assumptions C07_view_write_stays_inside.

(** index-tensor and mask views: only the listed / enabled positions change *)
Theorem C07_index_view_write_frame :
  forall (T : Type) op idx (rhs : nat -> T) (A : nat -> T), NoDup idx -> forall p, ~ In p idx -> rv_write op idx rhs A p = A p.
Proof. intros T op idx rhs A Hn. apply (rv_write_exact T op idx rhs A Hn). Qed.
Theorem C07_filter_view_write_frame :
  forall (T : Type) op mask (rhs : nat -> T) n (A : nat -> T) p, n <= p -> filter_write op mask rhs n A p = A p.
Proof. intros. rewrite filter_write_exact. destruct (Nat.ltb_spec p n); [lia | reflexivity]. Qed.

(** masked SIMD store (fallback code): a disabled lane and everything beyond the vector keep their value;
    a masked load reads nothing through a disabled lane (its result does not depend on that memory cell) *)
Theorem C07_masked_store_frame :
  forall n mask v mem q, (n <= q)%nat \/ Z.testbit mask (Z.of_nat q) = false -> mask_store_fb n mask v mem q = mem q.
Proof.
  intros n mask v mem q H. rewrite mask_store_fb_spec. unfold mask_store_spec, lane_enabled.
  destruct H as [H|H]; [destruct (Nat.ltb_spec q n); [lia | reflexivity] | rewrite H, andb_false_r; reflexivity].
Qed.
Theorem C07_masked_load_reads_enabled_lanes_only :
  forall n mask mem mem', (forall q, Z.testbit mask (Z.of_nat q) = true -> mem q = mem' q) -> mask_load_fb n mask mem = mask_load_fb n mask mem'.
Proof.
  intros n mask mem mem' H. rewrite !mask_load_fb_spec. unfold mask_load_spec, lane_enabled. apply map_ext. intros q.
  destruct (Z.testbit mask (Z.of_nat q)) eqn:E; [apply H; exact E | reflexivity].
Qed.
Print Assumptions C07_masked_load_reads_enabled_lanes_only.

(** * Reads as well as writes of the matmul micro-kernels, from the source.  The index expressions of every
    a / b / c access of interior_block_matmul_impl<1..5>, _scalar_impl and _mask_impl as translated on this run
    (lib/cxx2v.py) equal [model_kernel_accesses]; with the block inside the matrices they are all in bounds:
    the scalar read of A, the W-wide loads of B and the W-wide stores of C. *)
From FastorV Require Import Gen.GeneratedAccess Proofs.GenAccessEq.
Theorem C07_kernel_accesses_in_bounds :
  forall C W M K N R i j ii k n arr idx,
    In (arr, idx) (model_kernel_accesses C W K N R i j ii k n) ->
    i + ii * R + n < M -> k < K -> j + C * W <= N ->
    match arr with 0 => idx < M * K | 1 => idx + W <= K * N | _ => idx + W <= M * N end.
Proof. exact kernel_accesses_in_bounds. Qed.
Print Assumptions C07_kernel_accesses_in_bounds.

Theorem C07_source_kernel_accesses :
  forall W M K N R i j ii k n,
    gen_mmkernel1_accesses W M K N R i j ii k n = model_kernel_accesses 1 W K N R i j ii k n /\
    gen_mmkernel2_accesses W M K N R i j ii k n = model_kernel_accesses 2 W K N R i j ii k n /\
    gen_mmkernel3_accesses W M K N R i j ii k n = model_kernel_accesses 3 W K N R i j ii k n /\
    gen_mmkernel4_accesses W M K N R i j ii k n = model_kernel_accesses 4 W K N R i j ii k n /\
    gen_mmkernel5_accesses W M K N R i j ii k n = model_kernel_accesses 5 W K N R i j ii k n /\
    gen_mmkernel_scalar_accesses W M K N R i j ii k n = model_kernel_accesses 1 W K N R i j ii k n /\
    gen_mmkernel_mask0_accesses W M K N R i j ii k n = model_kernel_accesses 1 W K N R i j ii k n /\
    gen_mmkernel_mask1_accesses W M K N R i j ii k n = model_kernel_accesses 1 W K N R i j ii k n.
Proof. exact gen_mmkernel_accesses_eq. Qed.

Theorem C07_source_transpose_accesses :
  forall W M N i ii j jj v,
    gen_transpose_avx_accesses W M N i ii j jj v = model_transpose_avx W M N i ii j jj v /\
    gen_transpose_plain_accesses M N i j = [(1, j * M + i); (0, i * N + j)].
Proof. exact gen_transpose_accesses_eq. Qed.

(** is_aligned() of each of the 16 view classes under expressions/views, as translated on this run, is false:
    accesses through views are never alignment-requiring (the views' first element and row pitch are arbitrary) *)
Theorem C07_source_views_never_claim_alignment :
  forallb negb gen_views_is_aligned = true /\ length gen_views_is_aligned = 16.
Proof. exact gen_views_never_aligned. Qed.

(** every alignment-requiring load / store intrinsic in the SIMD vector classes (simd_vector_{double,float,int32,
    int64,complex_double,complex_float}.h), as translated on every run, is guarded by the caller-supplied Aligned flag
    or lives in aligned_load / aligned_store *)
Theorem C07_source_simd_aligned_accesses_guarded :
  forallb (fun e : nat * nat => negb (snd e =? 0)) gen_simd_aligned_sites = true /\ 120 <= List.length gen_simd_aligned_sites.
Proof. exact gen_simd_aligned_sites_ok. Qed.
Print Assumptions C07_source_simd_aligned_accesses_guarded.

(** and the masked loads / stores default to the unaligned form in every SIMD vector class *)
Theorem C07_source_masked_accesses_default_unaligned :
  forallb (fun e : nat * bool * bool => let '(_, masked, dflt) := e in if masked then negb dflt else true) gen_simd_aligned_defaults = true /\
  12 <= List.length (filter (fun e : nat * bool * bool => let '(_, masked, _) := e in masked) gen_simd_aligned_defaults).
Proof. exact gen_simd_aligned_defaults_ok. Qed.
Print Assumptions C07_source_masked_accesses_default_unaligned.
