(** Extraction of the executable models to OCaml.  Directives used:
    ExtrOcamlBasic (bool, option, list, prod, unit, sumbool -> OCaml types) and
    ExtrOcamlNatInt (nat -> int; sound below 2^62, all indices here are < 10^6).
    No Extract Constant of ours; Z / positive stay the extracted inductives.
    A subset of the cases is also evaluated by vm_compute on every run and
    must agree with the extracted code (bin/check). *)
From Coq Require Import Extraction ExtrOcamlBasic ExtrOcamlNatInt ZArith.
From FastorV Require Import Base.Scalar Model.Cfg Model.Matmul Model.TMatmul Model.Expr Model.ExprInt Model.Reduce Base.Shape Model.Views Model.RandomViews Model.Layout Model.Permute Model.Einsum Model.Network Model.Pivot Model.Run.
Extraction Language OCaml.
Extraction "extracted/fastor_model.ml"
  mkCfg ty_double ty_float ty_int32 ty_int64 ty_cfloat ty_cdouble
  run_matmul_Z run_matmul_C run_best_vsize
  run_tmatmul_Z run_tmatmul_C
  run_assign_Z run_reduce_Z run_preds run_det_Z
  run_view run_admissible
  run_rv_read run_rv_write run_filter_write run_idx2 run_idx_col run_idx_row run_idx_it_range run_idx_range_it
  run_torowmajor run_tocolumnmajor run_permute run_transpose run_invp run_einsum run_classify run_network3 run_triplet_costs run_network4 run_simd_int run_simd_sse2 run_mask_store run_mask_load run_lu run_lu_inverse run_lu_solve run_pivot run_apply_pivot run_reconstruct run_reconstruct_colwise.
