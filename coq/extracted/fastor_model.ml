
type __ = Obj.t

(** val negb : bool -> bool **)

let negb = function
| true -> false
| false -> true

(** val fst : ('a1 * 'a2) -> 'a1 **)

let fst = function
| (x, _) -> x

(** val snd : ('a1 * 'a2) -> 'a2 **)

let snd = function
| (_, y) -> y

(** val length : 'a1 list -> int **)

let rec length = function
| [] -> 0
| _ :: l' -> Stdlib.Int.succ (length l')

(** val app : 'a1 list -> 'a1 list -> 'a1 list **)

let rec app l m =
  match l with
  | [] -> m
  | a :: l1 -> a :: (app l1 m)

type comparison =
| Eq
| Lt
| Gt

(** val compOpp : comparison -> comparison **)

let compOpp = function
| Eq -> Eq
| Lt -> Gt
| Gt -> Lt

module Coq__1 = struct
 (** val add : int -> int -> int **)let rec add = (+)
end
include Coq__1

(** val mul : int -> int -> int **)

let rec mul = ( * )

(** val sub : int -> int -> int **)

let rec sub = fun n m -> Stdlib.max 0 (n-m)

(** val eqb : bool -> bool -> bool **)

let eqb b1 b2 =
  if b1 then b2 else if b2 then false else true

module Nat =
 struct
  (** val sub : int -> int -> int **)

  let rec sub n0 m =
    (fun fO fS n -> if n=0 then fO () else fS (n-1))
      (fun _ -> n0)
      (fun k ->
      (fun fO fS n -> if n=0 then fO () else fS (n-1))
        (fun _ -> n0)
        (fun l -> sub k l)
        m)
      n0

  (** val ltb : int -> int -> bool **)

  let ltb n0 m =
    (<=) (Stdlib.Int.succ n0) m

  (** val max : int -> int -> int **)

  let rec max n0 m =
    (fun fO fS n -> if n=0 then fO () else fS (n-1))
      (fun _ -> m)
      (fun n' ->
      (fun fO fS n -> if n=0 then fO () else fS (n-1))
        (fun _ -> n0)
        (fun m' -> Stdlib.Int.succ (max n' m'))
        m)
      n0

  (** val min : int -> int -> int **)

  let rec min n0 m =
    (fun fO fS n -> if n=0 then fO () else fS (n-1))
      (fun _ -> 0)
      (fun n' ->
      (fun fO fS n -> if n=0 then fO () else fS (n-1))
        (fun _ -> 0)
        (fun m' -> Stdlib.Int.succ (min n' m'))
        m)
      n0

  (** val even : int -> bool **)

  let rec even n0 =
    (fun fO fS n -> if n=0 then fO () else fS (n-1))
      (fun _ -> true)
      (fun n1 ->
      (fun fO fS n -> if n=0 then fO () else fS (n-1))
        (fun _ -> false)
        (fun n' -> even n')
        n1)
      n0

  (** val divmod : int -> int -> int -> int -> int * int **)

  let rec divmod x y q u =
    (fun fO fS n -> if n=0 then fO () else fS (n-1))
      (fun _ -> (q, u))
      (fun x' ->
      (fun fO fS n -> if n=0 then fO () else fS (n-1))
        (fun _ -> divmod x' y (Stdlib.Int.succ q) y)
        (fun u' -> divmod x' y q u')
        u)
      x

  (** val div : int -> int -> int **)

  let div x y =
    (fun fO fS n -> if n=0 then fO () else fS (n-1))
      (fun _ -> y)
      (fun y' -> fst (divmod x y' 0 y'))
      y

  (** val modulo : int -> int -> int **)

  let modulo x y =
    (fun fO fS n -> if n=0 then fO () else fS (n-1))
      (fun _ -> x)
      (fun y' -> sub y' (snd (divmod x y' 0 y')))
      y
 end

type positive =
| XI of positive
| XO of positive
| XH

type n =
| N0
| Npos of positive

type z =
| Z0
| Zpos of positive
| Zneg of positive

module Pos =
 struct
  type mask =
  | IsNul
  | IsPos of positive
  | IsNeg
 end

module Coq_Pos =
 struct
  (** val succ : positive -> positive **)

  let rec succ = function
  | XI p -> XO (succ p)
  | XO p -> XI p
  | XH -> XO XH

  (** val add : positive -> positive -> positive **)

  let rec add x y =
    match x with
    | XI p ->
      (match y with
       | XI q -> XO (add_carry p q)
       | XO q -> XI (add p q)
       | XH -> XO (succ p))
    | XO p ->
      (match y with
       | XI q -> XI (add p q)
       | XO q -> XO (add p q)
       | XH -> XI p)
    | XH -> (match y with
             | XI q -> XO (succ q)
             | XO q -> XI q
             | XH -> XO XH)

  (** val add_carry : positive -> positive -> positive **)

  and add_carry x y =
    match x with
    | XI p ->
      (match y with
       | XI q -> XI (add_carry p q)
       | XO q -> XO (add_carry p q)
       | XH -> XI (succ p))
    | XO p ->
      (match y with
       | XI q -> XO (add_carry p q)
       | XO q -> XI (add p q)
       | XH -> XO (succ p))
    | XH ->
      (match y with
       | XI q -> XI (succ q)
       | XO q -> XO (succ q)
       | XH -> XI XH)

  (** val pred_double : positive -> positive **)

  let rec pred_double = function
  | XI p -> XI (XO p)
  | XO p -> XI (pred_double p)
  | XH -> XH

  (** val pred_N : positive -> n **)

  let pred_N = function
  | XI p -> Npos (XO p)
  | XO p -> Npos (pred_double p)
  | XH -> N0

  type mask = Pos.mask =
  | IsNul
  | IsPos of positive
  | IsNeg

  (** val succ_double_mask : mask -> mask **)

  let succ_double_mask = function
  | IsNul -> IsPos XH
  | IsPos p -> IsPos (XI p)
  | IsNeg -> IsNeg

  (** val double_mask : mask -> mask **)

  let double_mask = function
  | IsPos p -> IsPos (XO p)
  | x0 -> x0

  (** val double_pred_mask : positive -> mask **)

  let double_pred_mask = function
  | XI p -> IsPos (XO (XO p))
  | XO p -> IsPos (XO (pred_double p))
  | XH -> IsNul

  (** val sub_mask : positive -> positive -> mask **)

  let rec sub_mask x y =
    match x with
    | XI p ->
      (match y with
       | XI q -> double_mask (sub_mask p q)
       | XO q -> succ_double_mask (sub_mask p q)
       | XH -> IsPos (XO p))
    | XO p ->
      (match y with
       | XI q -> succ_double_mask (sub_mask_carry p q)
       | XO q -> double_mask (sub_mask p q)
       | XH -> IsPos (pred_double p))
    | XH -> (match y with
             | XH -> IsNul
             | _ -> IsNeg)

  (** val sub_mask_carry : positive -> positive -> mask **)

  and sub_mask_carry x y =
    match x with
    | XI p ->
      (match y with
       | XI q -> succ_double_mask (sub_mask_carry p q)
       | XO q -> double_mask (sub_mask p q)
       | XH -> IsPos (pred_double p))
    | XO p ->
      (match y with
       | XI q -> double_mask (sub_mask_carry p q)
       | XO q -> succ_double_mask (sub_mask_carry p q)
       | XH -> double_pred_mask p)
    | XH -> IsNeg

  (** val mul : positive -> positive -> positive **)

  let rec mul x y =
    match x with
    | XI p -> add y (XO (mul p y))
    | XO p -> XO (mul p y)
    | XH -> y

  (** val iter : ('a1 -> 'a1) -> 'a1 -> positive -> 'a1 **)

  let rec iter f x = function
  | XI n' -> f (iter f (iter f x n') n')
  | XO n' -> iter f (iter f x n') n'
  | XH -> f x

  (** val div2 : positive -> positive **)

  let div2 = function
  | XI p0 -> p0
  | XO p0 -> p0
  | XH -> XH

  (** val div2_up : positive -> positive **)

  let div2_up = function
  | XI p0 -> succ p0
  | XO p0 -> p0
  | XH -> XH

  (** val compare_cont : comparison -> positive -> positive -> comparison **)

  let rec compare_cont r x y =
    match x with
    | XI p ->
      (match y with
       | XI q -> compare_cont r p q
       | XO q -> compare_cont Gt p q
       | XH -> Gt)
    | XO p ->
      (match y with
       | XI q -> compare_cont Lt p q
       | XO q -> compare_cont r p q
       | XH -> Gt)
    | XH -> (match y with
             | XH -> r
             | _ -> Lt)

  (** val compare : positive -> positive -> comparison **)

  let compare =
    compare_cont Eq

  (** val eqb : positive -> positive -> bool **)

  let rec eqb p q =
    match p with
    | XI p0 -> (match q with
                | XI q0 -> eqb p0 q0
                | _ -> false)
    | XO p0 -> (match q with
                | XO q0 -> eqb p0 q0
                | _ -> false)
    | XH -> (match q with
             | XH -> true
             | _ -> false)

  (** val coq_Nsucc_double : n -> n **)

  let coq_Nsucc_double = function
  | N0 -> Npos XH
  | Npos p -> Npos (XI p)

  (** val coq_Ndouble : n -> n **)

  let coq_Ndouble = function
  | N0 -> N0
  | Npos p -> Npos (XO p)

  (** val coq_lxor : positive -> positive -> n **)

  let rec coq_lxor p q =
    match p with
    | XI p0 ->
      (match q with
       | XI q0 -> coq_Ndouble (coq_lxor p0 q0)
       | XO q0 -> coq_Nsucc_double (coq_lxor p0 q0)
       | XH -> Npos (XO p0))
    | XO p0 ->
      (match q with
       | XI q0 -> coq_Nsucc_double (coq_lxor p0 q0)
       | XO q0 -> coq_Ndouble (coq_lxor p0 q0)
       | XH -> Npos (XI p0))
    | XH ->
      (match q with
       | XI q0 -> Npos (XO q0)
       | XO q0 -> Npos (XI q0)
       | XH -> N0)

  (** val testbit : positive -> n -> bool **)

  let rec testbit p n0 =
    match p with
    | XI p0 -> (match n0 with
                | N0 -> true
                | Npos n1 -> testbit p0 (pred_N n1))
    | XO p0 -> (match n0 with
                | N0 -> false
                | Npos n1 -> testbit p0 (pred_N n1))
    | XH -> (match n0 with
             | N0 -> true
             | Npos _ -> false)

  (** val iter_op : ('a1 -> 'a1 -> 'a1) -> positive -> 'a1 -> 'a1 **)

  let rec iter_op op p a =
    match p with
    | XI p0 -> op a (iter_op op p0 (op a a))
    | XO p0 -> iter_op op p0 (op a a)
    | XH -> a

  (** val to_nat : positive -> int **)

  let to_nat x =
    iter_op Coq__1.add x (Stdlib.Int.succ 0)

  (** val of_succ_nat : int -> positive **)

  let rec of_succ_nat n0 =
    (fun fO fS n -> if n=0 then fO () else fS (n-1))
      (fun _ -> XH)
      (fun x -> succ (of_succ_nat x))
      n0
 end

module N =
 struct
  (** val succ_double : n -> n **)

  let succ_double = function
  | N0 -> Npos XH
  | Npos p -> Npos (XI p)

  (** val double : n -> n **)

  let double = function
  | N0 -> N0
  | Npos p -> Npos (XO p)

  (** val succ_pos : n -> positive **)

  let succ_pos = function
  | N0 -> XH
  | Npos p -> Coq_Pos.succ p

  (** val sub : n -> n -> n **)

  let sub n0 m =
    match n0 with
    | N0 -> N0
    | Npos n' ->
      (match m with
       | N0 -> n0
       | Npos m' ->
         (match Coq_Pos.sub_mask n' m' with
          | Coq_Pos.IsPos p -> Npos p
          | _ -> N0))

  (** val compare : n -> n -> comparison **)

  let compare n0 m =
    match n0 with
    | N0 -> (match m with
             | N0 -> Eq
             | Npos _ -> Lt)
    | Npos n' -> (match m with
                  | N0 -> Gt
                  | Npos m' -> Coq_Pos.compare n' m')

  (** val leb : n -> n -> bool **)

  let leb x y =
    match compare x y with
    | Gt -> false
    | _ -> true

  (** val pos_div_eucl : positive -> n -> n * n **)

  let rec pos_div_eucl a b =
    match a with
    | XI a' ->
      let (q, r) = pos_div_eucl a' b in
      let r' = succ_double r in
      if leb b r' then ((succ_double q), (sub r' b)) else ((double q), r')
    | XO a' ->
      let (q, r) = pos_div_eucl a' b in
      let r' = double r in
      if leb b r' then ((succ_double q), (sub r' b)) else ((double q), r')
    | XH ->
      (match b with
       | N0 -> (N0, (Npos XH))
       | Npos p -> (match p with
                    | XH -> ((Npos XH), N0)
                    | _ -> (N0, (Npos XH))))

  (** val coq_lxor : n -> n -> n **)

  let coq_lxor n0 m =
    match n0 with
    | N0 -> m
    | Npos p -> (match m with
                 | N0 -> n0
                 | Npos q -> Coq_Pos.coq_lxor p q)

  (** val testbit : n -> n -> bool **)

  let testbit a n0 =
    match a with
    | N0 -> false
    | Npos p -> Coq_Pos.testbit p n0
 end

(** val nth : int -> 'a1 list -> 'a1 -> 'a1 **)

let rec nth n0 l default =
  (fun fO fS n -> if n=0 then fO () else fS (n-1))
    (fun _ -> match l with
              | [] -> default
              | x :: _ -> x)
    (fun m -> match l with
              | [] -> default
              | _ :: t0 -> nth m t0 default)
    n0

(** val rev : 'a1 list -> 'a1 list **)

let rec rev = function
| [] -> []
| x :: l' -> app (rev l') (x :: [])

(** val map : ('a1 -> 'a2) -> 'a1 list -> 'a2 list **)

let rec map f = function
| [] -> []
| a :: t0 -> (f a) :: (map f t0)

(** val flat_map : ('a1 -> 'a2 list) -> 'a1 list -> 'a2 list **)

let rec flat_map f = function
| [] -> []
| x :: t0 -> app (f x) (flat_map f t0)

(** val fold_left : ('a1 -> 'a2 -> 'a1) -> 'a2 list -> 'a1 -> 'a1 **)

let rec fold_left f l a0 =
  match l with
  | [] -> a0
  | b :: t0 -> fold_left f t0 (f a0 b)

(** val existsb : ('a1 -> bool) -> 'a1 list -> bool **)

let rec existsb f = function
| [] -> false
| a :: l0 -> (||) (f a) (existsb f l0)

(** val forallb : ('a1 -> bool) -> 'a1 list -> bool **)

let rec forallb f = function
| [] -> true
| a :: l0 -> (&&) (f a) (forallb f l0)

(** val filter : ('a1 -> bool) -> 'a1 list -> 'a1 list **)

let rec filter f = function
| [] -> []
| x :: l0 -> if f x then x :: (filter f l0) else filter f l0

(** val combine : 'a1 list -> 'a2 list -> ('a1 * 'a2) list **)

let rec combine l l' =
  match l with
  | [] -> []
  | x :: tl ->
    (match l' with
     | [] -> []
     | y :: tl' -> (x, y) :: (combine tl tl'))

(** val seq : int -> int -> int list **)

let rec seq start len =
  (fun fO fS n -> if n=0 then fO () else fS (n-1))
    (fun _ -> [])
    (fun len0 -> start :: (seq (Stdlib.Int.succ start) len0))
    len

module Z =
 struct
  (** val double : z -> z **)

  let double = function
  | Z0 -> Z0
  | Zpos p -> Zpos (XO p)
  | Zneg p -> Zneg (XO p)

  (** val succ_double : z -> z **)

  let succ_double = function
  | Z0 -> Zpos XH
  | Zpos p -> Zpos (XI p)
  | Zneg p -> Zneg (Coq_Pos.pred_double p)

  (** val pred_double : z -> z **)

  let pred_double = function
  | Z0 -> Zneg XH
  | Zpos p -> Zpos (Coq_Pos.pred_double p)
  | Zneg p -> Zneg (XI p)

  (** val pos_sub : positive -> positive -> z **)

  let rec pos_sub x y =
    match x with
    | XI p ->
      (match y with
       | XI q -> double (pos_sub p q)
       | XO q -> succ_double (pos_sub p q)
       | XH -> Zpos (XO p))
    | XO p ->
      (match y with
       | XI q -> pred_double (pos_sub p q)
       | XO q -> double (pos_sub p q)
       | XH -> Zpos (Coq_Pos.pred_double p))
    | XH ->
      (match y with
       | XI q -> Zneg (XO q)
       | XO q -> Zneg (Coq_Pos.pred_double q)
       | XH -> Z0)

  (** val add : z -> z -> z **)

  let add x y =
    match x with
    | Z0 -> y
    | Zpos x' ->
      (match y with
       | Z0 -> x
       | Zpos y' -> Zpos (Coq_Pos.add x' y')
       | Zneg y' -> pos_sub x' y')
    | Zneg x' ->
      (match y with
       | Z0 -> x
       | Zpos y' -> pos_sub y' x'
       | Zneg y' -> Zneg (Coq_Pos.add x' y'))

  (** val opp : z -> z **)

  let opp = function
  | Z0 -> Z0
  | Zpos x0 -> Zneg x0
  | Zneg x0 -> Zpos x0

  (** val sub : z -> z -> z **)

  let sub m n0 =
    add m (opp n0)

  (** val mul : z -> z -> z **)

  let mul x y =
    match x with
    | Z0 -> Z0
    | Zpos x' ->
      (match y with
       | Z0 -> Z0
       | Zpos y' -> Zpos (Coq_Pos.mul x' y')
       | Zneg y' -> Zneg (Coq_Pos.mul x' y'))
    | Zneg x' ->
      (match y with
       | Z0 -> Z0
       | Zpos y' -> Zneg (Coq_Pos.mul x' y')
       | Zneg y' -> Zpos (Coq_Pos.mul x' y'))

  (** val pow_pos : z -> positive -> z **)

  let pow_pos z0 =
    Coq_Pos.iter (mul z0) (Zpos XH)

  (** val pow : z -> z -> z **)

  let pow x = function
  | Z0 -> Zpos XH
  | Zpos p -> pow_pos x p
  | Zneg _ -> Z0

  (** val compare : z -> z -> comparison **)

  let compare x y =
    match x with
    | Z0 -> (match y with
             | Z0 -> Eq
             | Zpos _ -> Lt
             | Zneg _ -> Gt)
    | Zpos x' -> (match y with
                  | Zpos y' -> Coq_Pos.compare x' y'
                  | _ -> Gt)
    | Zneg x' ->
      (match y with
       | Zneg y' -> compOpp (Coq_Pos.compare x' y')
       | _ -> Lt)

  (** val leb : z -> z -> bool **)

  let leb x y =
    match compare x y with
    | Gt -> false
    | _ -> true

  (** val ltb : z -> z -> bool **)

  let ltb x y =
    match compare x y with
    | Lt -> true
    | _ -> false

  (** val eqb : z -> z -> bool **)

  let eqb x y =
    match x with
    | Z0 -> (match y with
             | Z0 -> true
             | _ -> false)
    | Zpos p -> (match y with
                 | Zpos q -> Coq_Pos.eqb p q
                 | _ -> false)
    | Zneg p -> (match y with
                 | Zneg q -> Coq_Pos.eqb p q
                 | _ -> false)

  (** val max : z -> z -> z **)

  let max n0 m =
    match compare n0 m with
    | Lt -> m
    | _ -> n0

  (** val min : z -> z -> z **)

  let min n0 m =
    match compare n0 m with
    | Gt -> m
    | _ -> n0

  (** val abs : z -> z **)

  let abs = function
  | Zneg p -> Zpos p
  | x -> x

  (** val to_nat : z -> int **)

  let to_nat = function
  | Zpos p -> Coq_Pos.to_nat p
  | _ -> 0

  (** val of_nat : int -> z **)

  let of_nat n0 =
    (fun fO fS n -> if n=0 then fO () else fS (n-1))
      (fun _ -> Z0)
      (fun n1 -> Zpos (Coq_Pos.of_succ_nat n1))
      n0

  (** val of_N : n -> z **)

  let of_N = function
  | N0 -> Z0
  | Npos p -> Zpos p

  (** val pos_div_eucl : positive -> z -> z * z **)

  let rec pos_div_eucl a b =
    match a with
    | XI a' ->
      let (q, r) = pos_div_eucl a' b in
      let r' = add (mul (Zpos (XO XH)) r) (Zpos XH) in
      if ltb r' b
      then ((mul (Zpos (XO XH)) q), r')
      else ((add (mul (Zpos (XO XH)) q) (Zpos XH)), (sub r' b))
    | XO a' ->
      let (q, r) = pos_div_eucl a' b in
      let r' = mul (Zpos (XO XH)) r in
      if ltb r' b
      then ((mul (Zpos (XO XH)) q), r')
      else ((add (mul (Zpos (XO XH)) q) (Zpos XH)), (sub r' b))
    | XH -> if leb (Zpos (XO XH)) b then (Z0, (Zpos XH)) else ((Zpos XH), Z0)

  (** val div_eucl : z -> z -> z * z **)

  let div_eucl a b =
    match a with
    | Z0 -> (Z0, Z0)
    | Zpos a' ->
      (match b with
       | Z0 -> (Z0, a)
       | Zpos _ -> pos_div_eucl a' b
       | Zneg b' ->
         let (q, r) = pos_div_eucl a' (Zpos b') in
         (match r with
          | Z0 -> ((opp q), Z0)
          | _ -> ((opp (add q (Zpos XH))), (add b r))))
    | Zneg a' ->
      (match b with
       | Z0 -> (Z0, a)
       | Zpos _ ->
         let (q, r) = pos_div_eucl a' b in
         (match r with
          | Z0 -> ((opp q), Z0)
          | _ -> ((opp (add q (Zpos XH))), (sub b r)))
       | Zneg b' -> let (q, r) = pos_div_eucl a' (Zpos b') in (q, (opp r)))

  (** val div : z -> z -> z **)

  let div a b =
    let (q, _) = div_eucl a b in q

  (** val modulo : z -> z -> z **)

  let modulo a b =
    let (_, r) = div_eucl a b in r

  (** val quotrem : z -> z -> z * z **)

  let quotrem a b =
    match a with
    | Z0 -> (Z0, Z0)
    | Zpos a0 ->
      (match b with
       | Z0 -> (Z0, a)
       | Zpos b0 ->
         let (q, r) = N.pos_div_eucl a0 (Npos b0) in ((of_N q), (of_N r))
       | Zneg b0 ->
         let (q, r) = N.pos_div_eucl a0 (Npos b0) in
         ((opp (of_N q)), (of_N r)))
    | Zneg a0 ->
      (match b with
       | Z0 -> (Z0, a)
       | Zpos b0 ->
         let (q, r) = N.pos_div_eucl a0 (Npos b0) in
         ((opp (of_N q)), (opp (of_N r)))
       | Zneg b0 ->
         let (q, r) = N.pos_div_eucl a0 (Npos b0) in
         ((of_N q), (opp (of_N r))))

  (** val quot : z -> z -> z **)

  let quot a b =
    fst (quotrem a b)

  (** val rem : z -> z -> z **)

  let rem a b =
    snd (quotrem a b)

  (** val odd : z -> bool **)

  let odd = function
  | Z0 -> false
  | Zpos p -> (match p with
               | XO _ -> false
               | _ -> true)
  | Zneg p -> (match p with
               | XO _ -> false
               | _ -> true)

  (** val div2 : z -> z **)

  let div2 = function
  | Z0 -> Z0
  | Zpos p -> (match p with
               | XH -> Z0
               | _ -> Zpos (Coq_Pos.div2 p))
  | Zneg p -> Zneg (Coq_Pos.div2_up p)

  (** val testbit : z -> z -> bool **)

  let testbit a = function
  | Z0 -> odd a
  | Zpos p ->
    (match a with
     | Z0 -> false
     | Zpos a0 -> Coq_Pos.testbit a0 (Npos p)
     | Zneg a0 -> negb (N.testbit (Coq_Pos.pred_N a0) (Npos p)))
  | Zneg _ -> false

  (** val shiftl : z -> z -> z **)

  let shiftl a = function
  | Z0 -> a
  | Zpos p -> Coq_Pos.iter (mul (Zpos (XO XH))) a p
  | Zneg p -> Coq_Pos.iter div2 a p

  (** val shiftr : z -> z -> z **)

  let shiftr a n0 =
    shiftl a (opp n0)

  (** val coq_lxor : z -> z -> z **)

  let coq_lxor a b =
    match a with
    | Z0 -> b
    | Zpos a0 ->
      (match b with
       | Z0 -> a
       | Zpos b0 -> of_N (Coq_Pos.coq_lxor a0 b0)
       | Zneg b0 ->
         Zneg (N.succ_pos (N.coq_lxor (Npos a0) (Coq_Pos.pred_N b0))))
    | Zneg a0 ->
      (match b with
       | Z0 -> a
       | Zpos b0 ->
         Zneg (N.succ_pos (N.coq_lxor (Coq_Pos.pred_N a0) (Npos b0)))
       | Zneg b0 -> of_N (N.coq_lxor (Coq_Pos.pred_N a0) (Coq_Pos.pred_N b0)))
 end

type scalar = { s0 : __; s1 : __; sadd : (__ -> __ -> __);
                smul : (__ -> __ -> __); ssub : (__ -> __ -> __);
                sneg : (__ -> __); sfma : (__ -> __ -> __ -> __);
                sdiv : (__ -> __ -> __); seqb : (__ -> __ -> bool);
                sltb : (__ -> __ -> bool) }

type t = __

(** val zS : scalar **)

let zS =
  { s0 = (Obj.magic Z0); s1 = (Obj.magic (Zpos XH)); sadd =
    (Obj.magic Z.add); smul = (Obj.magic Z.mul); ssub = (Obj.magic Z.sub);
    sneg = (Obj.magic Z.opp); sfma = (fun a b c ->
    Obj.magic Z.add (Z.mul (Obj.magic a) (Obj.magic b)) c); sdiv =
    (Obj.magic Z.quot); seqb = (Obj.magic Z.eqb); sltb = (Obj.magic Z.ltb) }

(** val wrap : z -> z -> z **)

let wrap n0 x =
  let m = Z.pow (Zpos (XO XH)) n0 in
  let r = Z.modulo x m in
  if Z.ltb r (Z.pow (Zpos (XO XH)) (Z.sub n0 (Zpos XH))) then r else Z.sub r m

(** val zC : scalar **)

let zC =
  { s0 = (Obj.magic (Z0, Z0)); s1 = (Obj.magic ((Zpos XH), Z0)); sadd =
    (fun a b ->
    Obj.magic ((Z.add (fst (Obj.magic a)) (fst (Obj.magic b))),
      (Z.add (snd (Obj.magic a)) (snd (Obj.magic b))))); smul = (fun a b ->
    Obj.magic
      ((Z.sub (Z.mul (fst (Obj.magic a)) (fst (Obj.magic b)))
         (Z.mul (snd (Obj.magic a)) (snd (Obj.magic b)))),
      (Z.add (Z.mul (fst (Obj.magic a)) (snd (Obj.magic b)))
        (Z.mul (snd (Obj.magic a)) (fst (Obj.magic b)))))); ssub =
    (fun a b ->
    Obj.magic ((Z.sub (fst (Obj.magic a)) (fst (Obj.magic b))),
      (Z.sub (snd (Obj.magic a)) (snd (Obj.magic b))))); sneg = (fun a ->
    Obj.magic ((Z.opp (fst (Obj.magic a))), (Z.opp (snd (Obj.magic a)))));
    sfma = (fun a b c ->
    Obj.magic
      ((Z.add
         (Z.sub (Z.mul (fst (Obj.magic a)) (fst (Obj.magic b)))
           (Z.mul (snd (Obj.magic a)) (snd (Obj.magic b))))
         (fst (Obj.magic c))),
      (Z.add
        (Z.add (Z.mul (fst (Obj.magic a)) (snd (Obj.magic b)))
          (Z.mul (snd (Obj.magic a)) (fst (Obj.magic b))))
        (snd (Obj.magic c))))); sdiv = (fun a _ -> a); seqb = (fun a b ->
    (&&) (Z.eqb (fst (Obj.magic a)) (fst (Obj.magic b)))
      (Z.eqb (snd (Obj.magic a)) (snd (Obj.magic b)))); sltb = (fun a b ->
    Z.ltb (fst (Obj.magic a)) (fst (Obj.magic b))) }

type cfg = { abi : int; masks : bool; outer_block : int; inner_block : int }

type ety = { tbytes : int; simd_ty : bool; cplx : bool; is_fp : bool }

(** val ty_float : ety **)

let ty_float =
  { tbytes = (Stdlib.Int.succ (Stdlib.Int.succ (Stdlib.Int.succ
    (Stdlib.Int.succ 0)))); simd_ty = true; cplx = false; is_fp = true }

(** val ty_double : ety **)

let ty_double =
  { tbytes = (Stdlib.Int.succ (Stdlib.Int.succ (Stdlib.Int.succ
    (Stdlib.Int.succ (Stdlib.Int.succ (Stdlib.Int.succ (Stdlib.Int.succ
    (Stdlib.Int.succ 0)))))))); simd_ty = true; cplx = false; is_fp = true }

(** val ty_int32 : ety **)

let ty_int32 =
  { tbytes = (Stdlib.Int.succ (Stdlib.Int.succ (Stdlib.Int.succ
    (Stdlib.Int.succ 0)))); simd_ty = true; cplx = false; is_fp = false }

(** val ty_int64 : ety **)

let ty_int64 =
  { tbytes = (Stdlib.Int.succ (Stdlib.Int.succ (Stdlib.Int.succ
    (Stdlib.Int.succ (Stdlib.Int.succ (Stdlib.Int.succ (Stdlib.Int.succ
    (Stdlib.Int.succ 0)))))))); simd_ty = true; cplx = false; is_fp = false }

(** val ty_cfloat : ety **)

let ty_cfloat =
  { tbytes = (Stdlib.Int.succ (Stdlib.Int.succ (Stdlib.Int.succ
    (Stdlib.Int.succ 0)))); simd_ty = true; cplx = true; is_fp = true }

(** val ty_cdouble : ety **)

let ty_cdouble =
  { tbytes = (Stdlib.Int.succ (Stdlib.Int.succ (Stdlib.Int.succ
    (Stdlib.Int.succ (Stdlib.Int.succ (Stdlib.Int.succ (Stdlib.Int.succ
    (Stdlib.Int.succ 0)))))))); simd_ty = true; cplx = true; is_fp = true }

(** val abi_bits : int -> int -> int **)

let abi_bits a tb =
  (fun fO fS n -> if n=0 then fO () else fS (n-1))
    (fun _ ->
    mul tb (Stdlib.Int.succ (Stdlib.Int.succ (Stdlib.Int.succ
      (Stdlib.Int.succ (Stdlib.Int.succ (Stdlib.Int.succ (Stdlib.Int.succ
      (Stdlib.Int.succ 0)))))))))
    (fun n0 ->
    (fun fO fS n -> if n=0 then fO () else fS (n-1))
      (fun _ -> Stdlib.Int.succ (Stdlib.Int.succ (Stdlib.Int.succ
      (Stdlib.Int.succ (Stdlib.Int.succ (Stdlib.Int.succ (Stdlib.Int.succ
      (Stdlib.Int.succ (Stdlib.Int.succ (Stdlib.Int.succ (Stdlib.Int.succ
      (Stdlib.Int.succ (Stdlib.Int.succ (Stdlib.Int.succ (Stdlib.Int.succ
      (Stdlib.Int.succ (Stdlib.Int.succ (Stdlib.Int.succ (Stdlib.Int.succ
      (Stdlib.Int.succ (Stdlib.Int.succ (Stdlib.Int.succ (Stdlib.Int.succ
      (Stdlib.Int.succ (Stdlib.Int.succ (Stdlib.Int.succ (Stdlib.Int.succ
      (Stdlib.Int.succ (Stdlib.Int.succ (Stdlib.Int.succ (Stdlib.Int.succ
      (Stdlib.Int.succ (Stdlib.Int.succ (Stdlib.Int.succ (Stdlib.Int.succ
      (Stdlib.Int.succ (Stdlib.Int.succ (Stdlib.Int.succ (Stdlib.Int.succ
      (Stdlib.Int.succ (Stdlib.Int.succ (Stdlib.Int.succ (Stdlib.Int.succ
      (Stdlib.Int.succ (Stdlib.Int.succ (Stdlib.Int.succ (Stdlib.Int.succ
      (Stdlib.Int.succ (Stdlib.Int.succ (Stdlib.Int.succ (Stdlib.Int.succ
      (Stdlib.Int.succ (Stdlib.Int.succ (Stdlib.Int.succ (Stdlib.Int.succ
      (Stdlib.Int.succ (Stdlib.Int.succ (Stdlib.Int.succ (Stdlib.Int.succ
      (Stdlib.Int.succ (Stdlib.Int.succ (Stdlib.Int.succ (Stdlib.Int.succ
      (Stdlib.Int.succ (Stdlib.Int.succ (Stdlib.Int.succ (Stdlib.Int.succ
      (Stdlib.Int.succ (Stdlib.Int.succ (Stdlib.Int.succ (Stdlib.Int.succ
      (Stdlib.Int.succ (Stdlib.Int.succ (Stdlib.Int.succ (Stdlib.Int.succ
      (Stdlib.Int.succ (Stdlib.Int.succ (Stdlib.Int.succ (Stdlib.Int.succ
      (Stdlib.Int.succ (Stdlib.Int.succ (Stdlib.Int.succ (Stdlib.Int.succ
      (Stdlib.Int.succ (Stdlib.Int.succ (Stdlib.Int.succ (Stdlib.Int.succ
      (Stdlib.Int.succ (Stdlib.Int.succ (Stdlib.Int.succ (Stdlib.Int.succ
      (Stdlib.Int.succ (Stdlib.Int.succ (Stdlib.Int.succ (Stdlib.Int.succ
      (Stdlib.Int.succ (Stdlib.Int.succ (Stdlib.Int.succ (Stdlib.Int.succ
      (Stdlib.Int.succ (Stdlib.Int.succ (Stdlib.Int.succ (Stdlib.Int.succ
      (Stdlib.Int.succ (Stdlib.Int.succ (Stdlib.Int.succ (Stdlib.Int.succ
      (Stdlib.Int.succ (Stdlib.Int.succ (Stdlib.Int.succ (Stdlib.Int.succ
      (Stdlib.Int.succ (Stdlib.Int.succ (Stdlib.Int.succ (Stdlib.Int.succ
      (Stdlib.Int.succ (Stdlib.Int.succ (Stdlib.Int.succ (Stdlib.Int.succ
      (Stdlib.Int.succ (Stdlib.Int.succ (Stdlib.Int.succ (Stdlib.Int.succ
      (Stdlib.Int.succ (Stdlib.Int.succ (Stdlib.Int.succ (Stdlib.Int.succ
      (Stdlib.Int.succ
      0))))))))))))))))))))))))))))))))))))))))))))))))))))))))))))))))))))))))))))))))))))))))))))))))))))))))))))))))))))))))))))))))
      (fun n1 ->
      (fun fO fS n -> if n=0 then fO () else fS (n-1))
        (fun _ -> Stdlib.Int.succ (Stdlib.Int.succ (Stdlib.Int.succ
        (Stdlib.Int.succ (Stdlib.Int.succ (Stdlib.Int.succ (Stdlib.Int.succ
        (Stdlib.Int.succ (Stdlib.Int.succ (Stdlib.Int.succ (Stdlib.Int.succ
        (Stdlib.Int.succ (Stdlib.Int.succ (Stdlib.Int.succ (Stdlib.Int.succ
        (Stdlib.Int.succ (Stdlib.Int.succ (Stdlib.Int.succ (Stdlib.Int.succ
        (Stdlib.Int.succ (Stdlib.Int.succ (Stdlib.Int.succ (Stdlib.Int.succ
        (Stdlib.Int.succ (Stdlib.Int.succ (Stdlib.Int.succ (Stdlib.Int.succ
        (Stdlib.Int.succ (Stdlib.Int.succ (Stdlib.Int.succ (Stdlib.Int.succ
        (Stdlib.Int.succ (Stdlib.Int.succ (Stdlib.Int.succ (Stdlib.Int.succ
        (Stdlib.Int.succ (Stdlib.Int.succ (Stdlib.Int.succ (Stdlib.Int.succ
        (Stdlib.Int.succ (Stdlib.Int.succ (Stdlib.Int.succ (Stdlib.Int.succ
        (Stdlib.Int.succ (Stdlib.Int.succ (Stdlib.Int.succ (Stdlib.Int.succ
        (Stdlib.Int.succ (Stdlib.Int.succ (Stdlib.Int.succ (Stdlib.Int.succ
        (Stdlib.Int.succ (Stdlib.Int.succ (Stdlib.Int.succ (Stdlib.Int.succ
        (Stdlib.Int.succ (Stdlib.Int.succ (Stdlib.Int.succ (Stdlib.Int.succ
        (Stdlib.Int.succ (Stdlib.Int.succ (Stdlib.Int.succ (Stdlib.Int.succ
        (Stdlib.Int.succ (Stdlib.Int.succ (Stdlib.Int.succ (Stdlib.Int.succ
        (Stdlib.Int.succ (Stdlib.Int.succ (Stdlib.Int.succ (Stdlib.Int.succ
        (Stdlib.Int.succ (Stdlib.Int.succ (Stdlib.Int.succ (Stdlib.Int.succ
        (Stdlib.Int.succ (Stdlib.Int.succ (Stdlib.Int.succ (Stdlib.Int.succ
        (Stdlib.Int.succ (Stdlib.Int.succ (Stdlib.Int.succ (Stdlib.Int.succ
        (Stdlib.Int.succ (Stdlib.Int.succ (Stdlib.Int.succ (Stdlib.Int.succ
        (Stdlib.Int.succ (Stdlib.Int.succ (Stdlib.Int.succ (Stdlib.Int.succ
        (Stdlib.Int.succ (Stdlib.Int.succ (Stdlib.Int.succ (Stdlib.Int.succ
        (Stdlib.Int.succ (Stdlib.Int.succ (Stdlib.Int.succ (Stdlib.Int.succ
        (Stdlib.Int.succ (Stdlib.Int.succ (Stdlib.Int.succ (Stdlib.Int.succ
        (Stdlib.Int.succ (Stdlib.Int.succ (Stdlib.Int.succ (Stdlib.Int.succ
        (Stdlib.Int.succ (Stdlib.Int.succ (Stdlib.Int.succ (Stdlib.Int.succ
        (Stdlib.Int.succ (Stdlib.Int.succ (Stdlib.Int.succ (Stdlib.Int.succ
        (Stdlib.Int.succ (Stdlib.Int.succ (Stdlib.Int.succ (Stdlib.Int.succ
        (Stdlib.Int.succ (Stdlib.Int.succ (Stdlib.Int.succ (Stdlib.Int.succ
        (Stdlib.Int.succ (Stdlib.Int.succ (Stdlib.Int.succ (Stdlib.Int.succ
        (Stdlib.Int.succ (Stdlib.Int.succ (Stdlib.Int.succ (Stdlib.Int.succ
        (Stdlib.Int.succ (Stdlib.Int.succ (Stdlib.Int.succ (Stdlib.Int.succ
        (Stdlib.Int.succ (Stdlib.Int.succ (Stdlib.Int.succ (Stdlib.Int.succ
        (Stdlib.Int.succ (Stdlib.Int.succ (Stdlib.Int.succ (Stdlib.Int.succ
        (Stdlib.Int.succ (Stdlib.Int.succ (Stdlib.Int.succ (Stdlib.Int.succ
        (Stdlib.Int.succ (Stdlib.Int.succ (Stdlib.Int.succ (Stdlib.Int.succ
        (Stdlib.Int.succ (Stdlib.Int.succ (Stdlib.Int.succ (Stdlib.Int.succ
        (Stdlib.Int.succ (Stdlib.Int.succ (Stdlib.Int.succ (Stdlib.Int.succ
        (Stdlib.Int.succ (Stdlib.Int.succ (Stdlib.Int.succ (Stdlib.Int.succ
        (Stdlib.Int.succ (Stdlib.Int.succ (Stdlib.Int.succ (Stdlib.Int.succ
        (Stdlib.Int.succ (Stdlib.Int.succ (Stdlib.Int.succ (Stdlib.Int.succ
        (Stdlib.Int.succ (Stdlib.Int.succ (Stdlib.Int.succ (Stdlib.Int.succ
        (Stdlib.Int.succ (Stdlib.Int.succ (Stdlib.Int.succ (Stdlib.Int.succ
        (Stdlib.Int.succ (Stdlib.Int.succ (Stdlib.Int.succ (Stdlib.Int.succ
        (Stdlib.Int.succ (Stdlib.Int.succ (Stdlib.Int.succ (Stdlib.Int.succ
        (Stdlib.Int.succ (Stdlib.Int.succ (Stdlib.Int.succ (Stdlib.Int.succ
        (Stdlib.Int.succ (Stdlib.Int.succ (Stdlib.Int.succ (Stdlib.Int.succ
        (Stdlib.Int.succ (Stdlib.Int.succ (Stdlib.Int.succ (Stdlib.Int.succ
        (Stdlib.Int.succ (Stdlib.Int.succ (Stdlib.Int.succ (Stdlib.Int.succ
        (Stdlib.Int.succ (Stdlib.Int.succ (Stdlib.Int.succ (Stdlib.Int.succ
        (Stdlib.Int.succ (Stdlib.Int.succ (Stdlib.Int.succ (Stdlib.Int.succ
        (Stdlib.Int.succ (Stdlib.Int.succ (Stdlib.Int.succ (Stdlib.Int.succ
        (Stdlib.Int.succ (Stdlib.Int.succ (Stdlib.Int.succ (Stdlib.Int.succ
        (Stdlib.Int.succ (Stdlib.Int.succ (Stdlib.Int.succ (Stdlib.Int.succ
        (Stdlib.Int.succ (Stdlib.Int.succ (Stdlib.Int.succ (Stdlib.Int.succ
        (Stdlib.Int.succ (Stdlib.Int.succ (Stdlib.Int.succ (Stdlib.Int.succ
        (Stdlib.Int.succ (Stdlib.Int.succ (Stdlib.Int.succ (Stdlib.Int.succ
        (Stdlib.Int.succ (Stdlib.Int.succ (Stdlib.Int.succ (Stdlib.Int.succ
        (Stdlib.Int.succ (Stdlib.Int.succ (Stdlib.Int.succ (Stdlib.Int.succ
        (Stdlib.Int.succ (Stdlib.Int.succ (Stdlib.Int.succ (Stdlib.Int.succ
        (Stdlib.Int.succ (Stdlib.Int.succ (Stdlib.Int.succ (Stdlib.Int.succ
        (Stdlib.Int.succ (Stdlib.Int.succ (Stdlib.Int.succ (Stdlib.Int.succ
        (Stdlib.Int.succ
        0))))))))))))))))))))))))))))))))))))))))))))))))))))))))))))))))))))))))))))))))))))))))))))))))))))))))))))))))))))))))))))))))))))))))))))))))))))))))))))))))))))))))))))))))))))))))))))))))))))))))))))))))))))))))))))))))))))))))))))))))))))))))))))))))
        (fun n2 ->
        (fun fO fS n -> if n=0 then fO () else fS (n-1))
          (fun _ -> Stdlib.Int.succ (Stdlib.Int.succ (Stdlib.Int.succ
          (Stdlib.Int.succ (Stdlib.Int.succ (Stdlib.Int.succ (Stdlib.Int.succ
          (Stdlib.Int.succ (Stdlib.Int.succ (Stdlib.Int.succ (Stdlib.Int.succ
          (Stdlib.Int.succ (Stdlib.Int.succ (Stdlib.Int.succ (Stdlib.Int.succ
          (Stdlib.Int.succ (Stdlib.Int.succ (Stdlib.Int.succ (Stdlib.Int.succ
          (Stdlib.Int.succ (Stdlib.Int.succ (Stdlib.Int.succ (Stdlib.Int.succ
          (Stdlib.Int.succ (Stdlib.Int.succ (Stdlib.Int.succ (Stdlib.Int.succ
          (Stdlib.Int.succ (Stdlib.Int.succ (Stdlib.Int.succ (Stdlib.Int.succ
          (Stdlib.Int.succ (Stdlib.Int.succ (Stdlib.Int.succ (Stdlib.Int.succ
          (Stdlib.Int.succ (Stdlib.Int.succ (Stdlib.Int.succ (Stdlib.Int.succ
          (Stdlib.Int.succ (Stdlib.Int.succ (Stdlib.Int.succ (Stdlib.Int.succ
          (Stdlib.Int.succ (Stdlib.Int.succ (Stdlib.Int.succ (Stdlib.Int.succ
          (Stdlib.Int.succ (Stdlib.Int.succ (Stdlib.Int.succ (Stdlib.Int.succ
          (Stdlib.Int.succ (Stdlib.Int.succ (Stdlib.Int.succ (Stdlib.Int.succ
          (Stdlib.Int.succ (Stdlib.Int.succ (Stdlib.Int.succ (Stdlib.Int.succ
          (Stdlib.Int.succ (Stdlib.Int.succ (Stdlib.Int.succ (Stdlib.Int.succ
          (Stdlib.Int.succ (Stdlib.Int.succ (Stdlib.Int.succ (Stdlib.Int.succ
          (Stdlib.Int.succ (Stdlib.Int.succ (Stdlib.Int.succ (Stdlib.Int.succ
          (Stdlib.Int.succ (Stdlib.Int.succ (Stdlib.Int.succ (Stdlib.Int.succ
          (Stdlib.Int.succ (Stdlib.Int.succ (Stdlib.Int.succ (Stdlib.Int.succ
          (Stdlib.Int.succ (Stdlib.Int.succ (Stdlib.Int.succ (Stdlib.Int.succ
          (Stdlib.Int.succ (Stdlib.Int.succ (Stdlib.Int.succ (Stdlib.Int.succ
          (Stdlib.Int.succ (Stdlib.Int.succ (Stdlib.Int.succ (Stdlib.Int.succ
          (Stdlib.Int.succ (Stdlib.Int.succ (Stdlib.Int.succ (Stdlib.Int.succ
          (Stdlib.Int.succ (Stdlib.Int.succ (Stdlib.Int.succ (Stdlib.Int.succ
          (Stdlib.Int.succ (Stdlib.Int.succ (Stdlib.Int.succ (Stdlib.Int.succ
          (Stdlib.Int.succ (Stdlib.Int.succ (Stdlib.Int.succ (Stdlib.Int.succ
          (Stdlib.Int.succ (Stdlib.Int.succ (Stdlib.Int.succ (Stdlib.Int.succ
          (Stdlib.Int.succ (Stdlib.Int.succ (Stdlib.Int.succ (Stdlib.Int.succ
          (Stdlib.Int.succ (Stdlib.Int.succ (Stdlib.Int.succ (Stdlib.Int.succ
          (Stdlib.Int.succ (Stdlib.Int.succ (Stdlib.Int.succ (Stdlib.Int.succ
          (Stdlib.Int.succ (Stdlib.Int.succ (Stdlib.Int.succ (Stdlib.Int.succ
          (Stdlib.Int.succ (Stdlib.Int.succ (Stdlib.Int.succ (Stdlib.Int.succ
          (Stdlib.Int.succ (Stdlib.Int.succ (Stdlib.Int.succ (Stdlib.Int.succ
          (Stdlib.Int.succ (Stdlib.Int.succ (Stdlib.Int.succ (Stdlib.Int.succ
          (Stdlib.Int.succ (Stdlib.Int.succ (Stdlib.Int.succ (Stdlib.Int.succ
          (Stdlib.Int.succ (Stdlib.Int.succ (Stdlib.Int.succ (Stdlib.Int.succ
          (Stdlib.Int.succ (Stdlib.Int.succ (Stdlib.Int.succ (Stdlib.Int.succ
          (Stdlib.Int.succ (Stdlib.Int.succ (Stdlib.Int.succ (Stdlib.Int.succ
          (Stdlib.Int.succ (Stdlib.Int.succ (Stdlib.Int.succ (Stdlib.Int.succ
          (Stdlib.Int.succ (Stdlib.Int.succ (Stdlib.Int.succ (Stdlib.Int.succ
          (Stdlib.Int.succ (Stdlib.Int.succ (Stdlib.Int.succ (Stdlib.Int.succ
          (Stdlib.Int.succ (Stdlib.Int.succ (Stdlib.Int.succ (Stdlib.Int.succ
          (Stdlib.Int.succ (Stdlib.Int.succ (Stdlib.Int.succ (Stdlib.Int.succ
          (Stdlib.Int.succ (Stdlib.Int.succ (Stdlib.Int.succ (Stdlib.Int.succ
          (Stdlib.Int.succ (Stdlib.Int.succ (Stdlib.Int.succ (Stdlib.Int.succ
          (Stdlib.Int.succ (Stdlib.Int.succ (Stdlib.Int.succ (Stdlib.Int.succ
          (Stdlib.Int.succ (Stdlib.Int.succ (Stdlib.Int.succ (Stdlib.Int.succ
          (Stdlib.Int.succ (Stdlib.Int.succ (Stdlib.Int.succ (Stdlib.Int.succ
          (Stdlib.Int.succ (Stdlib.Int.succ (Stdlib.Int.succ (Stdlib.Int.succ
          (Stdlib.Int.succ (Stdlib.Int.succ (Stdlib.Int.succ (Stdlib.Int.succ
          (Stdlib.Int.succ (Stdlib.Int.succ (Stdlib.Int.succ (Stdlib.Int.succ
          (Stdlib.Int.succ (Stdlib.Int.succ (Stdlib.Int.succ (Stdlib.Int.succ
          (Stdlib.Int.succ (Stdlib.Int.succ (Stdlib.Int.succ (Stdlib.Int.succ
          (Stdlib.Int.succ (Stdlib.Int.succ (Stdlib.Int.succ (Stdlib.Int.succ
          (Stdlib.Int.succ (Stdlib.Int.succ (Stdlib.Int.succ (Stdlib.Int.succ
          (Stdlib.Int.succ (Stdlib.Int.succ (Stdlib.Int.succ (Stdlib.Int.succ
          (Stdlib.Int.succ (Stdlib.Int.succ (Stdlib.Int.succ (Stdlib.Int.succ
          (Stdlib.Int.succ (Stdlib.Int.succ (Stdlib.Int.succ (Stdlib.Int.succ
          (Stdlib.Int.succ (Stdlib.Int.succ (Stdlib.Int.succ (Stdlib.Int.succ
          (Stdlib.Int.succ (Stdlib.Int.succ (Stdlib.Int.succ (Stdlib.Int.succ
          (Stdlib.Int.succ (Stdlib.Int.succ (Stdlib.Int.succ (Stdlib.Int.succ
          (Stdlib.Int.succ (Stdlib.Int.succ (Stdlib.Int.succ (Stdlib.Int.succ
          (Stdlib.Int.succ (Stdlib.Int.succ (Stdlib.Int.succ (Stdlib.Int.succ
          (Stdlib.Int.succ (Stdlib.Int.succ (Stdlib.Int.succ (Stdlib.Int.succ
          (Stdlib.Int.succ (Stdlib.Int.succ (Stdlib.Int.succ (Stdlib.Int.succ
          (Stdlib.Int.succ (Stdlib.Int.succ (Stdlib.Int.succ (Stdlib.Int.succ
          (Stdlib.Int.succ (Stdlib.Int.succ (Stdlib.Int.succ (Stdlib.Int.succ
          (Stdlib.Int.succ (Stdlib.Int.succ (Stdlib.Int.succ (Stdlib.Int.succ
          (Stdlib.Int.succ (Stdlib.Int.succ (Stdlib.Int.succ (Stdlib.Int.succ
          (Stdlib.Int.succ (Stdlib.Int.succ (Stdlib.Int.succ (Stdlib.Int.succ
          (Stdlib.Int.succ (Stdlib.Int.succ (Stdlib.Int.succ (Stdlib.Int.succ
          (Stdlib.Int.succ (Stdlib.Int.succ (Stdlib.Int.succ (Stdlib.Int.succ
          (Stdlib.Int.succ (Stdlib.Int.succ (Stdlib.Int.succ (Stdlib.Int.succ
          (Stdlib.Int.succ (Stdlib.Int.succ (Stdlib.Int.succ (Stdlib.Int.succ
          (Stdlib.Int.succ (Stdlib.Int.succ (Stdlib.Int.succ (Stdlib.Int.succ
          (Stdlib.Int.succ (Stdlib.Int.succ (Stdlib.Int.succ (Stdlib.Int.succ
          (Stdlib.Int.succ (Stdlib.Int.succ (Stdlib.Int.succ (Stdlib.Int.succ
          (Stdlib.Int.succ (Stdlib.Int.succ (Stdlib.Int.succ (Stdlib.Int.succ
          (Stdlib.Int.succ (Stdlib.Int.succ (Stdlib.Int.succ (Stdlib.Int.succ
          (Stdlib.Int.succ (Stdlib.Int.succ (Stdlib.Int.succ (Stdlib.Int.succ
          (Stdlib.Int.succ (Stdlib.Int.succ (Stdlib.Int.succ (Stdlib.Int.succ
          (Stdlib.Int.succ (Stdlib.Int.succ (Stdlib.Int.succ (Stdlib.Int.succ
          (Stdlib.Int.succ (Stdlib.Int.succ (Stdlib.Int.succ (Stdlib.Int.succ
          (Stdlib.Int.succ (Stdlib.Int.succ (Stdlib.Int.succ (Stdlib.Int.succ
          (Stdlib.Int.succ (Stdlib.Int.succ (Stdlib.Int.succ (Stdlib.Int.succ
          (Stdlib.Int.succ (Stdlib.Int.succ (Stdlib.Int.succ (Stdlib.Int.succ
          (Stdlib.Int.succ (Stdlib.Int.succ (Stdlib.Int.succ (Stdlib.Int.succ
          (Stdlib.Int.succ (Stdlib.Int.succ (Stdlib.Int.succ (Stdlib.Int.succ
          (Stdlib.Int.succ (Stdlib.Int.succ (Stdlib.Int.succ (Stdlib.Int.succ
          (Stdlib.Int.succ (Stdlib.Int.succ (Stdlib.Int.succ (Stdlib.Int.succ
          (Stdlib.Int.succ (Stdlib.Int.succ (Stdlib.Int.succ (Stdlib.Int.succ
          (Stdlib.Int.succ (Stdlib.Int.succ (Stdlib.Int.succ (Stdlib.Int.succ
          (Stdlib.Int.succ (Stdlib.Int.succ (Stdlib.Int.succ (Stdlib.Int.succ
          (Stdlib.Int.succ (Stdlib.Int.succ (Stdlib.Int.succ (Stdlib.Int.succ
          (Stdlib.Int.succ (Stdlib.Int.succ (Stdlib.Int.succ (Stdlib.Int.succ
          (Stdlib.Int.succ (Stdlib.Int.succ (Stdlib.Int.succ (Stdlib.Int.succ
          (Stdlib.Int.succ (Stdlib.Int.succ (Stdlib.Int.succ (Stdlib.Int.succ
          (Stdlib.Int.succ (Stdlib.Int.succ (Stdlib.Int.succ (Stdlib.Int.succ
          (Stdlib.Int.succ (Stdlib.Int.succ (Stdlib.Int.succ (Stdlib.Int.succ
          (Stdlib.Int.succ (Stdlib.Int.succ (Stdlib.Int.succ (Stdlib.Int.succ
          (Stdlib.Int.succ (Stdlib.Int.succ (Stdlib.Int.succ (Stdlib.Int.succ
          (Stdlib.Int.succ (Stdlib.Int.succ (Stdlib.Int.succ (Stdlib.Int.succ
          (Stdlib.Int.succ (Stdlib.Int.succ (Stdlib.Int.succ (Stdlib.Int.succ
          (Stdlib.Int.succ (Stdlib.Int.succ (Stdlib.Int.succ (Stdlib.Int.succ
          (Stdlib.Int.succ (Stdlib.Int.succ (Stdlib.Int.succ (Stdlib.Int.succ
          (Stdlib.Int.succ (Stdlib.Int.succ (Stdlib.Int.succ (Stdlib.Int.succ
          (Stdlib.Int.succ (Stdlib.Int.succ (Stdlib.Int.succ (Stdlib.Int.succ
          (Stdlib.Int.succ (Stdlib.Int.succ (Stdlib.Int.succ (Stdlib.Int.succ
          (Stdlib.Int.succ (Stdlib.Int.succ (Stdlib.Int.succ (Stdlib.Int.succ
          (Stdlib.Int.succ (Stdlib.Int.succ (Stdlib.Int.succ (Stdlib.Int.succ
          (Stdlib.Int.succ (Stdlib.Int.succ (Stdlib.Int.succ (Stdlib.Int.succ
          (Stdlib.Int.succ (Stdlib.Int.succ (Stdlib.Int.succ (Stdlib.Int.succ
          (Stdlib.Int.succ (Stdlib.Int.succ (Stdlib.Int.succ (Stdlib.Int.succ
          (Stdlib.Int.succ (Stdlib.Int.succ (Stdlib.Int.succ (Stdlib.Int.succ
          (Stdlib.Int.succ (Stdlib.Int.succ (Stdlib.Int.succ (Stdlib.Int.succ
          (Stdlib.Int.succ (Stdlib.Int.succ (Stdlib.Int.succ (Stdlib.Int.succ
          (Stdlib.Int.succ (Stdlib.Int.succ (Stdlib.Int.succ (Stdlib.Int.succ
          (Stdlib.Int.succ (Stdlib.Int.succ (Stdlib.Int.succ (Stdlib.Int.succ
          (Stdlib.Int.succ (Stdlib.Int.succ (Stdlib.Int.succ (Stdlib.Int.succ
          (Stdlib.Int.succ (Stdlib.Int.succ (Stdlib.Int.succ (Stdlib.Int.succ
          (Stdlib.Int.succ (Stdlib.Int.succ (Stdlib.Int.succ (Stdlib.Int.succ
          (Stdlib.Int.succ (Stdlib.Int.succ (Stdlib.Int.succ (Stdlib.Int.succ
          (Stdlib.Int.succ (Stdlib.Int.succ (Stdlib.Int.succ (Stdlib.Int.succ
          (Stdlib.Int.succ (Stdlib.Int.succ (Stdlib.Int.succ (Stdlib.Int.succ
          (Stdlib.Int.succ (Stdlib.Int.succ (Stdlib.Int.succ (Stdlib.Int.succ
          (Stdlib.Int.succ (Stdlib.Int.succ (Stdlib.Int.succ (Stdlib.Int.succ
          (Stdlib.Int.succ (Stdlib.Int.succ (Stdlib.Int.succ (Stdlib.Int.succ
          (Stdlib.Int.succ
          0))))))))))))))))))))))))))))))))))))))))))))))))))))))))))))))))))))))))))))))))))))))))))))))))))))))))))))))))))))))))))))))))))))))))))))))))))))))))))))))))))))))))))))))))))))))))))))))))))))))))))))))))))))))))))))))))))))))))))))))))))))))))))))))))))))))))))))))))))))))))))))))))))))))))))))))))))))))))))))))))))))))))))))))))))))))))))))))))))))))))))))))))))))))))))))))))))))))))))))))))))))))))))))))))))))))))))))))))))))))))))))))))))))))))))))))))))))))))))))))))))))))))))))))))))))))))))))))))
          (fun _ ->
          mul tb (Stdlib.Int.succ (Stdlib.Int.succ (Stdlib.Int.succ
            (Stdlib.Int.succ (Stdlib.Int.succ (Stdlib.Int.succ
            (Stdlib.Int.succ (Stdlib.Int.succ 0)))))))))
          n2)
        n1)
      n0)
    a

(** val simd_size : int -> int -> int **)

let simd_size a tb =
  let v =
    Nat.div (Nat.div (abi_bits a tb) tb) (Stdlib.Int.succ (Stdlib.Int.succ
      (Stdlib.Int.succ (Stdlib.Int.succ (Stdlib.Int.succ (Stdlib.Int.succ
      (Stdlib.Int.succ (Stdlib.Int.succ 0))))))))
  in
  if (=) v 0 then Stdlib.Int.succ 0 else v

(** val which_frac : int -> int -> int -> int **)

let which_frac a tb n0 =
  let q = Nat.div (simd_size a tb) n0 in
  if (=) q (Stdlib.Int.succ (Stdlib.Int.succ 0))
  then Stdlib.Int.succ (Stdlib.Int.succ 0)
  else if (=) q (Stdlib.Int.succ (Stdlib.Int.succ (Stdlib.Int.succ
            (Stdlib.Int.succ 0))))
       then Stdlib.Int.succ (Stdlib.Int.succ (Stdlib.Int.succ
              (Stdlib.Int.succ 0)))
       else Stdlib.Int.succ 0

(** val half_abi : int -> int **)

let half_abi a =
  (fun fO fS n -> if n=0 then fO () else fS (n-1))
    (fun _ -> a)
    (fun n0 ->
    (fun fO fS n -> if n=0 then fO () else fS (n-1))
      (fun _ -> a)
      (fun n1 ->
      (fun fO fS n -> if n=0 then fO () else fS (n-1))
        (fun _ -> Stdlib.Int.succ 0)
        (fun n2 ->
        (fun fO fS n -> if n=0 then fO () else fS (n-1))
          (fun _ -> Stdlib.Int.succ (Stdlib.Int.succ 0))
          (fun _ -> a)
          n2)
        n1)
      n0)
    a

(** val best_abi : cfg -> ety -> int -> int **)

let best_abi c t0 n0 =
  let a = c.abi in
  if negb t0.simd_ty
  then 0
  else let w = which_frac a t0.tbytes n0 in
       let is_exact =
         (&&) (negb ((=) w (Stdlib.Int.succ 0)))
           (negb ((=) a (Stdlib.Int.succ 0)))
       in
       let exact_abi =
         if (||)
              ((&&)
                ((=) a (Stdlib.Int.succ (Stdlib.Int.succ (Stdlib.Int.succ
                  0)))) ((=) w (Stdlib.Int.succ (Stdlib.Int.succ 0))))
              ((&&) ((=) a (Stdlib.Int.succ (Stdlib.Int.succ 0)))
                ((=) w (Stdlib.Int.succ (Stdlib.Int.succ 0))))
         then half_abi a
         else if (&&)
                   ((=) a (Stdlib.Int.succ (Stdlib.Int.succ (Stdlib.Int.succ
                     0))))
                   ((=) w (Stdlib.Int.succ (Stdlib.Int.succ (Stdlib.Int.succ
                     (Stdlib.Int.succ 0)))))
              then Stdlib.Int.succ 0
              else a
       in
       if is_exact
       then exact_abi
       else if c.masks
            then a
            else if Nat.ltb n0 (simd_size a t0.tbytes) then half_abi a else a

(** val best_vsize : cfg -> ety -> int -> int **)

let best_vsize c t0 n0 =
  simd_size (best_abi c t0 n0) t0.tbytes

type buf = int -> t

type vec = int -> t

(** val vbcast : scalar -> t -> vec **)

let vbcast _ x _ =
  x

(** val vzero : scalar -> vec **)

let vzero s _ =
  s.s0

(** val vload : scalar -> buf -> int -> vec **)

let vload _ b off l =
  b (add off l)

(** val vfma : scalar -> vec -> vec -> vec -> vec **)

let vfma s a b c l =
  s.sfma (a l) (b l) (c l)

(** val vmul : scalar -> vec -> vec -> vec **)

let vmul s a b l =
  s.smul (a l) (b l)

type maska_t = int -> bool

(** val make_maska : int -> int -> maska_t **)

let make_maska w rem0 jj =
  negb (Nat.ltb jj (sub w rem0))

(** val lane_on : int -> maska_t -> int -> bool **)

let lane_on w m l =
  (&&) (Nat.ltb l w) (m (sub (sub w (Stdlib.Int.succ 0)) l))

(** val vmaskload : scalar -> int -> maska_t -> buf -> int -> vec **)

let vmaskload s w m b off l =
  if lane_on w m l then b (add off l) else s.s0

type wr = { woff : int; wlen : int; won : (int -> bool); wval : (int -> t) }

(** val apply_wr : scalar -> buf -> wr -> buf **)

let apply_wr _ c w p =
  if (&&) ((&&) ((<=) w.woff p) (Nat.ltb p (add w.woff w.wlen)))
       (w.won (sub p w.woff))
  then w.wval (sub p w.woff)
  else c p

(** val run_wrs : scalar -> buf -> wr list -> buf **)

let run_wrs s c0 ws =
  fold_left (apply_wr s) ws c0

(** val wr_store : scalar -> int -> int -> vec -> wr **)

let wr_store _ off w v =
  { woff = off; wlen = w; won = (fun _ -> true); wval = v }

(** val wr_maskstore : scalar -> int -> maska_t -> int -> vec -> wr **)

let wr_maskstore _ w m off v =
  { woff = off; wlen = w; won = (lane_on w m); wval = v }

(** val wr_store1 : scalar -> int -> t -> wr **)

let wr_store1 _ off x =
  { woff = off; wlen = (Stdlib.Int.succ 0); won = (fun _ -> true); wval =
    (fun _ -> x) }

(** val store : scalar -> buf -> int -> int -> vec -> buf **)

let store s c off w v =
  apply_wr s c (wr_store s off w v)

(** val store1 : scalar -> buf -> int -> t -> buf **)

let store1 s c off x =
  apply_wr s c (wr_store1 s off x)

(** val sum_from : scalar -> int -> int -> (int -> t) -> t -> t **)

let sum_from s lo n0 f init =
  fold_left (fun acc k -> s.sadd acc (f k)) (seq lo n0) init

(** val sum_n : scalar -> (int -> t) -> int -> t **)

let sum_n s f n0 =
  sum_from s 0 n0 f s.s0

(** val dot_fma :
    scalar -> int -> int -> (int -> t) -> (int -> t) -> t -> t **)

let dot_fma s lo n0 a b init =
  fold_left (fun acc k -> s.sfma (a k) (b k) acc) (seq lo n0) init

(** val dot_mf : scalar -> int -> (int -> t) -> (int -> t) -> t **)

let dot_mf s k a b =
  dot_fma s (Stdlib.Int.succ 0) (sub k (Stdlib.Int.succ 0)) a b
    (s.smul (a 0) (b 0))

(** val dot_plain : scalar -> int -> (int -> t) -> (int -> t) -> t **)

let dot_plain s k a b =
  sum_from s 0 k (fun k0 -> s.smul (a k0) (b k0)) s.s0

(** val vacc_from :
    scalar -> int -> int -> (int -> t) -> (int -> int -> t) -> (int -> t) ->
    int -> t **)

let vacc_from s lo n0 av bv init =
  fold_left (fun acc k -> vfma s (vbcast s (av k)) (bv k) acc) (seq lo n0)
    init

(** val loop_starts : int -> int -> int -> int list **)

let loop_starts lo hi step =
  map (fun t0 -> add lo (mul t0 step))
    (seq 0 (Nat.div (sub (add (sub hi lo) step) (Stdlib.Int.succ 0)) step))

type ckind =
| CVec
| CScal
| CMask of int

(** val col_tiles : int -> int -> int -> bool -> (int * ckind) list **)

let col_tiles w nb n0 masked =
  let n1 = mul (Nat.div n0 (mul nb w)) (mul nb w) in
  let n2 = mul (Nat.div n0 w) w in
  app
    (flat_map (fun j -> map (fun v -> ((add j (mul v w)), CVec)) (seq 0 nb))
      (loop_starts 0 n1 (mul nb w)))
    (app (map (fun j -> (j, CVec)) (loop_starts n1 n2 w))
      (if masked
       then map (fun j -> (j, (CMask (sub n0 n2))))
              (loop_starts n2 n0 (sub n0 n2))
       else map (fun j -> (j, CScal)) (loop_starts n2 n0 (Stdlib.Int.succ 0))))

(** val row_tiles : int -> int -> int -> int list **)

let row_tiles rB r4 m =
  let m0 = mul (Nat.div m rB) rB in
  let m1 = mul (Nat.div m r4) r4 in
  app (flat_map (fun i -> seq i rB) (loop_starts 0 m0 rB))
    (app (flat_map (fun i -> seq i r4) (loop_starts m0 m1 r4))
      (seq m1 (sub m m1)))

(** val tile_wr :
    scalar -> int -> int -> int -> bool -> (int -> t) -> (int -> t) -> int ->
    (int * ckind) -> wr **)

let tile_wr s w k n0 mulfirst a b r = function
| (j, k0) ->
  let av = fun kk -> a (add (mul r k) kk) in
  (match k0 with
   | CVec ->
     let bv = fun kk -> vload s b (add (mul kk n0) j) in
     wr_store s (add (mul r n0) j) w
       (if mulfirst
        then vacc_from s (Stdlib.Int.succ 0) (sub k (Stdlib.Int.succ 0)) av
               bv (vmul s (vbcast s (av 0)) (bv 0))
        else vacc_from s 0 k av bv (vzero s))
   | CScal ->
     wr_store1 s (add (mul r n0) j)
       (if mulfirst
        then dot_mf s k av (fun kk -> b (add (mul kk n0) j))
        else dot_plain s k av (fun kk -> b (add (mul kk n0) j)))
   | CMask rem0 ->
     let m = make_maska w rem0 in
     let bv = fun kk -> vmaskload s w m b (add (mul kk n0) j) in
     wr_maskstore s w m (add (mul r n0) j)
       (if mulfirst
        then vacc_from s (Stdlib.Int.succ 0) (sub k (Stdlib.Int.succ 0)) av
               bv (vmul s (vbcast s (av 0)) (bv 0))
        else vacc_from s 0 k av bv (vzero s)))

(** val tiled_wrs :
    scalar -> int -> int -> int -> bool -> int list -> (int * ckind) list ->
    (int -> t) -> (int -> t) -> wr list **)

let tiled_wrs s w k n0 mulfirst rows cols a b =
  flat_map (fun r -> map (tile_wr s w k n0 mulfirst a b r) cols) rows

type kernel =
| KNaive
| KMatVec
| KSmallN
| KBase
| KBaseMasked
| KTiny
| KShuffle

(** val num_simd_rows : cfg -> int -> int -> int **)

let num_simd_rows c w m =
  if (=) c.outer_block 0
  then if (=)
            (Nat.modulo m (Stdlib.Int.succ (Stdlib.Int.succ (Stdlib.Int.succ
              (Stdlib.Int.succ (Stdlib.Int.succ (Stdlib.Int.succ
              (Stdlib.Int.succ (Stdlib.Int.succ (Stdlib.Int.succ
              (Stdlib.Int.succ (Stdlib.Int.succ (Stdlib.Int.succ
              0))))))))))))) 0
       then Stdlib.Int.succ (Stdlib.Int.succ (Stdlib.Int.succ 0))
       else if Nat.ltb m (mul (Stdlib.Int.succ (Stdlib.Int.succ 0)) w)
            then Stdlib.Int.succ 0
            else Stdlib.Int.succ (Stdlib.Int.succ 0)
  else c.outer_block

(** val num_simd_cols : cfg -> int -> int -> int -> int **)

let num_simd_cols c w m n0 =
  if (=) c.inner_block 0
  then if (&&)
            ((&&)
              ((=)
                (Nat.modulo n0
                  (mul w (Stdlib.Int.succ (Stdlib.Int.succ (Stdlib.Int.succ
                    0))))) 0)
              ((=)
                (Nat.modulo m
                  (mul w (Stdlib.Int.succ (Stdlib.Int.succ (Stdlib.Int.succ
                    0))))) 0))
            (Nat.ltb (Stdlib.Int.succ (Stdlib.Int.succ (Stdlib.Int.succ
              (Stdlib.Int.succ (Stdlib.Int.succ (Stdlib.Int.succ
              (Stdlib.Int.succ (Stdlib.Int.succ (Stdlib.Int.succ
              (Stdlib.Int.succ (Stdlib.Int.succ (Stdlib.Int.succ
              (Stdlib.Int.succ (Stdlib.Int.succ (Stdlib.Int.succ
              (Stdlib.Int.succ (Stdlib.Int.succ (Stdlib.Int.succ
              (Stdlib.Int.succ (Stdlib.Int.succ (Stdlib.Int.succ
              (Stdlib.Int.succ (Stdlib.Int.succ (Stdlib.Int.succ
              0)))))))))))))))))))))))) n0)
       then Stdlib.Int.succ (Stdlib.Int.succ (Stdlib.Int.succ 0))
       else Stdlib.Int.succ (Stdlib.Int.succ 0)
  else c.inner_block

(** val smalln_unroll : int -> int **)

let smalln_unroll nv =
  (fun fO fS n -> if n=0 then fO () else fS (n-1))
    (fun _ -> Stdlib.Int.succ (Stdlib.Int.succ (Stdlib.Int.succ
    (Stdlib.Int.succ (Stdlib.Int.succ (Stdlib.Int.succ (Stdlib.Int.succ
    (Stdlib.Int.succ (Stdlib.Int.succ (Stdlib.Int.succ 0))))))))))
    (fun n0 ->
    (fun fO fS n -> if n=0 then fO () else fS (n-1))
      (fun _ -> Stdlib.Int.succ (Stdlib.Int.succ (Stdlib.Int.succ
      (Stdlib.Int.succ (Stdlib.Int.succ (Stdlib.Int.succ (Stdlib.Int.succ
      (Stdlib.Int.succ (Stdlib.Int.succ (Stdlib.Int.succ
      0))))))))))
      (fun n1 ->
      (fun fO fS n -> if n=0 then fO () else fS (n-1))
        (fun _ -> Stdlib.Int.succ (Stdlib.Int.succ (Stdlib.Int.succ
        (Stdlib.Int.succ (Stdlib.Int.succ 0)))))
        (fun n2 ->
        (fun fO fS n -> if n=0 then fO () else fS (n-1))
          (fun _ -> Stdlib.Int.succ (Stdlib.Int.succ (Stdlib.Int.succ
          (Stdlib.Int.succ 0))))
          (fun n3 ->
          (fun fO fS n -> if n=0 then fO () else fS (n-1))
            (fun _ -> Stdlib.Int.succ (Stdlib.Int.succ (Stdlib.Int.succ
            0)))
            (fun _ -> Stdlib.Int.succ (Stdlib.Int.succ 0))
            n3)
          n2)
        n1)
      n0)
    nv

(** val all_scalar_cols : int -> (int * ckind) list **)

let all_scalar_cols n0 =
  map (fun j -> (j, CScal)) (seq 0 n0)

(** val dispatch : cfg -> ety -> int -> int -> int -> kernel **)

let dispatch c t0 m k n0 =
  let w = best_vsize c t0 n0 in
  if (&&)
       ((&&) ((&&) ((&&) t0.is_fp (negb t0.cplx)) (negb ((=) m k)))
         ((=) m n0))
       ((||)
         ((||)
           ((||) ((=) m (Stdlib.Int.succ (Stdlib.Int.succ 0)))
             ((=) m (Stdlib.Int.succ (Stdlib.Int.succ (Stdlib.Int.succ 0)))))
           ((=) m (Stdlib.Int.succ (Stdlib.Int.succ (Stdlib.Int.succ
             (Stdlib.Int.succ 0))))))
         ((=) m (Stdlib.Int.succ (Stdlib.Int.succ (Stdlib.Int.succ
           (Stdlib.Int.succ (Stdlib.Int.succ (Stdlib.Int.succ
           (Stdlib.Int.succ (Stdlib.Int.succ 0))))))))))
  then KShuffle
  else if t0.cplx
       then KNaive
       else if (=) n0 (Stdlib.Int.succ 0)
            then KMatVec
            else if (&&)
                      ((||)
                        ((||)
                          ((||)
                            ((||) ((=) n0 w)
                              ((=) n0
                                (mul (Stdlib.Int.succ (Stdlib.Int.succ 0)) w)))
                            ((=) n0
                              (mul (Stdlib.Int.succ (Stdlib.Int.succ
                                (Stdlib.Int.succ 0))) w)))
                          ((=) n0
                            (mul (Stdlib.Int.succ (Stdlib.Int.succ
                              (Stdlib.Int.succ (Stdlib.Int.succ 0)))) w)))
                        ((=) n0
                          (mul (Stdlib.Int.succ (Stdlib.Int.succ
                            (Stdlib.Int.succ (Stdlib.Int.succ
                            (Stdlib.Int.succ 0))))) w)))
                      (negb ((=) w (Stdlib.Int.succ 0)))
                 then KSmallN
                 else if (&&) c.masks
                           (Nat.ltb n0
                             (mul (Stdlib.Int.succ (Stdlib.Int.succ
                               (Stdlib.Int.succ (Stdlib.Int.succ
                               (Stdlib.Int.succ 0))))) w))
                      then KSmallN
                      else if c.masks
                           then if (&&)
                                     (Nat.ltb (Stdlib.Int.succ
                                       (Stdlib.Int.succ (Stdlib.Int.succ
                                       (Stdlib.Int.succ (Stdlib.Int.succ
                                       (Stdlib.Int.succ (Stdlib.Int.succ
                                       (Stdlib.Int.succ (Stdlib.Int.succ
                                       (Stdlib.Int.succ (Stdlib.Int.succ
                                       (Stdlib.Int.succ (Stdlib.Int.succ
                                       (Stdlib.Int.succ (Stdlib.Int.succ
                                       (Stdlib.Int.succ (Stdlib.Int.succ
                                       (Stdlib.Int.succ (Stdlib.Int.succ
                                       (Stdlib.Int.succ (Stdlib.Int.succ
                                       (Stdlib.Int.succ (Stdlib.Int.succ
                                       (Stdlib.Int.succ (Stdlib.Int.succ
                                       (Stdlib.Int.succ (Stdlib.Int.succ
                                       0)))))))))))))))))))))))))))
                                       (mul (mul m n0) k))
                                     ((<=) (Nat.modulo n0 w) (Stdlib.Int.succ
                                       0))
                                then KBase
                                else if Nat.ltb (Stdlib.Int.succ
                                          (Stdlib.Int.succ (Stdlib.Int.succ
                                          (Stdlib.Int.succ (Stdlib.Int.succ
                                          (Stdlib.Int.succ (Stdlib.Int.succ
                                          (Stdlib.Int.succ (Stdlib.Int.succ
                                          (Stdlib.Int.succ (Stdlib.Int.succ
                                          (Stdlib.Int.succ (Stdlib.Int.succ
                                          (Stdlib.Int.succ (Stdlib.Int.succ
                                          (Stdlib.Int.succ (Stdlib.Int.succ
                                          (Stdlib.Int.succ (Stdlib.Int.succ
                                          (Stdlib.Int.succ (Stdlib.Int.succ
                                          (Stdlib.Int.succ (Stdlib.Int.succ
                                          (Stdlib.Int.succ (Stdlib.Int.succ
                                          (Stdlib.Int.succ (Stdlib.Int.succ
                                          0)))))))))))))))))))))))))))
                                          (mul (mul m n0) k)
                                     then KBaseMasked
                                     else KTiny
                           else if Nat.ltb (Stdlib.Int.succ (Stdlib.Int.succ
                                     (Stdlib.Int.succ (Stdlib.Int.succ
                                     (Stdlib.Int.succ (Stdlib.Int.succ
                                     (Stdlib.Int.succ (Stdlib.Int.succ
                                     (Stdlib.Int.succ (Stdlib.Int.succ
                                     (Stdlib.Int.succ (Stdlib.Int.succ
                                     (Stdlib.Int.succ (Stdlib.Int.succ
                                     (Stdlib.Int.succ (Stdlib.Int.succ
                                     (Stdlib.Int.succ (Stdlib.Int.succ
                                     (Stdlib.Int.succ (Stdlib.Int.succ
                                     (Stdlib.Int.succ (Stdlib.Int.succ
                                     (Stdlib.Int.succ (Stdlib.Int.succ
                                     (Stdlib.Int.succ (Stdlib.Int.succ
                                     (Stdlib.Int.succ
                                     0)))))))))))))))))))))))))))
                                     (mul (mul m n0) k)
                                then KBase
                                else KTiny

(** val kernel_wrs :
    scalar -> cfg -> ety -> kernel -> int -> int -> int -> (int -> t) -> (int
    -> t) -> wr list **)

let kernel_wrs s c t0 k m k0 n0 a b =
  let w = best_vsize c t0 n0 in
  (match k with
   | KSmallN ->
     let nv = Nat.div (sub (add n0 w) (Stdlib.Int.succ 0)) w in
     tiled_wrs s w k0 n0 true
       (row_tiles (smalln_unroll nv) (Stdlib.Int.succ 0) m)
       (col_tiles w (Stdlib.Int.succ 0) n0 true) a b
   | KBase ->
     tiled_wrs s w k0 n0 false
       (row_tiles
         (mul (num_simd_rows c w m) (Stdlib.Int.succ (Stdlib.Int.succ
           (Stdlib.Int.succ (Stdlib.Int.succ 0))))) (Stdlib.Int.succ
         (Stdlib.Int.succ (Stdlib.Int.succ (Stdlib.Int.succ 0)))) m)
       (col_tiles w (num_simd_cols c w m n0) n0 false) a b
   | KBaseMasked ->
     tiled_wrs s w k0 n0 false
       (row_tiles
         (mul (num_simd_rows c w m) (Stdlib.Int.succ (Stdlib.Int.succ
           (Stdlib.Int.succ (Stdlib.Int.succ 0))))) (Stdlib.Int.succ
         (Stdlib.Int.succ (Stdlib.Int.succ (Stdlib.Int.succ 0)))) m)
       (col_tiles w (num_simd_cols c w m n0) n0 true) a b
   | KTiny ->
     tiled_wrs s w k0 n0 false (seq 0 m)
       (col_tiles w (Stdlib.Int.succ 0) n0 false) a b
   | _ ->
     tiled_wrs s (Stdlib.Int.succ 0) k0 n0 false (seq 0 m)
       (all_scalar_cols n0) a b)

(** val matmul :
    scalar -> cfg -> ety -> int -> int -> int -> (int -> t) -> (int -> t) ->
    (int -> t) -> int -> t **)

let matmul s c t0 m k n0 a b c0 =
  run_wrs s c0 (kernel_wrs s c t0 (dispatch c t0 m k n0) m k n0 a b)

(** val tG : int **)

let tG =
  0

(** val tL : int **)

let tL =
  Stdlib.Int.succ 0

(** val tU : int **)

let tU =
  Stdlib.Int.succ (Stdlib.Int.succ 0)

(** val find_kfirst : int -> int -> int -> int -> int **)

let find_kfirst tl tr i j =
  if (||) ((=) tl tL) ((=) tl tG)
  then if (=) tr tL then j else 0
  else if (=) tl tU then if (=) tr tL then Nat.max i j else i else 0

(** val find_klast : int -> int -> int -> int -> int -> int -> int -> int **)

let find_klast tl tr k r c i j =
  if (=) tl tL
  then if (=) tr tU
       then Nat.min (Nat.min (add i r) (add j c)) k
       else Nat.min (add i r) k
  else if (||) ((=) tl tU) ((=) tl tG)
       then if (=) tr tU then Nat.min (add j c) k else k
       else k

type btile = { bt_rows : int list; bt_cols : (int * ckind) list; bt_i : 
               int; bt_R : int; bt_j : int; bt_C : int; bt_tagged : bool }

(** val bt_kfirst : int -> int -> btile -> int **)

let bt_kfirst tl tr t0 =
  if t0.bt_tagged then find_kfirst tl tr t0.bt_i t0.bt_j else 0

(** val bt_klast : int -> int -> int -> btile -> int **)

let bt_klast tl tr k t0 =
  if t0.bt_tagged
  then find_klast tl tr k t0.bt_R t0.bt_C t0.bt_i t0.bt_j
  else k

(** val ttile_wr :
    scalar -> int -> int -> int -> (int -> t) -> (int -> t) -> int -> int ->
    int -> (int * ckind) -> wr **)

let ttile_wr s w k n0 a b kf kl r = function
| (j, k0) ->
  let av = fun kk -> a (add (mul r k) kk) in
  (match k0 with
   | CVec ->
     wr_store s (add (mul r n0) j) w
       (vacc_from s kf (sub kl kf) av (fun kk ->
         vload s b (add (mul kk n0) j)) (vzero s))
   | CScal ->
     wr_store1 s (add (mul r n0) j)
       (sum_from s kf (sub kl kf) (fun kk ->
         s.smul (av kk) (b (add (mul kk n0) j))) s.s0)
   | CMask rem0 ->
     let m = make_maska w rem0 in
     wr_maskstore s w m (add (mul r n0) j)
       (vacc_from s kf (sub kl kf) av (fun kk ->
         vmaskload s w m b (add (mul kk n0) j)) (vzero s)))

(** val btile_wrs :
    scalar -> int -> int -> int -> int -> int -> (int -> t) -> (int -> t) ->
    btile -> wr list **)

let btile_wrs s w k n0 tl tr a b t0 =
  let kf = bt_kfirst tl tr t0 in
  let kl = bt_klast tl tr k t0 in
  flat_map (fun r -> map (ttile_wr s w k n0 a b kf kl r) t0.bt_cols)
    t0.bt_rows

(** val col_blocks :
    int -> int -> int -> bool -> bool -> bool -> bool -> int list -> int ->
    int -> btile list **)

let col_blocks w nc n0 masked tag0 tag1 tagm rows i r =
  let n1 = mul (Nat.div n0 (mul nc w)) (mul nc w) in
  let n2 = mul (Nat.div n0 w) w in
  app
    (map (fun j -> { bt_rows = rows; bt_cols =
      (map (fun v -> ((add j (mul v w)), CVec)) (seq 0 nc)); bt_i = i; bt_R =
      r; bt_j = j; bt_C = (mul nc w); bt_tagged = tag0 })
      (loop_starts 0 n1 (mul nc w)))
    (app
      (map (fun j -> { bt_rows = rows; bt_cols = ((j, CVec) :: []); bt_i = i;
        bt_R = r; bt_j = j; bt_C = w; bt_tagged = tag1 })
        (loop_starts n1 n2 w))
      (if masked
       then map (fun j -> { bt_rows = rows; bt_cols = ((j, (CMask
              (sub n0 n2))) :: []); bt_i = i; bt_R = r; bt_j = j; bt_C = w;
              bt_tagged = tagm }) (loop_starts n2 n0 (sub n0 n2))
       else map (fun j -> { bt_rows = rows; bt_cols = ((j, CScal) :: []);
              bt_i = i; bt_R = r; bt_j = j; bt_C = (Stdlib.Int.succ 0);
              bt_tagged = tagm }) (loop_starts n2 n0 (Stdlib.Int.succ 0))))

(** val tmatmul_tiles : cfg -> ety -> bool -> int -> int -> btile list **)

let tmatmul_tiles c t0 masked m n0 =
  let w = best_vsize c t0 n0 in
  let nr = num_simd_rows c w m in
  let nc = num_simd_cols c w m n0 in
  let rB =
    mul nr (Stdlib.Int.succ (Stdlib.Int.succ (Stdlib.Int.succ
      (Stdlib.Int.succ 0))))
  in
  let m0 = mul (Nat.div m rB) rB in
  let m1 =
    mul
      (Nat.div m (Stdlib.Int.succ (Stdlib.Int.succ (Stdlib.Int.succ
        (Stdlib.Int.succ 0))))) (Stdlib.Int.succ (Stdlib.Int.succ
      (Stdlib.Int.succ (Stdlib.Int.succ 0))))
  in
  app
    (flat_map (fun i ->
      col_blocks w nc n0 masked (negb masked) (negb masked) (negb masked)
        (seq i rB) i rB) (loop_starts 0 m0 rB))
    (app
      (flat_map (fun i ->
        col_blocks w nc n0 masked (negb masked) true true
          (seq i (Stdlib.Int.succ (Stdlib.Int.succ (Stdlib.Int.succ
            (Stdlib.Int.succ 0))))) i (Stdlib.Int.succ (Stdlib.Int.succ
          (Stdlib.Int.succ (Stdlib.Int.succ 0)))))
        (loop_starts m0 m1 (Stdlib.Int.succ (Stdlib.Int.succ (Stdlib.Int.succ
          (Stdlib.Int.succ 0))))))
      (col_blocks w nc n0 masked false false false (seq m1 (sub m m1)) m1
        (sub m m1)))

(** val tmatmul_masked : cfg -> ety -> int -> bool **)

let tmatmul_masked c t0 n0 =
  (&&) c.masks
    (negb ((<=) (Nat.modulo n0 (best_vsize c t0 n0)) (Stdlib.Int.succ 0)))

(** val tmatmul_naive_tiles : int -> int -> btile list **)

let tmatmul_naive_tiles m n0 =
  flat_map (fun i ->
    map (fun j -> { bt_rows = (i :: []); bt_cols = ((j, CScal) :: []); bt_i =
      i; bt_R = (Stdlib.Int.succ 0); bt_j = j; bt_C = (Stdlib.Int.succ 0);
      bt_tagged = true }) (seq 0 n0)) (seq 0 m)

(** val tmatmul_wrs :
    scalar -> cfg -> ety -> int -> int -> int -> int -> int -> (int -> t) ->
    (int -> t) -> wr list **)

let tmatmul_wrs s c t0 tl tr m k n0 a b =
  let w = if t0.cplx then Stdlib.Int.succ 0 else best_vsize c t0 n0 in
  let tiles =
    if t0.cplx
    then tmatmul_naive_tiles m n0
    else tmatmul_tiles c t0 (tmatmul_masked c t0 n0) m n0
  in
  flat_map (btile_wrs s w k n0 tl tr a b) tiles

(** val tmatmul :
    scalar -> cfg -> ety -> int -> int -> int -> int -> int -> (int -> t) ->
    (int -> t) -> (int -> t) -> int -> t **)

let tmatmul s c t0 tl tr m k n0 a b c0 =
  run_wrs s c0 (tmatmul_wrs s c t0 tl tr m k n0 a b)

type sops = { s_un : (int -> t -> t); s_bin : (int -> t -> t -> t) }

type vops = { v_un : (int -> vec -> vec); v_bin : (int -> vec -> vec -> vec) }

type expr =
| ELeaf of int
| EConst of t
| EUn of int * expr
| EBin of int * expr * expr

type mem = int -> buf

(** val eval_s : scalar -> sops -> mem -> expr -> int -> t **)

let rec eval_s s o m e i =
  match e with
  | ELeaf k -> m k i
  | EConst c -> c
  | EUn (op, e1) -> o.s_un op (eval_s s o m e1 i)
  | EBin (op, e1, e2) -> o.s_bin op (eval_s s o m e1 i) (eval_s s o m e2 i)

(** val eval_v : scalar -> vops -> mem -> expr -> int -> vec **)

let rec eval_v s v m e i =
  match e with
  | ELeaf k -> vload s (m k) i
  | EConst c -> vbcast s c
  | EUn (op, e1) -> v.v_un op (eval_v s v m e1 i)
  | EBin (op, e1, e2) -> v.v_bin op (eval_v s v m e1 i) (eval_v s v m e2 i)

(** val upd : scalar -> mem -> int -> buf -> mem **)

let upd _ m d b k =
  if (=) k d then b else m k

(** val step_vec :
    scalar -> sops -> vops -> int -> int -> int option -> expr -> mem -> int
    -> mem **)

let step_vec s _ v w d aop e m i =
  let rhs = eval_v s v m e i in
  let val0 =
    match aop with
    | Some op -> v.v_bin op (vload s (m d) i) rhs
    | None -> rhs
  in
  upd s m d (store s (m d) i w val0)

(** val step_scal :
    scalar -> sops -> int -> int option -> expr -> mem -> int -> mem **)

let step_scal s o d aop e m i =
  let rhs = eval_s s o m e i in
  let val0 = match aop with
             | Some op -> o.s_bin op (m d i) rhs
             | None -> rhs in
  upd s m d (store1 s (m d) i val0)

(** val assign :
    scalar -> sops -> vops -> int -> int -> int -> bool -> int option -> expr
    -> mem -> mem **)

let assign s o v w d n0 boolean aop e m =
  if boolean
  then fold_left (step_scal s o d aop e) (seq 0 n0) m
  else let n1 = mul (Nat.div n0 w) w in
       fold_left (step_scal s o d aop e) (seq n1 (sub n0 n1))
         (fold_left (step_vec s o v w d aop e) (loop_starts 0 n1 w) m)

(** val vops_of : scalar -> sops -> vops **)

let vops_of _ o =
  { v_un = (fun op a l -> o.s_un op (a l)); v_bin = (fun op a b l ->
    o.s_bin op (a l) (b l)) }

(** val b2z : bool -> z **)

let b2z = function
| true -> Zpos XH
| false -> Z0

(** val int_un : z -> int -> z -> z **)

let int_un bits op x =
  (fun fO fS n -> if n=0 then fO () else fS (n-1))
    (fun _ -> wrap bits (Z.opp x))
    (fun n0 ->
    (fun fO fS n -> if n=0 then fO () else fS (n-1))
      (fun _ -> wrap bits (Z.abs x))
      (fun n1 ->
      (fun fO fS n -> if n=0 then fO () else fS (n-1))
        (fun _ -> b2z (Z.eqb x Z0))
        (fun _ -> x)
        n1)
      n0)
    op

(** val int_bin : z -> int -> z -> z -> z **)

let int_bin bits op x y =
  (fun fO fS n -> if n=0 then fO () else fS (n-1))
    (fun _ -> wrap bits (Z.add x y))
    (fun n0 ->
    (fun fO fS n -> if n=0 then fO () else fS (n-1))
      (fun _ -> wrap bits (Z.sub x y))
      (fun n1 ->
      (fun fO fS n -> if n=0 then fO () else fS (n-1))
        (fun _ -> wrap bits (Z.mul x y))
        (fun n2 ->
        (fun fO fS n -> if n=0 then fO () else fS (n-1))
          (fun _ -> wrap bits (Z.quot x y))
          (fun n3 ->
          (fun fO fS n -> if n=0 then fO () else fS (n-1))
            (fun _ -> Z.min x y)
            (fun n4 ->
            (fun fO fS n -> if n=0 then fO () else fS (n-1))
              (fun _ -> Z.max x y)
              (fun n5 ->
              (fun fO fS n -> if n=0 then fO () else fS (n-1))
                (fun _ -> b2z (Z.ltb x y))
                (fun n6 ->
                (fun fO fS n -> if n=0 then fO () else fS (n-1))
                  (fun _ -> b2z (Z.ltb y x))
                  (fun n7 ->
                  (fun fO fS n -> if n=0 then fO () else fS (n-1))
                    (fun _ -> b2z (Z.leb x y))
                    (fun n8 ->
                    (fun fO fS n -> if n=0 then fO () else fS (n-1))
                      (fun _ -> b2z (Z.leb y x))
                      (fun n9 ->
                      (fun fO fS n -> if n=0 then fO () else fS (n-1))
                        (fun _ -> b2z (Z.eqb x y))
                        (fun n10 ->
                        (fun fO fS n -> if n=0 then fO () else fS (n-1))
                          (fun _ -> b2z (negb (Z.eqb x y)))
                          (fun n11 ->
                          (fun fO fS n -> if n=0 then fO () else fS (n-1))
                            (fun _ ->
                            b2z ((&&) (negb (Z.eqb x Z0)) (negb (Z.eqb y Z0))))
                            (fun n12 ->
                            (fun fO fS n -> if n=0 then fO () else fS (n-1))
                              (fun _ ->
                              b2z
                                ((||) (negb (Z.eqb x Z0)) (negb (Z.eqb y Z0))))
                              (fun _ -> x)
                              n12)
                            n11)
                          n10)
                        n9)
                      n8)
                    n7)
                  n6)
                n5)
              n4)
            n3)
          n2)
        n1)
      n0)
    op

(** val int_sops : z -> sops **)

let int_sops bits =
  { s_un = (Obj.magic int_un bits); s_bin = (Obj.magic int_bin bits) }

(** val lane_acc :
    ('a1 -> 'a1 -> 'a1) -> 'a1 -> int -> (int -> 'a1) -> int -> int -> 'a1 **)

let rec lane_acc op seed w f c x =
  (fun fO fS n -> if n=0 then fO () else fS (n-1))
    (fun _ -> seed)
    (fun c' -> op (lane_acc op seed w f c' x) (f (add (mul c' w) x)))
    c

(** val hfold : ('a1 -> 'a1 -> 'a1) -> int -> (int -> 'a1) -> 'a1 **)

let hfold op w v =
  fold_left op (map v (seq (Stdlib.Int.succ 0) (sub w (Stdlib.Int.succ 0))))
    (v 0)

(** val reduce :
    ('a1 -> 'a1 -> 'a1) -> 'a1 -> int -> int -> (int -> 'a1) -> 'a1 **)

let reduce op seed w n0 f =
  let c = Nat.div n0 w in
  let scal = fold_left op (map f (seq (mul c w) (sub n0 (mul c w)))) seed in
  op (hfold op w (lane_acc op seed w f c)) scal

(** val all_of_loop : (int -> bool) -> int -> int -> bool **)

let rec all_of_loop f i n0 =
  (fun fO fS n -> if n=0 then fO () else fS (n-1))
    (fun _ -> true)
    (fun n' -> if f i then all_of_loop f (Stdlib.Int.succ i) n' else false)
    n0

(** val any_of_loop : (int -> bool) -> int -> int -> bool **)

let rec any_of_loop f i n0 =
  (fun fO fS n -> if n=0 then fO () else fS (n-1))
    (fun _ -> false)
    (fun n' -> if f i then true else any_of_loop f (Stdlib.Int.succ i) n')
    n0

(** val all_of : (int -> bool) -> int -> bool **)

let all_of f n0 =
  all_of_loop f 0 n0

(** val any_of : (int -> bool) -> int -> bool **)

let any_of f n0 =
  any_of_loop f 0 n0

(** val none_of : (int -> bool) -> int -> bool **)

let none_of f n0 =
  any_of_loop f 0 n0

(** val det2 : (int -> z) -> z **)

let det2 a =
  Z.sub
    (Z.mul (a 0) (a (Stdlib.Int.succ (Stdlib.Int.succ (Stdlib.Int.succ 0)))))
    (Z.mul (a (Stdlib.Int.succ 0)) (a (Stdlib.Int.succ (Stdlib.Int.succ 0))))

(** val det3 : (int -> z) -> z **)

let det3 a =
  Z.sub
    (Z.sub
      (Z.sub
        (Z.add
          (Z.add
            (Z.mul
              (Z.mul (a 0)
                (a (Stdlib.Int.succ (Stdlib.Int.succ (Stdlib.Int.succ
                  (Stdlib.Int.succ 0))))))
              (a (Stdlib.Int.succ (Stdlib.Int.succ (Stdlib.Int.succ
                (Stdlib.Int.succ (Stdlib.Int.succ (Stdlib.Int.succ
                (Stdlib.Int.succ (Stdlib.Int.succ 0))))))))))
            (Z.mul
              (Z.mul (a (Stdlib.Int.succ 0))
                (a (Stdlib.Int.succ (Stdlib.Int.succ (Stdlib.Int.succ
                  (Stdlib.Int.succ (Stdlib.Int.succ 0)))))))
              (a (Stdlib.Int.succ (Stdlib.Int.succ (Stdlib.Int.succ
                (Stdlib.Int.succ (Stdlib.Int.succ (Stdlib.Int.succ 0)))))))))
          (Z.mul
            (Z.mul (a (Stdlib.Int.succ (Stdlib.Int.succ 0)))
              (a (Stdlib.Int.succ (Stdlib.Int.succ (Stdlib.Int.succ 0)))))
            (a (Stdlib.Int.succ (Stdlib.Int.succ (Stdlib.Int.succ
              (Stdlib.Int.succ (Stdlib.Int.succ (Stdlib.Int.succ
              (Stdlib.Int.succ 0))))))))))
        (Z.mul
          (Z.mul (a (Stdlib.Int.succ (Stdlib.Int.succ 0)))
            (a (Stdlib.Int.succ (Stdlib.Int.succ (Stdlib.Int.succ
              (Stdlib.Int.succ 0))))))
          (a (Stdlib.Int.succ (Stdlib.Int.succ (Stdlib.Int.succ
            (Stdlib.Int.succ (Stdlib.Int.succ (Stdlib.Int.succ 0)))))))))
      (Z.mul
        (Z.mul (a (Stdlib.Int.succ 0))
          (a (Stdlib.Int.succ (Stdlib.Int.succ (Stdlib.Int.succ 0)))))
        (a (Stdlib.Int.succ (Stdlib.Int.succ (Stdlib.Int.succ
          (Stdlib.Int.succ (Stdlib.Int.succ (Stdlib.Int.succ (Stdlib.Int.succ
          (Stdlib.Int.succ 0)))))))))))
    (Z.mul
      (Z.mul (a 0)
        (a (Stdlib.Int.succ (Stdlib.Int.succ (Stdlib.Int.succ
          (Stdlib.Int.succ (Stdlib.Int.succ 0)))))))
      (a (Stdlib.Int.succ (Stdlib.Int.succ (Stdlib.Int.succ (Stdlib.Int.succ
        (Stdlib.Int.succ (Stdlib.Int.succ (Stdlib.Int.succ 0)))))))))

(** val det4 : (int -> z) -> z **)

let det4 m =
  Z.add
    (Z.sub
      (Z.sub
        (Z.add
          (Z.add
            (Z.sub
              (Z.sub
                (Z.add
                  (Z.add
                    (Z.sub
                      (Z.sub
                        (Z.add
                          (Z.add
                            (Z.sub
                              (Z.sub
                                (Z.add
                                  (Z.add
                                    (Z.sub
                                      (Z.sub
                                        (Z.add
                                          (Z.add
                                            (Z.sub
                                              (Z.sub
                                                (Z.mul
                                                  (Z.mul
                                                    (Z.mul
                                                      (m (Stdlib.Int.succ
                                                        (Stdlib.Int.succ
                                                        (Stdlib.Int.succ
                                                        (Stdlib.Int.succ
                                                        (Stdlib.Int.succ
                                                        (Stdlib.Int.succ
                                                        (Stdlib.Int.succ
                                                        (Stdlib.Int.succ
                                                        (Stdlib.Int.succ
                                                        (Stdlib.Int.succ
                                                        (Stdlib.Int.succ
                                                        (Stdlib.Int.succ
                                                        0)))))))))))))
                                                      (m (Stdlib.Int.succ
                                                        (Stdlib.Int.succ
                                                        (Stdlib.Int.succ
                                                        (Stdlib.Int.succ
                                                        (Stdlib.Int.succ
                                                        (Stdlib.Int.succ
                                                        (Stdlib.Int.succ
                                                        (Stdlib.Int.succ
                                                        (Stdlib.Int.succ
                                                        0)))))))))))
                                                    (m (Stdlib.Int.succ
                                                      (Stdlib.Int.succ
                                                      (Stdlib.Int.succ
                                                      (Stdlib.Int.succ
                                                      (Stdlib.Int.succ
                                                      (Stdlib.Int.succ
                                                      0))))))))
                                                  (m (Stdlib.Int.succ
                                                    (Stdlib.Int.succ
                                                    (Stdlib.Int.succ 0)))))
                                                (Z.mul
                                                  (Z.mul
                                                    (Z.mul
                                                      (m (Stdlib.Int.succ
                                                        (Stdlib.Int.succ
                                                        (Stdlib.Int.succ
                                                        (Stdlib.Int.succ
                                                        (Stdlib.Int.succ
                                                        (Stdlib.Int.succ
                                                        (Stdlib.Int.succ
                                                        (Stdlib.Int.succ
                                                        0)))))))))
                                                      (m (Stdlib.Int.succ
                                                        (Stdlib.Int.succ
                                                        (Stdlib.Int.succ
                                                        (Stdlib.Int.succ
                                                        (Stdlib.Int.succ
                                                        (Stdlib.Int.succ
                                                        (Stdlib.Int.succ
                                                        (Stdlib.Int.succ
                                                        (Stdlib.Int.succ
                                                        (Stdlib.Int.succ
                                                        (Stdlib.Int.succ
                                                        (Stdlib.Int.succ
                                                        (Stdlib.Int.succ
                                                        0)))))))))))))))
                                                    (m (Stdlib.Int.succ
                                                      (Stdlib.Int.succ
                                                      (Stdlib.Int.succ
                                                      (Stdlib.Int.succ
                                                      (Stdlib.Int.succ
                                                      (Stdlib.Int.succ
                                                      0))))))))
                                                  (m (Stdlib.Int.succ
                                                    (Stdlib.Int.succ
                                                    (Stdlib.Int.succ 0))))))
                                              (Z.mul
                                                (Z.mul
                                                  (Z.mul
                                                    (m (Stdlib.Int.succ
                                                      (Stdlib.Int.succ
                                                      (Stdlib.Int.succ
                                                      (Stdlib.Int.succ
                                                      (Stdlib.Int.succ
                                                      (Stdlib.Int.succ
                                                      (Stdlib.Int.succ
                                                      (Stdlib.Int.succ
                                                      (Stdlib.Int.succ
                                                      (Stdlib.Int.succ
                                                      (Stdlib.Int.succ
                                                      (Stdlib.Int.succ
                                                      0)))))))))))))
                                                    (m (Stdlib.Int.succ
                                                      (Stdlib.Int.succ
                                                      (Stdlib.Int.succ
                                                      (Stdlib.Int.succ
                                                      (Stdlib.Int.succ 0)))))))
                                                  (m (Stdlib.Int.succ
                                                    (Stdlib.Int.succ
                                                    (Stdlib.Int.succ
                                                    (Stdlib.Int.succ
                                                    (Stdlib.Int.succ
                                                    (Stdlib.Int.succ
                                                    (Stdlib.Int.succ
                                                    (Stdlib.Int.succ
                                                    (Stdlib.Int.succ
                                                    (Stdlib.Int.succ
                                                    0))))))))))))
                                                (m (Stdlib.Int.succ
                                                  (Stdlib.Int.succ
                                                  (Stdlib.Int.succ 0))))))
                                            (Z.mul
                                              (Z.mul
                                                (Z.mul
                                                  (m (Stdlib.Int.succ
                                                    (Stdlib.Int.succ
                                                    (Stdlib.Int.succ
                                                    (Stdlib.Int.succ 0)))))
                                                  (m (Stdlib.Int.succ
                                                    (Stdlib.Int.succ
                                                    (Stdlib.Int.succ
                                                    (Stdlib.Int.succ
                                                    (Stdlib.Int.succ
                                                    (Stdlib.Int.succ
                                                    (Stdlib.Int.succ
                                                    (Stdlib.Int.succ
                                                    (Stdlib.Int.succ
                                                    (Stdlib.Int.succ
                                                    (Stdlib.Int.succ
                                                    (Stdlib.Int.succ
                                                    (Stdlib.Int.succ
                                                    0)))))))))))))))
                                                (m (Stdlib.Int.succ
                                                  (Stdlib.Int.succ
                                                  (Stdlib.Int.succ
                                                  (Stdlib.Int.succ
                                                  (Stdlib.Int.succ
                                                  (Stdlib.Int.succ
                                                  (Stdlib.Int.succ
                                                  (Stdlib.Int.succ
                                                  (Stdlib.Int.succ
                                                  (Stdlib.Int.succ
                                                  0))))))))))))
                                              (m (Stdlib.Int.succ
                                                (Stdlib.Int.succ
                                                (Stdlib.Int.succ 0))))))
                                          (Z.mul
                                            (Z.mul
                                              (Z.mul
                                                (m (Stdlib.Int.succ
                                                  (Stdlib.Int.succ
                                                  (Stdlib.Int.succ
                                                  (Stdlib.Int.succ
                                                  (Stdlib.Int.succ
                                                  (Stdlib.Int.succ
                                                  (Stdlib.Int.succ
                                                  (Stdlib.Int.succ 0)))))))))
                                                (m (Stdlib.Int.succ
                                                  (Stdlib.Int.succ
                                                  (Stdlib.Int.succ
                                                  (Stdlib.Int.succ
                                                  (Stdlib.Int.succ 0)))))))
                                              (m (Stdlib.Int.succ
                                                (Stdlib.Int.succ
                                                (Stdlib.Int.succ
                                                (Stdlib.Int.succ
                                                (Stdlib.Int.succ
                                                (Stdlib.Int.succ
                                                (Stdlib.Int.succ
                                                (Stdlib.Int.succ
                                                (Stdlib.Int.succ
                                                (Stdlib.Int.succ
                                                (Stdlib.Int.succ
                                                (Stdlib.Int.succ
                                                (Stdlib.Int.succ
                                                (Stdlib.Int.succ
                                                0))))))))))))))))
                                            (m (Stdlib.Int.succ
                                              (Stdlib.Int.succ
                                              (Stdlib.Int.succ 0))))))
                                        (Z.mul
                                          (Z.mul
                                            (Z.mul
                                              (m (Stdlib.Int.succ
                                                (Stdlib.Int.succ
                                                (Stdlib.Int.succ
                                                (Stdlib.Int.succ 0)))))
                                              (m (Stdlib.Int.succ
                                                (Stdlib.Int.succ
                                                (Stdlib.Int.succ
                                                (Stdlib.Int.succ
                                                (Stdlib.Int.succ
                                                (Stdlib.Int.succ
                                                (Stdlib.Int.succ
                                                (Stdlib.Int.succ
                                                (Stdlib.Int.succ 0)))))))))))
                                            (m (Stdlib.Int.succ
                                              (Stdlib.Int.succ
                                              (Stdlib.Int.succ
                                              (Stdlib.Int.succ
                                              (Stdlib.Int.succ
                                              (Stdlib.Int.succ
                                              (Stdlib.Int.succ
                                              (Stdlib.Int.succ
                                              (Stdlib.Int.succ
                                              (Stdlib.Int.succ
                                              (Stdlib.Int.succ
                                              (Stdlib.Int.succ
                                              (Stdlib.Int.succ
                                              (Stdlib.Int.succ
                                              0))))))))))))))))
                                          (m (Stdlib.Int.succ
                                            (Stdlib.Int.succ (Stdlib.Int.succ
                                            0))))))
                                      (Z.mul
                                        (Z.mul
                                          (Z.mul
                                            (m (Stdlib.Int.succ
                                              (Stdlib.Int.succ
                                              (Stdlib.Int.succ
                                              (Stdlib.Int.succ
                                              (Stdlib.Int.succ
                                              (Stdlib.Int.succ
                                              (Stdlib.Int.succ
                                              (Stdlib.Int.succ
                                              (Stdlib.Int.succ
                                              (Stdlib.Int.succ
                                              (Stdlib.Int.succ
                                              (Stdlib.Int.succ 0)))))))))))))
                                            (m (Stdlib.Int.succ
                                              (Stdlib.Int.succ
                                              (Stdlib.Int.succ
                                              (Stdlib.Int.succ
                                              (Stdlib.Int.succ
                                              (Stdlib.Int.succ
                                              (Stdlib.Int.succ
                                              (Stdlib.Int.succ
                                              (Stdlib.Int.succ 0)))))))))))
                                          (m (Stdlib.Int.succ
                                            (Stdlib.Int.succ 0))))
                                        (m (Stdlib.Int.succ (Stdlib.Int.succ
                                          (Stdlib.Int.succ (Stdlib.Int.succ
                                          (Stdlib.Int.succ (Stdlib.Int.succ
                                          (Stdlib.Int.succ 0))))))))))
                                    (Z.mul
                                      (Z.mul
                                        (Z.mul
                                          (m (Stdlib.Int.succ
                                            (Stdlib.Int.succ (Stdlib.Int.succ
                                            (Stdlib.Int.succ (Stdlib.Int.succ
                                            (Stdlib.Int.succ (Stdlib.Int.succ
                                            (Stdlib.Int.succ 0)))))))))
                                          (m (Stdlib.Int.succ
                                            (Stdlib.Int.succ (Stdlib.Int.succ
                                            (Stdlib.Int.succ (Stdlib.Int.succ
                                            (Stdlib.Int.succ (Stdlib.Int.succ
                                            (Stdlib.Int.succ (Stdlib.Int.succ
                                            (Stdlib.Int.succ (Stdlib.Int.succ
                                            (Stdlib.Int.succ (Stdlib.Int.succ
                                            0)))))))))))))))
                                        (m (Stdlib.Int.succ (Stdlib.Int.succ
                                          0))))
                                      (m (Stdlib.Int.succ (Stdlib.Int.succ
                                        (Stdlib.Int.succ (Stdlib.Int.succ
                                        (Stdlib.Int.succ (Stdlib.Int.succ
                                        (Stdlib.Int.succ 0))))))))))
                                  (Z.mul
                                    (Z.mul
                                      (Z.mul
                                        (m (Stdlib.Int.succ (Stdlib.Int.succ
                                          (Stdlib.Int.succ (Stdlib.Int.succ
                                          (Stdlib.Int.succ (Stdlib.Int.succ
                                          (Stdlib.Int.succ (Stdlib.Int.succ
                                          (Stdlib.Int.succ (Stdlib.Int.succ
                                          (Stdlib.Int.succ (Stdlib.Int.succ
                                          0)))))))))))))
                                        (m (Stdlib.Int.succ 0)))
                                      (m (Stdlib.Int.succ (Stdlib.Int.succ
                                        (Stdlib.Int.succ (Stdlib.Int.succ
                                        (Stdlib.Int.succ (Stdlib.Int.succ
                                        (Stdlib.Int.succ (Stdlib.Int.succ
                                        (Stdlib.Int.succ (Stdlib.Int.succ
                                        0))))))))))))
                                    (m (Stdlib.Int.succ (Stdlib.Int.succ
                                      (Stdlib.Int.succ (Stdlib.Int.succ
                                      (Stdlib.Int.succ (Stdlib.Int.succ
                                      (Stdlib.Int.succ 0))))))))))
                                (Z.mul
                                  (Z.mul
                                    (Z.mul (m 0)
                                      (m (Stdlib.Int.succ (Stdlib.Int.succ
                                        (Stdlib.Int.succ (Stdlib.Int.succ
                                        (Stdlib.Int.succ (Stdlib.Int.succ
                                        (Stdlib.Int.succ (Stdlib.Int.succ
                                        (Stdlib.Int.succ (Stdlib.Int.succ
                                        (Stdlib.Int.succ (Stdlib.Int.succ
                                        (Stdlib.Int.succ 0)))))))))))))))
                                    (m (Stdlib.Int.succ (Stdlib.Int.succ
                                      (Stdlib.Int.succ (Stdlib.Int.succ
                                      (Stdlib.Int.succ (Stdlib.Int.succ
                                      (Stdlib.Int.succ (Stdlib.Int.succ
                                      (Stdlib.Int.succ (Stdlib.Int.succ
                                      0))))))))))))
                                  (m (Stdlib.Int.succ (Stdlib.Int.succ
                                    (Stdlib.Int.succ (Stdlib.Int.succ
                                    (Stdlib.Int.succ (Stdlib.Int.succ
                                    (Stdlib.Int.succ 0))))))))))
                              (Z.mul
                                (Z.mul
                                  (Z.mul
                                    (m (Stdlib.Int.succ (Stdlib.Int.succ
                                      (Stdlib.Int.succ (Stdlib.Int.succ
                                      (Stdlib.Int.succ (Stdlib.Int.succ
                                      (Stdlib.Int.succ (Stdlib.Int.succ
                                      0))))))))) (m (Stdlib.Int.succ 0)))
                                  (m (Stdlib.Int.succ (Stdlib.Int.succ
                                    (Stdlib.Int.succ (Stdlib.Int.succ
                                    (Stdlib.Int.succ (Stdlib.Int.succ
                                    (Stdlib.Int.succ (Stdlib.Int.succ
                                    (Stdlib.Int.succ (Stdlib.Int.succ
                                    (Stdlib.Int.succ (Stdlib.Int.succ
                                    (Stdlib.Int.succ (Stdlib.Int.succ
                                    0))))))))))))))))
                                (m (Stdlib.Int.succ (Stdlib.Int.succ
                                  (Stdlib.Int.succ (Stdlib.Int.succ
                                  (Stdlib.Int.succ (Stdlib.Int.succ
                                  (Stdlib.Int.succ 0))))))))))
                            (Z.mul
                              (Z.mul
                                (Z.mul (m 0)
                                  (m (Stdlib.Int.succ (Stdlib.Int.succ
                                    (Stdlib.Int.succ (Stdlib.Int.succ
                                    (Stdlib.Int.succ (Stdlib.Int.succ
                                    (Stdlib.Int.succ (Stdlib.Int.succ
                                    (Stdlib.Int.succ 0)))))))))))
                                (m (Stdlib.Int.succ (Stdlib.Int.succ
                                  (Stdlib.Int.succ (Stdlib.Int.succ
                                  (Stdlib.Int.succ (Stdlib.Int.succ
                                  (Stdlib.Int.succ (Stdlib.Int.succ
                                  (Stdlib.Int.succ (Stdlib.Int.succ
                                  (Stdlib.Int.succ (Stdlib.Int.succ
                                  (Stdlib.Int.succ (Stdlib.Int.succ
                                  0))))))))))))))))
                              (m (Stdlib.Int.succ (Stdlib.Int.succ
                                (Stdlib.Int.succ (Stdlib.Int.succ
                                (Stdlib.Int.succ (Stdlib.Int.succ
                                (Stdlib.Int.succ 0))))))))))
                          (Z.mul
                            (Z.mul
                              (Z.mul
                                (m (Stdlib.Int.succ (Stdlib.Int.succ
                                  (Stdlib.Int.succ (Stdlib.Int.succ
                                  (Stdlib.Int.succ (Stdlib.Int.succ
                                  (Stdlib.Int.succ (Stdlib.Int.succ
                                  (Stdlib.Int.succ (Stdlib.Int.succ
                                  (Stdlib.Int.succ (Stdlib.Int.succ
                                  0)))))))))))))
                                (m (Stdlib.Int.succ (Stdlib.Int.succ
                                  (Stdlib.Int.succ (Stdlib.Int.succ
                                  (Stdlib.Int.succ 0)))))))
                              (m (Stdlib.Int.succ (Stdlib.Int.succ 0))))
                            (m (Stdlib.Int.succ (Stdlib.Int.succ
                              (Stdlib.Int.succ (Stdlib.Int.succ
                              (Stdlib.Int.succ (Stdlib.Int.succ
                              (Stdlib.Int.succ (Stdlib.Int.succ
                              (Stdlib.Int.succ (Stdlib.Int.succ
                              (Stdlib.Int.succ 0))))))))))))))
                        (Z.mul
                          (Z.mul
                            (Z.mul
                              (m (Stdlib.Int.succ (Stdlib.Int.succ
                                (Stdlib.Int.succ (Stdlib.Int.succ 0)))))
                              (m (Stdlib.Int.succ (Stdlib.Int.succ
                                (Stdlib.Int.succ (Stdlib.Int.succ
                                (Stdlib.Int.succ (Stdlib.Int.succ
                                (Stdlib.Int.succ (Stdlib.Int.succ
                                (Stdlib.Int.succ (Stdlib.Int.succ
                                (Stdlib.Int.succ (Stdlib.Int.succ
                                (Stdlib.Int.succ 0)))))))))))))))
                            (m (Stdlib.Int.succ (Stdlib.Int.succ 0))))
                          (m (Stdlib.Int.succ (Stdlib.Int.succ
                            (Stdlib.Int.succ (Stdlib.Int.succ
                            (Stdlib.Int.succ (Stdlib.Int.succ
                            (Stdlib.Int.succ (Stdlib.Int.succ
                            (Stdlib.Int.succ (Stdlib.Int.succ
                            (Stdlib.Int.succ 0))))))))))))))
                      (Z.mul
                        (Z.mul
                          (Z.mul
                            (m (Stdlib.Int.succ (Stdlib.Int.succ
                              (Stdlib.Int.succ (Stdlib.Int.succ
                              (Stdlib.Int.succ (Stdlib.Int.succ
                              (Stdlib.Int.succ (Stdlib.Int.succ
                              (Stdlib.Int.succ (Stdlib.Int.succ
                              (Stdlib.Int.succ (Stdlib.Int.succ 0)))))))))))))
                            (m (Stdlib.Int.succ 0)))
                          (m (Stdlib.Int.succ (Stdlib.Int.succ
                            (Stdlib.Int.succ (Stdlib.Int.succ
                            (Stdlib.Int.succ (Stdlib.Int.succ 0))))))))
                        (m (Stdlib.Int.succ (Stdlib.Int.succ (Stdlib.Int.succ
                          (Stdlib.Int.succ (Stdlib.Int.succ (Stdlib.Int.succ
                          (Stdlib.Int.succ (Stdlib.Int.succ (Stdlib.Int.succ
                          (Stdlib.Int.succ (Stdlib.Int.succ 0))))))))))))))
                    (Z.mul
                      (Z.mul
                        (Z.mul (m 0)
                          (m (Stdlib.Int.succ (Stdlib.Int.succ
                            (Stdlib.Int.succ (Stdlib.Int.succ
                            (Stdlib.Int.succ (Stdlib.Int.succ
                            (Stdlib.Int.succ (Stdlib.Int.succ
                            (Stdlib.Int.succ (Stdlib.Int.succ
                            (Stdlib.Int.succ (Stdlib.Int.succ
                            (Stdlib.Int.succ 0)))))))))))))))
                        (m (Stdlib.Int.succ (Stdlib.Int.succ (Stdlib.Int.succ
                          (Stdlib.Int.succ (Stdlib.Int.succ (Stdlib.Int.succ
                          0))))))))
                      (m (Stdlib.Int.succ (Stdlib.Int.succ (Stdlib.Int.succ
                        (Stdlib.Int.succ (Stdlib.Int.succ (Stdlib.Int.succ
                        (Stdlib.Int.succ (Stdlib.Int.succ (Stdlib.Int.succ
                        (Stdlib.Int.succ (Stdlib.Int.succ 0))))))))))))))
                  (Z.mul
                    (Z.mul
                      (Z.mul
                        (m (Stdlib.Int.succ (Stdlib.Int.succ (Stdlib.Int.succ
                          (Stdlib.Int.succ 0))))) (m (Stdlib.Int.succ 0)))
                      (m (Stdlib.Int.succ (Stdlib.Int.succ (Stdlib.Int.succ
                        (Stdlib.Int.succ (Stdlib.Int.succ (Stdlib.Int.succ
                        (Stdlib.Int.succ (Stdlib.Int.succ (Stdlib.Int.succ
                        (Stdlib.Int.succ (Stdlib.Int.succ (Stdlib.Int.succ
                        (Stdlib.Int.succ (Stdlib.Int.succ 0))))))))))))))))
                    (m (Stdlib.Int.succ (Stdlib.Int.succ (Stdlib.Int.succ
                      (Stdlib.Int.succ (Stdlib.Int.succ (Stdlib.Int.succ
                      (Stdlib.Int.succ (Stdlib.Int.succ (Stdlib.Int.succ
                      (Stdlib.Int.succ (Stdlib.Int.succ 0))))))))))))))
                (Z.mul
                  (Z.mul
                    (Z.mul (m 0)
                      (m (Stdlib.Int.succ (Stdlib.Int.succ (Stdlib.Int.succ
                        (Stdlib.Int.succ (Stdlib.Int.succ 0)))))))
                    (m (Stdlib.Int.succ (Stdlib.Int.succ (Stdlib.Int.succ
                      (Stdlib.Int.succ (Stdlib.Int.succ (Stdlib.Int.succ
                      (Stdlib.Int.succ (Stdlib.Int.succ (Stdlib.Int.succ
                      (Stdlib.Int.succ (Stdlib.Int.succ (Stdlib.Int.succ
                      (Stdlib.Int.succ (Stdlib.Int.succ 0))))))))))))))))
                  (m (Stdlib.Int.succ (Stdlib.Int.succ (Stdlib.Int.succ
                    (Stdlib.Int.succ (Stdlib.Int.succ (Stdlib.Int.succ
                    (Stdlib.Int.succ (Stdlib.Int.succ (Stdlib.Int.succ
                    (Stdlib.Int.succ (Stdlib.Int.succ 0))))))))))))))
              (Z.mul
                (Z.mul
                  (Z.mul
                    (m (Stdlib.Int.succ (Stdlib.Int.succ (Stdlib.Int.succ
                      (Stdlib.Int.succ (Stdlib.Int.succ (Stdlib.Int.succ
                      (Stdlib.Int.succ (Stdlib.Int.succ 0)))))))))
                    (m (Stdlib.Int.succ (Stdlib.Int.succ (Stdlib.Int.succ
                      (Stdlib.Int.succ (Stdlib.Int.succ 0)))))))
                  (m (Stdlib.Int.succ (Stdlib.Int.succ 0))))
                (m (Stdlib.Int.succ (Stdlib.Int.succ (Stdlib.Int.succ
                  (Stdlib.Int.succ (Stdlib.Int.succ (Stdlib.Int.succ
                  (Stdlib.Int.succ (Stdlib.Int.succ (Stdlib.Int.succ
                  (Stdlib.Int.succ (Stdlib.Int.succ (Stdlib.Int.succ
                  (Stdlib.Int.succ (Stdlib.Int.succ (Stdlib.Int.succ
                  0))))))))))))))))))
            (Z.mul
              (Z.mul
                (Z.mul
                  (m (Stdlib.Int.succ (Stdlib.Int.succ (Stdlib.Int.succ
                    (Stdlib.Int.succ 0)))))
                  (m (Stdlib.Int.succ (Stdlib.Int.succ (Stdlib.Int.succ
                    (Stdlib.Int.succ (Stdlib.Int.succ (Stdlib.Int.succ
                    (Stdlib.Int.succ (Stdlib.Int.succ (Stdlib.Int.succ
                    0))))))))))) (m (Stdlib.Int.succ (Stdlib.Int.succ 0))))
              (m (Stdlib.Int.succ (Stdlib.Int.succ (Stdlib.Int.succ
                (Stdlib.Int.succ (Stdlib.Int.succ (Stdlib.Int.succ
                (Stdlib.Int.succ (Stdlib.Int.succ (Stdlib.Int.succ
                (Stdlib.Int.succ (Stdlib.Int.succ (Stdlib.Int.succ
                (Stdlib.Int.succ (Stdlib.Int.succ (Stdlib.Int.succ
                0))))))))))))))))))
          (Z.mul
            (Z.mul
              (Z.mul
                (m (Stdlib.Int.succ (Stdlib.Int.succ (Stdlib.Int.succ
                  (Stdlib.Int.succ (Stdlib.Int.succ (Stdlib.Int.succ
                  (Stdlib.Int.succ (Stdlib.Int.succ 0)))))))))
                (m (Stdlib.Int.succ 0)))
              (m (Stdlib.Int.succ (Stdlib.Int.succ (Stdlib.Int.succ
                (Stdlib.Int.succ (Stdlib.Int.succ (Stdlib.Int.succ 0))))))))
            (m (Stdlib.Int.succ (Stdlib.Int.succ (Stdlib.Int.succ
              (Stdlib.Int.succ (Stdlib.Int.succ (Stdlib.Int.succ
              (Stdlib.Int.succ (Stdlib.Int.succ (Stdlib.Int.succ
              (Stdlib.Int.succ (Stdlib.Int.succ (Stdlib.Int.succ
              (Stdlib.Int.succ (Stdlib.Int.succ (Stdlib.Int.succ
              0))))))))))))))))))
        (Z.mul
          (Z.mul
            (Z.mul (m 0)
              (m (Stdlib.Int.succ (Stdlib.Int.succ (Stdlib.Int.succ
                (Stdlib.Int.succ (Stdlib.Int.succ (Stdlib.Int.succ
                (Stdlib.Int.succ (Stdlib.Int.succ (Stdlib.Int.succ 0)))))))))))
            (m (Stdlib.Int.succ (Stdlib.Int.succ (Stdlib.Int.succ
              (Stdlib.Int.succ (Stdlib.Int.succ (Stdlib.Int.succ 0))))))))
          (m (Stdlib.Int.succ (Stdlib.Int.succ (Stdlib.Int.succ
            (Stdlib.Int.succ (Stdlib.Int.succ (Stdlib.Int.succ
            (Stdlib.Int.succ (Stdlib.Int.succ (Stdlib.Int.succ
            (Stdlib.Int.succ (Stdlib.Int.succ (Stdlib.Int.succ
            (Stdlib.Int.succ (Stdlib.Int.succ (Stdlib.Int.succ
            0))))))))))))))))))
      (Z.mul
        (Z.mul
          (Z.mul
            (m (Stdlib.Int.succ (Stdlib.Int.succ (Stdlib.Int.succ
              (Stdlib.Int.succ 0))))) (m (Stdlib.Int.succ 0)))
          (m (Stdlib.Int.succ (Stdlib.Int.succ (Stdlib.Int.succ
            (Stdlib.Int.succ (Stdlib.Int.succ (Stdlib.Int.succ
            (Stdlib.Int.succ (Stdlib.Int.succ (Stdlib.Int.succ
            (Stdlib.Int.succ 0))))))))))))
        (m (Stdlib.Int.succ (Stdlib.Int.succ (Stdlib.Int.succ
          (Stdlib.Int.succ (Stdlib.Int.succ (Stdlib.Int.succ (Stdlib.Int.succ
          (Stdlib.Int.succ (Stdlib.Int.succ (Stdlib.Int.succ (Stdlib.Int.succ
          (Stdlib.Int.succ (Stdlib.Int.succ (Stdlib.Int.succ (Stdlib.Int.succ
          0))))))))))))))))))
    (Z.mul
      (Z.mul
        (Z.mul (m 0)
          (m (Stdlib.Int.succ (Stdlib.Int.succ (Stdlib.Int.succ
            (Stdlib.Int.succ (Stdlib.Int.succ 0)))))))
        (m (Stdlib.Int.succ (Stdlib.Int.succ (Stdlib.Int.succ
          (Stdlib.Int.succ (Stdlib.Int.succ (Stdlib.Int.succ (Stdlib.Int.succ
          (Stdlib.Int.succ (Stdlib.Int.succ (Stdlib.Int.succ 0))))))))))))
      (m (Stdlib.Int.succ (Stdlib.Int.succ (Stdlib.Int.succ (Stdlib.Int.succ
        (Stdlib.Int.succ (Stdlib.Int.succ (Stdlib.Int.succ (Stdlib.Int.succ
        (Stdlib.Int.succ (Stdlib.Int.succ (Stdlib.Int.succ (Stdlib.Int.succ
        (Stdlib.Int.succ (Stdlib.Int.succ (Stdlib.Int.succ 0)))))))))))))))))

(** val laplace : int -> (int -> int -> z) -> z **)

let rec laplace n0 m =
  (fun fO fS n -> if n=0 then fO () else fS (n-1))
    (fun _ -> Zpos XH)
    (fun n' ->
    fold_left Z.add
      (map (fun j ->
        Z.mul (Z.mul (if Nat.even j then Zpos XH else Zneg XH) (m 0 j))
          (laplace n' (fun r c ->
            m (Stdlib.Int.succ r)
              (if Nat.ltb c j then c else Stdlib.Int.succ c)))) (seq 0 n0)) Z0)
    n0

(** val det_spec : int -> (int -> z) -> z **)

let det_spec n0 a =
  laplace n0 (fun i j -> a (add (mul i n0) j))

(** val prod0 : int list -> int **)

let rec prod0 = function
| [] -> Stdlib.Int.succ 0
| d :: ds -> mul d (prod0 ds)

(** val flat : int list -> int list -> int **)

let rec flat dims idx =
  match dims with
  | [] -> 0
  | _ :: ds ->
    (match idx with
     | [] -> 0
     | i :: is -> add (mul i (prod0 ds)) (flat ds is))

(** val unflat : int list -> int -> int list **)

let rec unflat dims p =
  match dims with
  | [] -> []
  | d :: ds -> (Nat.modulo (Nat.div p (prod0 ds)) d) :: (unflat ds p)

type urange = { uf : z; ul : z; us : z }

(** val norm1d : z -> urange -> urange **)

let norm1d n0 r =
  { uf = (if Z.ltb r.uf Z0 then Z.add (Z.add r.uf n0) (Zpos XH) else r.uf);
    ul = (if Z.ltb r.ul Z0 then Z.add (Z.add r.ul n0) (Zpos XH) else r.ul);
    us = r.us }

(** val normnd : z -> urange -> urange **)

let normnd n0 r =
  if (&&) (Z.ltb r.ul Z0) (Z.leb Z0 r.uf)
  then { uf = r.uf; ul = (Z.add (Z.add r.ul n0) (Zpos XH)); us = r.us }
  else if (&&) (Z.eqb r.ul Z0) (Z.eqb r.uf (Zneg XH))
       then { uf = (Z.sub n0 (Zpos XH)); ul = n0; us = r.us }
       else if (&&) (Z.ltb r.ul Z0) (Z.ltb r.uf Z0)
            then { uf = (Z.add (Z.add r.uf n0) (Zpos XH)); ul =
                   (Z.add (Z.add r.ul n0) (Zpos XH)); us = r.us }
            else r

(** val rsize : urange -> z **)

let rsize r =
  let range = Z.sub r.ul r.uf in
  if Z.eqb (Z.rem range r.us) Z0
  then Z.quot range r.us
  else Z.add (Z.quot range r.us) (Zpos XH)

type nrange = { nfirst : int; nstep : int; nsize : int }

(** val to_nrange : urange -> nrange **)

let to_nrange r =
  { nfirst = (Z.to_nat r.uf); nstep = (Z.to_nat r.us); nsize =
    (Z.to_nat (rsize r)) }

(** val vdims : nrange list -> int list **)

let vdims v =
  map (fun n0 -> n0.nsize) v

(** val voffset : int list -> nrange list -> int list -> int **)

let rec voffset pdims v j =
  match pdims with
  | [] -> 0
  | _ :: ds ->
    (match v with
     | [] -> 0
     | r :: rs ->
       (match j with
        | [] -> 0
        | i :: is ->
          add (mul (add r.nfirst (mul i r.nstep)) (prod0 ds))
            (voffset ds rs is)))

(** val view_off : int list -> nrange list -> int -> int **)

let view_off pdims v i =
  voffset pdims v (unflat (vdims v) i)

(** val upd1 : (int -> 'a1) -> int -> 'a1 -> int -> 'a1 **)

let upd1 a o x p =
  if (=) p o then x else a p

(** val scatter :
    (int -> int) -> (int -> (int -> 'a1) -> 'a1) -> int -> (int -> 'a1) ->
    int -> 'a1 **)

let scatter off f n0 a =
  fold_left (fun a0 i -> upd1 a0 (off i) (f i a0)) (seq 0 n0) a

(** val idx2 : int -> int list -> int list -> int list **)

let idx2 ncols it0 it1 =
  flat_map (fun a -> map (fun b -> add (mul a ncols) b) it1) it0

(** val idx_col : int -> int list -> int -> int list **)

let idx_col ncols it0 num =
  map (fun a -> add (mul a ncols) num) it0

(** val idx_row : int -> int -> int list -> int list **)

let idx_row ncols num it1 =
  map (fun b -> add (mul num ncols) b) it1

(** val idx_it_range : int -> int list -> nrange -> int list **)

let idx_it_range ncols it0 r =
  idx2 ncols it0 (map (fun j -> add r.nfirst (mul j r.nstep)) (seq 0 r.nsize))

(** val idx_range_it : int -> nrange -> int list -> int list **)

let idx_range_it ncols r it1 =
  idx2 ncols (map (fun i -> add r.nfirst (mul i r.nstep)) (seq 0 r.nsize)) it1

(** val rv_read : (int -> 'a1) -> int list -> 'a1 list **)

let rv_read =
  map

(** val rv_write :
    ('a1 -> 'a1 -> 'a1) -> int list -> (int -> 'a1) -> (int -> 'a1) -> int ->
    'a1 **)

let rv_write op idx rhs a =
  scatter (fun k -> nth k idx 0) (fun k b -> op (b (nth k idx 0)) (rhs k))
    (length idx) a

(** val filter_write :
    ('a1 -> 'a1 -> 'a1) -> (int -> bool) -> (int -> 'a1) -> int -> (int ->
    'a1) -> int -> 'a1 **)

let filter_write op mask0 rhs n0 a =
  fold_left (fun b p -> if mask0 p then upd1 b p (op (b p) (rhs p)) else b)
    (seq 0 n0) a

(** val rm_of_counter : int list -> int -> int **)

let rm_of_counter dims c =
  flat dims (rev (unflat (rev dims) c))

(** val torowmajor : int list -> (int -> 'a1) -> int -> 'a1 **)

let torowmajor dims a c =
  if Nat.ltb c (prod0 dims) then a (rm_of_counter dims c) else a c

(** val tocolumnmajor : int list -> (int -> 'a1) -> int -> 'a1 **)

let tocolumnmajor dims a =
  scatter (rm_of_counter dims) (fun c _ -> a c) (prod0 dims) a

(** val gatherp : int list -> int list -> int list **)

let gatherp p l =
  map (fun m -> nth m l 0) p

(** val index_of : int -> int list -> int **)

let rec index_of x = function
| [] -> 0
| y :: ys -> if (=) x y then 0 else Stdlib.Int.succ (index_of x ys)

(** val invp : int list -> int list **)

let invp p =
  map (fun i -> index_of i p) (seq 0 (length p))

(** val permute14 : int list -> int list -> (int -> 'a1) -> int -> 'a1 **)

let permute14 p dims a =
  let odims = gatherp p dims in
  scatter (fun c -> flat odims (gatherp p (unflat dims c))) (fun c _ -> 
    a c) (prod0 dims) a

(** val permute17 : int list -> int list -> (int -> 'a1) -> int -> 'a1 **)

let permute17 p dims a =
  let odims = gatherp p dims in
  (fun o ->
  if Nat.ltb o (prod0 odims)
  then a (flat dims (gatherp (invp p) (unflat odims o)))
  else a o)

(** val transpose_wrs :
    scalar -> int -> int -> int -> (int -> t) -> wr list **)

let transpose_wrs s v m n0 a =
  let m0 = mul (Nat.div m v) v in
  let n1 = mul (Nat.div n0 v) v in
  app
    (flat_map (fun j ->
      app
        (flat_map (fun i ->
          map (fun jj ->
            wr_store s (add (mul (add j jj) m) i) v (fun l ->
              a (add (mul (add i l) n0) (add j jj)))) (seq 0 v))
          (loop_starts 0 m0 v))
        (flat_map (fun i ->
          map (fun jj ->
            wr_store1 s (add (mul (add j jj) m) i)
              (a (add (add (mul i n0) j) jj))) (seq 0 v)) (seq m0 (sub m m0))))
      (loop_starts 0 n1 v))
    (flat_map (fun j ->
      map (fun i -> wr_store1 s (add (mul j m) i) (a (add (mul i n0) j)))
        (seq 0 m)) (seq n1 (sub n0 n1)))

(** val transpose_tiled :
    scalar -> int -> int -> int -> (int -> t) -> (int -> t) -> int -> t **)

let transpose_tiled s v m n0 a c0 =
  run_wrs s c0 (transpose_wrs s v m n0 a)

type env = int -> int

(** val eupd : env -> int -> int -> env **)

let eupd e l x k =
  if (=) k l then x else e k

(** val uniq : int list -> int list **)

let rec uniq = function
| [] -> []
| l :: r -> l :: (filter (fun k -> negb ((=) k l)) (uniq r))

(** val count_occ_nat : int -> int list -> int **)

let count_occ_nat l ls =
  length (filter (fun k -> (=) k l) ls)

(** val free_labels : int list -> int list **)

let free_labels ij =
  filter (fun l -> (=) (count_occ_nat l ij) (Stdlib.Int.succ 0)) (uniq ij)

(** val ext_of : int -> int list -> int list -> int **)

let rec ext_of l labels dims =
  match labels with
  | [] -> Stdlib.Int.succ 0
  | k :: ks ->
    (match dims with
     | [] -> Stdlib.Int.succ 0
     | d :: ds -> if (=) k l then d else ext_of l ks ds)

(** val nloop :
    (int * int) list -> (env -> 'a1 -> 'a1) -> env -> 'a1 -> 'a1 **)

let rec nloop ls body e st =
  match ls with
  | [] -> body e st
  | p :: r ->
    let (l, d) = p in
    fold_left (fun st0 x -> nloop r body (eupd e l x) st0) (seq 0 d) st

(** val term :
    scalar -> int list -> int list -> int list -> int list -> (int -> t) ->
    (int -> t) -> env -> t **)

let term s i j dimsA dimsB a b e =
  s.smul (a (flat dimsA (map e i))) (b (flat dimsB (map e j)))

(** val loop_labels :
    int list -> int list -> int list -> int list -> (int * int) list **)

let loop_labels i j dimsA dimsB =
  map (fun l -> (l, (ext_of l (app i j) (app dimsA dimsB)))) (uniq (app i j))

(** val out_labels : int list -> int list -> int list **)

let out_labels i j =
  free_labels (app i j)

(** val out_dims :
    int list -> int list -> int list -> int list -> int list **)

let out_dims i j dimsA dimsB =
  map (fun l -> ext_of l (app i j) (app dimsA dimsB)) (out_labels i j)

(** val einsum_general :
    scalar -> int list -> int list -> int list -> int list -> (int -> t) ->
    (int -> t) -> int -> t **)

let einsum_general s i j dimsA dimsB a b =
  let o = out_labels i j in
  let od = out_dims i j dimsA dimsB in
  nloop (loop_labels i j dimsA dimsB) (fun e out ->
    let p = flat od (map e o) in
    (fun q ->
    if (=) q p then s.sadd (out q) (term s i j dimsA dimsB a b e) else out q))
    (fun _ -> 0) (fun _ -> s.s0)

(** val nthl : int list -> int -> int **)

let nthl l i =
  nth i l 0

(** val match_from_end_aux :
    int -> int list -> int list -> int -> int -> bool **)

let rec match_from_end_aux fuel i0 i1 n0 n1 =
  (fun fO fS n -> if n=0 then fO () else fS (n-1))
    (fun _ -> false)
    (fun f ->
    if (=) (nthl i1 n1) (nthl i0 n0)
    then if (=) n1 0
         then true
         else if (=) n0 0
              then true
              else match_from_end_aux f i0 i1 (sub n0 (Stdlib.Int.succ 0))
                     (sub n1 (Stdlib.Int.succ 0))
    else false)
    fuel

(** val match_indices_from_end : int list -> int list -> bool **)

let match_indices_from_end i0 i1 =
  match_from_end_aux (add (length i0) (length i1)) i0 i1
    (sub (length i0) (Stdlib.Int.succ 0))
    (sub (length i1) (Stdlib.Int.succ 0))

(** val match_from_start_aux :
    int -> int list -> int list -> int -> int -> bool **)

let rec match_from_start_aux fuel i0 i1 n0 n1 =
  (fun fO fS n -> if n=0 then fO () else fS (n-1))
    (fun _ -> false)
    (fun f ->
    if (=) (nthl i1 n1) (nthl i0 n0)
    then if (=) n1 (sub (length i1) (Stdlib.Int.succ 0))
         then true
         else if (=) n0 (sub (length i0) (Stdlib.Int.succ 0))
              then true
              else match_from_start_aux f i0 i1 (add n0 (Stdlib.Int.succ 0))
                     (add n1 (Stdlib.Int.succ 0))
    else false)
    fuel

(** val match_indices_from_start : int list -> int list -> bool **)

let match_indices_from_start i0 i1 =
  match_from_start_aux (add (length i0) (length i1)) i0 i1 0 0

(** val match_two_ends_aux :
    int -> int list -> int list -> int -> int -> int -> bool **)

let rec match_two_ends_aux fuel i0 i1 nc n0 n1 =
  (fun fO fS n -> if n=0 then fO () else fS (n-1))
    (fun _ -> false)
    (fun f ->
    if (=) nc 0
    then false
    else if (=) nc (Stdlib.Int.succ 0)
         then (=) (nthl i1 n1) (nthl i0 (add (sub n0 nc) (Stdlib.Int.succ 0)))
         else if (=) (nthl i1 n1)
                   (nthl i0 (add (sub n0 nc) (Stdlib.Int.succ 0)))
              then match_two_ends_aux f i0 i1 (sub nc (Stdlib.Int.succ 0)) n0
                     (add n1 (Stdlib.Int.succ 0))
              else false)
    fuel

(** val no_of_unique : int list -> int **)

let no_of_unique ls =
  length (uniq ls)

(** val is_mat_vec : int list -> int list -> bool **)

let is_mat_vec i0 i1 =
  (&&) (match_indices_from_end i0 i1) (negb ((=) (length i0) (length i1)))

(** val is_vec_mat : int list -> int list -> bool **)

let is_vec_mat i0 i1 =
  (&&) (match_indices_from_start i0 i1) (negb ((=) (length i0) (length i1)))

(** val is_mat_mat : int list -> int list -> bool **)

let is_mat_mat i0 i1 =
  let nc = sub (add (length i0) (length i1)) (no_of_unique (app i0 i1)) in
  let is_inner =
    (&&) ((=) (length i0) (length i1))
      ((=) (no_of_unique (app i0 i1)) (length i1))
  in
  (&&)
    ((&&) ((&&) (negb (is_mat_vec i0 i1)) (negb (is_vec_mat i0 i1)))
      (negb is_inner))
    (match_two_ends_aux
      (add (add (length i0) (length i1)) (Stdlib.Int.succ 0)) i0 i1 nc
      (sub (length i0) (Stdlib.Int.succ 0)) 0)

(** val mem_nat : int -> int list -> bool **)

let mem_nat x l =
  existsb (fun y -> (=) y x) l

(** val pair_cost : int list -> int list -> int list -> int list -> int **)

let pair_cost i j dI dJ =
  mul (prod0 dI)
    (prod0
      (map snd (filter (fun ld -> negb (mem_nat (fst ld) i)) (combine j dJ))))

(** val res_labels : int list -> int list -> int list **)

let res_labels =
  out_labels

(** val res_dims :
    int list -> int list -> int list -> int list -> int list **)

let res_dims =
  out_dims

(** val concat_labels : int list -> int list -> int list **)

let concat_labels i j =
  uniq (app i j)

(** val concat_dims :
    int list -> int list -> int list -> int list -> int list **)

let concat_dims i j dI dJ =
  map (fun l -> ext_of l (app i j) (app dI dJ)) (uniq (app i j))

(** val argmin2 : int -> int -> int **)

let argmin2 m n0 =
  if Nat.ltb m n0 then 0 else Stdlib.Int.succ 0

(** val argmin3 : int -> int -> int -> int **)

let argmin3 m n0 r =
  let p = Nat.min m n0 in
  if (<=) p (Nat.min p r)
  then argmin2 m n0
  else add (argmin2 p r) (Stdlib.Int.succ 0)

(** val argmin4 : int -> int -> int -> int -> int **)

let argmin4 a b c d =
  let p = Nat.min a b in
  if (<=) p (Nat.min p (Nat.min c d))
  then argmin2 a b
  else add (argmin3 p c d) (Stdlib.Int.succ 0)

(** val triplet_costs :
    int list -> int list -> int list -> int list -> int list -> int list ->
    int list **)

let triplet_costs i0 i1 i2 d0 d1 d2 =
  (add (pair_cost i0 i1 d0 d1)
    (pair_cost (res_labels i0 i1) i2 (res_dims i0 i1 d0 d1) d2)) :: (
    (add (pair_cost i0 i2 d0 d2)
      (pair_cost (res_labels i0 i2) i1 (res_dims i0 i2 d0 d2) d1)) :: (
    (add (pair_cost i1 i2 d1 d2)
      (pair_cost (res_labels i1 i2) i0 (res_dims i1 i2 d1 d2) d0)) :: (
    (pair_cost (concat_labels i0 i1) i2 (concat_dims i0 i1 d0 d1) d2) :: [])))

(** val which_variant :
    int list -> int list -> int list -> int list -> int list -> int list ->
    int **)

let which_variant i0 i1 i2 d0 d1 d2 =
  match triplet_costs i0 i1 i2 d0 d1 d2 with
  | [] -> 0
  | a :: l ->
    (match l with
     | [] -> 0
     | b :: l0 ->
       (match l0 with
        | [] -> 0
        | c :: l1 ->
          (match l1 with
           | [] -> 0
           | d :: l2 -> (match l2 with
                         | [] -> argmin4 a b c d
                         | _ :: _ -> 0))))

(** val staged_labels :
    int -> int list -> int list -> int list -> int list **)

let staged_labels v i0 i1 i2 =
  (fun fO fS n -> if n=0 then fO () else fS (n-1))
    (fun _ -> res_labels (res_labels i0 i1) i2)
    (fun n0 ->
    (fun fO fS n -> if n=0 then fO () else fS (n-1))
      (fun _ -> res_labels i1 (res_labels i0 i2))
      (fun _ -> res_labels i0 (res_labels i1 i2))
      n0)
    v

(** val staged_dims :
    int -> int list -> int list -> int list -> int list -> int list -> int
    list -> int list **)

let staged_dims v i0 i1 i2 d0 d1 d2 =
  (fun fO fS n -> if n=0 then fO () else fS (n-1))
    (fun _ ->
    res_dims (res_labels i0 i1) i2 (res_dims i0 i1 d0 d1) d2)
    (fun n0 ->
    (fun fO fS n -> if n=0 then fO () else fS (n-1))
      (fun _ ->
      res_dims i1 (res_labels i0 i2) d1 (res_dims i0 i2 d0 d2))
      (fun _ -> res_dims i0 (res_labels i1 i2) d0 (res_dims i1 i2 d1 d2))
      n0)
    v

(** val min4 : int list -> int **)

let min4 = function
| [] -> 0
| a :: l0 ->
  (match l0 with
   | [] -> 0
   | b :: l1 ->
     (match l1 with
      | [] -> 0
      | c :: l2 ->
        (match l2 with
         | [] -> 0
         | d :: l3 ->
           (match l3 with
            | [] -> Nat.min (Nat.min a b) (Nat.min c d)
            | _ :: _ -> 0))))

(** val triple_then :
    int list -> int list -> int list -> int list -> int list -> int list ->
    int list -> int list -> int **)

let triple_then i0 i1 i2 i3 d0 d1 d2 d3 =
  let v = which_variant i0 i1 i2 d0 d1 d2 in
  add (min4 (triplet_costs i0 i1 i2 d0 d1 d2))
    (pair_cost (staged_labels v i0 i1 i2) i3
      (staged_dims v i0 i1 i2 d0 d1 d2) d3)

(** val quartet_costs :
    int list -> int list -> int list -> int list -> int list -> int list ->
    int list -> int list -> int list **)

let quartet_costs i0 i1 i2 i3 d0 d1 d2 d3 =
  (triple_then i0 i1 i2 i3 d0 d1 d2 d3) :: ((triple_then i0 i1 i3 i2 d0 d1 d3
                                              d2) :: ((triple_then i0 i2 i3
                                                        i1 d0 d2 d3 d1) :: (
    (triple_then i1 i2 i3 i0 d1 d2 d3 d0) :: [])))

(** val which_variant4 :
    int list -> int list -> int list -> int list -> int list -> int list ->
    int list -> int list -> int **)

let which_variant4 i0 i1 i2 i3 d0 d1 d2 d3 =
  match quartet_costs i0 i1 i2 i3 d0 d1 d2 d3 with
  | [] -> 0
  | a :: l ->
    (match l with
     | [] -> 0
     | b :: l0 ->
       (match l0 with
        | [] -> 0
        | c :: l1 ->
          (match l1 with
           | [] -> 0
           | d :: l2 -> (match l2 with
                         | [] -> argmin4 a b c d
                         | _ :: _ -> 0))))

(** val labels_consistent : int list -> int list -> bool **)

let labels_consistent l d =
  forallb (fun ld ->
    forallb (fun ld' ->
      (||) (negb ((=) (fst ld) (fst ld'))) ((=) (snd ld) (snd ld')))
      (combine l d)) (combine l d)

(** val pair :
    scalar -> int list -> int list -> int list -> int list -> (int -> t) ->
    (int -> t) -> int -> t **)

let pair =
  einsum_general

(** val network3 :
    scalar -> int list -> int list -> int list -> int list -> int list -> int
    list -> (int -> t) -> (int -> t) -> (int -> t) -> int -> t **)

let network3 s i0 i1 i2 d0 d1 d2 a b c =
  (fun fO fS n -> if n=0 then fO () else fS (n-1))
    (fun _ ->
    pair s (res_labels i0 i1) i2 (res_dims i0 i1 d0 d1) d2
      (pair s i0 i1 d0 d1 a b) c)
    (fun n0 ->
    (fun fO fS n -> if n=0 then fO () else fS (n-1))
      (fun _ ->
      pair s i1 (res_labels i0 i2) d1 (res_dims i0 i2 d0 d2) b
        (pair s i0 i2 d0 d2 a c))
      (fun _ ->
      pair s i0 (res_labels i1 i2) d0 (res_dims i1 i2 d1 d2) a
        (pair s i1 i2 d1 d2 b c))
      n0)
    (which_variant i0 i1 i2 d0 d1 d2)

(** val declared_dims3 :
    int list -> int list -> int list -> int list -> int list -> int list ->
    int list **)

let declared_dims3 i0 i1 i2 d0 d1 d2 =
  out_dims (app i0 i1) i2 (app d0 d1) d2

(** val stage4 :
    scalar -> bool -> int list -> int list -> int list -> int list -> int
    list -> int list -> int list -> int list -> (int -> t) -> (int -> t) ->
    (int -> t) -> (int -> t) -> bool * (int -> t) **)

let stage4 s first ia ib ic iw da db dc dw a b c w =
  let l = staged_labels (which_variant ia ib ic da db dc) ia ib ic in
  let dT = declared_dims3 ia ib ic da db dc in
  let tmp = network3 s ia ib ic da db dc a b c in
  if first
  then ((labels_consistent (app l iw) (app dT dw)), (pair s l iw dT dw tmp w))
  else ((labels_consistent (app iw l) (app dw dT)), (pair s iw l dw dT w tmp))

(** val network4 :
    scalar -> int list -> int list -> int list -> int list -> int list -> int
    list -> int list -> int list -> (int -> t) -> (int -> t) -> (int -> t) ->
    (int -> t) -> bool * (int -> t) **)

let network4 s i0 i1 i2 i3 d0 d1 d2 d3 a b c d =
  (fun fO fS n -> if n=0 then fO () else fS (n-1))
    (fun _ -> stage4 s true i0 i1 i2 i3 d0 d1 d2 d3 a b c d)
    (fun n0 ->
    (fun fO fS n -> if n=0 then fO () else fS (n-1))
      (fun _ -> stage4 s false i0 i1 i3 i2 d0 d1 d3 d2 a b d c)
      (fun n1 ->
      (fun fO fS n -> if n=0 then fO () else fS (n-1))
        (fun _ -> stage4 s false i0 i2 i3 i1 d0 d2 d3 d1 a c d b)
        (fun _ -> stage4 s false i1 i2 i3 i0 d1 d2 d3 d0 b c d a)
        n1)
      n0)
    (which_variant4 i0 i1 i2 i3 d0 d1 d2 d3)

(** val network4_accepts_all :
    scalar -> int list -> int list -> int list -> int list -> int list -> int
    list -> int list -> int list -> (int -> t) -> (int -> t) -> (int -> t) ->
    (int -> t) -> bool **)

let network4_accepts_all s i0 i1 i2 i3 d0 d1 d2 d3 a b c d =
  (&&)
    ((&&)
      ((&&) (fst (stage4 s true i0 i1 i2 i3 d0 d1 d2 d3 a b c d))
        (fst (stage4 s false i0 i1 i3 i2 d0 d1 d3 d2 a b d c)))
      (fst (stage4 s false i0 i2 i3 i1 d0 d2 d3 d1 a c d b)))
    (fst (stage4 s false i1 i2 i3 i0 d1 d2 d3 d0 b c d a))

(** val swapf : (int -> int) -> int -> int -> int -> int **)

let swapf p a b i =
  if (=) i a then p b else if (=) i b then p a else p i

(** val argmax_col :
    ('a1 -> 'a1 -> bool) -> (int -> int -> 'a1) -> int -> int -> int **)

let argmax_col gt a n0 j =
  fold_left (fun mi i -> if gt (a i j) (a mi j) then i else mi)
    (seq j (sub n0 j)) j

(** val pivot_step :
    ('a1 -> 'a1 -> bool) -> (int -> int -> 'a1) -> int -> (int -> int) -> int
    -> int -> int **)

let pivot_step gt a n0 p j =
  let mi = argmax_col gt a n0 j in if (=) j mi then p else swapf p j mi

(** val pivot_perm :
    ('a1 -> 'a1 -> bool) -> (int -> int -> 'a1) -> int -> int -> int **)

let pivot_perm gt a n0 =
  fold_left (pivot_step gt a n0) (seq 0 n0) (fun i -> i)

(** val apply_pivot :
    int -> (int -> int -> 'a1) -> (int -> int) -> int -> int -> 'a1 **)

let apply_pivot n0 a p =
  fold_left (fun b i ->
    if (=) (p i) i
    then b
    else (fun r c -> if (=) r i then a (p i) c else b r c)) (seq 0 n0) a

(** val reconstruct :
    int -> (int -> int -> 'a1) -> (int -> int) -> int -> int -> 'a1 **)

let reconstruct n0 a p =
  fold_left (fun b i ->
    if (=) (p i) i
    then b
    else (fun r c -> if (=) r (p i) then a i c else b r c)) (seq 0 n0) a

(** val reconstruct_colwise :
    int -> (int -> int -> 'a1) -> (int -> int) -> int -> int -> 'a1 **)

let reconstruct_colwise n0 a p =
  fold_left (fun b i ->
    if (=) (p i) i
    then b
    else (fun r c -> if (=) c (p i) then a r i else b r c)) (seq 0 n0) a

(** val wrap0 : z -> z -> z **)

let wrap0 w x =
  Z.sub
    (Z.modulo (Z.add x (Z.pow (Zpos (XO XH)) (Z.sub w (Zpos XH))))
      (Z.pow (Zpos (XO XH)) w)) (Z.pow (Zpos (XO XH)) (Z.sub w (Zpos XH)))

(** val map2 : ('a1 -> 'a2 -> 'a3) -> 'a1 list -> 'a2 list -> 'a3 list **)

let rec map2 f l m =
  match l with
  | [] -> []
  | a :: l' -> (match m with
                | [] -> []
                | b :: m' -> (f a b) :: (map2 f l' m'))

(** val l_add : z -> z -> z -> z **)

let l_add w a b =
  wrap0 w (Z.add a b)

(** val l_sub : z -> z -> z -> z **)

let l_sub w a b =
  wrap0 w (Z.sub a b)

(** val l_mul : z -> z -> z -> z **)

let l_mul w a b =
  wrap0 w (Z.mul a b)

(** val l_neg : z -> z -> z **)

let l_neg w a =
  wrap0 w (Z.sub Z0 a)

(** val l_abs : z -> z -> z **)

let l_abs w a =
  wrap0 w (Z.abs a)

(** val l_div : z -> z -> z -> z **)

let l_div _ =
  Z.quot

(** val v_add : z -> z list -> z list -> z list **)

let v_add w =
  map2 (l_add w)

(** val v_sub : z -> z list -> z list -> z list **)

let v_sub w =
  map2 (l_sub w)

(** val v_mul : z -> z list -> z list -> z list **)

let v_mul w =
  map2 (l_mul w)

(** val v_div : z -> z list -> z list -> z list **)

let v_div w =
  map2 (l_div w)

(** val v_min : z list -> z list -> z list **)

let v_min =
  map2 Z.min

(** val v_max : z list -> z list -> z list **)

let v_max =
  map2 Z.max

(** val v_neg : z -> z list -> z list **)

let v_neg w =
  map (l_neg w)

(** val v_abs : z -> z list -> z list **)

let v_abs w =
  map (l_abs w)

(** val v_fmadd : z -> z list -> z list -> z list -> z list **)

let v_fmadd w a b c =
  v_add w (v_mul w a b) c

(** val v_fmsub : z -> z list -> z list -> z list -> z list **)

let v_fmsub w a b c =
  v_sub w (v_mul w a b) c

(** val v_fnmadd : z -> z list -> z list -> z list -> z list **)

let v_fnmadd w a b c =
  v_sub w c (v_mul w a b)

(** val v_reverse : z list -> z list **)

let v_reverse =
  rev

(** val v_set : z list -> z list **)

let v_set =
  rev

(** val v_set_sequential : z -> int -> z -> z list **)

let v_set_sequential w n0 x =
  map (fun i -> wrap0 w (Z.add x (Z.of_nat i))) (seq 0 n0)

(** val h_sum : z -> z list -> z **)

let h_sum w l =
  fold_left (fun acc x -> wrap0 w (Z.add acc x)) l Z0

(** val h_prod : z -> z list -> z **)

let h_prod w l =
  fold_left (fun acc x -> wrap0 w (Z.mul acc x)) l (Zpos XH)

(** val h_dot : z -> z list -> z list -> z **)

let h_dot w a b =
  h_sum w (v_mul w a b)

(** val h_min : z list -> z **)

let h_min = function
| [] -> Z0
| x :: r -> fold_left Z.min r x

(** val h_max : z list -> z **)

let h_max = function
| [] -> Z0
| x :: r -> fold_left Z.max r x

(** val u32 : z -> z **)

let u32 x =
  Z.modulo x (Z.pow (Zpos (XO XH)) (Zpos (XO (XO (XO (XO (XO XH)))))))

(** val s32 : z -> z **)

let s32 x =
  wrap0 (Zpos (XO (XO (XO (XO (XO XH)))))) x

(** val ln : z list -> int -> z **)

let ln a k =
  nth k a Z0

(** val mM_SHUFFLE : z -> z -> z -> z -> z **)

let mM_SHUFFLE z0 y x w =
  Z.add
    (Z.add
      (Z.add (Z.mul z0 (Zpos (XO (XO (XO (XO (XO (XO XH))))))))
        (Z.mul y (Zpos (XO (XO (XO (XO XH)))))))
      (Z.mul x (Zpos (XO (XO XH))))) w

(** val shuffle_epi32 : z list -> z -> z list **)

let shuffle_epi32 a imm =
  map (fun k ->
    ln a
      (Z.to_nat
        (Z.modulo (Z.div imm (Z.pow (Zpos (XO (XO XH))) (Z.of_nat k))) (Zpos
          (XO (XO XH)))))) (0 :: ((Stdlib.Int.succ 0) :: ((Stdlib.Int.succ
    (Stdlib.Int.succ 0)) :: ((Stdlib.Int.succ (Stdlib.Int.succ
    (Stdlib.Int.succ 0))) :: []))))

(** val add_epi32 : z list -> z list -> z list **)

let add_epi32 a b =
  map2 (fun x y -> s32 (Z.add x y)) a b

(** val sub_epi32 : z list -> z list -> z list **)

let sub_epi32 a b =
  map2 (fun x y -> s32 (Z.sub x y)) a b

(** val mul_epu32 : z list -> z list -> z list **)

let mul_epu32 a b =
  let p0 = Z.mul (u32 (ln a 0)) (u32 (ln b 0)) in
  let p2 =
    Z.mul (u32 (ln a (Stdlib.Int.succ (Stdlib.Int.succ 0))))
      (u32 (ln b (Stdlib.Int.succ (Stdlib.Int.succ 0))))
  in
  (s32 p0) :: ((s32
                 (Z.div p0
                   (Z.pow (Zpos (XO XH)) (Zpos (XO (XO (XO (XO (XO XH))))))))) :: (
  (s32 p2) :: ((s32
                 (Z.div p2
                   (Z.pow (Zpos (XO XH)) (Zpos (XO (XO (XO (XO (XO XH))))))))) :: [])))

(** val unpacklo_epi32 : z list -> z list -> z list **)

let unpacklo_epi32 a b =
  (ln a 0) :: ((ln b 0) :: ((ln a (Stdlib.Int.succ 0)) :: ((ln b
                                                             (Stdlib.Int.succ
                                                             0)) :: [])))

(** val unpackhi_epi32 : z list -> z list -> z list **)

let unpackhi_epi32 a b =
  (ln a (Stdlib.Int.succ (Stdlib.Int.succ 0))) :: ((ln b (Stdlib.Int.succ
                                                     (Stdlib.Int.succ 0))) :: (
    (ln a (Stdlib.Int.succ (Stdlib.Int.succ (Stdlib.Int.succ 0)))) :: (
    (ln b (Stdlib.Int.succ (Stdlib.Int.succ (Stdlib.Int.succ 0)))) :: [])))

(** val unpacklo_epi64 : z list -> z list -> z list **)

let unpacklo_epi64 a b =
  (ln a 0) :: ((ln a (Stdlib.Int.succ 0)) :: ((ln b 0) :: ((ln b
                                                             (Stdlib.Int.succ
                                                             0)) :: [])))

(** val srai_epi32 : z list -> z -> z list **)

let srai_epi32 a k =
  map (fun x -> Z.shiftr x k) a

(** val xor_si128 : z list -> z list -> z list **)

let xor_si128 a b =
  map2 Z.coq_lxor a b

(** val cvtsi128_si32 : z list -> z **)

let cvtsi128_si32 a =
  ln a 0

(** val setzero : z list **)

let setzero =
  Z0 :: (Z0 :: (Z0 :: (Z0 :: [])))

(** val sum_epi32 : z list -> z **)

let sum_epi32 a =
  let c =
    add_epi32 a
      (shuffle_epi32 a
        (mM_SHUFFLE (Zpos (XO XH)) (Zpos (XI XH)) Z0 (Zpos XH)))
  in
  let d =
    add_epi32 c
      (shuffle_epi32 c
        (mM_SHUFFLE Z0 (Zpos XH) (Zpos (XO XH)) (Zpos (XI XH))))
  in
  cvtsi128_si32 d

(** val prod_epi32 : z list -> z **)

let prod_epi32 a =
  let c =
    mul_epu32 a
      (shuffle_epi32 a
        (mM_SHUFFLE (Zpos (XO XH)) (Zpos (XI XH)) Z0 (Zpos XH)))
  in
  let d =
    mul_epu32 c
      (shuffle_epi32 c
        (mM_SHUFFLE (Zpos (XO XH)) (Zpos (XO XH)) (Zpos (XO XH)) (Zpos (XO
          XH))))
  in
  cvtsi128_si32 d

(** val mul_epi32x_sse2 : z list -> z list -> z list **)

let mul_epi32x_sse2 a b =
  let a13 = shuffle_epi32 a (Zpos (XI (XO (XI (XO (XI (XI (XI XH)))))))) in
  let b13 = shuffle_epi32 b (Zpos (XI (XO (XI (XO (XI (XI (XI XH)))))))) in
  let prod02 = mul_epu32 a b in
  let prod13 = mul_epu32 a13 b13 in
  let prod01 = unpacklo_epi32 prod02 prod13 in
  let prod23 = unpackhi_epi32 prod02 prod13 in unpacklo_epi64 prod01 prod23

(** val reverse_epi32 : z list -> z list **)

let reverse_epi32 a =
  shuffle_epi32 a (Zpos (XI (XI (XO (XI XH)))))

(** val abs_epi32_sse2 : z list -> z list **)

let abs_epi32_sse2 a =
  let sign = srai_epi32 a (Zpos (XI (XI (XI (XI XH))))) in
  let inv = xor_si128 a sign in sub_epi32 inv sign

(** val neg_epi32 : z list -> z list **)

let neg_epi32 a =
  sub_epi32 setzero a

(** val dot_epi32_sse2 : z list -> z list -> z **)

let dot_epi32_sse2 a b =
  sum_epi32 (mul_epi32x_sse2 a b)

(** val mask_to_array : int -> z -> bool list **)

let mask_to_array n0 mask0 =
  map (fun i ->
    Z.testbit mask0 (Z.of_nat (sub (sub n0 i) (Stdlib.Int.succ 0))))
    (seq 0 n0)

(** val mask_store_fb : int -> z -> z list -> (int -> z) -> int -> z **)

let mask_store_fb n0 mask0 v mem0 =
  fold_left (fun m i ->
    if nth i (mask_to_array n0 mask0) false
    then (fun q ->
           if (=) q (sub (sub n0 i) (Stdlib.Int.succ 0))
           then nth (sub (sub n0 i) (Stdlib.Int.succ 0)) v Z0
           else m q)
    else m) (seq 0 n0) mem0

(** val mask_load_fb : int -> z -> (int -> z) -> z list **)

let mask_load_fb n0 mask0 mem0 =
  let reg =
    fold_left (fun r i ->
      if nth i (mask_to_array n0 mask0) false
      then (fun q ->
             if (=) q (sub (sub n0 i) (Stdlib.Int.succ 0))
             then mem0 (sub (sub n0 i) (Stdlib.Int.succ 0))
             else r q)
      else r) (seq 0 n0) (fun _ -> Z0)
  in
  map reg (seq 0 n0)

(** val sa_step :
    ('a1 -> 'a1 -> bool) -> ('a1 -> ('a1 -> 'a2) -> 'a2) -> ('a1 -> 'a2) ->
    'a1 -> 'a1 -> 'a2 **)

let sa_step eqb0 g v i =
  let x = g i v in (fun k -> if eqb0 k i then x else v k)

(** val sa_run :
    ('a1 -> 'a1 -> bool) -> ('a1 -> ('a1 -> 'a2) -> 'a2) -> 'a1 list -> ('a1
    -> 'a2) -> 'a1 -> 'a2 **)

let sa_run eqb0 g order v0 =
  fold_left (sa_step eqb0 g) order v0

type mat = int -> int -> t

type vec0 = int -> t

(** val fsub_g : scalar -> mat -> vec0 -> int -> vec0 -> t **)

let fsub_g s l b i y =
  s.ssub (b i) (sum_n s (fun k -> s.smul (l i k) (y k)) i)

(** val fsub : scalar -> int -> mat -> vec0 -> vec0 **)

let fsub s n0 l b =
  sa_run (=) (fsub_g s l b) (seq 0 n0) (fun _ -> s.s0)

(** val bsub_g : scalar -> int -> mat -> vec0 -> int -> vec0 -> t **)

let bsub_g s n0 u y i x =
  s.sdiv
    (s.ssub (y i)
      (sum_n s (fun k ->
        s.smul (u i (add (add i (Stdlib.Int.succ 0)) k))
          (x (add (add i (Stdlib.Int.succ 0)) k)))
        (sub (sub n0 (Stdlib.Int.succ 0)) i))) (u i i)

(** val bsub : scalar -> int -> mat -> vec0 -> vec0 **)

let bsub s n0 u y =
  sa_run (=) (bsub_g s n0 u y) (rev (seq 0 n0)) (fun _ -> s.s0)

type key = bool * (int * int)

(** val key_eqb : key -> key -> bool **)

let key_eqb a b =
  (&&) ((&&) (eqb (fst a) (fst b)) ((=) (fst (snd a)) (fst (snd b))))
    ((=) (snd (snd a)) (snd (snd b)))

(** val lk : int -> int -> key **)

let lk i j =
  (true, (i, j))

(** val uk : int -> int -> key **)

let uk i j =
  (false, (i, j))

(** val lu_g : scalar -> mat -> key -> (key -> t) -> t **)

let lu_g s a q v =
  let (isL, p) = q in
  let (i, j) = p in
  if isL
  then s.sdiv
         (s.ssub (a i j)
           (sum_n s (fun k -> s.smul (v (lk i k)) (v (uk k j))) j))
         (v (uk j j))
  else s.ssub (a i j) (sum_n s (fun k -> s.smul (v (lk i k)) (v (uk k j))) i)

(** val unrank : int -> int -> key **)

let unrank n0 p =
  let j = Nat.div p (mul (Stdlib.Int.succ (Stdlib.Int.succ 0)) n0) in
  let r = Nat.modulo p (mul (Stdlib.Int.succ (Stdlib.Int.succ 0)) n0) in
  if Nat.ltb r n0 then uk r j else lk (sub r n0) j

(** val valid : key -> bool **)

let valid = function
| (isL, p) -> let (i, j) = p in if isL then (<=) j i else (<=) i j

(** val lu_order : int -> key list **)

let lu_order n0 =
  filter valid
    (map (unrank n0)
      (seq 0 (mul (mul (Stdlib.Int.succ (Stdlib.Int.succ 0)) n0) n0)))

(** val doolittle : scalar -> int -> mat -> key -> t **)

let doolittle s n0 a =
  sa_run key_eqb (lu_g s a) (lu_order n0) (fun _ -> s.s0)

(** val lu_L : scalar -> int -> mat -> mat **)

let lu_L s n0 a i j =
  doolittle s n0 a (lk i j)

(** val lu_U : scalar -> int -> mat -> mat **)

let lu_U s n0 a i j =
  doolittle s n0 a (uk i j)

(** val lu_solve : scalar -> int -> mat -> vec0 -> vec0 **)

let lu_solve s n0 a b =
  bsub s n0 (lu_U s n0 a) (fsub s n0 (lu_L s n0 a) b)

(** val lu_inverse : scalar -> int -> mat -> mat **)

let lu_inverse s n0 a i j =
  lu_solve s n0 a (fun r -> if (=) r j then s.s1 else s.s0) i

(** val run_matmul_Z :
    cfg -> ety -> int -> int -> int -> z list -> z list -> z list **)

let run_matmul_Z c t0 m k n0 a b =
  map
    (Obj.magic matmul zS c t0 m k n0 (fun i ->
      nth i (Obj.magic a) (Obj.magic Z0)) (fun i ->
      nth i (Obj.magic b) (Obj.magic Z0)) (fun _ ->
      Obj.magic (Zpos (XI (XO (XO (XO (XI (XO (XI (XI (XI (XI (XI (XI (XO (XI
        (XO (XO XH)))))))))))))))))))
    (seq 0 (add (mul m n0) (Stdlib.Int.succ (Stdlib.Int.succ 0))))

(** val run_matmul_C :
    cfg -> ety -> int -> int -> int -> (z * z) list -> (z * z) list ->
    (z * z) list **)

let run_matmul_C c t0 m k n0 a b =
  map
    (Obj.magic matmul zC c t0 m k n0 (fun i ->
      nth i (Obj.magic a) (Obj.magic (Z0, Z0))) (fun i ->
      nth i (Obj.magic b) (Obj.magic (Z0, Z0))) (fun _ ->
      Obj.magic ((Zpos (XI (XO (XO (XO (XI (XO (XI (XI (XI (XI (XI (XI (XO
        (XI (XO (XO XH))))))))))))))))), Z0)))
    (seq 0 (add (mul m n0) (Stdlib.Int.succ (Stdlib.Int.succ 0))))

(** val run_best_vsize : cfg -> int list list **)

let run_best_vsize c =
  map (fun t0 ->
    map (fun n0 -> best_vsize c t0 (Stdlib.Int.succ n0))
      (seq 0 (Stdlib.Int.succ (Stdlib.Int.succ (Stdlib.Int.succ
        (Stdlib.Int.succ (Stdlib.Int.succ (Stdlib.Int.succ (Stdlib.Int.succ
        (Stdlib.Int.succ (Stdlib.Int.succ (Stdlib.Int.succ (Stdlib.Int.succ
        (Stdlib.Int.succ (Stdlib.Int.succ (Stdlib.Int.succ (Stdlib.Int.succ
        (Stdlib.Int.succ (Stdlib.Int.succ (Stdlib.Int.succ (Stdlib.Int.succ
        (Stdlib.Int.succ (Stdlib.Int.succ (Stdlib.Int.succ (Stdlib.Int.succ
        (Stdlib.Int.succ (Stdlib.Int.succ (Stdlib.Int.succ (Stdlib.Int.succ
        (Stdlib.Int.succ (Stdlib.Int.succ (Stdlib.Int.succ (Stdlib.Int.succ
        (Stdlib.Int.succ (Stdlib.Int.succ (Stdlib.Int.succ (Stdlib.Int.succ
        (Stdlib.Int.succ (Stdlib.Int.succ (Stdlib.Int.succ (Stdlib.Int.succ
        (Stdlib.Int.succ (Stdlib.Int.succ (Stdlib.Int.succ (Stdlib.Int.succ
        (Stdlib.Int.succ (Stdlib.Int.succ (Stdlib.Int.succ (Stdlib.Int.succ
        (Stdlib.Int.succ (Stdlib.Int.succ (Stdlib.Int.succ (Stdlib.Int.succ
        (Stdlib.Int.succ (Stdlib.Int.succ (Stdlib.Int.succ (Stdlib.Int.succ
        (Stdlib.Int.succ (Stdlib.Int.succ (Stdlib.Int.succ (Stdlib.Int.succ
        (Stdlib.Int.succ (Stdlib.Int.succ (Stdlib.Int.succ (Stdlib.Int.succ
        (Stdlib.Int.succ (Stdlib.Int.succ (Stdlib.Int.succ (Stdlib.Int.succ
        (Stdlib.Int.succ (Stdlib.Int.succ (Stdlib.Int.succ (Stdlib.Int.succ
        (Stdlib.Int.succ (Stdlib.Int.succ (Stdlib.Int.succ (Stdlib.Int.succ
        (Stdlib.Int.succ (Stdlib.Int.succ (Stdlib.Int.succ (Stdlib.Int.succ
        (Stdlib.Int.succ
        0))))))))))))))))))))))))))))))))))))))))))))))))))))))))))))))))))))))))))))))))))
    (ty_double :: (ty_float :: (ty_int32 :: (ty_int64 :: []))))

(** val run_tmatmul_Z :
    cfg -> ety -> int -> int -> int -> int -> int -> z list -> z list -> z
    list **)

let run_tmatmul_Z c t0 tl tr m k n0 a b =
  map
    (Obj.magic tmatmul zS c t0 tl tr m k n0 (fun i ->
      nth i (Obj.magic a) (Obj.magic Z0)) (fun i ->
      nth i (Obj.magic b) (Obj.magic Z0)) (fun _ ->
      Obj.magic (Zpos (XI (XO (XO (XO (XI (XO (XI (XI (XI (XI (XI (XI (XO (XI
        (XO (XO XH)))))))))))))))))))
    (seq 0 (add (mul m n0) (Stdlib.Int.succ (Stdlib.Int.succ 0))))

(** val run_tmatmul_C :
    cfg -> ety -> int -> int -> int -> int -> int -> (z * z) list -> (z * z)
    list -> (z * z) list **)

let run_tmatmul_C c t0 tl tr m k n0 a b =
  map
    (Obj.magic tmatmul zC c t0 tl tr m k n0 (fun i ->
      nth i (Obj.magic a) (Obj.magic (Z0, Z0))) (fun i ->
      nth i (Obj.magic b) (Obj.magic (Z0, Z0))) (fun _ ->
      Obj.magic ((Zpos (XI (XO (XO (XO (XI (XO (XI (XI (XI (XI (XI (XI (XO
        (XI (XO (XO XH))))))))))))))))), Z0)))
    (seq 0 (add (mul m n0) (Stdlib.Int.succ (Stdlib.Int.succ 0))))

(** val run_assign_Z :
    z -> int -> int -> bool -> int option -> expr -> z list list -> z list **)

let run_assign_Z bits w n0 boolean aop e tensors =
  let m = fun k i ->
    nth i (nth k tensors []) (Zpos (XI (XO (XO (XO (XI (XO (XI (XI (XI (XI
      (XI (XI (XO (XI (XO (XO XH)))))))))))))))))
  in
  let o = int_sops bits in
  map (Obj.magic assign zS o (vops_of zS o) w 0 n0 boolean aop e m 0)
    (seq 0 (add n0 (Stdlib.Int.succ (Stdlib.Int.succ 0))))

(** val run_reduce_Z : z -> int -> z list -> z -> z -> z list **)

let run_reduce_Z bits w data lo hi =
  let n0 = length data in
  let f = fun i -> nth i data Z0 in
  (reduce (int_bin bits 0) Z0 w n0 f) :: ((reduce
                                            (int_bin bits (Stdlib.Int.succ
                                              (Stdlib.Int.succ 0))) (Zpos XH)
                                            w n0 f) :: ((reduce Z.min hi w n0
                                                          f) :: ((reduce
                                                                   Z.max lo w
                                                                   n0 f) :: [])))

(** val run_preds : bool list -> bool list **)

let run_preds data =
  let n0 = length data in
  let f = fun i -> nth i data false in
  (all_of f n0) :: ((any_of f n0) :: ((none_of f n0) :: []))

(** val run_det_Z : int -> z list -> z **)

let run_det_Z n0 a =
  let f = fun i -> nth i a Z0 in
  ((fun fO fS n -> if n=0 then fO () else fS (n-1))
     (fun _ -> det_spec n0 f)
     (fun n1 ->
     (fun fO fS n -> if n=0 then fO () else fS (n-1))
       (fun _ -> det_spec n0 f)
       (fun n2 ->
       (fun fO fS n -> if n=0 then fO () else fS (n-1))
         (fun _ -> det2 f)
         (fun n3 ->
         (fun fO fS n -> if n=0 then fO () else fS (n-1))
           (fun _ -> det3 f)
           (fun n4 ->
           (fun fO fS n -> if n=0 then fO () else fS (n-1))
             (fun _ -> det4 f)
             (fun _ -> det_spec n0 f)
             n4)
           n3)
         n2)
       n1)
     n0)

(** val run_view :
    bool -> int list -> ((z * z) * z) list -> int list * int list **)

let run_view oned pdims rs =
  let v =
    map (fun dr ->
      let (d, p) = dr in
      let (p0, s) = p in
      let (f, l) = p0 in
      to_nrange
        (if oned
         then norm1d (Z.of_nat d) { uf = f; ul = l; us = s }
         else normnd (Z.of_nat d) { uf = f; ul = l; us = s }))
      (combine pdims rs)
  in
  ((vdims v), (map (view_off pdims v) (seq 0 (prod0 (vdims v)))))

(** val run_admissible : bool -> int -> ((z * z) * z) -> bool **)

let run_admissible oned d = function
| (p, s) ->
  let (f, l) = p in
  let u =
    if oned
    then norm1d (Z.of_nat d) { uf = f; ul = l; us = s }
    else normnd (Z.of_nat d) { uf = f; ul = l; us = s }
  in
  (&&)
    ((&&)
      ((&&) ((&&) (Z.leb Z0 u.uf) (Z.leb u.uf u.ul))
        (Z.leb u.ul (Z.of_nat d))) (Z.leb (Zpos XH) u.us))
    (Z.ltb u.uf (Z.of_nat d))

(** val rv_op : int -> z -> z -> z **)

let rv_op op =
  if (=) op (Stdlib.Int.succ (Stdlib.Int.succ (Stdlib.Int.succ
       (Stdlib.Int.succ (Stdlib.Int.succ (Stdlib.Int.succ (Stdlib.Int.succ
       (Stdlib.Int.succ (Stdlib.Int.succ (Stdlib.Int.succ (Stdlib.Int.succ
       (Stdlib.Int.succ (Stdlib.Int.succ (Stdlib.Int.succ (Stdlib.Int.succ
       (Stdlib.Int.succ (Stdlib.Int.succ (Stdlib.Int.succ (Stdlib.Int.succ
       (Stdlib.Int.succ (Stdlib.Int.succ (Stdlib.Int.succ (Stdlib.Int.succ
       (Stdlib.Int.succ (Stdlib.Int.succ (Stdlib.Int.succ (Stdlib.Int.succ
       (Stdlib.Int.succ (Stdlib.Int.succ (Stdlib.Int.succ (Stdlib.Int.succ
       (Stdlib.Int.succ (Stdlib.Int.succ (Stdlib.Int.succ (Stdlib.Int.succ
       (Stdlib.Int.succ (Stdlib.Int.succ (Stdlib.Int.succ (Stdlib.Int.succ
       (Stdlib.Int.succ (Stdlib.Int.succ (Stdlib.Int.succ (Stdlib.Int.succ
       (Stdlib.Int.succ (Stdlib.Int.succ (Stdlib.Int.succ (Stdlib.Int.succ
       (Stdlib.Int.succ (Stdlib.Int.succ (Stdlib.Int.succ (Stdlib.Int.succ
       (Stdlib.Int.succ (Stdlib.Int.succ (Stdlib.Int.succ (Stdlib.Int.succ
       (Stdlib.Int.succ (Stdlib.Int.succ (Stdlib.Int.succ (Stdlib.Int.succ
       (Stdlib.Int.succ (Stdlib.Int.succ (Stdlib.Int.succ (Stdlib.Int.succ
       (Stdlib.Int.succ (Stdlib.Int.succ (Stdlib.Int.succ (Stdlib.Int.succ
       (Stdlib.Int.succ (Stdlib.Int.succ (Stdlib.Int.succ (Stdlib.Int.succ
       (Stdlib.Int.succ (Stdlib.Int.succ (Stdlib.Int.succ (Stdlib.Int.succ
       (Stdlib.Int.succ (Stdlib.Int.succ (Stdlib.Int.succ (Stdlib.Int.succ
       (Stdlib.Int.succ (Stdlib.Int.succ (Stdlib.Int.succ (Stdlib.Int.succ
       (Stdlib.Int.succ (Stdlib.Int.succ (Stdlib.Int.succ (Stdlib.Int.succ
       (Stdlib.Int.succ (Stdlib.Int.succ (Stdlib.Int.succ (Stdlib.Int.succ
       (Stdlib.Int.succ (Stdlib.Int.succ (Stdlib.Int.succ (Stdlib.Int.succ
       (Stdlib.Int.succ (Stdlib.Int.succ (Stdlib.Int.succ (Stdlib.Int.succ
       (Stdlib.Int.succ
       0))))))))))))))))))))))))))))))))))))))))))))))))))))))))))))))))))))))))))))))))))))))))))))))))))))
  then (fun _ y -> y)
  else int_bin (Zpos (XO (XO (XO (XO (XO (XO XH))))))) op

(** val run_rv_read : int list -> z list -> z list **)

let run_rv_read idx a =
  rv_read (fun p ->
    nth p a (Zpos (XI (XO (XO (XO (XI (XO (XI (XI (XI (XI (XI (XI (XO (XI (XO
      (XO XH)))))))))))))))))) idx

(** val run_rv_write : int -> int list -> z list -> z list -> z list **)

let run_rv_write op idx rhs a =
  map
    (rv_write (rv_op op) idx (fun k -> nth k rhs Z0) (fun p ->
      nth p a (Zpos (XI (XO (XO (XO (XI (XO (XI (XI (XI (XI (XI (XI (XO (XI
        (XO (XO XH)))))))))))))))))))
    (seq 0 (add (length a) (Stdlib.Int.succ 0)))

(** val run_filter_write : int -> bool list -> z list -> z list -> z list **)

let run_filter_write op mask0 rhs a =
  map
    (filter_write (rv_op op) (fun p -> nth p mask0 false) (fun p ->
      nth p rhs Z0) (length a) (fun p ->
      nth p a (Zpos (XI (XO (XO (XO (XI (XO (XI (XI (XI (XI (XI (XI (XO (XI
        (XO (XO XH)))))))))))))))))))
    (seq 0 (add (length a) (Stdlib.Int.succ 0)))

(** val run_idx2 : int -> int list -> int list -> int list **)

let run_idx2 =
  idx2

(** val run_idx_col : int -> int list -> int -> int list **)

let run_idx_col =
  idx_col

(** val run_idx_row : int -> int -> int list -> int list **)

let run_idx_row =
  idx_row

(** val run_idx_it_range :
    int -> int list -> int -> ((z * z) * z) -> int list **)

let run_idx_it_range ncols it0 d = function
| (p, s) ->
  let (f, l) = p in
  idx_it_range ncols it0
    (to_nrange (normnd (Z.of_nat d) { uf = f; ul = l; us = s }))

(** val run_idx_range_it :
    int -> int -> ((z * z) * z) -> int list -> int list **)

let run_idx_range_it ncols d r it1 =
  let (p, s) = r in
  let (f, l) = p in
  idx_range_it ncols
    (to_nrange (normnd (Z.of_nat d) { uf = f; ul = l; us = s })) it1

(** val run_torowmajor : int list -> int list **)

let run_torowmajor dims =
  map (torowmajor dims (fun p -> p)) (seq 0 (prod0 dims))

(** val run_tocolumnmajor : int list -> int list **)

let run_tocolumnmajor dims =
  map (tocolumnmajor dims (fun p -> p)) (seq 0 (prod0 dims))

(** val run_permute : bool -> int list -> int list -> int list * int list **)

let run_permute cxx17 p dims =
  ((gatherp p dims),
    (map
      (if cxx17
       then permute17 p dims (fun q -> q)
       else permute14 p dims (fun q -> q)) (seq 0 (prod0 dims))))

(** val run_transpose : int -> int -> int -> z list **)

let run_transpose v m n0 =
  map
    (Obj.magic transpose_tiled zS v m n0 (fun q -> Obj.magic Z.of_nat q)
      (fun _ ->
      Obj.magic (Zpos (XI (XO (XO (XO (XI (XO (XI (XI (XI (XI (XI (XI (XO (XI
        (XO (XO XH)))))))))))))))))))
    (seq 0 (add (mul m n0) (Stdlib.Int.succ (Stdlib.Int.succ 0))))

(** val run_invp : int list -> int list **)

let run_invp =
  invp

(** val run_einsum :
    int list -> int list -> int list -> int list -> z list -> z list -> int
    list * z list **)

let run_einsum i j dimsA dimsB a b =
  let od = out_dims i j dimsA dimsB in
  (od,
  (map
    (Obj.magic einsum_general zS i j dimsA dimsB (fun p ->
      nth p (Obj.magic a) (Obj.magic Z0)) (fun p ->
      nth p (Obj.magic b) (Obj.magic Z0))) (seq 0 (prod0 od))))

(** val run_classify : int list -> int list -> bool list **)

let run_classify i j =
  (is_mat_vec i j) :: ((is_vec_mat i j) :: ((is_mat_mat i j) :: []))

(** val run_network3 :
    int list -> int list -> int list -> int list -> int list -> int list -> z
    list -> z list -> z list -> int list * (int list * z list) **)

let run_network3 i0 i1 i2 d0 d1 d2 a b c =
  let od = out_dims (app i0 i1) i2 (app d0 d1) d2 in
  (((which_variant i0 i1 i2 d0 d1 d2) :: []), (od,
  (map
    (Obj.magic network3 zS i0 i1 i2 d0 d1 d2 (fun p ->
      nth p (Obj.magic a) (Obj.magic Z0)) (fun p ->
      nth p (Obj.magic b) (Obj.magic Z0)) (fun p ->
      nth p (Obj.magic c) (Obj.magic Z0))) (seq 0 (prod0 od)))))

(** val run_triplet_costs :
    int list -> int list -> int list -> int list -> int list -> int list ->
    int list **)

let run_triplet_costs =
  triplet_costs

(** val run_network4 :
    int list -> int list -> int list -> int list -> int list -> int list ->
    int list -> int list -> z list -> z list -> z list -> z list -> int
    list * (bool list * z list) **)

let run_network4 i0 i1 i2 i3 d0 d1 d2 d3 a b c d =
  let od = out_dims (app i0 (app i1 i2)) i3 (app d0 (app d1 d2)) d3 in
  let r =
    network4 zS i0 i1 i2 i3 d0 d1 d2 d3 (fun p ->
      nth p (Obj.magic a) (Obj.magic Z0)) (fun p ->
      nth p (Obj.magic b) (Obj.magic Z0)) (fun p ->
      nth p (Obj.magic c) (Obj.magic Z0)) (fun p ->
      nth p (Obj.magic d) (Obj.magic Z0))
  in
  (((which_variant4 i0 i1 i2 i3 d0 d1 d2 d3) :: (quartet_costs i0 i1 i2 i3 d0
                                                  d1 d2 d3)),
  (((fst r) :: ((network4_accepts_all zS i0 i1 i2 i3 d0 d1 d2 d3 (fun p ->
                  nth p (Obj.magic a) (Obj.magic Z0)) (fun p ->
                  nth p (Obj.magic b) (Obj.magic Z0)) (fun p ->
                  nth p (Obj.magic c) (Obj.magic Z0)) (fun p ->
                  nth p (Obj.magic d) (Obj.magic Z0))) :: [])),
  (if fst r then map (snd (Obj.magic r)) (seq 0 (prod0 od)) else [])))

(** val run_simd_int : z -> int -> z list -> z list -> z list -> z list **)

let run_simd_int w op a b c =
  (fun fO fS n -> if n=0 then fO () else fS (n-1))
    (fun _ -> v_add w a b)
    (fun n0 ->
    (fun fO fS n -> if n=0 then fO () else fS (n-1))
      (fun _ -> v_sub w a b)
      (fun n1 ->
      (fun fO fS n -> if n=0 then fO () else fS (n-1))
        (fun _ -> v_mul w a b)
        (fun n2 ->
        (fun fO fS n -> if n=0 then fO () else fS (n-1))
          (fun _ -> v_div w a b)
          (fun n3 ->
          (fun fO fS n -> if n=0 then fO () else fS (n-1))
            (fun _ -> v_neg w a)
            (fun n4 ->
            (fun fO fS n -> if n=0 then fO () else fS (n-1))
              (fun _ -> v_abs w a)
              (fun n5 ->
              (fun fO fS n -> if n=0 then fO () else fS (n-1))
                (fun _ -> v_min a b)
                (fun n6 ->
                (fun fO fS n -> if n=0 then fO () else fS (n-1))
                  (fun _ -> v_max a b)
                  (fun n7 ->
                  (fun fO fS n -> if n=0 then fO () else fS (n-1))
                    (fun _ -> v_fmadd w a b c)
                    (fun n8 ->
                    (fun fO fS n -> if n=0 then fO () else fS (n-1))
                      (fun _ -> v_fmsub w a b c)
                      (fun n9 ->
                      (fun fO fS n -> if n=0 then fO () else fS (n-1))
                        (fun _ -> v_fnmadd w a b c)
                        (fun n10 ->
                        (fun fO fS n -> if n=0 then fO () else fS (n-1))
                          (fun _ -> v_reverse a)
                          (fun n11 ->
                          (fun fO fS n -> if n=0 then fO () else fS (n-1))
                            (fun _ -> v_set a)
                            (fun n12 ->
                            (fun fO fS n -> if n=0 then fO () else fS (n-1))
                              (fun _ ->
                              v_set_sequential w (length a) (nth 0 a Z0))
                              (fun n13 ->
                              (fun fO fS n -> if n=0 then fO () else fS (n-1))
                                (fun _ -> (h_sum w a) :: [])
                                (fun n14 ->
                                (fun fO fS n -> if n=0 then fO () else fS (n-1))
                                  (fun _ -> (h_prod w a) :: [])
                                  (fun n15 ->
                                  (fun fO fS n -> if n=0 then fO () else fS (n-1))
                                    (fun _ -> (h_dot w a b) :: [])
                                    (fun n16 ->
                                    (fun fO fS n -> if n=0 then fO () else fS (n-1))
                                      (fun _ -> (h_min a) :: [])
                                      (fun _ -> (h_max a) :: [])
                                      n16)
                                    n15)
                                  n14)
                                n13)
                              n12)
                            n11)
                          n10)
                        n9)
                      n8)
                    n7)
                  n6)
                n5)
              n4)
            n3)
          n2)
        n1)
      n0)
    op

(** val run_simd_sse2 : int -> z list -> z list -> z list **)

let run_simd_sse2 op a b =
  (fun fO fS n -> if n=0 then fO () else fS (n-1))
    (fun _ -> (dot_epi32_sse2 a b) :: [])
    (fun n0 ->
    (fun fO fS n -> if n=0 then fO () else fS (n-1))
      (fun _ -> (dot_epi32_sse2 a b) :: [])
      (fun n1 ->
      (fun fO fS n -> if n=0 then fO () else fS (n-1))
        (fun _ -> mul_epi32x_sse2 a b)
        (fun n2 ->
        (fun fO fS n -> if n=0 then fO () else fS (n-1))
          (fun _ -> (dot_epi32_sse2 a b) :: [])
          (fun n3 ->
          (fun fO fS n -> if n=0 then fO () else fS (n-1))
            (fun _ -> neg_epi32 a)
            (fun n4 ->
            (fun fO fS n -> if n=0 then fO () else fS (n-1))
              (fun _ -> abs_epi32_sse2 a)
              (fun n5 ->
              (fun fO fS n -> if n=0 then fO () else fS (n-1))
                (fun _ -> (dot_epi32_sse2 a b) :: [])
                (fun n6 ->
                (fun fO fS n -> if n=0 then fO () else fS (n-1))
                  (fun _ -> (dot_epi32_sse2 a b) :: [])
                  (fun n7 ->
                  (fun fO fS n -> if n=0 then fO () else fS (n-1))
                    (fun _ -> (dot_epi32_sse2 a b) :: [])
                    (fun n8 ->
                    (fun fO fS n -> if n=0 then fO () else fS (n-1))
                      (fun _ -> (dot_epi32_sse2 a b) :: [])
                      (fun n9 ->
                      (fun fO fS n -> if n=0 then fO () else fS (n-1))
                        (fun _ -> (dot_epi32_sse2 a b) :: [])
                        (fun n10 ->
                        (fun fO fS n -> if n=0 then fO () else fS (n-1))
                          (fun _ -> reverse_epi32 a)
                          (fun n11 ->
                          (fun fO fS n -> if n=0 then fO () else fS (n-1))
                            (fun _ -> (dot_epi32_sse2 a b) :: [])
                            (fun n12 ->
                            (fun fO fS n -> if n=0 then fO () else fS (n-1))
                              (fun _ ->
                              (dot_epi32_sse2 a b) :: [])
                              (fun n13 ->
                              (fun fO fS n -> if n=0 then fO () else fS (n-1))
                                (fun _ -> (sum_epi32 a) :: [])
                                (fun n14 ->
                                (fun fO fS n -> if n=0 then fO () else fS (n-1))
                                  (fun _ -> (prod_epi32 a) :: [])
                                  (fun _ -> (dot_epi32_sse2 a b) :: [])
                                  n14)
                                n13)
                              n12)
                            n11)
                          n10)
                        n9)
                      n8)
                    n7)
                  n6)
                n5)
              n4)
            n3)
          n2)
        n1)
      n0)
    op

(** val run_mask_store : int -> z -> z list -> z list -> z list **)

let run_mask_store n0 mask0 v mem0 =
  map (mask_store_fb n0 mask0 v (fun q -> nth q mem0 Z0))
    (seq 0 (length mem0))

(** val run_mask_load : int -> z -> z list -> z list **)

let run_mask_load n0 mask0 mem0 =
  mask_load_fb n0 mask0 (fun q -> nth q mem0 Z0)

(** val mat_of : int -> z list -> int -> int -> z **)

let mat_of n0 l i j =
  nth (add (mul i n0) j) l Z0

(** val list_of : int -> int -> (int -> int -> z) -> z list **)

let list_of n0 m a =
  flat_map (fun i -> map (a i) (seq 0 m)) (seq 0 n0)

(** val run_lu : int -> z list -> z list * z list **)

let run_lu n0 a =
  ((list_of n0 n0 (Obj.magic lu_L zS n0 (mat_of n0 a))),
    (list_of n0 n0 (Obj.magic lu_U zS n0 (mat_of n0 a))))

(** val run_lu_inverse : int -> z list -> z list **)

let run_lu_inverse n0 a =
  list_of n0 n0 (Obj.magic lu_inverse zS n0 (mat_of n0 a))

(** val run_lu_solve : int -> int -> z list -> z list -> z list **)

let run_lu_solve n0 c a b =
  list_of n0 c (fun i j ->
    Obj.magic lu_solve zS n0 (mat_of n0 a) (fun r ->
      nth (add (mul r c) j) (Obj.magic b) (Obj.magic Z0)) i)

(** val zabs_gt : z -> z -> bool **)

let zabs_gt a b =
  Z.ltb (Z.abs b) (Z.abs a)

(** val permf : int list -> int -> int **)

let permf p i =
  nth i p 0

(** val run_pivot : int -> z list -> int list **)

let run_pivot n0 a =
  map (pivot_perm zabs_gt (mat_of n0 a) n0) (seq 0 n0)

(** val run_apply_pivot : int -> z list -> int list -> z list **)

let run_apply_pivot n0 a p =
  list_of n0 n0 (apply_pivot n0 (mat_of n0 a) (permf p))

(** val run_reconstruct : int -> z list -> int list -> z list **)

let run_reconstruct n0 a p =
  list_of n0 n0 (reconstruct n0 (mat_of n0 a) (permf p))

(** val run_reconstruct_colwise : int -> z list -> int list -> z list **)

let run_reconstruct_colwise n0 a p =
  list_of n0 n0 (reconstruct_colwise n0 (mat_of n0 a) (permf p))
