(* Glue for the extracted model: literals in, one result line per case out.
   Z stays the extracted inductive (no Extract Constant); conversion to decimal
   text is done here by repeated division by 10 on OCaml-side digit lists. *)
open Fastor_model

let rec pos_of_int (n : int) : positive =
  if n = 1 then XH else if n land 1 = 0 then XO (pos_of_int (n lsr 1)) else XI (pos_of_int (n lsr 1))
let z (n : int) : z = if n = 0 then Z0 else if n > 0 then Zpos (pos_of_int n) else Zneg (pos_of_int (-n))
(* decimal string -> Z (values beyond OCaml's 63-bit int) *)
let zs (str : string) : z =
  let neg = String.length str > 0 && str.[0] = '-' in
  let acc = ref Z0 in
  String.iteri (fun i ch -> if not (i = 0 && neg) then acc := Z.add (Z.mul !acc (z 10)) (z (Char.code ch - 48))) str;
  if neg then Z.opp !acc else !acc
let zsl (l : string list) : z list = List.map zs l
let zl (l : int list) : z list = List.map z l
let zc ((a, b) : int * int) = (z a, z b)
let zcl l = List.map zc l

(* bits of a positive, least significant first *)
let rec bits_of_pos (p : positive) : int list =
  match p with XH -> [1] | XO q -> 0 :: bits_of_pos q | XI q -> 1 :: bits_of_pos q

(* decimal string of a non-negative number given by its bits (lsb first): double-and-add on a decimal digit array *)
let dec_of_bits (bits : int list) : string =
  let digits = ref [0] in   (* least significant decimal digit first *)
  let double_add d =
    let carry = ref d in
    let res = List.map (fun x -> let v = 2 * x + !carry in carry := v / 10; v mod 10) !digits in
    digits := if !carry > 0 then res @ [!carry] else res in
  List.iter double_add (List.rev bits);
  String.concat "" (List.rev_map string_of_int !digits)

let string_of_z (x : z) : string =
  match x with
  | Z0 -> "0"
  | Zpos p -> dec_of_bits (bits_of_pos p)
  | Zneg p -> "-" ^ dec_of_bits (bits_of_pos p)

let pz tag id (l : z list) =
  print_string tag; print_char ' '; print_int id;
  List.iter (fun x -> print_char ' '; print_string (string_of_z x)) l; print_newline ()
let pzc tag id (l : (z * z) list) =
  print_string tag; print_char ' '; print_int id;
  List.iter (fun (a, b) -> print_char ' '; print_string (string_of_z a); print_char ' '; print_string (string_of_z b)) l; print_newline ()
let pn tag id (l : int list) =
  print_string tag; print_char ' '; print_int id;
  List.iter (fun x -> print_char ' '; print_int x) l; print_newline ()
let pb tag id (l : bool list) =
  print_string tag; print_char ' '; print_int id;
  List.iter (fun x -> print_char ' '; print_int (if x then 1 else 0)) l; print_newline ()
