
type __ = Obj.t

val negb : bool -> bool

val fst : ('a1 * 'a2) -> 'a1

val snd : ('a1 * 'a2) -> 'a2

val length : 'a1 list -> int

val app : 'a1 list -> 'a1 list -> 'a1 list

type comparison =
| Eq
| Lt
| Gt

val compOpp : comparison -> comparison

val add : int -> int -> int

val mul : int -> int -> int

val sub : int -> int -> int

val eqb : bool -> bool -> bool

module Nat :
 sig
  val sub : int -> int -> int

  val ltb : int -> int -> bool

  val max : int -> int -> int

  val min : int -> int -> int

  val even : int -> bool

  val divmod : int -> int -> int -> int -> int * int

  val div : int -> int -> int

  val modulo : int -> int -> int
 end

type positive =
| XI of positive
| XO of positive
| XH

type n =
| N0
| Npos of positive

type z =
| Z0
| Zpos of positive
| Zneg of positive

module Pos :
 sig
  type mask =
  | IsNul
  | IsPos of positive
  | IsNeg
 end

module Coq_Pos :
 sig
  val succ : positive -> positive

  val add : positive -> positive -> positive

  val add_carry : positive -> positive -> positive

  val pred_double : positive -> positive

  val pred_N : positive -> n

  type mask = Pos.mask =
  | IsNul
  | IsPos of positive
  | IsNeg

  val succ_double_mask : mask -> mask

  val double_mask : mask -> mask

  val double_pred_mask : positive -> mask

  val sub_mask : positive -> positive -> mask

  val sub_mask_carry : positive -> positive -> mask

  val mul : positive -> positive -> positive

  val iter : ('a1 -> 'a1) -> 'a1 -> positive -> 'a1

  val div2 : positive -> positive

  val div2_up : positive -> positive

  val compare_cont : comparison -> positive -> positive -> comparison

  val compare : positive -> positive -> comparison

  val eqb : positive -> positive -> bool

  val coq_Nsucc_double : n -> n

  val coq_Ndouble : n -> n

  val coq_lxor : positive -> positive -> n

  val testbit : positive -> n -> bool

  val iter_op : ('a1 -> 'a1 -> 'a1) -> positive -> 'a1 -> 'a1

  val to_nat : positive -> int

  val of_succ_nat : int -> positive
 end

module N :
 sig
  val succ_double : n -> n

  val double : n -> n

  val succ_pos : n -> positive

  val sub : n -> n -> n

  val compare : n -> n -> comparison

  val leb : n -> n -> bool

  val pos_div_eucl : positive -> n -> n * n

  val coq_lxor : n -> n -> n

  val testbit : n -> n -> bool
 end

val nth : int -> 'a1 list -> 'a1 -> 'a1

val rev : 'a1 list -> 'a1 list

val map : ('a1 -> 'a2) -> 'a1 list -> 'a2 list

val flat_map : ('a1 -> 'a2 list) -> 'a1 list -> 'a2 list

val fold_left : ('a1 -> 'a2 -> 'a1) -> 'a2 list -> 'a1 -> 'a1

val existsb : ('a1 -> bool) -> 'a1 list -> bool

val forallb : ('a1 -> bool) -> 'a1 list -> bool

val filter : ('a1 -> bool) -> 'a1 list -> 'a1 list

val combine : 'a1 list -> 'a2 list -> ('a1 * 'a2) list

val seq : int -> int -> int list

module Z :
 sig
  val double : z -> z

  val succ_double : z -> z

  val pred_double : z -> z

  val pos_sub : positive -> positive -> z

  val add : z -> z -> z

  val opp : z -> z

  val sub : z -> z -> z

  val mul : z -> z -> z

  val pow_pos : z -> positive -> z

  val pow : z -> z -> z

  val compare : z -> z -> comparison

  val leb : z -> z -> bool

  val ltb : z -> z -> bool

  val eqb : z -> z -> bool

  val max : z -> z -> z

  val min : z -> z -> z

  val abs : z -> z

  val to_nat : z -> int

  val of_nat : int -> z

  val of_N : n -> z

  val pos_div_eucl : positive -> z -> z * z

  val div_eucl : z -> z -> z * z

  val div : z -> z -> z

  val modulo : z -> z -> z

  val quotrem : z -> z -> z * z

  val quot : z -> z -> z

  val rem : z -> z -> z

  val odd : z -> bool

  val div2 : z -> z

  val testbit : z -> z -> bool

  val shiftl : z -> z -> z

  val shiftr : z -> z -> z

  val coq_lxor : z -> z -> z
 end

type scalar = { s0 : __; s1 : __; sadd : (__ -> __ -> __);
                smul : (__ -> __ -> __); ssub : (__ -> __ -> __);
                sneg : (__ -> __); sfma : (__ -> __ -> __ -> __);
                sdiv : (__ -> __ -> __); seqb : (__ -> __ -> bool);
                sltb : (__ -> __ -> bool) }

type t = __

val zS : scalar

val wrap : z -> z -> z

val zC : scalar

type cfg = { abi : int; masks : bool; outer_block : int; inner_block : int }

type ety = { tbytes : int; simd_ty : bool; cplx : bool; is_fp : bool }

val ty_float : ety

val ty_double : ety

val ty_int32 : ety

val ty_int64 : ety

val ty_cfloat : ety

val ty_cdouble : ety

val abi_bits : int -> int -> int

val simd_size : int -> int -> int

val which_frac : int -> int -> int -> int

val half_abi : int -> int

val best_abi : cfg -> ety -> int -> int

val best_vsize : cfg -> ety -> int -> int

type buf = int -> t

type vec = int -> t

val vbcast : scalar -> t -> vec

val vzero : scalar -> vec

val vload : scalar -> buf -> int -> vec

val vfma : scalar -> vec -> vec -> vec -> vec

val vmul : scalar -> vec -> vec -> vec

type maska_t = int -> bool

val make_maska : int -> int -> maska_t

val lane_on : int -> maska_t -> int -> bool

val vmaskload : scalar -> int -> maska_t -> buf -> int -> vec

type wr = { woff : int; wlen : int; won : (int -> bool); wval : (int -> t) }

val apply_wr : scalar -> buf -> wr -> buf

val run_wrs : scalar -> buf -> wr list -> buf

val wr_store : scalar -> int -> int -> vec -> wr

val wr_maskstore : scalar -> int -> maska_t -> int -> vec -> wr

val wr_store1 : scalar -> int -> t -> wr

val store : scalar -> buf -> int -> int -> vec -> buf

val store1 : scalar -> buf -> int -> t -> buf

val sum_from : scalar -> int -> int -> (int -> t) -> t -> t

val sum_n : scalar -> (int -> t) -> int -> t

val dot_fma : scalar -> int -> int -> (int -> t) -> (int -> t) -> t -> t

val dot_mf : scalar -> int -> (int -> t) -> (int -> t) -> t

val dot_plain : scalar -> int -> (int -> t) -> (int -> t) -> t

val vacc_from :
  scalar -> int -> int -> (int -> t) -> (int -> int -> t) -> (int -> t) ->
  int -> t

val loop_starts : int -> int -> int -> int list

type ckind =
| CVec
| CScal
| CMask of int

val col_tiles : int -> int -> int -> bool -> (int * ckind) list

val row_tiles : int -> int -> int -> int list

val tile_wr :
  scalar -> int -> int -> int -> bool -> (int -> t) -> (int -> t) -> int ->
  (int * ckind) -> wr

val tiled_wrs :
  scalar -> int -> int -> int -> bool -> int list -> (int * ckind) list ->
  (int -> t) -> (int -> t) -> wr list

type kernel =
| KNaive
| KMatVec
| KSmallN
| KBase
| KBaseMasked
| KTiny
| KShuffle

val num_simd_rows : cfg -> int -> int -> int

val num_simd_cols : cfg -> int -> int -> int -> int

val smalln_unroll : int -> int

val all_scalar_cols : int -> (int * ckind) list

val dispatch : cfg -> ety -> int -> int -> int -> kernel

val kernel_wrs :
  scalar -> cfg -> ety -> kernel -> int -> int -> int -> (int -> t) -> (int
  -> t) -> wr list

val matmul :
  scalar -> cfg -> ety -> int -> int -> int -> (int -> t) -> (int -> t) ->
  (int -> t) -> int -> t

val tG : int

val tL : int

val tU : int

val find_kfirst : int -> int -> int -> int -> int

val find_klast : int -> int -> int -> int -> int -> int -> int -> int

type btile = { bt_rows : int list; bt_cols : (int * ckind) list; bt_i : 
               int; bt_R : int; bt_j : int; bt_C : int; bt_tagged : bool }

val bt_kfirst : int -> int -> btile -> int

val bt_klast : int -> int -> int -> btile -> int

val ttile_wr :
  scalar -> int -> int -> int -> (int -> t) -> (int -> t) -> int -> int ->
  int -> (int * ckind) -> wr

val btile_wrs :
  scalar -> int -> int -> int -> int -> int -> (int -> t) -> (int -> t) ->
  btile -> wr list

val col_blocks :
  int -> int -> int -> bool -> bool -> bool -> bool -> int list -> int -> int
  -> btile list

val tmatmul_tiles : cfg -> ety -> bool -> int -> int -> btile list

val tmatmul_masked : cfg -> ety -> int -> bool

val tmatmul_naive_tiles : int -> int -> btile list

val tmatmul_wrs :
  scalar -> cfg -> ety -> int -> int -> int -> int -> int -> (int -> t) ->
  (int -> t) -> wr list

val tmatmul :
  scalar -> cfg -> ety -> int -> int -> int -> int -> int -> (int -> t) ->
  (int -> t) -> (int -> t) -> int -> t

type sops = { s_un : (int -> t -> t); s_bin : (int -> t -> t -> t) }

type vops = { v_un : (int -> vec -> vec); v_bin : (int -> vec -> vec -> vec) }

type expr =
| ELeaf of int
| EConst of t
| EUn of int * expr
| EBin of int * expr * expr

type mem = int -> buf

val eval_s : scalar -> sops -> mem -> expr -> int -> t

val eval_v : scalar -> vops -> mem -> expr -> int -> vec

val upd : scalar -> mem -> int -> buf -> mem

val step_vec :
  scalar -> sops -> vops -> int -> int -> int option -> expr -> mem -> int ->
  mem

val step_scal :
  scalar -> sops -> int -> int option -> expr -> mem -> int -> mem

val assign :
  scalar -> sops -> vops -> int -> int -> int -> bool -> int option -> expr
  -> mem -> mem

val vops_of : scalar -> sops -> vops

val b2z : bool -> z

val int_un : z -> int -> z -> z

val int_bin : z -> int -> z -> z -> z

val int_sops : z -> sops

val lane_acc :
  ('a1 -> 'a1 -> 'a1) -> 'a1 -> int -> (int -> 'a1) -> int -> int -> 'a1

val hfold : ('a1 -> 'a1 -> 'a1) -> int -> (int -> 'a1) -> 'a1

val reduce : ('a1 -> 'a1 -> 'a1) -> 'a1 -> int -> int -> (int -> 'a1) -> 'a1

val all_of_loop : (int -> bool) -> int -> int -> bool

val any_of_loop : (int -> bool) -> int -> int -> bool

val all_of : (int -> bool) -> int -> bool

val any_of : (int -> bool) -> int -> bool

val none_of : (int -> bool) -> int -> bool

val det2 : (int -> z) -> z

val det3 : (int -> z) -> z

val det4 : (int -> z) -> z

val laplace : int -> (int -> int -> z) -> z

val det_spec : int -> (int -> z) -> z

val prod0 : int list -> int

val flat : int list -> int list -> int

val unflat : int list -> int -> int list

type urange = { uf : z; ul : z; us : z }

val norm1d : z -> urange -> urange

val normnd : z -> urange -> urange

val rsize : urange -> z

type nrange = { nfirst : int; nstep : int; nsize : int }

val to_nrange : urange -> nrange

val vdims : nrange list -> int list

val voffset : int list -> nrange list -> int list -> int

val view_off : int list -> nrange list -> int -> int

val upd1 : (int -> 'a1) -> int -> 'a1 -> int -> 'a1

val scatter :
  (int -> int) -> (int -> (int -> 'a1) -> 'a1) -> int -> (int -> 'a1) -> int
  -> 'a1

val idx2 : int -> int list -> int list -> int list

val idx_col : int -> int list -> int -> int list

val idx_row : int -> int -> int list -> int list

val idx_it_range : int -> int list -> nrange -> int list

val idx_range_it : int -> nrange -> int list -> int list

val rv_read : (int -> 'a1) -> int list -> 'a1 list

val rv_write :
  ('a1 -> 'a1 -> 'a1) -> int list -> (int -> 'a1) -> (int -> 'a1) -> int ->
  'a1

val filter_write :
  ('a1 -> 'a1 -> 'a1) -> (int -> bool) -> (int -> 'a1) -> int -> (int -> 'a1)
  -> int -> 'a1

val rm_of_counter : int list -> int -> int

val torowmajor : int list -> (int -> 'a1) -> int -> 'a1

val tocolumnmajor : int list -> (int -> 'a1) -> int -> 'a1

val gatherp : int list -> int list -> int list

val index_of : int -> int list -> int

val invp : int list -> int list

val permute14 : int list -> int list -> (int -> 'a1) -> int -> 'a1

val permute17 : int list -> int list -> (int -> 'a1) -> int -> 'a1

val transpose_wrs : scalar -> int -> int -> int -> (int -> t) -> wr list

val transpose_tiled :
  scalar -> int -> int -> int -> (int -> t) -> (int -> t) -> int -> t

type env = int -> int

val eupd : env -> int -> int -> env

val uniq : int list -> int list

val count_occ_nat : int -> int list -> int

val free_labels : int list -> int list

val ext_of : int -> int list -> int list -> int

val nloop : (int * int) list -> (env -> 'a1 -> 'a1) -> env -> 'a1 -> 'a1

val term :
  scalar -> int list -> int list -> int list -> int list -> (int -> t) ->
  (int -> t) -> env -> t

val loop_labels :
  int list -> int list -> int list -> int list -> (int * int) list

val out_labels : int list -> int list -> int list

val out_dims : int list -> int list -> int list -> int list -> int list

val einsum_general :
  scalar -> int list -> int list -> int list -> int list -> (int -> t) ->
  (int -> t) -> int -> t

val nthl : int list -> int -> int

val match_from_end_aux : int -> int list -> int list -> int -> int -> bool

val match_indices_from_end : int list -> int list -> bool

val match_from_start_aux : int -> int list -> int list -> int -> int -> bool

val match_indices_from_start : int list -> int list -> bool

val match_two_ends_aux :
  int -> int list -> int list -> int -> int -> int -> bool

val no_of_unique : int list -> int

val is_mat_vec : int list -> int list -> bool

val is_vec_mat : int list -> int list -> bool

val is_mat_mat : int list -> int list -> bool

val mem_nat : int -> int list -> bool

val pair_cost : int list -> int list -> int list -> int list -> int

val res_labels : int list -> int list -> int list

val res_dims : int list -> int list -> int list -> int list -> int list

val concat_labels : int list -> int list -> int list

val concat_dims : int list -> int list -> int list -> int list -> int list

val argmin2 : int -> int -> int

val argmin3 : int -> int -> int -> int

val argmin4 : int -> int -> int -> int -> int

val triplet_costs :
  int list -> int list -> int list -> int list -> int list -> int list -> int
  list

val which_variant :
  int list -> int list -> int list -> int list -> int list -> int list -> int

val staged_labels : int -> int list -> int list -> int list -> int list

val staged_dims :
  int -> int list -> int list -> int list -> int list -> int list -> int list
  -> int list

val min4 : int list -> int

val triple_then :
  int list -> int list -> int list -> int list -> int list -> int list -> int
  list -> int list -> int

val quartet_costs :
  int list -> int list -> int list -> int list -> int list -> int list -> int
  list -> int list -> int list

val which_variant4 :
  int list -> int list -> int list -> int list -> int list -> int list -> int
  list -> int list -> int

val labels_consistent : int list -> int list -> bool

val pair :
  scalar -> int list -> int list -> int list -> int list -> (int -> t) ->
  (int -> t) -> int -> t

val network3 :
  scalar -> int list -> int list -> int list -> int list -> int list -> int
  list -> (int -> t) -> (int -> t) -> (int -> t) -> int -> t

val declared_dims3 :
  int list -> int list -> int list -> int list -> int list -> int list -> int
  list

val stage4 :
  scalar -> bool -> int list -> int list -> int list -> int list -> int list
  -> int list -> int list -> int list -> (int -> t) -> (int -> t) -> (int ->
  t) -> (int -> t) -> bool * (int -> t)

val network4 :
  scalar -> int list -> int list -> int list -> int list -> int list -> int
  list -> int list -> int list -> (int -> t) -> (int -> t) -> (int -> t) ->
  (int -> t) -> bool * (int -> t)

val network4_accepts_all :
  scalar -> int list -> int list -> int list -> int list -> int list -> int
  list -> int list -> int list -> (int -> t) -> (int -> t) -> (int -> t) ->
  (int -> t) -> bool

val swapf : (int -> int) -> int -> int -> int -> int

val argmax_col :
  ('a1 -> 'a1 -> bool) -> (int -> int -> 'a1) -> int -> int -> int

val pivot_step :
  ('a1 -> 'a1 -> bool) -> (int -> int -> 'a1) -> int -> (int -> int) -> int
  -> int -> int

val pivot_perm :
  ('a1 -> 'a1 -> bool) -> (int -> int -> 'a1) -> int -> int -> int

val apply_pivot :
  int -> (int -> int -> 'a1) -> (int -> int) -> int -> int -> 'a1

val reconstruct :
  int -> (int -> int -> 'a1) -> (int -> int) -> int -> int -> 'a1

val reconstruct_colwise :
  int -> (int -> int -> 'a1) -> (int -> int) -> int -> int -> 'a1

val wrap0 : z -> z -> z

val map2 : ('a1 -> 'a2 -> 'a3) -> 'a1 list -> 'a2 list -> 'a3 list

val l_add : z -> z -> z -> z

val l_sub : z -> z -> z -> z

val l_mul : z -> z -> z -> z

val l_neg : z -> z -> z

val l_abs : z -> z -> z

val l_div : z -> z -> z -> z

val v_add : z -> z list -> z list -> z list

val v_sub : z -> z list -> z list -> z list

val v_mul : z -> z list -> z list -> z list

val v_div : z -> z list -> z list -> z list

val v_min : z list -> z list -> z list

val v_max : z list -> z list -> z list

val v_neg : z -> z list -> z list

val v_abs : z -> z list -> z list

val v_fmadd : z -> z list -> z list -> z list -> z list

val v_fmsub : z -> z list -> z list -> z list -> z list

val v_fnmadd : z -> z list -> z list -> z list -> z list

val v_reverse : z list -> z list

val v_set : z list -> z list

val v_set_sequential : z -> int -> z -> z list

val h_sum : z -> z list -> z

val h_prod : z -> z list -> z

val h_dot : z -> z list -> z list -> z

val h_min : z list -> z

val h_max : z list -> z

val u32 : z -> z

val s32 : z -> z

val ln : z list -> int -> z

val mM_SHUFFLE : z -> z -> z -> z -> z

val shuffle_epi32 : z list -> z -> z list

val add_epi32 : z list -> z list -> z list

val sub_epi32 : z list -> z list -> z list

val mul_epu32 : z list -> z list -> z list

val unpacklo_epi32 : z list -> z list -> z list

val unpackhi_epi32 : z list -> z list -> z list

val unpacklo_epi64 : z list -> z list -> z list

val srai_epi32 : z list -> z -> z list

val xor_si128 : z list -> z list -> z list

val cvtsi128_si32 : z list -> z

val setzero : z list

val sum_epi32 : z list -> z

val prod_epi32 : z list -> z

val mul_epi32x_sse2 : z list -> z list -> z list

val reverse_epi32 : z list -> z list

val abs_epi32_sse2 : z list -> z list

val neg_epi32 : z list -> z list

val dot_epi32_sse2 : z list -> z list -> z

val mask_to_array : int -> z -> bool list

val mask_store_fb : int -> z -> z list -> (int -> z) -> int -> z

val mask_load_fb : int -> z -> (int -> z) -> z list

val sa_step :
  ('a1 -> 'a1 -> bool) -> ('a1 -> ('a1 -> 'a2) -> 'a2) -> ('a1 -> 'a2) -> 'a1
  -> 'a1 -> 'a2

val sa_run :
  ('a1 -> 'a1 -> bool) -> ('a1 -> ('a1 -> 'a2) -> 'a2) -> 'a1 list -> ('a1 ->
  'a2) -> 'a1 -> 'a2

type mat = int -> int -> t

type vec0 = int -> t

val fsub_g : scalar -> mat -> vec0 -> int -> vec0 -> t

val fsub : scalar -> int -> mat -> vec0 -> vec0

val bsub_g : scalar -> int -> mat -> vec0 -> int -> vec0 -> t

val bsub : scalar -> int -> mat -> vec0 -> vec0

type key = bool * (int * int)

val key_eqb : key -> key -> bool

val lk : int -> int -> key

val uk : int -> int -> key

val lu_g : scalar -> mat -> key -> (key -> t) -> t

val unrank : int -> int -> key

val valid : key -> bool

val lu_order : int -> key list

val doolittle : scalar -> int -> mat -> key -> t

val lu_L : scalar -> int -> mat -> mat

val lu_U : scalar -> int -> mat -> mat

val lu_solve : scalar -> int -> mat -> vec0 -> vec0

val lu_inverse : scalar -> int -> mat -> mat

val run_matmul_Z :
  cfg -> ety -> int -> int -> int -> z list -> z list -> z list

val run_matmul_C :
  cfg -> ety -> int -> int -> int -> (z * z) list -> (z * z) list -> (z * z)
  list

val run_best_vsize : cfg -> int list list

val run_tmatmul_Z :
  cfg -> ety -> int -> int -> int -> int -> int -> z list -> z list -> z list

val run_tmatmul_C :
  cfg -> ety -> int -> int -> int -> int -> int -> (z * z) list -> (z * z)
  list -> (z * z) list

val run_assign_Z :
  z -> int -> int -> bool -> int option -> expr -> z list list -> z list

val run_reduce_Z : z -> int -> z list -> z -> z -> z list

val run_preds : bool list -> bool list

val run_det_Z : int -> z list -> z

val run_view : bool -> int list -> ((z * z) * z) list -> int list * int list

val run_admissible : bool -> int -> ((z * z) * z) -> bool

val rv_op : int -> z -> z -> z

val run_rv_read : int list -> z list -> z list

val run_rv_write : int -> int list -> z list -> z list -> z list

val run_filter_write : int -> bool list -> z list -> z list -> z list

val run_idx2 : int -> int list -> int list -> int list

val run_idx_col : int -> int list -> int -> int list

val run_idx_row : int -> int -> int list -> int list

val run_idx_it_range : int -> int list -> int -> ((z * z) * z) -> int list

val run_idx_range_it : int -> int -> ((z * z) * z) -> int list -> int list

val run_torowmajor : int list -> int list

val run_tocolumnmajor : int list -> int list

val run_permute : bool -> int list -> int list -> int list * int list

val run_transpose : int -> int -> int -> z list

val run_invp : int list -> int list

val run_einsum :
  int list -> int list -> int list -> int list -> z list -> z list -> int
  list * z list

val run_classify : int list -> int list -> bool list

val run_network3 :
  int list -> int list -> int list -> int list -> int list -> int list -> z
  list -> z list -> z list -> int list * (int list * z list)

val run_triplet_costs :
  int list -> int list -> int list -> int list -> int list -> int list -> int
  list

val run_network4 :
  int list -> int list -> int list -> int list -> int list -> int list -> int
  list -> int list -> z list -> z list -> z list -> z list -> int
  list * (bool list * z list)

val run_simd_int : z -> int -> z list -> z list -> z list -> z list

val run_simd_sse2 : int -> z list -> z list -> z list

val run_mask_store : int -> z -> z list -> z list -> z list

val run_mask_load : int -> z -> z list -> z list

val mat_of : int -> z list -> int -> int -> z

val list_of : int -> int -> (int -> int -> z) -> z list

val run_lu : int -> z list -> z list * z list

val run_lu_inverse : int -> z list -> z list

val run_lu_solve : int -> int -> z list -> z list -> z list

val zabs_gt : z -> z -> bool

val permf : int list -> int -> int

val run_pivot : int -> z list -> int list

val run_apply_pivot : int -> z list -> int list -> z list

val run_reconstruct : int -> z list -> int list -> z list

val run_reconstruct_colwise : int -> z list -> int list -> z list
