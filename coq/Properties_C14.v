(** C14 - permute, permutation and transpose move every element to its permuted position. *)
From Coq Require Import Arith List.
From FastorV Require Import Base.Scalar Base.Mem Base.Shape Model.Views Model.Permute Proofs.PermuteProofs.
Import ListNotations.

(** every rank, every permutation p of the axes, every shape with positive extents: the
    result has extents shape[p[n]] and out(i[p0],...,i[pk]) = A(i0,...,ik) - for the
    C++14 (forward map, scatter) and the C++17 (reverse map, gather) branches alike *)
Theorem C14_permute_cxx14 :
  forall (T : Type) p dims, is_perm p -> length dims = length p -> (forall d, In d dims -> 0 < d) ->
  forall (a : nat -> T) idx, in_range dims idx ->
    permute14 p dims a (flat (gatherp p dims) (gatherp p idx)) = a (flat dims idx).
Proof. exact permute14_spec. Qed.
Print Assumptions C14_permute_cxx14.

Theorem C14_permute_cxx17 :
  forall (T : Type) p dims, is_perm p -> length dims = length p ->
  forall (a : nat -> T) idx, in_range dims idx ->
    permute17 p dims a (flat (gatherp p dims) (gatherp p idx)) = a (flat dims idx).
Proof. intros T p dims Hp HL. exact (permute17_spec T p dims Hp HL). Qed.

(** every position of the result is reached, so the result is completely determined *)
Theorem C14_permute_onto :
  forall p dims, is_perm p -> length dims = length p -> (forall d, In d dims -> 0 < d) ->
  forall o, o < prod (gatherp p dims) -> exists idx, in_range dims idx /\ o = flat (gatherp p dims) (gatherp p idx).
Proof. exact permute_onto. Qed.

(** composing with the inverse map returns every index (and so the tensor) unchanged *)
Theorem C14_inverse_roundtrip :
  forall p l, is_perm p -> length l = length p -> gatherp (invp p) (gatherp p l) = l /\ gatherp p (gatherp (invp p) l) = l.
Proof. intros p l Hp L. split; [apply gatherp_invp_l | apply gatherp_invp_r]; assumption. Qed.

(** tiled transpose (AVX tiles of V x V through pack buffers, scalar edges), any lane count *)
Theorem C14_transpose_tiled :
  forall (S : Scalar) V M N (a c0 : nat -> S), 0 < V -> 0 < M ->
    (forall i j, i < M -> j < N -> transpose_tiled V M N a c0 (j * M + i) = a (i * N + j)) /\
    (forall p, N * M <= p -> transpose_tiled V M N a c0 p = c0 p).
Proof. exact transpose_tiled_spec. Qed.
Print Assumptions C14_transpose_tiled.

Example C14_runs :
  (map (permute14 [2;0;1] [2;3;4] (fun p => p)) (seq 0 24), map (permute17 [2;0;1] [2;3;4] (fun p => p)) (seq 0 24))
  = ([0;4;8;12;16;20;1;5;9;13;17;21;2;6;10;14;18;22;3;7;11;15;19;23],
     [0;4;8;12;16;20;1;5;9;13;17;21;2;6;10;14;18;22;3;7;11;15;19;23]).
Proof. vm_compute. reflexivity. Qed.

(** * _transpose as translated from backend/transpose/transpose.h on this run (blocked AVX routine with
    the default block sizes, and the plain loops): the index of every access of a, out and the two packs *)
From FastorV Require Import Gen.GeneratedAccess Proofs.GenAccessEq.
Theorem C14_source_transpose_accesses :
  forall W M N i ii j jj v,
    gen_transpose_avx_accesses W M N i ii j jj v = model_transpose_avx W M N i ii j jj v /\
    gen_transpose_plain_accesses M N i j = [(1, j * M + i); (0, i * N + j)].
Proof. exact gen_transpose_accesses_eq. Qed.
Print Assumptions C14_source_transpose_accesses.
