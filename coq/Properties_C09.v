(** C09 - Lazy linear-algebra operators give the same result as their eager counterparts.
    The staged assignment (dst = lhs; dst op= rhs; alias temporaries) of binary_arithmetic_assignment.h and
    unary_math_ops.h is an interpreter [run] over expression trees; evaluation-requiring operators are arbitrary
    functions of whole tensors, so the theorem covers %, inv, trans, cof, adj, solve, ... and any nesting.
    Equality is over any commutative ring (staging re-associates dst + (a + b) as (dst + a) + b): for floating
    point the two sides agree within rounding, which the correspondence measures (PARTIAL in that respect). *)
From Coq Require Import List Bool Arith ZArith.
From FastorV Require Import Base.Scalar Model.LazyAssign Proofs.LazyAssignProofs Proofs.ChainProofs.
Import ListNotations.

(** for every expression tree (destination occurring elementwise anywhere outside the evaluation-requiring
    operands or inside them), every assignment operator and every store, the staged execution leaves
    dst op (value of the expression on the ORIGINAL contents of dst) *)
Theorem C09_lazy_eq_eager :
  forall (S : Scalar), RingLaws S ->
  forall (uf : nat -> S -> S) (lf : nat -> V S -> V S -> V S) (op : aop) (d : V S) (e : expr S) (i : nat),
    assign_stmt S uf lf true op d e i = eager_stmt S uf lf op d e i.
Proof. exact lazy_eq_eager. Qed.
Print Assumptions C09_lazy_eq_eager.

(** the two staging forms of the snapshot that are NOT equal to the eager semantics (repaired by a fix: commit;
    [run false] is the snapshot's code, [run true] the repaired code the theorem above is about) *)
Theorem C09_snapshot_alias_branch_refuted :
  assign_stmt ZS uf0 lf0 false AAdd (fun _ => 3%Z) ex_expr 0 <> eager_stmt ZS uf0 lf0 AAdd (fun _ => 3%Z) ex_expr 0.
Proof. exact snapshot_alias_branch_refuted. Qed.
Theorem C09_snapshot_scalar_first_refuted :
  assign_stmt ZS uf0 lf0 false AAdd (fun _ => 3%Z) ex_expr2 0 <> eager_stmt ZS uf0 lf0 AAdd (fun _ => 3%Z) ex_expr2 0.
Proof. exact snapshot_scalar_first_refuted. Qed.
Print Assumptions C09_snapshot_alias_branch_refuted.

(** a chain of products equals the left-to-right product whatever association is chosen *)
Theorem C09_chain_any_association :
  forall (S : Scalar), RingLaws S -> forall t : ptree S, meq S (eval S t) (left_to_right S (flatten S t)).
Proof. exact chain_any_association. Qed.
Print Assumptions C09_chain_any_association.

(** non-vacuity: a tree with two evaluation-requiring operands and the destination used elementwise twice *)
Example C09_runs :
  let e := Bin Sub (Bin Add (Lz 0 (Leaf (S:=ZS) (fun i => Z.of_nat i)) (Leaf (S:=ZS) (fun _ => 0%Z))) (Bin Mul Dst Dst))
                   (Bin Add (Sc (S:=ZS) 2%Z) (Bin Mul Dst (Lz 0 (Leaf (S:=ZS) (fun _ => 7%Z)) (Leaf (S:=ZS) (fun _ => 0%Z))))) in
  map (fun op => map (assign_stmt ZS uf0 lf0 true op (fun i => (Z.of_nat i + 2)%Z) e) [0; 1; 2]) [ASet; AAdd; ASub; AMul]
  = map (fun op => map (eager_stmt ZS uf0 lf0 op (fun i => (Z.of_nat i + 2)%Z) e) [0; 1; 2]) [ASet; AAdd; ASub; AMul].
Proof. vm_compute. reflexivity. Qed.
