(** C09 - Lazy linear-algebra operators give the same result as their eager counterparts.
    The staged assignment (dst = lhs; dst op= rhs; alias temporaries) of binary_arithmetic_assignment.h and
    unary_math_ops.h is an interpreter [run] over expression trees; evaluation-requiring operators are arbitrary
    functions of whole tensors, so the theorem covers %, inv, trans, cof, adj, solve, ... and any nesting.
    Equality is over any commutative ring (staging re-associates dst + (a + b) as (dst + a) + b): for floating
    point the two sides agree within rounding, which the correspondence measures (PARTIAL in that respect). *)
From Coq Require Import List Bool Arith ZArith.
From FastorV Require Import Base.Scalar Model.LazyAssign Proofs.LazyAssignProofs Proofs.ChainProofs.
Import ListNotations.

(** for every expression tree (destination occurring elementwise anywhere outside the evaluation-requiring
    operands or inside them), every assignment operator and every store, the staged execution leaves
    dst op (value of the expression on the ORIGINAL contents of dst) *)
Theorem C09_lazy_eq_eager :
  forall (S : Scalar), RingLaws S ->
  forall (uf : nat -> S -> S) (lf : nat -> V S -> V S -> V S) (op : aop) (d : V S) (e : expr S) (i : nat),
    assign_stmt S uf lf true op d e i = eager_stmt S uf lf op d e i.
Proof. exact lazy_eq_eager. Qed.
Print Assumptions C09_lazy_eq_eager.

(** the two staging forms of the snapshot that are NOT equal to the eager semantics (repaired by a fix: commit;
    [run false] is the snapshot's code, [run true] the repaired code the theorem above is about) *)
Theorem C09_snapshot_alias_branch_refuted :
  assign_stmt ZS uf0 lf0 false AAdd (fun _ => 3%Z) ex_expr 0 <> eager_stmt ZS uf0 lf0 AAdd (fun _ => 3%Z) ex_expr 0.
Proof. exact snapshot_alias_branch_refuted. Qed.
Theorem C09_snapshot_scalar_first_refuted :
  assign_stmt ZS uf0 lf0 false AAdd (fun _ => 3%Z) ex_expr2 0 <> eager_stmt ZS uf0 lf0 AAdd (fun _ => 3%Z) ex_expr2 0.
Proof. exact snapshot_scalar_first_refuted. Qed.
Print Assumptions C09_snapshot_alias_branch_refuted.

(** a chain of products equals the left-to-right product whatever association is chosen *)
Theorem C09_chain_any_association :
  forall (S : Scalar), RingLaws S -> forall t : ptree S, meq S (eval S t) (left_to_right S (flatten S t)).
Proof. exact chain_any_association. Qed.
Print Assumptions C09_chain_any_association.

(** non-vacuity: a tree with two evaluation-requiring operands and the destination used elementwise twice *)
Example C09_runs :
  let e := Bin Sub (Bin Add (Lz 0 (Leaf (S:=ZS) (fun i => Z.of_nat i)) (Leaf (S:=ZS) (fun _ => 0%Z))) (Bin Mul Dst Dst))
                   (Bin Add (Sc (S:=ZS) 2%Z) (Bin Mul Dst (Lz 0 (Leaf (S:=ZS) (fun _ => 7%Z)) (Leaf (S:=ZS) (fun _ => 0%Z))))) in
  map (fun op => map (assign_stmt ZS uf0 lf0 true op (fun i => (Z.of_nat i + 2)%Z) e) [0; 1; 2]) [ASet; AAdd; ASub; AMul]
  = map (fun op => map (eager_stmt ZS uf0 lf0 op (fun i => (Z.of_nat i + 2)%Z) e) [0; 1; 2]) [ASet; AAdd; ASub; AMul].
Proof. vm_compute. reflexivity. Qed.

(** * Tie to the source (translator): the functions that assign a lazy linear-algebra node
    (expressions/linalg_ops/unary_{trans,ctrans,adj,cof,inv}_op.h and binary_matmul_op.h), as translated on every
    run.  Unary nodes: the operand is evaluated once; plain assignment computes straight into the destination, a
    compound assignment computes into a fresh local and applies the operator the function is named after - for all
    5 x 5 functions.  Products: for all 20 functions the operands are passed in order, an operand is copied into a
    tensor first exactly when the overload is selected for a non-tensor, and the update performed by the chosen
    dispatcher equals the operator's update of the old value by the product, for every old value and product. *)
From FastorV Require Import Gen.GeneratedAccess Proofs.GenAccessEq.
Theorem C09_source_lazy_assignment :
  (forallb (fun e : nat * nat * nat => let '(_, op, called) := e in op =? called) gen_lazy_unary_assign = true /\
   map (fun e : nat * nat * nat => let '(node, op, _) := e in (node, op)) gen_lazy_unary_assign
   = flat_map (fun node => map (fun op => (node, op)) (seq 0 5)) (seq 0 5)) /\
  (Forall lazy_matmul_entry_ok gen_lazy_matmul_assign /\
   map (fun e : nat * bool * bool * bool * bool * nat * Z * Z => let '(op, lt, rt, _, _, _, _, _) := e in (op, lt, rt)) gen_lazy_matmul_assign
   = flat_map (fun op => map (fun g : bool * bool => (op, fst g, snd g)) [(true, true); (false, true); (true, false); (false, false)]) (seq 0 5)).
Proof. exact (conj gen_lazy_unary_assign_ok gen_lazy_matmul_assign_ok). Qed.
Print Assumptions C09_source_lazy_assignment.
