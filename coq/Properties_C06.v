(** C06 - Results do not depend on the SIMD instruction set, C++ level or tuning macros.
    Every model of this development takes the build configuration (ABI / vector width, mask support, matmul
    block sizes, lane counts of reductions and of expression evaluation) as a parameter, and its property
    theorem equates the result with a configuration-free specification.  Configuration independence of the
    modelled operations (over exact arithmetic) is the corollary collected here.  Compiler acceptance, the C++
    standard level, the optimisation level and the floating-point side are observed by the correspondence
    (PARTIAL: there is no model of C++ overload resolution or of rounding). *)
From Coq Require Import Arith ZArith List Lia.
From FastorV Require Import Base.Scalar Base.BigSum Model.Cfg Model.Matmul Model.TMatmul Model.Reduce Model.Expr Model.ExprInt
     Proofs.MatmulProofs Proofs.TMatmulProofs Proofs.ReduceProofs Proofs.ExprProofs Model.Network Model.Simd Proofs.SimdProofs.
Import ListNotations.

(** matmul: any two configurations (ABI, masks, outer / inner block sizes) give the same product *)
Theorem C06_matmul_configuration_independent :
  forall (S : Scalar), RingLaws S ->
  forall (c1 c2 : cfg) (t : ety) (M K N : nat) (a b c0 : nat -> S) (i j : nat),
    0 < K -> i < M -> j < N ->
    matmul c1 t M K N a b c0 (i * N + j) = matmul c2 t M K N a b c0 (i * N + j).
Proof. intros. rewrite !matmul_exact by assumption. reflexivity. Qed.
Print Assumptions C06_matmul_configuration_independent.

(** triangular matmul *)
Theorem C06_tmatmul_configuration_independent :
  forall (S : Scalar), RingLaws S ->
  forall (c1 c2 : cfg) (t : ety) (tl tr M K N : nat) (a b c0 : nat -> S),
    0 < N -> lhs_tri tl M K a -> rhs_tri tr K N b ->
    forall p, tmatmul c1 t tl tr M K N a b c0 p = tmatmul c2 t tl tr M K N a b c0 p.
Proof. intros. rewrite !tmatmul_exact by assumption. reflexivity. Qed.
Print Assumptions C06_tmatmul_configuration_independent.

(** reductions: any two lane counts (sum and product; max/min are covered by C16_max_correct for every lane count) *)
Theorem C06_reduction_lane_count_independent :
  forall (S : Scalar), RingLaws S -> forall W1 W2 n (f : nat -> S), 0 < W1 -> 0 < W2 ->
    and (reduce (sadd S) (s0 S) W1 n f = reduce (sadd S) (s0 S) W2 n f)
        (reduce (smul S) (s1 S) W1 n f = reduce (smul S) (s1 S) W2 n f).
Proof. intros. split; [rewrite !sum_exact by assumption | rewrite !product_exact by assumption]; reflexivity. Qed.
Print Assumptions C06_reduction_lane_count_independent.

(** expression assignment: any two lane counts and any two lane-wise vector implementations *)
Theorem C06_assignment_lane_count_independent :
  forall (S : Scalar) (o : sops S) (d : nat) (aop : option nat) (e : expr S) (v1 v2 : vops S) (W1 W2 n : nat) (b1 b2 : bool) (m : mem S),
    0 < W1 -> 0 < W2 -> lanewise_ok o v1 W1 -> lanewise_ok o v2 W2 ->
    forall k p, assign o v1 W1 d n b1 aop e m k p = assign o v2 W2 d n b2 aop e m k p.
Proof. intros. rewrite !assign_pointwise by assumption. reflexivity. Qed.
Print Assumptions C06_assignment_lane_count_independent.

(** horizontal integer sums: any reduction order / grouping (hadd variant, half-register ladders) *)
Theorem C06_horizontal_sum_order_independent :
  forall w l1 l2 l, (0 < w)%Z -> Permutation.Permutation l (l1 ++ l2) -> h_sum w l = wrap w (h_sum w l1 + h_sum w l2).
Proof. intros w l1 l2 l Hw Hp. rewrite (h_sum_perm w l (l1 ++ l2) Hw Hp). apply h_sum_app; exact Hw. Qed.
Print Assumptions C06_horizontal_sum_order_independent.

(** * Tie to the source (translator): the instruction-set section of config/config.h, the alignment ladder of
    config/macros.h and the ladder defining simd_abi::native are evaluated on every run from the macros the compiler
    predefines under the flags of each configuration of the grid [scalar; sse2; sse42; avx; avx2; avx512].  The
    native ABI, masked-kernel availability and FMA availability are those of the model configurations the
    correspondence is run with (lib/common.py compares its table with this one on every run), and the storage
    alignment is the byte size of the native vector (>= 16 in the scalar configuration). *)
From FastorV Require Import Gen.Generated Proofs.GenEinsumEq.
Theorem C06_source_configuration_table :
  map (fun r : nat * bool * bool * nat => let '(a, m, f, _) := r in (a, m, f)) gen_isa_table
  = [(0, false, false); (1, false, false); (1, false, false); (2, false, false); (2, true, true); (3, true, true)] /\
  forallb (fun r : nat * bool * bool * nat => let '(a, _, _, al) := r in if a =? 0 then 16 <=? al else gen_simd_vector_size a 1 =? al) gen_isa_table = true.
Proof. exact gen_isa_table_ok. Qed.
Print Assumptions C06_source_configuration_table.
