(** Model of 3-operand einsum (network_contraction.h, meta/opmin_meta.h): the flop-count cost
    model picks which pair is contracted first; the result of the LAST pair is returned under
    the declared type (free labels of all operands in first-appearance order). *)
From Coq Require Import Arith ZArith List Lia Bool.
From FastorV Require Import Base.Scalar Base.BigSum Base.Shape Model.Einsum.
Import ListNotations.

Definition mem_nat (x : nat) (l : list nat) : bool := existsb (fun y => y =? x) l.

(* pair_flop_cost: prod(dims0) * prod of the extents of operand 1 whose label is not in operand 0 *)
Definition pair_cost (I J dI dJ : list nat) : nat :=
  prod dI * prod (map snd (filter (fun ld => negb (mem_nat (fst ld) I)) (combine J dJ))).

Definition res_labels (I J : list nat) : list nat := out_labels I J.
Definition res_dims (I J dI dJ : list nat) : list nat := out_dims I J dI dJ.

(* no_of_loops_to_set: all unique labels of the first two operands with their extents *)
Definition concat_labels (I J : list nat) : list nat := uniq (I ++ J).
Definition concat_dims (I J dI dJ : list nat) : list nat := map (fun l => ext_of l (I ++ J) (dI ++ dJ)) (uniq (I ++ J)).

(* meta_argmin (meta.h), transcribed: a two-element tie goes to the SECOND element; the recursion
   compares the running minimum of the prefix with the minimum of the rest *)
Definition argmin2 (m n : nat) : nat := if m <? n then 0 else 1.
Definition argmin3 (m n r : nat) : nat :=
  let p := Nat.min m n in if p <=? Nat.min p r then argmin2 m n else argmin2 p r + 1.
Definition argmin4 (a b c d : nat) : nat :=
  let p := Nat.min a b in if p <=? Nat.min p (Nat.min c d) then argmin2 a b else argmin3 p c d + 1.

Definition triplet_costs (I0 I1 I2 d0 d1 d2 : list nat) : list nat :=
  [ pair_cost I0 I1 d0 d1 + pair_cost (res_labels I0 I1) I2 (res_dims I0 I1 d0 d1) d2;
    pair_cost I0 I2 d0 d2 + pair_cost (res_labels I0 I2) I1 (res_dims I0 I2 d0 d2) d1;
    pair_cost I1 I2 d1 d2 + pair_cost (res_labels I1 I2) I0 (res_dims I1 I2 d1 d2) d0;
    pair_cost (concat_labels I0 I1) I2 (concat_dims I0 I1 d0 d1) d2 ].
Definition which_variant (I0 I1 I2 d0 d1 d2 : list nat) : nat :=
  match triplet_costs I0 I1 I2 d0 d1 d2 with [a; b; c; d] => argmin4 a b c d | _ => 0 end.

(* labels / extents in the order in which the chosen staging produces them (triplet_flop_cost::resulting_index / resulting_tensor) *)
Definition staged_labels (v : nat) (I0 I1 I2 : list nat) : list nat :=
  match v with
  | 0 => res_labels (res_labels I0 I1) I2
  | 1 => res_labels I1 (res_labels I0 I2)
  | _ => res_labels I0 (res_labels I1 I2)
  end.
Definition staged_dims (v : nat) (I0 I1 I2 d0 d1 d2 : list nat) : list nat :=
  match v with
  | 0 => res_dims (res_labels I0 I1) I2 (res_dims I0 I1 d0 d1) d2
  | 1 => res_dims I1 (res_labels I0 I2) d1 (res_dims I0 I2 d0 d2)
  | _ => res_dims I0 (res_labels I1 I2) d0 (res_dims I1 I2 d1 d2)
  end.
Definition min4 (l : list nat) : nat := match l with [a; b; c; d] => Nat.min (Nat.min a b) (Nat.min c d) | _ => 0 end.

(* quartet_flop_cost: cheapest triple + the pair (staged triple result, remaining operand) *)
Definition triple_then (I0 I1 I2 I3 d0 d1 d2 d3 : list nat) : nat :=
  let v := which_variant I0 I1 I2 d0 d1 d2 in
  min4 (triplet_costs I0 I1 I2 d0 d1 d2) + pair_cost (staged_labels v I0 I1 I2) I3 (staged_dims v I0 I1 I2 d0 d1 d2) d3.
Definition quartet_costs (I0 I1 I2 I3 d0 d1 d2 d3 : list nat) : list nat :=
  [ triple_then I0 I1 I2 I3 d0 d1 d2 d3; triple_then I0 I1 I3 I2 d0 d1 d3 d2;
    triple_then I0 I2 I3 I1 d0 d2 d3 d1; triple_then I1 I2 I3 I0 d1 d2 d3 d0 ].
Definition which_variant4 (I0 I1 I2 I3 d0 d1 d2 d3 : list nat) : nat :=
  match quartet_costs I0 I1 I2 I3 d0 d1 d2 d3 with [a; b; c; d] => argmin4 a b c d | _ => 0 end.

(* einsum_meta.h calc(): every label that occurs more than once must have one extent, else the
   translation unit is rejected ("dimension mismatch") *)
Definition labels_consistent (L d : list nat) : bool :=
  forallb (fun ld => forallb (fun ld' => negb (fst ld =? fst ld') || (snd ld =? snd ld')) (combine L d)) (combine L d).

Section Network.
  Variable S : Scalar.
  Definition pair (I J dI dJ : list nat) (A B : nat -> S) : nat -> S := einsum_general I J dI dJ A B.

  Definition declared_labels (I0 I1 I2 : list nat) : list nat := out_labels (I0 ++ I1) I2.

  (* flat data returned: the last pair's result, reinterpreted under the declared type *)
  Definition network3 (I0 I1 I2 d0 d1 d2 : list nat) (A B C : nat -> S) : nat -> S :=
    match which_variant I0 I1 I2 d0 d1 d2 with
    | 0 => pair (res_labels I0 I1) I2 (res_dims I0 I1 d0 d1) d2 (pair I0 I1 d0 d1 A B) C
    | 1 => pair I1 (res_labels I0 I2) d1 (res_dims I0 I2 d0 d2) B (pair I0 I2 d0 d2 A C)
    | _ => pair I0 (res_labels I1 I2) d0 (res_dims I1 I2 d1 d2) A (pair I1 I2 d1 d2 B C)
    end.

  (* four operands (extractor_contract_4): the cheapest triple is evaluated by network3 and RETURNED
     under its declared type (extents in first-appearance order), then paired with the remaining
     operand under the STAGED labels of the cost model *)
  Definition declared_dims3 (I0 I1 I2 d0 d1 d2 : list nat) : list nat := out_dims (I0 ++ I1) I2 (d0 ++ d1) d2.
  Definition stage4 (first : bool) (Ia Ib Ic Iw da db dc dw : list nat) (A B C W : nat -> S) : bool * (nat -> S) :=
    let L := staged_labels (which_variant Ia Ib Ic da db dc) Ia Ib Ic in
    let dT := declared_dims3 Ia Ib Ic da db dc in
    let tmp := network3 Ia Ib Ic da db dc A B C in
    if first then (labels_consistent (L ++ Iw) (dT ++ dw), pair L Iw dT dw tmp W)
    else (labels_consistent (Iw ++ L) (dw ++ dT), pair Iw L dw dT W tmp).
  Definition network4 (I0 I1 I2 I3 d0 d1 d2 d3 : list nat) (A B C D : nat -> S) : bool * (nat -> S) :=
    match which_variant4 I0 I1 I2 I3 d0 d1 d2 d3 with
    | 0 => stage4 true I0 I1 I2 I3 d0 d1 d2 d3 A B C D
    | 1 => stage4 false I0 I1 I3 I2 d0 d1 d3 d2 A B D C
    | 2 => stage4 false I0 I2 I3 I1 d0 d2 d3 d1 A C D B
    | _ => stage4 false I1 I2 I3 I0 d1 d2 d3 d0 B C D A
    end.

  (* before C++17 FASTOR_IF_CONSTEXPR is a plain if: all four branches are instantiated, so the
     translation unit is accepted only when every branch is label-consistent *)
  Definition network4_accepts_all (I0 I1 I2 I3 d0 d1 d2 d3 : list nat) (A B C D : nat -> S) : bool :=
    fst (stage4 true I0 I1 I2 I3 d0 d1 d2 d3 A B C D) && fst (stage4 false I0 I1 I3 I2 d0 d1 d3 d2 A B D C) &&
    fst (stage4 false I0 I2 I3 I1 d0 d2 d3 d1 A C D B) && fst (stage4 false I1 I2 I3 I0 d1 d2 d3 d0 B C D A).

  (* specification: the full Einstein sum of the three operands, free labels in declared order *)
  Definition network3_spec (I0 I1 I2 d0 d1 d2 : list nat) (A B C : nat -> S) (o : list nat) : S :=
    let all := I0 ++ I1 ++ I2 in let dall := d0 ++ d1 ++ d2 in
    nsum (map (fun l => (l, ext_of l all dall)) (uniq all))
      (fun e => if list_eq_dec Nat.eq_dec (map e (declared_labels I0 I1 I2)) o
                then smul S (smul S (A (flat d0 (map e I0))) (B (flat d1 (map e I1)))) (C (flat d2 (map e I2))) else s0 S)
      (fun _ => 0).
End Network.
Arguments network3 {S}. Arguments network4 {S}. Arguments network4_accepts_all {S}. Arguments network3_spec {S}. Arguments pair {S}.
