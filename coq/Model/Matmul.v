(** Model of Fastor/backend/matmul/{matmul.h,matmul_kernels.h,matmul_mk_smalln.h}:
    the static dispatch ladder of [_matmul<T,M,K,N>] and each kernel as the list of
    stores it issues.  Definitions only (so the model still runs when a proof breaks). *)
From Coq Require Import Arith List Lia Bool.
From FastorV Require Import Base.Scalar Base.Mem Base.BigSum Base.Tiling Model.Cfg.
Import ListNotations.

Section Matmul.
  Variable S : Scalar.

  (** one (row, column tile) micro-kernel: K-loop of fmadd into a zero (or
      multiply-first) accumulator, then a plain / masked / scalar store *)
  Definition tile_wr (W K N : nat) (mulfirst : bool) (a b : nat -> S) (r : nat) (ct : nat * ckind) : wr S :=
    let '(j, k) := ct in
    let av := fun kk => a (r * K + kk) in
    match k with
    | CVec =>
        let bv := fun kk => vload b (kk * N + j) in
        wr_store (r * N + j) W
          (if mulfirst then vacc_from 1 (K - 1) av bv (vmul (vbcast (av 0)) (bv 0))
           else vacc_from 0 K av bv vzero)
    | CMask rem =>
        let m := make_maska W rem in
        let bv := fun kk => vmaskload W m b (kk * N + j) in
        wr_maskstore W m (r * N + j)
          (if mulfirst then vacc_from 1 (K - 1) av bv (vmul (vbcast (av 0)) (bv 0))
           else vacc_from 0 K av bv vzero)
    | CScal =>
        wr_store1 (r * N + j)
          (if mulfirst then dot_mf K av (fun kk => b (kk * N + j))
           else dot_plain K av (fun kk => b (kk * N + j)))
    end.

  Definition tiled_wrs (W K N : nat) (mulfirst : bool) (rows : list nat) (cols : list (nat * ckind))
             (a b : nat -> S) : list (wr S) :=
    flat_map (fun r => map (tile_wr W K N mulfirst a b r) cols) rows.

  (** kernels *)
  Inductive kernel := KNaive | KMatVec | KSmallN | KBase | KBaseMasked | KTiny | KShuffle.

  (* numSIMDRows / numSIMDCols of _matmul_base *)
  Definition num_simd_rows (c : cfg) (W M : nat) : nat :=
    if outer_block c =? 0 then (if M mod 12 =? 0 then 3 else if M <? 2 * W then 1 else 2)
    else outer_block c.
  Definition num_simd_cols (c : cfg) (W M N : nat) : nat :=
    if inner_block c =? 0 then
      (if (N mod (W * 3) =? 0) && (M mod (W * 3) =? 0) && (24 <? N) then 3 else 2)
    else inner_block c.

  (* rows unrolled by _matmul_mk_smalln as a function of the number of column vectors *)
  Definition smalln_unroll (nv : nat) : nat :=
    match nv with 0 | 1 => 10 | 2 => 5 | 3 => 4 | 4 => 3 | _ => 2 end.

  Definition all_scalar_cols (N : nat) : list (nat * ckind) := map (fun j => (j, CScal)) (seq 0 N).

  (** the ladder of matmul.h *)
  Definition dispatch (c : cfg) (t : ety) (M K N : nat) : kernel :=
    let W := best_vsize c t N in
    if is_fp t && negb (cplx t) && negb (M =? K) && (M =? N) && ((M =? 2) || (M =? 3) || (M =? 4) || (M =? 8))
    then KShuffle
    else if cplx t then KNaive
    else if N =? 1 then KMatVec
    else if ((N =? W) || (N =? 2*W) || (N =? 3*W) || (N =? 4*W) || (N =? 5*W)) && negb (W =? 1) then KSmallN
    else if masks c && (N <? 5 * W) then KSmallN
    else if masks c then
      (if (27 <? M*N*K) && (N mod W <=? 1) then KBase
       else if (27 <? M*N*K) then KBaseMasked else KTiny)
    else (if (27 <? M*N*K) then KBase else KTiny).

  Definition kernel_wrs (c : cfg) (t : ety) (k : kernel) (M K N : nat) (a b : nat -> S) : list (wr S) :=
    let W := best_vsize c t N in
    match k with
    | KNaive | KMatVec | KShuffle =>
        tiled_wrs 1 K N false (seq 0 M) (all_scalar_cols N) a b
    | KSmallN =>
        let nv := (N + W - 1) / W in
        tiled_wrs W K N true (row_tiles (smalln_unroll nv) 1 M) (col_tiles W 1 N true) a b
    | KBase =>
        tiled_wrs W K N false (row_tiles (num_simd_rows c W M * 4) 4 M)
                  (col_tiles W (num_simd_cols c W M N) N false) a b
    | KBaseMasked =>
        tiled_wrs W K N false (row_tiles (num_simd_rows c W M * 4) 4 M)
                  (col_tiles W (num_simd_cols c W M N) N true) a b
    | KTiny =>
        tiled_wrs W K N false (seq 0 M) (col_tiles W 1 N false) a b
    end.

  Definition matmul (c : cfg) (t : ety) (M K N : nat) (a b : nat -> S) (c0 : nat -> S) : nat -> S :=
    run_wrs c0 (kernel_wrs c t (dispatch c t M K N) M K N a b).

  (** specification: element (i,j) of the mathematical product *)
  Definition mm_spec (M K N : nat) (a b : nat -> S) (i j : nat) : S :=
    sum_n (fun k => smul S (a (i * K + k)) (b (k * N + j))) K.
End Matmul.

Arguments matmul {S}. Arguments mm_spec {S}. Arguments kernel_wrs {S}. Arguments tiled_wrs {S}.
Arguments tile_wr {S}.

(** configuration admissibility: block-size macros, when defined, are positive *)
Definition wf_cfg (c : cfg) : Prop := True.
