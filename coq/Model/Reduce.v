(** Model of the reductions (AbstractTensorFunctions.h sum/product/min/max,
    TensorMethods.h sum()/product()): W lane accumulators seeded with [seed],
    a scalar accumulator for the tail, a horizontal fold of the lanes, and a final
    combination.  Predicates all_of / any_of / none_of are early-exit loops. *)
From Coq Require Import Arith List Lia Bool.
Import ListNotations.

Section Reduce.
  Variable A : Type.
  Variable op : A -> A -> A.

  (* lane accumulators after c chunks of W elements *)
  Fixpoint lane_acc (seed : A) (W : nat) (f : nat -> A) (c : nat) : nat -> A :=
    match c with
    | 0 => fun _ => seed
    | S c' => fun l => op (lane_acc seed W f c' l) (f (c' * W + l))
    end.

  (* horizontal fold of W lanes: _vec.sum() / product() / minimum() / maximum() *)
  Definition hfold (W : nat) (v : nat -> A) : A := fold_left op (map v (seq 1 (W - 1))) (v 0).

  Definition reduce (seed : A) (W n : nat) (f : nat -> A) : A :=
    let c := n / W in
    let scal := fold_left op (map f (seq (c * W) (n - c * W))) seed in
    op (hfold W (lane_acc seed W f c)) scal.

  (* specification: fold of all elements (and the W+1 seeds) in index order *)
  Definition reduce_spec (seed : A) (W n : nat) (f : nat -> A) : A :=
    fold_left op (repeat seed W ++ map f (seq 0 n)) seed.
End Reduce.

Arguments lane_acc {A}. Arguments hfold {A}. Arguments reduce {A}. Arguments reduce_spec {A}.

(** predicates over boolean expressions (scalar loops with break) *)
Fixpoint all_of_loop (f : nat -> bool) (i n : nat) : bool :=   (* n = remaining *)
  match n with 0 => true | S n' => if f i then all_of_loop f (S i) n' else false end.
Fixpoint any_of_loop (f : nat -> bool) (i n : nat) : bool :=
  match n with 0 => false | S n' => if f i then true else any_of_loop f (S i) n' end.
Definition all_of (f : nat -> bool) (n : nat) : bool := all_of_loop f 0 n.
Definition any_of (f : nat -> bool) (n : nat) : bool := any_of_loop f 0 n.
(* as written in AbstractTensorFunctions.h: the body of none_of is the body of any_of *)
Definition none_of (f : nat -> bool) (n : nat) : bool := any_of_loop f 0 n.

(** determinant closed forms of backend/determinant.h on a row-major buffer *)
From Coq Require Import ZArith.
Local Open Scope Z_scope.
Definition det2 (a : nat -> Z) : Z := a 0%nat * a 3%nat - a 1%nat * a 2%nat.
Definition det3 (a : nat -> Z) : Z :=
  a 0%nat*a 4%nat*a 8%nat + a 1%nat*a 5%nat*a 6%nat + a 2%nat*a 3%nat*a 7%nat
  - a 2%nat*a 4%nat*a 6%nat - a 1%nat*a 3%nat*a 8%nat - a 0%nat*a 5%nat*a 7%nat.
(* the AVX arrangement: two 3-lane products, horizontal adds, one subtraction *)
Definition det3_avx (a : nat -> Z) : Z :=
  (a 7%nat*(a 2%nat*a 3%nat) + a 6%nat*(a 1%nat*a 5%nat) + a 8%nat*(a 0%nat*a 4%nat))
  - (a 6%nat*(a 4%nat*a 2%nat) + a 7%nat*(a 5%nat*a 0%nat) + a 8%nat*(a 3%nat*a 1%nat)).
Definition det4 (m : nat -> Z) : Z :=
  m 12%nat * m 9%nat  * m 6%nat  * m 3%nat   -  m 8%nat * m 13%nat * m 6%nat  * m 3%nat   -
  m 12%nat * m 5%nat  * m 10%nat * m 3%nat   +  m 4%nat * m 13%nat * m 10%nat * m 3%nat   +
  m 8%nat  * m 5%nat  * m 14%nat * m 3%nat   -  m 4%nat * m 9%nat  * m 14%nat * m 3%nat   -
  m 12%nat * m 9%nat  * m 2%nat  * m 7%nat   +  m 8%nat * m 13%nat * m 2%nat  * m 7%nat   +
  m 12%nat * m 1%nat  * m 10%nat * m 7%nat   -  m 0%nat * m 13%nat * m 10%nat * m 7%nat   -
  m 8%nat  * m 1%nat  * m 14%nat * m 7%nat   +  m 0%nat * m 9%nat  * m 14%nat * m 7%nat   +
  m 12%nat * m 5%nat  * m 2%nat  * m 11%nat  -  m 4%nat * m 13%nat * m 2%nat  * m 11%nat  -
  m 12%nat * m 1%nat  * m 6%nat  * m 11%nat  +  m 0%nat * m 13%nat * m 6%nat  * m 11%nat  +
  m 4%nat  * m 1%nat  * m 14%nat * m 11%nat  -  m 0%nat * m 5%nat  * m 14%nat * m 11%nat  -
  m 8%nat  * m 5%nat  * m 2%nat  * m 15%nat  +  m 4%nat * m 9%nat  * m 2%nat  * m 15%nat  +
  m 8%nat  * m 1%nat  * m 6%nat  * m 15%nat  -  m 0%nat * m 9%nat  * m 6%nat  * m 15%nat  -
  m 4%nat  * m 1%nat  * m 10%nat * m 15%nat  +  m 0%nat * m 5%nat  * m 10%nat * m 15%nat.

(** specification: Laplace expansion along the first row of the n x n matrix (i,j) |-> a (i*n+j) *)
Fixpoint laplace (n : nat) (m : nat -> nat -> Z) : Z :=
  match n with
  | O => 1
  | S n' =>
      fold_left Z.add
        (map (fun j => (if Nat.even j then 1 else -1) * m 0%nat j *
                       laplace n' (fun r c => m (S r) (if (c <? j)%nat then c else S c)))
             (seq 0 n)) 0
  end.
Definition det_spec (n : nat) (a : nat -> Z) : Z := laplace n (fun i j => a (i * n + j)%nat).
Local Close Scope Z_scope.
