(** Model of index-tensor views and boolean-mask views (tensor_random_views.h,
    tensor_filter_views.h, BlockIndexing.h): flat indices are precomputed from the
    index tensors, reads gather in index-tensor order, writes scatter; a mask view
    updates the positions where the mask is true. *)
From Coq Require Import Arith List Lia Bool.
From FastorV Require Import Base.Shape Model.Views.
Import ListNotations.

(* A(it0, it1): tmp_it(i,j) = it0(i)*NCols + it1(j), row-major over (i,j) *)
Definition idx2 (ncols : nat) (it0 it1 : list nat) : list nat :=
  flat_map (fun a => map (fun b => a * ncols + b) it1) it0.
(* A(it0, num) / A(num, it1) *)
Definition idx_col (ncols : nat) (it0 : list nat) (num : nat) : list nat := map (fun a => a * ncols + num) it0.
Definition idx_row (ncols : nat) (num : nat) (it1 : list nat) : list nat := map (fun b => num * ncols + b) it1.
(* A(it0, fseq) / A(fseq, it1) with the normalised compile-time range *)
Definition idx_it_range (ncols : nat) (it0 : list nat) (r : nrange) : list nat :=
  idx2 ncols it0 (map (fun j => nfirst r + j * nstep r) (seq 0 (nsize r))).
Definition idx_range_it (ncols : nat) (r : nrange) (it1 : list nat) : list nat :=
  idx2 ncols (map (fun i => nfirst r + i * nstep r) (seq 0 (nsize r))) it1.

Section RV.
  Variable T : Type.
  Definition rv_read (A : nat -> T) (idx : list nat) : list T := map A idx.
  Definition rv_write (op : T -> T -> T) (idx : list nat) (rhs : nat -> T) (A : nat -> T) : nat -> T :=
    scatter (fun k => nth k idx 0) (fun k B => op (B (nth k idx 0)) (rhs k)) (length idx) A.
  (* boolean-mask view: for (i < size) if (mask[i]) data[i] op= rhs[i] *)
  Definition filter_write (op : T -> T -> T) (mask : nat -> bool) (rhs : nat -> T) (n : nat) (A : nat -> T) : nat -> T :=
    fold_left (fun B p => if mask p then upd1 B p (op (B p) (rhs p)) else B) (seq 0 n) A.
End RV.
Arguments rv_read {T}. Arguments rv_write {T}. Arguments filter_write {T}.
