(** Model of ranges and views (Ranges.h, tensor_views_{1d,2d,nd}.h, tensor_fixed_views_*.h):
    normalisation of the negative / last-relative encodings, the size formula, the
    flat loop with per-axis unflattening that reads or writes through a view, and
    the noalias() staging. *)
From Coq Require Import Arith ZArith List Lia Bool.
From FastorV Require Import Base.Shape.
Import ListNotations.

(** a range as the user writes it: first, last, step (negative = counted from the end) *)
Record urange := mkU { uf : Z; ul : Z; us : Z }.

Local Open Scope Z_scope.
(* 1-D dynamic views: the two ends are shifted independently *)
Definition norm1d (N : Z) (r : urange) : urange :=
  mkU (if uf r <? 0 then uf r + N + 1 else uf r) (if ul r <? 0 then ul r + N + 1 else ul r) (us r).
(* 2-D / n-D dynamic views and to_positive<fseq<F,L,S>,N> of the compile-time views *)
Definition normnd (N : Z) (r : urange) : urange :=
  if (ul r <? 0) && (0 <=? uf r) then mkU (uf r) (ul r + N + 1) (us r)
  else if (ul r =? 0) && (uf r =? -1) then mkU (N - 1) N (us r)
  else if (ul r <? 0) && (uf r <? 0) then mkU (uf r + N + 1) (ul r + N + 1) (us r)
  else r.
(* seq::size(), range_detector: range % step == 0 ? range/step : range/step+1 (C++ truncation) *)
Definition rsize (r : urange) : Z :=
  let range := ul r - uf r in
  if Z.rem range (us r) =? 0 then Z.quot range (us r) else Z.quot range (us r) + 1.
(* what the property calls admissible, on a normalised range *)
Definition admissible (N : Z) (r : urange) : Prop := 0 <= uf r /\ uf r <= ul r /\ ul r <= N /\ 1 <= us r.
Local Close Scope Z_scope.

(** a normalised axis range in naturals *)
Record nrange := mkN { nfirst : nat; nstep : nat; nsize : nat }.
Definition to_nrange (r : urange) : nrange := mkN (Z.to_nat (uf r)) (Z.to_nat (us r)) (Z.to_nat (rsize r)).

Definition vdims (v : list nrange) : list nat := map nsize v.

(* ind = sum_it products[it]*(as[it]*step[it] + first[it]) *)
Fixpoint voffset (pdims : list nat) (v : list nrange) (j : list nat) : nat :=
  match pdims, v, j with
  | _ :: ds, r :: rs, i :: is => (nfirst r + i * nstep r) * prod ds + voffset ds rs is
  | _, _, _ => 0
  end.

(* selected parent multi-index *)
Fixpoint vmap (v : list nrange) (j : list nat) : list nat :=
  match v, j with r :: rs, i :: is => (nfirst r + i * nstep r) :: vmap rs is | _, _ => [] end.

(* an axis range fits an extent d *)
Definition axis_ok (d : nat) (r : nrange) : Prop :=
  0 < nsize r /\ 1 <= nstep r /\ nfirst r + (nsize r - 1) * nstep r < d.
Fixpoint view_ok (pdims : list nat) (v : list nrange) : Prop :=
  match pdims, v with
  | [], [] => True
  | d :: ds, r :: rs => axis_ok d r /\ view_ok ds rs
  | _, _ => False
  end.

Section Views.
  Variable T : Type.

  (* eval_s(idx) of a view: unflatten idx over the view extents, offset into the parent *)
  Definition view_off (pdims : list nat) (v : list nrange) (i : nat) : nat :=
    voffset pdims v (unflat (vdims v) i).
  Definition view_read (A : nat -> T) (pdims : list nat) (v : list nrange) (i : nat) : T :=
    A (view_off pdims v i).

  (** generic in-order scatter: step i writes position [off i] with a value computed
      from the CURRENT memory (compound operators read the destination; without
      noalias the right-hand side may read the tensor being written) *)
  Definition upd1 (A : nat -> T) (o : nat) (x : T) : nat -> T := fun p => if p =? o then x else A p.
  Definition scatter (off : nat -> nat) (F : nat -> (nat -> T) -> T) (n : nat) (A : nat -> T) : nat -> T :=
    fold_left (fun A i => upd1 A (off i) (F i A)) (seq 0 n) A.

  (* writing through a view: A(view) op= rhs, rhs i possibly reading current memory *)
  Definition view_write (op : T -> T -> T) (pdims : list nat) (v : list nrange)
             (rhs : nat -> (nat -> T) -> T) (A : nat -> T) : nat -> T :=
    scatter (view_off pdims v) (fun i A => op (A (view_off pdims v i)) (rhs i A)) (prod (vdims v)) A.

  (* noalias(): copy the parent, assign the right-hand side (evaluated on the untouched
     original) into the view of the copy, then combine the copy's view into the real view *)
  Definition view_write_noalias (op : T -> T -> T) (pdims : list nat) (v : list nrange)
             (rhs : nat -> (nat -> T) -> T) (A : nat -> T) : nat -> T :=
    let tmp := scatter (view_off pdims v) (fun i _ => rhs i A) (prod (vdims v)) A in
    view_write op pdims v (fun i _ => view_read tmp pdims v i) A.
End Views.

Arguments view_off pdims v i : simpl never.
Arguments view_read {T}. Arguments upd1 {T}. Arguments scatter {T}. Arguments view_write {T}. Arguments view_write_noalias {T}.
