(** Build configuration as the models see it, and the vector-type selection of
    simd_vector_abi.h (get_simd_vector_size, is_exact_multiple_of_smaller_simd,
    choose_best_simd_type). *)
From Coq Require Import Arith List Lia Bool.
Import ListNotations.

(** ABI: 0 scalar, 1 sse (128), 2 avx (256), 3 avx512 (512) *)
Record cfg := mkCfg {
  abi : nat;
  masks : bool;        (* FASTOR_AVX2_IMPL || FASTOR_HAS_AVX512_MASKS *)
  outer_block : nat;   (* FASTOR_MATMUL_OUTER_BLOCK_SIZE, 0 = undefined *)
  inner_block : nat    (* FASTOR_MATMUL_INNER_BLOCK_SIZE, 0 = undefined *)
}.

(** element types: byte size and whether the type takes the SIMD route in
    choose_best_simd_type (float,double,int32,int64,complex<float|double>) *)
Record ety := mkEty { tbytes : nat; simd_ty : bool; cplx : bool; is_fp : bool }.
Definition ty_float  := mkEty 4 true false true.
Definition ty_double := mkEty 8 true false true.
Definition ty_int32  := mkEty 4 true false false.
Definition ty_int64  := mkEty 8 true false false.
Definition ty_cfloat  := mkEty 4 true true true.   (* lane count of the underlying real type *)
Definition ty_cdouble := mkEty 8 true true true.

Definition abi_bits (a : nat) (tb : nat) : nat :=
  match a with 3 => 512 | 2 => 256 | 1 => 128 | _ => tb * 8 end.

(* get_simd_vector_size<SIMDVector<T,ABI>>::value *)
Definition simd_size (a : nat) (tb : nat) : nat :=
  let v := abi_bits a tb / tb / 8 in if v =? 0 then 1 else v.

(* is_exact_multiple_of_smaller_simd<...,N>::which -- note the integer division *)
Definition which_frac (a tb N : nat) : nat :=
  let q := simd_size a tb / N in if q =? 2 then 2 else if q =? 4 then 4 else 1.

Definition half_abi (a : nat) : nat := match a with 3 => 2 | 2 => 1 | _ => a end.

(* ABI of choose_best_simd_type<SIMDVector<T,ABI>,N>::type *)
Definition best_abi (c : cfg) (t : ety) (N : nat) : nat :=
  let a := abi c in
  if negb (simd_ty t) then 0 else
  let w := which_frac a (tbytes t) N in
  let is_exact := negb (w =? 1) && negb (a =? 1) in
  let exact_abi :=
    if ((a =? 3) && (w =? 2)) || ((a =? 2) && (w =? 2)) then half_abi a
    else if (a =? 3) && (w =? 4) then 1 else a in
  if is_exact then exact_abi
  else if masks c then a
  else if N <? simd_size a (tbytes t) then half_abi a else a.

Definition best_vsize (c : cfg) (t : ety) (N : nat) : nat := simd_size (best_abi c t N) (tbytes t).
Definition native_vsize (c : cfg) (t : ety) : nat := simd_size (abi c) (tbytes t).

Lemma simd_size_pos a tb : 0 < simd_size a tb.
Proof. unfold simd_size. destruct (Nat.eqb_spec (abi_bits a tb / tb / 8) 0); lia. Qed.
Lemma best_vsize_pos c t N : 0 < best_vsize c t N.
Proof. apply simd_size_pos. Qed.
