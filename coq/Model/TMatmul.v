(** Model of Fastor/backend/matmul/tmatmul.h: triangular matrix product.
    Same tiling as _matmul_base / _matmul_base_masked, but each block clips
    the k-loop to [find_kfirst, find_klast) computed from the block origin,
    the block extents and the Lower/Upper/General tags. *)
From Coq Require Import Arith List Lia Bool.
From FastorV Require Import Base.Scalar Base.Mem Base.BigSum Base.Tiling Model.Cfg Model.Matmul.
Import ListNotations.

(** tags: 0 General, 1 Lower, 2 Upper *)
Definition tG := 0. Definition tL := 1. Definition tU := 2.

(* find_kfirst<T,K,unrollOuter,unrollInner,Lhs,Rhs>(i,j) *)
Definition find_kfirst (tl tr i j : nat) : nat :=
  if (tl =? tL) || (tl =? tG) then (if tr =? tL then j else 0)
  else if tl =? tU then (if tr =? tL then Nat.max i j else i) else 0.

(* find_klast<T,K,unrollOuter,unrollInner,Lhs,Rhs>(i,j) *)
Definition find_klast (tl tr K R C i j : nat) : nat :=
  if tl =? tL then (if tr =? tU then Nat.min (Nat.min (i + R) (j + C)) K else Nat.min (i + R) K)
  else if (tl =? tU) || (tl =? tG) then (if tr =? tU then Nat.min (j + C) K else K) else K.

Section TMatmul.
  Variable S : Scalar.

  (** a block: its rows, its column tiles, and the (origin, extents, tags) from which
      the k-range is computed.  [bt_tagged = false] models the calls that omit the
      tag template arguments (they default to General/General: full k range). *)
  Record btile := mkBt {
    bt_rows : list nat; bt_cols : list (nat * ckind);
    bt_i : nat; bt_R : nat; bt_j : nat; bt_C : nat; bt_tagged : bool }.

  Definition bt_kfirst (tl tr : nat) (t : btile) : nat :=
    if bt_tagged t then find_kfirst tl tr (bt_i t) (bt_j t) else 0.
  Definition bt_klast (tl tr K : nat) (t : btile) : nat :=
    if bt_tagged t then find_klast tl tr K (bt_R t) (bt_C t) (bt_i t) (bt_j t) else K.

  Definition ttile_wr (W K N : nat) (a b : nat -> S) (kf kl r : nat) (ct : nat * ckind) : wr S :=
    let '(j, k) := ct in
    let av := fun kk => a (r * K + kk) in
    match k with
    | CVec => wr_store (r * N + j) W (vacc_from kf (kl - kf) av (fun kk => vload b (kk * N + j)) vzero)
    | CMask rem =>
        let m := make_maska W rem in
        wr_maskstore W m (r * N + j) (vacc_from kf (kl - kf) av (fun kk => vmaskload W m b (kk * N + j)) vzero)
    | CScal => wr_store1 (r * N + j) (sum_from kf (kl - kf) (fun kk => smul S (av kk) (b (kk * N + j))) (s0 S))
    end.

  Definition btile_wrs (W K N tl tr : nat) (a b : nat -> S) (t : btile) : list (wr S) :=
    let kf := bt_kfirst tl tr t in let kl := bt_klast tl tr K t in
    flat_map (fun r => map (ttile_wr W K N a b kf kl r) (bt_cols t)) (bt_rows t).

  (** column blocks of one row block, as _tmatmul_base[_masked] issues them;
      [tag0] says whether the blocked (N0) part passes the tags, [tagm] the remainder *)
  Definition col_blocks (W nc N : nat) (masked tag0 tag1 tagm : bool) (rows : list nat) (i R : nat) : list btile :=
    let N0 := N / (nc * W) * (nc * W) in
    let N1 := N / W * W in
    map (fun j => mkBt rows (map (fun v => (j + v * W, CVec)) (seq 0 nc)) i R j (nc * W) tag0) (loop_starts 0 N0 (nc * W))
    ++ map (fun j => mkBt rows [(j, CVec)] i R j W tag1) (loop_starts N0 N1 W)
    ++ (if masked then map (fun j => mkBt rows [(j, CMask (N - N1))] i R j W tagm) (loop_starts N1 N (N - N1))
        else map (fun j => mkBt rows [(j, CScal)] i R j 1 tagm) (loop_starts N1 N 1)).

  Definition tmatmul_tiles (c : cfg) (t : ety) (masked : bool) (M N : nat) : list btile :=
    let W := best_vsize c t N in
    let nr := num_simd_rows c W M in let nc := num_simd_cols c W M N in
    let RB := nr * 4 in
    let M0 := M / RB * RB in let M1 := M / 4 * 4 in
    (* first section: blocks of RB rows; the masked variant omits the tags here *)
    flat_map (fun i => col_blocks W nc N masked (negb masked) (negb masked) (negb masked) (seq i RB) i RB) (loop_starts 0 M0 RB)
    (* second section: blocks of 4 rows; the masked variant omits the tags on the blocked part only *)
    ++ flat_map (fun i => col_blocks W nc N masked (negb masked) true true (seq i 4) i 4) (loop_starts M0 M1 4)
    (* remaining rows: full k range *)
    ++ col_blocks W nc N masked false false false (seq M1 (M - M1)) M1 (M - M1).

  Definition tmatmul_masked (c : cfg) (t : ety) (N : nat) : bool :=
    masks c && negb (N mod best_vsize c t N <=? 1).

  (* non-primitive (complex) element types: plain loops with unit blocks *)
  Definition tmatmul_naive_tiles (M N : nat) : list btile :=
    flat_map (fun i => map (fun j => mkBt [i] [(j, CScal)] i 1 j 1 true) (seq 0 N)) (seq 0 M).

  Definition tmatmul_wrs (c : cfg) (t : ety) (tl tr M K N : nat) (a b : nat -> S) : list (wr S) :=
    let W := if cplx t then 1 else best_vsize c t N in
    let tiles := if cplx t then tmatmul_naive_tiles M N else tmatmul_tiles c t (tmatmul_masked c t N) M N in
    flat_map (btile_wrs W K N tl tr a b) tiles.

  Definition tmatmul (c : cfg) (t : ety) (tl tr M K N : nat) (a b c0 : nat -> S) : nat -> S :=
    run_wrs c0 (tmatmul_wrs c t tl tr M K N a b).

  (** operands vanish outside their tagged triangle *)
  Definition lhs_tri (tl M K : nat) (a : nat -> S) : Prop :=
    forall r k, r < M -> k < K ->
      ((tl = tL -> r < k -> a (r * K + k) = s0 S) /\ (tl = tU -> k < r -> a (r * K + k) = s0 S)).
  Definition rhs_tri (tr K N : nat) (b : nat -> S) : Prop :=
    forall k c, k < K -> c < N ->
      ((tr = tL -> k < c -> b (k * N + c) = s0 S) /\ (tr = tU -> c < k -> b (k * N + c) = s0 S)).
End TMatmul.

Arguments tmatmul {S}. Arguments tmatmul_wrs {S}. Arguments btile_wrs {S}. Arguments ttile_wr {S}.
Arguments lhs_tri {S}. Arguments rhs_tri {S}.
