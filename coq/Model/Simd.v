(** Lane model of the integer SIMD vector types (simd_vector_int32.h, simd_vector_int64.h, extintrin.h).
    A register is the list of its lanes, each lane a signed value in [-2^(w-1), 2^(w-1)).
    Part 1: the lane-wise specification every (T,ABI) specialisation has to meet.
    Part 2: the SSE2 helper functions of extintrin.h AS WRITTEN, over a small model of the
            intrinsics they call (shuffles, epu32 multiply, unpack, shifts, xor).
    Part 3: masks (mask_to_array, fallback mask_load / mask_store as written). *)
From Coq Require Import ZArith List Lia Bool.
Import ListNotations.
Local Open Scope Z_scope.

(* ---------------------------------------------------------------- Part 1: specification *)
Definition wrap (w x : Z) : Z := (x + 2 ^ (w - 1)) mod 2 ^ w - 2 ^ (w - 1).
Definition in_lane (w x : Z) : Prop := - 2 ^ (w - 1) <= x < 2 ^ (w - 1).

Fixpoint map2 {A B C} (f : A -> B -> C) (l : list A) (m : list B) : list C :=
  match l, m with a :: l', b :: m' => f a b :: map2 f l' m' | _, _ => [] end.

Definition l_add w a b := wrap w (a + b).
Definition l_sub w a b := wrap w (a - b).
Definition l_mul w a b := wrap w (a * b).
Definition l_neg w a := wrap w (0 - a).
Definition l_abs w a := wrap w (Z.abs a).
Definition l_div (w a b : Z) := Z.quot a b.          (* C++ truncating division; callers exclude b = 0 and MIN / -1 *)

Definition v_add w := map2 (l_add w).
Definition v_sub w := map2 (l_sub w).
Definition v_mul w := map2 (l_mul w).
Definition v_div w := map2 (l_div w).
Definition v_min := map2 Z.min.
Definition v_max := map2 Z.max.
Definition v_neg w := map (l_neg w).
Definition v_abs w := map (l_abs w).
Definition v_fmadd w a b c := v_add w (v_mul w a b) c.
Definition v_fmsub w a b c := v_sub w (v_mul w a b) c.
Definition v_fnmadd w a b c := v_sub w c (v_mul w a b).
Definition v_reverse (a : list Z) := rev a.
Definition v_set (args : list Z) := rev args.        (* set(x0,...,xN-1): x0 lands in the LAST lane *)
Definition v_set_sequential w (n : nat) (x : Z) := map (fun i => wrap w (x + Z.of_nat i)) (seq 0 n).
Definition v_broadcast (n : nat) (x : Z) := repeat x n.

Definition h_sum w (l : list Z) : Z := fold_left (fun acc x => wrap w (acc + x)) l 0.
Definition h_prod w (l : list Z) : Z := fold_left (fun acc x => wrap w (acc * x)) l 1.
Definition h_dot w (a b : list Z) : Z := h_sum w (v_mul w a b).
Definition h_min (l : list Z) : Z := match l with [] => 0 | x :: r => fold_left Z.min r x end.
Definition h_max (l : list Z) : Z := match l with [] => 0 | x :: r => fold_left Z.max r x end.

(* ---------------------------------------------------------------- Part 2: SSE2 helpers as written (32-bit lanes) *)
Definition W32 : Z := 32.
Definition u32 (x : Z) : Z := x mod 2 ^ 32.                       (* the unsigned reading of a lane *)
Definition s32 (x : Z) : Z := wrap 32 x.
Definition ln (a : list Z) (k : nat) : Z := nth k a 0.

Definition MM_SHUFFLE (z y x w : Z) : Z := z * 64 + y * 16 + x * 4 + w.
(* _mm_shuffle_epi32: result lane k = a[(imm >> 2k) & 3] *)
Definition shuffle_epi32 (a : list Z) (imm : Z) : list Z :=
  map (fun k => ln a (Z.to_nat ((imm / 4 ^ Z.of_nat k) mod 4))) [0; 1; 2; 3]%nat.
Definition add_epi32 (a b : list Z) : list Z := map2 (fun x y => s32 (x + y)) a b.
Definition sub_epi32 (a b : list Z) : list Z := map2 (fun x y => s32 (x - y)) a b.
(* _mm_mul_epu32: unsigned 32x32 -> 64 of lanes 0 and 2; the 64-bit products occupy lanes (0,1) and (2,3) *)
Definition mul_epu32 (a b : list Z) : list Z :=
  let p0 := u32 (ln a 0) * u32 (ln b 0) in let p2 := u32 (ln a 2) * u32 (ln b 2) in
  [s32 p0; s32 (p0 / 2 ^ 32); s32 p2; s32 (p2 / 2 ^ 32)].
Definition unpacklo_epi32 (a b : list Z) : list Z := [ln a 0; ln b 0; ln a 1; ln b 1].
Definition unpackhi_epi32 (a b : list Z) : list Z := [ln a 2; ln b 2; ln a 3; ln b 3].
Definition unpacklo_epi64 (a b : list Z) : list Z := [ln a 0; ln a 1; ln b 0; ln b 1].
Definition srai_epi32 (a : list Z) (k : Z) : list Z := map (fun x => Z.shiftr x k) a.   (* arithmetic shift: Z.shiftr is floor division *)
Definition xor_si128 (a b : list Z) : list Z := map2 Z.lxor a b.                        (* two's complement: Z.lxor on signed values *)
Definition cvtsi128_si32 (a : list Z) : Z := ln a 0.
Definition setzero : list Z := [0; 0; 0; 0].

(* extintrin.h *)
Definition sum_epi32 (a : list Z) : Z :=
  let c := add_epi32 a (shuffle_epi32 a (MM_SHUFFLE 2 3 0 1)) in
  let d := add_epi32 c (shuffle_epi32 c (MM_SHUFFLE 0 1 2 3)) in
  cvtsi128_si32 d.
Definition prod_epi32 (a : list Z) : Z :=
  let c := mul_epu32 a (shuffle_epi32 a (MM_SHUFFLE 2 3 0 1)) in
  let d := mul_epu32 c (shuffle_epi32 c (MM_SHUFFLE 2 2 2 2)) in
  cvtsi128_si32 d.
Definition mul_epi32x_sse2 (a b : list Z) : list Z :=
  let a13 := shuffle_epi32 a 245 in let b13 := shuffle_epi32 b 245 in      (* 0xF5 *)
  let prod02 := mul_epu32 a b in let prod13 := mul_epu32 a13 b13 in
  let prod01 := unpacklo_epi32 prod02 prod13 in let prod23 := unpackhi_epi32 prod02 prod13 in
  unpacklo_epi64 prod01 prod23.
Definition reverse_epi32 (a : list Z) : list Z := shuffle_epi32 a 27.      (* 0x1b *)
Definition abs_epi32_sse2 (a : list Z) : list Z :=
  let sign := srai_epi32 a 31 in let inv := xor_si128 a sign in sub_epi32 inv sign.
Definition neg_epi32 (a : list Z) : list Z := sub_epi32 setzero a.
Definition dot_epi32_sse2 (a b : list Z) : Z := sum_epi32 (mul_epi32x_sse2 a b).

(* ---------------------------------------------------------------- Part 3: masks *)
(* mask_to_array: b[i] = bit (N-i-1) of the mask *)
Definition mask_to_array (n : nat) (mask : Z) : list bool :=
  map (fun i => Z.testbit mask (Z.of_nat (n - i - 1))) (seq 0 n).
Definition lane_enabled (mask : Z) (j : nat) : bool := Z.testbit mask (Z.of_nat j).

(* fallback mask_store as written (after the fix): for i in 0..N-1: if b[i] then a[N-i-1] = value[N-i-1] *)
Definition mask_store_fb (n : nat) (mask : Z) (v : list Z) (mem : nat -> Z) : nat -> Z :=
  fold_left (fun m i => if nth i (mask_to_array n mask) false
                        then (fun q => if (q =? n - i - 1)%nat then nth (n - i - 1) v 0 else m q) else m)
            (seq 0 n) mem.
(* fallback mask_load as written: value = 0; for i: if b[i] then value[N-i-1] = a[N-i-1] *)
Definition mask_load_fb (n : nat) (mask : Z) (mem : nat -> Z) : list Z :=
  let reg := fold_left (fun (r : nat -> Z) i => if nth i (mask_to_array n mask) false
                        then (fun q => if (q =? n - i - 1)%nat then mem (n - i - 1)%nat else r q) else r)
            (seq 0 n) (fun _ => 0) in
  map reg (seq 0 n).
(* what the hardware-mask forms and the property ask for *)
Definition mask_store_spec (n : nat) (mask : Z) (v : list Z) (mem : nat -> Z) : nat -> Z :=
  fun q => if (q <? n)%nat && lane_enabled mask q then nth q v 0 else mem q.
Definition mask_load_spec (n : nat) (mask : Z) (mem : nat -> Z) : list Z :=
  map (fun q => if lane_enabled mask q then mem q else 0) (seq 0 n).
