(** Model of the staged assignment of expressions with evaluation-requiring operands
    (expressions/binary_ops/binary_arithmetic_assignment.h, unary_ops/unary_math_ops.h, linalg_ops):
    "dst op= e" is rewritten by overload resolution into a sequence of in-place steps on dst.
    A tensor is its flat element function; elementwise nodes read element i only; an evaluation-requiring
    operator (%, inv, trans, ...) is an arbitrary function of whole tensors.  The destination may occur
    ELEMENTWISE on the right-hand side (constructor [Dst]). *)
From Coq Require Import List Bool Arith.
From FastorV Require Import Base.Scalar.
Import ListNotations.

Inductive bop := Add | Sub | Mul | Div.
Inductive aop := ASet | AAdd | ASub | AMul | ADiv.

Section Lazy.
  Variable S : Scalar.
  Definition V := nat -> S.
  Variable uf : nat -> S -> S.          (* elementwise unary functions: -, abs, sqrt, ... *)
  Variable lf : nat -> V -> V -> V.     (* evaluation-requiring operators (second operand ignored by the unary ones) *)

  Inductive expr :=
  | Leaf (v : V)                 (* another tensor *)
  | Sc (c : S)                   (* a primitive (scalar) operand *)
  | Dst                          (* the destination itself *)
  | Un (f : nat) (e : expr)
  | Bin (o : bop) (a b : expr)
  | Lz (k : nat) (a b : expr).

  Definition bapp (o : bop) (x y : S) : S :=
    match o with Add => sadd S x y | Sub => ssub S x y | Mul => smul S x y | Div => sdiv S x y end.
  Definition app (op : aop) (x y : S) : S :=
    match op with ASet => y | AAdd => sadd S x y | ASub => ssub S x y | AMul => smul S x y | ADiv => sdiv S x y end.

  (* the mathematical value of e when the destination holds d *)
  Fixpoint ev (d : V) (e : expr) : V :=
    match e with
    | Leaf v => v | Sc c => fun _ => c | Dst => d
    | Un f e => fun i => uf f (ev d e i)
    | Bin o a b => fun i => bapp o (ev d a i) (ev d b i)
    | Lz k a b => lf k (ev d a) (ev d b)
    end.

  (* requires_evaluation_v: an evaluation-requiring node occurs somewhere *)
  Fixpoint req (e : expr) : bool :=
    match e with Lz _ _ _ => true | Un _ e => req e | Bin _ a b => req a || req b | _ => false end.
  (* does_alias(dst, e) for the real destination: its storage occurs in e (Aliasing.h) *)
  Fixpoint mentions (e : expr) : bool :=
    match e with Dst => true | Un _ e => mentions e | Bin _ a b => mentions a || mentions b | Lz _ a b => mentions a || mentions b | _ => false end.
  Definition is_prim (e : expr) : bool := match e with Sc _ => true | _ => false end.

  (* which in-place operator follows for the second operand: FASTOR_MAKE_BINARY_ARITHMETIC_ASSIGNMENT_{0,1} instances *)
  Definition second_op (op : aop) (o : bop) : aop :=
    match op, o with
    | ASet, Add => AAdd | ASet, Sub => ASub | ASet, Mul => AMul | ASet, Div => ADiv
    | AAdd, Add => AAdd | AAdd, Sub => ASub | ASub, Add => ASub | ASub, Sub => AAdd
    | _, _ => op
    end.
  (* staged (two in-place steps) or through a temporary of the whole expression (_2 macros)? *)
  Definition two_step (op : aop) (o : bop) : bool :=
    match op, o with ASet, _ => true | AAdd, Add | AAdd, Sub | ASub, Add | ASub, Sub => true | _, _ => false end.

  (** [run fixed alias op cur d0 e]: the contents of dst after "dst op= e", when dst currently holds [cur].
      [alias] = dst is the user's destination (its storage is what [Dst] leaves read); otherwise dst is a fresh
      temporary (as in "D = e", which constructs a temporary first) and [Dst] leaves read [d0].
      [fixed] selects the repaired alias branch / operand order; [fixed = false] is the code of the snapshot. *)
  Fixpoint run (fixed alias : bool) (op : aop) (cur d0 : V) (e : expr) : V :=
    let dv := if alias then cur else d0 in
    let whole := fun i => app op (cur i) (ev dv e i) in      (* trivial_assign, or evaluate e into a temporary first *)
    match e with
    | Bin o a b =>
      if negb (req e) then whole
      else if negb (two_step op o) then whole                 (* const result_type tmp(src); trivial_assign_op(dst,tmp) *)
      else if is_prim a then
        (* assign_op(dst, scalar); assign_op2(dst, rhs)   -- repaired: the other way round *)
        if fixed && negb (match op with ASet => true | _ => false end)
        then (fun i => app op (run fixed alias (second_op op o) cur d0 b i) (ev dv a i))
        else run fixed alias (second_op op o) (fun i => app op (cur i) (ev dv a i)) d0 b
      else if alias && negb (is_prim b) && mentions b && negb (match op with ASet => true | _ => false end) then
        (* the does_alias branch of the _1 macros *)
        let tmp := if fixed then ev cur b else cur in
        let c1 := run fixed alias op cur d0 a in
        fun i => app (second_op op o) (c1 i) (tmp i)
      else
        let c1 := run fixed alias op cur d0 a in
        run fixed alias (second_op op o) c1 d0 b
    | Un f e' =>
      if negb (req e) then whole
      else let t := ev dv e' in fun i => app op (cur i) (uf f (t i))
    | Lz k a b => let t := lf k (ev dv a) (ev dv b) in fun i => app op (cur i) (t i)
    | _ => whole
    end.

  (* "D = e": construct a temporary from e, then copy *)
  Definition assign_stmt (fixed : bool) (op : aop) (d : V) (e : expr) : V :=
    match op with
    | ASet => run fixed false ASet (fun _ => s0 S) d e
    | _ => run fixed true op d d e
    end.
  (* the eager meaning *)
  Definition eager_stmt (op : aop) (d : V) (e : expr) : V := fun i => app op (d i) (ev d e i).
End Lazy.

Arguments Leaf {S}. Arguments Sc {S}. Arguments Dst {S}. Arguments Un {S}. Arguments Bin {S}. Arguments Lz {S}.
