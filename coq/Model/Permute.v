(** Model of permute<Index<p...>> (tensor_algebra/permute.h: C++14 forward map and C++17
    reverse map), and of the tiled transpose of backend/transpose/transpose.h. *)
From Coq Require Import Arith List Lia Bool.
From FastorV Require Import Base.Scalar Base.Mem Base.Shape Base.Tiling Model.Views.
Import ListNotations.

(* out index component n is component p[n] of the source index *)
Definition gatherp (p : list nat) (l : list nat) : list nat := map (fun m => nth m l 0) p.

Fixpoint index_of (x : nat) (l : list nat) : nat :=
  match l with [] => 0 | y :: ys => if x =? y then 0 else S (index_of x ys) end.
(* reverse map: position of each axis in p *)
Definition invp (p : list nat) : list nat := map (fun i => index_of i p) (seq 0 (length p)).

(* count_less normalisation of arbitrary distinct labels to 0..k-1 *)
Definition count_less (lst : list nat) (x : nat) : nat := length (filter (fun y => y <? x) lst).
Definition normalise_labels (lst : list nat) : list nat := map (count_less lst) lst.

Definition is_perm (p : list nat) : Prop := NoDup p /\ forall m, In m p <-> m < length p.

Section Permute.
  Variable T : Type.
  (* C++14 branch: loop over the source's multi-index, scatter *)
  Definition permute14 (p dims : list nat) (a : nat -> T) : nat -> T :=
    let odims := gatherp p dims in
    scatter (fun c => flat odims (gatherp p (unflat dims c))) (fun c _ => a c) (prod dims) a.
  (* C++17 branch: loop over the result's multi-index, gather through the reverse map *)
  Definition permute17 (p dims : list nat) (a : nat -> T) : nat -> T :=
    let odims := gatherp p dims in
    fun o => if o <? prod odims then a (flat dims (gatherp (invp p) (unflat odims o))) else a o.
End Permute.
Arguments permute14 {T}. Arguments permute17 {T}.

Section Transpose.
  Variable S : Scalar.
  (* the AVX path with block sizes 1: V x V tiles through pack/transposed-pack, scalar edges *)
  Definition transpose_wrs (V M N : nat) (a : nat -> S) : list (wr S) :=
    let M0 := M / V * V in let N0 := N / V * V in
    flat_map (fun j =>
        flat_map (fun i => map (fun jj => wr_store ((j + jj) * M + i) V (fun l => a ((i + l) * N + (j + jj)))) (seq 0 V)) (loop_starts 0 M0 V)
        ++ flat_map (fun i => map (fun jj => wr_store1 ((j + jj) * M + i) (a (i * N + j + jj))) (seq 0 V)) (seq M0 (M - M0)))
      (loop_starts 0 N0 V)
    ++ flat_map (fun j => map (fun i => wr_store1 (j * M + i) (a (i * N + j))) (seq 0 M)) (seq N0 (N - N0)).
  Definition transpose_tiled (V M N : nat) (a c0 : nat -> S) : nat -> S := run_wrs c0 (transpose_wrs V M N a).
  (* plain loops (SSE / scalar builds) *)
  Definition transpose_plain (M N : nat) (a c0 : nat -> S) : nat -> S :=
    run_wrs c0 (flat_map (fun j => map (fun i => wr_store1 (j * M + i) (a (i * N + j))) (seq 0 M)) (seq 0 N)).
End Transpose.
Arguments transpose_tiled {S}. Arguments transpose_plain {S}. Arguments transpose_wrs {S}.
