(** Model of pairwise einsum (tensor_algebra/einsum.h, contraction.h, meta/einsum_meta.h):
    index lists are lists of labels; the general route is a loop nest over the unique
    labels in order of first appearance accumulating out[index_out] += a[index_a]*b[index_b];
    the classifier meta-functions decide the matmul re-routings. *)
From Coq Require Import Arith List Lia Bool.
From FastorV Require Import Base.Scalar Base.BigSum Base.Shape.
Import ListNotations.

Definition env := nat -> nat.                       (* label -> value *)
Definition eupd (e : env) (l x : nat) : env := fun k => if k =? l then x else e k.

(* unique labels in order of first appearance, with their extents *)
Fixpoint uniq (ls : list nat) : list nat :=
  match ls with [] => [] | l :: r => l :: filter (fun k => negb (k =? l)) (uniq r) end.
Definition count_occ_nat (l : nat) (ls : list nat) : nat := length (filter (fun k => k =? l) ls).
(* free labels: those occurring exactly once in I ++ J, in order of first appearance *)
Definition free_labels (ij : list nat) : list nat := filter (fun l => count_occ_nat l ij =? 1) (uniq ij).
(* extent of a label: taken from the first operand position carrying it *)
Fixpoint ext_of (l : nat) (labels dims : list nat) : nat :=
  match labels, dims with
  | k :: ks, d :: ds => if k =? l then d else ext_of l ks ds
  | _, _ => 1
  end.

Section Einsum.
  Variable S : Scalar.

  (* nested sum over a list of (label, extent) *)
  Fixpoint nsum (ls : list (nat * nat)) (f : env -> S) (e : env) : S :=
    match ls with
    | [] => f e
    | (l, d) :: r => sum_n (fun x => nsum r f (eupd e l x)) d
    end.

  (* nested loops in the same order over a state *)
  Fixpoint nloop {St : Type} (ls : list (nat * nat)) (body : env -> St -> St) (e : env) (st : St) : St :=
    match ls with
    | [] => body e st
    | (l, d) :: r => fold_left (fun st x => nloop r body (eupd e l x) st) (seq 0 d) st
    end.

  Definition term (I J dimsA dimsB : list nat) (A B : nat -> S) (e : env) : S :=
    smul S (A (flat dimsA (map e I))) (B (flat dimsB (map e J))).

  Definition loop_labels (I J dimsA dimsB : list nat) : list (nat * nat) :=
    map (fun l => (l, ext_of l (I ++ J) (dimsA ++ dimsB))) (uniq (I ++ J)).
  Definition out_labels (I J : list nat) : list nat := free_labels (I ++ J).
  Definition out_dims (I J dimsA dimsB : list nat) : list nat :=
    map (fun l => ext_of l (I ++ J) (dimsA ++ dimsB)) (out_labels I J).

  (* the general route: RecursiveCartesian loop nest, output zero-initialised *)
  Definition einsum_general (I J dimsA dimsB : list nat) (A B : nat -> S) : nat -> S :=
    let O := out_labels I J in let od := out_dims I J dimsA dimsB in
    nloop (loop_labels I J dimsA dimsB)
      (fun e (out : nat -> S) => let p := flat od (map e O) in
                                 fun q => if q =? p then sadd S (out q) (term I J dimsA dimsB A B e) else out q)
      (fun _ => 0) (fun _ => s0 S).

  (* specification: the Einstein sum - over all assignments of all labels that agree with
     the free multi-index o *)
  Definition einsum_spec (I J dimsA dimsB : list nat) (A B : nat -> S) (o : list nat) : S :=
    nsum (loop_labels I J dimsA dimsB)
      (fun e => if list_eq_dec Nat.eq_dec (map e (out_labels I J)) o then term I J dimsA dimsB A B e else s0 S)
      (fun _ => 0).

  (* the gemm route: <P++C , C++Q> -> _matmul<M,K,N> on the flat data *)
  Definition einsum_gemm (M K N : nat) (A B : nat -> S) : nat -> S :=
    fun p => if p <? M * N then sum_n (fun k => smul S (A ((p / N) * K + k)) (B (k * N + p mod N))) K else s0 S.
End Einsum.
Arguments nsum {S}. Arguments nloop {St}. Arguments term {S}. Arguments einsum_general {S}. Arguments einsum_spec {S}. Arguments einsum_gemm {S}.

(** classifier meta-functions of meta/einsum_meta.h on label lists (fuel = list length) *)
Definition nthl (l : list nat) (i : nat) : nat := nth i l 0.
Fixpoint match_from_end_aux (fuel : nat) (i0 i1 : list nat) (n0 n1 : nat) : bool :=
  match fuel with
  | 0 => false
  | S f =>
      if nthl i1 n1 =? nthl i0 n0 then
        (if n1 =? 0 then true else if n0 =? 0 then true else match_from_end_aux f i0 i1 (n0 - 1) (n1 - 1))
      else false
  end.
Definition match_indices_from_end (i0 i1 : list nat) : bool :=
  match_from_end_aux (length i0 + length i1) i0 i1 (length i0 - 1) (length i1 - 1).
Fixpoint match_from_start_aux (fuel : nat) (i0 i1 : list nat) (n0 n1 : nat) : bool :=
  match fuel with
  | 0 => false
  | S f =>
      if nthl i1 n1 =? nthl i0 n0 then
        (if n1 =? length i1 - 1 then true else if n0 =? length i0 - 1 then true else match_from_start_aux f i0 i1 (n0 + 1) (n1 + 1))
      else false
  end.
Definition match_indices_from_start (i0 i1 : list nat) : bool :=
  match_from_start_aux (length i0 + length i1) i0 i1 0 0.
Fixpoint match_two_ends_aux (fuel : nat) (i0 i1 : list nat) (nc n0 n1 : nat) : bool :=
  match fuel with
  | 0 => false
  | S f =>
      if nc =? 0 then false
      else if nc =? 1 then (nthl i1 n1 =? nthl i0 (n0 - nc + 1))
      else if nthl i1 n1 =? nthl i0 (n0 - nc + 1) then match_two_ends_aux f i0 i1 (nc - 1) n0 (n1 + 1) else false
  end.
Definition no_of_unique (ls : list nat) : nat := length (uniq ls).
Definition is_mat_vec (i0 i1 : list nat) : bool := match_indices_from_end i0 i1 && negb (length i0 =? length i1).
Definition is_vec_mat (i0 i1 : list nat) : bool := match_indices_from_start i0 i1 && negb (length i0 =? length i1).
Definition is_mat_mat (i0 i1 : list nat) : bool :=
  let nc := length i0 + length i1 - no_of_unique (i0 ++ i1) in
  let is_inner := (length i0 =? length i1) && (no_of_unique (i0 ++ i1) =? length i1) in
  negb (is_mat_vec i0 i1) && negb (is_vec_mat i0 i1) && negb is_inner
  && match_two_ends_aux (length i0 + length i1 + 1) i0 i1 nc (length i0 - 1) 0.
