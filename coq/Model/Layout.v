(** Model of the layout conversions of TensorFunctions.h (tocolumnmajor / torowmajor),
    of Tensor(ptr, ColumnMajor), and of tensor maps (TensorMap.h, reshape/flatten/squeeze):
    a map is the same buffer as its source. *)
From Coq Require Import Arith List Lia Bool.
From FastorV Require Import Base.Shape Model.Views.
Import ListNotations.

(* column-major offset of a multi-index *)
Definition cflat (dims idx : list nat) : nat := flat (rev dims) (rev idx).

(* the loop counter enumerates the reversed extents with an odometer; [index] is the
   row-major offset of the corresponding multi-index of the original extents *)
Definition rm_of_counter (dims : list nat) (c : nat) : nat := flat dims (rev (unflat (rev dims) c)).

Section Layout.
  Variable T : Type.
  (* torowmajor: arr_out[counter] = a_data[index] *)
  Definition torowmajor (dims : list nat) (a : nat -> T) : nat -> T :=
    fun c => if c <? prod dims then a (rm_of_counter dims c) else a c.
  (* tocolumnmajor: arr_out[index] = a_data[counter] *)
  Definition tocolumnmajor (dims : list nat) (a : nat -> T) : nat -> T :=
    scatter (rm_of_counter dims) (fun c _ => a c) (prod dims) a.

  (** tensor maps: an operation through a map of any same-size shape is the operation on the buffer *)
  Inductive mop :=
  | MFill (c : T) | MScalar (f : T -> T)                 (* fill, scalar compound assignment *)
  | MEltwise (f : T -> T -> T) (other : nat -> T)       (* tensor / expression compound assignment *)
  | MSlice (f : T -> T -> T) (first step cnt : nat) (rhs : nat -> T).  (* write through a 1-D slice of the flattened data *)
  Definition apply_mop (n : nat) (o : mop) (b : nat -> T) : nat -> T :=
    match o with
    | MFill c => fun p => if p <? n then c else b p
    | MScalar f => fun p => if p <? n then f (b p) else b p
    | MEltwise f other => fun p => if p <? n then f (b p) (other p) else b p
    | MSlice f first step cnt rhs =>
        scatter (fun i => first + i * step) (fun i B => f (B (first + i * step)) (rhs i)) cnt b
    end.
  (* an operation applied through the source tensor or through any map of it: the map only
     carries a different compile-time shape and an "unaligned" flag; neither enters the values *)
  Definition apply_via (via_map : bool) (shape : list nat) (n : nat) (o : mop) (b : nat -> T) : nat -> T := apply_mop n o b.
  Definition run_history (n : nat) (h : list (bool * list nat * mop)) (b : nat -> T) : nat -> T :=
    fold_left (fun b x => let '(via, shape, o) := x in apply_via via shape n o b) h b.
End Layout.
Arguments torowmajor {T}. Arguments tocolumnmajor {T}. Arguments apply_mop {T}. Arguments run_history {T}. Arguments apply_via {T}.
Arguments MFill {T}. Arguments MScalar {T}. Arguments MEltwise {T}. Arguments MSlice {T}.
