(** Scalar meaning of the operator codes for the integer element types (C++
    semantics on in-range values; arithmetic wraps modulo 2^bits as the SIMD
    instructions do) and for boolean expressions (values 0/1). *)
From Coq Require Import ZArith List Bool.
From FastorV Require Import Base.Scalar Base.Mem Model.Expr.
Import ListNotations.
Local Open Scope Z_scope.

Definition b2z (b : bool) : Z := if b then 1 else 0.

(* unary: 0 neg, 1 abs, 2 logical not, 3 unary plus *)
Definition int_un (bits : Z) (op : nat) (x : Z) : Z :=
  match op with
  | 0%nat => wrap bits (- x)
  | 1%nat => wrap bits (Z.abs x)
  | 2%nat => b2z (x =? 0)
  | _ => x
  end.

(* binary: 0 add, 1 sub, 2 mul, 3 div (truncating), 4 min, 5 max,
           6 <, 7 >, 8 <=, 9 >=, 10 ==, 11 !=, 12 &&, 13 || *)
Definition int_bin (bits : Z) (op : nat) (x y : Z) : Z :=
  match op with
  | 0%nat => wrap bits (x + y)
  | 1%nat => wrap bits (x - y)
  | 2%nat => wrap bits (x * y)
  | 3%nat => wrap bits (Z.quot x y)
  | 4%nat => Z.min x y
  | 5%nat => Z.max x y
  | 6%nat => b2z (x <? y)
  | 7%nat => b2z (y <? x)
  | 8%nat => b2z (x <=? y)
  | 9%nat => b2z (y <=? x)
  | 10%nat => b2z (x =? y)
  | 11%nat => b2z (negb (x =? y))
  | 12%nat => b2z (negb (x =? 0) && negb (y =? 0))
  | 13%nat => b2z (negb (x =? 0) || negb (y =? 0))
  | _ => x
  end.

Definition int_sops (bits : Z) : sops ZS := mkSops (S:=ZS) (int_un bits) (int_bin bits).
