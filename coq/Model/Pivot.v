(** Model of expressions/linalg_ops/unary_piv_op.h: the static row pre-pivot
    (pivot_inplace: for every column j the row of largest magnitude among rows j..n-1 of
    the ORIGINAL matrix is exchanged with position j of the permutation vector),
    apply_pivot (gather of rows), reconstruct (scatter of rows) and reconstruct_colwise
    (scatter of columns).  Matrices are functions row -> column -> value. *)
From Coq Require Import Arith List Bool.
Import ListNotations.

Section Pivot.
  Variable T : Type.
  Variable gt : T -> T -> bool.          (* cnorm(x) > cnorm(y) *)

  Definition swapf (p : nat -> nat) (a b : nat) : nat -> nat :=
    fun i => if i =? a then p b else if i =? b then p a else p i.

  (* inner loop of pivot_inplace: max_index over i = j .. n-1, strict comparison *)
  Definition argmax_col (A : nat -> nat -> T) (n j : nat) : nat :=
    fold_left (fun mi i => if gt (A i j) (A mi j) then i else mi) (seq j (n - j)) j.

  Definition pivot_step (A : nat -> nat -> T) (n : nat) (p : nat -> nat) (j : nat) : nat -> nat :=
    let mi := argmax_col A n j in if j =? mi then p else swapf p j mi.
  Definition pivot_perm (A : nat -> nat -> T) (n : nat) : nat -> nat :=
    fold_left (pivot_step A n) (seq 0 n) (fun i => i).

  (* apply_pivot: copyA = A; for i: if P(i) != i, row i of copyA := row P(i) of A *)
  Definition apply_pivot (n : nat) (A : nat -> nat -> T) (P : nat -> nat) : nat -> nat -> T :=
    fold_left (fun B i => if P i =? i then B else fun r c => if r =? i then A (P i) c else B r c) (seq 0 n) A.

  (* reconstruct(A,P): copyA = A; for i: if P(i) != i, row P(i) of copyA := row i of A *)
  Definition reconstruct (n : nat) (A : nat -> nat -> T) (P : nat -> nat) : nat -> nat -> T :=
    fold_left (fun B i => if P i =? i then B else fun r c => if r =? P i then A i c else B r c) (seq 0 n) A.

  (* reconstruct_colwise(A,P): copyA = A; for i: if P(i) != i, column P(i) of copyA := column i of A *)
  Definition reconstruct_colwise (n : nat) (A : nat -> nat -> T) (P : nat -> nat) : nat -> nat -> T :=
    fold_left (fun B i => if P i =? i then B else fun r c => if c =? P i then A r i else B r c) (seq 0 n) A.

  (* the matrix encoding of the permutation: P(i, perm i) = 1, the rest 0; apply_pivot / reconstruct
     with a matrix argument look the column of the 1 up with std::find *)
  Definition perm_matrix (one zero : T) (P : nat -> nat) : nat -> nat -> T :=
    fun i c => if c =? P i then one else zero.
  Definition find_one (eqb1 : T -> bool) (n : nat) (row : nat -> T) : nat :=
    fold_right (fun c acc => if eqb1 (row c) then c else acc) n (seq 0 n).
End Pivot.

Arguments swapf p a b i /.
Arguments pivot_perm {T}. Arguments argmax_col {T}. Arguments pivot_step {T}. Arguments apply_pivot {T}. Arguments reconstruct {T}.
Arguments reconstruct_colwise {T}. Arguments perm_matrix {T}. Arguments find_one {T}.
