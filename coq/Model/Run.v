(** Entry points used by the correspondence harness: the models applied to
    list-encoded operands.  Evaluated inside Coq (vm_compute) and, for volume,
    through extraction (Extract.v). *)
From Coq Require Import ZArith List.
From FastorV Require Import Base.Scalar Base.Mem Model.Cfg Model.Matmul Model.TMatmul Model.Expr Model.ExprInt Model.Reduce Base.Shape Model.Views Model.RandomViews Model.Layout Model.Permute Model.Einsum Model.Network.
Import ListNotations.

Definition run_matmul_Z (c : cfg) (t : ety) (M K N : nat) (a b : list Z) : list Z :=
  map (matmul (S:=ZS) c t M K N (fun i => nth i a 0%Z) (fun i => nth i b 0%Z) (fun _ => 77777%Z)) (seq 0 (M*N + 2)).
Definition run_matmul_C (c : cfg) (t : ety) (M K N : nat) (a b : list (Z*Z)) : list (Z*Z) :=
  map (matmul (S:=ZC) c t M K N (fun i => nth i a (0,0)%Z) (fun i => nth i b (0,0)%Z) (fun _ => (77777,0)%Z)) (seq 0 (M*N + 2)).
Definition run_best_vsize (c : cfg) : list (list nat) :=
  map (fun t => map (fun n => best_vsize c t (S n)) (seq 0 80)) [ty_double; ty_float; ty_int32; ty_int64].

Definition run_tmatmul_Z (c : cfg) (t : ety) (tl tr M K N : nat) (a b : list Z) : list Z :=
  map (tmatmul (S:=ZS) c t tl tr M K N (fun i => nth i a 0%Z) (fun i => nth i b 0%Z) (fun _ => 77777%Z)) (seq 0 (M*N + 2)).
Definition run_tmatmul_C (c : cfg) (t : ety) (tl tr M K N : nat) (a b : list (Z*Z)) : list (Z*Z) :=
  map (tmatmul (S:=ZC) c t tl tr M K N (fun i => nth i a (0,0)%Z) (fun i => nth i b (0,0)%Z) (fun _ => (77777,0)%Z)) (seq 0 (M*N + 2)).

(** C02: [tensors] are the operand buffers (number 0 is the destination), all of length n *)
Definition run_assign_Z (bits : Z) (W n : nat) (boolean : bool) (aop : option nat) (e : expr ZS) (tensors : list (list Z)) : list Z :=
  let m : mem ZS := fun k i => nth i (nth k tensors []) 77777%Z in
  let o := int_sops bits in
  map (assign o (vops_of o) W 0 n boolean aop e m 0) (seq 0 (n + 2)).

(** C16: reductions on list-encoded integer data (wrap-around arithmetic of width [bits]) *)
Definition run_reduce_Z (bits : Z) (W : nat) (data : list Z) (lo hi : Z) : list Z :=
  let n := length data in let f := fun i => nth i data 0%Z in
  [ reduce (int_bin bits 0) 0%Z W n f; reduce (int_bin bits 2) 1%Z W n f;
    reduce Z.min hi W n f; reduce Z.max lo W n f ].
Definition run_preds (data : list bool) : list bool :=
  let n := length data in let f := fun i => nth i data false in
  [ all_of f n; any_of f n; none_of f n ].
Definition run_det_Z (n : nat) (a : list Z) : Z :=
  let f := fun i => nth i a 0%Z in
  match n with 2 => det2 f | 3 => det3 f | 4 => det4 f | _ => det_spec n f end.

(** C04/C05/C18: a view given by the raw user ranges; [oned] selects the 1-D normalisation.
    Returns (extent per axis, parent offset of every view element in row-major view order). *)
Definition run_view (oned : bool) (pdims : list nat) (rs : list (Z * Z * Z)) : list nat * list nat :=
  let v := map (fun dr : nat * (Z * Z * Z) =>
                  let '(d, (f, l, s)) := dr in
                  to_nrange ((if oned then norm1d else normnd) (Z.of_nat d) (mkU f l s))) (combine pdims rs) in
  (vdims v, map (view_off pdims v) (seq 0 (prod (vdims v)))).
(* is the normalised range admissible for extent d (what the property quantifies over) *)
Definition run_admissible (oned : bool) (d : nat) (r : Z * Z * Z) : bool :=
  let '(f, l, s) := r in
  let u := (if oned then norm1d else normnd) (Z.of_nat d) (mkU f l s) in
  (0 <=? uf u)%Z && (uf u <=? ul u)%Z && (ul u <=? Z.of_nat d)%Z && (1 <=? us u)%Z && (uf u <? Z.of_nat d)%Z.

(** C19: index-tensor and mask views on list-encoded integer data; [op] is a binary operator code of ExprInt (0 add 1 sub 2 mul 3 div), 100 = plain assignment *)
Definition rv_op (op : nat) : Z -> Z -> Z := if (op =? 100)%nat then (fun _ y => y) else int_bin 64 op.
Definition run_rv_read (idx : list nat) (A : list Z) : list Z := rv_read (fun p => nth p A 77777%Z) idx.
Definition run_rv_write (op : nat) (idx : list nat) (rhs A : list Z) : list Z :=
  map (rv_write (rv_op op) idx (fun k => nth k rhs 0%Z) (fun p => nth p A 77777%Z)) (seq 0 (length A + 1)).
Definition run_filter_write (op : nat) (mask : list bool) (rhs A : list Z) : list Z :=
  map (filter_write (rv_op op) (fun p => nth p mask false) (fun p => nth p rhs 0%Z) (length A) (fun p => nth p A 77777%Z)) (seq 0 (length A + 1)).
Definition run_idx2 := idx2. Definition run_idx_col := idx_col. Definition run_idx_row := idx_row.
Definition run_idx_it_range (ncols : nat) (it0 : list nat) (d : nat) (r : Z * Z * Z) : list nat :=
  let '(f, l, s) := r in idx_it_range ncols it0 (to_nrange (normnd (Z.of_nat d) (mkU f l s))).
Definition run_idx_range_it (ncols : nat) (d : nat) (r : Z * Z * Z) (it1 : list nat) : list nat :=
  let '(f, l, s) := r in idx_range_it ncols (to_nrange (normnd (Z.of_nat d) (mkU f l s))) it1.

(** C20: layout conversions on list-encoded data (values are positions) *)
Definition run_torowmajor (dims : list nat) : list nat := map (torowmajor dims (fun p => p)) (seq 0 (prod dims)).
Definition run_tocolumnmajor (dims : list nat) : list nat := map (tocolumnmajor dims (fun p => p)) (seq 0 (prod dims)).

(** C14 *)
Definition run_permute (cxx17 : bool) (p dims : list nat) : list nat * list nat :=
  (gatherp p dims, map ((if cxx17 then permute17 else permute14) p dims (fun q => q)) (seq 0 (prod dims))).
Definition run_transpose (V M N : nat) : list Z :=
  map (transpose_tiled (S:=ZS) V M N (fun q => Z.of_nat q) (fun _ => 77777%Z)) (seq 0 (M * N + 2)).
Definition run_invp := invp.

(** C03 / C15 *)
Definition run_einsum (I J dimsA dimsB : list nat) (A B : list Z) : list nat * list Z :=
  let od := out_dims I J dimsA dimsB in
  (od, map (einsum_general (S:=ZS) I J dimsA dimsB (fun p => nth p A 0%Z) (fun p => nth p B 0%Z)) (seq 0 (prod od))).
Definition run_classify (I J : list nat) : list bool := [is_mat_vec I J; is_vec_mat I J; is_mat_mat I J].

Definition run_network3 (I0 I1 I2 d0 d1 d2 : list nat) (A B C : list Z) : list nat * (list nat * list Z) :=
  let od := out_dims (I0 ++ I1) I2 (d0 ++ d1) d2 in
  ([which_variant I0 I1 I2 d0 d1 d2], (od,
   map (network3 (S:=ZS) I0 I1 I2 d0 d1 d2 (fun p => nth p A 0%Z) (fun p => nth p B 0%Z) (fun p => nth p C 0%Z)) (seq 0 (prod od)))).
Definition run_triplet_costs := triplet_costs.
Definition run_network4 (I0 I1 I2 I3 d0 d1 d2 d3 : list nat) (A B C D : list Z) : list nat * (list bool * list Z) :=
  let od := out_dims (I0 ++ I1 ++ I2) I3 (d0 ++ d1 ++ d2) d3 in
  let r := network4 (S:=ZS) I0 I1 I2 I3 d0 d1 d2 d3 (fun p => nth p A 0%Z) (fun p => nth p B 0%Z) (fun p => nth p C 0%Z) (fun p => nth p D 0%Z) in
  (which_variant4 I0 I1 I2 I3 d0 d1 d2 d3 :: quartet_costs I0 I1 I2 I3 d0 d1 d2 d3, ([fst r; network4_accepts_all (S:=ZS) I0 I1 I2 I3 d0 d1 d2 d3 (fun p => nth p A 0%Z) (fun p => nth p B 0%Z) (fun p => nth p C 0%Z) (fun p => nth p D 0%Z)], if fst r then map (snd r) (seq 0 (prod od)) else [])).

(* ---- C08: integer SIMD lanes *)
From FastorV Require Import Model.Simd.
Definition run_simd_int (w : Z) (op : nat) (a b c : list Z) : list Z :=
  match op with
  | 0 => v_add w a b | 1 => v_sub w a b | 2 => v_mul w a b | 3 => v_div w a b
  | 4 => v_neg w a | 5 => v_abs w a | 6 => v_min a b | 7 => v_max a b
  | 8 => v_fmadd w a b c | 9 => v_fmsub w a b c | 10 => v_fnmadd w a b c
  | 11 => v_reverse a | 12 => v_set a | 13 => v_set_sequential w (length a) (nth 0 a 0%Z)
  | 14 => [h_sum w a] | 15 => [h_prod w a] | 16 => [h_dot w a b] | 17 => [h_min a] | _ => [h_max a]
  end.
(* the SSE2 int32 helpers as written in extintrin.h *)
Definition run_simd_sse2 (op : nat) (a b : list Z) : list Z :=
  match op with
  | 2 => mul_epi32x_sse2 a b | 4 => neg_epi32 a | 5 => abs_epi32_sse2 a | 11 => reverse_epi32 a
  | 14 => [sum_epi32 a] | 15 => [prod_epi32 a] | _ => [dot_epi32_sse2 a b]
  end.
Definition run_mask_store (n : nat) (mask : Z) (v mem : list Z) : list Z :=
  map (mask_store_fb n mask v (fun q => nth q mem 0%Z)) (seq 0 (length mem)).
Definition run_mask_load (n : nat) (mask : Z) (mem : list Z) : list Z := mask_load_fb n mask (fun q => nth q mem 0%Z).

(* ---- C10-C12: LU / solve / inverse over Z on unimodular integer matrices (all divisions are by 1) *)
From FastorV Require Import Model.Linalg.
Definition mat_of (n : nat) (l : list Z) : nat -> nat -> Z := fun i j => nth (i * n + j) l 0%Z.
Definition list_of (n m : nat) (A : nat -> nat -> Z) : list Z := flat_map (fun i => map (A i) (seq 0 m)) (seq 0 n).
Definition run_lu (n : nat) (A : list Z) : list Z * list Z :=
  (list_of n n (lu_L (S:=ZS) n (mat_of n A)), list_of n n (lu_U (S:=ZS) n (mat_of n A))).
Definition run_lu_inverse (n : nat) (A : list Z) : list Z := list_of n n (lu_inverse (S:=ZS) n (mat_of n A)).
Definition run_lu_solve (n c : nat) (A B : list Z) : list Z :=
  list_of n c (fun i j => lu_solve (S:=ZS) n (mat_of n A) (fun r => nth (r * c + j) B 0%Z) i).

(* ---- C10-C13: the static pre-pivot and the row / column permutation helpers (unary_piv_op.h) over Z *)
From FastorV Require Import Model.Pivot.
Definition zabs_gt (a b : Z) : bool := (Z.abs b <? Z.abs a)%Z.
Definition permf (P : list nat) : nat -> nat := fun i => nth i P 0.
Definition run_pivot (n : nat) (A : list Z) : list nat := map (pivot_perm zabs_gt (mat_of n A) n) (seq 0 n).
Definition run_apply_pivot (n : nat) (A : list Z) (P : list nat) : list Z := list_of n n (apply_pivot n (mat_of n A) (permf P)).
Definition run_reconstruct (n : nat) (A : list Z) (P : list nat) : list Z := list_of n n (reconstruct n (mat_of n A) (permf P)).
Definition run_reconstruct_colwise (n : nat) (A : list Z) (P : list nat) : list Z := list_of n n (reconstruct_colwise n (mat_of n A) (permf P)).
