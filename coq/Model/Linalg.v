(** Models of the substitution and factorisation loops of expressions/linalg_ops/unary_lu_op.h, over an
    abstract scalar (a field for the theorems, Z for running the model on unimodular integer matrices).
    Every loop below writes each entry ONCE, from entries written before it: the model is a fold of
    single-assignment steps over the list of entries in program order. *)
From Coq Require Import Arith List Lia Bool.
From FastorV Require Import Base.Scalar Base.BigSum.
Import ListNotations.

Section SingleAssignment.
  Variables (K F : Type) (eqb : K -> K -> bool).
  Variable g : K -> (K -> F) -> F.           (* the value the program stores at entry i, from the current state *)
  (* the stored value is computed once, when the step executes (let-bound so that the extracted model does not recompute it on every read) *)
  Definition sa_step (v : K -> F) (i : K) : K -> F := let x := g i v in fun k => if eqb k i then x else v k.
  Definition sa_run (order : list K) (v0 : K -> F) : K -> F := fold_left sa_step order v0.
End SingleAssignment.
Arguments sa_step {K F}. Arguments sa_run {K F}.

Section Linalg.
  Variable S : Scalar.
  Notation "a +s b" := (sadd S a b) (at level 50, left associativity).
  Notation "a -s b" := (ssub S a b) (at level 50, left associativity).
  Notation "a *s b" := (smul S a b) (at level 40, left associativity).
  Definition mat := nat -> nat -> S.
  Definition vec := nat -> S.

  (* forward_subs (single right-hand side): for i = 0..M-1:  y(i) = b(i) - sum_{k<i} L(i,k)*y(k) *)
  Definition fsub_g (L : mat) (b : vec) (i : nat) (y : vec) : S := b i -s sum_n (fun k => L i k *s y k) i.
  Definition fsub (n : nat) (L : mat) (b : vec) : vec := sa_run Nat.eqb (fsub_g L b) (seq 0 n) (fun _ => s0 S).

  (* backward_subs: for i = M-1..0:  x(i) = (y(i) - sum_{k=i+1}^{M-1} U(i,k)*x(k)) / U(i,i) *)
  Definition bsub_g (n : nat) (U : mat) (y : vec) (i : nat) (x : vec) : S :=
    sdiv S (y i -s sum_n (fun k => U i (i + 1 + k) *s x (i + 1 + k)) (n - 1 - i)) (U i i).
  Definition bsub (n : nat) (U : mat) (y : vec) : vec := sa_run Nat.eqb (bsub_g n U y) (rev (seq 0 n)) (fun _ => s0 S).

  (* lu_simple_dispatcher (M > 8), loops as written.  Key (false,i,j) = U(i,j), (true,i,j) = L(i,j).
     for j: L(j,j) = 1; for i<=j: U(i,j) = A(i,j) - sum_{k<i} L(i,k)U(k,j); for i>=j: L(i,j) = (A(i,j) - sum_{k<j} L(i,k)U(k,j)) / U(j,j) *)
  Definition key := (bool * (nat * nat))%type.
  Definition key_eqb (a b : key) : bool := Bool.eqb (fst a) (fst b) && Nat.eqb (fst (snd a)) (fst (snd b)) && Nat.eqb (snd (snd a)) (snd (snd b)).
  Definition Lk i j : key := (true, (i, j)). Definition Uk i j : key := (false, (i, j)).
  Definition lu_g (A : mat) (q : key) (v : key -> S) : S :=
    let '(isL, (i, j)) := q in
    if isL then sdiv S (A i j -s sum_n (fun k => v (Lk i k) *s v (Uk k j)) j) (v (Uk j j))
    else A i j -s sum_n (fun k => v (Lk i k) *s v (Uk k j)) i.
  (* program order: column by column, U(0..j,j) then L(j..n-1,j).  Position p = j*(2n) + r: r < n is U(r,j), else L(r-n,j) *)
  Definition unrank (n p : nat) : key := let j := p / (2 * n) in let r := p mod (2 * n) in if r <? n then Uk r j else Lk (r - n) j.
  Definition valid (q : key) : bool := let '(isL, (i, j)) := q in if isL then j <=? i else i <=? j.
  Definition lu_order (n : nat) : list key := filter valid (map (unrank n) (seq 0 (2 * n * n))).
  Definition doolittle (n : nat) (A : mat) : key -> S := sa_run key_eqb (lu_g A) (lu_order n) (fun _ => s0 S).
  Definition lu_L (n : nat) (A : mat) : mat := fun i j => doolittle n A (Lk i j).
  Definition lu_U (n : nat) (A : mat) : mat := fun i j => doolittle n A (Uk i j).

  (* get_lu_solve / get_lu_inverse: forward then backward substitution, column by column *)
  Definition lu_solve (n : nat) (A : mat) (b : vec) : vec := bsub n (lu_U n A) (fsub n (lu_L n A) b).
  Definition lu_inverse (n : nat) (A : mat) : mat :=
    fun i j => lu_solve n A (fun r => if r =? j then s1 S else s0 S) i.

  (* matrix product over the first n indices *)
  Definition mmul (n : nat) (A B : mat) : mat := fun i j => sum_n (fun k => A i k *s B k j) n.
  Definition mvec (n : nat) (A : mat) (x : vec) : vec := fun i => sum_n (fun k => A i k *s x k) n.
End Linalg.
Arguments fsub {S}. Arguments bsub {S}. Arguments doolittle {S}. Arguments lu_L {S}. Arguments lu_U {S}.
Arguments lu_solve {S}. Arguments lu_inverse {S}. Arguments mmul {S}. Arguments mvec {S}.
