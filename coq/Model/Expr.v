(** Model of expression evaluation and assignment (TensorAssignment.h, binary_*_op.h,
    unary_*_op.h): an expression tree is evaluated W lanes at a time up to
    ROUND_DOWN(size,W) and one element at a time for the tail; the destination may
    itself occur in the expression (in-place, element-wise aliasing). *)
From Coq Require Import Arith List Lia Bool.
From FastorV Require Import Base.Scalar Base.Mem Base.Tiling.
Import ListNotations.

Section Expr.
  Variable S : Scalar.

  (** operator codes are opaque naturals; their scalar meaning is [sops] (the C++
      scalar operation) and their vector meaning [vops] (the SIMDVector<T,ABI>
      operation chosen by the configuration). *)
  Record sops := mkSops { s_un : nat -> S -> S; s_bin : nat -> S -> S -> S }.
  Record vops := mkVops { v_un : nat -> vec S -> vec S; v_bin : nat -> vec S -> vec S -> vec S }.

  Inductive expr :=
  | ELeaf (k : nat)            (* tensor number k *)
  | EConst (c : S)             (* scalar operand, broadcast *)
  | EUn (op : nat) (e : expr)
  | EBin (op : nat) (e1 e2 : expr).

  Definition mem := nat -> buf S.        (* tensor number -> buffer *)

  (* eval_s<T>(i) *)
  Fixpoint eval_s (o : sops) (m : mem) (e : expr) (i : nat) : S :=
    match e with
    | ELeaf k => m k i
    | EConst c => c
    | EUn op e1 => s_un o op (eval_s o m e1 i)
    | EBin op e1 e2 => s_bin o op (eval_s o m e1 i) (eval_s o m e2 i)
    end.

  (* eval<T>(i) : SIMDVector *)
  Fixpoint eval_v (v : vops) (m : mem) (e : expr) (i : nat) : vec S :=
    match e with
    | ELeaf k => vload (m k) i
    | EConst c => vbcast c
    | EUn op e1 => v_un v op (eval_v v m e1 i)
    | EBin op e1 e2 => v_bin v op (eval_v v m e1 i) (eval_v v m e2 i)
    end.

  Definition upd (m : mem) (d : nat) (b : buf S) : mem := fun k => if k =? d then b else m k.

  (** assignment operators: code [aop] is a binary operator code combining old
      destination and right-hand side; [None] is plain assignment *)
  Definition step_vec (o : sops) (v : vops) (W d : nat) (aop : option nat) (e : expr) (m : mem) (i : nat) : mem :=
    let rhs := eval_v v m e i in
    let val := match aop with None => rhs | Some op => v_bin v op (vload (m d) i) rhs end in
    upd m d (store (m d) i W val).
  Definition step_scal (o : sops) (d : nat) (aop : option nat) (e : expr) (m : mem) (i : nat) : mem :=
    let rhs := eval_s o m e i in
    let val := match aop with None => rhs | Some op => s_bin o op (m d i) rhs end in
    upd m d (store1 (m d) i val).

  (* trivial_assign / trivial_assign_add / ... ; [boolean] expressions take the scalar loop only *)
  Definition assign (o : sops) (v : vops) (W d n : nat) (boolean : bool) (aop : option nat) (e : expr) (m : mem) : mem :=
    if boolean then fold_left (step_scal o d aop e) (seq 0 n) m
    else
      let n0 := n / W * W in
      fold_left (step_scal o d aop e) (seq n0 (n - n0))
        (fold_left (step_vec o v W d aop e) (loop_starts 0 n0 W) m).

  (** specification: the scalar operation applied at every flat position to the
      ORIGINAL contents *)
  Definition assign_spec (o : sops) (d n : nat) (aop : option nat) (e : expr) (m : mem) : mem :=
    fun k p => if (k =? d) && (p <? n)
               then match aop with None => eval_s o m e p | Some op => s_bin o op (m d p) (eval_s o m e p) end
               else m k p.

  (** the vector operations agree lane by lane with the scalar ones on the first W lanes
      (established per (type, ABI, operator) in C08) *)
  Definition lanewise_ok (o : sops) (v : vops) (W : nat) : Prop :=
    (forall op a l, l < W -> v_un v op a l = s_un o op (a l)) /\
    (forall op a b l, l < W -> v_bin v op a b l = s_bin o op (a l) (b l)).

  (** the canonical vector operations: every lane applies the scalar operation *)
  Definition vops_of (o : sops) : vops :=
    mkVops (fun op a l => s_un o op (a l)) (fun op a b l => s_bin o op (a l) (b l)).
End Expr.

Arguments ELeaf {S}. Arguments EConst {S}. Arguments EUn {S}. Arguments EBin {S}.
Arguments eval_s {S}. Arguments eval_v {S}. Arguments assign {S}. Arguments assign_spec {S}.
Arguments lanewise_ok {S}. Arguments vops_of {S}. Arguments upd {S}. Arguments step_vec {S}. Arguments step_scal {S}.
Arguments mkSops {S}. Arguments mkVops {S}. Arguments s_un {S}. Arguments s_bin {S}. Arguments v_un {S}. Arguments v_bin {S}.
