(** C02 - An evaluated expression equals the scalar operation applied element by element. *)
From Coq Require Import Arith List ZArith.
From FastorV Require Import Base.Scalar Base.Mem Model.Expr Model.ExprInt Proofs.ExprProofs.
Import ListNotations.

(** For every scalar structure, operator table, expression tree, tensor size n, lane
    count W > 0, plain or compound assignment, boolean (scalar-loop) or arithmetic
    (vector body + scalar tail) route, and every memory in which the destination may
    itself be an operand: provided each vector operation agrees lane by lane with its
    scalar counterpart on the first W lanes (the C08 obligation), the memory after the
    assignment equals the scalar operation applied at every flat position p < n of
    the destination to the ORIGINAL contents; every other position of the destination
    and every other tensor is unchanged. *)
Theorem C02_assign_pointwise :
  forall (S : Scalar) (o : sops S) (d : nat) (aop : option nat) (e : expr S)
         (v : vops S) (W n : nat) (boolean : bool) (m : mem S),
    0 < W -> lanewise_ok o v W ->
    forall k p, assign o v W d n boolean aop e m k p = assign_spec o d n aop e m k p.
Proof. exact assign_pointwise. Qed.
Print Assumptions C02_assign_pointwise.

(** a vector of W lanes evaluates an expression to the scalar evaluation of each lane *)
Theorem C02_eval_lane :
  forall (S : Scalar) (o : sops S) (v : vops S) (W : nat) (m : mem S) (e : expr S) (i l : nat),
    lanewise_ok o v W -> l < W -> eval_v v m e i l = eval_s o m e (i + l).
Proof. exact eval_v_lane. Qed.
Print Assumptions C02_eval_lane.

(** the hypothesis is satisfiable: lane-wise vector operations *)
Theorem C02_lanewise_canonical :
  forall (S : Scalar) (o : sops S) (W : nat), lanewise_ok o (vops_of o) W.
Proof. exact lanewise_ok_canonical. Qed.

(** non-vacuity: A += (A - B*3) on 6 int32 elements with 4 lanes, the destination is an operand *)
Example C02_runs :
  let m : mem ZS := fun k i => nth i (nth k [[1;2;3;4;5;6]; [10;20;30;40;50;60]]%Z []) 9%Z in
  map (assign (int_sops 32) (vops_of (int_sops 32)) 4 0 6 false (Some 0)
         (EBin 1 (ELeaf 0) (EBin 2 (ELeaf 1) (EConst (S:=ZS) 3%Z))) m 0) (seq 0 7)
  = [-28; -56; -84; -112; -140; -168; 9]%Z.
Proof. vm_compute. reflexivity. Qed.
