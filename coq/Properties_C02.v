(** C02 - An evaluated expression equals the scalar operation applied element by element. *)
From Coq Require Import Arith List ZArith.
From FastorV Require Import Base.Scalar Base.Mem Model.Expr Model.ExprInt Proofs.ExprProofs.
Import ListNotations.

(** For every scalar structure, operator table, expression tree, tensor size n, lane
    count W > 0, plain or compound assignment, boolean (scalar-loop) or arithmetic
    (vector body + scalar tail) route, and every memory in which the destination may
    itself be an operand: provided each vector operation agrees lane by lane with its
    scalar counterpart on the first W lanes (the C08 obligation), the memory after the
    assignment equals the scalar operation applied at every flat position p < n of
    the destination to the ORIGINAL contents; every other position of the destination
    and every other tensor is unchanged. *)
Theorem C02_assign_pointwise :
  forall (S : Scalar) (o : sops S) (d : nat) (aop : option nat) (e : expr S)
         (v : vops S) (W n : nat) (boolean : bool) (m : mem S),
    0 < W -> lanewise_ok o v W ->
    forall k p, assign o v W d n boolean aop e m k p = assign_spec o d n aop e m k p.
Proof. exact assign_pointwise. Qed.
Print Assumptions C02_assign_pointwise.

(** a vector of W lanes evaluates an expression to the scalar evaluation of each lane *)
Theorem C02_eval_lane :
  forall (S : Scalar) (o : sops S) (v : vops S) (W : nat) (m : mem S) (e : expr S) (i l : nat),
    lanewise_ok o v W -> l < W -> eval_v v m e i l = eval_s o m e (i + l).
Proof. exact eval_v_lane. Qed.
Print Assumptions C02_eval_lane.

(** the hypothesis is satisfiable: lane-wise vector operations *)
Theorem C02_lanewise_canonical :
  forall (S : Scalar) (o : sops S) (W : nat), lanewise_ok o (vops_of o) W.
Proof. exact lanewise_ok_canonical. Qed.

(** non-vacuity: A += (A - B*3) on 6 int32 elements with 4 lanes, the destination is an operand *)
Example C02_runs :
  let m : mem ZS := fun k i => nth i (nth k [[1;2;3;4;5;6]; [10;20;30;40;50;60]]%Z []) 9%Z in
  map (assign (int_sops 32) (vops_of (int_sops 32)) 4 0 6 false (Some 0)
         (EBin 1 (ELeaf 0) (EBin 2 (ELeaf 1) (EConst (S:=ZS) 3%Z))) m 0) (seq 0 7)
  = [-28; -56; -84; -112; -140; -168; 9]%Z.
Proof. vm_compute. reflexivity. Qed.

(** * Tie to the source (translator).  The loops every elementwise assignment to a tensor runs
    (tensor/TensorAssignment.h, tensor/TensorInplaceOperators.h), as translated on every run: the five
    trivial_assign*(dst, expression) functions have exactly the loop structure of [assign] above and apply the
    operator they are named after in the vector loop, the scalar remainder and the boolean scalar loop; with a
    number on the right the only exception is the documented reciprocal-multiply (division by a non-integral
    number); Tensor::operator op= -> assign_op -> trivial_assign_op preserves the operator *)
From Coq Require Import Bool.
From FastorV Require Import Gen.GeneratedAccess Proofs.GenAccessEq.
Theorem C02_source_assignment_loops :
  gen_trivial_assign_expr = map (fun o => (o, o, o, o)) (seq 0 5) /\
  (forallb (fun e : nat * nat * nat * bool * nat => let '(op, vop, sop, recip, restr) := e in
             (vop =? sop) &&
             (if recip then (op =? 4) && (vop =? 3) && (restr =? 2) else (vop =? op))) gen_trivial_assign_scalar = true /\
   map (fun e : nat * nat * nat * bool * nat => let '(op, _, _, _, _) := e in op) gen_trivial_assign_scalar = [0; 1; 2; 3; 4; 4] /\
   existsb (fun e : nat * nat * nat * bool * nat => let '(op, vop, _, recip, restr) := e in (op =? 4) && (vop =? 4) && negb recip && (restr =? 1)) gen_trivial_assign_scalar = true) /\
  (forallb (fun e : nat * nat * nat => let '(_, op, called) := e in op =? called) gen_tensor_assign_dispatch = true /\
   map (fun e : nat * nat * nat => let '(_, op, _) := e in op) (filter (fun e : nat * nat * nat => let '(k, _, _) := e in k =? 0) gen_tensor_assign_dispatch) = [1; 2; 3; 4; 1; 2; 3; 4] /\
   map (fun e : nat * nat * nat => let '(_, op, _) := e in op) (filter (fun e : nat * nat * nat => let '(k, _, _) := e in k =? 1) gen_tensor_assign_dispatch) = [0; 1; 2; 3; 4; 0; 1; 2; 3; 4]).
Proof. exact (conj gen_trivial_assign_expr_eq (conj gen_trivial_assign_scalar_ok gen_tensor_assign_dispatch_ok)). Qed.
Print Assumptions C02_source_assignment_loops.

(** the four arithmetic expression nodes as compiled (binary_arithmetic_ops.h: the macro expanded for Add, Sub, Mul;
    binary_div_op.h for Div - the files expressions.h includes), as translated:
    each of the 72 evaluator overloads returns [left OP right] with the node's own operator, left from _lhs and
    right from _rhs, a number exactly where the overload is selected for one, both sides evaluated by the same
    evaluator at the same position - the [EBin] case of [eval_s] / [eval_v] above; and none of the
    4 x 6 x 3 overloads is missing *)
Theorem C02_source_arithmetic_nodes :
  forallb binop_node_ok gen_binop_nodes = true /\
  length gen_binop_nodes = 72 /\
  forallb (fun k => existsb (fun e => key_eqb k (binop_key e)) gen_binop_nodes) binop_expected = true.
Proof. exact gen_binop_nodes_ok. Qed.
Print Assumptions C02_source_arithmetic_nodes.

(** the elementwise math nodes (expressions/unary_ops/unary_math_ops.h), as translated: the macro's evaluators apply
    the vector operation in eval / teval and the scalar operation in eval_s / teval_s to the operand evaluated by
    the same evaluator at the same position; every instantiation pairs a function with itself on vectors and its
    std:: namesake on scalars (sqrt: Fastor's sqrts); the specialised assignments re-apply the node's own operation *)
From Coq Require Import String.
Theorem C02_source_math_nodes :
  gen_unary_node_evaluators = [(0, 0, 0, true); (1, 1, 1, true); (0, 0, 0, true); (1, 1, 1, true); (2, 0, 2, true); (3, 1, 3, true)]%nat /\
  forallb unary_row_ok gen_unary_nodes = true /\
  distinct (map (fun r : string * string * string * string => let '(fn, _, _, _) := r in fn) gen_unary_nodes) = true /\
  distinct (map (fun r : string * string * string * string => let '(_, _, _, st) := r in st) gen_unary_nodes) = true /\
  (30 <= List.length gen_unary_nodes)%nat /\
  forallb (fun a : string * string * string => let '(op, name, kind) := a in
             existsb (fun r : string * string * string * string => let '(_, simd, _, st) := r in String.eqb st name && String.eqb simd op) gen_unary_nodes)
          gen_unary_node_assignments = true.
Proof. exact (conj gen_unary_node_evaluators_ok gen_unary_nodes_ok). Qed.
Print Assumptions C02_source_math_nodes.

(** the comparison / logical nodes (binary_cmp_ops.h) and the free functions [operator OP(l, r)] that build the
    arithmetic and comparison nodes, as translated: all 18 evaluator overloads of the comparison macro return
    [left OP right] with the macro's OP, operands in order, through the function's own evaluator; the eight
    instantiations pair each operator with its node; every operator function builds its node from (l, r) *)
Theorem C02_source_comparison_nodes_and_operator_functions :
  forallb cmp_eval_ok gen_cmp_node_evaluators = true /\
  forallb (fun k : nat * nat * nat * bool * bool => let '(_, fn, args, gl, gr) := k in
             existsb (fun e => key_eqb (0, fn, args, gl, gr) (cmp_key e)) gen_cmp_node_evaluators)
          (filter (fun k : nat * nat * nat * bool * bool => let '(node, _, _, _, _) := k in node =? 1) binop_expected) = true /\
  List.length gen_cmp_node_evaluators = 18 /\
  gen_cmp_nodes = [("==", "EQ"); ("!=", "NEQ"); ("<", "LT"); (">", "GT"); ("<=", "LE"); (">=", "GE"); ("&&", "AND"); ("||", "OR")]%string /\
  forallb (fun f : bool * bool * bool => let '(ln, rn, ordered) := f in ordered && negb (ln && rn)) (gen_cmp_functions ++ gen_binop_functions) = true /\
  List.length gen_cmp_functions = 4 /\ List.length gen_binop_functions = 8.
Proof. exact gen_cmp_nodes_ok. Qed.
Print Assumptions C02_source_comparison_nodes_and_operator_functions.
