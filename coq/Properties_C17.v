(** C17 - Triangular matrix product equals the general product of triangular operands. *)
From Coq Require Import Arith List ZArith.
From FastorV Require Import Base.Scalar Base.Mem Base.BigSum Model.Cfg Model.Matmul Model.TMatmul
     Proofs.MatmulProofs Proofs.TMatmulProofs.
Import ListNotations.

(** For every configuration, element type, tag pair (General/Lower/Upper on each side),
    shape (M,K,N) - trapezoidal included - and operands that vanish outside their tagged
    triangle, every element of the MxN result equals sum_k A(i,k)B(k,j) over any
    commutative ring; all M*N positions are written (structural zeros included) and no
    other position is. *)
Theorem C17_tmatmul_exact :
  forall (S : Scalar), RingLaws S ->
  forall (c : cfg) (t : ety) (tl tr M K N : nat) (a b c0 : nat -> S),
    0 < N -> lhs_tri tl M K a -> rhs_tri tr K N b ->
    forall p, tmatmul c t tl tr M K N a b c0 p =
              if p <? M * N then mm_spec M K N a b (p / N) (p mod N) else c0 p.
Proof. exact tmatmul_exact. Qed.
Print Assumptions C17_tmatmul_exact.

(** the heart: a block's k-range [find_kfirst, find_klast) never drops a non-zero term
    of any element of that block *)
Theorem C17_klip_sound :
  forall (S : Scalar), RingLaws S ->
  forall tl tr M K N (a b : nat -> S) i R j C r c k,
    lhs_tri tl M K a -> rhs_tri tr K N b ->
    r < M -> c < N -> k < K -> i <= r < i + R -> j <= c < j + C ->
    ~ (find_kfirst tl tr i j <= k < find_klast tl tr K R C i j) ->
    smul S (a (r * K + k)) (b (k * N + c)) = s0 S.
Proof. exact klip_sound. Qed.
Print Assumptions C17_klip_sound.

(** any admissible list of blocks (so block-size edits are harmless) *)
Theorem C17_any_blocking :
  forall (S : Scalar), RingLaws S ->
  forall W M K N tl tr tiles (a b c0 : nat -> S),
    0 < W -> 0 < N -> tiles_ok W M N tiles -> lhs_tri tl M K a -> rhs_tri tr K N b ->
    forall p,
      run_wrs c0 (flat_map (btile_wrs W K N tl tr a b) tiles) p =
      if p <? M * N then mm_spec M K N a b (p / N) (p mod N) else c0 p.
Proof. exact btiles_exact. Qed.
Print Assumptions C17_any_blocking.

(** non-vacuity: a lower x upper product on a trapezoidal 3x2 * 2x5 shape under AVX2
    (masked remainder) evaluates to the full product *)
Example C17_runs :
  map (tmatmul (S:=ZS) (mkCfg 2 true 0 0) ty_double tL tU 3 2 5
         (fun i => nth i [1;0; 2;3; 4;5]%Z 0%Z)
         (fun i => nth i [1;2;3;4;5; 0;6;7;8;9]%Z 0%Z) (fun _ => 7%Z)) (seq 0 16)
  = [1;2;3;4;5; 2;22;27;32;37; 4;38;47;56;65; 7]%Z.
Proof. vm_compute. reflexivity. Qed.

(** * Tie to the source by translation (lib/cxx2v.py, re-run on every check) *)
From FastorV Require Import Base.Tiling Gen.Generated Proofs.GenEq.

(** [find_kfirst] / [find_klast] of tmatmul.h, as translated on this run, are the model's *)
Theorem C17_source_krange :
  forall tl tr K R C i j,
    gen_find_kfirst tl tr i j = find_kfirst tl tr i j /\
    gen_find_klast tl tr K R C i j = find_klast tl tr K R C i j.
Proof. intros. exact (conj (gen_find_kfirst_eq tl tr i j) (gen_find_klast_eq tl tr K R C i j)). Qed.
Print Assumptions C17_source_krange.

(** so the clipping theorem holds of the translated functions *)
Theorem C17_klip_sound_source :
  forall (S : Scalar), RingLaws S ->
  forall tl tr M K N (a b : nat -> S) i R j C r c k,
    lhs_tri tl M K a -> rhs_tri tr K N b ->
    r < M -> c < N -> k < K -> i <= r < i + R -> j <= c < j + C ->
    ~ (gen_find_kfirst tl tr i j <= k < gen_find_klast tl tr K R C i j) ->
    smul S (a (r * K + k)) (b (k * N + c)) = s0 S.
Proof.
  intros S HS tl tr M K N a b i R j C r c k. rewrite gen_find_kfirst_eq, gen_find_klast_eq.
  exact (klip_sound S HS tl tr M K N a b i R j C r c k).
Qed.
Print Assumptions C17_klip_sound_source.

(** block constants, loops and call sites of [_tmatmul_base] / [_tmatmul_base_masked]
    (including which call sites pass the triangular tags and the extents given to the
    inline k-range computations) are those of the model's [tmatmul_tiles] *)
Theorem C17_source_blocking :
  forall c W M K N,
    gen_tmbase_consts (outer_block c) (inner_block c) W M K N = model_consts c W M N /\
    gen_tmbase_masked_consts (outer_block c) (inner_block c) W M K N = model_consts c W M N /\
    gen_tmbase_loops (outer_block c) (inner_block c) W M K N = model_loops c W M N false /\
    gen_tmbase_masked_loops (outer_block c) (inner_block c) W M K N = model_loops c W M N true /\
    gen_tmbase_calls (outer_block c) (inner_block c) W M K N = model_tm_calls c W M N false /\
    gen_tmbase_masked_calls (outer_block c) (inner_block c) W M K N = model_tm_calls c W M N true.
Proof.
  intros. exact (conj (gen_tmbase_consts_eq c W M K N) (conj (gen_tmbase_masked_consts_eq c W M K N)
    (conj (gen_tmbase_loops_eq c W M K N) (conj (gen_tmbase_masked_loops_eq c W M K N)
    (conj (gen_tmbase_calls_eq c W M K N) (gen_tmbase_masked_calls_eq c W M K N)))))).
Qed.
Print Assumptions C17_source_blocking.

(** the tmatmul micro-kernels as translated (Gen/GeneratedAccess.v): operand / result index expressions and the
    block extents from which each kernel computes its k-range at the block origin *)
From FastorV Require Import Gen.GeneratedAccess Proofs.GenAccessEq.
Theorem C17_source_kernels :
  forall W M K N Ru i j ii k n nr nc,
   (gen_tmkernel1_accesses W M K N Ru i j ii k n = model_kernel_accesses 1 W K N Ru i j ii k n /\
    gen_tmkernel2_accesses W M K N Ru i j ii k n = model_kernel_accesses 2 W K N Ru i j ii k n /\
    gen_tmkernel3_accesses W M K N Ru i j ii k n = model_kernel_accesses 3 W K N Ru i j ii k n /\
    gen_tmkernel4_accesses W M K N Ru i j ii k n = model_kernel_accesses 4 W K N Ru i j ii k n /\
    gen_tmkernel5_accesses W M K N Ru i j ii k n = model_kernel_accesses 5 W K N Ru i j ii k n /\
    gen_tmkernel_scalar_accesses W M K N Ru i j ii k n = model_kernel_accesses 1 W K N Ru i j ii k n /\
    gen_tmkernel_mask0_accesses W M K N Ru i j ii k n = model_kernel_accesses 1 W K N Ru i j ii k n /\
    gen_tmkernel_mask1_accesses W M K N Ru i j ii k n = model_kernel_accesses 1 W K N Ru i j ii k n) /\
   (gen_tmkernel1_krange W Ru nr nc = [Ru * nr; nc * W; Ru * nr; nc * W] /\ gen_tmkernel2_krange W Ru nr nc = [Ru * nr; nc * W; Ru * nr; nc * W] /\
    gen_tmkernel3_krange W Ru nr nc = [Ru * nr; nc * W; Ru * nr; nc * W] /\ gen_tmkernel4_krange W Ru nr nc = [Ru * nr; nc * W; Ru * nr; nc * W] /\
    gen_tmkernel5_krange W Ru nr nc = [Ru * nr; nc * W; Ru * nr; nc * W] /\ gen_tmkernel_scalar_krange W Ru nr nc = [Ru * nr; nc; Ru * nr; nc] /\
    gen_tmkernel_mask0_krange W Ru nr nc = [Ru * nr; nc * W; Ru * nr; nc * W] /\ gen_tmkernel_mask1_krange W Ru nr nc = [Ru * nr; nc * W; Ru * nr; nc * W]).
Proof. intros. exact (conj (gen_tmkernel_accesses_eq W M K N Ru i j ii k n) (gen_tmkernel_krange_eq W Ru nr nc)). Qed.
