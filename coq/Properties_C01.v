(** C01 - Matrix product equals the mathematical product for every shape and scalar type.
    Statements only; each is closed by [exact] of a lemma proved in Proofs/. *)
From Coq Require Import Arith List ZArith.
From FastorV Require Import Base.Scalar Base.Mem Base.BigSum Model.Cfg Model.Matmul Proofs.MatmulProofs.
Import ListNotations.

(** Law-free (holds verbatim for floating point): for every configuration, element
    type, shape (M,K,N) and operands, every element of the MxN result is a dot-product
    accumulation recurrence of row i of A and column j of B (fused from zero,
    multiply-first, or plain multiply-add), every element is written, and no position
    outside the result is written. *)
Theorem C01_matmul_elements :
  forall (S : Scalar) (c : cfg) (t : ety) (M K N : nat) (a b c0 : nat -> S),
    0 < K -> 0 < N ->
    forall p,
      (p < M * N -> is_dot K (rowf S K a (p / N)) (colf S N b (p mod N)) (matmul c t M K N a b c0 p)) /\
      (M * N <= p -> matmul c t M K N a b c0 p = c0 p).
Proof. exact matmul_elements. Qed.
Print Assumptions C01_matmul_elements.

(** Exact over any commutative ring (integers, Gaussian integers, integer-valued
    floating data): element (i,j) = sum_k A(i,k) B(k,j). *)
Theorem C01_matmul_exact :
  forall (S : Scalar), RingLaws S ->
  forall (c : cfg) (t : ety) (M K N : nat) (a b c0 : nat -> S) (i j : nat),
    0 < K -> i < M -> j < N ->
    matmul c t M K N a b c0 (i * N + j) = mm_spec M K N a b i j.
Proof. exact matmul_exact. Qed.
Print Assumptions C01_matmul_exact.

(** the same for every kernel of the ladder, whichever the dispatch picks
    (so that moving a dispatch threshold cannot invalidate the theorem) *)
Theorem C01_every_kernel :
  forall (S : Scalar) (c : cfg) (t : ety) (k : kernel) (M K N : nat) (a b c0 : nat -> S),
    0 < K -> 0 < N ->
    forall p,
      (p < M * N -> is_dot K (rowf S K a (p / N)) (colf S N b (p mod N)) (run_wrs c0 (kernel_wrs c t k M K N a b) p)) /\
      (M * N <= p -> run_wrs c0 (kernel_wrs c t k M K N a b) p = c0 p).
Proof. exact kernel_elements. Qed.
Print Assumptions C01_every_kernel.

(** non-vacuity: the law hypotheses have instances, and a concrete non-trivial
    product evaluates to the expected matrix under an AVX-512 configuration
    (masked remainder path: N = 5 with 8-lane vectors). *)
Example C01_instances : RingLaws ZS /\ RingLaws ZC.
Proof. exact (conj ZS_laws ZC_laws). Qed.

Example C01_runs :
  map (matmul (S:=ZS) (mkCfg 3 true 0 0) ty_double 2 3 5
         (fun i => nth i [1;2;3;4;5;6]%Z 0%Z)
         (fun i => nth i [1;0;0;0;2; 0;1;0;0;3; 0;0;1;0;4]%Z 0%Z) (fun _ => 7%Z)) (seq 0 11)
  = [1;2;3;0;20; 4;5;6;0;47; 7]%Z.
Proof. vm_compute. reflexivity. Qed.

(** * Tie to the source by translation (lib/cxx2v.py, re-run on every check)
    [Gen.Generated] is produced from /repo's matmul.h, matmul_kernels.h and
    simd_vector_abi.h on this run; the statements below are re-checked against it. *)
From Coq Require Import Bool.
From FastorV Require Import Base.Tiling Gen.Generated Proofs.GenEq.

(** the overload selection + if-constexpr ladder of [_matmul], as translated, is the
    model's [dispatch] for the six element types *)
Theorem C01_source_dispatch :
  forall c t M K N, wf_ety t -> gen_dispatch c t M K N = dispatch c t M K N.
Proof. exact gen_dispatch_eq. Qed.
Print Assumptions C01_source_dispatch.

(** whichever kernel the translated ladder selects, the result is the product *)
Theorem C01_matmul_exact_source_dispatch :
  forall (S : Scalar), RingLaws S ->
  forall (c : cfg) (t : ety) (M K N : nat) (a b c0 : nat -> S) (i j : nat),
    wf_ety t -> 0 < K -> i < M -> j < N ->
    run_wrs c0 (kernel_wrs c t (gen_dispatch c t M K N) M K N a b) (i * N + j) = mm_spec M K N a b i j.
Proof.
  intros S HS c t M K N a b c0 i j Ht HK Hi Hj. rewrite (gen_dispatch_eq c t M K N Ht).
  exact (matmul_exact S HS c t M K N a b c0 i j HK Hi Hj).
Qed.
Print Assumptions C01_matmul_exact_source_dispatch.

(** block constants, loops over block origins and kernel call sites of [_matmul_base]
    and [_matmul_base_masked], as translated, are those the model's tiling is made of *)
Theorem C01_source_blocking :
  forall c W M K N,
    gen_mmbase_consts (outer_block c) (inner_block c) W M K N = model_consts c W M N /\
    gen_mmbase_masked_consts (outer_block c) (inner_block c) W M K N = model_consts c W M N /\
    gen_mmbase_loops (outer_block c) (inner_block c) W M K N = model_loops c W M N false /\
    gen_mmbase_masked_loops (outer_block c) (inner_block c) W M K N = model_loops c W M N true /\
    gen_mmbase_calls (outer_block c) (inner_block c) W M K N = model_mm_calls c W M N false /\
    gen_mmbase_masked_calls (outer_block c) (inner_block c) W M K N = model_mm_calls c W M N true.
Proof.
  intros. exact (conj (gen_mmbase_consts_eq c W M K N) (conj (gen_mmbase_masked_consts_eq c W M K N)
    (conj (gen_mmbase_loops_eq c W M K N) (conj (gen_mmbase_masked_loops_eq c W M K N)
    (conj (gen_mmbase_calls_eq c W M K N) (gen_mmbase_masked_calls_eq c W M K N)))))).
Qed.
Print Assumptions C01_source_blocking.

(** vector width selection: the translated members of get_simd_vector_size and
    is_exact_multiple_of_smaller_simd are the model's, and [best_abi] is built from them *)
Theorem C01_source_vector_width :
  forall c t N a tb,
    gen_simd_vector_size a tb = simd_size a tb /\
    best_abi c t N =
    (let a := abi c in
     if negb (simd_ty t) then 0 else
     let '(w, is_exact, h512, h256, q512) := gen_exact_multiple a (tbytes t) N in
     let exact_abi := if h512 || h256 then half_abi a else if q512 then 1 else a in
     if is_exact then exact_abi else if masks c then a
     else if N <? gen_simd_vector_size a (tbytes t) then half_abi a else a).
Proof. intros. exact (conj (gen_simd_vector_size_eq a tb) (best_abi_via_gen c t N)). Qed.
Print Assumptions C01_source_vector_width.

(** * Floating point: the forward rounding bound of the property statement
    Over reals with a rounding after every operation that satisfies the standard model
    (relative error u, idempotent; FLX binary32/binary64 are instances below, i.e. IEEE
    arithmetic without underflow/overflow), fused or unfused multiply-add: every element
    of the product, for every configuration, kernel and shape, is within
    ((1+u)^K - 1) * sum_k |A(i,k) B(k,j)| of the exact sum, and (1+u)^K - 1 <= K u / (1 - K u). *)
From Coq Require Import Reals.
From FastorV Require Import Base.Rounding Proofs.RoundingProofs.
Theorem C01_matmul_rounding :
  forall (rnd : R -> R) (u : R),
    (0 <= u)%R -> (forall x, (Rabs (rnd x - x) <= u * Rabs x)%R) -> (forall x, rnd (rnd x) = rnd x) ->
  forall (fused : bool) (c : cfg) (t : ety) (M K N : nat) (a b c0 : nat -> R) (i j : nat),
    0 < K -> i < M -> j < N ->
    (Rabs (matmul (S:=FS rnd fused) c t M K N a b c0 (i * N + j)%nat
           - Rsum (fun k => a (i * K + k)%nat * b (k * N + j)%nat) K)
     <= E u K * Rsum (fun k => Rabs (a (i * K + k)%nat * b (k * N + j)%nat)) K)%R.
Proof. exact matmul_float_bound. Qed.
Print Assumptions C01_matmul_rounding.

Theorem C01_rounding_is_linear :
  forall u K, (0 <= u)%R -> (INR K * u < 1)%R -> (E u K <= INR K * u / (1 - INR K * u))%R.
Proof. exact E_linear. Qed.

(** non-vacuity: round-to-nearest-even in the radix-2 formats of precision 24 and 53 *)
Example C01_rounding_instances :
  ((0 <= flx_u 24)%R /\ (forall x, (Rabs (flx_rnd 24 x - x) <= flx_u 24 * Rabs x)%R) /\ (forall x, flx_rnd 24 (flx_rnd 24 x) = flx_rnd 24 x)) /\
  ((0 <= flx_u 53)%R /\ (forall x, (Rabs (flx_rnd 53 x - x) <= flx_u 53 * Rabs x)%R) /\ (forall x, flx_rnd 53 (flx_rnd 53 x) = flx_rnd 53 x)).
Proof. exact flx_instances. Qed.
Print Assumptions C01_rounding_instances.

(** * Operand / result index expressions of the kernels and of the inline driver code, as translated
    from matmul_kernels.h on this run (Gen/GeneratedAccess.v), are the ones [tile_wr] is written with *)
From FastorV Require Import Gen.GeneratedAccess Proofs.GenAccessEq.
Theorem C01_source_access_indices :
  forall W M K N Ru i j ii k n,
    (gen_mmkernel1_accesses W M K N Ru i j ii k n = model_kernel_accesses 1 W K N Ru i j ii k n /\
     gen_mmkernel2_accesses W M K N Ru i j ii k n = model_kernel_accesses 2 W K N Ru i j ii k n /\
     gen_mmkernel3_accesses W M K N Ru i j ii k n = model_kernel_accesses 3 W K N Ru i j ii k n /\
     gen_mmkernel4_accesses W M K N Ru i j ii k n = model_kernel_accesses 4 W K N Ru i j ii k n /\
     gen_mmkernel5_accesses W M K N Ru i j ii k n = model_kernel_accesses 5 W K N Ru i j ii k n /\
     gen_mmkernel_scalar_accesses W M K N Ru i j ii k n = model_kernel_accesses 1 W K N Ru i j ii k n /\
     gen_mmkernel_mask0_accesses W M K N Ru i j ii k n = model_kernel_accesses 1 W K N Ru i j ii k n /\
     gen_mmkernel_mask1_accesses W M K N Ru i j ii k n = model_kernel_accesses 1 W K N Ru i j ii k n) /\
    (gen_mmbase_inline_accesses W M K N i j k n = model_mmbase_inline K N i j k n /\
     gen_mmbase_masked_inline_accesses W M K N i j k n = model_mmbase_masked_inline K N i j k n).
Proof. intros. exact (conj (gen_mmkernel_accesses_eq W M K N Ru i j ii k n) (gen_mmbase_inline_accesses_eq W M K N i j k n)). Qed.
Print Assumptions C01_source_access_indices.

(** the eleven overloads of _matmul_mk_smalln (matmul_mk_smalln.h), as translated: exactly one is enabled for every N,
    and (for N <= 5W) it unrolls [smalln_unroll (ceil (N/W))] rows with M0 = M/u*u - the row tiling of the model *)
Theorem C01_source_smalln_overloads :
  forall W M N, 0 < W -> 0 < N ->
    length (filter fst (gen_smalln_overloads W M N)) = 1 /\
    Forall (fun e => fst e = true -> N <= 5 * W -> snd e = (let u := smalln_unroll ((N + W - 1) / W) in (u, M / u * u)))
           (gen_smalln_overloads W M N).
Proof. exact gen_smalln_overloads_eq. Qed.
