(** C01 - Matrix product equals the mathematical product for every shape and scalar type.
    Statements only; each is closed by [exact] of a lemma proved in Proofs/. *)
From Coq Require Import Arith List ZArith.
From FastorV Require Import Base.Scalar Base.Mem Base.BigSum Model.Cfg Model.Matmul Proofs.MatmulProofs.
Import ListNotations.

(** Law-free (holds verbatim for floating point): for every configuration, element
    type, shape (M,K,N) and operands, every element of the MxN result is a dot-product
    accumulation recurrence of row i of A and column j of B (fused from zero,
    multiply-first, or plain multiply-add), every element is written, and no position
    outside the result is written. *)
Theorem C01_matmul_elements :
  forall (S : Scalar) (c : cfg) (t : ety) (M K N : nat) (a b c0 : nat -> S),
    0 < K -> 0 < N ->
    forall p,
      (p < M * N -> is_dot K (rowf S K a (p / N)) (colf S N b (p mod N)) (matmul c t M K N a b c0 p)) /\
      (M * N <= p -> matmul c t M K N a b c0 p = c0 p).
Proof. exact matmul_elements. Qed.
Print Assumptions C01_matmul_elements.

(** Exact over any commutative ring (integers, Gaussian integers, integer-valued
    floating data): element (i,j) = sum_k A(i,k) B(k,j). *)
Theorem C01_matmul_exact :
  forall (S : Scalar), RingLaws S ->
  forall (c : cfg) (t : ety) (M K N : nat) (a b c0 : nat -> S) (i j : nat),
    0 < K -> i < M -> j < N ->
    matmul c t M K N a b c0 (i * N + j) = mm_spec M K N a b i j.
Proof. exact matmul_exact. Qed.
Print Assumptions C01_matmul_exact.

(** the same for every kernel of the ladder, whichever the dispatch picks
    (so that moving a dispatch threshold cannot invalidate the theorem) *)
Theorem C01_every_kernel :
  forall (S : Scalar) (c : cfg) (t : ety) (k : kernel) (M K N : nat) (a b c0 : nat -> S),
    0 < K -> 0 < N ->
    forall p,
      (p < M * N -> is_dot K (rowf S K a (p / N)) (colf S N b (p mod N)) (run_wrs c0 (kernel_wrs c t k M K N a b) p)) /\
      (M * N <= p -> run_wrs c0 (kernel_wrs c t k M K N a b) p = c0 p).
Proof. exact kernel_elements. Qed.
Print Assumptions C01_every_kernel.

(** non-vacuity: the law hypotheses have instances, and a concrete non-trivial
    product evaluates to the expected matrix under an AVX-512 configuration
    (masked remainder path: N = 5 with 8-lane vectors). *)
Example C01_instances : RingLaws ZS /\ RingLaws ZC.
Proof. exact (conj ZS_laws ZC_laws). Qed.

Example C01_runs :
  map (matmul (S:=ZS) (mkCfg 3 true 0 0) ty_double 2 3 5
         (fun i => nth i [1;2;3;4;5;6]%Z 0%Z)
         (fun i => nth i [1;0;0;0;2; 0;1;0;0;3; 0;0;1;0;4]%Z 0%Z) (fun _ => 7%Z)) (seq 0 11)
  = [1;2;3;0;20; 4;5;6;0;47; 7]%Z.
Proof. vm_compute. reflexivity. Qed.
