(** C13 - QR factors reproduce the matrix and R is upper triangular.  Row-wise modified Gram-Schmidt as written,
    over any field, any size, ANY non-zero normalisation value: Q*R = A exactly and R has exact zeros below the
    diagonal; the diagonal of R holds the normalisation values (so determinant<QR> is their product).
    Orthonormality of Q (which needs sqrt over the reals and is only approximate in floating point) and the
    rounding bounds are measured by the correspondence (PARTIAL). *)
From Coq Require Import Arith ZArith List Lia.
Import ListNotations.
From FastorV Require Import Base.Scalar Base.BigSum Base.Field Proofs.QRProofs.

Theorem C13_factors_reproduce_the_matrix_and_R_is_upper_triangular :
  forall (S : Scalar), FieldLaws S -> forall (M : nat) (nrm : (nat -> S) -> S) (A0 : mat S) (n : nat),
    pivots_ok S M nrm A0 n ->
    (forall k j, j < n -> sum_n (fun p => smul S (Qm S (run S M nrm A0 n) k p) (Rm S (run S M nrm A0 n) p j)) n = A0 k j) /\
    (forall p j, j < p -> Rm S (run S M nrm A0 n) p j = s0 S).
Proof. exact mgs_reconstructs. Qed.
Print Assumptions C13_factors_reproduce_the_matrix_and_R_is_upper_triangular.

Theorem C13_diagonal_of_R :
  forall (S : Scalar) (M : nat) (nrm : (nat -> S) -> S) (A0 : mat S) (n i : nat), i < n ->
    Rm S (run S M nrm A0 n) i i = nrm (fun k => Aw S (run S M nrm A0 i) k i).
Proof. exact mgs_diag. Qed.
Print Assumptions C13_diagonal_of_R.

(** non-vacuity: run over Z with the "normalisation" 1 (Q = working columns, R unit upper triangular) *)
Example C13_runs :
  let A : mat ZS := fun i j => nth j (nth i [[2; 1; 0]; [1; 3; 1]; [0; 1; 4]]%Z nil) 0%Z in
  let s := run ZS 3 (fun _ => 1%Z) A 3 in
  map (fun k => map (fun j => sum_n (S:=ZS) (fun p => smul ZS (Qm ZS s k p) (Rm ZS s p j)) 3) [0; 1; 2]) [0; 1; 2] = [[2; 1; 0]; [1; 3; 1]; [0; 1; 4]]%Z.
Proof. vm_compute. reflexivity. Qed.

(** * Orthonormality of Q in exact arithmetic (Proofs/QROrtho.v): if the normalisation value is a square
    root of the squared norm of the working column and never vanishes, the first n columns of Q satisfy
    Q^T Q = I - every number of rows M and columns n, any field.  (Over floating point the deviation
    grows with cond(A), inherent to Gram-Schmidt: that bound is measured by the correspondence.) *)
From Coq Require Import Reals.
From FastorV Require Import Proofs.QROrtho.
Theorem C13_Q_is_orthonormal :
  forall (S : Scalar), FieldLaws S ->
  forall (M : nat) (nrm : (nat -> S) -> S),
    (forall v, smul S (nrm v) (nrm v) = dotc S M v v) ->
  forall (A0 : mat S) (n : nat), pivots_ok S M nrm A0 n ->
  forall p q, p < n -> q < n ->
    sum_n (fun k => smul S (Qm S (run S M nrm A0 n) k p) (Qm S (run S M nrm A0 n) k q)) M = if p =? q then s1 S else s0 S.
Proof. exact mgs_orthonormal. Qed.
Print Assumptions C13_Q_is_orthonormal.

(** the hypotheses are satisfiable: exact reals with the Euclidean norm *)
Example C13_orthonormal_instance :
  FieldLaws SumRounding.RS /\ forall M v, smul SumRounding.RS (sqrt (dotc SumRounding.RS M v v)) (sqrt (dotc SumRounding.RS M v v)) = dotc SumRounding.RS M v v.
Proof. exact (conj RS_field sqrt_norm_sq). Qed.

(** * Tie to the source (translator).  qr_mgsr_dispatcher of unary_qr_op.h is translated on every run (statement
    structure: A = copy of A0; R.fill(0); for i < N { steps 1-4 with loops k < M, j0 <= j < N } - nothing else is
    accepted; every matrix access as a (row, column) pair; the first column j0 of the inner loops).  One iteration
    [step] of the model satisfies the four statements of the source read with the source's own index expressions,
    and changes nothing else. *)
From FastorV Require Import Gen.GeneratedAccess Proofs.GenQREq.
Theorem C13_source_statements :
  forall (S : Scalar) (M : nat) (nrm : (nat -> S) -> S) (s : st S) (i j k : nat),
    let s' := step S M nrm s i in
    let rii := nrm (fun k => at_ (Aw S s) (qix i 0 k 0)) in
    (qix i j k 0 = qix i j k 1 /\ at_ (Rm S s') (qix i j k 2) = rii) /\
    at_ (Qm S s') (qix i j k 3) = sdiv S (at_ (Aw S s) (qix i j k 4)) rii /\
    (nth 0 (gen_qr_mgs_inner_start i) 0 <= j ->
       at_ (Rm S s') (qix i j k 5) = sum_n (fun k' => smul S (at_ (Qm S s') (qix i j k' 6)) (at_ (Aw S s) (qix i j k' 7))) M) /\
    (nth 1 (gen_qr_mgs_inner_start i) 0 <= j ->
       at_ (Aw S s') (qix i j k 8) = ssub S (at_ (Aw S s) (qix i j k 8)) (smul S (at_ (Qm S s') (qix i j k 9)) (at_ (Rm S s') (qix i j k 10)))).
Proof. intros. exact (conj (qr_step1 S M nrm s i j k) (conj (qr_step2 S M nrm s i j k) (conj (qr_step3 S M nrm s i j k) (qr_step4 S M nrm s i j k)))). Qed.
Print Assumptions C13_source_statements.

Theorem C13_source_frame :
  forall (S : Scalar) (M : nat) (nrm : (nat -> S) -> S) (s : st S) (i k p j : nat),
    let s' := step S M nrm s i in
    (p <> i -> Qm S s' k p = Qm S s k p) /\ (p <> i -> Rm S s' p j = Rm S s p j) /\
    (j < nth 1 (gen_qr_mgs_inner_start i) 0 -> Aw S s' k j = Aw S s k j).
Proof. intros. exact (qr_frame S M nrm s i k p j). Qed.
Print Assumptions C13_source_frame.

Theorem C13_source_indices :
  forall i j k,
    gen_qr_mgs_indices i j k = [(k, i); (k, i); (i, i); (k, i); (k, i); (i, j); (k, i); (k, j); (k, j); (k, i); (i, j)] /\
    gen_qr_mgs_inner_start i = [i + 1; i + 1].
Proof. exact gen_qr_mgs_indices_eq. Qed.
Print Assumptions C13_source_indices.
