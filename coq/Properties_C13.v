(** C13 - QR factors reproduce the matrix and R is upper triangular.  Row-wise modified Gram-Schmidt as written,
    over any field, any size, ANY non-zero normalisation value: Q*R = A exactly and R has exact zeros below the
    diagonal; the diagonal of R holds the normalisation values (so determinant<QR> is their product).
    Orthonormality of Q (which needs sqrt over the reals and is only approximate in floating point) and the
    rounding bounds are measured by the correspondence (PARTIAL). *)
From Coq Require Import Arith ZArith List Lia.
Import ListNotations.
From FastorV Require Import Base.Scalar Base.BigSum Base.Field Proofs.QRProofs.

Theorem C13_factors_reproduce_the_matrix_and_R_is_upper_triangular :
  forall (S : Scalar), FieldLaws S -> forall (M : nat) (nrm : (nat -> S) -> S) (A0 : mat S) (n : nat),
    pivots_ok S M nrm A0 n ->
    (forall k j, j < n -> sum_n (fun p => smul S (Qm S (run S M nrm A0 n) k p) (Rm S (run S M nrm A0 n) p j)) n = A0 k j) /\
    (forall p j, j < p -> Rm S (run S M nrm A0 n) p j = s0 S).
Proof. exact mgs_reconstructs. Qed.
Print Assumptions C13_factors_reproduce_the_matrix_and_R_is_upper_triangular.

Theorem C13_diagonal_of_R :
  forall (S : Scalar) (M : nat) (nrm : (nat -> S) -> S) (A0 : mat S) (n i : nat), i < n ->
    Rm S (run S M nrm A0 n) i i = nrm (fun k => Aw S (run S M nrm A0 i) k i).
Proof. exact mgs_diag. Qed.
Print Assumptions C13_diagonal_of_R.

(** non-vacuity: run over Z with the "normalisation" 1 (Q = working columns, R unit upper triangular) *)
Example C13_runs :
  let A : mat ZS := fun i j => nth j (nth i [[2; 1; 0]; [1; 3; 1]; [0; 1; 4]]%Z nil) 0%Z in
  let s := run ZS 3 (fun _ => 1%Z) A 3 in
  map (fun k => map (fun j => sum_n (S:=ZS) (fun p => smul ZS (Qm ZS s k p) (Rm ZS s p j)) 3) [0; 1; 2]) [0; 1; 2] = [[2; 1; 0]; [1; 3; 1]; [0; 1; 4]]%Z.
Proof. vm_compute. reflexivity. Qed.

(** * Orthonormality of Q in exact arithmetic (Proofs/QROrtho.v): if the normalisation value is a square
    root of the squared norm of the working column and never vanishes, the first n columns of Q satisfy
    Q^T Q = I - every number of rows M and columns n, any field.  (Over floating point the deviation
    grows with cond(A), inherent to Gram-Schmidt: that bound is measured by the correspondence.) *)
From Coq Require Import Reals.
From FastorV Require Import Proofs.QROrtho.
Theorem C13_Q_is_orthonormal :
  forall (S : Scalar), FieldLaws S ->
  forall (M : nat) (nrm : (nat -> S) -> S),
    (forall v, smul S (nrm v) (nrm v) = dotc S M v v) ->
  forall (A0 : mat S) (n : nat), pivots_ok S M nrm A0 n ->
  forall p q, p < n -> q < n ->
    sum_n (fun k => smul S (Qm S (run S M nrm A0 n) k p) (Qm S (run S M nrm A0 n) k q)) M = if p =? q then s1 S else s0 S.
Proof. exact mgs_orthonormal. Qed.
Print Assumptions C13_Q_is_orthonormal.

(** the hypotheses are satisfiable: exact reals with the Euclidean norm *)
Example C13_orthonormal_instance :
  FieldLaws SumRounding.RS /\ forall M v, smul SumRounding.RS (sqrt (dotc SumRounding.RS M v v)) (sqrt (dotc SumRounding.RS M v v)) = dotc SumRounding.RS M v v.
Proof. exact (conj RS_field sqrt_norm_sq). Qed.
