(** C03 - Pairwise einsum equals the Einstein summation it denotes. *)
From Coq Require Import Arith List ZArith.
From FastorV Require Import Base.Scalar Base.BigSum Base.Shape Model.Einsum Proofs.EinsumProofs.
Import ListNotations.

(** For every pair of index lists (any identification of indices between and within the
    lists), every operand shape, every commutative ring and every free multi-index o inside
    the result extents: the general loop nest (unique labels in order of first appearance,
    out[index_out] += a[index_a]*b[index_b]) leaves at row-major position flat(extents,o) the
    sum, over all assignments of all labels that agree with o on the free labels, of the
    product of the operand elements - i.e. the Einstein sum over the repeated indices.
    The free labels are those occurring once, in order of first appearance, with the
    extents of the operands ([out_labels], [out_dims]). *)
Theorem C03_einsum_general_exact :
  forall (S : Scalar), RingLaws S ->
  forall I J dimsA dimsB (A B : nat -> S) o,
    in_range (out_dims I J dimsA dimsB) o ->
    einsum_general I J dimsA dimsB A B (flat (out_dims I J dimsA dimsB) o) = einsum_spec I J dimsA dimsB A B o.
Proof. exact einsum_general_exact. Qed.
Print Assumptions C03_einsum_general_exact.

(** scatter-add form (law-free up to reassociation): what any position holds after the nest *)
Theorem C03_loop_nest_scatter :
  forall (S : Scalar), RingLaws S ->
  forall (idx : env -> nat) (tm : env -> S) ls e (out : nat -> S) q,
    nloop ls (fun e (o : nat -> S) => fun q => if q =? idx e then sadd S (o q) (tm e) else o q) e out q
    = sadd S (out q) (nsum ls (fun e' => if q =? idx e' then tm e' else s0 S) e).
Proof. exact nloop_scatter. Qed.

(** the matmul re-routings rest on flattening several contracted labels into one *)
Theorem C03_flatten_contracted :
  forall (S : Scalar), RingLaws S -> forall (f : nat -> S) d m,
    sum_n (fun x => sum_n (fun y => f (x * m + y)) m) d = sum_n f (d * m).
Proof. exact sum_n_prod. Qed.
Theorem C03_gemm_route :
  forall (S : Scalar) M K N (A B : nat -> S) i j, i < M -> j < N -> 0 < N ->
    einsum_gemm M K N A B (i * N + j) = sum_n (fun k => smul S (A (flat [M; K] [i; k])) (B (flat [K; N] [k; j]))) K.
Proof. exact einsum_gemm_rank2. Qed.

(** non-vacuity: <i,j,j> x <j... trace-like and a contraction with a free index, over Z *)
Example C03_runs :
  let A := fun p => nth p [1;2;3;4;5;6]%Z 0%Z in let B := fun p => nth p [1;0;2;1;3;1]%Z 0%Z in
  (out_labels [0;1] [1;2], out_dims [0;1] [1;2] [2;3] [3;2],
   map (einsum_general (S:=ZS) [0;1] [1;2] [2;3] [3;2] A B) (seq 0 4))
  = ([0;2], [2;2], [14;5;32;11]%Z).
Proof. vm_compute. reflexivity. Qed.

(** * Floating point: the rounding bound of the property statement, for the general route.
    Over reals with a rounding after every operation that satisfies the standard model (FLX
    binary32 / binary64 are instances, Properties_C01.C01_rounding_instances), for every pair of
    index lists and every shape, every result position q of the loop nest is within
    ((1+u)^c - 1) * (Einstein sum of |A||B| at q) of the exact Einstein sum at q, where
    c = [einsum_count .. q] is the number of products accumulated into q. *)
From Coq Require Import Reals.
From FastorV Require Import Base.Rounding Proofs.SumRounding Proofs.EinsumRounding.
Theorem C03_einsum_rounding :
  forall (rnd : R -> R) (u : R),
    (0 <= u)%R -> (forall x, (Rabs (rnd x - x) <= u * Rabs x)%R) -> (forall x, rnd (rnd x) = rnd x) ->
  forall (fused : bool) (I J dimsA dimsB : list nat) (A B : nat -> R) (q : nat),
    (Rabs (einsum_general (S:=FS rnd fused) I J dimsA dimsB A B q - einsum_general (S:=RS) I J dimsA dimsB A B q)
     <= E u (einsum_count I J dimsA dimsB q) * einsum_abs I J dimsA dimsB A B q)%R.
Proof. exact einsum_float_bound. Qed.
Print Assumptions C03_einsum_rounding.

(** and the exact reference is the Einstein sum (C03_einsum_general instantiated at exact real arithmetic) *)
Theorem C03_einsum_exact_reals :
  forall (I J dimsA dimsB : list nat) (A B : nat -> R) (o : list nat),
    in_range (out_dims I J dimsA dimsB) o ->
    einsum_general (S:=RS) I J dimsA dimsB A B (flat (out_dims I J dimsA dimsB) o) = einsum_spec (S:=RS) I J dimsA dimsB A B o.
Proof. intros. apply (einsum_general_exact RS RS_laws); assumption. Qed.

(** * Tie to the source (translator): is_vectorisable / is_reducibly_vectorisable of meta/einsum_meta.h, which choose
    the vector type and the stride of the contraction loop nest on its fastest-changing index, as translated on
    every run.  For all extents and index lists: the stride equals the lane count of the chosen vector type, is 1 or
    the sse or the avx lane count, divides the last extent F of the second tensor (the strided loop stays on that
    axis), and the scalar route is taken when the last index of the second tensor is contracted; the float and
    double specialisations agree with the generic definition at their lane counts. *)
From FastorV Require Import Gen.Generated Proofs.GenEinsumEq.
Theorem C03_source_vectorisation_choice :
  forall (F nu n0 n1 : Z) (lc : bool) (ws wa : Z),
    (stride_ok F ws wa (gen_is_vectorisable F nu n0 n1 lc ws wa) /\
     (lc = true -> gen_is_vectorisable F nu n0 n1 lc ws wa = (false, 1, 1)%Z)) /\
    stride_ok F ws wa (gen_is_reducibly_vectorisable F nu n0 n1 lc ws wa) /\
    gen_is_vectorisable_float F nu n0 n1 lc 4 8 = gen_is_vectorisable F nu n0 n1 lc 4 8 /\
    gen_is_vectorisable_double F nu n0 n1 lc 2 4 = gen_is_vectorisable F nu n0 n1 lc 2 4.
Proof.
  intros. exact (conj (gen_is_vectorisable_ok F nu n0 n1 lc ws wa) (conj (gen_is_reducibly_vectorisable_ok F nu n0 n1 lc ws wa)
                (conj (gen_is_vectorisable_float_eq F nu n0 n1 lc) (gen_is_vectorisable_double_eq F nu n0 n1 lc)))).
Qed.
Print Assumptions C03_source_vectorisation_choice.
