(** C16 - Reductions, predicates and scalar-valued functions agree with their definitions. *)
From Coq Require Import Arith List ZArith Bool.
From FastorV Require Import Base.Scalar Base.BigSum Model.Reduce Proofs.ReduceProofs.
Import ListNotations.

(** For every associative-commutative operation, seed, lane count W > 0, size n and
    element function f: the vectorised reduction (W lane accumulators, scalar tail,
    horizontal fold, final combination) equals the in-order fold of all n elements
    together with the W+1 seeds. *)
Theorem C16_reduce_correct :
  forall (A : Type) (op : A -> A -> A),
    (forall a b c, op a (op b c) = op (op a b) c) -> (forall a b, op a b = op b a) ->
    forall seed W n (f : nat -> A), 0 < W -> reduce op seed W n f = reduce_spec op seed W n f.
Proof. exact reduce_correct. Qed.
Print Assumptions C16_reduce_correct.

(** sum and product over any commutative ring, all sizes and lane counts *)
Theorem C16_sum_exact :
  forall (S : Scalar), RingLaws S -> forall W n (f : nat -> S), 0 < W ->
    reduce (sadd S) (s0 S) W n f = sum_n f n.
Proof. exact sum_exact. Qed.
Print Assumptions C16_sum_exact.

Theorem C16_product_exact :
  forall (S : Scalar), RingLaws S -> forall W n (f : nat -> S), 0 < W ->
    reduce (smul S) (s1 S) W n f = fold_left (smul S) (map f (seq 0 n)) (s1 S).
Proof. exact product_exact. Qed.

(** max / min: for a seed that does not exceed (resp. is not below) any element - the
    lowest / largest value of the type - and a non-empty input of any sign pattern,
    the result bounds every element and IS an element of the input *)
Theorem C16_max_correct :
  forall seed W n (f : nat -> Z), 0 < W -> 0 < n -> (forall i, i < n -> (seed <= f i)%Z) ->
    let r := reduce Z.max seed W n f in
    (forall i, i < n -> (f i <= r)%Z) /\ (exists i, i < n /\ r = f i).
Proof. exact max_correct. Qed.
Print Assumptions C16_max_correct.

Theorem C16_min_correct :
  forall seed W n (f : nat -> Z), 0 < W -> 0 < n -> (forall i, i < n -> (f i <= seed)%Z) ->
    let r := reduce Z.min seed W n f in
    (forall i, i < n -> (r <= f i)%Z) /\ (exists i, i < n /\ r = f i).
Proof. exact min_correct. Qed.

(** predicates: early-exit loops are the folds of && / || *)
Theorem C16_all_of : forall f n, all_of f n = forallb f (seq 0 n).
Proof. exact all_of_spec. Qed.
Theorem C16_any_of : forall f n, any_of f n = existsb f (seq 0 n).
Proof. exact any_of_spec. Qed.

(** KNOWN FINDING: the property asks that none_of be the negation of any_of.  The
    code gives none_of the body of any_of, and the unedited upstream test suite
    asserts exactly that behaviour, so the faithful model refutes the full statement. *)
Theorem C16_none_of_refuted : exists f n, none_of f n <> negb (any_of f n).
Proof. exact none_of_refuted. Qed.
Theorem C16_none_of_partial : forall f n, none_of f n = any_of f n.
Proof. exact none_of_is_any_of. Qed.

(** determinant closed forms (n <= 4, scalar and AVX arrangements) = Laplace expansion, over Z *)
Theorem C16_det2 : forall a, det2 a = det_spec 2 a.  Proof. exact det2_ok. Qed.
Theorem C16_det3 : forall a, det3 a = det_spec 3 a.  Proof. exact det3_ok. Qed.
Theorem C16_det3_avx : forall a, det3_avx a = det_spec 3 a.  Proof. exact det3_avx_ok. Qed.
Theorem C16_det4 : forall a, det4 a = det_spec 4 a.  Proof. exact det4_ok. Qed.
Print Assumptions C16_det4.

(** non-vacuity *)
Example C16_runs :
  reduce Z.max (-100)%Z 4 7 (fun i => nth i [-5;-9;-3;-7;-8;-4;-6]%Z 0%Z) = (-3)%Z /\
  reduce Z.add 0%Z 4 7 (fun i => nth i [-5;-9;-3;-7;-8;-4;-6]%Z 0%Z) = (-42)%Z.
Proof. vm_compute. split; reflexivity. Qed.

(** * Floating sums: the n*eps*sum|x_i| bound of the property statement
    Over reals with a rounding after every addition that satisfies the standard model
    (FLX binary32/binary64 are instances, Properties_C01.C01_rounding_instances), for inputs
    that are floating-point numbers, every lane count W and every size n: the sum computed
    as the library computes it (W lane accumulators, horizontal fold, scalar tail) is within
    ((1+u)^n - 1) * sum|x_i| of the exact sum; the number of roundings any element goes
    through is in fact at most min(n/W + W - 1, n). *)
From Coq Require Import Reals.
From FastorV Require Import Base.Rounding Proofs.SumRounding.
Theorem C16_sum_rounding :
  forall (rnd : R -> R) (u : R),
    (0 <= u)%R -> (forall x, (Rabs (rnd x - x) <= u * Rabs x)%R) -> (forall x, rnd (rnd x) = rnd x) ->
  forall (f : nat -> R), (forall i, rnd (f i) = f i) ->
  forall W n, 0 < W ->
    (Rabs (reduce (fun a b => rnd (a + b)) 0 W n f - Rsum f n) <= E u n * Rsum (fun i => Rabs (f i)) n)%R.
Proof. exact sum_float_bound. Qed.
Print Assumptions C16_sum_rounding.

Theorem C16_sum_rounding_depth :
  forall (rnd : R -> R) (u : R),
    (0 <= u)%R -> (forall x, (Rabs (rnd x - x) <= u * Rabs x)%R) -> (forall x, rnd (rnd x) = rnd x) ->
  forall (f : nat -> R), (forall i, rnd (f i) = f i) ->
  forall W n, 0 < W -> 0 < n ->
    (Rabs (reduce (fun a b => rnd (a + b)) 0 W n f - reduce Rplus 0 W n f)
     <= E u (Nat.min (n / W + W - 1)%nat n) * reduce Rplus 0 W n (fun i => Rabs (f i)))%R.
Proof.
  intros rnd u Hu He Hi f Hf W n HW Hn.
  exact (proj1 (proj2 (reduce_float_depth rnd u Hu He Hi f Hf W n HW Hn))).
Qed.

(** * determinants n <= 4 as TRANSLATED FROM backend/determinant.h on this run (lib/cxx2v.py):
    over the integers they are the Laplace expansion *)
From FastorV Require Import Gen.GeneratedLinalg Proofs.ClosedForms.
Theorem C16_source_determinants :
  forall a, gen_det2 ZS a = det_spec 2 a /\ gen_det3 ZS a = det_spec 3 a /\ gen_det4 ZS a = det_spec 4 a.
Proof. intros a. exact (conj (gen_det2_spec a) (conj (gen_det3_spec a) (gen_det4_spec a))). Qed.
Print Assumptions C16_source_determinants.

(** * Structure of the reductions and predicates as TRANSLATED from tensor/AbstractTensorFunctions.h on this run:
    sum / product / min / max have the shape of [reduce] (one operation for vector update, scalar tail, horizontal
    fold and final combination; seeds 0, 1, numeric max, numeric lowest); all_of / any_of / none_of are the model's
    early-exit loops.  The known finding is visible in the source itself: the translated body of none_of equals the
    translated body of any_of. *)
From FastorV Require Import Gen.GeneratedAccess Proofs.GenAccessEq.
Theorem C16_source_reductions :
  gen_reduce_sum = [0; 0; 0; 0] /\ gen_reduce_product = [1; 1; 1; 1] /\ gen_reduce_min = [2; 2; 2; 2] /\ gen_reduce_max = [3; 3; 3; 3].
Proof. exact gen_reduce_structure. Qed.
Theorem C16_source_predicates :
  forall f n, pred_of gen_pred_all_of f n = all_of f n /\ pred_of gen_pred_any_of f n = any_of f n /\ pred_of gen_pred_none_of f n = none_of f n.
Proof. exact gen_predicates. Qed.
Theorem C16_source_none_of_is_any_of : gen_pred_none_of = gen_pred_any_of.
Proof. exact gen_none_of_is_any_of_in_the_source. Qed.
Print Assumptions C16_source_predicates.

(** * Floating products: with a rounding after every multiplication that satisfies the standard model, for every lane
    count W and size n the product computed as the library computes it is within ((1+u)^(n+W) - 1) * |prod x_i| of the
    exact product (relative errors of the n + W multiplications add) *)
From FastorV Require Import Proofs.ProdRounding.
Theorem C16_product_rounding :
  forall (rnd : R -> R) (u : R),
    (0 <= u)%R -> (forall x, (Rabs (rnd x - x) <= u * Rabs x)%R) ->
  forall (f : nat -> R) W n, 0 < W ->
    (Rabs (reduce (fun a b => rnd (a * b)) 1 W n f - fold_left Rmult (map f (seq 0 n)) 1)
     <= E u (n + W) * Rabs (fold_left Rmult (map f (seq 0 n)) 1))%R.
Proof. exact product_float_bound. Qed.
Print Assumptions C16_product_rounding.
