(** C20 - Wrapped/reshaped tensors are true aliases; layout conversions are exact inverses. *)
From Coq Require Import Arith List.
From FastorV Require Import Base.Shape Model.Views Model.Layout Proofs.LayoutProofs.
Import ListNotations.

(** any history of operations applied alternately through the source tensor and through
    maps of any same-size shape has the effect of the abstract operations on one array *)
Theorem C20_map_refines_tensor :
  forall (T : Type) n (h : list (bool * list nat * mop T)) (b : nat -> T),
    run_history n h b = fold_left (fun b x => apply_mop n (snd x) b) h b.
Proof. exact map_refines_tensor. Qed.
Print Assumptions C20_map_refines_tensor.

(** layout conversions, every rank and shape with positive extents *)
Theorem C20_torowmajor_places_colmajor :
  forall (T : Type) dims (a : nat -> T) idx, in_range dims idx -> torowmajor dims a (cflat dims idx) = a (flat dims idx).
Proof. exact torowmajor_spec. Qed.
Theorem C20_tocolumnmajor_reads_colmajor :
  forall (T : Type) dims, (forall d, In d dims -> 0 < d) ->
  forall (b : nat -> T) idx, in_range dims idx -> tocolumnmajor dims b (flat dims idx) = b (cflat dims idx).
Proof. exact tocolumnmajor_spec. Qed.
Theorem C20_roundtrip_1 :
  forall (T : Type) dims, (forall d, In d dims -> 0 < d) ->
  forall (b : nat -> T) c, c < prod dims -> torowmajor dims (tocolumnmajor dims b) c = b c.
Proof. exact torowmajor_tocolumnmajor. Qed.
Theorem C20_roundtrip_2 :
  forall (T : Type) dims, (forall d, In d dims -> 0 < d) ->
  forall (a : nat -> T) p, p < prod dims -> tocolumnmajor dims (torowmajor dims a) p = a p.
Proof. exact tocolumnmajor_torowmajor. Qed.
Print Assumptions C20_roundtrip_2.

(** nested initializer lists (rows of equal length) are stored row-major *)
Theorem C20_rows_rowmajor :
  forall (A : Type) (rows : list (list A)) N i j d,
    (forall r, In r rows -> length r = N) -> i < length rows -> j < N ->
    nth (i * N + j) (concat rows) d = nth j (nth i rows []) d.
Proof. exact @concat_rows_rowmajor. Qed.

Example C20_runs :
  (map (torowmajor [2;3;4] (fun p => p)) (seq 0 24), map (tocolumnmajor [2;3] (fun p => p)) (seq 0 7))
  = ([0;12;4;16;8;20;1;13;5;17;9;21;2;14;6;18;10;22;3;15;7;19;11;23], [0;2;4;1;3;5;6]).
Proof. vm_compute. reflexivity. Qed.

(** * Tie to the source (translator): tensor/TensorFunctions.h and TensorMap.h as translated on every run.
    Rank 2: tocolumnmajor writes arr_out[index] = a_data[counter] and torowmajor arr_out[counter] = a_data[index]
    with counter = j*M + i and index = rm_of_counter [M;N] counter = i*N + j - the offsets of the model.  Higher
    ranks: only the odometer loop of the model is accepted, the destination is addressed by `index` in
    tocolumnmajor and the source in torowmajor.  squeeze / reshape / flatten return maps over a.data();
    TensorMap::is_aligned() is false. *)
From FastorV Require Import Gen.GeneratedAccess Proofs.GenLayoutEq.
Theorem C20_source_layout_conversions :
  (forall M N i j, i < M -> j < N ->
     gen_tocolumnmajor_2d M N i j = (rm_of_counter [M; N] (j * M + i), j * M + i) /\
     gen_torowmajor_2d M N i j = (j * M + i, rm_of_counter [M; N] (j * M + i))) /\
  (forall M N i j, gen_torowmajor_2d M N i j = (snd (gen_tocolumnmajor_2d M N i j), fst (gen_tocolumnmajor_2d M N i j))) /\
  gen_layout_general = [(true, false); (false, true)] /\
  gen_map_functions = [true; true; true; true].
Proof. exact (conj gen_layout_2d_eq (conj gen_layout_2d_inverse (conj gen_layout_general_eq gen_map_functions_eq))). Qed.
Print Assumptions C20_source_layout_conversions.
