(** C15 - Multi-tensor einsum is independent of the contraction order the cost model picks.
    PARTIAL: proved are the order-independence of the specification (sums over different
    labels commute) and the refutation of the full statement on the faithful model (known
    finding); the equality "pairwise staging = full Einstein sum" for the correct variants is
    carried by the correspondence, not by a theorem. *)
From Coq Require Import Arith ZArith List.
From FastorV Require Import Base.Scalar Base.BigSum Base.Shape Model.Einsum Model.Network Proofs.NetworkProofs.
Import ListNotations.

(** the full Einstein sum does not depend on the order in which labels are summed *)
Theorem C15_sum_order_independent_partial :
  forall (S : Scalar), RingLaws S ->
  forall l1 d1 l2 d2 r (F : env -> S) e,
    l1 <> l2 -> (forall ea eb, (forall k, ea k = eb k) -> F ea = F eb) ->
    nsum ((l1, d1) :: (l2, d2) :: r) F e = nsum ((l2, d2) :: (l1, d1) :: r) F e.
Proof. exact nsum_swap. Qed.
Print Assumptions C15_sum_order_independent_partial.

(** FULL STATEMENT (what the property asks), for reference:
      forall I0 I1 I2 d0 d1 d2 A B C o, in_range (declared extents) o ->
        network3 ... (flat (declared extents) o) = network3_spec ... o
    It is FALSE of the faithful model: *)
Theorem C15_network3_refuted :
  exists I0 I1 I2 d0 d1 d2 (A B C : nat -> Z) o,
    in_range (out_dims (I0 ++ I1) I2 (d0 ++ d1) d2) o /\
    network3 (S:=ZS) I0 I1 I2 d0 d1 d2 A B C (flat (out_dims (I0 ++ I1) I2 (d0 ++ d1) d2) o)
    <> network3_spec (S:=ZS) I0 I1 I2 d0 d1 d2 A B C o.
Proof. exact network3_refuted. Qed.
Print Assumptions C15_network3_refuted.

(** non-vacuity of the positive direction: a chain ij,jk,kl evaluates to the triple product
    under both pairings the cost model can choose (extents make variant 0, resp. 2, cheapest) *)
Example C15_runs :
  let A := fun p => (Z.of_nat p + 1)%Z in let B := fun p => (Z.of_nat p + 2)%Z in let C := fun p => (Z.of_nat p + 3)%Z in
  (which_variant [0;1] [1;2] [2;3] [2;5] [5;2] [2;5], which_variant [0;1] [1;2] [2;3] [5;2] [2;5] [5;2],
   map (fun o => Z.eqb (network3 (S:=ZS) [0;1] [1;2] [2;3] [2;5] [5;2] [2;5] A B C (flat [2;5] o))
                        (network3_spec (S:=ZS) [0;1] [1;2] [2;3] [2;5] [5;2] [2;5] A B C o)) [[0;0];[1;4];[0;3]],
   map (fun o => Z.eqb (network3 (S:=ZS) [0;1] [1;2] [2;3] [5;2] [2;5] [5;2] A B C (flat [5;2] o))
                        (network3_spec (S:=ZS) [0;1] [1;2] [2;3] [5;2] [2;5] [5;2] A B C o)) [[0;0];[4;1];[3;0]])
  = (0, 2, [true;true;true], [true;true;true]).
Proof. vm_compute. reflexivity. Qed.

(** * Tie to the source (translator): extractor_contract_3::contract_impl (network_contraction.h) with
    triplet_flop_cost (opmin_meta.h), as translated on every run: each branch of which_variant contracts a pair of
    the tensors under their own index lists, names the result by the index list the cost model derives from that
    same pair, and contracts it with the third tensor under the third index list; the branches are the three pairs.
    Four and more tensors (extractor_contract_4..) are tied by the correspondence only. *)
From Coq Require Import Arith Bool.
From FastorV Require Import Gen.GeneratedAccess Proofs.GenAccessEq.
Local Open Scope nat_scope.
Theorem C15_source_three_tensor_orders :
  forallb network3_ok gen_network3 = true /\
  map (fun e : nat * (nat * nat) * (nat * nat) * nat * (nat * nat) * nat * nat * bool => let '(v, p, _, _, _, _, _, _) := e in (v, p)) gen_network3
  = [(0, (0, 1)); (1, (0, 2)); (2, (1, 2))].
Proof. exact gen_network3_ok. Qed.
Print Assumptions C15_source_three_tensor_orders.
