(** C05 - Writing through a slice changes exactly the selected elements and nothing else. *)
From Coq Require Import Arith ZArith List.
From FastorV Require Import Base.Shape Model.Views Proofs.ViewsProofs.
Import ListNotations.

(** every rank, every admissible view, every operator: exactly the selected positions
    receive op(old, rhs element); every other position of the parent and everything
    beyond the parent is unchanged *)
Theorem C05_view_write_exact :
  forall (T : Type) op pdims v (rhs : nat -> T) (A : nat -> T),
    view_ok pdims v ->
    let A' := view_write op pdims v (fun i _ => rhs i) A in
    (forall i, i < prod (vdims v) -> A' (view_off pdims v i) = op (A (view_off pdims v i)) (rhs i)) /\
    (forall p, (forall i, i < prod (vdims v) -> view_off pdims v i <> p) -> A' p = A p) /\
    (forall p, prod pdims <= p -> A' p = A p).
Proof. exact view_write_exact. Qed.
Print Assumptions C05_view_write_exact.

(** selected positions are pairwise distinct and inside the parent *)
Theorem C05_view_off_injective :
  forall pdims v i1 i2, view_ok pdims v -> i1 < prod (vdims v) -> i2 < prod (vdims v) ->
    view_off pdims v i1 = view_off pdims v i2 -> i1 = i2.
Proof. exact view_off_inj. Qed.
Theorem C05_view_off_in_bounds : forall pdims v i, view_ok pdims v -> view_off pdims v i < prod pdims.
Proof. exact view_off_bound. Qed.

(** sequences of writes: each step is exact, so by induction any sequence refines the
    abstract "array of cells" (scatter lemma for arbitrary distinct offsets) *)
Theorem C05_scatter_spec :
  forall (T : Type) (off : nat -> nat) (F : nat -> (nat -> T) -> T) n (A0 : nat -> T),
    (forall i j, i < n -> j < n -> off i = off j -> i = j) ->
    (forall i A A', i < n -> (forall p, (forall i', i' < i -> off i' <> p) -> A p = A' p) -> F i A = F i A') ->
    (forall i, i < n -> scatter off F n A0 (off i) = F i A0) /\
    (forall p, (forall i, i < n -> off i <> p) -> scatter off F n A0 p = A0 p).
Proof. exact scatter_spec. Qed.

Example C05_runs :
  let v := [to_nrange (normnd 6 (mkU 1 (-1) 2))] in
  map (view_write Nat.add [6] v (fun i _ => 100 * (i + 1)) (fun p => p)) (seq 0 8) = [0;101;2;203;4;305;6;7].
Proof. vm_compute. reflexivity. Qed.

(** * Tie to the source by translation (lib/cxx2v.py, re-run on every check): every access site of the parent in
    the non-const 2-D dynamic view class - all five assignment operators, every right-hand-side kind, including the
    FASTOR_USE_VECTORISED_EXPR_ASSIGN code - addresses exactly the offsets of [view_write]: a contiguous vector
    store only in the unit-column-step branch at (f0+i*s0)*N + f1 + j, a scattered store at (f0+i*s0)*N + f1 + j*s1
    with stride s1, a scalar access at row f0+i*s0, column f1+j*s1 *)
From Coq Require Import ZArith List.
From FastorV Require Import Gen.GeneratedViews Proofs.GenViewsEq.
Theorem C05_source_write_sites :
  forall f0 s0 f1 s1 N i j : Z,
    Forall (site_ok f0 s0 f1 s1 N i j) (gen_view2d_write_sites f0 s0 f1 s1 N i j) /\
    40 <= length (gen_view2d_write_sites f0 s0 f1 s1 N i j).
Proof. exact gen_view2d_write_sites_ok. Qed.
Print Assumptions C05_source_write_sites.

(** the same for the compile-time 2-D view class and the dynamic 1-D view class *)
Theorem C05_source_write_sites_fixed2d_and_1d :
  forall F0 S0 F1 S1 N f s i j : Z,
    (Forall (site_ok F0 S0 F1 S1 N i j) (gen_fixedview2d_write_sites F0 S0 F1 S1 N i j) /\ 40 <= length (gen_fixedview2d_write_sites F0 S0 F1 S1 N i j)) /\
    (Forall (site1d_ok f s i j) (gen_view1d_write_sites f s i j) /\ 30 <= length (gen_view1d_write_sites f s i j)).
Proof. intros. exact (conj (gen_fixedview2d_write_sites_ok F0 S0 F1 S1 N i j) (gen_view1d_write_sites_ok f s i j)). Qed.
Print Assumptions C05_source_write_sites_fixed2d_and_1d.

(** the overloads selected for a right-hand side that must be evaluated first (trans(), %, inverse ...), as translated
    from expressions/views/*.h (file, operator of the overload, operator applied to the evaluated temporary): each
    evaluates its own argument and forwards the temporary to the same operator, and every operator has one per class *)
From Coq Require Import Arith.
Import ListNotations.
Theorem C05_source_evaluated_rhs_forwards :
  forallb (fun b => let '(f, op, called) := b in (op =? called)) gen_evalrhs_forwards = true /\
  60 <= length gen_evalrhs_forwards /\
  forall o, In o [0; 1; 2; 3; 4] ->
    5 * length (filter (fun b => let '(f, op, called) := b in op =? o) gen_evalrhs_forwards) = length gen_evalrhs_forwards.
Proof. exact gen_evalrhs_forwards_ok. Qed.
Print Assumptions C05_source_evaluated_rhs_forwards.
