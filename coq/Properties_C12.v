(** C12 - solve(A,b) satisfies A*x = b.  Exact theorems over any field for the substitution loops and the
    LU-based solve as written (models in Model/Linalg.v); the floating-point bound c*n*eps*cond*|b| is measured
    by the correspondence, not proved (PARTIAL).  The inverse-based strategies rest on C10. *)
From Coq Require Import Arith ZArith List Lia.
Import ListNotations.
From FastorV Require Import Base.Scalar Base.Field Model.Linalg Proofs.LinalgProofs.

(** forward_subs solves L*y = b for every size n and every unit lower triangular L *)
Theorem C12_forward_substitution :
  forall (S : Scalar), FieldLaws S -> forall n (Lm : mat S) (b : vec S),
    (forall i, i < n -> Lm i i = s1 S) -> (forall i k, i < k < n -> Lm i k = s0 S) ->
    forall i, i < n -> mvec n Lm (fsub n Lm b) i = b i.
Proof. exact fsub_correct. Qed.
Print Assumptions C12_forward_substitution.

(** backward_subs solves U*x = y for every size and every upper triangular U with non-zero diagonal *)
Theorem C12_backward_substitution :
  forall (S : Scalar), FieldLaws S -> forall n (U : mat S) (y : vec S),
    (forall i, i < n -> U i i <> s0 S) -> (forall i k, k < i < n -> U i k = s0 S) ->
    forall i, i < n -> mvec n U (bsub n U y) i = y i.
Proof. exact bsub_correct. Qed.
Print Assumptions C12_backward_substitution.

(** solve through the (unpivoted) LU factors: A*x = b whenever no pivot vanishes *)
Theorem C12_lu_solve :
  forall (S : Scalar), FieldLaws S -> forall n (A : mat S) (b : vec S),
    (forall j, j < n -> lu_U n A j j <> s0 S) ->
    forall i, i < n -> mvec n A (lu_solve n A b) i = b i.
Proof. exact lu_solve_correct. Qed.
Print Assumptions C12_lu_solve.

(** non-vacuity: a 3x3 integer system with unit pivots (run over Z, where the divisions are exact) *)
Example C12_runs :
  let A : mat ZS := fun i j => nth j (nth i [[1; 2; 0]; [1; 3; 1]; [0; 1; 2]]%Z nil) 0%Z in
  let b : vec ZS := fun i => nth i [5; 10; 8]%Z 0%Z in
  (map (lu_solve 3 A b) [0; 1; 2], map (mvec 3 A (lu_solve 3 A b)) [0; 1; 2]) = ([1; 2; 3]%Z, [5; 10; 8]%Z).
Proof. vm_compute. reflexivity. Qed.

(** * SimpleInvPiv: inverse / solve through the pre-pivoted matrix.  If X inverts P*A (rows of A gathered
    by a bijection P) then reconstruct_colwise(X,P), as written in unary_piv_op.h, inverts A - over any scalar. *)
From FastorV Require Import Model.Pivot Proofs.PivotProofs.
Theorem C12_colwise_reconstruction_inverts :
  forall (S : Scalar) n (A X : nat -> nat -> S) P, bij n P ->
    (forall i j, (i < n)%nat -> (j < n)%nat -> mmf S n (fun r c => A (P r) c) X i j = if (i =? j)%nat then s1 S else s0 S) ->
    forall r q, (r < n)%nat -> (q < n)%nat -> mmf S n A (reconstruct_colwise n X P) r q = if (r =? q)%nat then s1 S else s0 S.
Proof. exact colwise_inverse. Qed.
Print Assumptions C12_colwise_reconstruction_inverts.

(** * Dependency on the triangular kernels.  The block / recursive strategies compute their off-diagonal blocks
    with tmatmul and tinverse (unary_lu_op.h, unary_inv_op.h); what is proved about those kernels is C17.  The tie of
    the C17 model to the source - k-range clipping and the drivers' blocking, call sites and tag passing, as translated
    by lib/cxx2v.py on this run - is therefore re-checked here as well. *)
From FastorV Require Import Model.Cfg Model.TMatmul Gen.Generated Proofs.GenEq.
Theorem C12_depends_on_tmatmul_source_tie :
  (forall tl tr K R C i j, gen_find_kfirst tl tr i j = find_kfirst tl tr i j /\ gen_find_klast tl tr K R C i j = find_klast tl tr K R C i j) /\
  (forall c W M K N,
     gen_tmbase_calls (outer_block c) (inner_block c) W M K N = model_tm_calls c W M N false /\
     gen_tmbase_masked_calls (outer_block c) (inner_block c) W M K N = model_tm_calls c W M N true /\
     gen_tmbase_loops (outer_block c) (inner_block c) W M K N = model_loops c W M N false /\
     gen_tmbase_masked_loops (outer_block c) (inner_block c) W M K N = model_loops c W M N true).
Proof.
  split.
  - intros. exact (conj (gen_find_kfirst_eq tl tr i j) (gen_find_klast_eq tl tr K R C i j)).
  - intros. exact (conj (gen_tmbase_calls_eq c W M K N) (conj (gen_tmbase_masked_calls_eq c W M K N)
      (conj (gen_tmbase_loops_eq c W M K N) (gen_tmbase_masked_loops_eq c W M K N)))).
Qed.
