(** C19 - Index-tensor and boolean-mask views select and update exactly the indexed items. *)
From Coq Require Import Arith List Bool.
From FastorV Require Import Base.Shape Model.Views Model.RandomViews Proofs.RandomViewsProofs.
Import ListNotations.

(** reading: exactly the indexed positions, in index-tensor order, repeats allowed *)
Theorem C19_read_exact :
  forall (T : Type) (A : nat -> T) idx k d, k < length idx -> nth k (rv_read A idx) d = A (nth k idx 0).
Proof. exact rv_read_exact. Qed.
Print Assumptions C19_read_exact.

(** one index tensor per axis: the precomputed flat index of (it0(i), it1(j)) is the
    row-major offset of that element; duplicate-free, in-range index tensors give
    duplicate-free flat indices *)
Theorem C19_flat_indices :
  forall nrows ncols it0 it1 i j, i < length it0 -> j < length it1 -> nth j it1 0 < ncols ->
    nth (i * length it1 + j) (idx2 ncols it0 it1) 0 = flat [nrows; ncols] [nth i it0 0; nth j it1 0].
Proof. exact idx2_is_flat. Qed.
Theorem C19_flat_indices_nodup :
  forall ncols it0 it1, NoDup it0 -> NoDup it1 -> (forall b, In b it1 -> b < ncols) -> NoDup (idx2 ncols it0 it1).
Proof. exact idx2_NoDup. Qed.

(** writing with duplicate-free indices: exactly those positions are updated, no others *)
Theorem C19_write_exact :
  forall (T : Type) op idx (rhs : nat -> T) (A : nat -> T), NoDup idx ->
    (forall k, k < length idx -> rv_write op idx rhs A (nth k idx 0) = op (A (nth k idx 0)) (rhs k)) /\
    (forall p, ~ In p idx -> rv_write op idx rhs A p = A p).
Proof. exact rv_write_exact. Qed.
Print Assumptions C19_write_exact.

(** boolean mask: exactly the true positions, with the right-hand side at the same position *)
Theorem C19_filter_exact :
  forall (T : Type) op mask (rhs : nat -> T) n (A : nat -> T) p,
    filter_write op mask rhs n A p = if (p <? n) && mask p then op (A p) (rhs p) else A p.
Proof. exact filter_write_exact. Qed.

Example C19_runs :
  (rv_read (fun p => 10 + p) [4;0;4;2], idx2 5 [2;0] [1;4;3],
   map (filter_write Nat.add (fun p => Nat.odd p) (fun p => 100) 5 (fun p => p)) (seq 0 6))
  = ([14;10;14;12], [11;14;13;1;4;3], [0;101;2;103;4;5]).
Proof. vm_compute. reflexivity. Qed.
