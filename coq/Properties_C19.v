(** C19 - Index-tensor and boolean-mask views select and update exactly the indexed items. *)
From Coq Require Import Arith List Bool.
From FastorV Require Import Base.Shape Model.Views Model.RandomViews Proofs.RandomViewsProofs.
Import ListNotations.

(** reading: exactly the indexed positions, in index-tensor order, repeats allowed *)
Theorem C19_read_exact :
  forall (T : Type) (A : nat -> T) idx k d, k < length idx -> nth k (rv_read A idx) d = A (nth k idx 0).
Proof. exact rv_read_exact. Qed.
Print Assumptions C19_read_exact.

(** one index tensor per axis: the precomputed flat index of (it0(i), it1(j)) is the
    row-major offset of that element; duplicate-free, in-range index tensors give
    duplicate-free flat indices *)
Theorem C19_flat_indices :
  forall nrows ncols it0 it1 i j, i < length it0 -> j < length it1 -> nth j it1 0 < ncols ->
    nth (i * length it1 + j) (idx2 ncols it0 it1) 0 = flat [nrows; ncols] [nth i it0 0; nth j it1 0].
Proof. exact idx2_is_flat. Qed.
Theorem C19_flat_indices_nodup :
  forall ncols it0 it1, NoDup it0 -> NoDup it1 -> (forall b, In b it1 -> b < ncols) -> NoDup (idx2 ncols it0 it1).
Proof. exact idx2_NoDup. Qed.

(** writing with duplicate-free indices: exactly those positions are updated, no others *)
Theorem C19_write_exact :
  forall (T : Type) op idx (rhs : nat -> T) (A : nat -> T), NoDup idx ->
    (forall k, k < length idx -> rv_write op idx rhs A (nth k idx 0) = op (A (nth k idx 0)) (rhs k)) /\
    (forall p, ~ In p idx -> rv_write op idx rhs A p = A p).
Proof. exact rv_write_exact. Qed.
Print Assumptions C19_write_exact.

(** boolean mask: exactly the true positions, with the right-hand side at the same position *)
Theorem C19_filter_exact :
  forall (T : Type) op mask (rhs : nat -> T) n (A : nat -> T) p,
    filter_write op mask rhs n A p = if (p <? n) && mask p then op (A p) (rhs p) else A p.
Proof. exact filter_write_exact. Qed.

Example C19_runs :
  (rv_read (fun p => 10 + p) [4;0;4;2], idx2 5 [2;0] [1;4;3],
   map (filter_write Nat.add (fun p => Nat.odd p) (fun p => 100) 5 (fun p => p)) (seq 0 6))
  = ([14;10;14;12], [11;14;13;1;4;3], [0;101;2;103;4;5]).
Proof. vm_compute. reflexivity. Qed.

(** * Tie to the source by translation (lib/cxx2v.py, re-run on every check): the flat index that each of the
    ten index-tensor overloads of operator() in tensor/BlockIndexing.h (five forms, non-const and const copies)
    stores in tmp_it is the corresponding entry of the model's index lists; the compile-time range is
    normalised against the column count in A(it, fseq) and the row count in A(fseq, it) *)
From Coq Require Import ZArith.
From FastorV Require Import Gen.GeneratedViews Proofs.GenViewsEq.
Theorem C19_source_flat_indices :
  forall a b num f s ncols i j : Z,
  (gen_bidx_it_it_nonconst a b num f s ncols i j = a * ncols + b /\ gen_bidx_it_it_const a b num f s ncols i j = a * ncols + b)%Z /\
  (gen_bidx_it_num_nonconst a b num f s ncols i j = a * ncols + num /\ gen_bidx_it_num_const a b num f s ncols i j = a * ncols + num)%Z /\
  (gen_bidx_num_it_nonconst a b num f s ncols i j = num * ncols + a /\ gen_bidx_num_it_const a b num f s ncols i j = num * ncols + a)%Z /\
  (gen_bidx_it_fseq_nonconst a b num f s ncols i j = a * ncols + (f + j * s) /\ gen_bidx_it_fseq_const a b num f s ncols i j = a * ncols + (f + j * s))%Z /\
  (gen_bidx_fseq_it_nonconst a b num f s ncols i j = (f + i * s) * ncols + b /\ gen_bidx_fseq_it_const a b num f s ncols i j = (f + i * s) * ncols + b)%Z /\
  (gen_bidx_it_fseq_axis_nonconst = 2 /\ gen_bidx_it_fseq_axis_const = 2 /\ gen_bidx_fseq_it_axis_nonconst = 1 /\ gen_bidx_fseq_it_axis_const = 1).
Proof. exact gen_bidx_eq. Qed.
Print Assumptions C19_source_flat_indices.

Theorem C19_idx2_entries :
  forall ncols it0 it1 i j, i < length it0 -> j < length it1 ->
    nth (i * length it1 + j) (idx2 ncols it0 it1) 0 = nth i it0 0 * ncols + nth j it1 0.
Proof. exact idx2_nth. Qed.
